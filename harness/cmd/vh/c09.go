//go:build verif_c09

package main

// C09 — formula evaluation is total, terminating, deterministic and side-effect free.
//
// Transcript ops (model-compared, see lean/XlModel/Drv/C09.lean):
//   ev <tok>*            the real evalInfixExp on an arbitrary token list (hook VerifC09EvalTokens)
//   opn b m s c x<0|1>   opened (saved + zip-rewritten) workbook, cell evaluated 3x + fresh (see c09opn.go)
//   cyc M e d0 d1 …      CalcCellValue on a reference graph with MaxCalcIterations = M (hook VerifC09CalcTrace)
// Direct-oracle ops (not modelled; run in isolated worker processes, see c09worker.go):
//   fn NAME k1 k2 …      =NAME(<kind k1>,<kind k2>,…) through CalcCellValue on the fixture workbook
//   txt <hex formula>    arbitrary formula text through CalcCellValue on the fixture workbook
//
// Oracles: no panic / no crash / bounded time, evaluating twice gives the same
// answer (volatile functions excepted, list extracted from the source),
// workbook observation before == after.

import (
	"encoding/json"
	"fmt"
	"math"
	"os"
	"regexp"
	"runtime"
	"sort"
	"strconv"
	"strings"

	"github.com/xuri/efp"
	xl "github.com/xuri/excelize/v2"
)

func init() {
	if os.Getenv("VH_C09_WORKER") != "" {
		c09WorkerMain() // never returns
	}
	props["C09"] = runC09
}

// ---------------------------------------------------------------- token codec

var c09TyChar = map[string]byte{"": '_', efp.TokenTypeNoop: 'n', efp.TokenTypeOperand: 'o', efp.TokenTypeFunction: 'f',
	efp.TokenTypeSubexpression: 's', efp.TokenTypeArgument: 'a', efp.TokenTypeOperatorPrefix: 'p',
	efp.TokenTypeOperatorInfix: 'i', efp.TokenTypeOperatorPostfix: 'x', efp.TokenTypeWhitespace: 'w', efp.TokenTypeUnknown: 'u'}
var c09SubChar = map[string]byte{"": '_', efp.TokenSubTypeStart: 'S', efp.TokenSubTypeStop: 'E', efp.TokenSubTypeText: 't',
	efp.TokenSubTypeNumber: 'n', efp.TokenSubTypeLogical: 'l', efp.TokenSubTypeError: 'e', efp.TokenSubTypeRange: 'r',
	efp.TokenSubTypeMath: 'm', efp.TokenSubTypeConcatenation: 'c', efp.TokenSubTypeIntersection: 'i', efp.TokenSubTypeUnion: 'u'}

func c09Rev(m map[string]byte) map[byte]string {
	r := map[byte]string{}
	for k, v := range m {
		r[v] = k
	}
	return r
}

var c09TyOf, c09SubOf = c09Rev(c09TyChar), c09Rev(c09SubChar)

func c09EncTok(t efp.Token) (string, bool) {
	a, ok1 := c09TyChar[t.TType]
	b, ok2 := c09SubChar[t.TSubType]
	if !ok1 || !ok2 {
		return "", false
	}
	return string([]byte{a, b}) + hx(t.TValue), true
}

func c09EncToks(ts []efp.Token) (string, bool) {
	parts := make([]string, 0, len(ts)+1)
	parts = append(parts, "ev")
	for _, t := range ts {
		s, ok := c09EncTok(t)
		if !ok {
			return "", false
		}
		parts = append(parts, s)
	}
	return strings.Join(parts, " "), true
}

func c09DecToks(ws []string) ([]efp.Token, bool) {
	var out []efp.Token
	for _, w := range ws {
		if len(w) < 3 {
			return nil, false
		}
		ty, ok1 := c09TyOf[w[0]]
		sub, ok2 := c09SubOf[w[1]]
		if !ok1 || !ok2 {
			return nil, false
		}
		out = append(out, efp.Token{TValue: unhx(w[2:]), TType: ty, TSubType: sub})
	}
	return out, true
}

func c09Shape(ts []efp.Token) string {
	var b strings.Builder
	for i, t := range ts {
		if i > 0 {
			b.WriteByte(' ')
		}
		b.WriteByte(c09TyChar[t.TType])
		b.WriteByte(c09SubChar[t.TSubType])
		if t.TType == efp.TokenTypeFunction && t.TSubType == efp.TokenSubTypeStart {
			b.WriteString(":" + t.TValue)
		}
	}
	return b.String()
}

// ---------------------------------------------------------------- ev: evalInfixExp on tokens

// fixture sheet of the ev stream (mirrored by `fixture` in Drv/C09.lean)
func c09EvFile() *xl.File {
	f := xl.NewFile()
	must(f.SetCellValue("Sheet1", "A1", 1))
	must(f.SetCellValue("Sheet1", "A2", 2))
	must(f.SetCellValue("Sheet1", "A3", "x"))
	must(f.SetCellValue("Sheet1", "B1", true))
	must(f.SetCellFormula("Sheet1", "Z9", "0"))
	return f
}

func c09ShowArg(a xl.VerifC09Arg) string {
	switch a.Kind {
	case "num":
		return "num:" + c09Round12(math.Float64frombits(a.Bits))
	case "bool":
		if math.Float64frombits(a.Bits) == 1 {
			return "bool:1"
		}
		return "bool:0"
	case "str":
		return "str:" + hx(a.Str)
	case "err":
		return "errv"
	case "matrix":
		return "matrix:" + strconv.Itoa(a.Rows)
	}
	return a.Kind
}

// c09Round12: a number rounded to 12 significant digits as <sign><digits>e<exp10> (see round12 in Drv/C09.lean)
func c09Round12(x float64) string {
	switch {
	case math.IsNaN(x):
		return "NaN"
	case x == 0:
		if math.Signbit(x) {
			return "-0"
		}
		return "0"
	case math.IsInf(x, 1):
		return "Inf"
	case math.IsInf(x, -1):
		return "-Inf"
	}
	s := strconv.FormatFloat(x, 'e', 11, 64) // d.ddddddddddde±XX
	sign := ""
	if s[0] == '-' {
		sign, s = "-", s[1:]
	}
	i := strings.IndexByte(s, 'e')
	mant, exp := strings.Replace(s[:i], ".", "", 1), s[i+1:]
	e, _ := strconv.Atoi(exp)
	return sign + mant + "e" + strconv.Itoa(e)
}

// c09PanicSite names the innermost excelize function on the panicking stack and the panic class.
func c09PanicSite(p interface{}) string {
	msg := fmt.Sprint(p)
	kind := "other"
	for _, k := range []string{"index out of range", "nil pointer dereference", "interface conversion", "slice bounds out of range",
		"integer divide by zero", "makeslice", "out of memory", "negative Repeat count", "Repeat output length overflow", "Repeat count causes overflow",
		"negative shift", "reflect:", "regexp:", "assignment to entry in nil map", "makechan", "invalid argument to Int"} {
		if strings.Contains(msg, k) {
			kind = strings.ReplaceAll(strings.TrimSuffix(k, ":"), " ", "-")
			break
		}
	}
	pcs := make([]uintptr, 64)
	n := runtime.Callers(3, pcs)
	frames := runtime.CallersFrames(pcs[:n])
	site := "?"
	for {
		fr, more := frames.Next()
		if strings.Contains(fr.Function, "xuri/excelize") && !strings.Contains(fr.Function, "Verif") {
			site = fr.Function[strings.LastIndex(fr.Function, "/")+1:]
			site = strings.TrimPrefix(site, "v2.")
			site = strings.NewReplacer("(*", "", ")", "").Replace(site)
			if i := strings.Index(site, ".func"); i > 0 {
				site = site[:i]
			}
			break
		}
		if !more {
			break
		}
	}
	return site + ":" + kind
}

// c09Ev runs one token list; fromText != "" means the list was produced by efp from that formula
// text, so a panic is a property failure (otherwise only the model's prediction is compared).
func c09Ev(r *Run, f *xl.File, toks []efp.Token, fromText, class string) {
	op, ok := c09EncToks(toks)
	if !ok {
		r.Stat("ev:unencodable")
		return
	}
	res, site := "", ""
	func() {
		defer func() {
			if p := recover(); p != nil {
				res, site = "PANIC", c09PanicSite(p)
			}
		}()
		a, err := xl.VerifC09EvalTokens(f, "Sheet1", "Z9", toks)
		if err != nil {
			res = "ERR"
		} else {
			res = "ok " + c09ShowArg(a)
		}
	}()
	hyp := c09NestedA(toks)
	outcome := res
	if hyp {
		res += " h=1"
	} else {
		res += " h=0"
	}
	ln := r.Op(op, res)
	r.Case(op, len(toks) > 0)
	r.Stat("ev:" + class)
	r.Stat("ev:outcome:" + strings.SplitN(res, " ", 2)[0])
	if hyp {
		r.Stat("ev:hypothesis-of-eval_no_panic-holds")
	}
	if fromText != "" && fromText != "replay" && !hyp {
		// efp-derived but outside the theorem's hypothesis (';' or a function named ARRAYROW outside an array constant)
		r.Stat("ev:efp-tokens-outside-nestedA")
	}
	if outcome == "PANIC" {
		if hyp {
			// the Lean theorem eval_no_panic says this cannot happen, whatever produced the list
			r.Fail("ev:panic-on-nested-list@"+site, fmt.Sprintf("evalInfixExp panics (%s) on a token list that satisfies the nesting discipline [%s]", site, c09Shape(toks)), ln, op)
		} else if fromText != "" {
			r.Fail("ev:panic@"+site+" shape["+c09Shape(toks)+"]", fmt.Sprintf("evalInfixExp panics (%s) on the efp tokens of formula %q", site, fromText), ln, op)
		} else {
			r.Stat("ev:panic-on-non-efp-tokens")
		}
	}
}

// c09NestedA is the hypothesis of the Lean theorem eval_no_panic (XlModel.CalcTotal.nestedA [] []
// toks: the array-aware nesting discipline a bracket-stack tokenizer guarantees), re-implemented
// here; the transcript compares it with the Lean checker on every ev line.
// Frames: 'F' function call, 'P' parenthesis, 'a' array constant, 'r' array constant with an open row.
func c09NestedA(toks []efp.Token) bool {
	var inner, outer []byte // innermost last; inner = since the outermost open function call
	top := func(s []byte) byte {
		if len(s) == 0 {
			return 0
		}
		return s[len(s)-1]
	}
	// scanA: the innermost array frame not separated from the top by a function frame
	scanIdx := func(s []byte) int {
		for i := len(s) - 1; i >= 0; i-- {
			switch s[i] {
			case 'F':
				return -1
			case 'a', 'r':
				return i
			}
		}
		return -1
	}
	for _, t := range toks {
		fn, sub := t.TType == efp.TokenTypeFunction, t.TType == efp.TokenTypeSubexpression
		cur := &outer
		if len(inner) > 0 {
			cur = &inner
		}
		switch {
		case fn && t.TSubType == efp.TokenSubTypeStart && t.TValue == "ARRAY":
			*cur = append(*cur, 'a')
		case fn && t.TSubType == efp.TokenSubTypeStart && t.TValue == "ARRAYROW":
			// a row of the array constant the token belongs to (found through parentheses), if it has
			// no open row; anywhere else an ordinary function start
			if i := scanIdx(*cur); i >= 0 && (*cur)[i] == 'a' {
				(*cur)[i] = 'r'
			} else {
				inner = append(inner, 'F')
			}
		case fn && t.TSubType == efp.TokenSubTypeStart:
			inner = append(inner, 'F')
		case fn && t.TSubType == efp.TokenSubTypeStop:
			if top(*cur) == 'F' {
				*cur = (*cur)[:len(*cur)-1]
			} else if i := scanIdx(*cur); i >= 0 { // the open row / the array constant, through parentheses
				if (*cur)[i] == 'r' {
					(*cur)[i] = 'a'
				} else {
					*cur = append((*cur)[:i], (*cur)[i+1:]...)
				}
			} else if len(inner) > 0 {
				return false // a parenthesis is open inside the innermost function call
			} // else: nothing in reach out of the function stack, tolerated
		case t.TType == efp.TokenTypeArgument: // anywhere
		case sub && t.TSubType == efp.TokenSubTypeStart:
			*cur = append(*cur, 'P')
		case sub && t.TSubType == efp.TokenSubTypeStop:
			if top(*cur) != 'P' {
				return false
			}
			*cur = (*cur)[:len(*cur)-1]
		}
	}
	return true
}

var c09EvAlphabet = []efp.Token{
	{TValue: "1", TType: efp.TokenTypeOperand, TSubType: efp.TokenSubTypeNumber},
	{TValue: "2", TType: efp.TokenTypeOperand, TSubType: efp.TokenSubTypeNumber},
	{TValue: "a", TType: efp.TokenTypeOperand, TSubType: efp.TokenSubTypeText},
	{TValue: "A1", TType: efp.TokenTypeOperand, TSubType: efp.TokenSubTypeRange},
	{TValue: "+", TType: efp.TokenTypeOperatorInfix, TSubType: efp.TokenSubTypeMath},
	{TValue: "<", TType: efp.TokenTypeOperatorInfix, TSubType: efp.TokenSubTypeLogical},
	{TValue: "-", TType: efp.TokenTypeOperatorPrefix},
	{TValue: "%", TType: efp.TokenTypeOperatorPostfix},
	{TValue: "", TType: efp.TokenTypeSubexpression, TSubType: efp.TokenSubTypeStart},
	{TValue: "", TType: efp.TokenTypeSubexpression, TSubType: efp.TokenSubTypeStop},
	{TValue: "SUM", TType: efp.TokenTypeFunction, TSubType: efp.TokenSubTypeStart},
	{TValue: "*", TType: efp.TokenTypeFunction, TSubType: efp.TokenSubTypeStart},
	{TValue: "ARRAY", TType: efp.TokenTypeFunction, TSubType: efp.TokenSubTypeStart},
	{TValue: "ARRAYROW", TType: efp.TokenTypeFunction, TSubType: efp.TokenSubTypeStart},
	{TValue: "", TType: efp.TokenTypeFunction, TSubType: efp.TokenSubTypeStop},
	{TValue: ",", TType: efp.TokenTypeArgument},
	{TValue: "", TType: efp.TokenTypeOperatorInfix, TSubType: efp.TokenSubTypeIntersection},
}

var c09EvExtra = []efp.Token{
	{TValue: "0", TType: efp.TokenTypeOperand, TSubType: efp.TokenSubTypeNumber},
	{TValue: "0.5", TType: efp.TokenTypeOperand, TSubType: efp.TokenSubTypeNumber},
	{TValue: "10", TType: efp.TokenTypeOperand, TSubType: efp.TokenSubTypeNumber},
	{TValue: "", TType: efp.TokenTypeOperand, TSubType: efp.TokenSubTypeText},
	{TValue: "12", TType: efp.TokenTypeOperand, TSubType: efp.TokenSubTypeText},
	{TValue: "TRUE", TType: efp.TokenTypeOperand, TSubType: efp.TokenSubTypeLogical},
	{TValue: "FALSE", TType: efp.TokenTypeOperand, TSubType: efp.TokenSubTypeLogical},
	{TValue: "#N/A", TType: efp.TokenTypeOperand, TSubType: efp.TokenSubTypeError},
	{TValue: "A2", TType: efp.TokenTypeOperand, TSubType: efp.TokenSubTypeRange},
	{TValue: "A3", TType: efp.TokenTypeOperand, TSubType: efp.TokenSubTypeRange},
	{TValue: "A4", TType: efp.TokenTypeOperand, TSubType: efp.TokenSubTypeRange},
	{TValue: "B1", TType: efp.TokenTypeOperand, TSubType: efp.TokenSubTypeRange},
	{TValue: "A1:A2", TType: efp.TokenTypeOperand, TSubType: efp.TokenSubTypeRange},
	{TValue: "A3:A4", TType: efp.TokenTypeOperand, TSubType: efp.TokenSubTypeRange},
	{TValue: "A0", TType: efp.TokenTypeOperand, TSubType: efp.TokenSubTypeRange},
	{TValue: "-", TType: efp.TokenTypeOperatorInfix, TSubType: efp.TokenSubTypeMath},
	{TValue: "*", TType: efp.TokenTypeOperatorInfix, TSubType: efp.TokenSubTypeMath},
	{TValue: "/", TType: efp.TokenTypeOperatorInfix, TSubType: efp.TokenSubTypeMath},
	{TValue: "^", TType: efp.TokenTypeOperatorInfix, TSubType: efp.TokenSubTypeMath},
	{TValue: "&", TType: efp.TokenTypeOperatorInfix, TSubType: efp.TokenSubTypeConcatenation},
	{TValue: "=", TType: efp.TokenTypeOperatorInfix, TSubType: efp.TokenSubTypeLogical},
	{TValue: "<>", TType: efp.TokenTypeOperatorInfix, TSubType: efp.TokenSubTypeLogical},
	{TValue: ">=", TType: efp.TokenTypeOperatorInfix, TSubType: efp.TokenSubTypeLogical},
	{TValue: "+", TType: efp.TokenTypeOperatorPrefix},
	{TValue: ",", TType: efp.TokenTypeOperatorInfix, TSubType: efp.TokenSubTypeUnion},
	{TValue: "NA", TType: efp.TokenTypeFunction, TSubType: efp.TokenSubTypeStart},
	{TValue: "FOO", TType: efp.TokenTypeFunction, TSubType: efp.TokenSubTypeStart},
	{TValue: "-", TType: efp.TokenTypeFunction, TSubType: efp.TokenSubTypeStart},
	{TValue: "", TType: efp.TokenTypeWhitespace},
	{TValue: "?", TType: efp.TokenTypeUnknown},
}

// structured formula text over the operand dictionary of the model
func c09GenExpr(rng *Rng, depth int) string {
	atoms := []string{"1", "2", "0", "10", "0.5", `"a"`, `""`, `"12"`, "TRUE", "FALSE", "A1", "A2", "A3", "A4", "B1", "$A$1"}
	if depth <= 0 || rng.Chance(30) {
		return rng.Pick(atoms)
	}
	switch rng.Intn(12) {
	case 0, 1, 2, 3:
		return c09GenExpr(rng, depth-1) + rng.Pick([]string{"+", "-", "*", "/", "&", "=", "<>", "<", "<=", ">", ">=", "^", "+", "-"}) + c09GenExpr(rng, depth-1)
	case 4:
		return "(" + c09GenExpr(rng, depth-1) + ")"
	case 5:
		return "-" + c09GenExpr(rng, depth-1)
	case 6:
		return c09GenExpr(rng, depth-1) + "%"
	case 7, 8:
		n := rng.Intn(4)
		args := make([]string, n)
		for i := range args {
			if rng.Chance(10) {
				args[i] = ""
			} else if rng.Chance(25) {
				args[i] = rng.Pick([]string{"A1:A2", "A1:B1", "A3:A4", "A1"})
			} else {
				args[i] = c09GenExpr(rng, depth-1)
			}
		}
		return rng.Pick([]string{"SUM", "SUM", "SUM", "NA", "FOO", "_xlfn.SUM"}) + "(" + strings.Join(args, ",") + ")"
	case 9:
		rows := make([]string, 1+rng.Intn(2))
		for i := range rows {
			cells := make([]string, 1+rng.Intn(3))
			for j := range cells {
				cells[j] = rng.Pick([]string{"1", "2", `"a"`, "TRUE", "0.5"})
			}
			rows[i] = strings.Join(cells, ",")
		}
		return "{" + strings.Join(rows, ";") + "}"
	case 10:
		return c09GenExpr(rng, depth-1) + " " + c09GenExpr(rng, depth-1)
	default:
		return rng.Pick([]string{"'*'", "'-'", "'+'", "'='", "'<'", "'&'", "'^'"}) + "(" + c09GenExpr(rng, depth-1) + rng.Pick([]string{" ", ",", "+"}) + c09GenExpr(rng, depth-1) + ")"
	}
}

func c09Mutate(rng *Rng, ts []efp.Token) []efp.Token {
	out := append([]efp.Token{}, ts...)
	n := 1 + rng.Intn(2)
	for k := 0; k < n; k++ {
		all := append(append([]efp.Token{}, c09EvAlphabet...), c09EvExtra...)
		switch rng.Intn(5) {
		case 0: // delete
			if len(out) > 0 {
				i := rng.Intn(len(out))
				out = append(out[:i], out[i+1:]...)
			}
		case 1: // duplicate
			if len(out) > 0 {
				i := rng.Intn(len(out))
				out = append(out[:i+1], out[i:]...)
			}
		case 2: // swap
			if len(out) > 1 {
				i, j := rng.Intn(len(out)), rng.Intn(len(out))
				out[i], out[j] = out[j], out[i]
			}
		case 3: // insert
			i := rng.Intn(len(out) + 1)
			t := all[rng.Intn(len(all))]
			out = append(out[:i], append([]efp.Token{t}, out[i:]...)...)
		default: // replace
			if len(out) > 0 {
				out[rng.Intn(len(out))] = all[rng.Intn(len(all))]
			}
		}
	}
	return out
}

// witnesses of the two evaluator-core defects found by this check (fixed in the repository;
// kept so that a regression is reproduced deterministically)
var c09EvWitnesses = []string{"({1}+SUM(2))", "'*'(1 2+3)", "SUM(1 '*'(2+3))", "'-'(1 2-3)", "'='(1 2=3)", "({1;2}+SUM(2)+(3))",
	"1)", "SUM(1))", ")", "{1}+SUM(2)", "SUM((1,2))", "SUM(,)", "{SUM(1)}", "SUM({1}{2})", "1%%", "--1", "SUM(A1:A2,A1)", "SUM(A1:A2 A1)",
	"SUM(({1,2}))", "SUM((1+{1,2}))", "LOOKUP((2,/{1,2,3},{\"a\",\"b\",\"c\"})", "SUM(0:0)", "1:0", "SUM(1:1048577)", "{(SUM(1))}", "SUM({(SUM(1))})", "{1,(SUM(1))}", "{(1)}", "SUM((ARRAYROW(1)))", "{1)(ARRAYROW(2))}", "SUM({1)(ARRAYROW(2))})", "SUM((SUM(;1)))", "SUM((1;2))", "ARRAYROW(1)", "SUM((ARRAY(1)))", "O;FFSET(A1,1,1)", "SUM(({{1}}))", "SUM((SUM({SUM({1})})))", "SUM({{1,2};{3}})", "{{1}}+SUM((({{2}})))", "({{1}})", "SUM({{1}})", "{SUM(1,2)}", "SUM({SUM(1,2)},{3})", "1+", "SUM(1+)", "1*", "-", "(1+)", "1&", "SUM(1,)", "SUM(+)", "1<", "(({1}))", "SUM(({1}))", "({1})+SUM(1,(2))", "'*'((1 2)+3)", "SUM('*'(1,2) 3+4)"}

func c09EvStream(r *Run, rng *Rng) {
	f := c09EvFile()
	defer f.Close()
	parse := func(s string) []efp.Token { ps := efp.ExcelParser(); return ps.Parse(s) }
	for _, w := range c09EvWitnesses {
		c09Ev(r, f, parse(w), w, "witness")
	}
	// exhaustive short lists over the core alphabet
	maxLen := 3
	if r.Tier == "thorough" {
		maxLen = 4
	}
	var rec func(cur []efp.Token)
	rec = func(cur []efp.Token) {
		if len(cur) > 0 {
			c09Ev(r, f, cur, "", "exhaustive")
		}
		if len(cur) == maxLen {
			return
		}
		for _, t := range c09EvAlphabet {
			rec(append(append([]efp.Token{}, cur...), t))
		}
	}
	rec(nil)
	nText, nMut := 1500, 2500
	if r.Tier == "thorough" {
		nText, nMut = 20000, 60000
	}
	var pool [][]efp.Token
	for i := 0; i < nText; i++ {
		s := c09GenExpr(rng, 1+rng.Intn(4))
		ts := parse(s)
		if ts == nil {
			continue
		}
		if i < 3 {
			r.Sample("formula " + s + " => " + c09Shape(ts))
		}
		c09Ev(r, f, ts, s, "efp-text")
		pool = append(pool, ts)
	}
	for i := 0; i < nMut && len(pool) > 0; i++ {
		c09Ev(r, f, c09Mutate(rng, pool[rng.Intn(len(pool))]), "", "token-mutation")
	}
}

// ---------------------------------------------------------------- cyc: reference graphs

type c09Cell struct {
	leaf   bool
	c      int
	refs   []int // sum of single references
	lo, hi int   // SUM(range) when isRange
	isRng  bool
}

func (c c09Cell) enc() string {
	if c.leaf {
		return "L" + strconv.Itoa(c.c)
	}
	if c.isRng {
		return fmt.Sprintf("S%d:%d:%d", c.c, c.lo, c.hi)
	}
	rs := make([]string, len(c.refs))
	for i, x := range c.refs {
		rs[i] = strconv.Itoa(x)
	}
	return fmt.Sprintf("F%d:%s", c.c, strings.Join(rs, ","))
}

func c09CellName(i int) string { return "A" + strconv.Itoa(i+1) }

func (c c09Cell) formula() string {
	if c.isRng {
		return fmt.Sprintf("SUM(%s:%s)+%d", c09CellName(c.lo), c09CellName(c.hi), c.c)
	}
	var b strings.Builder
	for _, x := range c.refs {
		b.WriteString(c09CellName(x) + "+")
	}
	b.WriteString(strconv.Itoa(c.c))
	return b.String()
}

func c09ParseCell(w string) (c09Cell, bool) {
	if len(w) < 2 {
		return c09Cell{}, false
	}
	switch w[0] {
	case 'L':
		v, err := strconv.Atoi(w[1:])
		return c09Cell{leaf: true, c: v}, err == nil
	case 'F':
		p := strings.SplitN(w[1:], ":", 2)
		if len(p) != 2 {
			return c09Cell{}, false
		}
		v, err := strconv.Atoi(p[0])
		c := c09Cell{c: v}
		if p[1] != "" {
			for _, s := range strings.Split(p[1], ",") {
				x, e := strconv.Atoi(s)
				if e != nil {
					return c, false
				}
				c.refs = append(c.refs, x)
			}
		}
		return c, err == nil
	case 'S':
		p := strings.Split(w[1:], ":")
		if len(p) != 3 {
			return c09Cell{}, false
		}
		v, e1 := strconv.Atoi(p[0])
		lo, e2 := strconv.Atoi(p[1])
		hi, e3 := strconv.Atoi(p[2])
		return c09Cell{c: v, lo: lo, hi: hi, isRng: true}, e1 == nil && e2 == nil && e3 == nil
	}
	return c09Cell{}, false
}

var c09ItRe = regexp.MustCompile(`Sheet1!A(\d+)=(\d+)`)

func c09CycOp(M, entry int, cells []c09Cell) string {
	parts := []string{"cyc", strconv.Itoa(M), strconv.Itoa(entry)}
	for _, c := range cells {
		parts = append(parts, c.enc())
	}
	return strings.Join(parts, " ")
}

func c09ParseCyc(w []string) (M, entry int, cells []c09Cell, ok bool) {
	if len(w) < 4 || w[0] != "cyc" {
		return
	}
	M, e1 := strconv.Atoi(w[1])
	entry, e2 := strconv.Atoi(w[2])
	ok = e1 == nil && e2 == nil
	for _, d := range w[3:] {
		c, k := c09ParseCell(d)
		ok = ok && k
		cells = append(cells, c)
	}
	ok = ok && entry >= 0 && entry < len(cells) && M >= 0
	return
}

// c09CycEval runs one reference graph on the real code (worker side: a non-terminating
// recursion overflows the stack and kills only the worker).  Result: "<transcript result>|<flags>"
// with flags det/pure/maxIt/calls/nF.
func c09CycEval(M, entry int, cells []c09Cell) string {
	f := xl.NewFile(xl.Options{MaxCalcIterations: uint(M)})
	defer f.Close()
	nF := 0
	for i, c := range cells {
		if c.leaf {
			must(f.SetCellValue("Sheet1", c09CellName(i), c.c))
		} else {
			must(f.SetCellFormula("Sheet1", c09CellName(i), c.formula()))
			nF++
		}
	}
	before := xl.VerifDumpSheet(f, "Sheet1")
	maxIt, calls := 0, 0
	eval := func() (out string) {
		defer func() {
			if p := recover(); p != nil {
				out = "PANIC@" + c09PanicSite(p)
			}
		}()
		if cells[entry].leaf {
			v, err := f.CalcCellValue("Sheet1", c09CellName(entry))
			if err != nil {
				return "ERR"
			}
			return "ok " + v + " it= calls=0"
		}
		a, its, err := xl.VerifC09CalcTrace(f, "Sheet1", c09CellName(entry))
		if err != nil {
			return "ERR"
		}
		var items []string
		type kv struct{ k, v int }
		var kvs []kv
		calls = 1
		for _, m := range c09ItRe.FindAllStringSubmatch(its, -1) {
			k, _ := strconv.Atoi(m[1])
			v, _ := strconv.Atoi(m[2])
			kvs = append(kvs, kv{k - 1, v})
			calls += v
			if v > maxIt {
				maxIt = v
			}
		}
		sort.Slice(kvs, func(i, j int) bool { return kvs[i].k < kvs[j].k })
		for _, e := range kvs {
			items = append(items, fmt.Sprintf("%d=%d", e.k, e.v))
		}
		val := a.Kind
		if a.Kind == "num" {
			x := math.Float64frombits(a.Bits)
			if x == math.Trunc(x) && math.Abs(x) <= 9007199254740992 {
				val = strconv.FormatInt(int64(x), 10)
			} else if x == math.Trunc(x) {
				val = "big" // beyond 2^53 doubles and the model's exact integers part company: compared as a class
			} else {
				val = fmt.Sprintf("num:%016x", a.Bits)
			}
		}
		return fmt.Sprintf("ok %s it=%s calls=%d", val, strings.Join(items, ","), calls)
	}
	res := eval()
	res2 := eval()
	after := xl.VerifDumpSheet(f, "Sheet1")
	det, pure := 1, 1
	if res != res2 {
		det = 0
	}
	if before != after {
		pure = 0
	}
	return fmt.Sprintf("%s|%d|%d|%d|%d|%d", res, det, pure, maxIt, calls, nF)
}

// c09CycRecord writes the transcript line and applies the oracles (parent side).
func c09CycRecord(r *Run, op, class, out string) {
	w := strings.Fields(op)
	M, _, cells, _ := c09ParseCyc(w)
	nF, edges := 0, 0
	for _, c := range cells {
		if !c.leaf {
			nF++
			edges += len(c.refs)
			if c.isRng {
				edges += c.hi - c.lo + 1
			}
		}
	}
	p := strings.Split(out, "|")
	res := p[0]
	ln := r.Op(op, res)
	r.Case(op, edges > 0 && nF > 1)
	r.Stat("cyc:" + class)
	if len(p) != 6 {
		// the worker died or hung on this graph
		r.Fail("cyc:"+strings.Fields(res + " ?")[0], "CalcCellValue does not return on a reference graph: "+res, ln, op)
		return
	}
	maxIt, _ := strconv.Atoi(p[3])
	calls, _ := strconv.Atoi(p[4])
	if strings.HasPrefix(res, "PANIC") {
		r.Fail("cyc:"+res, "CalcCellValue panics on a reference graph", ln, op)
	}
	if p[1] != "1" {
		r.Fail("cyc:nondeterministic", "evaluating twice gives different answers", ln, op)
	}
	if p[2] != "1" {
		r.Fail("cyc:impure", "workbook dump differs after evaluation", ln, op)
	}
	if maxIt > M+1 {
		r.Fail("cyc:iterations-exceed-bound", fmt.Sprintf("a reference was evaluated %d times, bound M+1 = %d", maxIt, M+1), ln, op)
	}
	if calls > (M+1)*nF+1 {
		r.Fail("cyc:calls-exceed-bound", fmt.Sprintf("%d calcCellValue calls, bound (M+1)*F+1 = %d", calls, (M+1)*nF+1), ln, op)
	}
}

type c09CycJob struct{ op, class string }

var c09CycJobs []c09CycJob

func c09Cyc(r *Run, M, entry int, cells []c09Cell, class string) {
	c09CycJobs = append(c09CycJobs, c09CycJob{c09CycOp(M, entry, cells), class})
}

// c09CycFlush evaluates the collected graphs on the worker pool and records them in order.
func c09CycFlush(r *Run) {
	jobs := make([]c09Job, len(c09CycJobs))
	for i, c := range c09CycJobs {
		jobs[i] = c09Job{Op: c.op, Formula: c.op, Class: "cyc"}
	}
	nw := runtime.NumCPU()
	if nw > 16 {
		nw = 16
	}
	outs := c09RunRaw(jobs, nw, 25)
	for i, c := range c09CycJobs {
		c09CycRecord(r, c.op, c.class, outs[i])
	}
	c09CycJobs = nil
}

func c09CycStream(r *Run, rng *Rng) {
	// all graphs on n cells: each cell is a leaf or a formula over a subset of the cells
	n := 3
	if r.Tier == "thorough" {
		n = 4
	}
	opts := 1 + (1 << n)
	total := 1
	for i := 0; i < n; i++ {
		total *= opts
	}
	for g := 0; g < total; g++ {
		cells := make([]c09Cell, n)
		x := g
		for i := 0; i < n; i++ {
			o := x % opts
			x /= opts
			if o == 0 {
				cells[i] = c09Cell{leaf: true, c: i + 1}
			} else {
				c := c09Cell{c: i + 1}
				for b := 0; b < n; b++ {
					if (o-1)&(1<<b) != 0 {
						c.refs = append(c.refs, b)
					}
				}
				cells[i] = c
			}
		}
		for _, M := range []int{0, 1, 2} {
			if M == 2 && g%3 != 0 && r.Tier != "thorough" {
				continue
			}
			c09Cyc(r, M, g%n, cells, "exhaustive")
		}
	}
	nRand := 400
	if r.Tier == "thorough" {
		nRand = 6000
	}
	for i := 0; i < nRand; i++ {
		n := 2 + rng.Intn(11)
		cells := make([]c09Cell, n)
		for j := range cells {
			switch {
			case rng.Chance(20):
				cells[j] = c09Cell{leaf: true, c: rng.Intn(7) - 2}
			case rng.Chance(20):
				lo := rng.Intn(n)
				hi := lo + rng.Intn(n-lo)
				cells[j] = c09Cell{c: rng.Intn(5), lo: lo, hi: hi, isRng: true}
			default:
				c := c09Cell{c: rng.Intn(5) - 1}
				for k := rng.Intn(4); k >= 0; k-- {
					if rng.Chance(60) {
						c.refs = append(c.refs, (j+1+rng.Intn(2))%n) // chains and short cycles
					} else {
						c.refs = append(c.refs, rng.Intn(n))
					}
				}
				cells[j] = c
			}
		}
		c09Cyc(r, rng.Pick2([]int{0, 0, 1, 2, 3, 5}), rng.Intn(n), cells, "random")
	}
}

// ---------------------------------------------------------------- facts read back (function lists)

func c09FactList(name string) []string {
	b, err := os.ReadFile("../lean/XlModel/Generated/FactsC09.lean")
	if err != nil {
		return nil
	}
	s := string(b)
	i := strings.Index(s, "def "+name+" : List String := [")
	if i < 0 {
		return nil
	}
	s = s[i:]
	s = s[:strings.Index(s, "]")]
	var out []string
	for _, m := range regexp.MustCompile(`"((?:[^"\\]|\\.)*)"`).FindAllStringSubmatch(s, -1) {
		out = append(out, m[1])
	}
	return out
}

type c09Known struct {
	Property, Key, Status, Replay string
}

func c09LoadKnown() []c09Known {
	b, err := os.ReadFile("../known_findings.d/C09.json")
	if err != nil {
		return nil
	}
	var ks []c09Known
	_ = json.Unmarshal(b, &ks)
	return ks
}

// ---------------------------------------------------------------- entry

func runC09(r *Run, rng *Rng, replay string) {
	r.Rule = "ev/txt: the token list is non-empty (the evaluator loop is entered); cyc: at least two formula cells and one reference; fn: every call enters the function body (counted distinct by (function, kinds))"
	if replay != "" {
		c09Replay(r, replay)
		return
	}
	if os.Getenv("VH_C09_ONLY") == "" { // VH_C09_ONLY=F1,F2: only the function product of these functions (development aid)
		c09EvStream(r, rng)
		c09CycStream(r, rng)
		c09CycFlush(r)
		c09OpnStream(r, rng, nil)
	}
	c09WorkerStreams(r, rng)
	for _, s := range r.opsSample(6) {
		r.Sample(s)
	}
}

func c09Replay(r *Run, path string) {
	f := c09EvFile()
	defer f.Close()
	var jobs []c09Job
	var opnOps []string
	for _, line := range readLines(path) {
		line = strings.TrimSpace(line)
		if line == "" || strings.HasPrefix(line, "#") {
			continue
		}
		w := strings.Fields(line)
		switch w[0] {
		case "ev":
			if ts, ok := c09DecToks(w[1:]); ok {
				c09Ev(r, f, ts, "replay", "replay")
			}
		case "cyc":
			if M, e, cells, ok := c09ParseCyc(w); ok {
				c09Cyc(r, M, e, cells, "replay")
			}
		case "opn":
			if _, _, _, _, ok := c09OpnParse(w); ok {
				opnOps = append(opnOps, line)
			}
		case "fn", "txt", "arr":
			if j, ok := c09JobOfLine(line); ok {
				jobs = append(jobs, j)
			}
		}
	}
	c09CycFlush(r)
	if len(opnOps) > 0 {
		c09OpnStream(r, nil, opnOps)
	}
	if len(jobs) > 0 {
		c09RunJobs(r, jobs, 1)
	}
}
