//go:build verif_c09

package main

// C09 — OPENED workbooks.  The evaluator touches state outside its per-call context:
// File.formulaChecked and the lazily written xlsxC.f (cell.go: getCellFormula,
// setArrayFormulaCells).  That state only matters for a workbook read from a package
// (array formulas set through the API are expanded eagerly), so this stream saves
// generated workbooks, rewrites the zip (array-formula `ref`, formula `t`, operand ranges,
// shared-formula `si`/`ref`, a damaged sibling sheet part; also intact array and shared
// formulas), opens the result and asks for each cell THREE times on one *File and once on a
// freshly opened *File: all four answers (value and error) must agree, and the public
// observation of the workbook must be the same before and after.
//
// Transcript op (model: evalLazy / runLazy in XlModel.CalcTotal):
//   opn <base> <mut> <sheet> <cell> x<0|1>  ->  "<A><flag> <A><flag> <A><flag> <A>"
//     A = V (value) | E (error), flag = File.formulaChecked after the evaluation,
//     x = the lazy expansion fails on this package (known by construction of the mutation).
// Cases whose expansion outcome is not known by construction are oracle-only.

import (
	"archive/zip"
	"bytes"
	"fmt"
	"io"
	"strings"

	xl "github.com/xuri/excelize/v2"
)

type c09Mut struct {
	id   string
	part string // zip member
	old  string // "" = replace the whole part / special
	new  string
	x    int // 1 expansion fails, 0 succeeds (both modelled), -1 not known by construction (oracle only)
}

const (
	c09S1 = "xl/worksheets/sheet1.xml"
	c09S2 = "xl/worksheets/sheet2.xml"
)

var c09Muts = []c09Mut{
	{"intact", "", "", "", 0},
	// array-formula spill reference
	{"aref-B1:B", c09S1, `ref="B1:B3"`, `ref="B1:B"`, 1},
	{"aref-B1:", c09S1, `ref="B1:B3"`, `ref="B1:"`, 1},
	{"aref-row0", c09S1, `ref="B1:B3"`, `ref="B0:B3"`, 1},
	{"aref-bigcol", c09S1, `ref="B1:B3"`, `ref="B1:ZZZZ3"`, 1},
	{"aref-bigrow", c09S1, `ref="B1:B3"`, `ref="B1:B1048577"`, 1},
	{"aref-empty", c09S1, `ref="B1:B3"`, `ref=""`, 0},
	{"aref-single", c09S1, `ref="B1:B3"`, `ref="B1"`, 0},
	{"aref-reversed", c09S1, `ref="B1:B3"`, `ref="B3:B1"`, 0},
	{"aref-wider", c09S1, `ref="B1:B3"`, `ref="B1:C4"`, 0},
	{"aref-three", c09S1, `ref="B1:B3"`, `ref="B1:B3:B5"`, -1},
	{"aref-sheet", c09S1, `ref="B1:B3"`, `ref="Sheet1!B1:B3"`, -1},
	{"aref-dollar", c09S1, `ref="B1:B3"`, `ref="$B$1:$B$3"`, -1},
	// formula type attributes
	{"atype-shared", c09S1, `<f t="array" ref="B1:B3">`, `<f t="shared" ref="B1:B3">`, 0},
	{"atype-none", c09S1, `<f t="array" ref="B1:B3">`, `<f ref="B1:B3">`, 0},
	{"atype-bogus", c09S1, `<f t="array" ref="B1:B3">`, `<f t="dataTable" ref="B1:B3">`, 0},
	{"stype-array", c09S1, `<f t="shared" ref="E1:E3" si="0">`, `<f t="array" ref="E1:E3" si="0">`, -1},
	{"stype-none", c09S1, `<f t="shared" ref="E1:E3" si="0">`, `<f ref="E1:E3" si="0">`, -1},
	{"plain-array", c09S1, `<c r="D1" t="str"><f>`, `<c r="D1" t="str"><f t="array" ref="D1:D">`, 1},
	// array-formula operand ranges / content
	{"aop-A1:A", c09S1, `=A1:A3*2`, `=A1:A*2`, -1},
	{"aop-row0", c09S1, `=A1:A3*2`, `=A0:A3*2`, -1},
	{"aop-bigcol", c09S1, `=A1:A3*2`, `=XFE1:A3*2`, -1},
	{"aop-nosheet", c09S1, `=A1:A3*2`, `=Sheet9!A1:A3*2`, -1},
	{"aop-dangling", c09S1, `=A1:A3*2`, `=A1:A3*`, -1},
	{"aop-paren", c09S1, `=A1:A3*2`, `=(A1:A3*2`, -1},
	{"aop-empty", c09S1, `=A1:A3*2`, ``, -1},
	{"aop-quote", c09S1, `=A1:A3*2`, `=&quot;A1:A3*2`, -1},
	// shared formulas
	{"si-master-7", c09S1, `ref="E1:E3" si="0"`, `ref="E1:E3" si="7"`, -1},
	{"si-neg", c09S1, `<c r="E2"><f t="shared" si="0">`, `<c r="E2"><f t="shared" si="-1">`, -1},
	{"si-text", c09S1, `<c r="E2"><f t="shared" si="0">`, `<c r="E2"><f t="shared" si="x">`, -1},
	{"si-huge", c09S1, `<c r="E2"><f t="shared" si="0">`, `<c r="E2"><f t="shared" si="99999999999999999999">`, -1},
	{"sref-E1:E", c09S1, `ref="E1:E3" si="0"`, `ref="E1:E" si="0"`, -1},
	{"sref-empty", c09S1, `ref="E1:E3" si="0"`, `ref="" si="0"`, -1},
	// another sheet part: the expansion walks every sheet
	{"s2-aref-C1:C", c09S2, `ref="C1:C2"`, `ref="C1:C"`, 1},
	{"s2-truncated", c09S2, "", "<truncate>", 1},
	{"s2-not-xml", c09S2, "", "not xml at all <", -1},
	{"s2-row-x", c09S2, `<row r="2">`, `<row r="x">`, -1},
}

func c09MutByID(id string) (c09Mut, bool) {
	for _, m := range c09Muts {
		if m.id == id {
			return m, true
		}
	}
	return c09Mut{}, false
}

// cells asked; the modelled ones exist in the saved XML (so getCellFormula's closure, and with
// it the lazy expansion, is reached) and evaluate to a value in every x=0 variant.
var c09OpnCells = []struct {
	sheet, cell string
	modelled    bool
}{
	{"Sheet1", "A1", true}, {"Sheet1", "B1", true}, {"Sheet1", "B2", false}, {"Sheet1", "B3", false},
	{"Sheet1", "D1", true}, {"Sheet1", "D2", true}, {"Sheet1", "E1", true}, {"Sheet1", "E2", true},
	{"Sheet1", "E3", true}, {"Sheet1", "F1", true}, {"Sheet2", "C1", false}, {"Sheet2", "C2", false}, {"Sheet1", "Z9", false},
}

var c09BaseCache = map[int][]byte{}

// c09OpnBase: base 0 = array + shared + plain formulas on two sheets; base 1 = the same plus a
// defined name used by a second array formula and a 2-D array formula.
func c09OpnBase(b int) []byte {
	if d, ok := c09BaseCache[b]; ok {
		return d
	}
	f := xl.NewFile()
	for i, v := range []int{1, 2, 3} {
		must(f.SetCellValue("Sheet1", fmt.Sprintf("A%d", i+1), v))
	}
	at, st := xl.STCellFormulaTypeArray, xl.STCellFormulaTypeShared
	ar, sr, ar2 := "B1:B3", "E1:E3", "C1:C2"
	must(f.SetCellFormula("Sheet1", "B1", "=A1:A3*2", xl.FormulaOpts{Ref: &ar, Type: &at}))
	must(f.SetCellFormula("Sheet1", "E1", "=A1+1", xl.FormulaOpts{Ref: &sr, Type: &st}))
	must(f.SetCellFormula("Sheet1", "D1", "=SUM(A1:A3)"))
	must(f.SetCellFormula("Sheet1", "D2", "=SUM(B1:B3)"))
	must(f.SetCellFormula("Sheet1", "F1", "=E2+E3"))
	_, err := f.NewSheet("Sheet2")
	must(err)
	must(f.SetCellValue("Sheet2", "A1", 7))
	must(f.SetCellFormula("Sheet2", "C1", "=Sheet1!A1:A2+A1", xl.FormulaOpts{Ref: &ar2, Type: &at}))
	if b == 1 {
		must(f.SetDefinedName(&xl.DefinedName{Name: "NM", RefersTo: "Sheet1!$A$1:$A$3"}))
		ar3, ar4 := "H1:H3", "J1:K2"
		must(f.SetCellFormula("Sheet1", "H1", "=NM+1", xl.FormulaOpts{Ref: &ar3, Type: &at}))
		must(f.SetCellValue("Sheet1", "G1", 5))
		must(f.SetCellValue("Sheet1", "G2", 6))
		must(f.SetCellFormula("Sheet1", "J1", "=A1:A2*G1:G2", xl.FormulaOpts{Ref: &ar4, Type: &at}))
	}
	var buf bytes.Buffer
	must(f.Write(&buf))
	f.Close()
	c09BaseCache[b] = buf.Bytes()
	return buf.Bytes()
}

// c09OpnPackage applies the mutations to the saved package; ok=false when a pattern is not there.
func c09OpnPackage(b int, muts []c09Mut) ([]byte, bool) {
	src := c09OpnBase(b)
	zr, err := zip.NewReader(bytes.NewReader(src), int64(len(src)))
	must(err)
	var out bytes.Buffer
	zw := zip.NewWriter(&out)
	applied := 0
	for _, zf := range zr.File {
		rc, err := zf.Open()
		must(err)
		body, err := io.ReadAll(rc)
		rc.Close()
		must(err)
		for _, m := range muts {
			if m.part != zf.Name {
				continue
			}
			switch {
			case m.new == "<truncate>":
				body = body[:len(body)/2]
				applied++
			case m.old == "":
				body = []byte(m.new)
				applied++
			case bytes.Contains(body, []byte(m.old)):
				body = bytes.Replace(body, []byte(m.old), []byte(m.new), 1)
				applied++
			}
		}
		w, err := zw.Create(zf.Name)
		must(err)
		_, err = w.Write(body)
		must(err)
	}
	must(zw.Close())
	need := 0
	for _, m := range muts {
		if m.part != "" {
			need++
		}
	}
	return out.Bytes(), applied == need
}

func c09OpnObserve(f *xl.File) string {
	var b strings.Builder
	for _, sh := range f.GetSheetList() {
		rows, err := f.GetRows(sh)
		fmt.Fprintf(&b, "[%s rows=%q err=%v", sh, rows, err != nil)
		for _, col := range []string{"A", "B", "C", "D", "E", "F", "H", "J", "K"} {
			for r := 1; r <= 4; r++ {
				c := fmt.Sprintf("%s%d", col, r)
				fm, e1 := f.GetCellFormula(sh, c)
				s, e2 := f.GetCellStyle(sh, c)
				ty, e3 := f.GetCellType(sh, c)
				if fm != "" || s != 0 || ty != 0 || e1 != nil || e2 != nil || e3 != nil {
					fmt.Fprintf(&b, " %s:%q:%d:%d:%v%v%v", c, fm, s, ty, e1 != nil, e2 != nil, e3 != nil)
				}
			}
		}
		mc, _ := f.GetMergeCells(sh)
		fmt.Fprintf(&b, " M=%d]", len(mc))
	}
	b.WriteString(xl.VerifC09DefinedNames(f))
	return b.String()
}

// c09OpnSpec: "opn <base> <mut[+mut]> <sheet> <cell> [x0|x1]"
func c09OpnParse(w []string) (b int, muts []c09Mut, sheet, cell string, ok bool) {
	if len(w) < 5 || w[0] != "opn" {
		return
	}
	if _, err := fmt.Sscanf(w[1], "%d", &b); err != nil || b < 0 || b > 1 {
		return
	}
	for _, id := range strings.Split(w[2], "+") {
		m, k := c09MutByID(id)
		if !k {
			return
		}
		muts = append(muts, m)
	}
	return b, muts, w[3], w[4], true
}

// c09OpnEval (worker side).  Result: "<transcript result>|<a1>§<a2>§<a3>§<a4>|<pure>" or "OPENFAIL".
func c09OpnEval(w []string) string {
	b, muts, sheet, cell, ok := c09OpnParse(w)
	if !ok {
		return "bad-op"
	}
	pkg, applied := c09OpnPackage(b, muts)
	if !applied {
		return "NOPATTERN"
	}
	open := func() *xl.File {
		f, err := xl.OpenReader(bytes.NewReader(pkg))
		if err != nil {
			return nil
		}
		return f
	}
	ask := func(f *xl.File) (ans string, class string) {
		defer func() {
			if p := recover(); p != nil {
				ans, class = "PANIC@"+c09PanicSite(p), "P"
			}
		}()
		v, err := f.CalcCellValue(sheet, cell)
		if err != nil {
			return "err:" + hx(v) + ":" + hx(err.Error()), "E"
		}
		return "ok:" + hx(v), "V"
	}
	f := open()
	if f == nil {
		return "OPENFAIL"
	}
	defer f.Close()
	before := c09OpnObserve(f)
	var answers, tr []string
	for i := 0; i < 3; i++ {
		a, c := ask(f)
		flag := "0"
		if xl.VerifC09FormulaChecked(f) {
			flag = "1"
		}
		answers = append(answers, a)
		tr = append(tr, c+flag)
	}
	after := c09OpnObserve(f)
	g := open()
	if g == nil {
		return "OPENFAIL"
	}
	defer g.Close()
	a4, c4 := ask(g)
	answers = append(answers, a4)
	tr = append(tr, c4)
	pure := "1"
	if before != after {
		pure = "0"
	}
	return strings.Join(tr, " ") + "|" + strings.Join(answers, "§") + "|" + pure
}

type c09OpnJob struct {
	op       string
	modelled bool
}

func c09OpnJobs(r *Run, rng *Rng) []c09OpnJob {
	var jobs []c09OpnJob
	add := func(b int, ms []c09Mut) {
		ids := make([]string, len(ms))
		x := 0
		for i, m := range ms {
			ids[i] = m.id
			switch {
			case m.x < 0 || x < 0:
				x = -1
			case m.x == 1:
				x = 1
			}
		}
		for _, c := range c09OpnCells {
			op := fmt.Sprintf("opn %d %s %s %s", b, strings.Join(ids, "+"), c.sheet, c.cell)
			if x >= 0 && c.modelled {
				jobs = append(jobs, c09OpnJob{fmt.Sprintf("%s x%d", op, x), true})
			} else {
				jobs = append(jobs, c09OpnJob{op, false})
			}
		}
	}
	for b := 0; b <= 1; b++ {
		for _, m := range c09Muts {
			add(b, []c09Mut{m})
		}
	}
	nPairs := 40
	if r.Tier == "thorough" {
		nPairs = 600
	}
	for i := 0; i < nPairs; i++ {
		a, c := c09Muts[1+rng.Intn(len(c09Muts)-1)], c09Muts[1+rng.Intn(len(c09Muts)-1)]
		if a.id == c.id || (a.part == c.part && a.old == c.old) || a.id == "aop-A1:A" || c.id == "aop-A1:A" {
			// (a whole-column operand that stops being an array operand is evaluated as A1:A1048576: slow, not this stream's subject)
			continue
		}
		// the mutations of a pair may overlap or cancel each other: what the expansion does is not
		// known by construction, so pairs are oracle-only
		a.x, c.x = -1, -1
		add(rng.Intn(2), []c09Mut{a, c})
	}
	return jobs
}

func c09OpnRecord(r *Run, j c09OpnJob, out string) {
	w := strings.Fields(j.op)
	id := "opn:" + strings.Join(w[1:5], "/")
	p := strings.Split(out, "|")
	r.Case(j.op, true)
	r.Stat("opn:" + w[2][:strings.IndexAny(w[2]+"-", "-+")])
	ln := 0
	if j.modelled {
		ln = r.Op(j.op, p[0])
		r.Stat("opn:modelled")
	}
	if len(p) != 3 {
		switch out {
		case "OPENFAIL":
			r.Stat("opn:open-rejected") // the package is refused as a whole: nothing to evaluate
		case "NOPATTERN":
			r.Stat("opn:pattern-absent")
		default:
			r.Fail(id+" "+strings.Fields(out + " ?")[0], "evaluation of an opened workbook does not return: "+out, ln, j.op)
		}
		return
	}
	r.Stat("opn:answers:" + p[0])
	a := strings.Split(p[1], "§")
	if strings.Contains(p[1], "PANIC@") {
		r.Fail(id+" panic", "CalcCellValue panics on an opened workbook: "+c09Short(p[1]), ln, j.op)
		return
	}
	if len(a) == 4 && !(a[0] == a[1] && a[1] == a[2] && a[2] == a[3]) {
		show := func(s string) string {
			q := strings.Split(s, ":")
			if q[0] == "ok" && len(q) == 2 {
				return fmt.Sprintf("value %q", unhx(q[1]))
			}
			if q[0] == "err" && len(q) == 3 {
				return fmt.Sprintf("value %q, error %q", unhx(q[1]), unhx(q[2]))
			}
			return s
		}
		r.Fail(id+" unstable-answer", fmt.Sprintf("CalcCellValue(%s!%s) on an unchanged opened workbook answers 1st: %s; 2nd: %s; 3rd: %s; freshly opened: %s",
			w[3], w[4], show(a[0]), show(a[1]), show(a[2]), show(a[3])), ln, j.op)
	}
	if p[2] != "1" {
		r.Fail(id+" impure", "the public observation of the opened workbook (rows, formulas, styles, types, merges, defined names) differs after three evaluations", ln, j.op)
	}
}

func c09OpnStream(r *Run, rng *Rng, replayOps []string) {
	var jobs []c09OpnJob
	if replayOps != nil {
		for _, op := range replayOps {
			w := strings.Fields(op)
			last := w[len(w)-1]
			jobs = append(jobs, c09OpnJob{op, last == "x0" || last == "x1"})
		}
	} else {
		jobs = c09OpnJobs(r, rng)
	}
	if len(jobs) == 0 {
		return
	}
	raw := make([]c09Job, len(jobs))
	for i, j := range jobs {
		raw[i] = c09Job{Op: j.op, Formula: j.op, Class: "opn"}
	}
	nw := 8
	if len(jobs) < 8 {
		nw = 1
	}
	outs := c09RunRaw(raw, nw, 25)
	for i, j := range jobs {
		c09OpnRecord(r, j, outs[i])
	}
}
