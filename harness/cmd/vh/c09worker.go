//go:build verif_c09

package main

// C09 — isolated evaluation of formula text (function × arity × argument-kind product,
// mutated formulas, deep nesting): the harness re-executes itself with
// VH_C09_WORKER=1; each worker evaluates jobs one at a time under recover(), a
// per-call watchdog, a stack limit and an address-space limit, so that a panic,
// hang, stack overflow or out-of-memory is recorded as the outcome of that job
// instead of killing the run.

import (
	"bufio"
	"crypto/sha1"
	"encoding/hex"
	"encoding/json"
	"fmt"
	"os"
	"os/exec"
	"runtime"
	"runtime/debug"
	"sort"
	"strconv"
	"strings"
	"sync"
	"sync/atomic"
	"syscall"
	"time"

	"github.com/xuri/efp"
	xl "github.com/xuri/excelize/v2"
)

const (
	c09Cell0     = "H3" // the cell that carries the formula under test
	c09CPULimit  = 3 * time.Second  // CPU time of one job (two evaluations) before it counts as a hang
	c09CallLimit = 40 * time.Second // wall-clock safety net (the criterion is CPU time; the box may be heavily loaded)
)

type c09Kind struct{ code, text string }

var c09Kinds = []c09Kind{
	{"n0", "0"}, {"n1", "1"}, {"nm", "-1"}, {"nh", "0.5"}, {"nb", "1E+308"}, {"ni", "9007199254740992"},
	{"ts", `"abc"`}, {"te", `""`}, {"tn", `"12"`}, {"tm", `"-2"`},
	{"tp", `"("`}, // text that is not a valid regular expression (criteria of COUNTIF & co. are matched as patterns)
	// multi-byte text: 2-byte runes, 3-byte runes, a 4-byte rune with a combining mark
	{"u2", `"héllo wörld"`}, {"u3", `"日本語テキスト"`}, {"u4", "\"a😀e\u0301x\""},
	{"em", ""},
	{"bt", "TRUE"},
	{"er", "NA()"},
	{"rg", "A1:B2"}, {"rc", "C1"}, {"re", "D5:E6"},
	{"ar", "{1,2;3,4}"},
	{"aj", "{1,2;3}"}, // ragged array constant (Excel rejects it; efp and the evaluator build it)
}

// criteria texts that are not valid regular expressions after the wildcard translation (unbalanced
// brackets / parentheses, trailing backslash, "(?", repetition operators), and a criteria table with
// such a text: used in the criteria-shaped product below only, not in the full product
var c09CriteriaKinds = []c09Kind{
	{"m1", `"["`}, {"m2", `"a)"`}, {"m3", "\"x\\\""}, {"m4", `"(?"`}, {"m5", `"*?+{"`}, {"m6", `{1;"("}`},
}

// reduced dictionary for arity 4
var c09Kinds4 = []string{"n0", "nm", "nb", "ts", "em", "bt", "er", "rg", "ar"}

// text-shaped arity-4 product (text, position, count, text): what REPLACE / MID / SUBSTITUTE-like
// functions take; multi-byte text against positions and counts inside and beyond the text
var c09Kinds4Text = [4][]string{
	{"u2", "u3", "u4", "ts", "te"},
	{"n1", "tn", "n0", "nm"},
	{"n1", "tn", "n0", "ni"},
	{"u3", "ts", "n1", "em"},
}

func c09KindText(code string) (string, bool) {
	for _, k := range c09Kinds {
		if k.code == code {
			return k.text, true
		}
	}
	for _, k := range c09CriteriaKinds {
		if k.code == code {
			return k.text, true
		}
	}
	return "", false
}

type c09Job struct {
	Op      string // replay line: "fn NAME k1 k2" | "txt <hex>"
	Formula string
	Vol     bool   // mentions a volatile function: twice-equality not demanded
	Class   string // statistics class
	Ident   string // identity used in signatures
	Group   string // function/arity (fn jobs): evaluated in order by one worker
	Tuple   string // argument-kind tuple (fn jobs)
	Big     bool   // has a huge-number argument
	Witness bool   // replay of an open known finding: always evaluated
}

var c09Volatile map[string]bool

func c09IsVolatile(formula string) bool {
	if c09Volatile == nil {
		c09Volatile = map[string]bool{}
		for _, v := range c09FactList("volatileFuncs") {
			c09Volatile[v] = true
		}
	}
	ps := efp.ExcelParser()
	for _, t := range ps.Parse(formula) {
		if t.TType == efp.TokenTypeFunction && t.TSubType == efp.TokenSubTypeStart {
			if c09Volatile[strings.ToUpper(strings.TrimPrefix(t.TValue, "_xlfn."))] {
				return true
			}
		}
	}
	return false
}

func c09FnJob(name string, kinds []string) c09Job {
	args := make([]string, len(kinds))
	for i, k := range kinds {
		args[i], _ = c09KindText(k)
	}
	formula := name + "(" + strings.Join(args, ",") + ")"
	if len(kinds) == 1 && kinds[0] == "em" {
		formula = name + "(,)"
	}
	id := name + "(" + strings.Join(kinds, ",") + ")"
	big := false
	for _, k := range kinds {
		big = big || k == "nb" || k == "ni"
	}
	grp := name + "/" + strconv.Itoa(len(kinds))
	_ = id
	return c09Job{Op: strings.TrimSpace("fn " + name + " " + strings.Join(kinds, " ")), Formula: formula, Class: "fn/arity" + strconv.Itoa(len(kinds)),
		Ident: "fn:" + grp, Group: grp, Tuple: strings.Join(kinds, ","), Big: big}
}

// identity of formula-text jobs: the deterministic streams (deep nesting, self references,
// witnesses) are identified by the exact formula (hash); random mutations by their class and,
// through the outcome part of the signature, by panic site.
func c09TxtJob(formula, class string) c09Job {
	id := "txt/" + class
	if class != "mutation" {
		h := sha1.Sum([]byte(formula))
		id += "#" + hex.EncodeToString(h[:4])
	}
	return c09Job{Op: "txt " + hx(formula) + " " + class, Formula: formula, Class: "txt/" + class, Ident: id}
}

// c09ArrJob: a job that first turns cells into ARRAY formulas (cell, ref, formula triples; an empty ref =
// ordinary formula) and then evaluates c09Cell0: self- and cyclic references through functions that
// re-enter the evaluator for the cells of an array formula (ANCHORARRAY).
func c09ArrJob(cells [][3]string, class string) c09Job {
	parts := []string{"arr"}
	for _, c := range cells {
		parts = append(parts, c[0], c[1], c[2])
	}
	spec := strings.Join(parts, "\t")
	h := sha1.Sum([]byte(spec))
	return c09Job{Op: "arr " + hx(spec) + " " + class, Formula: spec, Class: "txt/" + class, Ident: "txt/" + class + "#" + hex.EncodeToString(h[:4])}
}

func c09JobOfLine(line string) (c09Job, bool) {
	w := strings.Fields(line)
	if len(w) == 3 && w[0] == "arr" {
		f := strings.Split(unhx(w[1]), "\t")
		if len(f) < 4 || f[0] != "arr" || (len(f)-1)%3 != 0 {
			return c09Job{}, false
		}
		var cells [][3]string
		for i := 1; i+2 < len(f); i += 3 {
			cells = append(cells, [3]string{f[i], f[i+1], f[i+2]})
		}
		return c09ArrJob(cells, w[2]), true
	}
	if len(w) >= 2 && w[0] == "fn" {
		for _, k := range w[2:] {
			if _, ok := c09KindText(k); !ok {
				return c09Job{}, false
			}
		}
		return c09FnJob(w[1], w[2:]), true
	}
	if (len(w) == 2 || len(w) == 3) && w[0] == "txt" {
		class := "replay"
		if len(w) == 3 {
			class = w[2]
		}
		return c09TxtJob(unhx(w[1]), class), true
	}
	return c09Job{}, false
}

// ---------------------------------------------------------------- worker side

func c09Fixture() *xl.File {
	f := xl.NewFile()
	chk := func(err error) {
		if err != nil {
			fmt.Fprintln(os.Stderr, "fixture:", err)
			os.Exit(9)
		}
	}
	chk(f.SetCellValue("Sheet1", "A1", 1))
	chk(f.SetCellValue("Sheet1", "B1", 2))
	chk(f.SetCellValue("Sheet1", "A2", 3))
	chk(f.SetCellValue("Sheet1", "B2", 4))
	chk(f.SetCellValue("Sheet1", "C1", "abc"))
	chk(f.SetCellValue("Sheet1", "C2", true))
	chk(f.SetCellFormula("Sheet1", "D1", "A1+B1"))
	chk(f.SetCellValue("Sheet1", "E1", 44000.5))
	chk(f.SetCellValue("Sheet1", "F1", "m"))
	chk(f.MergeCell("Sheet1", "F1", "G2"))
	st, err := f.NewStyle(&xl.Style{Font: &xl.Font{Bold: true}, NumFmt: 2})
	chk(err)
	chk(f.SetCellStyle("Sheet1", "A1", "A1", st))
	_, err = f.NewSheet("Sheet2")
	chk(err)
	chk(f.SetCellValue("Sheet2", "A1", 7))
	chk(f.SetDefinedName(&xl.DefinedName{Name: "NM", RefersTo: "Sheet1!$A$1:$B$2"}))
	chk(f.SetCellFormula("Sheet1", c09Cell0, "0"))
	// a two-cell cycle whose visit counters show the MaxCalcIterations the workbook currently carries (c09Observe)
	chk(f.SetCellFormula("Sheet2", "B5", "B6+1"))
	chk(f.SetCellFormula("Sheet2", "B6", "B5+1"))
	return f
}

func c09Observe(f *xl.File) string {
	var b strings.Builder
	b.WriteString(xl.VerifDumpSheet(f, "Sheet1"))
	b.WriteString(" || ")
	b.WriteString(xl.VerifDumpSheet(f, "Sheet2"))
	b.WriteString(" || ")
	b.WriteString(xl.VerifC09DefinedNames(f))
	b.WriteString(" || ")
	b.WriteString(strings.Join(f.GetSheetList(), ","))
	for _, c := range []string{"A1", "D1", "F1", "G2", c09Cell0} {
		v, _ := f.GetCellValue("Sheet1", c)
		fm, _ := f.GetCellFormula("Sheet1", c)
		s, _ := f.GetCellStyle("Sheet1", c)
		fmt.Fprintf(&b, " |%s:%s:%s:%d", c, v, fm, s)
	}
	// the workbook-level options as far as they can be observed (option-less reads after an evaluation that passed
	// per-call options; the observation before the job is the twin that never passed any): RawCellValue through the formatted value of
	// the styled cell A1 above, MaxCalcIterations through the visit counters of the cycle Sheet2!B5 <-> B6
	_, trace, _ := xl.VerifC09CalcTrace(f, "Sheet2", "B5")
	b.WriteString(" |opt:" + trace)
	// and through the public entry point: the value of the cycle depends on MaxCalcIterations
	cv, cerr := f.CalcCellValue("Sheet2", "B5")
	b.WriteString(fmt.Sprintf(" |cyc:%s:%v", cv, cerr))
	return b.String()
}

var c09JobStart atomic.Int64 // unix nanos of the running job's start, 0 = idle
var c09JobCPU atomic.Int64   // process CPU nanos at the job's start
var c09JobIdx atomic.Int64

func c09CPUNanos() int64 {
	var ru syscall.Rusage
	if syscall.Getrusage(syscall.RUSAGE_SELF, &ru) != nil {
		return 0
	}
	return ru.Utime.Nano() + ru.Stime.Nano()
}

func c09WorkerMain() {
	debug.SetMaxStack(192 << 20)
	debug.SetMemoryLimit(1 << 30)
	lim := uint64(6 << 30)
	_ = syscall.Setrlimit(syscall.RLIMIT_AS, &syscall.Rlimit{Cur: lim, Max: lim})
	go func() {
		for {
			time.Sleep(50 * time.Millisecond)
			s := c09JobStart.Load()
			if s != 0 && (time.Since(time.Unix(0, s)) > c09CallLimit || time.Duration(c09CPUNanos()-c09JobCPU.Load()) > c09CPULimit) {
				fmt.Fprintf(os.Stderr, "C09-WATCHDOG-TIMEOUT job %d\n", c09JobIdx.Load())
				os.Exit(7)
			}
		}
	}()
	in := bufio.NewReaderSize(os.Stdin, 1<<20)
	out := os.Stdout
	out0 := out
	f := c09Fixture()
	evalOnce := func(formula string) (res string) {
		defer func() {
			if p := recover(); p != nil {
				res = "panic@" + c09PanicSite(p)
			}
		}()
		v, err := f.CalcCellValue("Sheet1", c09Cell0)
		if err != nil {
			return "err:" + hx(v) + ":" + hx(err.Error())
		}
		return "ok:" + hx(v)
	}
	for {
		line, err := in.ReadString('\n')
		if err != nil {
			os.Exit(0)
		}
		w := strings.Fields(line)
		if len(w) != 3 || w[0] != "J" {
			continue
		}
		idx, _ := strconv.ParseInt(w[1], 10, 64)
		formula := unhx(w[2])
		c09JobIdx.Store(idx)
		t0 := time.Now()
		if strings.HasPrefix(formula, "opn ") {
			c09JobCPU.Store(c09CPUNanos())
			c09JobStart.Store(t0.UnixNano())
			out := c09OpnEval(strings.Fields(formula))
			c09JobStart.Store(0)
			fmt.Fprintf(out0, "R %d %s 1 1 %d\n", idx, hx(out), time.Since(t0).Microseconds())
			continue
		}
		if strings.HasPrefix(formula, "cyc ") {
			out := "bad-op"
			if M, e, cells, ok := c09ParseCyc(strings.Fields(formula)); ok {
				c09JobCPU.Store(c09CPUNanos())
				c09JobStart.Store(t0.UnixNano())
				out = c09CycEval(M, e, cells)
				c09JobStart.Store(0)
			}
			fmt.Fprintf(out0, "R %d %s 1 1 %d\n", idx, hx(out), time.Since(t0).Microseconds())
			continue
		}
		status, det, pure := "", 1, 1
		arrJob := strings.HasPrefix(formula, "arr\t")
		var setErr error
		if arrJob {
			fl := strings.Split(formula, "\t")
			for i := 1; i+2 < len(fl) && setErr == nil; i += 3 {
				if fl[i+1] == "" {
					setErr = f.SetCellFormula("Sheet1", fl[i], fl[i+2])
				} else {
					ft, ref := xl.STCellFormulaTypeArray, fl[i+1]
					setErr = f.SetCellFormula("Sheet1", fl[i], fl[i+2], xl.FormulaOpts{Ref: &ref, Type: &ft})
				}
			}
		} else {
			setErr = f.SetCellFormula("Sheet1", c09Cell0, formula)
		}
		if setErr != nil {
			status = "unsettable"
			if arrJob {
				f = c09Fixture()
			}
		} else {
			before := c09Observe(f)
			c09JobCPU.Store(c09CPUNanos())
			c09JobStart.Store(t0.UnixNano())
			r1 := evalOnce(formula)
			var r2 string
			if strings.HasPrefix(r1, "panic@") {
				r2 = r1
			} else {
				r2 = evalOnce(formula)
			}
			if idx%16 == 0 && !strings.HasPrefix(r1, "panic@") {
				// per-call options must stay per-call: evaluate once more with options that differ from the
				// workbook's; the observation below sees RawCellValue / MaxCalcIterations if they were kept
				func() {
					defer func() { _ = recover() }()
					_, _ = f.CalcCellValue("Sheet1", c09Cell0, xl.Options{RawCellValue: true, MaxCalcIterations: 3})
				}()
			}
			c09JobStart.Store(0)
			status = r1
			if r1 != r2 {
				det = 0
				status = r1 + "|" + r2
			}
			if strings.HasPrefix(r1, "panic@") || strings.HasPrefix(r2, "panic@") {
				f = c09Fixture() // locks / partial state: start from a fresh workbook
			} else if after := c09Observe(f); after != before {
				pure = 0
				f = c09Fixture()
			} else if arrJob {
				f = c09Fixture() // other cells were given formulas
			}
		}
		fmt.Fprintf(out, "R %d %s %d %d %d\n", idx, status, det, pure, time.Since(t0).Microseconds())
	}
}

// ---------------------------------------------------------------- parent side

type c09Result struct {
	status string // ok:… | err:… | panic@site:kind | timeout | crash:<class> | unsettable
	det    bool
	pure   bool
	micros int64
}

type c09Proc struct {
	cmd    *exec.Cmd
	in     *bufio.Writer
	inC    interface{ Close() error }
	out    *bufio.Reader
	errBuf *c09Tail
}

type c09Tail struct {
	mu  sync.Mutex
	buf []byte
}

func (t *c09Tail) Write(p []byte) (int, error) {
	t.mu.Lock()
	defer t.mu.Unlock()
	t.buf = append(t.buf, p...)
	if len(t.buf) > 1<<16 {
		// keep the head (the fatal error line is printed first) and the tail
		t.buf = append(t.buf[:1<<14], t.buf[len(t.buf)-(1<<14):]...)
	}
	return len(p), nil
}

func (t *c09Tail) String() string { t.mu.Lock(); defer t.mu.Unlock(); return string(t.buf) }

func c09Start() *c09Proc {
	cmd := exec.Command(os.Args[0])
	cmd.Env = append(os.Environ(), "VH_C09_WORKER=1", "GOMEMLIMIT=1GiB", "GOTRACEBACK=single", "GOMAXPROCS=2")
	stdin, err := cmd.StdinPipe()
	must(err)
	stdout, err := cmd.StdoutPipe()
	must(err)
	tail := &c09Tail{}
	cmd.Stderr = tail
	must(cmd.Start())
	return &c09Proc{cmd: cmd, in: bufio.NewWriter(stdin), inC: stdin, out: bufio.NewReaderSize(stdout, 1<<16), errBuf: tail}
}

func (p *c09Proc) stop() {
	p.inC.Close()
	done := make(chan struct{})
	go func() { p.cmd.Wait(); close(done) }()
	select {
	case <-done:
	case <-time.After(2 * time.Second):
		p.cmd.Process.Kill()
		<-done
	}
}

// run one job on the worker; a dead worker is classified and reported through the result.
func (p *c09Proc) run(idx int, formula string) (c09Result, bool) {
	fmt.Fprintf(p.in, "J %d %s\n", idx, hx(formula))
	p.in.Flush()
	type lineErr struct {
		s   string
		err error
	}
	ch := make(chan lineErr, 1)
	go func() { s, err := p.out.ReadString('\n'); ch <- lineErr{s, err} }()
	var le lineErr
	select {
	case le = <-ch:
	case <-time.After(2*c09CallLimit + 5*time.Second):
		p.cmd.Process.Kill()
		le = <-ch
		p.cmd.Wait()
		return c09Result{status: "timeout", det: true, pure: true}, false
	}
	if le.err != nil {
		p.cmd.Wait()
		es := p.errBuf.String()
		class := "other"
		switch {
		case strings.Contains(es, "C09-WATCHDOG-TIMEOUT"):
			return c09Result{status: "timeout", det: true, pure: true}, false
		case strings.Contains(es, "stack overflow") || strings.Contains(es, "stack exceeds"):
			class = "stack-overflow"
		case strings.Contains(es, "out of memory") || strings.Contains(es, "cannot allocate memory"):
			class = "out-of-memory"
		case strings.Contains(es, "all goroutines are asleep") || strings.Contains(es, "deadlock"):
			class = "deadlock"
		case strings.Contains(es, "concurrent map"):
			class = "concurrent-map"
		}
		if class == "other" {
			first := strings.SplitN(strings.TrimSpace(es), "\n", 2)[0]
			if len(first) > 80 {
				first = first[:80]
			}
			class = "other[" + strings.ReplaceAll(first, " ", "_") + "]"
		}
		return c09Result{status: "crash:" + class, det: true, pure: true}, false
	}
	w := strings.Fields(le.s)
	if len(w) != 6 || w[0] != "R" || w[1] != strconv.Itoa(idx) {
		p.cmd.Process.Kill()
		p.cmd.Wait()
		return c09Result{status: "crash:protocol", det: true, pure: true}, false
	}
	us, _ := strconv.ParseInt(w[5], 10, 64)
	return c09Result{status: w[2], det: w[3] == "1", pure: w[4] == "1", micros: us}, true
}

// c09RunRaw evaluates jobs whose result is an opaque hex string (cyc); a dead worker yields
// "CRASH:<class>" / "TIMEOUT"; after maxDead dead workers the remaining jobs are "SKIPPED".
func c09RunRaw(jobs []c09Job, nw, maxDead int) []string {
	outs := make([]string, len(jobs))
	var next, dead atomic.Int64
	var wg sync.WaitGroup
	for w := 0; w < nw; w++ {
		wg.Add(1)
		go func() {
			defer wg.Done()
			var p *c09Proc
			defer func() {
				if p != nil {
					p.stop()
				}
			}()
			for {
				lo := int(next.Add(64)) - 64
				if lo >= len(jobs) {
					return
				}
				for i := lo; i < lo+64 && i < len(jobs); i++ {
					if dead.Load() >= int64(maxDead) {
						outs[i] = "SKIPPED"
						continue
					}
					if p == nil {
						p = c09Start()
					}
					res, alive := p.run(i, jobs[i].Formula)
					if !alive {
						p = nil
						dead.Add(1)
						outs[i] = strings.ToUpper(strings.Replace(res.status, "crash:", "CRASH:", 1))
						continue
					}
					outs[i] = unhx(res.status)
				}
			}
		}()
	}
	wg.Wait()
	return outs
}

type c09Failure struct {
	sig, what, replay, tuple string
}

type c09KnownEntry struct {
	Property string   `json:"property"`
	Key      string   `json:"key"`
	Status   string   `json:"status"`
	Replay   string   `json:"replay"`
	Tuples   []string `json:"tuples"`
}

// c09KnownTuples: open known findings of the function product. key -> set of argument-kind
// tuples ("*" = any tuple: used for hangs, which cannot be enumerated within the budget).
func c09KnownTuples() map[string]map[string]bool {
	out := map[string]map[string]bool{}
	b, err := os.ReadFile("../known_findings.d/C09.json")
	if err != nil {
		return out
	}
	var ks []c09KnownEntry
	if json.Unmarshal(b, &ks) != nil {
		return out
	}
	for _, k := range ks {
		if k.Status != "open" {
			continue
		}
		m := map[string]bool{}
		for _, t := range k.Tuples {
			m[t] = true
		}
		out[k.Key] = m
	}
	return out
}

func c09Classify(j c09Job, res c09Result) []c09Failure {
	var out []c09Failure
	add := func(kind, what string) {
		out = append(out, c09Failure{sig: j.Ident + " " + kind, what: fmt.Sprintf("=%s : %s", c09Short(j.Formula), what), replay: j.Op, tuple: j.Tuple})
	}
	st := res.status
	switch {
	case strings.HasPrefix(st, "panic@"):
		add(strings.SplitN(st, "|", 2)[0], "CalcCellValue panics ("+strings.TrimPrefix(strings.SplitN(st, "|", 2)[0], "panic@")+")")
	case st == "timeout":
		add("timeout", fmt.Sprintf("CalcCellValue did not return within %v of CPU time", c09CPULimit))
	case strings.HasPrefix(st, "crash:"):
		add(st, "CalcCellValue kills the process ("+strings.TrimPrefix(st, "crash:")+")")
	}
	if !res.det && !j.Vol && !strings.Contains(st, "panic@") {
		add("nondeterministic", "evaluating twice gives different answers: "+c09Short(st))
	}
	if !res.pure {
		add("impure", "the workbook observation differs after evaluation")
	}
	return out
}

func c09Short(s string) string {
	if len(s) > 160 {
		return s[:157] + "..."
	}
	return s
}

// c09RunJobs evaluates all jobs on nw worker processes and records cases, statistics and failures.
// Jobs of one Group (function/arity) are evaluated in order by one worker.
func c09RunJobs(r *Run, jobs []c09Job, nw int) {
	known := c09KnownTuples()
	discover := os.Getenv("VH_C09_DISCOVER") != ""
	results := make([]c09Result, len(jobs))
	skipped := make([]bool, len(jobs))
	// chunks: maximal runs of the same non-empty group, or up to 128 ungrouped jobs
	type span struct{ lo, hi int }
	var spans []span
	for i := 0; i < len(jobs); {
		k := i + 1
		if jobs[i].Group != "" {
			for k < len(jobs) && jobs[k].Group == jobs[i].Group {
				k++
			}
		} else {
			for k < len(jobs) && jobs[k].Group == "" && k-i < 128 {
				k++
			}
		}
		spans = append(spans, span{i, k})
		i = k
	}
	var next atomic.Int64
	var wg sync.WaitGroup
	for w := 0; w < nw; w++ {
		wg.Add(1)
		go func() {
			defer wg.Done()
			var p *c09Proc
			defer func() {
				if p != nil {
					p.stop()
				}
			}()
			for {
				si := int(next.Add(1)) - 1
				if si >= len(spans) {
					return
				}
				sp := spans[si]
				hangs := 0
				// a (function, arity) group with an open known hang: only the witness among its
				// huge-number tuples is evaluated (each hang costs the whole CPU limit)
				_, knownHang := known["fn:"+jobs[sp.lo].Group+" timeout"]
				for i := sp.lo; i < sp.hi; i++ {
					j := jobs[i]
					if j.Group != "" && j.Big && !j.Witness &&
						((knownHang && !discover) || (discover && hangs >= 5)) {
						skipped[i] = true
						continue
					}
					if p == nil {
						p = c09Start()
					}
					res, alive := p.run(i, j.Formula)
					if !alive {
						p = nil
					}
					if res.status == "timeout" && !j.Big {
						// a hang without a huge-number argument is unusual: confirm it on a fresh worker
						p = c09Start()
						res, alive = p.run(i, j.Formula)
						if !alive {
							p = nil
						}
					}
					results[i] = res
					if res.status == "timeout" {
						hangs++
					}
				}
			}
		}()
	}
	wg.Wait()
	var fails []c09Failure
	var slow []string
	nSkip := 0
	skipGroups := map[string]bool{}
	grouped := map[string]*struct {
		What, Replay string
		Tuples       []string
	}{}
	for i, j := range jobs {
		if skipped[i] {
			nSkip++
			skipGroups[j.Group] = true
			continue
		}
		res := results[i]
		r.Case(j.Ident+"|"+j.Formula, true)
		r.Stat(j.Class)
		out := strings.SplitN(strings.SplitN(res.status, ":", 2)[0], "@", 2)[0]
		r.Stat("outcome:" + out)
		if res.micros > 1_000_000 {
			slow = append(slow, fmt.Sprintf("%s(%s) %.1fs", j.Ident, j.Tuple, float64(res.micros)/1e6))
		}
		for _, f := range c09Classify(j, res) {
			g := grouped[f.sig]
			if g == nil {
				g = &struct {
					What, Replay string
					Tuples       []string
				}{What: f.what, Replay: f.replay}
				grouped[f.sig] = g
			}
			g.Tuples = append(g.Tuples, f.tuple)
			// exact identity: (function, arity, outcome) must be listed AND this tuple must be listed
			if ts, ok := known[f.sig]; j.Group != "" && ok && !ts[f.tuple] && !ts["*"] {
				f.sig += " new-tuple(" + f.tuple + ")"
			}
			fails = append(fails, f)
		}
	}
	// failures not in the known list first: the per-run cap of recorded failures must not hide them
	isKnown := func(sig string) bool { _, ok := known[sig]; return ok }
	sort.SliceStable(fails, func(a, b int) bool { return !isKnown(fails[a].sig) && isKnown(fails[b].sig) })
	for _, f := range fails {
		r.Fail(f.sig, f.what, 0, f.replay)
	}
	if b, err := json.MarshalIndent(grouped, "", " "); err == nil {
		_ = os.WriteFile(r.Dir+"/c09_failures.json", b, 0o644)
	}
	if nSkip > 0 {
		gs := make([]string, 0, len(skipGroups))
		for g := range skipGroups {
			gs = append(gs, g)
		}
		sort.Strings(gs)
		r.Stats["fn:skipped-huge-number-tuples-of-hanging-groups"] = nSkip
		r.Notes = append(r.Notes, fmt.Sprintf("not enumerated: %d huge-number tuples of %d (function/arity) groups with a known hang: %s", nSkip, len(gs), strings.Join(gs, " ")))
	}
	if len(slow) > 0 {
		sort.Strings(slow)
		if len(slow) > 20 {
			slow = slow[:20]
		}
		r.Notes = append(r.Notes, "calls slower than 1s: "+strings.Join(slow, "; "))
	}
}

// ---------------------------------------------------------------- job generation

func c09Product(names []string, tier string, rng *Rng) []c09Job {
	var jobs []c09Job
	all := make([]string, len(c09Kinds))
	for i, k := range c09Kinds {
		all[i] = k.code
	}
	in4 := map[string]bool{}
	for _, k := range c09Kinds4 {
		in4[k] = true
	}
	stride3, stride4 := 29, 31
	if tier == "thorough" {
		stride3, stride4 = 1, 1
	}
	off := rng.Intn(1 << 20)
	n := 0
	for _, name := range names {
		jobs = append(jobs, c09FnJob(name, nil))
		for _, a := range all {
			jobs = append(jobs, c09FnJob(name, []string{a}))
		}
		for _, a := range all {
			for _, b := range all {
				jobs = append(jobs, c09FnJob(name, []string{a, b}))
			}
		}
		for _, a := range all {
			for _, b := range all {
				for _, c := range all {
					n++
					if (n+off)%stride3 == 0 {
						jobs = append(jobs, c09FnJob(name, []string{a, b, c}))
					}
				}
			}
		}
		// criteria-shaped product: (range, criteria), (range, criteria, range), (range, range, criteria) and
		// (database, field, criteria table) over ranges / arrays with non-empty cells
		for _, m := range c09CriteriaKinds {
			for _, a := range []string{"rg", "rc", "ar"} {
				jobs = append(jobs, c09FnJob(name, []string{a, m.code}))
			}
			jobs = append(jobs, c09FnJob(name, []string{"rg", m.code, "rg"}), c09FnJob(name, []string{"rg", m.code, "em"}),
				c09FnJob(name, []string{"rg", "rg", m.code}), c09FnJob(name, []string{"ar", "n1", m.code}), c09FnJob(name, []string{"rg", "em", m.code}))
		}
		for _, a := range c09Kinds4Text[0] {
			for _, b := range c09Kinds4Text[1] {
				for _, c := range c09Kinds4Text[2] {
					for _, d := range c09Kinds4Text[3] {
						if in4[a] && in4[b] && in4[c] && in4[d] {
							continue // already in the reduced arity-4 product below
						}
						jobs = append(jobs, c09FnJob(name, []string{a, b, c, d}))
					}
				}
			}
		}
		for _, a := range c09Kinds4 {
			for _, b := range c09Kinds4 {
				for _, c := range c09Kinds4 {
					for _, d := range c09Kinds4 {
						n++
						if (n+off)%stride4 == 0 {
							jobs = append(jobs, c09FnJob(name, []string{a, b, c, d}))
						}
					}
				}
			}
		}
	}
	return jobs
}

var c09Seeds = []string{
	"SUM(A1:B2)*2+MAX(A1,B2)", "IF(A1>0,\"p\",\"n\")&C1", "VLOOKUP(3,A1:B2,2,FALSE)", "INDEX(A1:B2,2,1)+NM", "SUMPRODUCT(A1:A2,B1:B2)",
	"TEXT(E1,\"yyyy-mm-dd\")", "ROUND(A1/B2,2)", "AND(C2,A1=1)", "COUNTIF(A1:B2,\">1\")", "MATCH(4,A1:B2,0)", "LEFT(C1,2)&RIGHT(C1,1)",
	"DATE(2020,1,31)+1", "Sheet2!A1*2", "D1+1", "-A1%", "IFERROR(1/0,\"e\")", "CHOOSE(2,A1,B1,A2)", "OFFSET(A1,1,1)", "INDIRECT(\"A\"&1)",
	"SUM({1,2;3,4})", "LOOKUP(2,{1,2,3},{\"a\",\"b\",\"c\"})", "TRANSPOSE(A1:B2)", "MMULT(A1:B2,A1:B2)", "XLOOKUP(3,A1:A2,B1:B2)",
}

func c09TxtJobs(r *Run, rng *Rng, names []string) []c09Job {
	var jobs []c09Job
	nMut := 3000
	if r.Tier == "thorough" {
		nMut = 60000
	}
	// character- and token-level mutations of well-formed formulas
	frag := []string{"(", ")", ",", "{", "}", ";", "\"", "'", "!", ":", "$", "#REF!", "#N/A", "%", "-", "+", "*", "/", "^", "&", "=", "<", ">", " ",
		"A1", "XFD1048576", "XFE1", "A0", "A1048577", "Sheet2!", "Sheet9!A1", "'Sheet 2'!A1", "[1]Sheet1!A1", "A:A", "1:1", "A1:", ":B2", "A1:B2:C3",
		"NM", "NOPE", "1E+308", "1E+309", "1E-320", "0x10", "1_0", "TRUE", "@", "[", "]", "\\", "\x00", "é", "∑"}
	for i := 0; i < nMut; i++ {
		s := rng.Pick(c09Seeds)
		switch rng.Intn(6) {
		case 0: // splice a fragment
			p := rng.Intn(len(s) + 1)
			s = s[:p] + rng.Pick(frag) + s[p:]
		case 1: // delete a span
			if len(s) > 2 {
				p := rng.Intn(len(s) - 1)
				q := p + 1 + rng.Intn(min(4, len(s)-p-1))
				s = s[:p] + s[q:]
			}
		case 2: // replace a function name by another (known or unknown)
			name := rng.Pick(names)
			if rng.Chance(15) {
				name = rng.Pick([]string{"NOSUCHFN", "_xlfn.NOSUCH", "Sum", "sum", "X.Y.Z", "'*'", "ARRAY", "ARRAYROW"})
			}
			if i := strings.Index(s, "("); i > 0 {
				j := i
				for j > 0 && (s[j-1] == '.' || s[j-1] == '_' || s[j-1] >= '0' && s[j-1] <= '9' || s[j-1] >= 'A' && s[j-1] <= 'Z') {
					j--
				}
				s = s[:j] + name + s[i:]
			}
		case 3: // token-level: drop / duplicate / swap one efp token and re-render
			ps := efp.ExcelParser()
			ts := c09Mutate(rng, ps.Parse(s))
			s = c09Render(ts)
		case 4: // nest into another function
			s = rng.Pick(names) + "(" + s + rng.Pick([]string{"", ",1", ",A1:B2", ",,"}) + ")"
		default: // two mutations of kind 0
			for k := 0; k < 2; k++ {
				p := rng.Intn(len(s) + 1)
				s = s[:p] + rng.Pick(frag) + s[p:]
			}
		}
		jobs = append(jobs, c09TxtJob(s, "mutation"))
	}
	// deep nesting and long formulas (each of these may kill the process: isolated in the worker)
	for _, n := range []int{10, 100, 1000, 10000, 100000} {
		if n > 10000 && r.Tier != "thorough" {
			continue
		}
		jobs = append(jobs,
			c09TxtJob(strings.Repeat("(", n)+"1"+strings.Repeat(")", n), "deep"),
			c09TxtJob(strings.Repeat("(", n)+"1", "deep"),
			c09TxtJob("1"+strings.Repeat(")", n), "deep"),
			c09TxtJob(strings.Repeat("-", n)+"1", "deep"),
			c09TxtJob("1"+strings.Repeat("%", n), "deep"),
			c09TxtJob(strings.Repeat("SUM(", n)+"1"+strings.Repeat(")", n), "deep"),
			c09TxtJob(strings.Repeat("SUM(1,", n)+"1"+strings.Repeat(")", n), "deep"),
			c09TxtJob(strings.Repeat("IF(TRUE,", n)+"1"+strings.Repeat(")", n), "deep"),
			c09TxtJob(strings.Repeat("{", n)+"1"+strings.Repeat("}", n), "deep"),
			c09TxtJob("1"+strings.Repeat("+1", n), "deep"),
			c09TxtJob("SUM(1"+strings.Repeat(",1", n)+")", "deep"),
			c09TxtJob(strings.Repeat("1^", n)+"1", "deep"),
			c09TxtJob("\""+strings.Repeat("a", n)+"\"&\""+strings.Repeat("b", n)+"\"", "deep"),
		)
	}
	// the evaluator-core witnesses through the public entry point
	for _, w := range c09EvWitnesses {
		jobs = append(jobs, c09TxtJob(w, "witness"))
	}
	// self- and mutually-referential formulas through functions that resolve references themselves
	for _, s := range []string{c09Cell0, "SUM(" + c09Cell0 + ")", "SUM(A1:Z9)", "INDIRECT(\"" + c09Cell0 + "\")", "OFFSET(" + c09Cell0 + ",0,0)",
		"ANCHORARRAY(" + c09Cell0 + ")", "FORMULATEXT(" + c09Cell0 + ")", "ISFORMULA(" + c09Cell0 + ")", "SUBTOTAL(9," + c09Cell0 + ")", "ROW(" + c09Cell0 + ")",
		"INDEX(A1:" + c09Cell0 + ",3,8)", "D1+" + c09Cell0, "NM+" + c09Cell0, "SUM(1:1)", "SUM(A:XFD)", "COUNT(1:1048576)"} {
		jobs = append(jobs, c09TxtJob(s, "selfref"))
	}
	// the same through ARRAY formulas: ANCHORARRAY evaluates the cells of the array formula it is pointed at
	h, j, k := c09Cell0, "J3", "K3"
	for _, cells := range [][][3]string{
		{{h, h + ":" + h, "ANCHORARRAY(" + h + ")"}},                                            // itself
		{{h, h + ":H4", "SUM(ANCHORARRAY(" + h + "))"}},                                         // itself, two cells
		{{j, j + ":" + j, "ANCHORARRAY(" + h + ")"}, {h, h + ":" + h, "ANCHORARRAY(" + j + ")"}}, // two-cycle
		{{j, j + ":" + j, h + "+1"}, {h, "", "ANCHORARRAY(" + j + ")"}},                         // cycle through a plain reference
		{{k, k + ":" + k, "ANCHORARRAY(" + h + ")"}, {j, j + ":" + j, "ANCHORARRAY(" + k + ")"}, {h, h + ":" + h, "ANCHORARRAY(" + j + ")"}},
		{{j, j + ":J4", "A1:A2"}, {h, "", "SUM(ANCHORARRAY(" + j + "))"}}, // acyclic control
	} {
		jobs = append(jobs, c09ArrJob(cells, "arrself"))
	}
	return jobs
}

// c09Render turns efp tokens back into formula text (approximately: enough to re-tokenise mutated streams)
func c09Render(ts []efp.Token) string {
	var b strings.Builder
	for _, t := range ts {
		switch {
		case t.TType == efp.TokenTypeFunction && t.TSubType == efp.TokenSubTypeStart:
			if t.TValue == "ARRAY" {
				b.WriteString("{")
			} else if t.TValue != "ARRAYROW" {
				b.WriteString(t.TValue + "(")
			}
		case t.TType == efp.TokenTypeFunction && t.TSubType == efp.TokenSubTypeStop:
			b.WriteString(")")
		case t.TType == efp.TokenTypeSubexpression && t.TSubType == efp.TokenSubTypeStart:
			b.WriteString("(")
		case t.TType == efp.TokenTypeSubexpression && t.TSubType == efp.TokenSubTypeStop:
			b.WriteString(")")
		case t.TType == efp.TokenTypeOperand && t.TSubType == efp.TokenSubTypeText:
			b.WriteString("\"" + strings.ReplaceAll(t.TValue, "\"", "\"\"") + "\"")
		case t.TType == efp.TokenTypeOperatorInfix && t.TValue == "":
			b.WriteString(" ")
		default:
			b.WriteString(t.TValue)
		}
	}
	return b.String()
}

func c09WorkerStreams(r *Run, rng *Rng) {
	names := c09FactList("formulaFuncs")
	if len(names) == 0 {
		r.Fail("fn:no-function-list", "the extracted list of formula functions is empty (lean/XlModel/Generated/FactsC09.lean)", 0, "")
		return
	}
	r.Stats["fn:functions"] = len(names)
	only := os.Getenv("VH_C09_ONLY")
	if only != "" {
		keep := map[string]bool{}
		for _, n := range strings.Split(only, ",") {
			keep[n] = true
		}
		var sel []string
		for _, n := range names {
			if keep[n] {
				sel = append(sel, n)
			}
		}
		names = sel
	}
	jobs := c09Product(names, r.Tier, rng)
	if only == "" {
		jobs = append(jobs, c09TxtJobs(r, rng, names)...)
	}
	// witnesses of open known findings are always part of the run
	have := map[string]int{}
	for i, j := range jobs {
		have[j.Op] = i + 1
	}
	for _, k := range c09LoadKnown() {
		if k.Status != "open" || only != "" {
			continue
		}
		if i := have[k.Replay]; i > 0 {
			jobs[i-1].Witness = true
			continue
		}
		if j, ok := c09JobOfLine(k.Replay); ok {
			j.Class, j.Witness = "known-witness", true
			jobs = append(jobs, j)
			have[k.Replay] = len(jobs)
		}
	}
	violations := 0
	for i := range jobs {
		jobs[i].Vol = c09IsVolatile(jobs[i].Formula)
		// the nesting discipline the theorem eval_no_panic assumes of the tokenizer, checked on the
		// efp tokens of EVERY generated formula text (function product, mutations, deep nesting, witnesses)
		ps := efp.ExcelParser()
		if strings.HasPrefix(jobs[i].Formula, "arr\t") {
			continue // several formulas in one job
		}
		if toks := ps.Parse(jobs[i].Formula); !c09NestedA(toks) {
			// not a failure of the property: the formula is outside the theorem's hypothesis (efp emits an
			// ARRAYROW start for every ';' and for a function literally named ARRAYROW, also outside an array
			// constant); it is still evaluated under the no-panic oracle below. Counted and sampled.
			violations++
			if violations <= 3 {
				r.Notes = append(r.Notes, fmt.Sprintf("outside nestedA: %q [%s]", c09Short(jobs[i].Formula), c09Short(c09Shape(toks))))
			}
		}
	}
	r.Stats["efp-discipline:formulas-checked"] += len(jobs)
	r.Stats["efp-discipline:violations"] += violations
	nw := runtime.NumCPU()
	if nw > 16 {
		nw = 16
	}
	t0 := time.Now()
	c09RunJobs(r, jobs, nw)
	r.Exhaust = false // the product is enumerated completely in the thorough tier except the tuples named in the notes
	r.Notes = append(r.Notes, fmt.Sprintf("worker stream: %d jobs on %d workers in %.1fs (function product: %d functions x arities 0..4 x %d kinds (arity 4: %d kinds), tier %s)",
		len(jobs), nw, time.Since(t0).Seconds(), len(names), len(c09Kinds), len(c09Kinds4), r.Tier))
}
