//go:build verif_c10

package main

// C10 — number-format rendering. Transcript ops (see lean/XlModel/Drv/C10.lean):
//   fmt <cellNumeric> <value> N … D … L … S …   the real `format` (hook) on one value/code pair;
//        everything the model takes as a parameter travels on the line: nfp's token list,
//        strconv's shortest renderings, the calendar fields of timeFromExcelTime, locale lookups.
//        result: ok <hex>|PANIC  C=<numberFormat state dump>  X=<exact half-away rendering>
//   comma <text>                                   printCommaSep (hook)
// Replay lines (also accepted: the ops above are rebuilt from them):
//   case <cellNumeric> <date1904> <value> <code>   one fmt case with all oracles
//   comma <text>
//   api <date1904> <value> <code>                  public API: NewStyle{CustomNumFmt}+SetCellDefault+GetCellValue
//   opt <culture> <short> <longdate> <longtime> <date1904> <value> <code>   Options path (sub-process when a
//                                                  pattern carries a system date/time tag)
//   lang <code>                                    AM/PM + month + weekday rendering under one locale tag
//   builtin <id> <value>                           built-in / language id through NewStyle{NumFmt}
//
// Direct oracles (no model involved): totality (panic / hang / crash), fall-back verbatim on
// unsupported tokens, accuracy to half a unit of the last shown place against the exact decimal
// (big.Rat), section selection by class and section count, sign twins, date/time fields against
// the Go standard library calendar, 12-hour and elapsed consistency, thousands grouping.

import (
	"archive/zip"
	"bytes"
	"encoding/xml"
	"fmt"
	"io"
	"math"
	"math/big"
	"os"
	"os/exec"
	"path/filepath"
	"regexp"
	"sort"
	"strconv"
	"strings"
	"time"

	xl "github.com/xuri/excelize/v2"
	"github.com/xuri/nfp"
)

func init() { props["C10"] = runC10 }

var c10epoch = time.Date(1899, time.December, 30, 0, 0, 0, 0, time.UTC)

// ---------------------------------------------------------------------------
// guarded calls

type c10res struct {
	s     string
	panic string
	hang  bool
}

func c10guard(fn func() string) c10res {
	ch := make(chan c10res, 1)
	go func() {
		defer func() {
			if e := recover(); e != nil {
				ch <- c10res{panic: fmt.Sprint(e)}
			}
		}()
		ch <- c10res{s: fn()}
	}()
	select {
	case x := <-ch:
		return x
	case <-time.After(20 * time.Second):
		return c10res{hang: true}
	}
}

var c10numRe = regexp.MustCompile(`[0-9]+`)

func c10panicClass(msg string) string {
	m := c10numRe.ReplaceAllString(msg, "N")
	if len(m) > 60 {
		m = m[:60]
	}
	return strings.ReplaceAll(m, " ", "_")
}

func c10parse(code string) (secs []nfp.Section, pan string) {
	defer func() {
		if e := recover(); e != nil {
			pan = fmt.Sprint(e)
		}
	}()
	p := nfp.NumberFormatParser()
	return p.Parse(code), ""
}

// ---------------------------------------------------------------------------
// exact decimals

var c10decRe = regexp.MustCompile(`^[+-]?([0-9]+\.?[0-9]*|\.[0-9]+)([eE][+-]?[0-9]+)?$`)

// c10exact parses the strict decimal grammar of the Lean Exact.parse.
func c10exact(s string) (*big.Rat, bool) {
	if !c10decRe.MatchString(s) {
		return nil, false
	}
	if i := strings.IndexAny(s, "eE"); i >= 0 {
		e, err := strconv.Atoi(s[i+1:])
		if err != nil || e > 400 || e < -400 {
			return nil, false
		}
	}
	if len(s) > 500 {
		return nil, false
	}
	r, ok := new(big.Rat).SetString(s)
	return r, ok
}

func c10pow10(n int) *big.Int { return new(big.Int).Exp(big.NewInt(10), big.NewInt(int64(n)), nil) }

// c10exactFixed renders |x|*100^pct rounded half away from zero to d decimals.
func c10exactFixed(x *big.Rat, pct, d int) string {
	v := new(big.Rat).Abs(x)
	v.Mul(v, new(big.Rat).SetInt(c10pow10(2*pct+d)))
	num, den := new(big.Int).Set(v.Num()), new(big.Int).Set(v.Denom())
	k := new(big.Int).Mul(num, big.NewInt(2))
	k.Add(k, den)
	k.Quo(k, new(big.Int).Mul(den, big.NewInt(2)))
	s := k.String()
	if d == 0 {
		return s
	}
	for len(s) <= d {
		s = "0" + s
	}
	return s[:len(s)-d] + "." + s[len(s)-d:]
}

// ---------------------------------------------------------------------------
// building one fmt op

// c10o: the Options a File was opened with, as far as format reads them
type c10o struct {
	culture                   int
	short, longDate, longTime string
}

func (o *c10o) options() *xl.Options {
	if o == nil {
		return nil
	}
	return &xl.Options{CultureInfo: xl.CultureName(o.culture), ShortDatePattern: o.short, LongDatePattern: o.longDate, LongTimePattern: o.longTime}
}

type c10case struct {
	cellNumeric, d1904 bool
	value, code        string
	o                  *c10o
	// glue cases: the result comes from the public API instead of the hook
	api    func() string
	prefix string
	suffix string
	rep    string
}

func c10mk(cellNumeric, d1904 bool, value, code string, o *c10o) c10case {
	return c10case{cellNumeric: cellNumeric, d1904: d1904, value: value, code: code, o: o}
}

func (c c10case) replay() string {
	if c.rep != "" {
		return c.rep
	}
	if c.o != nil {
		return fmt.Sprintf("caseo %s %s %s %s %d %s %s %s", b01(c.cellNumeric), b01(c.d1904), hx(c.value), hx(c.code), c.o.culture, hx(c.o.short), hx(c.o.longDate), hx(c.o.longTime))
	}
	return fmt.Sprintf("case %s %s %s %s", b01(c.cellNumeric), b01(c.d1904), hx(c.value), hx(c.code))
}

func b01(b bool) string {
	if b {
		return "1"
	}
	return "0"
}

func c10asciiUpper(s string) string {
	b := []byte(s)
	for i, ch := range b {
		if 'a' <= ch && ch <= 'z' {
			b[i] = ch - 32
		}
	}
	return string(b)
}

func c10effLang(v string) string {
	for _, s := range []string{"F800", "x-sysdate", "1010000"} {
		if strings.EqualFold(s, v) {
			v = "409"
		}
	}
	for _, s := range []string{"F400", "x-systime"} {
		if strings.EqualFold(s, v) {
			v = "409"
		}
	}
	return v
}

var c10epoch1904 = time.Date(1904, time.January, 1, 0, 0, 0, 0, time.UTC)

func c10timeFields(t time.Time, d1904 bool) string {
	ep := c10epoch
	if d1904 {
		ep = c10epoch1904
	}
	return fmt.Sprintf("%d %d %d %d %d %d %d %d", t.Year(), int(t.Month()), t.Day(), t.Hour(), t.Minute(), t.Second(), t.Nanosecond(), t.Unix()-ep.Unix())
}

func c10era(tags []string) bool {
	for _, t := range tags {
		if strings.EqualFold(t, "zh-TW") || strings.EqualFold(t, "ja-JP") {
			return true
		}
	}
	return false
}

type c10built struct {
	op       string
	secs     []nfp.Section
	parsePan string
	inScope  bool
	why      string
	isNum    bool
	prec     int
	pf       float64
}

func c10build(c c10case) c10built {
	var b c10built
	b.secs, b.parsePan = c10parse(c.code)
	if b.parsePan != "" {
		b.why = "nfp-panic"
		return b
	}
	isNum, prec, flt := xl.VerifC10IsNumeric(c.value)
	pf, _ := strconv.ParseFloat(c.value, 64)
	b.isNum, b.prec, b.pf = isNum, prec, pf
	var sb strings.Builder
	sb.WriteString("fmt " + b01(c.cellNumeric) + " " + hx(c.value))
	absS := strconv.FormatFloat(math.Abs(pf), 'f', -1, 64)
	big0 := strings.TrimLeft(strconv.FormatFloat(flt*math.Pow(100, 0), 'f', -1, 64), "-")
	big1 := strings.TrimLeft(strconv.FormatFloat(flt*math.Pow(100, 1), 'f', -1, 64), "-")
	fmt.Fprintf(&sb, " N %s %d %016x %s %s %s", b01(isNum), prec, math.Float64bits(pf), hx(absS), hx(big0), hx(big1))
	// calendar fields
	var t0, t1 time.Time
	h1900 := 0
	tr := c10guard(func() string {
		t0 = xl.VerifC10TimeFromExcelTime(pf, c.d1904)
		t1 = t0.Add(time.Second)
		h1900 = xl.VerifC10TimeFromExcelTime(pf, false).Hour()
		return ""
	})
	if tr.panic != "" || tr.hang {
		b.why = "time-panic"
		return b
	}
	fmt.Fprintf(&sb, " D %s %s %d", c10timeFields(t0, c.d1904), c10timeFields(t1, c.d1904), h1900)
	fmt.Fprintf(&sb, " I %s %d", b01(c.d1904), t0.Unix())
	// locale rows
	keys := map[string]bool{"": true}
	ok := true
	hasEraTok := false
	var ldSecs, ltSecs []nfp.Section
	hasLD, hasLT := false, false
	if c.o != nil {
		if c.o.culture == 2 || c.o.culture == 3 || c.o.culture == 5 {
			ok = false // era / Dangi year handlers: not modelled
			b.why = "culture"
		}
		var pp string
		if c.o.longDate != "" {
			hasLD = true
			if ldSecs, pp = c10parse(c.o.longDate); pp != "" {
				ok = false
			}
		}
		if c.o.longTime != "" {
			hasLT = true
			if ltSecs, pp = c10parse(c.o.longTime); pp != "" {
				ok = false
			}
		}
	}
	allSecs := append(append(append([]nfp.Section{}, b.secs...), ldSecs...), ltSecs...)
	for _, s := range allSecs {
		for _, t := range s.Items {
			if strings.ToUpper(t.TValue) != c10asciiUpper(t.TValue) {
				ok = false
			}
			switch t.TType {
			case nfp.TokenTypeDenominator, nfp.TokenTypeSwitchArgument:
				ok = false
				b.why = "unmodelled-token"
			case nfp.TokenTypeFraction:
				// modelled (continued-fraction search) unless the section also has an exponent token, the
				// number is not finite, or its fraction is so small that int64(1/frac) overflows
				fr := math.Abs(pf - math.Trunc(pf))
				if math.IsInf(pf, 0) || math.IsNaN(pf) || (fr != 0 && fr < 1e-18) {
					ok = false
					b.why = "fraction-of-nonfinite-or-tiny"
				}
				for _, t2 := range s.Items {
					if t2.TType == nfp.TokenTypeExponential {
						ok = false
						b.why = "unmodelled-token"
					}
				}
			case nfp.TokenTypeDateTimes:
				if strings.ContainsAny(strings.ToUpper(t.TValue), "GE") {
					hasEraTok = true
				}
			}
			for _, p := range t.Parts {
				if strings.ToUpper(p.Token.TValue) != c10asciiUpper(p.Token.TValue) {
					ok = false
				}
				if p.Token.TType == nfp.TokenSubTypeLanguageInfo {
					keys[strings.ToUpper(c10effLang(p.Token.TValue))] = true
				}
			}
		}
	}
	ks := make([]string, 0, len(keys))
	for k := range keys {
		ks = append(ks, k)
	}
	sort.Strings(ks)
	fmt.Fprintf(&sb, " L %d", len(ks))
	rows := map[string]xl.VerifC10Locale{}
	for _, k := range ks {
		var l0, l1 xl.VerifC10Locale
		lr := c10guard(func() string {
			l0 = xl.VerifC10LocaleInfo(k, t0)
			l1 = xl.VerifC10LocaleInfo(k, t1)
			return ""
		})
		if lr.panic != "" || lr.hang {
			b.why = "locale-panic"
			return b
		}
		rows[k] = l0
		era := c10era(l0.Tags)
		if era && hasEraTok {
			ok = false
			b.why = "era"
		}
		fmt.Fprintf(&sb, " %s %s %s %s %s %s %s %s %s %s %s %s %s %s", hx(k), b01(l0.OK), b01(era), hx(l0.ApFmt),
			hx(l0.Month3), hx(l0.Month4), hx(l0.Month5), hx(l0.WeekdayAbbr), hx(l0.Weekday),
			hx(l1.Month3), hx(l1.Month4), hx(l1.Month5), hx(l1.WeekdayAbbr), hx(l1.Weekday))
	}
	writeSecs := func(secs []nfp.Section) {
		fmt.Fprintf(&sb, " %d", len(secs))
		for _, s := range secs {
			fmt.Fprintf(&sb, " %s %d", s.Type, len(s.Items))
			for _, t := range s.Items {
				if t.TType == "" || strings.ContainsAny(t.TType, " \t") {
					ok = false
				}
				fmt.Fprintf(&sb, " %s %s %d", t.TType, hx(t.TValue), len(t.Parts))
				for _, p := range t.Parts {
					lok := false
					if p.Token.TType == nfp.TokenSubTypeLanguageInfo {
						lok = rows[strings.ToUpper(c10effLang(p.Token.TValue))].OK
					}
					pt := p.Token.TType
					if pt == "" {
						pt = "_"
					}
					fmt.Fprintf(&sb, " %s %s %s", pt, hx(p.Token.TValue), b01(lok))
				}
			}
		}
	}
	sb.WriteString(" S")
	writeSecs(b.secs)
	sb.WriteString(" O " + b01(hasLD))
	if hasLD {
		writeSecs(ldSecs)
	}
	sb.WriteString(" " + b01(hasLT))
	if hasLT {
		writeSecs(ltSecs)
	}
	if i := strings.IndexAny(c.value, "eE"); i >= 0 && c10decRe.MatchString(c.value) {
		if e, err := strconv.Atoi(c.value[i+1:]); err != nil || e > 400 || e < -400 {
			ok = false
			b.why = "huge-exponent"
		}
	}
	if len(c.value) > 500 {
		ok = false
	}
	b.op = sb.String()
	b.inScope = ok
	if !ok && b.why == "" {
		b.why = "non-ascii-case"
	}
	return b
}

func c10confStr(cf xl.VerifC10Conf, numeric bool) string {
	if !cf.Selected {
		return "C=-"
	}
	if !numeric {
		return fmt.Sprintf("C=%d,%s,%s", cf.SectionIdx, cf.SectionType, b01(cf.UsePositive))
	}
	return fmt.Sprintf("C=%d,%s,%s,%d,%d,%d,%d,%d,%d,%d,%d,%s,%s,%s,%s", cf.SectionIdx, cf.SectionType, b01(cf.UsePositive),
		cf.IntHolder, cf.IntPadding, cf.FracHolder, cf.FracPadding, cf.ExpBaseLen, cf.Percent, cf.IntLen, cf.FracLen,
		b01(cf.UseCommaSep), b01(cf.UseFraction), b01(cf.UsePointer), b01(cf.UseScientificNotation))
}

// ---------------------------------------------------------------------------
// token classification for the model-free oracles

var c10supported = map[string]bool{}

func c10initSupported() {
	for _, s := range []string{nfp.TokenTypeAlignment, nfp.TokenSubTypeCurrencyString, nfp.TokenSubTypeLanguageInfo,
		nfp.TokenTypeColor, nfp.TokenTypeCurrencyLanguage, nfp.TokenTypeDateTimes, nfp.TokenTypeDecimalPoint,
		nfp.TokenTypeDenominator, nfp.TokenTypeDigitalPlaceHolder, nfp.TokenTypeElapsedDateTimes, nfp.TokenTypeExponential,
		nfp.TokenTypeFraction, nfp.TokenTypeGeneral, nfp.TokenTypeHashPlaceHolder, nfp.TokenTypeLiteral, nfp.TokenTypePercent,
		nfp.TokenTypeRepeatsChar, nfp.TokenTypeSwitchArgument, nfp.TokenTypeTextPlaceHolder, nfp.TokenTypeThousandsSeparator,
		nfp.TokenTypeZeroPlaceHolder} {
		c10supported[s] = true
	}
}

// c10nfpNames: the extractor derives the model's token-type names by stripping the constant
// prefix; assert that this is the constant's value.
func c10nfpNames(r *Run) {
	m := map[string]string{
		"Alignment": nfp.TokenTypeAlignment, "CurrencyString": nfp.TokenSubTypeCurrencyString, "LanguageInfo": nfp.TokenSubTypeLanguageInfo,
		"Color": nfp.TokenTypeColor, "CurrencyLanguage": nfp.TokenTypeCurrencyLanguage, "DateTimes": nfp.TokenTypeDateTimes,
		"DecimalPoint": nfp.TokenTypeDecimalPoint, "Denominator": nfp.TokenTypeDenominator, "DigitalPlaceHolder": nfp.TokenTypeDigitalPlaceHolder,
		"ElapsedDateTimes": nfp.TokenTypeElapsedDateTimes, "Exponential": nfp.TokenTypeExponential, "Fraction": nfp.TokenTypeFraction,
		"General": nfp.TokenTypeGeneral, "HashPlaceHolder": nfp.TokenTypeHashPlaceHolder, "Literal": nfp.TokenTypeLiteral,
		"Percent": nfp.TokenTypePercent, "RepeatsChar": nfp.TokenTypeRepeatsChar, "SwitchArgument": nfp.TokenTypeSwitchArgument,
		"TextPlaceHolder": nfp.TokenTypeTextPlaceHolder, "ThousandsSeparator": nfp.TokenTypeThousandsSeparator,
		"ZeroPlaceHolder": nfp.TokenTypeZeroPlaceHolder, "Condition": nfp.TokenTypeCondition, "Unknown": nfp.TokenTypeUnknown,
		"Positive": nfp.TokenSectionPositive, "Negative": nfp.TokenSectionNegative, "Zero": nfp.TokenSectionZero, "Text": nfp.TokenSectionText,
	}
	for k, v := range m {
		if k != v {
			r.Fail("tie:nfp-constant-name", fmt.Sprintf("nfp constant for %s has value %q: the extracted facts no longer name token types", k, v), 0, "# nfp constants")
		}
	}
}

func c10noDigits(s string) bool { return !strings.ContainsAny(s, "0123456789.,%Ee+-") }

// c10plain: the selected section is a plain decimal / thousands / percent (/ scientific) code:
// placeholders, at most one decimal point, separators, percent, digit-free literals, colours,
// alignment, currency without digits. Returns (plain, scientific, percentCount).
func c10plain(items []nfp.Token) (bool, bool, int) {
	points, holders, pct, sci := 0, 0, 0, false
	for _, t := range items {
		switch t.TType {
		case nfp.TokenTypeZeroPlaceHolder, nfp.TokenTypeHashPlaceHolder:
			holders++
		case nfp.TokenTypeDecimalPoint:
			points++
		case nfp.TokenTypeThousandsSeparator, nfp.TokenTypeColor, nfp.TokenTypeAlignment:
		case nfp.TokenTypePercent:
			pct += len(t.TValue)
		case nfp.TokenTypeExponential:
			sci = true
		case nfp.TokenTypeLiteral:
			if !c10noDigits(t.TValue) {
				return false, false, 0
			}
		case nfp.TokenTypeCurrencyLanguage:
			for _, p := range t.Parts {
				if p.Token.TType == nfp.TokenSubTypeCurrencyString && !c10noDigits(p.Token.TValue) {
					return false, false, 0
				}
			}
		default:
			return false, false, 0
		}
	}
	return holders > 0 && points <= 1, sci, pct
}

var (
	c10fixedOut = regexp.MustCompile(`^[0-9]+(\.[0-9]+)?$`)
	c10sciOut   = regexp.MustCompile(`^-?([0-9]+(?:\.[0-9]+)?)E([+-][0-9]+)$`)
)

func c10strip(s string, keep string) string {
	var b strings.Builder
	for _, ch := range s {
		if strings.ContainsRune(keep, ch) {
			b.WriteRune(ch)
		}
	}
	return b.String()
}

// c10accuracy: |rendered - |x|*100^pct| <= half unit of the last shown place + two binary64 roundings.
func c10accuracy(x *big.Rat, pct int, out string, sci bool) (bool, string) {
	want := new(big.Rat).Abs(x)
	want.Mul(want, new(big.Rat).SetInt(c10pow10(2*pct)))
	// two units in the last place of the binary64 nearest to the exact value (absolute, so subnormals are covered)
	wf, _ := want.Float64()
	step := math.Nextafter(wf, math.Inf(1)) - wf
	if math.IsInf(step, 0) || math.IsNaN(step) {
		step = wf - math.Nextafter(wf, 0)
	}
	ulp := new(big.Rat).SetFloat64(step)
	if ulp == nil {
		ulp = new(big.Rat)
	}
	slack := new(big.Rat).Mul(ulp, big.NewRat(2, 1))
	// the representation error of the stored value itself (matters for subnormals) is scaled by 100^pct
	xf, _ := new(big.Rat).Abs(x).Float64()
	if sx := math.Nextafter(xf, math.Inf(1)) - xf; !math.IsInf(sx, 0) && !math.IsNaN(sx) {
		if u := new(big.Rat).SetFloat64(sx); u != nil {
			u.Mul(u, big.NewRat(2, 1))
			u.Mul(u, new(big.Rat).SetInt(c10pow10(2*pct)))
			if u.Cmp(slack) > 0 {
				slack = u
			}
		}
	}
	// four correctly rounded binary64 operations (parse, percent scaling, *10^d, /10^d): 4 * 2^-53 relative
	if rel := new(big.Rat).Mul(want, big.NewRat(1, 1<<51)); rel.Cmp(slack) > 0 {
		slack = rel
	}
	var got, half *big.Rat
	if sci {
		m := c10sciOut.FindStringSubmatch(c10strip(out, "0123456789.E+-"))
		if m == nil {
			return false, "rendering is not d.dddE±xx"
		}
		e, _ := strconv.Atoi(m[2])
		got, _ = new(big.Rat).SetString(m[1])
		d := 0
		if i := strings.Index(m[1], "."); i >= 0 {
			d = len(m[1]) - i - 1
		}
		half = big.NewRat(1, 2)
		half.Quo(half, new(big.Rat).SetInt(c10pow10(d)))
		sc := new(big.Rat).SetInt(c10pow10(int(math.Abs(float64(e)))))
		if e >= 0 {
			got.Mul(got, sc)
			half.Mul(half, sc)
		} else {
			got.Quo(got, sc)
			half.Quo(half, sc)
		}
	} else {
		ds := c10strip(out, "0123456789.")
		if !c10fixedOut.MatchString(ds) {
			return false, "rendered digits are not a decimal numeral: " + ds
		}
		got, _ = new(big.Rat).SetString(ds)
		d := 0
		if i := strings.Index(ds, "."); i >= 0 {
			d = len(ds) - i - 1
		}
		half = big.NewRat(1, 2)
		half.Quo(half, new(big.Rat).SetInt(c10pow10(d)))
	}
	diff := new(big.Rat).Sub(got, want)
	diff.Abs(diff)
	lim := new(big.Rat).Add(half, slack)
	if diff.Cmp(lim) > 0 {
		return false, fmt.Sprintf("|rendered - exact| = %s > half unit %s + slack %s", diff.FloatString(25), half.FloatString(25), slack.FloatString(25))
	}
	return true, ""
}

func c10hasEdgeAlignment(items []nfp.Token) bool {
	return len(items) > 0 && (items[0].TType == nfp.TokenTypeAlignment || items[len(items)-1].TType == nfp.TokenTypeAlignment)
}

// c10overflows: |x|*100^pct is not a finite binary64 (outside the property's quantifier).
func c10overflows(x *big.Rat, pct int) bool {
	v := new(big.Rat).Abs(x)
	v.Mul(v, new(big.Rat).SetInt(c10pow10(2*pct)))
	f, _ := v.Float64()
	return math.IsInf(f, 0)
}

// c10class: pos / neg / zero / text by the exact decimal (text when the value is not numeric).
func c10class(c c10case, isNum bool) string {
	if !c.cellNumeric || !isNum {
		return "text"
	}
	if x, ok := c10exact(c.value); ok {
		if f, _ := strconv.ParseFloat(c.value, 64); (f == 0) != (x.Sign() == 0) {
			return "other" // underflows binary64: outside the property's quantifier
		}
		switch x.Sign() {
		case 0:
			return "zero"
		case -1:
			return "neg"
		}
		return "pos"
	}
	return "other"
}

// c10wantSection: Excel's positional rule over the non-text sections (a trailing section that nfp typed
// Text is the text section). ok=false: rule not applicable (text section in the middle).
func c10wantSection(secs []nfp.Section, cls string) (idx int, applicable bool) {
	n := len(secs)
	for i, s := range secs {
		if s.Type == nfp.TokenSectionText && i != n-1 {
			return 0, false
		}
	}
	if n > 0 && secs[n-1].Type == nfp.TokenSectionText {
		if cls == "text" {
			return n - 1, true
		}
		n--
	} else if cls == "text" {
		return -1, true
	}
	switch {
	case n == 0:
		return -1, true
	case n == 1:
		return 0, true
	case n == 2:
		if cls == "neg" {
			return 1, true
		}
		return 0, true
	}
	switch cls {
	case "neg":
		return 1, true
	case "zero":
		return 2, true
	}
	return 0, true
}

// ---------------------------------------------------------------------------
// one fmt case with every oracle

// c10lastLine: transcript line of the most recent c10fmt call (0 = kept out of the transcript)
var c10lastLine int

func c10fmt(r *Run, c c10case) (string, bool) {
	c10lastLine = 0
	b := c10build(c)
	rep := c.replay()
	ct := xl.CellTypeSharedString
	if c.cellNumeric {
		ct = xl.CellTypeNumber
	}
	res := c10guard(func() string {
		if c.api != nil {
			return c.api()
		}
		return xl.VerifC10Format(c.value, c.code, c.d1904, ct, c.o.options())
	})
	cls := c10class(c, b.isNum)
	r.Stat("class:" + cls)
	r.Stat(fmt.Sprintf("sections:%d", len(b.secs)))
	if res.hang {
		r.Fail("total:hang", fmt.Sprintf("format(%q, %q) did not return within 20s", c.value, c.code), 0, rep)
		r.Case(rep, true)
		return "", false
	}
	line := 0
	var cf xl.VerifC10Conf
	numeric := c.cellNumeric && b.isNum
	if res.panic == "" && b.parsePan == "" {
		cr := c10guard(func() string { cf = xl.VerifC10NumberConf(c.value, c.code, c.d1904, ct); return "" })
		if cr.panic != "" {
			cf = xl.VerifC10Conf{}
		}
	}
	var x *big.Rat
	xok := false
	if numeric {
		x, xok = c10exact(c.value)
	}
	if b.inScope {
		out := "PANIC"
		if res.panic == "" {
			out = "ok " + hx(res.s)
		}
		xs := "X=-"
		if cf.Selected && numeric && xok {
			xs = "X=" + hx(c10exactFixed(x, cf.Percent, cf.FracLen))
		}
		line = r.Op(c.prefix+b.op, out+" "+c10confStr(cf, numeric)+" "+xs+" T=1 A=1"+c.suffix)
		c10lastLine = line
		r.Stat("transcript:fmt")
	} else {
		r.Stat("skip-transcript:" + b.why)
	}
	nontrivial := len(b.secs) > 0 && cf.Selected
	r.Case(rep, nontrivial)
	if res.panic != "" {
		r.Fail("total:panic:"+c10panicClass(res.panic), fmt.Sprintf("format(%q, %q) panics: %s", c.value, c.code, res.panic), line, rep)
		return "", false
	}
	if !cf.Selected {
		r.Stat("path:no-section")
		if res.s != c.value {
			r.Fail("fallback:no-section", fmt.Sprintf("format(%q, %q) = %q: no section applies, the stored value must be returned", c.value, c.code, res.s), line, rep)
		}
		if idx, ok := c10wantSection(b.secs, cls); ok && idx >= 0 && cls != "other" {
			c10sectionFail(r, c, b, cls, -1, idx, line)
		}
		return res.s, true
	}
	items := b.secs[cf.SectionIdx].Items
	// fall-back oracle: a token type outside the library's own supported list
	for _, t := range items {
		if numeric && !c10supported[t.TType] && res.s != c.value {
			r.Stat("fallback-violation-token:" + t.TType)
			sig := "fallback:unsupported-token-rendered"
			if strings.TrimSpace(res.s) == c.value {
				sig = "fallback:alignment-padding-added"
			}
			r.Fail(sig, fmt.Sprintf("format(%q, %q) = %q: section %d holds an unsupported %s token %q, the stored value must be returned",
				c.value, c.code, res.s, cf.SectionIdx, t.TType, t.TValue), line, rep)
			break
		}
	}
	// section oracle
	if cls != "other" {
		if idx, ok := c10wantSection(b.secs, cls); ok {
			if idx != cf.SectionIdx {
				c10sectionFail(r, c, b, cls, cf.SectionIdx, idx, line)
			} else {
				r.Stat("section-ok:" + cls)
			}
			// the sign is shown by the renderer only when a negative value is formatted by the first section
			if cls == "neg" && idx == cf.SectionIdx && (idx == 0) != cf.UsePositive {
				r.Fail("section:sign-flag", fmt.Sprintf("format(%q, %q): usePositive=%v in section %d", c.value, c.code, cf.UsePositive, idx), line, rep)
			}
		} else {
			r.Stat("section-rule-n/a")
		}
	}
	// accuracy oracle
	if numeric && xok {
		plain, sci, pct := c10plain(items)
		if plain && c10overflows(x, pct) {
			plain = false
			r.Stat("accuracy-skipped:beyond-binary64-range")
		}
		if plain && sci && res.s != c.value && strings.Trim(res.s, " ") == c.value && c10hasEdgeAlignment(items) {
			// an exponent code whose output is the stored value plus blanks: the handler fell back (exponent form
			// other than E+00) and format padded it. (A plain code may legitimately render the value itself.)
			r.Fail("fallback:alignment-padding-added", fmt.Sprintf("format(%q, %q) = %q: the stored value is returned with alignment padding", c.value, c.code, res.s), line, rep)
			plain = false
		}
		if plain && res.s != c.value {
			if ok, why := c10accuracy(x, pct, res.s, sci); !ok {
				sig := "accuracy:fixed"
				if sci {
					sig = "accuracy:scientific"
				}
				if b.prec > 15 && !sci {
					sig = "accuracy:over15digits:truncated"
					if pct >= 2 {
						sig = "accuracy:over15digits:percent-count"
					}
				}
				r.Fail(sig, fmt.Sprintf("format(%q, %q) = %q: %s", c.value, c.code, res.s, why), line, rep)
			} else {
				r.Stat("accuracy-ok")
			}
			// grouping: every comma-delimited group after the first has exactly three digits
			if cf.UseCommaSep && !sci {
				ip := c10strip(res.s, "0123456789.,")
				if i := strings.Index(ip, "."); i >= 0 {
					ip = ip[:i]
				}
				ip = strings.TrimRight(ip, ",")
				gs := strings.Split(ip, ",")
				bad := len(gs[0]) == 0 || len(gs[0]) > 3
				for _, g := range gs[1:] {
					if len(g) != 3 {
						bad = true
					}
				}
				if bad && len(ip) > 0 {
					sig := "grouping:misplaced"
					if pct > 0 {
						sig += ":percent"
					}
					r.Fail(sig, fmt.Sprintf("format(%q, %q) = %q: thousands separators do not delimit groups of three integer digits", c.value, c.code, res.s), line, rep)
				} else {
					r.Stat("grouping-ok")
				}
			}
		}
	}
	return res.s, true
}

func c10sectionFail(r *Run, c c10case, b c10built, cls string, got, want, line int) {
	sig := fmt.Sprintf("section:%s-of-%d:got%d-want%d", cls, len(b.secs), got, want)
	if cls == "zero" {
		sig = "section:zero-section-ignored"
	}
	r.Fail(sig, fmt.Sprintf("format(%q, %q): a %s value is rendered under section %d, the positional rule selects section %d of %d",
		c.value, c.code, cls, got, want, len(b.secs)), line, c.replay())
}

// ---------------------------------------------------------------------------
// sign twins (before/after observation, no model)

func c10twins(r *Run, mag, a, bcode string) {
	f := func(v, code string) (string, bool) {
		res := c10guard(func() string { return xl.VerifC10Format(v, code, false, xl.CellTypeNumber, nil) })
		return res.s, res.panic == "" && !res.hang
	}
	neg1, ok1 := f("-"+mag, a)
	pos1, ok2 := f(mag, a)
	r.Case("twin1:"+mag+":"+a, true)
	if ok1 && ok2 && pos1 != mag && neg1 != "-"+pos1 {
		r.Fail("sign:single-section", fmt.Sprintf("format(-%s, %q) = %q but format(%s, %q) = %q: one section renders negatives as minus + magnitude", mag, a, neg1, mag, a, pos1), 0,
			fmt.Sprintf("twin %s %s %s", hx(mag), hx(a), hx(bcode)))
	}
	neg2, ok3 := f("-"+mag, a+";"+bcode)
	pos2, ok4 := f(mag, bcode)
	r.Case("twin2:"+mag+":"+a+";"+bcode, true)
	if ok3 && ok4 && pos2 != mag && neg2 != pos2 {
		r.Fail("sign:negative-section", fmt.Sprintf("format(-%s, %q) = %q but format(%s, %q) = %q: the negative section renders the magnitude without a sign", mag, a+";"+bcode, neg2, mag, bcode, pos2), 0,
			fmt.Sprintf("twin %s %s %s", hx(mag), hx(a), hx(bcode)))
	}
}

// ---------------------------------------------------------------------------
// comma op

func c10comma(r *Run, text string) {
	res := c10guard(func() string { return xl.VerifC10PrintCommaSep(text) })
	out := "PANIC"
	if res.panic == "" {
		out = "ok " + hx(res.s)
	}
	ln := r.Op("comma "+hx(text), out)
	r.Case("comma:"+text, len(text) > 3)
	if res.panic != "" {
		r.Fail("comma:panic", fmt.Sprintf("printCommaSep(%q) panics: %s", text, res.panic), ln, "comma "+hx(text))
		return
	}
	if regexp.MustCompile(`^[0-9]+(\.[0-9]*)?$`).MatchString(text) {
		if strings.ReplaceAll(res.s, ",", "") != text {
			r.Fail("comma:digits-changed", fmt.Sprintf("printCommaSep(%q) = %q", text, res.s), ln, "comma "+hx(text))
		}
		ip := res.s
		if i := strings.Index(ip, "."); i >= 0 {
			ip = ip[:i]
		}
		gs := strings.Split(ip, ",")
		bad := len(gs[0]) == 0 || len(gs[0]) > 3
		for _, g := range gs[1:] {
			if len(g) != 3 {
				bad = true
			}
		}
		if bad {
			r.Fail("comma:grouping", fmt.Sprintf("printCommaSep(%q) = %q", text, res.s), ln, "comma "+hx(text))
		}
	}
}

// ---------------------------------------------------------------------------
// date / time oracle (calendar from the Go standard library)

type c10dt struct {
	code string
	re   *regexp.Regexp
	kind string // ymdhms | ampm | eh | em | es | named
}

var c10months = []string{"January", "February", "March", "April", "May", "June", "July", "August", "September", "October", "November", "December"}

var c10dtCodes = []c10dt{
	{"yyyy-mm-dd hh:mm:ss", regexp.MustCompile(`^(\d+)-(\d\d)-(\d\d) (\d\d):(\d\d):(\d\d)$`), "ymdhms"},
	{"yyyy/m/d h:m:s", regexp.MustCompile(`^(\d+)/(\d+)/(\d+) (\d+):(\d+):(\d+)$`), "ymdhms"},
	{"[$-409]yyyy-mm-dd hh:mm:ss", regexp.MustCompile(`^(\d+)-(\d\d)-(\d\d) (\d\d):(\d\d):(\d\d)$`), "ymdhms"},
	{"yyyy-mm-dd h:mm:ss AM/PM", regexp.MustCompile(`^(\d+)-(\d\d)-(\d\d) (\d+):(\d\d):(\d\d) (AM|PM)$`), "ampm"},
	{"yyyy-mm-dd hh:mm:ss A/P", regexp.MustCompile(`^(\d+)-(\d\d)-(\d\d) (\d+):(\d\d):(\d\d) (A|P)$`), "ampm"},
	{"yyyy-mm-dd AM/PM h:mm:ss", regexp.MustCompile(`^(\d+)-(\d\d)-(\d\d) (AM|PM) (\d+):(\d\d):(\d\d)$`), "ampm2"},
	{"[h]:mm:ss", regexp.MustCompile(`^(\d+):(\d\d):(\d\d)$`), "eh"},
	{"[mm]:ss", regexp.MustCompile(`^(\d+):(\d\d)$`), "em"},
	{"[ss]", regexp.MustCompile(`^(\d+)$`), "es"},
	{"mmmm d, yyyy", regexp.MustCompile(`^([A-Za-z]+) (\d+), (\d+)$`), "named"},
	{"d-mmm-yy", regexp.MustCompile(`^(\d+)-([A-Za-z]+)-(\d\d)$`), "named2"},
}

func atoi(s string) int { n, _ := strconv.Atoi(s); return n }

// c10dateCase renders a serial under a date template and checks the fields against the instant
// serial days after 1899-12-30 (1900 system, serial >= 61) or 1904-01-01 (1904 system).
func c10dateCase(r *Run, value string, d1904 bool, tpl c10dt) {
	c := c10mk(true, d1904, value, tpl.code, nil)
	out, ok := c10fmt(r, c)
	if !ok {
		return
	}
	c10checkDate(r, out, value, d1904, tpl, c.replay(), "", c10lastLine)
}

// c10checkDate: the rendered text `out` of serial `value` under the date template must show the fields
// of the serial's calendar instant in the given date system. `via` names the path for the signature.
func c10checkDate(r *Run, out, value string, d1904 bool, tpl c10dt, rep, via string, line int) {
	x, xok := c10exact(value)
	if !xok || x.Sign() < 0 {
		return
	}
	// total seconds of the serial, floor and nearest
	secsR := new(big.Rat).Mul(x, big.NewRat(86400, 1))
	fl := new(big.Int).Quo(secsR.Num(), secsR.Denom())
	nr := new(big.Int).Quo(new(big.Int).Add(new(big.Int).Mul(secsR.Num(), big.NewInt(2)), secsR.Denom()), new(big.Int).Mul(secsR.Denom(), big.NewInt(2)))
	maxDay := int64(2958466)
	if d1904 {
		maxDay -= 1462
	}
	if !fl.IsInt64() || nr.Int64() >= maxDay*86400 {
		return
	}
	if elapsedKind := tpl.kind == "eh" || tpl.kind == "em" || tpl.kind == "es"; !elapsedKind && !d1904 && fl.Int64() < 61*86400 {
		// (elapsed forms do not depend on the calendar: they are checked from serial 0 on)
		r.Stat("date:before-1900-03-01-skipped")
		return
	}
	base := c10epoch
	if d1904 {
		base = time.Date(1904, 1, 1, 0, 0, 0, 0, time.UTC)
	}
	m := tpl.re.FindStringSubmatch(out)
	if m == nil {
		r.Fail("date:shape:"+tpl.kind+via, fmt.Sprintf("%q under %q%s = %q does not have the shape of the code", value, tpl.code, via, out), line, rep)
		return
	}
	match := false
	var wants []string
	for _, total := range []int64{fl.Int64(), nr.Int64()} {
		days, rem := total/86400, total%86400
		t := base.AddDate(0, 0, int(days))
		y, mo, d := t.Year(), int(t.Month()), t.Day()
		h, mi, s := int(rem/3600), int(rem%3600/60), int(rem%60)
		var good bool
		var want string
		switch tpl.kind {
		case "ymdhms":
			want = fmt.Sprintf("%d-%d-%d %d:%d:%d", y, mo, d, h, mi, s)
			good = atoi(m[1]) == y && atoi(m[2]) == mo && atoi(m[3]) == d && atoi(m[4]) == h && atoi(m[5]) == mi && atoi(m[6]) == s
		case "ampm", "ampm2":
			hs, ms, ss, ap := m[4], m[5], m[6], m[7]
			if tpl.kind == "ampm2" {
				ap, hs, ms, ss = m[4], m[5], m[6], m[7]
			}
			h12 := atoi(hs)
			pm := strings.HasPrefix(ap, "P")
			h24 := h12 % 12
			if pm {
				h24 += 12
			}
			want = fmt.Sprintf("%d-%d-%d %d:%d:%d (24h)", y, mo, d, h, mi, s)
			good = atoi(m[1]) == y && atoi(m[2]) == mo && atoi(m[3]) == d && h12 >= 1 && h12 <= 12 && h24 == h && atoi(ms) == mi && atoi(ss) == s
		case "eh":
			want = fmt.Sprintf("%d:%02d:%02d", total/3600, mi, s)
			good = m[1] == strconv.FormatInt(total/3600, 10) && atoi(m[2]) == mi && atoi(m[3]) == s
		case "em":
			want = fmt.Sprintf("%d:%02d", total/60, s)
			good = m[1] == strconv.FormatInt(total/60, 10) && atoi(m[2]) == s
		case "es":
			want = fmt.Sprintf("%d", total)
			good = m[1] == strconv.FormatInt(total, 10)
		case "named":
			want = fmt.Sprintf("%s %d, %d", c10months[mo-1], d, y)
			good = m[1] == c10months[mo-1] && atoi(m[2]) == d && atoi(m[3]) == y
		case "named2":
			want = fmt.Sprintf("%d-%s-%02d", d, c10months[mo-1][:3], y%100)
			good = atoi(m[1]) == d && m[2] == c10months[mo-1][:3] && atoi(m[3]) == y%100
		}
		wants = append(wants, want)
		if good {
			match = true
		}
	}
	if match {
		r.Stat("date-ok:" + tpl.kind + via)
		return
	}
	sig := "date:fields:" + tpl.kind + via
	switch tpl.kind {
	case "eh", "em", "es":
		sig = "date:elapsed"
		if d1904 {
			sig += ":1904"
		} else if x.Cmp(big.NewRat(106751, 1)) > 0 {
			sig += ":beyond-duration-range"
		}
	}
	r.Fail(sig, fmt.Sprintf("%q under %q%s date1904=%v = %q, the serial's instant gives %s (seconds floored) or %s (nearest second)", value, tpl.code, via, d1904, out, wants[0], wants[1]), line, rep)
}

// ---------------------------------------------------------------------------
// options layer: Date1904 x Long/Short date and time patterns x system-tag formats

var c10sysDateTags = []string{"[$-F800]", "[$-x-sysdate]", "[$-1010000]", "[$-f800]"}
var c10sysTimeTags = []string{"[$-F400]", "[$-x-systime]"}

// c10hhmmOK: s is hh:mm of the serial's instant (seconds floored or rounded to the nearest second).
func c10hhmmOK(s, value string) bool {
	x, ok := c10exact(value)
	if !ok || x.Sign() < 0 {
		return true
	}
	secsR := new(big.Rat).Mul(x, big.NewRat(86400, 1))
	fl := new(big.Int).Quo(secsR.Num(), secsR.Denom())
	nr := new(big.Int).Quo(new(big.Int).Add(new(big.Int).Mul(secsR.Num(), big.NewInt(2)), secsR.Denom()), new(big.Int).Mul(secsR.Denom(), big.NewInt(2)))
	for _, t := range []*big.Int{fl, nr} {
		if !t.IsInt64() {
			return true
		}
		rem := t.Int64() % 86400
		if s == fmt.Sprintf("%02d:%02d", rem/3600, rem%3600/60) {
			return true
		}
	}
	return false
}

// c10optDate: a date template is installed as an Options pattern and reached through a system tag
// (or a built-in id for the short pattern); the text GetCellValue returns must show the fields of
// the serial in the workbook's date system. Also emitted as a transcript line (hook + model).
func c10optDate(r *Run, value string, d1904 bool, ti int, kind string, tagi int) {
	tpl := c10dtCodes[ti]
	rep := fmt.Sprintf("optdate %s %s %d %s %d", b01(d1904), hx(value), ti, kind, tagi)
	o := &c10o{culture: 1}
	var code string
	id := 0
	switch kind {
	case "longdate":
		o.longDate = tpl.code
		code = c10sysDateTags[tagi%len(c10sysDateTags)] + "dddd, mmmm dd, yyyy"
	case "longtime":
		o.longTime = tpl.code
		code = c10sysTimeTags[tagi%len(c10sysTimeTags)] + "h:mm:ss AM/PM"
	case "short14":
		o.short = tpl.code
		id = 14
	case "short22": // applyBuiltInNumFmt: ShortDatePattern + " hh:mm"
		if strings.HasPrefix(tpl.kind, "ampm") {
			return // an AM/PM marker in the pattern turns the appended hh into a 12-hour reading, as in Excel
		}
		o.short = tpl.code
		id = 22
	case "shortlang": // langNumFmtFuncEnUS: ids 27..31 and 50..58 follow ShortDatePattern
		o.short = tpl.code
		id = []int{27, 28, 29, 30, 31, 50, 51, 52, 53, 54, 55, 56, 57, 58}[tagi%14]
	case "longtimelang": // langNumFmtFuncEnUS: ids 32..35 follow LongTimePattern
		o.longTime = tpl.code
		id = 32 + tagi%4
	default:
		return
	}
	r.Case(rep, true)
	r.Stat("optdate:" + kind)
	// (a) the unexported format with the same options: transcript line + model
	if id == 0 {
		out, ok := c10fmt(r, c10mk(true, d1904, value, code, o))
		if ok {
			c10checkDate(r, out, value, d1904, tpl, rep, ":options-"+kind+":format", c10lastLine)
		}
	}
	// (b) the public API on a workbook of that date system
	res := c10guard(func() string {
		f := xl.NewFile(*o.options())
		defer f.Close()
		if d1904 {
			t := true
			if err := f.SetWorkbookProps(&xl.WorkbookPropsOptions{Date1904: &t}); err != nil {
				return "ERR:" + err.Error()
			}
		}
		st := &xl.Style{NumFmt: id}
		if id == 0 {
			st = &xl.Style{CustomNumFmt: &code}
		}
		sid, err := f.NewStyle(st)
		if err != nil {
			return "ERR:" + err.Error()
		}
		_ = f.SetCellDefault("Sheet1", "A1", value)
		_ = f.SetCellStyle("Sheet1", "A1", "A1", sid)
		got, err := f.GetCellValue("Sheet1", "A1")
		if err != nil {
			return "ERR:" + err.Error()
		}
		return "ok:" + got
	})
	switch {
	case res.hang || res.panic != "":
		r.Fail("optdate:panic", fmt.Sprintf("GetCellValue of %q (%s=%q, date1904=%v) panics/hangs: %s", value, kind, tpl.code, d1904, res.panic), 0, rep)
	case strings.HasPrefix(res.s, "ok:"):
		if isNum, prec, dec := xl.VerifC10IsNumeric(value); !isNum || prec > 15 || strconv.FormatFloat(dec, 'f', -1, 64) != value {
			return // the cell reader would normalise the stored text first
		}
		out := strings.TrimPrefix(res.s, "ok:")
		if kind == "short22" {
			// the pattern's rendering, a blank, then hh:mm of the same instant
			i := strings.LastIndex(out, " ")
			if i < 0 || !c10hhmmOK(out[i+1:], value) {
				r.Fail("date:fields:hhmm:options-short22:GetCellValue", fmt.Sprintf("%q as id 22 with ShortDatePattern %q date1904=%v = %q: it must end with a blank and hh:mm of the serial", value, tpl.code, d1904, out), 0, rep)
				return
			}
			out = out[:i]
		}
		c10checkDate(r, out, value, d1904, tpl, rep, ":options-"+kind+":GetCellValue", 0)
	default:
		r.Fail("optdate:error", fmt.Sprintf("GetCellValue of %q (%s=%q): %s", value, kind, tpl.code, res.s), 0, rep)
	}
}

// ---------------------------------------------------------------------------
// public API, options, locales, built-in ids (oracle only)

func c10api(r *Run, d1904 bool, value, code string) {
	rep := fmt.Sprintf("api %s %s %s", b01(d1904), hx(value), hx(code))
	var want string
	res := c10guard(func() string {
		f := xl.NewFile()
		defer f.Close()
		if d1904 {
			t := true
			if err := f.SetWorkbookProps(&xl.WorkbookPropsOptions{Date1904: &t}); err != nil {
				return "ERR:" + err.Error()
			}
		}
		st, err := f.NewStyle(&xl.Style{CustomNumFmt: &code})
		if err != nil {
			return "STYLE-ERR"
		}
		if err := f.SetCellDefault("Sheet1", "A1", value); err != nil {
			return "ERR:" + err.Error()
		}
		if err := f.SetCellStyle("Sheet1", "A1", "A1", st); err != nil {
			return "ERR:" + err.Error()
		}
		got, err := f.GetCellValue("Sheet1", "A1")
		if err != nil {
			return "ERR:" + err.Error()
		}
		// what the cell reader hands to format: numeric text is normalised first
		v := value
		if isNum, prec, dec := xl.VerifC10IsNumeric(v); isNum {
			if prec > 15 {
				v = strconv.FormatFloat(dec, 'G', 15, 64)
			} else {
				v = strconv.FormatFloat(dec, 'f', -1, 64)
			}
		}
		want = xl.VerifC10Format(v, code, d1904, xl.CellTypeNumber, f.VerifC10Options())
		return got
	})
	r.Case(rep, true)
	r.Stat("api")
	switch {
	case res.hang:
		r.Fail("api:hang", fmt.Sprintf("GetCellValue with custom format %q on %q hangs", code, value), 0, rep)
	case res.panic != "":
		r.Fail("api:panic:"+c10panicClass(res.panic), fmt.Sprintf("GetCellValue with custom format %q on %q panics: %s", code, value, res.panic), 0, rep)
	case res.s == "STYLE-ERR":
		r.Stat("api:style-rejected")
	case strings.HasPrefix(res.s, "ERR:"):
		r.Fail("api:error", fmt.Sprintf("custom format %q on %q: %s", code, value, res.s), 0, rep)
	case res.s != want:
		r.Fail("api:differs-from-format", fmt.Sprintf("GetCellValue = %q but format on the normalised value = %q (code %q, value %q)", res.s, want, code, value), 0, rep)
	}
}

func c10optRun(cult int, short, longd, longt string, d1904 bool, value, code string) string {
	f := xl.NewFile(xl.Options{CultureInfo: xl.CultureName(cult), ShortDatePattern: short, LongDatePattern: longd, LongTimePattern: longt})
	defer f.Close()
	if d1904 {
		t := true
		_ = f.SetWorkbookProps(&xl.WorkbookPropsOptions{Date1904: &t})
	}
	st, err := f.NewStyle(&xl.Style{CustomNumFmt: &code})
	if err != nil {
		return "STYLE-ERR"
	}
	_ = f.SetCellDefault("Sheet1", "A1", value)
	_ = f.SetCellStyle("Sheet1", "A1", "A1", st)
	got, err := f.GetCellValue("Sheet1", "A1")
	if err != nil {
		return "ERR:" + err.Error()
	}
	return "ok:" + got
}

var c10sysTag = regexp.MustCompile(`(?i)F800|F400|x-sysdate|x-systime|1010000`)

func c10opt(r *Run, cult int, short, longd, longt string, d1904 bool, value, code string, child bool) {
	rep := fmt.Sprintf("opt %d %s %s %s %s %s %s", cult, hx(short), hx(longd), hx(longt), b01(d1904), hx(value), hx(code))
	r.Case(rep, true)
	r.Stat("opt")
	needChild := c10sysTag.MatchString(short+longd+longt) && !child
	if needChild {
		// a recursion through the date-pattern options would overflow the stack: not recoverable in-process
		dir, _ := os.MkdirTemp("", "c10opt")
		defer os.RemoveAll(dir)
		rp := filepath.Join(dir, "r.txt")
		_ = os.WriteFile(rp, []byte("child"+rep+"\n"), 0o644)
		cmd := exec.Command(os.Args[0], "C10", "-out", filepath.Join(dir, "o"), "-replay", rp)
		done := make(chan error, 1)
		var outb []byte
		go func() { var e error; outb, e = cmd.CombinedOutput(); done <- e }()
		select {
		case err := <-done:
			if err != nil {
				what := "crashes the process"
				if strings.Contains(string(outb), "stack overflow") || strings.Contains(string(outb), "stack exceeds") {
					what = "overflows the goroutine stack (fatal, not recoverable)"
				}
				r.Fail("opt:crash:date-pattern-recursion", fmt.Sprintf("GetCellValue with options short=%q longdate=%q longtime=%q code %q on %q %s", short, longd, longt, code, value, what), 0, rep)
			}
		case <-time.After(60 * time.Second):
			_ = cmd.Process.Kill()
			r.Fail("opt:hang", fmt.Sprintf("GetCellValue with options short=%q longdate=%q longtime=%q code %q on %q hangs", short, longd, longt, code, value), 0, rep)
		}
		r.Stat("opt:subprocess")
		return
	}
	res := c10guard(func() string { return c10optRun(cult, short, longd, longt, d1904, value, code) })
	switch {
	case res.hang:
		r.Fail("opt:hang", fmt.Sprintf("GetCellValue with options hangs (code %q value %q)", code, value), 0, rep)
	case res.panic != "":
		r.Fail("opt:panic:"+c10panicClass(res.panic), fmt.Sprintf("GetCellValue culture=%d short=%q longdate=%q longtime=%q code %q on %q panics: %s", cult, short, longd, longt, code, value, res.panic), 0, rep)
	}
}

func c10lang(r *Run, tag string) {
	rep := "lang " + hx(tag)
	for _, v := range []string{"43831.75", "43831.25", "0.5", "45000.999"} {
		for _, code := range []string{"[$-" + tag + "]h:mm AM/PM", "[$-" + tag + "]AM/PM h:mm", "[$-" + tag + "]mmm mmmm mmmmm ddd dddd yyyy", "[$-" + tag + "]hh A/P"} {
			res := c10guard(func() string { return xl.VerifC10Format(v, code, false, xl.CellTypeNumber, nil) })
			r.Case("lang:"+tag+":"+v+":"+code, true)
			if res.panic != "" || res.hang {
				r.Fail("lang:panic:"+c10panicClass(res.panic), fmt.Sprintf("format(%q, %q) panics: %s", v, code, res.panic), 0, rep)
				return
			}
		}
	}
	r.Stat("lang")
}

func c10builtin(r *Run, id int, value string, cult int) {
	rep := fmt.Sprintf("builtin %d %s %d", id, hx(value), cult)
	res := c10guard(func() string {
		f := xl.NewFile(xl.Options{CultureInfo: xl.CultureName(cult)})
		defer f.Close()
		st, err := f.NewStyle(&xl.Style{NumFmt: id})
		if err != nil {
			return "STYLE-ERR"
		}
		_ = f.SetCellDefault("Sheet1", "A1", value)
		_ = f.SetCellStyle("Sheet1", "A1", "A1", st)
		got, err := f.GetCellValue("Sheet1", "A1")
		if err != nil {
			return "ERR:" + err.Error()
		}
		return "ok:" + got
	})
	r.Case(rep, true)
	r.Stat("builtin")
	if res.panic != "" || res.hang {
		r.Fail("builtin:panic:"+c10panicClass(res.panic), fmt.Sprintf("NumFmt id %d culture %d on %q panics: %s", id, cult, value, res.panic), 0, rep)
	}
}

// ---------------------------------------------------------------------------
// generators

var c10values = []string{
	"0", "0.0", "-0", "0.00", "1", "-1", "5", "-5", "12", "123", "1234", "12345", "123456", "1234567", "-1234567", "12345678", "999", "1000", "999999", "1000000",
	"0.5", "-0.5", "1.5", "2.5", "-2.5", "0.05", "0.125", "1.005", "2.675", "1234.5", "-1234.5", "0.285", "1.45", "8.325", "0.045", "1.0049999", "99.995", "-99.995", "9.5", "99.5", "999.5", "0.9995",
	"0.49999999999999994", "2.4999999999999996", "1.00000000000000005", "0.1", "0.2", "0.3", "-0.0001", "0.00049", "0.0005",
	"1234567890123456", "12345678901234567", "1234567890123.4568", "12345678901234.567", "1234567890123456.7", "99999999999999.99", "0.1234567890123456789", "123456789.123456789",
	"12345678901234567890", "123456789012345678901234567890", "-12345678901234567890", "1234567890.123456789", "0.000012345678901234567",
	"1e-308", "1e308", "1.7976931348623157e308", "4.9e-324", "2.2250738585072014e-308", "1e-5", "1.5E+3", "2e-3", "1e15", "1e16", "1e21", "1e22", "1e23", "-1e23", "1e-7", "123e-2",
	"43831.75", "43831.25", "43831", "60", "61", "62", "1", "0.75", "59.5", "61.5", "2958465.99999", "2958465", "106751.99", "106752.5", "110000.5", "45000.999994", "45000.9999999", "44561.5104166667",
	"Inf", "NaN", "-Inf", "0x10", "0x1p4", "1_0", "", "abc", " 1", "1 ", "--1", "1e", ".", "+.5", "5.", ".5", "hello", "a;b", "1,5", "TRUE", "0b11", "1e400", "1e-400", "1e999999999",
}

var c10intParts = []string{"0", "#", "#,##0", "#,###", "0,0", "00000", "?0", "???", "#,##0,", "0,,", "000-00-0000", "##0", "#,#", "0000000000000000", "(0)", "# ##0", "0 0"}
var c10prefix = []string{"", "", "", "", "[Red]", "[blue]", "$", "\"USD \"", "[$€-407]", "[$-409]", "[$$-409]", "_(", "* ", "\\x", "[>=100]", "[<0]", "[=0]", "[foo]", "-", "+", "[$-F800]", "[DBNum1]", "\"€\" ", "[$USD]\\ "}
var c10suffix = []string{"", "", "", "", "%", "%", "%%", "E+00", "E+0", "e+00", "E-00", "_)", " \"kg\"", ")", "\"%\"", " ?/?", " ??/??", "/100", "@", " General", "\" x\"%"}

func c10numCode(rng *Rng) string {
	s := rng.Pick(c10prefix) + rng.Pick(c10intParts)
	if rng.Chance(65) {
		nd := rng.Pick2([]int{1, 1, 2, 2, 2, 3, 4, 5, 6, 8, 10, 14, 15, 16, 17, 20, 30})
		s += "." + strings.Repeat("0", nd)
		switch rng.Intn(8) {
		case 0:
			s += strings.Repeat("#", rng.Range(1, 4))
		case 1:
			s += "?"
		}
	} else if rng.Chance(10) {
		s += ".##"
	}
	return s + rng.Pick(c10suffix)
}

var c10dtToks = []string{"yyyy", "yy", "y", "m", "mm", "mmm", "mmmm", "mmmmm", "mmmmmm", "d", "dd", "ddd", "dddd", "h", "hh", "m", "mm", "s", "ss", "AM/PM", "A/P", "am/pm", "上午/下午",
	"[h]", "[hh]", "[m]", "[mm]", "[s]", "[ss]", ".0", ".00", ".000", ".0000", "e", "ee", "g", "gg", "ggg", "aaa", "aaaa", "b", "bb", "0", "#", "General", "@", "\"at\"", "\\T"}
var c10dtSeps = []string{"", "", "-", "/", ":", " ", ", ", ".", "\"年\""}
var c10locales = []string{"", "", "", "[$-409]", "[$-F800]", "[$-F400]", "[$-x-sysdate]", "[$-x-systime]", "[$-804]", "[$-411]", "[$-404]", "[$-412]", "[$-40C]", "[$-FFFF]", "[$-1010000]", "[$-en-US]", "[$-42F]", "[$-7]", "[$-1]", "[$€-407]", "[$-]", "[$-zz]", "[$-3010429]"}

func c10dateCode(rng *Rng) string {
	s := rng.Pick(c10locales)
	n := rng.Range(1, 6)
	for i := 0; i < n; i++ {
		s += rng.Pick(c10dtToks)
		if i < n-1 {
			s += rng.Pick(c10dtSeps)
		}
	}
	return s
}

func c10section(rng *Rng) string {
	switch rng.Intn(12) {
	case 0:
		return ""
	case 1:
		return "@"
	case 2:
		return "\"t:\"@"
	case 3:
		return "General"
	case 4, 5:
		return c10dateCode(rng)
	case 6:
		return "\"-\""
	}
	return c10numCode(rng)
}

func c10code(rng *Rng) string {
	n := rng.Pick2([]int{1, 1, 1, 1, 2, 2, 3, 3, 4, 4, 5})
	var ss []string
	for i := 0; i < n; i++ {
		if i == 3 && rng.Chance(70) {
			ss = append(ss, rng.Pick([]string{"@", "\"t:\"@", "@\" x\"", "_(@_)", "[Red]@"}))
			continue
		}
		ss = append(ss, c10section(rng))
	}
	return strings.Join(ss, ";")
}

const c10alphabet = "0#?.,%E+-e/\\\"@*_[]$;: yYmMdDhHsSaApPgGbB<>=19'!~"

func c10malformed(rng *Rng, pool []string) string {
	if rng.Chance(50) {
		n := rng.Range(0, 12)
		b := make([]byte, n)
		for i := range b {
			b[i] = c10alphabet[rng.Intn(len(c10alphabet))]
		}
		return string(b)
	}
	s := []rune(rng.Pick(pool))
	for k := rng.Range(1, 3); k > 0 && len(s) > 0; k-- {
		i := rng.Intn(len(s))
		switch rng.Intn(4) {
		case 0:
			s = append(s[:i], s[i+1:]...)
		case 1:
			s = append(s[:i], append([]rune{rune(c10alphabet[rng.Intn(len(c10alphabet))])}, s[i:]...)...)
		case 2:
			s = append(s[:i], append([]rune{s[i]}, s[i:]...)...)
		default:
			s = s[:i]
		}
	}
	return string(s)
}

func c10randValue(rng *Rng) string {
	switch rng.Intn(10) {
	case 0, 1, 2, 3:
		return rng.Pick(c10values)
	case 4: // decimal with a tie at a random place
		d := rng.Range(0, 8)
		ip := strconv.Itoa(rng.Intn(100000))
		fr := ""
		for i := 0; i < d; i++ {
			fr += strconv.Itoa(rng.Intn(10))
		}
		s := ip + "." + fr + "5"
		if rng.Chance(30) {
			s = "-" + s
		}
		return s
	case 5: // many significant digits
		n := rng.Range(16, 22)
		s := strconv.Itoa(rng.Range(1, 9))
		for i := 1; i < n; i++ {
			s += strconv.Itoa(rng.Intn(10))
		}
		p := rng.Range(1, n)
		s = s[:p] + "." + s[p:]
		if rng.Chance(30) {
			s = "-" + s
		}
		return s
	case 6: // exponent form
		return fmt.Sprintf("%d.%de%d", rng.Range(1, 9), rng.Intn(1000), rng.Range(-320, 308))
	case 7: // date serial with time
		return fmt.Sprintf("%d.%d", rng.Pick2([]int{0, 1, 59, 60, 61, 62, 366, 1462, 36526, 43831, 45000, 73050, 106751, 106752, 200000, 2958465}), rng.Intn(100000))
	default:
		s := fmt.Sprintf("%d.%d", rng.Intn(2000000), rng.Intn(1000000))
		if rng.Chance(40) {
			s = "-" + s
		}
		return s
	}
}

// ---------------------------------------------------------------------------

func runC10(r *Run, rng *Rng, replay string) {
	c10initSupported()
	r.Rule = "a case is non-trivial when the code tokenises to at least one section and a section is selected for the value (a handler runs); api/opt/lang/builtin/twin/comma(len>3) cases always count"
	if replay != "" {
		c10replay(r, replay)
		return
	}
	c10nfpNames(r)
	thorough := r.Tier == "thorough"
	scale := 1
	if thorough {
		scale = 30
	}
	// 0. witnesses of known findings and regression anchors (deterministic, every run)
	for _, c := range []c10case{
		c10mk(true, false, "0", `0.00;-0.00;"zero"`, nil),
		c10mk(true, false, "0", `#,##0.00;(#,##0.00);"-"`, nil),
		c10mk(true, false, "5", `[>=100]0.0;[<100]0.000`, nil),
		c10mk(true, false, "5", `[foo]0.0`, nil),
		c10mk(true, false, "1234567890123.4568", "0.000", nil),
		c10mk(true, false, "12345678901234.567", "0.00", nil),
		c10mk(true, false, "1e16", "0.00%%", nil),
		c10mk(true, false, "5", "[<0]0.0_)", nil),
		c10mk(true, false, "12.34", "#,##0%", nil),
		c10mk(true, false, "1234567", "#,##0%", nil),
		c10mk(true, false, "1234567.891", "#,##0.00", nil),
		c10mk(true, false, "-1234.5", "#,##0.00;(#,##0.00)", nil),
		c10mk(true, false, "abc", `0.00;;;"t:"@`, nil),
		c10mk(true, false, "1.005", "0.00", nil),
		c10mk(true, false, "2.5", "0", nil),
		c10mk(true, false, "0.5", "0%", nil),
		c10mk(true, false, "123456", "0.00E+00", nil),
		c10mk(true, false, "123456789012345", "General", nil),
		c10mk(true, true, "43831.75", "yyyy-mm-dd hh:mm:ss", nil),
		c10mk(true, false, "0.4999999", "AM/PM h:mm:ss", nil),
	} {
		c10fmt(r, c)
	}
	c10dateCase(r, "110000.5", false, c10dtCodes[6])
	c10dateCase(r, "1.5", true, c10dtCodes[6])
	c10dateCase(r, "61.4999999", false, c10dtCodes[5])
	// 1. printCommaSep: every length 0..48, with and without fraction / percent
	for n := 0; n <= 48; n++ {
		s := ""
		for i := 0; i < n; i++ {
			s += string(rune('1' + i%9))
		}
		c10comma(r, s)
		c10comma(r, s+".25")
		if n%5 == 0 {
			c10comma(r, s+"%")
			c10comma(r, s+".5%")
			c10comma(r, "-"+s)
			c10comma(r, s+".1.2")
		}
	}
	// 2. structured value x code grid (every listed value under a few codes)
	grid := []string{"0", "0.00", "#,##0.00", "0%", "0.0%", "#,##0", "0.00E+00", "General", "@", "0.000000000000000000000000000000",
		"#,##0.00;[Red](#,##0.00)", `0.0;-0.0;"zero";"t:"@`, "yyyy-mm-dd hh:mm:ss", "[h]:mm:ss", "h:mm AM/PM", "#,##0%", "0.0##", "#.#", "00000", "[$-409]mmmm d, yyyy"}
	for _, v := range c10values {
		for _, code := range grid {
			c10fmt(r, c10mk(true, false, v, code, nil))
		}
	}
	// 3. random structured cases
	var pool []string
	for _, code := range xl.VerifC10BuiltInNumFmt() {
		pool = append(pool, code)
	}
	sort.Strings(pool)
	pool = append(pool, grid...)
	nRand := 3500 * scale
	for i := 0; i < nRand; i++ {
		var code string
		switch rng.Intn(10) {
		case 0:
			code = rng.Pick(pool)
		case 1, 2:
			code = c10malformed(rng, pool)
			r.Stat("gen:malformed")
		case 3:
			code = c10dateCode(rng)
			r.Stat("gen:date")
		default:
			code = c10code(rng)
			r.Stat("gen:grammar")
		}
		c := c10case{cellNumeric: !rng.Chance(6), d1904: rng.Chance(25), value: c10randValue(rng), code: code}
		c10fmt(r, c)
		if strings.Contains(code, ";") && len(code) < 120 && len(c10histPool) < 60*scale {
			c10histPool = append(c10histPool, code)
		}
		if i%9 == 0 {
			c10api(r, c.d1904, c.value, c.code)
		}
	}
	// 3b. order independence: every class under multi-section codes, both orders, vs fresh workers
	c10orderIndependence(r, rng, 60*scale)
	// 4. accuracy focus: plain numeric codes with 0..30 decimals over tie-heavy values
	for i := 0; i < 1200*scale; i++ {
		d := rng.Range(0, 30)
		code := rng.Pick([]string{"0", "#,##0", "#", "00"})
		if d > 0 {
			code += "." + strings.Repeat("0", d)
		}
		if rng.Chance(30) {
			code += "%"
		}
		if rng.Chance(15) {
			code = "0." + strings.Repeat("0", rng.Range(1, 20)) + "E+00"
		}
		c10fmt(r, c10mk(true, false, c10randValue(rng), code, nil))
	}
	// 5. sign twins
	for i := 0; i < 150*scale; i++ {
		mag := strings.TrimLeft(c10randValue(rng), "-+")
		if x, ok := c10exact(mag); !ok || x.Sign() == 0 || c10overflows(x, 1) {
			continue
		}
		if f, _ := strconv.ParseFloat(mag, 64); f == 0 {
			continue
		}
		if _, p, _ := xl.VerifC10IsNumeric("-" + mag); p > 15 {
			// beyond 15 digits the two signs may take different paths (isNumeric counts the minus sign);
			// both are checked against the exact value by the accuracy oracle instead
			r.Stat("twin-skipped:over15digits")
			continue
		}
		mk := func() string {
			s := rng.Pick([]string{"0", "#,##0", "0.00", "#,##0.000", "0.0%", "(0.0)", "\"neg \"0"})
			return s
		}
		c10twins(r, mag, mk(), mk())
	}
	// 6. date/time oracle
	for i := 0; i < 500*scale; i++ {
		day := rng.Pick2([]int{61, 62, 100, 366, 1462, 36526, 43831, 45000, 73050, 100000, 106750, 106751, 106752, 150000, 2958465, rng.Range(61, 2958465)})
		var frac string
		switch rng.Intn(6) {
		case 0:
			frac = "0"
		case 1:
			frac = rng.Pick([]string{"5", "25", "75", "999988426", "9999942", "99999", "000011574", "5104166667", "4999999"})
		default:
			frac = fmt.Sprintf("%06d", rng.Intn(1000000))
		}
		c10dateCase(r, fmt.Sprintf("%d.%s", day, frac), rng.Chance(30), c10dtCodes[rng.Intn(len(c10dtCodes))])
	}
	// 6a. elapsed forms at the day boundary: serials within half a second below a whole day; the elapsed
	// counts must agree with the clock of the SAME rounded instant
	for _, v := range []string{"0.999999", "2.9999999", "45000.9999999", "0.99999", "61.99999999", "1462.9999995", "0.5", "1.25", "45000.75", "109999.9999999"} {
		for _, d1904 := range []bool{false, true} {
			for _, ti := range []int{6, 7, 8} {
				c10dateCase(r, v, d1904, c10dtCodes[ti])
			}
			c10elapsedConsistency(r, v, d1904)
		}
	}
	for i := 0; i < 60*scale; i++ {
		day := rng.Pick2([]int{0, 1, 2, 59, 60, 61, 62, 1462, 45000, 106751, 106752, rng.Range(0, 2900000)})
		v := fmt.Sprintf("%d.%s", day, rng.Pick([]string{"9999999", "99999999", "999995", "9999942", "9999943", "99999421", "999994", "5", "0", "499999", fmt.Sprintf("%06d", rng.Intn(1000000))}))
		d1904 := rng.Chance(40)
		c10dateCase(r, v, d1904, c10dtCodes[rng.Pick2([]int{6, 7, 8})])
		c10elapsedConsistency(r, v, d1904)
	}
	// 6a'. big-number path: more than 15 plain-decimal digits, the cut falls on a 5 that follows an even digit
	// and is followed by non-zero digits (a tie-to-even shortcut would round down here)
	for _, c := range [][2]string{{"0.00123456789012251", "0.000000000000000"}, {"1.23456789012251E-10", "0.00000000000000000000000"},
		{"0.00123456789012250", "0.000000000000000"}, {"0.0012345678901235", "0.000000000000000"}, {"0.00123456789012351", "0.000000000000000"}} {
		c10fmt(r, c10mk(true, false, c[0], c[1], nil))
	}
	for i := 0; i < 80*scale; i++ {
		z := rng.Range(2, 9)
		sig := strconv.Itoa(rng.Range(1, 9))
		for k := 0; k < 11; k++ {
			sig += strconv.Itoa(rng.Intn(10))
		}
		sig += strconv.Itoa(2*rng.Intn(5)) + "5" + strconv.Itoa(rng.Range(1, 9)) // even digit, 5, non-zero tail
		if rng.Chance(25) {
			sig = sig[:12] + strconv.Itoa(2*rng.Intn(5)+1) + "5" + strconv.Itoa(rng.Intn(10)) // odd digit before the 5
		}
		v := "0." + strings.Repeat("0", z) + sig
		code := "0." + strings.Repeat("0", z+13)
		if rng.Chance(20) {
			code = "#,##0." + strings.Repeat("0", z+13)
		}
		if rng.Chance(30) {
			v = "-" + v
		}
		c10fmt(r, c10mk(true, false, v, code, nil))
	}
	// 6b. options layer: both date systems x long-date / long-time / short patterns x system tags
	c10optDate(r, "43543.50320601852", true, 0, "longdate", 0)
	c10optDate(r, "43543.50320601852", true, 0, "longdate", 1)
	c10optDate(r, "45000.75", true, 0, "longtime", 0)
	c10optDate(r, "45000.75", true, 0, "short14", 0)
	c10optDate(r, "45000.75", false, 0, "short22", 0)
	c10optDate(r, "45000.75", true, 9, "shortlang", 3)
	c10optDate(r, "45000.75", false, 0, "longtimelang", 1)
	for i := 0; i < 120*scale; i++ {
		day := rng.Pick2([]int{61, 62, 366, 1462, 36526, 43831, 45000, 73050, 100000, rng.Range(61, 2900000)})
		v := fmt.Sprintf("%d.%s", day, rng.Pick([]string{"0", "5", "25", "75", "125", "50320601852", fmt.Sprintf("%05d", rng.Intn(100000))}))
		if f, err := strconv.ParseFloat(v, 64); err == nil {
			v = strconv.FormatFloat(f, 'f', -1, 64)
		}
		ti := rng.Pick2([]int{0, 1, 3, 4, 5, 9, 10})
		kind := rng.Pick([]string{"longdate", "longdate", "longtime", "short14", "short22", "shortlang", "longtimelang"})
		c10optDate(r, v, rng.Bool(), ti, kind, rng.Intn(4))
	}
	// options on arbitrary codes (transcript): patterns x tags x cultures without an era calendar
	for i := 0; i < 150*scale; i++ {
		o := &c10o{culture: rng.Pick2([]int{0, 1, 4}), short: rng.Pick([]string{"", "yyyy/m/d"}),
			longDate: rng.Pick([]string{"", "dddd, mmmm dd, yyyy", "yyyy-mm-dd", "[$-F800]yyyy", "[$-409]d mmmm yyyy"}),
			longTime: rng.Pick([]string{"", "h:mm:ss AM/PM", "hh:mm", "[$-F400]h:mm"})}
		code := rng.Pick(c10locales) + rng.Pick([]string{"dddd, mmmm dd, yyyy", "h:mm:ss AM/PM", "yyyy-mm-dd hh:mm", "0.00", "#,##0", "d/m/yy \"x\""})
		if rng.Chance(25) {
			code = c10dateCode(rng)
		}
		c10fmt(r, c10mk(true, rng.Chance(40), rng.Pick([]string{"43831.75", "0.5", "1", "45000.25", "-1", "abc", "61.5", "1462"}), code, o))
	}
	// 6c. glue: id -> code for every id 0..90 and a few beyond, every culture, with and without patterns
	for _, pat := range [][2]string{{"", ""}, {"yyyy/m/d", "h:mm:ss AM/PM"}, {"d.m.yy", ""}, {"", "hh:mm"}} {
		for cu := 0; cu <= 6; cu++ {
			for id := 0; id <= 90; id++ {
				c10bcode(r, cu, pat[0], pat[1], id)
			}
			for _, id := range []int{163, 164, 200, 634, 635, 1000} {
				c10bcode(r, cu, pat[0], pat[1], id)
			}
		}
	}
	for i := 0; i < 250*scale; i++ {
		id := rng.Pick2([]int{0, 1, 2, 3, 4, 9, 10, 11, 14, 14, 15, 16, 17, 18, 19, 20, 21, 22, 22, 37, 38, 39, 40, 41, 43, 45, 46, 47, 48, 49, rng.Range(27, 36), rng.Range(50, 62), rng.Range(67, 81), rng.Range(5, 90)})
		o := &c10o{culture: rng.Pick2([]int{0, 1, 1, 4, 4}), short: rng.Pick([]string{"", "", "yyyy/m/d", "d.m.yy"}), longTime: rng.Pick([]string{"", "", "h:mm:ss AM/PM"}),
			longDate: rng.Pick([]string{"", "", "dddd, mmmm dd, yyyy"})}
		v := rng.Pick([]string{"43831.75", "0.5", "1234.5678", "-1234.5678", "0", "abc", "45000.25", "1462", "61.5", "0.256", "-0.5"})
		var customs [][2]string
		if rng.Chance(35) {
			// custom <numFmt> elements, some with an id that is also built-in, some declared twice
			cid := rng.Pick2([]int{id, id, 164, 165, 14, 2})
			customs = [][2]string{{strconv.Itoa(cid), rng.Pick([]string{"0.000", "#,##0.0", "yyyy\"-\"mm", "\"c:\"0", "0.0%", "[Red]0.00;(0.0)"})}}
			if rng.Chance(40) {
				customs = append(customs, [2]string{strconv.Itoa(cid), "\"second\"0"})
			}
			if rng.Chance(50) {
				id = cid
			}
		}
		if rng.Chance(40) {
			v = rng.Pick([]string{"1.50", "1E3", "1.5e-3", "0012.5", "+7", "1234567890.1234567", "0.1234567890123456789", "12345678901234567890", "-0.50", "1e22", "1e21", "123456789012345678"})
		}
		c10glue(r, rng.Chance(30), !rng.Chance(8), id, o, v, customs)
	}
	// 6d. the cell reader's normalisation of numeric text (unstyled cells)
	for _, v := range c10values {
		c10norm(r, v)
	}
	for i := 0; i < 400*scale; i++ {
		c10norm(r, c10randValue(rng))
	}
	// 6e. fraction formats
	c10fraction(r, "3.14159", 2, true)
	c10fraction(r, "3.14159", 1, false)
	c10fraction(r, "1.5", 1, true)
	c10fraction(r, "0.3", 1, true)
	for i := 0; i < 150*scale; i++ {
		v := fmt.Sprintf("%d.%d", rng.Intn(2000), rng.Intn(100000))
		if rng.Chance(30) {
			v = rng.Pick([]string{"0.5", "0.25", "0.3333333333333333", "2.6180339887", "0.001", "0", "5", "12345.999", "0.9999999999999999", "1e-7", "-2.75", "0.14159", "1e15", "0.0625"})
		}
		if rng.Chance(25) {
			v = "-" + strings.TrimLeft(v, "-")
		}
		c10fraction(r, v, rng.Range(1, 3), !rng.Chance(20))
	}
	// 7. locales: every language id / code through AM/PM, month and weekday tokens
	ids, codes := xl.VerifC10LanguageCodes()
	sort.Ints(ids)
	sort.Strings(codes)
	for _, id := range ids {
		c10lang(r, fmt.Sprintf("%X", id))
	}
	for _, cd := range codes {
		c10lang(r, cd)
	}
	// 8. options: culture and date patterns (sub-process where a pattern can recurse)
	optPats := []string{"", "yyyy/m/d", "dddd, mmmm dd, yyyy", "h:mm:ss AM/PM", "[$-F800]dddd, mmmm dd, yyyy", "[$-F400]h:mm:ss", "[$-x-sysdate]yyyy", "0.00", "[$-409]d/m/yy"}
	optCodes := []string{"[$-F800]dddd, mmmm dd, yyyy", "[$-F400]h:mm:ss AM/PM", "[$-x-sysdate]dddd", "[$-x-systime]h:mm", "m/d/yy", "yyyy\"年\"m\"月\"d\"日\"", "[$-411]ggge\"年\"m\"月\"d\"日\"", "[$-404]e/m/d", "0.00", "[$-1010000]d/m/yyyy"}
	for i := 0; i < 40*scale; i++ {
		c10opt(r, rng.Intn(6), rng.Pick(optPats), rng.Pick(optPats), rng.Pick(optPats), rng.Chance(20), rng.Pick([]string{"43831.75", "0.5", "1", "45000.25", "-1", "abc"}), rng.Pick(optCodes), false)
	}
	c10opt(r, 1, "", "[$-F800]dddd, mmmm dd, yyyy", "", false, "43831.75", "[$-F800]dddd, mmmm dd, yyyy", false)
	c10opt(r, 1, "", "", "[$-F400]h:mm:ss", false, "43831.75", "[$-F400]h:mm:ss AM/PM", false)
	// 9. built-in and language ids
	for id := 0; id <= 90; id++ {
		for _, v := range []string{"43831.75", "-1234.567", "0"} {
			c10builtin(r, id, v, rng.Intn(6))
		}
	}
	for _, s := range r.opsSample(6) {
		if len(s) > 300 {
			s = s[:300] + "…"
		}
		r.Sample(s)
	}
	r.Notes = append(r.Notes, fmt.Sprintf("random cases %d, accuracy-focus cases %d, date-oracle cases %d, locale tags %d", nRand, 1200*scale, 500*scale, len(ids)+len(codes)))
}

func c10replay(r *Run, path string) {
	for _, line := range readLines(path) {
		child := false
		if strings.HasPrefix(line, "child") {
			child = true
			line = strings.TrimPrefix(line, "child")
		}
		w := strings.Fields(line)
		if len(w) == 0 || strings.HasPrefix(w[0], "#") {
			continue
		}
		switch {
		case w[0] == "case" && len(w) == 5:
			c10fmt(r, c10mk(w[1] == "1", w[2] == "1", unhx(w[3]), unhx(w[4]), nil))
			// date templates carry their own oracle
			for _, t := range c10dtCodes {
				if t.code == unhx(w[4]) {
					c10dateCase(r, unhx(w[3]), w[2] == "1", t)
				}
			}
		case w[0] == "caseo" && len(w) == 9:
			c10fmt(r, c10mk(w[1] == "1", w[2] == "1", unhx(w[3]), unhx(w[4]), &c10o{atoi(w[5]), unhx(w[6]), unhx(w[7]), unhx(w[8])}))
		case w[0] == "optdate" && len(w) == 6:
			c10optDate(r, unhx(w[2]), w[1] == "1", atoi(w[3]), w[4], atoi(w[5]))
		case w[0] == "glue" && len(w) >= 9 && len(w)%2 == 1:
			var customs [][2]string
			for k := 9; k+1 < len(w); k += 2 {
				customs = append(customs, [2]string{w[k], unhx(w[k+1])})
			}
			c10glue(r, w[1] == "1", w[2] == "1", atoi(w[3]), &c10o{atoi(w[4]), unhx(w[5]), unhx(w[6]), unhx(w[7])}, unhx(w[8]), customs)
		case w[0] == "elapsed" && len(w) == 3:
			c10elapsedConsistency(r, unhx(w[2]), w[1] == "1")
		case w[0] == "frac" && len(w) == 4:
			c10fraction(r, unhx(w[1]), atoi(w[2]), w[3] == "1")
		case w[0] == "norm" && len(w) == 2:
			c10norm(r, unhx(w[1]))
		case w[0] == "bcode" && len(w) == 5:
			c10bcode(r, atoi(w[1]), unhx(w[2]), unhx(w[3]), atoi(w[4]))
		case w[0] == "comma" && len(w) == 2:
			c10comma(r, unhx(w[1]))
		case w[0] == "twin" && len(w) == 4:
			c10twins(r, unhx(w[1]), unhx(w[2]), unhx(w[3]))
		case w[0] == "api" && len(w) == 4:
			c10api(r, w[1] == "1", unhx(w[2]), unhx(w[3]))
		case w[0] == "opt" && len(w) == 8:
			if child {
				// executed unguarded: a stack overflow must kill this process
				c10optRun(atoi(w[1]), unhx(w[2]), unhx(w[3]), unhx(w[4]), w[5] == "1", unhx(w[6]), unhx(w[7]))
			} else {
				c10opt(r, atoi(w[1]), unhx(w[2]), unhx(w[3]), unhx(w[4]), w[5] == "1", unhx(w[6]), unhx(w[7]), false)
			}
		case w[0] == "lang" && len(w) == 2:
			c10lang(r, unhx(w[1]))
		case w[0] == "builtin" && len(w) == 4:
			c10builtin(r, atoi(w[1]), unhx(w[2]), atoi(w[3]))
		case w[0] == "solo" && len(w) == 3:
			// fresh-worker side of the order-independence oracle: one bare call, result on the transcript
			res := c10guard(func() string { return xl.VerifC10Format(unhx(w[1]), unhx(w[2]), false, xl.CellTypeNumber, nil) })
			out := "PANIC"
			if res.panic == "" && !res.hang {
				out = "ok " + hx(res.s)
			}
			r.Op(line, out)
		case w[0] == "hist" && len(w) >= 3:
			var vs []string
			for _, h := range w[2:] {
				vs = append(vs, unhx(h))
			}
			c10histories(r, []c10hist{{unhx(w[1]), vs}})
		}
	}
}

// ---------------------------------------------------------------------------
// order independence: rendering is a function of (value, code, options), not of call history

type c10hist struct {
	code string
	vals []string
}

var c10histPool []string

// layouts that differ in decimals, separators, percent, literals, scientific form
var c10layouts = []string{"0", "0.0", "0.00", "0.000", "0.0000", "#,##0", "#,##0.00", "#,##0.0000", "0%", "0.0%", "0.00%", "0.00E+00", "0.0000E+00",
	"\"x\"0.0", "(0.0)", "(#,##0.00)", "-0.0000", "#,##0.00_)", "00000", "00000.0", "[Red]0.000", "$#,##0", "0.0\" kg\""}

func c10orderIndependence(r *Run, rng *Rng, n int) {
	codes := []string{"#,##0.00;(0.0)", "0%;-0.0000", "0.0;-0.000", "0.000;-0", "#,##0;-0.00E+00;\"z\"0.0", "0.00;(#,##0.0000);0%;\"t:\"@"}
	for i := 0; i < n; i++ {
		k := rng.Pick2([]int{2, 2, 2, 3, 3, 4})
		var ss []string
		for j := 0; j < k; j++ {
			if j == 3 {
				ss = append(ss, rng.Pick([]string{"@", "\"t:\"@", "@\" x\""}))
				continue
			}
			l := rng.Pick(c10layouts)
			for len(ss) > 0 && l == ss[len(ss)-1] {
				l = rng.Pick(c10layouts)
			}
			ss = append(ss, l)
		}
		codes = append(codes, strings.Join(ss, ";"))
	}
	codes = append(codes, c10histPool...)
	seen := map[string]bool{}
	var hs []c10hist
	for i, code := range codes {
		if seen[code] {
			continue
		}
		seen[code] = true
		mag := rng.Pick([]string{"1234.5678", "0.256", "2.71828", "123456.789", "0.5", "99.995"})
		pos, neg := mag, "-"+mag
		vals := []string{pos, neg, "0", "abc", pos}
		if i%2 == 1 {
			vals = []string{neg, pos, "abc", "0", neg}
		}
		hs = append(hs, c10hist{code, vals})
	}
	c10histories(r, hs)
}

// c10solo formats pairs in fresh worker processes: worker j gets the j-th pair of every history, so no
// worker sees a code twice. Returns results[j][i] (history i, position j), "" when the worker failed.
func c10solo(r *Run, hs []c10hist) [][]string {
	maxLen := 0
	for _, h := range hs {
		if len(h.vals) > maxLen {
			maxLen = len(h.vals)
		}
	}
	out := make([][]string, maxLen)
	for j := 0; j < maxLen; j++ {
		out[j] = make([]string, len(hs))
		var sb strings.Builder
		var idx []int
		for i, h := range hs {
			if j < len(h.vals) && !(j > 0 && c10indexOf(h.vals[:j], h.vals[j]) >= 0) {
				fmt.Fprintf(&sb, "solo %s %s\n", hx(h.vals[j]), hx(h.code))
				idx = append(idx, i)
			}
		}
		if len(idx) == 0 {
			continue
		}
		dir, _ := os.MkdirTemp("", "c10solo")
		rp := filepath.Join(dir, "r.txt")
		_ = os.WriteFile(rp, []byte(sb.String()), 0o644)
		cmd := exec.Command(os.Args[0], "C10", "-out", filepath.Join(dir, "o"), "-replay", rp)
		if b, err := cmd.CombinedOutput(); err != nil {
			r.Fail("history:worker-crash", fmt.Sprintf("fresh worker %d failed: %v %s", j, err, string(b)), 0, "# worker")
			os.RemoveAll(dir)
			continue
		}
		lines := readLines(filepath.Join(dir, "o", "go.out"))
		for k, i := range idx {
			if k < len(lines) {
				out[j][i] = lines[k]
			}
		}
		os.RemoveAll(dir)
		r.Stat("history:workers")
	}
	// a value repeated later in a history has the solo result of its first occurrence
	for i, h := range hs {
		for j := range h.vals {
			if f := c10indexOf(h.vals[:j], h.vals[j]); f >= 0 {
				out[j][i] = out[f][i]
			}
		}
	}
	return out
}

func c10indexOf(xs []string, x string) int {
	for i, y := range xs {
		if y == x {
			return i
		}
	}
	return -1
}

func c10histories(r *Run, hs []c10hist) {
	solo := c10solo(r, hs)
	for i, h := range hs {
		var hexes []string
		for _, v := range h.vals {
			hexes = append(hexes, hx(v))
		}
		rep := "hist " + hx(h.code) + " " + strings.Join(hexes, " ")
		r.Case(rep, true)
		r.Stat("history")
		// (a) through the hook, one call after the other in this process (each call is also a transcript line)
		for j, v := range h.vals {
			got, ok := c10fmt(r, c10mk(true, false, v, h.code, nil))
			line := c10lastLine
			want := solo[j][i]
			if !ok || want == "" {
				continue
			}
			if "ok "+hx(got) != want {
				r.Fail("history:order-dependent", fmt.Sprintf("format(%q, %q) = %q as call %d of the history %q in one process, but %s alone in a fresh process: rendering depends on call history",
					v, h.code, got, j+1, h.vals[:j+1], c10showSolo(want)), line, rep)
				break
			}
		}
		// (b) through the public API on one File, one style, cells read in the same order
		res := c10guard(func() string {
			f := xl.NewFile()
			defer f.Close()
			code := h.code
			st, err := f.NewStyle(&xl.Style{CustomNumFmt: &code})
			if err != nil {
				return "STYLE-ERR"
			}
			var outs []string
			for j, v := range h.vals {
				cell := fmt.Sprintf("A%d", j+1)
				_ = f.SetCellDefault("Sheet1", cell, v)
				_ = f.SetCellStyle("Sheet1", cell, cell, st)
			}
			for j := range h.vals {
				got, err := f.GetCellValue("Sheet1", fmt.Sprintf("A%d", j+1))
				if err != nil {
					got = "ERR"
				}
				outs = append(outs, hx(got))
			}
			return strings.Join(outs, " ")
		})
		if res.panic != "" || res.hang {
			r.Fail("history:api-panic", fmt.Sprintf("reading %q under %q on one File panics/hangs: %s", h.vals, h.code, res.panic), 0, rep)
			continue
		}
		if res.s == "STYLE-ERR" {
			continue
		}
		for j, g := range strings.Fields(res.s) {
			want := solo[j][i]
			v := h.vals[j]
			// the cell reader normalises numeric text before format sees it: compare only where that is the identity
			if isNum, prec, dec := xl.VerifC10IsNumeric(v); isNum && (prec > 15 || strconv.FormatFloat(dec, 'f', -1, 64) != v) {
				continue
			}
			if want != "" && "ok "+g != want {
				r.Fail("history:order-dependent:api", fmt.Sprintf("GetCellValue of %q under %q = %q as read %d of %q on one File, but %s alone in a fresh process",
					v, h.code, unhx(g), j+1, h.vals[:j+1], c10showSolo(want)), 0, rep)
				break
			}
		}
	}
}

func c10showSolo(s string) string {
	w := strings.Fields(s)
	if len(w) == 2 && w[0] == "ok" {
		return fmt.Sprintf("%q", unhx(w[1]))
	}
	return s
}

// ---------------------------------------------------------------------------
// glue: cell style -> number format id -> code -> format

func c10bcode(r *Run, cu int, short, lt string, id int) {
	var code string
	var ok bool
	res := c10guard(func() string {
		f := xl.NewFile(xl.Options{CultureInfo: xl.CultureName(cu), ShortDatePattern: short, LongTimePattern: lt})
		defer f.Close()
		code, ok = f.VerifC10BuiltInCode(id)
		return ""
	})
	op := fmt.Sprintf("bcode %d %s %s %d", cu, hx(short), hx(lt), id)
	out := "none"
	if res.panic != "" || res.hang {
		out = "PANIC"
		r.Fail("glue:panic", fmt.Sprintf("getBuiltInNumFmtCode(%d) culture %d panics: %s", id, cu, res.panic), 0, op)
	} else if ok {
		out = "ok " + hx(code)
	}
	r.Op(op, out)
	r.Case(op, ok)
	r.Stat("transcript:bcode")
}

// c10normal replicates getValueFrom's re-rendering of numeric text (the model side recomputes it from
// the binary64 and the comparison with the real reader's output is the transcript): fields for the op line.
func c10normal(raw string) (val, fields string) {
	isNum, prec, dec := xl.VerifC10IsNumeric(raw)
	short := strconv.FormatFloat(dec, 'f', -1, 64)
	val = raw
	if isNum {
		val = short
		if prec > 15 {
			val = strconv.FormatFloat(dec, 'G', 15, 64)
		}
	}
	return val, fmt.Sprintf("%s %s %d %016x %s", hx(raw), b01(isNum), prec, math.Float64bits(dec), hx(short))
}

// c10norm: GetCellValue of an unstyled cell holding `raw` = the normalised text.
func c10norm(r *Run, raw string) {
	rep := "norm " + hx(raw)
	_, fields := c10normal(raw)
	res := c10guard(func() string {
		f := xl.NewFile()
		defer f.Close()
		if err := f.SetCellDefault("Sheet1", "A1", raw); err != nil {
			panic(err)
		}
		got, err := f.GetCellValue("Sheet1", "A1")
		if err != nil {
			panic(err)
		}
		return got
	})
	out := "PANIC"
	if res.panic == "" && !res.hang {
		out = "ok " + hx(res.s)
	}
	ln := r.Op("norm "+fields, out)
	r.Case(rep, true)
	r.Stat("transcript:norm")
	if res.panic != "" || res.hang {
		r.Fail("norm:panic", fmt.Sprintf("GetCellValue of an unstyled cell holding %q panics: %s", raw, res.panic), ln, rep)
		return
	}
	// model-free: the text read denotes the stored number — exactly up to 15 significant digits,
	// to half a unit of the 15th significant digit (plus binary64 representation) beyond
	x, ok := c10exact(raw)
	y, ok2 := c10exact(res.s)
	if !ok {
		return
	}
	if xf, _ := x.Float64(); math.IsInf(xf, 0) || (xf == 0) != (x.Sign() == 0) {
		return
	}
	if !ok2 {
		r.Fail("norm:not-a-number", fmt.Sprintf("unstyled cell %q reads %q", raw, res.s), ln, rep)
		return
	}
	if x.Sign() == 0 {
		if y.Sign() != 0 {
			r.Fail("norm:value-changed", fmt.Sprintf("unstyled cell %q reads %q", raw, res.s), ln, rep)
		}
		return
	}
	// decimal exponent of the leading digit of |x|
	ax := new(big.Rat).Abs(x)
	e := 0
	ten := big.NewRat(10, 1)
	for t := new(big.Rat).Set(ax); t.Cmp(ten) >= 0; t.Quo(t, ten) {
		e++
	}
	for t := new(big.Rat).Set(ax); t.Cmp(big.NewRat(1, 1)) < 0; t.Mul(t, ten) {
		e--
	}
	half := big.NewRat(1, 2) // half a unit of the 15th significant digit: 0.5 * 10^(e-14)
	p := new(big.Rat).SetInt(c10pow10(int(math.Abs(float64(e - 14)))))
	if e-14 >= 0 {
		half.Mul(half, p)
	} else {
		half.Quo(half, p)
	}
	xf, _ := ax.Float64()
	ulp := new(big.Rat).SetFloat64(math.Nextafter(xf, math.Inf(1)) - xf)
	if ulp == nil {
		ulp = new(big.Rat)
	}
	lim := new(big.Rat).Add(half, ulp)
	diff := new(big.Rat).Sub(x, y)
	diff.Abs(diff)
	if diff.Cmp(lim) > 0 {
		r.Fail("norm:value-changed", fmt.Sprintf("unstyled cell %q reads %q: off by %s, more than half a unit of the 15th significant digit", raw, res.s, diff.FloatString(30)), ln, rep)
	} else {
		r.Stat("norm-ok")
	}
}

// c10customXLSX: a workbook whose styles part declares the given custom <numFmt> elements (document
// order) and one cell style (index 1) that uses number format id `id`; cell A1 holds `raw`.
func c10customXLSX(id int, customs [][2]string, raw string) []byte {
	f := xl.NewFile()
	_ = f.SetCellDefault("Sheet1", "A1", raw)
	buf, err := f.WriteToBuffer()
	f.Close()
	if err != nil {
		panic(err)
	}
	var nf strings.Builder
	if len(customs) > 0 {
		fmt.Fprintf(&nf, `<numFmts count="%d">`, len(customs))
		for _, c := range customs {
			var esc bytes.Buffer
			_ = xml.EscapeText(&esc, []byte(c[1]))
			fmt.Fprintf(&nf, `<numFmt numFmtId="%s" formatCode="%s"/>`, c[0], strings.ReplaceAll(esc.String(), `"`, "&quot;"))
		}
		nf.WriteString(`</numFmts>`)
	}
	styles := `<?xml version="1.0" encoding="UTF-8" standalone="yes"?>` +
		`<styleSheet xmlns="http://schemas.openxmlformats.org/spreadsheetml/2006/main">` + nf.String() +
		`<fonts count="1"><font><sz val="11"/><name val="Calibri"/></font></fonts>` +
		`<fills count="1"><fill><patternFill patternType="none"/></fill></fills>` +
		`<borders count="1"><border><left/><right/><top/><bottom/><diagonal/></border></borders>` +
		`<cellStyleXfs count="1"><xf numFmtId="0" fontId="0" fillId="0" borderId="0"/></cellStyleXfs>` +
		`<cellXfs count="2"><xf numFmtId="0" fontId="0" fillId="0" borderId="0" xfId="0"/>` +
		fmt.Sprintf(`<xf numFmtId="%d" fontId="0" fillId="0" borderId="0" xfId="0" applyNumberFormat="1"/>`, id) +
		`</cellXfs></styleSheet>`
	zr, err := zip.NewReader(bytes.NewReader(buf.Bytes()), int64(buf.Len()))
	if err != nil {
		panic(err)
	}
	var out bytes.Buffer
	zw := zip.NewWriter(&out)
	for _, zf := range zr.File {
		w, _ := zw.Create(zf.Name)
		if zf.Name == "xl/styles.xml" {
			_, _ = w.Write([]byte(styles))
			continue
		}
		rc, _ := zf.Open()
		_, _ = io.Copy(w, rc)
		rc.Close()
	}
	_ = zw.Close()
	return out.Bytes()
}

// c10glue: a styled (or unstyled) cell on a File with options; the text GetCellValue returns must be
// format(code) of the NORMALISED stored text for the code formattedValue resolves to, raw when there is
// none. customs == nil: style through NewStyle{NumFmt:id}; otherwise a styles part with these custom
// <numFmt> elements (ids may collide with built-in ids: the custom one wins) and a cell style using id.
func c10glue(r *Run, d1904, styled bool, id int, o *c10o, value string, customs [][2]string) {
	rep := fmt.Sprintf("glue %s %s %d %d %s %s %s %s", b01(d1904), b01(styled), id, o.culture, hx(o.short), hx(o.longDate), hx(o.longTime), hx(value))
	for _, c := range customs {
		rep += " " + c[0] + " " + hx(c[1])
	}
	val, normFields := c10normal(value)
	var code string
	var has bool
	pre := c10guard(func() string {
		f := xl.NewFile(*o.options())
		defer f.Close()
		code, has = f.VerifC10BuiltInCode(id)
		if styled && customs == nil {
			// NewStyle de-duplicates: an id that adds nothing gives the default style 0 (the raw value is read)
			if st, err := f.NewStyle(&xl.Style{NumFmt: id}); err != nil || st == 0 {
				styled = false
			}
		}
		return ""
	})
	if pre.panic != "" || pre.hang {
		return
	}
	if has && o.short != "" {
		switch id {
		case 14:
			code = o.short
		case 22:
			code = o.short + " hh:mm"
		}
	}
	for _, c := range customs {
		if c[0] == strconv.Itoa(id) { // the first custom element with the id wins
			code, has = c[1], true
			break
		}
	}
	if !styled {
		has = false
	}
	codeField := "none"
	if has {
		codeField = hx(code)
	} else {
		code = ""
	}
	api := func() string {
		var f *xl.File
		if customs != nil {
			var err error
			if f, err = xl.OpenReader(bytes.NewReader(c10customXLSX(id, customs, value)), *o.options()); err != nil {
				panic(err)
			}
		} else {
			f = xl.NewFile(*o.options())
			if err := f.SetCellDefault("Sheet1", "A1", value); err != nil {
				panic(err)
			}
		}
		defer f.Close()
		if d1904 {
			t := true
			if err := f.SetWorkbookProps(&xl.WorkbookPropsOptions{Date1904: &t}); err != nil {
				panic(err)
			}
		}
		if styled {
			st := 1
			if customs == nil {
				var err error
				if st, err = f.NewStyle(&xl.Style{NumFmt: id}); err != nil {
					panic(err)
				}
			}
			if err := f.SetCellStyle("Sheet1", "A1", "A1", st); err != nil {
				panic(err)
			}
		}
		got, err := f.GetCellValue("Sheet1", "A1")
		if err != nil {
			panic(err)
		}
		return got
	}
	var cs strings.Builder
	fmt.Fprintf(&cs, "%d", len(customs))
	for _, c := range customs {
		cs.WriteString(" " + c[0] + " " + hx(c[1]))
	}
	c := c10case{cellNumeric: true, d1904: d1904, value: val, code: code, o: o, api: api,
		prefix: fmt.Sprintf("glue %s %d %d %s %s %s %s %s ", b01(styled), id, o.culture, hx(o.short), hx(o.longTime), codeField, cs.String(), normFields),
		suffix: " R=1 N=1", rep: rep}
	r.Stat("glue")
	if customs != nil {
		r.Stat("glue:custom")
	}
	if val != value {
		r.Stat("glue:normalised")
	}
	c10fmt(r, c)
}

// ---------------------------------------------------------------------------
// fraction formats: what is printed vs the closest fraction within the digit budget

var (
	c10fracMixed = regexp.MustCompile(`^(-?)([0-9]+) (?:([0-9]+)/([0-9]+)| +)$`)
	c10fracBare  = regexp.MustCompile(`^(-?)([0-9]+)/([0-9]+)$`)
)

// c10fraction: code is `# ?/?`-like (mixed) or `?/?`-like (bare) with k question marks per side.
func c10fraction(r *Run, value string, k int, mixed bool) {
	q := strings.Repeat("?", k)
	code := q + "/" + q
	if mixed {
		code = "# " + code
	}
	c := c10mk(true, false, value, code, nil)
	rep := fmt.Sprintf("frac %s %d %s", hx(value), k, b01(mixed))
	c.rep = rep
	out, ok := c10fmt(r, c)
	line := c10lastLine
	x, xok := c10exact(value)
	if !ok || !xok || out == value {
		return
	}
	ax := new(big.Rat).Abs(x)
	if f, _ := ax.Float64(); math.IsInf(f, 0) || f > 1e15 {
		return
	}
	var got *big.Rat
	if mixed {
		m := c10fracMixed.FindStringSubmatch(out)
		if m == nil {
			r.Fail("fraction:shape", fmt.Sprintf("format(%q, %q) = %q is not `int num/den`", value, code, out), line, rep)
			return
		}
		got, _ = new(big.Rat).SetString(m[2])
		if m[3] != "" {
			fr, ok := new(big.Rat).SetString(m[3] + "/" + m[4])
			if !ok {
				return
			}
			got.Add(got, fr)
		}
	} else {
		m := c10fracBare.FindStringSubmatch(out)
		if m == nil {
			r.Stat("fraction:bare-other-shape")
			return
		}
		var ok bool
		if got, ok = new(big.Rat).SetString(m[2] + "/" + m[3]); !ok {
			return
		}
	}
	// the closest fraction with a denominator of at most k digits
	lim := 1
	for i := 0; i < k; i++ {
		lim *= 10
	}
	best := new(big.Rat).Set(ax) // error of the best candidate
	fracPart := new(big.Rat).Sub(ax, new(big.Rat).SetInt(new(big.Int).Quo(ax.Num(), ax.Denom())))
	target := fracPart
	if !mixed {
		target = ax
	}
	for den := 1; den < lim; den++ {
		t := new(big.Rat).Mul(target, big.NewRat(int64(den), 1))
		n := new(big.Int).Quo(new(big.Int).Add(new(big.Int).Mul(t.Num(), big.NewInt(2)), t.Denom()), new(big.Int).Mul(t.Denom(), big.NewInt(2)))
		e := new(big.Rat).Sub(target, new(big.Rat).SetFrac(n, big.NewInt(int64(den))))
		e.Abs(e)
		if e.Cmp(best) < 0 {
			best = e
		}
	}
	err := new(big.Rat).Sub(got, ax)
	err.Abs(err)
	slack := new(big.Rat).Mul(ax, big.NewRat(1, 1<<50))
	slack.Add(slack, big.NewRat(1, 1000000000000))
	if err.Cmp(new(big.Rat).Add(best, slack)) > 0 {
		sig := "fraction:not-closest"
		if !mixed {
			sig = "fraction:improper-concatenated"
		}
		r.Fail(sig, fmt.Sprintf("format(%q, %q) = %q: off by %s, a fraction with at most %d denominator digits comes within %s", value, code, out, err.FloatString(8), k, best.FloatString(8)), line, rep)
	} else {
		r.Stat("fraction-ok")
	}
}

// c10elapsedConsistency: [h]:mm:ss, [m]:ss and [s] must denote the instant the 24-hour rendering of the
// same value shows: elapsed hours = 24 * (days between the rendered date and serial 0) + rendered hour.
func c10elapsedConsistency(r *Run, value string, d1904 bool) {
	rep := fmt.Sprintf("elapsed %s %s", b01(d1904), hx(value))
	f := func(code string) (string, bool) {
		res := c10guard(func() string { return xl.VerifC10Format(value, code, d1904, xl.CellTypeNumber, nil) })
		return res.s, res.panic == "" && !res.hang
	}
	r.Case(rep, true)
	clock, ok1 := f("yyyy-mm-dd hh:mm:ss")
	eh, ok2 := f("[h]:mm:ss")
	em, ok3 := f("[m]:ss")
	es, ok4 := f("[s]")
	if !(ok1 && ok2 && ok3 && ok4) || clock == value {
		return
	}
	m := regexp.MustCompile(`^(\d+)-(\d\d)-(\d\d) (\d\d):(\d\d):(\d\d)$`).FindStringSubmatch(clock)
	if m == nil {
		return
	}
	base := c10epoch
	if d1904 {
		base = c10epoch1904
	}
	date := time.Date(atoi(m[1]), time.Month(atoi(m[2])), atoi(m[3]), 0, 0, 0, 0, time.UTC)
	days := int64(date.Sub(base).Hours()+0.5) / 24
	if atoi(m[1]) > 2150 {
		days = (date.Unix() - base.Unix()) / 86400
	}
	if !d1904 && days < 61 {
		// 1900 system before 1900-03-01: the rendered calendar date is one day behind the serial's day count
		// (Excel's fictitious 1900-02-29); the day count of the serial itself is used
		if x, ok := c10exact(value); ok {
			q := new(big.Int).Quo(x.Num(), x.Denom()).Int64()
			if atoi(m[4]) == 0 && atoi(m[5]) == 0 && atoi(m[6]) == 0 {
				// a carry to the next midnight is part of the rounded instant
				nr := new(big.Rat).Mul(x, big.NewRat(86400, 1))
				n := new(big.Int).Quo(new(big.Int).Add(new(big.Int).Mul(nr.Num(), big.NewInt(2)), nr.Denom()), new(big.Int).Mul(nr.Denom(), big.NewInt(2))).Int64()
				q = n / 86400
			}
			days = q
		}
	}
	hh, mi, ss := int64(atoi(m[4])), int64(atoi(m[5])), int64(atoi(m[6]))
	wantH := days*24 + hh
	want := []string{fmt.Sprintf("%d:%02d:%02d", wantH, mi, ss), fmt.Sprintf("%d:%02d", wantH*60+mi, ss), fmt.Sprintf("%d", (wantH*60+mi)*60+ss)}
	got := []string{eh, em, es}
	for i, code := range []string{"[h]:mm:ss", "[m]:ss", "[s]"} {
		if got[i] != want[i] {
			r.Fail("date:elapsed:inconsistent-with-clock", fmt.Sprintf("format(%q, %q) date1904=%v = %q, but the same value renders %q as yyyy-mm-dd hh:mm:ss: the elapsed form of that instant is %q", value, code, d1904, got[i], clock, want[i]), 0, rep)
			return
		}
	}
	r.Stat("elapsed-consistent")
}
