//go:build verif_c11

package main

// C11 — StreamWriter output is equivalent to the in-memory API.
//
// A *case* is a script of op lines (the replay format):
//
//   case <kind> <styles>                  kind = model | rich | big ; number of styles created up front
//   setrow <hex cell> <opts> <item>*      opts = - | style,h4,outline,hidden   (height in quarter points)
//   merge <hex> <hex>
//   colwidth a b w4 | colstyle a b st | panes 0 | panes f,x,y
//   table <hex range> | pagebreak <hex cell> | reader | flush
//
//   item = n | i<int> | u<uint> | w<int16> | q<uint32> | F<hex bits f64> | G<hex bits f32> | b0 | b1
//        | s<hex> | y<hex bytes> | d<ns> | t<sec>,<nsec> | x<re>,<im> | R<hex>~<hex>… | R- | RE | Z<n>,<hex unit>
//        | C<style>,<hex formula>,<item> | P<style>,<hex formula>,<item>
//
// Every case runs the script on a StreamWriter and, independently, on the
// in-memory API of a twin file (built only from the rows the harness itself
// expects to be accepted), saves both, reopens both and compares cell for
// cell (direct oracle). `model` cases are also written to the transcript for
// the Lean driver (see lean/XlModel/Drv/C11.lean); `big` cases cross the
// 16 MiB spill threshold and put the buffered writer's sizes on the transcript.

import (
	"archive/zip"
	"bytes"
	"encoding/xml"
	"io"
	"encoding/hex"
	"fmt"
	"math"
	"os"
	"runtime/debug"
	"sort"
	"regexp"
	"strconv"
	"strings"
	"time"
	"unicode/utf8"

	xl "github.com/xuri/excelize/v2"
)

func init() { props["C11"] = runC11 }

const c11Sheet = "Sheet1"

func c11fnv(b []byte) string {
	h := uint64(14695981039346656037)
	for _, c := range b {
		h ^= uint64(c)
		h *= 1099511628211
	}
	return fmt.Sprintf("%016x", h)
}

func c11hexb(b []byte) string {
	if len(b) == 0 {
		return "-"
	}
	return hex.EncodeToString(b)
}

// ---------------------------------------------------------------- items

type c11Item struct {
	skip     bool
	val      interface{} // value handed to SetRow (possibly Cell / *Cell)
	inner    interface{} // the bare value (for the twin)
	wrapped  bool
	style    int
	formula  string
	modelTok string // transcript token, "" = not modelled
	isTime   bool   // time / duration: default style differs by design
	isClock  bool   // time.Time
	richBad  bool
	rich     []xl.RichTextRun
	isRich   bool
	bstr     bool // text payload contains "_x": the in-memory shared-string path decodes it (C01/C03 territory)
}

var c11scratch [2]*xl.File

// c11date1904: the date system of the case being executed (header option d1904)
var c11date1904 bool

func c11parseVal(tok string) (v interface{}, model string, it c11Item, err error) {
	if tok == "" {
		return nil, "", it, fmt.Errorf("empty item")
	}
	rest := tok[1:]
	switch tok[0] {
	case 'n':
		return nil, "n", it, nil
	case 'i':
		n, e := strconv.ParseInt(rest, 10, 64)
		return int(n), "i" + rest, it, e
	case 'u':
		n, e := strconv.ParseUint(rest, 10, 64)
		return n, "i" + rest, it, e
	case 'w':
		n, e := strconv.ParseInt(rest, 10, 16)
		return int16(n), "i" + strconv.FormatInt(n, 10), it, e
	case 'q':
		n, e := strconv.ParseUint(rest, 10, 32)
		return uint32(n), "i" + strconv.FormatUint(n, 10), it, e
	case 'F':
		bits, e := strconv.ParseUint(rest, 16, 64)
		f := math.Float64frombits(bits)
		if math.IsNaN(f) || math.IsInf(f, 0) {
			return f, "", it, e
		}
		return f, "f" + hx(strconv.FormatFloat(f, 'f', -1, 64)), it, e
	case 'G':
		bits, e := strconv.ParseUint(rest, 16, 32)
		f := math.Float32frombits(uint32(bits))
		if math.IsNaN(float64(f)) || math.IsInf(float64(f), 0) {
			return f, "", it, e
		}
		return f, "f" + hx(strconv.FormatFloat(float64(f), 'f', -1, 32)), it, e
	case 'b':
		return rest == "1", "b" + rest, it, nil
	case 's':
		s := unhx(rest)
		m := "s" + rest
		if !utf8.ValidString(s) {
			m = "" // the model transcribes xml.EscapeText / bstrMarshal for valid UTF-8 only
		}
		return s, m, it, nil
	case 'Z': // long string: unit repeated n times
		p := strings.SplitN(rest, ",", 2)
		n, e := strconv.Atoi(p[0])
		if e != nil || len(p) != 2 {
			return nil, "", it, fmt.Errorf("bad Z item")
		}
		return strings.Repeat(unhx(p[1]), n), "", it, nil
	case 'y':
		s := unhx(rest)
		m := "s" + rest
		if !utf8.ValidString(s) {
			m = ""
		}
		return []byte(s), m, it, nil
	case 'd':
		n, e := strconv.ParseInt(rest, 10, 64)
		d := time.Duration(n)
		it.isTime = true
		return d, "D" + hx(strconv.FormatFloat(d.Seconds()/86400, 'f', -1, 32)), it, e
	case 't':
		p := strings.SplitN(rest, ",", 2)
		if len(p) != 2 {
			return nil, "", it, fmt.Errorf("bad t item")
		}
		sec, e1 := strconv.ParseInt(p[0], 10, 64)
		ns, e2 := strconv.ParseInt(p[1], 10, 64)
		if e1 != nil || e2 != nil {
			return nil, "", it, fmt.Errorf("bad t item")
		}
		it.isTime = true
		it.isClock = true
		tv := time.Unix(sec, ns).UTC()
		// what a time.Time is stored as (timeToExcelTime + FormatFloat, or the RFC 3339 text): external to the stream
		// model (C19's territory); obtained through the in-memory API on a scratch workbook
		k := 0
		if c11date1904 {
			k = 1
		}
		if c11scratch[k] == nil {
			c11scratch[k] = xl.NewFile()
			if c11date1904 {
				yes := true
				_ = c11scratch[k].SetWorkbookProps(&xl.WorkbookPropsOptions{Date1904: &yes})
			}
		}
		_ = c11scratch[k].SetCellValue("Sheet1", "A1", tv)
		text, _ := c11scratch[k].GetCellValue("Sheet1", "A1", xl.Options{RawCellValue: true})
		isNum := "0"
		if _, e := strconv.ParseFloat(text, 64); e == nil {
			isNum = "1"
		}
		// the id of the NumFmt 22 style is filled in after the call (@NF)
		return tv, "T" + isNum + ";" + hx(text) + ";@NF", it, nil
	case 'x':
		p := strings.SplitN(rest, ",", 2)
		if len(p) != 2 {
			return nil, "", it, fmt.Errorf("bad x item")
		}
		re, _ := strconv.ParseFloat(p[0], 64)
		im, _ := strconv.ParseFloat(p[1], 64)
		return complex(re, im), "", it, nil
	case 'R':
		it.isRich = true
		if rest == "E" {
			it.richBad = true
			it.rich = []xl.RichTextRun{{Text: strings.Repeat("a", 20000)}, {Text: strings.Repeat("b", 20000), Font: &xl.Font{Bold: true}}}
			return it.rich, "RE", it, nil
		}
		it.rich = []xl.RichTextRun{}
		if rest != "-" {
			for i, h := range strings.Split(rest, "~") {
				run := xl.RichTextRun{Text: unhx(h)}
				if i%2 == 1 {
					run.Font = &xl.Font{Bold: true, Color: "FF0000"}
				}
				it.rich = append(it.rich, run)
			}
		}
		b, e := xl.VerifC11RichText(it.rich)
		m := "R" + c11hexb(b)
		if e != nil {
			it.richBad = true
			m = "RE"
		}
		return it.rich, m, it, nil
	}
	return nil, "", it, fmt.Errorf("bad item %q", tok)
}

func c11parseItem(tok string) (c11Item, error) {
	if tok == "n" {
		return c11Item{skip: true, modelTok: "n"}, nil
	}
	if tok[0] == 'C' || tok[0] == 'P' {
		p := strings.SplitN(tok[1:], ",", 3)
		if len(p) != 3 {
			return c11Item{}, fmt.Errorf("bad cell item %q", tok)
		}
		st, e := strconv.Atoi(p[0])
		if e != nil {
			return c11Item{}, e
		}
		v, m, it, e := c11parseVal(p[2])
		if e != nil {
			return c11Item{}, e
		}
		it.wrapped, it.style, it.formula, it.inner = true, st, unhx(p[1]), v
		it.bstr = c11hasBstr(v)
		if tok[0] == 'C' {
			it.val = xl.Cell{StyleID: st, Formula: it.formula, Value: v}
		} else {
			it.val = &xl.Cell{StyleID: st, Formula: it.formula, Value: v}
		}
		if m != "" && utf8.ValidString(it.formula) {
			it.modelTok = "C" + p[0] + "," + p[1] + "," + m
		}
		return it, nil
	}
	v, m, it, e := c11parseVal(tok)
	if e != nil {
		return c11Item{}, e
	}
	it.val, it.inner, it.modelTok = v, v, m
	it.bstr = c11hasBstr(v)
	return it, nil
}

func c11hasBstr(v interface{}) bool {
	switch x := v.(type) {
	case string:
		return strings.Contains(x, "_x")
	case []byte:
		return strings.Contains(string(x), "_x")
	case []xl.RichTextRun:
		for _, r := range x {
			if strings.Contains(r.Text, "_x") {
				return true
			}
		}
	}
	return false
}

type c11Opts struct {
	given                bool
	style, h4, outline   int
	hidden               bool
}

func c11parseOpts(tok string) (c11Opts, error) {
	if tok == "-" {
		return c11Opts{}, nil
	}
	p := strings.Split(tok, ",")
	if len(p) != 4 {
		return c11Opts{}, fmt.Errorf("bad opts %q", tok)
	}
	var o c11Opts
	var e1, e2, e3 error
	o.given = true
	o.style, e1 = strconv.Atoi(p[0])
	o.h4, e2 = strconv.Atoi(p[1])
	o.outline, e3 = strconv.Atoi(p[2])
	o.hidden = p[3] == "1"
	if e1 != nil || e2 != nil || e3 != nil {
		return o, fmt.Errorf("bad opts %q", tok)
	}
	return o, nil
}

// ---------------------------------------------------------------- case execution

type c11ColOp struct {
	lo, hi int
	isW    bool
	w      float64
	st     int
}

type c11Cell struct {
	col, row int
	it       c11Item
	rowStyle int
}

type c11Case struct {
	r        *Run
	lines    []string
	kind     string
	emit     bool // write the model transcript
	emitBW   bool
	sf, mf   *xl.File // stream-built, memory-built
	sw       *xl.StreamWriter
	styles   []int
	lastRow  int // harness's own notion of the last accepted row
	accepted int
	cells    []c11Cell
	rowsSeen []int
	colsSeen map[int]bool
	merges   int
	x14      bool
	colOps   []c11ColOp
	mrects   [][4]int
	table    bool
	flushed  bool
	prevAbs  []byte
	prevLen  int
	failed   bool
	firstLn  int
	nRejected, nInjected int
}

func (c *c11Case) replay() string { return strings.Join(c.lines, "\n") }

func (c *c11Case) fail(sig, what string, line int) {
	c.failed = true
	c.r.Fail(sig, what, line, c.replay())
}

// state line of the stream writer after an op (model transcript)
func (c *c11Case) stateLine(res string) string {
	st, err := xl.VerifC11Snapshot(c.sw, true)
	if err != nil {
		return "SNAPSHOT-ERR"
	}
	tmp := "-"
	if st.HasTmp {
		tmp = strconv.Itoa(st.TmpLen)
	}
	d := "!"
	if len(st.Abs) >= len(c.prevAbs) && bytes.Equal(st.Abs[:len(c.prevAbs)], c.prevAbs) {
		t := st.Abs[len(c.prevAbs):]
		if len(t) > 96 {
			t = t[:96]
		}
		d = c11hexb(t)
	}
	c.prevAbs = st.Abs
	sw := 0
	if st.SheetWritten {
		sw = 1
	}
	return fmt.Sprintf("%s rows=%d sw=%d mc=%d n=%d tmp=%s buf=%d h=%s d=%s", res, st.Rows, sw, st.MergeCount, c.accepted, tmp, st.BufLen, c11fnv(st.Abs), d)
}

func c11res(err error) string {
	if err != nil {
		return "ERR"
	}
	return "ok"
}

func (c *c11Case) op(line, res string) int {
	if !c.emit {
		return 0
	}
	ln := c.r.Op(line, c.stateLine(res))
	if c.firstLn == 0 {
		c.firstLn = ln
	}
	return ln
}

// sizes-only transcript for big cases
func (c *c11Case) opBW(kind string) {
	if !c.emitBW {
		return
	}
	st, err := xl.VerifC11Snapshot(c.sw, false)
	if err != nil {
		return
	}
	total := st.TmpLen + st.BufLen
	tmp := "-"
	if st.HasTmp {
		tmp = strconv.Itoa(st.TmpLen)
	}
	c.r.Op(fmt.Sprintf("%s %d", kind, total-c.prevLen), fmt.Sprintf("tmp=%s buf=%d", tmp, st.BufLen))
	c.prevLen = total
	if st.HasTmp {
		c.r.Stat("big:spilled-ops")
	}
}

func c11colName(n int) string {
	s, err := xl.ColumnNumberToName(n)
	if err != nil {
		return "?"
	}
	return s
}

// the harness's own reading of the property: which SetRow calls must be rejected
func c11expectReject(cell string, items []c11Item, o c11Opts, lastRow int) (col, row int, reject bool, why string) {
	col, row, ok := c11specA1(cell)
	if !ok {
		// anything CellNameToCoordinates accepts beyond strict A1 is C20's business; the generator only uses strict or clearly invalid references
		return 0, 0, true, "bad-ref"
	}
	if row <= lastRow {
		return col, row, true, "order"
	}
	if o.h4 > 4*xl.MaxRowHeight {
		return col, row, true, "height"
	}
	if o.outline > 7 {
		return col, row, true, "outline"
	}
	last := -1
	for i, it := range items {
		if !it.skip {
			last = i
		}
	}
	if last >= 0 && col+last > xl.MaxColumns {
		return col, row, true, "columns"
	}
	for _, it := range items {
		if it.richBad {
			return col, row, true, "richtext"
		}
	}
	return col, row, false, ""
}

func (c *c11Case) twinSetRow(col, row int, items []c11Item, o c11Opts) {
	f := c.mf
	if o.style > 0 {
		if err := f.SetRowStyle(c11Sheet, row, row, o.style); err != nil {
			c.fail("twin:error", fmt.Sprintf("in-memory SetRowStyle(%d,%d): %v", row, o.style, err), 0)
		}
	}
	if o.h4 > 0 {
		_ = f.SetRowHeight(c11Sheet, row, float64(o.h4)/4)
	}
	// RowOpts.Hidden is always given (false included): the row then exists on both sides
	_ = f.SetRowVisible(c11Sheet, row, !o.hidden)
	if o.outline > 0 {
		_ = f.SetRowOutlineLevel(c11Sheet, row, uint8(o.outline))
	}
	if len(items) == 0 && !o.given {
		return
	}
	for i, it := range items {
		if it.skip {
			continue
		}
		name, _ := xl.CoordinatesToCellName(col+i, row)
		var err error
		if it.isRich {
			err = f.SetCellRichText(c11Sheet, name, it.rich)
		} else {
			err = f.SetCellValue(c11Sheet, name, it.inner)
		}
		if err == nil && it.wrapped && it.formula != "" {
			err = f.SetCellFormula(c11Sheet, name, it.formula)
		}
		if err == nil && it.wrapped && it.style > 0 {
			err = f.SetCellStyle(c11Sheet, name, name, it.style)
		}
		if err != nil {
			c.fail("twin:error", fmt.Sprintf("in-memory call for %s failed: %v", name, err), 0)
		}
		c.cells = append(c.cells, c11Cell{col + i, row, it, o.style})
	}
}

func c11panes(spec string) *xl.Panes {
	if spec == "0" {
		return nil
	}
	p := strings.Split(spec, ",")
	if len(p) != 3 && len(p) != 4 {
		return nil
	}
	x, _ := strconv.Atoi(p[1])
	y, _ := strconv.Atoi(p[2])
	tl, _ := xl.CoordinatesToCellName(x+1, y+1)
	pane := "bottomRight"
	if x == 0 {
		pane = "bottomLeft"
	} else if y == 0 {
		pane = "topRight"
	}
	// first field: 1 = freeze, 0 = split, 2 = neither (removes the pane); optional fourth field: a selection
	ps := &xl.Panes{Freeze: p[0] == "1", Split: p[0] == "0", XSplit: x, YSplit: y, TopLeftCell: tl, ActivePane: pane}
	if len(p) == 4 {
		ps.Selection = []xl.Selection{{SQRef: tl, ActiveCell: tl, Pane: pane}}
		if p[3] == "2" {
			ps.Selection = append(ps.Selection, xl.Selection{SQRef: "A1:B2", ActiveCell: "A1"})
		}
	}
	return ps
}

func (c *c11Case) exec(line string) {
	w := strings.Fields(line)
	if len(w) == 0 || strings.HasPrefix(w[0], "#") {
		return
	}
	r := c.r
	guard := func(what string, fn func() error) (err error, panicked bool) {
		defer func() {
			if p := recover(); p != nil {
				panicked = true
				c.fail("panic:"+what, fmt.Sprintf("%s panicked: %v", what, p), 0)
			}
		}()
		return fn(), false
	}
	switch w[0] {
	case "setrow":
		if len(w) < 3 {
			return
		}
		cell := unhx(w[1])
		o, e := c11parseOpts(w[2])
		if e != nil {
			return
		}
		var items []c11Item
		vals := []interface{}{}
		modelled := true
		mt := []string{}
		for _, tok := range w[3:] {
			it, e := c11parseItem(tok)
			if e != nil {
				return
			}
			items = append(items, it)
			vals = append(vals, it.val)
			if it.modelTok == "" {
				modelled = false
			}
			mt = append(mt, it.modelTok)
		}
		col, row, expRej, why := c11expectReject(cell, items, o, c.lastRow)
		var err error
		var pan bool
		if o.given {
			err, pan = guard("SetRow", func() error {
				return c.sw.SetRow(cell, vals, xl.RowOpts{StyleID: o.style, Height: float64(o.h4) / 4, OutlineLevel: o.outline, Hidden: o.hidden})
			})
		} else {
			err, pan = guard("SetRow", func() error { return c.sw.SetRow(cell, vals) })
		}
		if pan {
			return
		}
		if err == nil {
			c.accepted++
		}
		res := c11res(err)
		ln := 0
		if strings.Contains(strings.Join(mt, " "), "@NF") {
			// the style SetRow gives a time without a style of its own: NewStyle(NumFmt 22), created on first use;
			// asking again returns the same id (mirrored on the twin so that the style tables stay aligned)
			nf, _ := c.sf.NewStyle(&xl.Style{NumFmt: 22})
			_, _ = c.mf.NewStyle(&xl.Style{NumFmt: 22})
			for i := range mt {
				mt[i] = strings.ReplaceAll(mt[i], "@NF", strconv.Itoa(nf))
			}
		}
		if c.emit {
			if !modelled {
				r.Stat("model:unmodelled-item-in-model-case")
			}
			ln = c.op("setrow "+w[1]+" "+w[2]+" "+strings.Join(mt, " "), res)
		}
		c.opBW("bwrow")
		r.Stat("op:setrow:" + res)
		if expRej {
			c.nRejected++
			r.Stat("reject:" + why)
			if err == nil {
				c.fail("setrow:accepted-invalid:"+why, fmt.Sprintf("SetRow(%q) accepted but must be rejected (%s)", cell, why), ln)
			}
		} else {
			if err != nil {
				c.fail("setrow:rejected-valid", fmt.Sprintf("SetRow(%q) rejected (%v) but the row is ascending and inside the limits", cell, err), ln)
			}
			c.lastRow = row
			c.rowsSeen = append(c.rowsSeen, row)
			c.twinSetRow(col, row, items, o)
			for i := range items {
				c.colsSeen[col+i] = true
			}
		}
	case "merge":
		tl, br := unhx(w[1]), unhx(w[2])
		err, pan := guard("MergeCell", func() error { return c.sw.MergeCell(tl, br) })
		if pan {
			return
		}
		c.op(line, c11res(err))
		e2 := c.mf.MergeCell(c11Sheet, tl, br)
		r.Stat("op:merge:" + c11res(err))
		if (err == nil) != (e2 == nil) {
			c.fail("merge:verdict", fmt.Sprintf("MergeCell(%q,%q): stream %v, in-memory %v", tl, br, err, e2), 0)
		}
		if err == nil {
			c.merges++
			c1, r1, ok1 := c11specA1(tl)
			c2, r2, ok2 := c11specA1(br)
			if ok1 && ok2 {
				c.mrects = append(c.mrects, [4]int{min(c1, c2), min(r1, r2), max(c1, c2), max(r1, r2)})
			}
		}
	case "colwidth":
		a, _ := strconv.Atoi(w[1])
		b, _ := strconv.Atoi(w[2])
		w4, _ := strconv.Atoi(w[3])
		err, pan := guard("SetColWidth", func() error { return c.sw.SetColWidth(a, b, float64(w4)/4) })
		if pan {
			return
		}
		c.op(fmt.Sprintf("colwidth %d %d %d %s", a, b, w4, c11hexb(xl.VerifC11Fields(c.sw, 4, 5))), c11res(err))
		r.Stat("op:colwidth:" + c11res(err))
		exp := c.accepted == 0 && a >= 1 && a <= xl.MaxColumns && b >= 1 && b <= xl.MaxColumns && w4 <= 4*xl.MaxColumnWidth
		if exp != (err == nil) {
			c.fail("colwidth:verdict", fmt.Sprintf("SetColWidth(%d,%d,%v) = %v, expected accept=%v (rows accepted so far: %d)", a, b, float64(w4)/4, err, exp, c.accepted), 0)
		}
		if err == nil {
			lo, hi := a, b
			if lo > hi {
				lo, hi = hi, lo
			}
			if e := c.mf.SetColWidth(c11Sheet, c11colName(lo), c11colName(hi), float64(w4)/4); e != nil {
				c.fail("twin:error", fmt.Sprintf("in-memory SetColWidth: %v", e), 0)
			}
			c.colsSeen[lo], c.colsSeen[hi] = true, true
			c.colOps = append(c.colOps, c11ColOp{lo, hi, true, float64(w4) / 4, 0}) // the harness's own last-writer-wins history
			for k := lo; k <= hi && k-lo < 8; k++ {
				c.colsSeen[k] = true
			}
		}
	case "colstyle":
		a, _ := strconv.Atoi(w[1])
		b, _ := strconv.Atoi(w[2])
		st, _ := strconv.Atoi(w[3])
		err, pan := guard("SetColStyle", func() error { return c.sw.SetColStyle(a, b, st) })
		if pan {
			return
		}
		c.op(fmt.Sprintf("colstyle %d %d %d %s", a, b, st, c11hexb(xl.VerifC11Fields(c.sw, 4, 5))), c11res(err))
		r.Stat("op:colstyle:" + c11res(err))
		if exp := c.accepted == 0 && a >= 1 && a <= xl.MaxColumns && b >= 1 && b <= xl.MaxColumns && st >= 0 && st < xl.VerifC11StyleCount(c.sf); exp != (err == nil) {
			c.fail("colstyle:verdict", fmt.Sprintf("SetColStyle(%d,%d,%d) = %v, expected accept=%v (rows accepted so far: %d)", a, b, st, err, exp, c.accepted), 0)
		}
		if err == nil {
			lo, hi := a, b
			if lo > hi {
				lo, hi = hi, lo
			}
			if e := c.mf.SetColStyle(c11Sheet, c11colName(lo)+":"+c11colName(hi), st); e != nil {
				c.fail("twin:error", fmt.Sprintf("in-memory SetColStyle: %v", e), 0)
			}
			c.colsSeen[lo], c.colsSeen[hi] = true, true
			c.colOps = append(c.colOps, c11ColOp{lo, hi, false, 0, st})
			for k := lo; k <= hi && k-lo < 8; k++ {
				c.colsSeen[k] = true
			}
		}
	case "panes":
		p := c11panes(w[1])
		err, pan := guard("SetPanes", func() error { return c.sw.SetPanes(p) })
		if pan {
			return
		}
		ok := "1"
		if p == nil {
			ok = "0"
		}
		if p == nil {
			c.op(fmt.Sprintf("panes %s %s", ok, c11hexb(xl.VerifC11Fields(c.sw, 4, 5))), c11res(err))
		} else {
			// the options go to the model, which renders fields 4..5 itself; external: the sheet view's own attributes and field 5
			f4 := string(xl.VerifC11Fields(c.sw, 4, 4))
			va := ""
			if i := strings.LastIndex(f4, "<sheetView"); i >= 0 { // the last sheet view is the one setPanes changes
				rest := f4[i+len("<sheetView"):]
				if j := strings.Index(rest, ">"); j >= 0 {
					va = rest[:j]
				}
			}
			b := func(v bool) string {
				if v {
					return "1"
				}
				return "0"
			}
			toks := []string{"panes2", b(p.Freeze), b(p.Split), strconv.Itoa(p.XSplit), strconv.Itoa(p.YSplit), hx(p.TopLeftCell), hx(p.ActivePane), hx(va), c11hexb(xl.VerifC11Fields(c.sw, 5, 5))}
			for _, sl := range p.Selection {
				toks = append(toks, hx(sl.ActiveCell), hx(sl.Pane), hx(sl.SQRef))
			}
			c.op(strings.Join(toks, " "), c11res(err))
		}
		r.Stat("op:panes:" + c11res(err))
		if exp := c.accepted == 0 && p != nil; exp != (err == nil) {
			c.fail("panes:verdict", fmt.Sprintf("SetPanes = %v, expected accept=%v (rows accepted so far: %d)", err, exp, c.accepted), 0)
		}
		if err == nil {
			if e := c.mf.SetPanes(c11Sheet, p); e != nil {
				c.fail("twin:error", fmt.Sprintf("in-memory SetPanes: %v", e), 0)
			}
		}
	case "table":
		rng := unhx(w[1])
		err, pan := guard("AddTable", func() error { return c.sw.AddTable(&xl.Table{Range: rng}) })
		if pan {
			return
		}
		r.Stat("op:table:" + c11res(err))
		if st, e := xl.VerifC11Snapshot(c.sw, false); e == nil && st.HasTmp {
			r.Stat("op:table:after-spill") // AddTable reads the spilled rows back through bufferedWriter.Reader before Flush
		}
		c.opBW("bwflush")
		if err == nil {
			c.table = true
			if e := c.mf.AddTable(c11Sheet, &xl.Table{Range: rng}); e != nil {
				c.fail("table:verdict", fmt.Sprintf("AddTable(%q): stream accepted, in-memory %v", rng, e), 0)
			}
		}
	case "pagebreak":
		cell := unhx(w[1])
		err, _ := guard("InsertPageBreak", func() error { return c.sw.InsertPageBreak(cell) })
		if err == nil {
			_ = c.mf.InsertPageBreak(c11Sheet, cell)
		}
		r.Stat("op:pagebreak:" + c11res(err))
	case "reader":
		var b []byte
		err, pan := guard("Reader", func() error {
			var e error
			b, e = xl.VerifC11Reader(c.sw)
			return e
		})
		if pan || !c.emit {
			return
		}
		c.r.Op("reader", c.stateLine(c11res(err))+" rh="+c11fnv(b))
		r.Stat("op:reader")
	case "flush":
		// per-field rendering of xlsxWorksheet (index 0 = the mutex … 42), what bulkAppendFields(ws, i, i) writes
		fields := make([]string, 43)
		if c.emit {
			for i := range fields {
				fields[i] = "-"
				if i >= 8 { // 0 is the unexported mutex; 1..7 are written before the rows
					fields[i] = c11hexb(xl.VerifC11Fields(c.sw, i, i))
				}
			}
		}
		st, _ := xl.VerifC11Snapshot(c.sw, false)
		err, pan := guard("Flush", func() error { return c.sw.Flush() })
		if pan {
			return
		}
		c.flushed = true
		c.op("flush "+hx(st.TableParts)+" "+strings.Join(fields, " "), c11res(err))
		c.opBW("bwflush")
		r.Stat("op:flush:" + c11res(err))
		if err != nil {
			c.fail("flush:error", fmt.Sprintf("Flush: %v", err), 0)
		}
	}
}


// ---------------------------------------------------------------- cell element trees

// c11cellTrees parses a worksheet part and returns the canonical text of every <c> element that has more than
// a reference (the others are dropped by a load/save cycle): c[k=hex;…]{f[]{#hex};v[]{#hex};is[]{t[…]{#hex};R}}
func c11cellTrees(part []byte) ([]string, error) {
	dec := xml.NewDecoder(bytes.NewReader(part))
	attrs := func(as []xml.Attr) string {
		p := []string{}
		for _, a := range as {
			n := a.Name.Local
			if a.Name.Space != "" {
				if a.Name.Local == "space" {
					n = "xml:space"
				} else {
					n = a.Name.Space + ":" + a.Name.Local
				}
			}
			p = append(p, n+"="+hx(a.Value))
		}
		return "[" + strings.Join(p, ";") + "]"
	}
	// text element: name[attrs]{#hex}
	var textElem func(se xml.StartElement) (string, error)
	textElem = func(se xml.StartElement) (string, error) {
		var txt strings.Builder
		for {
			tok, err := dec.Token()
			if err != nil {
				return "", err
			}
			switch t := tok.(type) {
			case xml.CharData:
				txt.Write(t)
			case xml.StartElement:
				if err := dec.Skip(); err != nil {
					return "", err
				}
				txt.WriteString("<?>")
			case xml.EndElement:
				body := ""
				if txt.Len() > 0 {
					body = "#" + hx(txt.String())
				}
				return se.Name.Local + attrs(se.Attr) + "{" + body + "}", nil
			}
		}
	}
	var out []string
	for {
		tok, err := dec.Token()
		if err == io.EOF {
			return out, nil
		}
		if err != nil {
			return out, err
		}
		se, ok := tok.(xml.StartElement)
		if !ok || se.Name.Local != "c" {
			continue
		}
		kids := []string{}
	cell:
		for {
			tok, err := dec.Token()
			if err != nil {
				return out, err
			}
			switch t := tok.(type) {
			case xml.EndElement:
				break cell
			case xml.StartElement:
				if t.Name.Local != "is" {
					k, err := textElem(t)
					if err != nil {
						return out, err
					}
					kids = append(kids, k)
					continue
				}
				ik := []string{}
				runs := false
			is:
				for {
					tok, err := dec.Token()
					if err != nil {
						return out, err
					}
					switch u := tok.(type) {
					case xml.EndElement:
						break is
					case xml.StartElement:
						if u.Name.Local == "t" {
							k, err := textElem(u)
							if err != nil {
								return out, err
							}
							ik = append(ik, k)
						} else {
							if !runs {
								ik = append(ik, "R")
								runs = true
							}
							if err := dec.Skip(); err != nil {
								return out, err
							}
						}
					}
				}
				kids = append(kids, "is[]{"+strings.Join(ik, ";")+"}")
			}
		}
		if len(se.Attr) == 1 && se.Attr[0].Name.Local == "r" && len(kids) == 0 {
			continue
		}
		out = append(out, "c"+attrs(se.Attr)+"{"+strings.Join(kids, ";")+"}")
	}
}

var c11attrGroup = regexp.MustCompile(`\[[^\]]*\]`)

func c11sheetPart(zipped []byte) ([]byte, error) {
	zr, err := zip.NewReader(bytes.NewReader(zipped), int64(len(zipped)))
	if err != nil {
		return nil, err
	}
	for _, f := range zr.File {
		if f.Name == "xl/worksheets/sheet1.xml" {
			rc, err := f.Open()
			if err != nil {
				return nil, err
			}
			defer rc.Close()
			return io.ReadAll(rc)
		}
	}
	return nil, fmt.Errorf("no sheet part")
}

// trees: the <c> elements as writeCell wrote them (A) and as encoding/xml marshals the xlsxC records decoded from
// them (B, after a load/save cycle); oracle: the two denote the same elements; transcript: both against the model.
func (c *c11Case) trees() {
	var z1 bytes.Buffer
	if err := c.sf.Write(&z1); err != nil {
		return
	}
	a, err := c11sheetPart(z1.Bytes())
	if err != nil {
		return
	}
	g, err := xl.OpenReader(bytes.NewReader(z1.Bytes()))
	if err != nil {
		return // reported by compare()
	}
	defer g.Close()
	if _, err := g.GetCellValue(c11Sheet, "A1"); err != nil { // loads the worksheet, so that saving marshals it again
		return
	}
	var z2 bytes.Buffer
	if err := g.Write(&z2); err != nil {
		c.fail("celltree:resave", fmt.Sprintf("saving the reopened stream-built workbook: %v", err), 0)
		return
	}
	b, err := c11sheetPart(z2.Bytes())
	if err != nil {
		return
	}
	ta, e1 := c11cellTrees(a)
	tb, e2 := c11cellTrees(b)
	if e1 != nil || e2 != nil {
		c.fail("celltree:parse", fmt.Sprintf("parsing the worksheet part: streamed %v, re-marshalled %v", e1, e2), 0)
		return
	}
	ln := 0
	if c.emit {
		ln = c.r.Op("trees", fmt.Sprintf("n=%d w=%s m=%s", len(ta), c11fnv([]byte(strings.Join(ta, "\n"))), c11fnv([]byte(strings.Join(tb, "\n")))))
	}
	c.r.Stats["celltrees-compared"] += len(ta)
	if len(ta) != len(tb) {
		c.fail("celltree:marshal-differs", fmt.Sprintf("writeCell wrote %d cells, the marshaller %d after a load/save cycle", len(ta), len(tb)), ln)
		return
	}
	// the oracle compares elements with their attributes as a finite map (order is not part of the infoset);
	// the transcript above keeps the document order
	sortAttrs := func(t string) string {
		return c11attrGroup.ReplaceAllStringFunc(t, func(g string) string {
			p := strings.Split(g[1:len(g)-1], ";")
			sort.Strings(p)
			return "[" + strings.Join(p, ";") + "]"
		})
	}
	for i := range ta {
		if sortAttrs(ta[i]) != sortAttrs(tb[i]) {
			c.fail("celltree:marshal-differs", fmt.Sprintf("cell %d: writeCell %s, encoding/xml %s", i, c11short(ta[i]), c11short(tb[i])), ln)
			return
		}
	}
}

// ---------------------------------------------------------------- comparison

func c11kind(f *xl.File, cell string) string {
	fm, _ := f.GetCellFormula(c11Sheet, cell)
	if fm != "" {
		return "formula"
	}
	t, err := f.GetCellType(c11Sheet, cell)
	if err != nil {
		return "ERR"
	}
	switch t {
	case xl.CellTypeBool:
		return "boolean"
	case xl.CellTypeInlineString, xl.CellTypeSharedString:
		return "text"
	case xl.CellTypeUnset, xl.CellTypeNumber:
		v, _ := f.GetCellValue(c11Sheet, cell, xl.Options{RawCellValue: true})
		if v == "" {
			return "blank"
		}
		return "number"
	case xl.CellTypeFormula:
		return "text" // t="str" without a formula: a string result
	}
	return fmt.Sprintf("type%d", t)
}

// c11cachedLiteral: what GetCellValue must return for the cached value of a formula cell written as
// Cell{Formula, Value}; raw says whether the raw or the formatted getter is meant. ok=false: not judged.
func c11cachedLiteral(v interface{}) (want string, raw bool, ok bool) {
	cut := func(s string) (string, bool) {
		if !utf8.ValidString(s) {
			return "", false
		}
		if utf8.RuneCountInString(s) > xl.TotalCellChars {
			s = string([]rune(s)[:xl.TotalCellChars])
		}
		return s, true
	}
	switch x := v.(type) {
	case nil:
		return "", true, true
	case string:
		s, ok := cut(x)
		return s, false, ok
	case []byte:
		s, ok := cut(string(x))
		return s, false, ok
	case bool:
		if x {
			return "TRUE", false, true
		}
		return "FALSE", false, true
	case int:
		return strconv.Itoa(x), true, true
	case int16:
		return strconv.Itoa(int(x)), true, true
	case uint32:
		return strconv.FormatUint(uint64(x), 10), true, true
	case uint64:
		return strconv.FormatUint(x, 10), true, true
	}
	return "", false, false
}

// c11bstrAffected: does bstrMarshal store this text differently (escape look-alikes, characters outside XML 1.0)?
func c11bstrAffected(s string) bool {
	if strings.Contains(s, "_x") {
		return true
	}
	for _, r := range s {
		if (r < 0x20 && r != 9 && r != 10 && r != 13) || r == 0xFFFE || r == 0xFFFF {
			return true
		}
	}
	return false
}

func c11reopen(f *xl.File) (*xl.File, error) {
	var b bytes.Buffer
	if err := f.Write(&b); err != nil {
		return nil, err
	}
	return xl.OpenReader(&b)
}

func c11short(s string) string {
	if len(s) > 60 {
		return fmt.Sprintf("%q…(%d bytes)", s[:60], len(s))
	}
	return strconv.Quote(s)
}

func (c *c11Case) compare() {
	r := c.r
	sg, err := c11reopen(c.sf)
	if err != nil {
		c.fail("stream:unreadable", fmt.Sprintf("the stream-built workbook cannot be saved/opened: %v", err), 0)
		return
	}
	defer sg.Close()
	mg, err := c11reopen(c.mf)
	if err != nil {
		c.fail("twin:error", fmt.Sprintf("the in-memory twin cannot be saved/opened: %v", err), 0)
		return
	}
	defer mg.Close()
	// whole grid
	sr, e1 := sg.GetRows(c11Sheet)
	mr, e2 := mg.GetRows(c11Sheet)
	if e1 != nil {
		c.fail("stream:unreadable", fmt.Sprintf("GetRows on the stream-built workbook: %v", e1), 0)
		return
	}
	if e2 != nil {
		c.fail("twin:error", fmt.Sprintf("GetRows on the twin: %v", e2), 0)
		return
	}
	trim := func(rows [][]string) [][]string {
		for len(rows) > 0 && len(rows[len(rows)-1]) == 0 {
			rows = rows[:len(rows)-1]
		}
		return rows
	}
	sr, mr = trim(sr), trim(mr)
	if len(sr) != len(mr) {
		c.fail("grid:rows", fmt.Sprintf("GetRows: stream has %d rows, in-memory %d", len(sr), len(mr)), 0)
	} else {
		for i := range sr {
			a, b := sr[i], mr[i]
			for len(a) > 0 && a[len(a)-1] == "" {
				a = a[:len(a)-1]
			}
			for len(b) > 0 && b[len(b)-1] == "" {
				b = b[:len(b)-1]
			}
			if strings.Join(a, "\x00") != strings.Join(b, "\x00") {
				hasTime := false
				for _, cc := range c.cells {
					if cc.row == i+1 && (cc.it.isTime || cc.it.formula != "" || cc.it.bstr) {
						hasTime = true
					}
				}
				if hasTime {
					continue // formatted text of time cells depends on the default style; formula cells carry a cached value only in the stream; both compared cell-wise below
				}
				detail := ""
				for j := 0; j < len(a) && j < len(b); j++ {
					if a[j] != b[j] {
						detail = fmt.Sprintf("; first difference in column %d: stream %s, in-memory %s", j+1, c11short(a[j]), c11short(b[j]))
						break
					}
				}
				c.fail("grid:row-content", fmt.Sprintf("GetRows row %d differs: stream %d cells, in-memory %d cells%s", i+1, len(a), len(b), detail), 0)
				break
			}
		}
	}
	// cell for cell: written cells, their neighbours, gaps
	type pos struct{ c, r int }
	probe := map[pos]*c11Cell{}
	for i := range c.cells {
		cc := &c.cells[i]
		probe[pos{cc.col, cc.row}] = cc
	}
	extra := map[pos]bool{}
	for p := range probe {
		for _, d := range []pos{{1, 0}, {-1, 0}, {0, 1}, {0, -1}} {
			if d.r == 1 && (p.c > 1000 || p.r > 100000) {
				continue // probing below a far position makes the library allocate a full-width / million-row grid
			}
			q := pos{p.c + d.c, p.r + d.r}
			inMerge := false
			for _, m := range c.mrects {
				if q.c >= m[0] && q.c <= m[2] && q.r >= m[1] && q.r <= m[3] {
					inMerge = true // getters redirect to the merge's top-left cell, which is compared itself
				}
			}
			if q.c >= 1 && q.c <= xl.MaxColumns && q.r >= 1 && q.r <= xl.TotalRows && probe[q] == nil && !inMerge {
				extra[q] = true
			}
		}
	}
	for _, row := range c.rowsSeen {
		extra[pos{1, row}] = extra[pos{1, row}] || probe[pos{1, row}] == nil
	}
	n := 0
	abort := false
	check := func(p pos, cc *c11Cell) {
		name, _ := xl.CoordinatesToCellName(p.c, p.r)
		n++
		sv, se := sg.GetCellValue(c11Sheet, name, xl.Options{RawCellValue: true})
		mv, me := mg.GetCellValue(c11Sheet, name, xl.Options{RawCellValue: true})
		sf, _ := sg.GetCellFormula(c11Sheet, name)
		mfm, _ := mg.GetCellFormula(c11Sheet, name)
		ss, _ := sg.GetCellStyle(c11Sheet, name)
		ms, _ := mg.GetCellStyle(c11Sheet, name)
		sk, mk := c11kind(sg, name), c11kind(mg, name)
		if se != nil || me != nil {
			c.fail("cell:read-error", fmt.Sprintf("%s: stream %v, in-memory %v", name, se, me), 0)
			abort = true // an unreadable worksheet is re-parsed by every getter: stop here
			return
		}
		if sf != mfm {
			c.fail("cell:formula", fmt.Sprintf("%s: formula stream %s, in-memory %s", name, c11short(sf), c11short(mfm)), 0)
		}
		hasFormula := sf != "" || mfm != ""
		if !hasFormula && sv != mv {
			sig := "cell:value"
			if cc != nil && cc.it.bstr {
				sig = "cell:value:bstr-escape"
			}
			c.fail(sig, fmt.Sprintf("%s: stored value stream %s, in-memory %s", name, c11short(sv), c11short(mv)), 0)
		}
		if sk != mk {
			c.fail("cell:kind", fmt.Sprintf("%s: kind stream %s, in-memory %s", name, sk, mk), 0)
		}
		// a Cell carrying a formula AND a value: the value is the formula's cached result. The in-memory API has no
		// call for that, so the stream's read-back is compared with the literal the harness expects, not with the twin.
		if cc != nil && cc.it.wrapped && cc.it.formula != "" {
			if want, raw, ok := c11cachedLiteral(cc.it.inner); ok {
				got, gotM := sv, mv
				if !raw {
					got, _ = sg.GetCellValue(c11Sheet, name)
					gotM, _ = mg.GetCellValue(c11Sheet, name)
				}
				if got != want && c11bstrAffected(want) {
					// the cached text of a t="str" cell is stored bstr-marshalled (<v> is an ST_Xstring) but read back undecoded
					c.fail("cell:formula-cached:bstr-not-decoded", fmt.Sprintf("%s: Cell{Formula: %s, Value: %T} reads back %s from the stream-built workbook, expected %s", name, c11short(cc.it.formula), cc.it.inner, c11short(got), c11short(want)), 0)
				} else if got != want {
					c.fail("cell:formula-cached", fmt.Sprintf("%s: Cell{Formula: %s, Value: %T} reads back %s from the stream-built workbook, expected %s", name, c11short(cc.it.formula), cc.it.inner, c11short(got), c11short(want)), 0)
				} else if gotM != want {
					c.fail("cell:formula-cached:in-memory", fmt.Sprintf("%s: SetCellValue(%T) + SetCellFormula(%s) reads back %s from the in-memory workbook, the stream-built one reads back %s", name, cc.it.inner, c11short(cc.it.formula), c11short(gotM), c11short(want)), 0)
				}
			}
		}
		// a time.Time stored as a number in a cell without any style of its own gets the NumFmt 22 style from SetRow
		if cc != nil && cc.it.isClock && cc.it.style <= 0 && cc.rowStyle == 0 {
			colSt := 0
			for _, o := range c.colOps {
				if !o.isW && o.lo <= p.c && p.c <= o.hi {
					colSt = o.st
				}
			}
			if _, e := strconv.ParseFloat(sv, 64); e == nil && colSt == 0 {
				if st, e := sg.GetStyle(ss); e != nil || st == nil || st.NumFmt != 22 {
					c.fail("cell:time-default-style", fmt.Sprintf("%s: a time.Time without a style was written with style %d, which is not the NumFmt 22 style", name, ss), 0)
				}
			}
		}
		// time / duration values get a default number format chosen by each API's own rule
		// (stream: 22 or none; in-memory: 14/17/20/21/22/46) unless the cell style is explicit
		implicitTime := cc != nil && cc.it.isTime && cc.it.style <= 0
		if ss != ms && !implicitTime {
			sig := "cell:style"
			if cc == nil {
				sig = "cell:style-unwritten"
			}
			c.fail(sig, fmt.Sprintf("%s: style stream %d, in-memory %d", name, ss, ms), 0)
		}
		if !hasFormula && cc != nil && !cc.it.isTime && sv == mv {
			// the formatted value too (same style ⇒ same rendering)
			fv1, _ := sg.GetCellValue(c11Sheet, name)
			fv2, _ := mg.GetCellValue(c11Sheet, name)
			if fv1 != fv2 && ss == ms {
				c.fail("cell:formatted", fmt.Sprintf("%s: formatted value stream %s, in-memory %s", name, c11short(fv1), c11short(fv2)), 0)
			}
		}
	}
	keys := make([]pos, 0, len(probe)+len(extra))
	for p := range probe {
		keys = append(keys, p)
	}
	for p := range extra {
		keys = append(keys, p)
	}
	sort.Slice(keys, func(i, j int) bool {
		if keys[i].r != keys[j].r {
			return keys[i].r < keys[j].r
		}
		return keys[i].c < keys[j].c
	})
	limit := 4000
	for i, p := range keys {
		if i >= limit {
			break
		}
		if (c.failed && i > 200) || abort {
			break
		}
		check(p, probe[p])
	}
	r.Stats["cells-compared"] += n
	if abort {
		return
	}
	// row attributes
	for _, row := range c.rowsSeen {
		h1, _ := sg.GetRowHeight(c11Sheet, row)
		h2, _ := mg.GetRowHeight(c11Sheet, row)
		v1, _ := sg.GetRowVisible(c11Sheet, row)
		v2, _ := mg.GetRowVisible(c11Sheet, row)
		o1, _ := sg.GetRowOutlineLevel(c11Sheet, row)
		o2, _ := mg.GetRowOutlineLevel(c11Sheet, row)
		if h1 != h2 || v1 != v2 || o1 != o2 {
			c.fail("row:attrs", fmt.Sprintf("row %d: height/visible/outline stream %v/%v/%d, in-memory %v/%v/%d", row, h1, v1, o1, h2, v2, o2), 0)
			break
		}
	}
	// column attributes
	cols := []int{}
	for k := range c.colsSeen {
		cols = append(cols, k, k+1)
	}
	sort.Ints(cols)
	for i, k := range cols {
		if k < 1 || k > xl.MaxColumns || i > 400 {
			continue
		}
		nm := c11colName(k)
		w1, _ := sg.GetColWidth(c11Sheet, nm)
		w2, _ := mg.GetColWidth(c11Sheet, nm)
		s1, _ := sg.GetColStyle(c11Sheet, nm)
		s2, _ := mg.GetColStyle(c11Sheet, nm)
		if w1 != w2 || s1 != s2 {
			c.fail("col:attrs", fmt.Sprintf("column %s: width/style stream %v/%d, in-memory %v/%d", nm, w1, s1, w2, s2), 0)
			break
		}
		// independent of the twin (both APIs share ws.setColWidth/setColStyle): pointwise last writer wins
		ew, es := 0.0, 0
		for _, o := range c.colOps {
			if o.lo <= k && k <= o.hi {
				if o.isW {
					ew = o.w
				} else {
					es = o.st
				}
			}
		}
		if ew == 0 {
			ew = 9.140625 // GetColWidth reads a missing and a zero width as the default width
		}
		if s1 != es || w1 != ew {
			c.fail("col:lww", fmt.Sprintf("column %s: width/style read back %v/%d, the last SetColWidth/SetColStyle covering it gave %v/%d", nm, w1, s1, ew, es), 0)
			break
		}
	}
	// merges
	m1, e1 := sg.GetMergeCells(c11Sheet)
	m2, e2 := mg.GetMergeCells(c11Sheet)
	canon := func(ms []xl.MergeCell) string {
		out := []string{}
		for _, m := range ms {
			out = append(out, m.GetStartAxis()+":"+m.GetEndAxis())
		}
		sort.Strings(out)
		return strings.Join(out, " ")
	}
	if e1 != nil || e2 != nil || canon(m1) != canon(m2) {
		c.fail("merge:list", fmt.Sprintf("merged cells: stream [%s] (%v), in-memory [%s] (%v)", canon(m1), e1, canon(m2), e2), 0)
	}
	// panes
	p1, _ := sg.GetPanes(c11Sheet)
	p2, _ := mg.GetPanes(c11Sheet)
	if fmt.Sprintf("%v %v %d %d %s %s", p1.Freeze, p1.Split, p1.XSplit, p1.YSplit, p1.TopLeftCell, p1.ActivePane) !=
		fmt.Sprintf("%v %v %d %d %s %s", p2.Freeze, p2.Split, p2.XSplit, p2.YSplit, p2.TopLeftCell, p2.ActivePane) {
		c.fail("panes", fmt.Sprintf("panes: stream %+v, in-memory %+v", p1, p2), 0)
	}
	// tables
	t1, e1 := sg.GetTables(c11Sheet)
	t2, e2 := mg.GetTables(c11Sheet)
	tc := func(ts []xl.Table) string {
		out := []string{}
		for _, t := range ts {
			out = append(out, t.Range+"/"+t.Name)
		}
		sort.Strings(out)
		return strings.Join(out, " ")
	}
	if e1 != nil || e2 != nil || tc(t1) != tc(t2) {
		c.fail("table:list", fmt.Sprintf("tables: stream [%s] (%v), in-memory [%s] (%v)", tc(t1), e1, tc(t2), e2), 0)
	}
	// conditional formats set on the worksheet before the stream writer was created
	if c.x14 {
		f1, e1 := sg.GetConditionalFormats(c11Sheet)
		f2, e2 := mg.GetConditionalFormats(c11Sheet)
		keys := func(m map[string][]xl.ConditionalFormatOptions) string {
			ks := []string{}
			for k, v := range m {
				ks = append(ks, fmt.Sprintf("%s:%+v", k, v))
			}
			sort.Strings(ks)
			return strings.Join(ks, " | ")
		}
		if e1 != nil || e2 != nil || keys(f1) != keys(f2) {
			sig := "sheet:condfmt"
			if len(f1) == len(f2) && e1 == nil && e2 == nil {
				sig = "sheet:condfmt-x14-ext" // same rules, the extLst half (x14 data bar attributes) differs
			}
			c.fail(sig, fmt.Sprintf("conditional formats: stream {%s} (%v), in-memory {%s} (%v)", keys(f1), e1, keys(f2), e2), 0)
		}
	}
}

// c11RunCase executes one script. Returns the case for statistics.
func c11RunCase(r *Run, lines []string) *c11Case {
	t0 := time.Now()
	defer func() {
		if d := time.Since(t0); d > 2*time.Second && os.Getenv("VH_C11_SLOW") != "" {
			fmt.Fprintf(os.Stderr, "slow case %.1fs: %s\n", d.Seconds(), strings.Join(lines, " | "))
		}
	}()
	c := &c11Case{r: r, lines: lines, colsSeen: map[int]bool{}}
	hdr := strings.Fields(lines[0])
	if len(hdr) < 3 || hdr[0] != "case" {
		return c
	}
	c.kind = hdr[1]
	c.emit = c.kind == "model"
	c.emitBW = c.kind == "big"
	k, _ := strconv.Atoi(hdr[2])
	c.sf, c.mf = xl.NewFile(), xl.NewFile()
	defer c.sf.Close()
	defer c.mf.Close()
	for i := 0; i < k; i++ {
		st := &xl.Style{Font: &xl.Font{Bold: i%2 == 0, Size: float64(9 + i)}, NumFmt: []int{0, 2, 4, 10, 0, 0}[i%6]}
		a, e1 := c.sf.NewStyle(st)
		b, e2 := c.mf.NewStyle(st)
		if e1 != nil || e2 != nil || a != b {
			r.Notes = append(r.Notes, "style ids diverge between the twin files")
		}
		c.styles = append(c.styles, a)
	}
	c11date1904 = len(hdr) > 3 && hdr[3] == "d1904"
	if c11date1904 {
		// the 1904 date system: SetRow reads it from the workbook properties like SetCellValue does
		yes := true
		_ = c.sf.SetWorkbookProps(&xl.WorkbookPropsOptions{Date1904: &yes})
		_ = c.mf.SetWorkbookProps(&xl.WorkbookPropsOptions{Date1904: &yes})
		r.Stat("case:date1904")
	}
	if len(hdr) > 3 && (hdr[3] == "x14" || hdr[3] == "x14t") {
		// worksheet settings made before the stream writer is created: conditional formats incl. an x14 data bar
		// (lives in the worksheet's extLst) — the stream writer carries the worksheet's fields over by reflection
		c.x14 = true
		for _, f := range []*xl.File{c.sf, c.mf} {
			_ = f.SetConditionalFormat(c11Sheet, "A1:A3", []xl.ConditionalFormatOptions{{Type: "data_bar", Criteria: "=", MinType: "num", MaxType: "num", MinValue: "0", MaxValue: "10", BarColor: "#638EC6", BarBorderColor: "#0000FF", BarSolid: true}})
			_ = f.SetConditionalFormat(c11Sheet, "B1:B3", []xl.ConditionalFormatOptions{{Type: "top", Criteria: "=", Value: "2"}})
			if hdr[3] == "x14t" {
				// … and a table the worksheet already has (its tableParts must end up in the same element as AddTable's)
				_ = f.SetSheetRow(c11Sheet, "H1", &[]interface{}{"p", "q"})
				_ = f.AddTable(c11Sheet, &xl.Table{Range: "H1:I3", Name: "Pre"})
				_ = f.SetCellValue(c11Sheet, "H1", nil)
				_ = f.SetCellValue(c11Sheet, "I1", nil)
			}
		}
	}
	sw, err := c.sf.NewStreamWriter(c11Sheet)
	if err != nil {
		c.fail("new:error", fmt.Sprintf("NewStreamWriter: %v", err), 0)
		return c
	}
	c.sw = sw
	if c.emit {
		c.prevAbs = nil
		ln := r.Op(fmt.Sprintf("new %s %s %d", c11hexb(xl.VerifC11Prolog(sw)), c11hexb(xl.VerifC11PreData(sw)), xl.VerifC11StyleCount(c.sf)), c.stateLine("ok"))
		c.firstLn = ln
	}
	if c.emitBW {
		st, _ := xl.VerifC11Snapshot(sw, false)
		c.prevLen = st.BufLen
		r.Op(fmt.Sprintf("bwnew %d", st.BufLen), fmt.Sprintf("tmp=- buf=%d", st.BufLen))
	}
	for _, l := range lines[1:] {
		c.exec(l)
	}
	if !c.flushed {
		c.exec("flush")
	}
	if st, err := xl.VerifC11Snapshot(sw, false); err == nil {
		if st.HasTmp {
			r.Stat("case:spilled")
		} else {
			r.Stat("case:in-memory")
		}
		r.Stats["bytes-streamed"] += st.TmpLen + st.BufLen
	}
	if c.kind != "big" && !c.failed {
		c.trees()
	}
	c.compare()
	key := strings.Join(lines, "\n")
	nontrivial := c.accepted >= 1
	r.Case(key, nontrivial)
	r.Stat("case:" + c.kind)
	if c.nRejected > 0 {
		r.Stat("case:with-rejected-rows")
	}
	return c
}

// ---------------------------------------------------------------- generator

var c11strs = []string{"a", "hello world", " lead", "trail ", "\ttab", "line\nbreak", "cr\rlf\n", "<tag>&amp;\"q\"'s'", "ünï©ødé ✓ 漢字", "1234", "1e5", "TRUE", "=1+2", "", "x\x01y", "a&b<c>d", "  ", "0", "-3.5", "]]>", "&#xA;", "&#10;lit",
	// carriage returns, characters outside XML 1.0, escape look-alikes (all through BOTH APIs)
	"a\r\nb", "\rlead", "trail\r", "a\rb", "x\x07y", "\x00", "a\x1fb\x0bc", "\x7f", "\uFFFE", "a\uFFFFb", "\uFFFD",
	"_x0041_", "a_x000D_b", "_x005F_x0041_", "_xZZZZ_", "_x0041\x01", "_x0041_x0042_", "__x000A_"}

// invalid UTF-8 (rich cases only: not transcribed by the model)
var c11bstrs = []string{"a\xffb", "\xc3", "\xed\xa0\x80z", "ok\xe2\x82", "\x80\r\n"}
var c11formulas = []string{"1+2", "SUM(A1:B2)", "A1&\"<x>\"", "IF(A1>1,\"a\",\"b\")", "B1*2"}

func c11genVal(rng *Rng, rich bool) string {
	n := 13 // 0..12: the modelled kinds, time.Time included
	if rich {
		n = 20
	}
	switch rng.Intn(n) {
	case 0:
		return "i" + strconv.Itoa(rng.Pick2([]int{0, 1, -1, 42, 640000, math.MaxInt64, math.MinInt64, -17}))
	case 1:
		return "u" + strconv.FormatUint(uint64(rng.Pick2([]int{0, 7, 255, 1 << 40})), 10)
	case 2:
		f := []float64{0, 1.5, -2.25, 100.1588, 1e21, 1e-7, 123456789.125, math.MaxFloat64, math.SmallestNonzeroFloat64, -0.0, 3}[rng.Intn(11)]
		return fmt.Sprintf("F%016x", math.Float64bits(f))
	case 3:
		f := []float32{0, 1.5, 100.1588, 3.4e38, 1e-10}[rng.Intn(5)]
		return fmt.Sprintf("G%08x", math.Float32bits(f))
	case 4:
		return "b" + strconv.Itoa(rng.Intn(2))
	case 5, 6, 7:
		return "s" + hx(rng.Pick(c11strs))
	case 8:
		return "y" + hx(rng.Pick(c11strs))
	case 9:
		return "d" + strconv.FormatInt(int64(rng.Pick2([]int{0, 1e9, 90 * 60 * 1e9, 25 * 3600 * 1e9, 1500000000})), 10)
	case 10:
		k := rng.Range(0, 3)
		if k == 0 {
			return "R-"
		}
		parts := []string{}
		for i := 0; i < k; i++ {
			s := rng.Pick(c11strs)
			if s == "" {
				s = "r"
			}
			parts = append(parts, hx(s))
		}
		return "R" + strings.Join(parts, "~")
	case 11:
		return "w" + strconv.Itoa(rng.Pick2([]int{-32768, 32767, 5}))
	case 12:
		return "t" + strconv.Itoa(rng.Pick2([]int{0, 1700000000, 1700006400, 86400 * 365 * 40, -86400 * 365 * 80, 951782400})) + "," + strconv.Itoa(rng.Pick2([]int{0, 0, 500000000}))
	case 13:
		return "x1.5,-2"
	case 14:
		f := []float64{math.NaN(), math.Inf(1), math.Inf(-1)}[rng.Intn(3)]
		return fmt.Sprintf("F%016x", math.Float64bits(f))
	case 15:
		return "s" + hx(rng.Pick(c11bstrs))
	case 16:
		return "Z" + strconv.Itoa(rng.Pick2([]int{32767, 32768, 40000, 10000})) + "," + hx(rng.Pick([]string{"a", "é", "<", "ab"}))
	case 17:
		return "q" + strconv.Itoa(rng.Pick2([]int{0, 4294967295}))
	default:
		return "s" + hx(rng.Pick(c11strs))
	}
}

func c11genItem(rng *Rng, rich bool, nStyles int) string {
	switch {
	case rng.Chance(12):
		return "n"
	case rng.Chance(30):
		st := 0
		if nStyles > 0 && rng.Chance(60) {
			st = rng.Range(1, nStyles)
		}
		f := "-"
		if rng.Chance(40) {
			f = hx(rng.Pick(c11formulas))
		}
		inner := c11genVal(rng, rich)
		if rng.Chance(15) {
			inner = "n"
		}
		tag := "C"
		if rng.Chance(25) {
			tag = "P"
		}
		return fmt.Sprintf("%s%d,%s,%s", tag, st, f, inner)
	}
	return c11genVal(rng, rich)
}

func c11genOpts(rng *Rng, nStyles int) string {
	if rng.Chance(60) {
		return "-"
	}
	st := 0
	if nStyles > 0 && rng.Chance(50) {
		st = rng.Range(1, nStyles)
	}
	h4 := rng.Pick2([]int{0, 0, 60, 81, 1636, 1, 100})
	ol := rng.Pick2([]int{0, 0, 0, 1, 7, 3})
	hid := rng.Intn(4) / 3
	return fmt.Sprintf("%d,%d,%d,%d", st, h4, ol, hid)
}

func c11cell(col, row int) string {
	s, _ := xl.CoordinatesToCellName(col, row)
	return s
}

// an invalid SetRow injected at a random point
func c11genBadRow(rng *Rng, rich bool, lastRow, nStyles int) string {
	items := func(n int) string {
		p := []string{}
		for i := 0; i < n; i++ {
			p = append(p, c11genVal(rng, false))
		}
		return strings.Join(p, " ")
	}
	switch rng.Intn(7) {
	case 0: // out of order
		row := lastRow
		if row > 1 && rng.Bool() {
			row = rng.Range(1, lastRow)
		}
		if row < 1 {
			return "setrow " + hx("A0") + " - i1"
		}
		return "setrow " + hx(c11cell(rng.Range(1, 5), row)) + " " + c11genOpts(rng, nStyles) + " " + items(rng.Range(1, 3))
	case 1: // runs past the last column
		start := rng.Range(16380, 16384)
		n := 16384 - start + 1 + rng.Range(1, 3)
		return "setrow " + hx(c11cell(start, lastRow+1)) + " " + c11genOpts(rng, nStyles) + " " + items(n)
	case 2: // height
		return "setrow " + hx(c11cell(1, lastRow+1)) + fmt.Sprintf(" 0,%d,0,0 ", rng.Pick2([]int{1637, 1640, 4000})) + items(2)
	case 3: // outline level
		return "setrow " + hx(c11cell(1, lastRow+1)) + fmt.Sprintf(" 0,0,%d,0 ", rng.Pick2([]int{8, 9, 100})) + items(2)
	case 4: // bad reference
		return "setrow " + hx(rng.Pick([]string{"A", "1", "", "A0", "XFE1", "A1048577", "A-1", "!"})) + " - " + items(1)
	case 5: // rich text over the limit, after some cells
		return "setrow " + hx(c11cell(rng.Range(1, 3), lastRow+1)) + " - " + items(rng.Range(0, 2)) + " RE " + items(1)
	default: // past the last column with a style and leading nils
		return "setrow " + hx(c11cell(16384, lastRow+1)) + " " + c11genOpts(rng, nStyles) + " n " + items(1)
	}
}

func c11genCase(rng *Rng, kind string) []string {
	rich := kind == "rich"
	nStyles := rng.Range(0, 4)
	lines := []string{fmt.Sprintf("case %s %d", kind, nStyles)}
	if rng.Chance(12) {
		lines[0] += " d1904"
	}
	// pre-row calls in random order; some deliberately after the first row
	pre := []string{}
	if rng.Chance(55) {
		for i := rng.Range(1, 3); i > 0; i-- {
			a := rng.Range(1, 8)
			b := a + rng.Range(0, 3)
			if rng.Chance(15) {
				a, b = b, a
			}
			if rng.Chance(8) {
				a = rng.Pick2([]int{0, 16384, 16385, -1})
			}
			pre = append(pre, fmt.Sprintf("colwidth %d %d %d", a, b, rng.Pick2([]int{40, 80, 33, 1020, 1021, 0, 5000})))
		}
	}
	if rng.Chance(55) {
		for i := rng.Range(1, 3); i > 0; i-- {
			a := rng.Range(1, 8)
			b := a + rng.Range(0, 2)
			if rng.Chance(15) {
				a, b = b, a
			}
			st := rng.Range(0, nStyles)
			if rng.Chance(8) {
				st = rng.Pick2([]int{-1, nStyles + 1, nStyles + 7})
			}
			pre = append(pre, fmt.Sprintf("colstyle %d %d %d", a, b, st))
		}
	}
	if rng.Chance(35) {
		if rng.Chance(10) {
			pre = append(pre, "panes 0")
		} else {
			x, y := rng.Range(0, 3), rng.Range(0, 3)
			if x == 0 && y == 0 {
				y = 1
			}
			spec := fmt.Sprintf("panes %d,%d,%d", rng.Pick2([]int{1, 1, 1, 0, 0, 2}), x, y)
			if rng.Chance(40) {
				spec += fmt.Sprintf(",%d", rng.Range(1, 2))
			}
			pre = append(pre, spec)
		}
	}
	merges := []string{}
	if rng.Chance(45) {
		for i := rng.Range(1, 3); i > 0; i-- {
			c0, r0 := 200+5*i, rng.Range(1, 30) // away from the written cells: the in-memory API redirects writes under a merge to its top-left cell
			merges = append(merges, "merge "+hx(c11cell(c0, r0))+" "+hx(c11cell(c0+rng.Range(0, 3), r0+rng.Range(0, 2))))
		}
		if rng.Chance(10) {
			merges = append(merges, "merge "+hx("A")+" "+hx("B2"))
		}
	}
	// shuffle pre
	for i := len(pre) - 1; i > 0; i-- {
		j := rng.Intn(i + 1)
		pre[i], pre[j] = pre[j], pre[i]
	}
	late := []string{}
	for _, p := range pre {
		if rng.Chance(12) {
			late = append(late, p)
		} else {
			lines = append(lines, p)
		}
	}
	mergeAt := map[int][]string{}
	nRows := rng.Range(1, 8)
	for _, m := range merges {
		k := rng.Range(0, nRows)
		mergeAt[k] = append(mergeAt[k], m)
	}
	row, prevWidth := 0, 0
	for i := 0; i < nRows; i++ {
		lines = append(lines, mergeAt[i]...)
		if i == 1 {
			lines = append(lines, late...)
			late = nil
		}
		if rng.Chance(18) {
			lines = append(lines, c11genBadRow(rng, rich, row, nStyles))
		}
		// next valid row: gaps, far rows. The in-memory API pre-allocates every missing row with the
		// capacity of the last existing one, so far jumps are only made after a narrow row.
		switch {
		case rng.Chance(70) || prevWidth > 8:
			row++
		case rng.Chance(80):
			row += rng.Range(2, 9)
		default:
			row += rng.Pick2([]int{1000, 1000, 3000, 1000, 1000, 500, 2000, 20000})
		}
		col := 1
		switch {
		case rng.Chance(25):
			col = rng.Range(2, 9)
		case rng.Chance(6):
			col = rng.Pick2([]int{26, 27, 702, 703})
		case i == nRows-1 && rng.Chance(12):
			// far columns only on the last row: excelize sizes every later row after the widest one
			col = rng.Pick2([]int{16384, 16380, 16383})
		}
		n := rng.Range(0, 6)
		if rng.Chance(5) {
			n = rng.Range(30, 120) // wide row
		}
		if col+n-1 > 16384 {
			n = 16384 - col + 1
		}
		items := []string{}
		for j := 0; j < n; j++ {
			items = append(items, c11genItem(rng, rich, nStyles))
		}
		if rng.Chance(5) && col+n <= 16384+3 {
			items = append(items, "n", "n") // trailing nils may run past the grid
		}
		lines = append(lines, strings.TrimSpace("setrow "+hx(c11cell(col, row))+" "+c11genOpts(rng, nStyles)+" "+strings.Join(items, " ")))
		prevWidth = col + len(items)
		if n > 0 && col+n+2 <= 16384 && rng.Chance(12) {
			// a merge anchored at the row's last cell, extending over unwritten cells to its right
			lines = append(lines, "merge "+hx(c11cell(col+n-1, row))+" "+hx(c11cell(col+n+1, row)))
		}
		if rng.Chance(6) && kind == "model" {
			lines = append(lines, "reader")
		}
	}
	lines = append(lines, mergeAt[nRows]...)
	lines = append(lines, late...)
	if rng.Chance(12) {
		lines = append(lines, c11genBadRow(rng, rich, row, nStyles))
	}
	if rich && rng.Chance(30) {
		lines = append(lines, "pagebreak "+hx(c11cell(rng.Range(1, 4), rng.Range(2, 6))))
	}
	lines = append(lines, "flush")
	return lines
}

// a table case: header row of distinct strings, a few data rows, AddTable, flush
func c11genTableCase(rng *Rng, big bool) []string {
	lines := []string{"case rich 1"}
	col := rng.Range(1, 4)
	n := rng.Range(2, 5)
	hdr := []string{}
	for j := 0; j < n; j++ {
		hdr = append(hdr, "s"+hx(fmt.Sprintf("H%d", j)))
	}
	lines = append(lines, "setrow "+hx(c11cell(col, 1))+" - "+strings.Join(hdr, " "))
	rows := rng.Range(1, 4)
	for r := 2; r <= 1+rows; r++ {
		it := []string{}
		for j := 0; j < n; j++ {
			it = append(it, "i"+strconv.Itoa(r*10+j))
		}
		lines = append(lines, "setrow "+hx(c11cell(col, r))+" - "+strings.Join(it, " "))
	}
	if rng.Chance(30) {
		lines = append(lines, c11genBadRow(rng, false, 1+rows, 1))
	}
	lines = append(lines, "table "+hx(c11cell(col, 1)+":"+c11cell(col+n-1, 1+rows)))
	lines = append(lines, "flush")
	return lines
}

// a volume case: long strings; total streamed bytes ≈ target
func c11genBigCase(rng *Rng, target int, withTable bool) []string {
	lines := []string{"case big 1"}
	if rng.Bool() {
		lines = append(lines, "colwidth 1 3 80")
	}
	per := 32000
	cellsPerRow := rng.Range(8, 20)
	rowBytes := per * cellsPerRow
	rows := target / rowBytes
	rem := target - rows*rowBytes
	row := 0
	if withTable {
		row++
		hdr := []string{}
		for j := 0; j < cellsPerRow; j++ {
			hdr = append(hdr, "s"+hx(fmt.Sprintf("H%d", j)))
		}
		lines = append(lines, "setrow "+hx(c11cell(1, row))+" - "+strings.Join(hdr, " "))
	}
	for i := 0; i < rows; i++ {
		row += rng.Range(1, 2)
		items := []string{}
		for j := 0; j < cellsPerRow; j++ {
			items = append(items, fmt.Sprintf("Z%d,%s", per, hx(string(rune('a'+(i+j)%26)))))
		}
		lines = append(lines, "setrow "+hx(c11cell(1, row))+" - "+strings.Join(items, " "))
		if i == rows/2 {
			lines = append(lines, c11genBadRow(rng, false, row, 1))
			lines = append(lines, "merge "+hx("AZ1")+" "+hx("BA2")) // away from the data (see c11genCase)
		}
	}
	if rem > 200 {
		row++
		lines = append(lines, "setrow "+hx(c11cell(1, row))+" - "+fmt.Sprintf("Z%d,%s", min(rem-150, 32767), hx("z"))+" i7")
	}
	row++
	lines = append(lines, "setrow "+hx(c11cell(2, row))+" 1,60,0,0 i1 s"+hx("tail")+" b1")
	if withTable {
		lines = append(lines, "table "+hx("A1:"+c11cell(cellsPerRow, 3)))
	}
	lines = append(lines, "flush")
	return lines
}

// deterministic witnesses (reconnaissance of DESIGN.md section 6 and what the first runs found)
func c11witnesses() [][]string {
	return [][]string{
		{"case model 0", "setrow " + hx("A1") + " - i1 i2", "setrow " + hx("XFD2") + " - i1 i2", "flush"},
		{"case model 0", "setrow " + hx("A1") + " - i1 i2", "setrow " + hx("XFD2") + " - i1 i2", "setrow " + hx("A3") + " - i7", "flush"},
		{"case model 1", "colstyle 1 1 1", "setrow " + hx("A1") + " - i1 i2 i3", "setrow " + hx("B2") + " - i1 i2", "flush"},
		{"case model 0", "setrow " + hx("A1") + " - i1", "setrow " + hx("A2") + " 0,2000,0,0 i5", "setrow " + hx("A2") + " - i5", "flush"},
		{"case model 0", "setrow " + hx("A1") + " 0,2000,0,0 i5", "colwidth 1 1 80", "setrow " + hx("A1") + " - i6", "flush"},
		{"case model 0", "setrow " + hx("A1") + " - i1", "setrow " + hx("A2") + " - i2 RE i3", "setrow " + hx("A2") + " - i4", "flush"},
		{"case model 0", "setrow " + hx("A1") + " - s" + hx("_x0041_") + " s" + hx("plain"), "flush"},
		// characters outside XML 1.0, carriage returns and escape look-alikes through both APIs
		{"case model 1", "setrow " + hx("A1") + " - s" + hx("x\x01y") + " s" + hx("a\r\nb") + " C1," + hx("A1&\"x\"") + ",s" + hx("f\x07\uFFFE") + " s" + hx("_x0041\x01") + " R" + hx("r\x02") + "~" + hx("\rq"), "flush"},
		{"case rich 0", "setrow " + hx("A1") + " - s" + hx("a\xffb") + " y" + hx("\xc3") + " s" + hx("ok"), "flush"},
		// the last row of the grid, once per run (the in-memory twin materialises a million row slots)
		{"case model 1", "setrow " + hx("A1") + " - i1", "setrow " + hx("B1048576") + " 1,60,0,0 i2 s" + hx("last") + " n C1," + hx("A1+1") + ",n", "setrow " + hx("A1048577") + " - i3", "flush"},
		// worksheet-level settings made before NewStreamWriter: the x14 half of a data bar lives in extLst
		{"case rich 0 x14", "setrow " + hx("A1") + " - i1 i5", "setrow " + hx("A2") + " - i7 i3", "flush"},
		{"case rich 0 x14", "setrow " + hx("A1") + " - s" + hx("h1") + " s" + hx("h2"), "setrow " + hx("A2") + " - i7 i3", "table " + hx("A1:B2"), "flush"},
		{"case rich 0 x14t", "setrow " + hx("A1") + " - s" + hx("h1") + " s" + hx("h2"), "setrow " + hx("A2") + " - i7 i3", "table " + hx("A1:B2"), "flush"},
		{"case rich 0 x14t", "setrow " + hx("A1") + " - i1", "flush"},
		// row style x column style x cell style on the same cells (row beats column, cell beats both)
		{"case model 3", "colstyle 2 4 1", "setrow " + hx("A1") + " 2,0,0,0 i1 i2 C3,-,i3 C0,-,i4 n i6", "setrow " + hx("B2") + " - i1 C3,-,i2 C0,-,i3 i4", "flush"},
		// a rejected FIRST row after column widths and panes, then accepted rows
		{"case model 0", "colwidth 1 2 80", "panes 1,0,1", "setrow " + hx("XFD1") + " - i1 i2", "setrow " + hx("A1") + " 0,2000,0,0 i1", "setrow " + hx("A1") + " - i1 i2", "setrow " + hx("A2") + " - i3", "flush"},
		// a FIRST row rejected mid-way by an over-long rich text (cells already written, pre-data written, latch set,
		// all rolled back), then the same row number accepted, another row, Flush
		{"case model 0", "setrow " + hx("A1") + " - i2 RE i3", "setrow " + hx("A1") + " - i4", "setrow " + hx("B2") + " - i5", "flush"},
		// Cell / *Cell carrying a formula AND a cached value of every kind (string, []byte, bool, numbers, nil)
		{"case model 1", "setrow 4131 - C0,413226227922,s7879 P0,555050455228222078202229,y205820 C0,313e32,b0 P1,323e31,b1 C0,322b33,i5 P0,322b33,u5 C1,312f34,F3fd0000000000000 C0,4e4f572829,n P0,4131,s- C0,4231,s3c6126623e0d0a", "flush"},
		{"case model 0", "setrow 4131 - C0,4132,s615f78303030445f62 C0,4132,y780779", "flush"},
		// times and durations in the 1904 date system (1904-01-01 12:00 is serial 0.5 there, 1462.5 in the 1900 system)
		{"case model 1 d1904", "setrow " + hx("A1") + " - t-2082801600,0 t-2082844800,0 t1700000000,500000000 C1,-,t1700000000,0 d5400000000000 C0," + hx("A1+1") + ",d90000000000000", "flush"},
		{"case model 0", "flush"},
		{"case model 0", "merge " + hx("A1") + " " + hx("B2"), "flush"},
	}
}

func runC11(r *Run, rng *Rng, replay string) {
	r.Rule = "one case = one call script run through StreamWriter and, independently, through the in-memory API on a twin file; both saved, reopened and compared cell for cell (value, kind, formula, style, row/column attributes, merges, panes, tables). non-trivial = at least one row accepted by the stream writer; distinct by script text"
	if replay != "" {
		var cur []string
		flushCase := func() {
			if len(cur) > 0 {
				c11RunCase(r, cur)
			}
			cur = nil
		}
		for _, l := range readLines(replay) {
			l = strings.TrimSpace(l)
			if l == "" || strings.HasPrefix(l, "#") {
				continue
			}
			if strings.HasPrefix(l, "case ") {
				flushCase()
			}
			cur = append(cur, l)
		}
		flushCase()
		return
	}
	thorough := r.Tier == "thorough"
	for _, w := range c11witnesses() {
		c11RunCase(r, w)
	}
	debug.FreeOSMemory()
	nModel, nRich, nTable := 260, 110, 12
	if thorough {
		nModel, nRich, nTable = 2000, 1000, 60
	}
	for i := 0; i < nModel; i++ {
		c11RunCase(r, c11genCase(rng, "model"))
		if i%200 == 199 {
			debug.FreeOSMemory()
		}
	}
	for i := 0; i < nRich; i++ {
		c11RunCase(r, c11genCase(rng, "rich"))
	}
	for i := 0; i < nTable; i++ {
		c11RunCase(r, c11genTableCase(rng, false))
	}
	// volumes on both sides of the spill threshold
	chunk := xl.StreamChunkSize
	vols := []int{chunk - 600000, chunk + 300000, chunk + 900000}
	if thorough {
		vols = append(vols, chunk-40000, chunk+40000, 2*chunk+500000, chunk/2)
	}
	for i, v := range vols {
		c11RunCase(r, c11genBigCase(rng, v, i%2 == 1))
		debug.FreeOSMemory()
	}
	for _, s := range r.opsSample(8) {
		if len(s) > 300 {
			s = s[:300] + "…"
		}
		r.Sample(s)
	}
	r.Notes = append(r.Notes, fmt.Sprintf("volumes (bytes of long-string payload): %v; StreamChunkSize=%d", vols, chunk))
}

var c11a1Strict = regexp.MustCompile(`^\$?([A-Za-z]+)\$?([0-9]+)$`)

// c11specA1: strict reading of "A1-style reference inside the grid" (same rule as the C20 harness).
func c11specA1(s string) (int, int, bool) {
	m := c11a1Strict.FindStringSubmatch(s)
	if m == nil {
		return 0, 0, false
	}
	letters, digits := strings.ToUpper(m[1]), strings.TrimLeft(m[2], "0")
	if len(letters) > 3 || len(digits) == 0 || len(digits) > 7 {
		return 0, 0, false
	}
	col := 0
	for _, ch := range letters {
		col = col*26 + int(ch-'A'+1)
	}
	row, _ := strconv.Atoi(digits)
	if col < 1 || col > 16384 || row < 1 || row > 1048576 {
		return 0, 0, false
	}
	return col, row, true
}
