//go:build verif_c12

package main

// C12 — opening is independent of the unzip/memory limits and cleans up its temp files.
//
// A *case* is (workbook, UnzipXMLSizeLimit, UnzipSizeLimit, history). Transcript
// lines (see lean/XlModel/Drv/C12.lean):
//
//   case <book> <xml> <size> <history> [<iterator script>|- [<shared-string script>]]   header (answer: "case")
//   open <xml> <size> <k> (<name> <declared> <dir> <io> <len> <tag>)*k
//   getmiss|getnum|setnum|setstr <part>       API call touching one worksheet
//   getstr <part> <flatlen> <flattag>         GetCellValue of a shared-string cell
//   rich <part> <isS>                         GetCellRichText
//   rows <part> <serlen> <sertag> <hasRow> <hasStr> <flatlen> <flattag>
//   rb <part> | sstload                       readBytes / sharedStringsLoader through hooks
//   save <law> <k> (<name> <len> <tag>)*k <sstlen> <ssttag> <m> (<name> <len> <tag>)*m
//   close
//
// The answer to every line is a dump of the real store (Pkg / tempFiles with
// the content digests of the files on disk / decoded sheets / flags / number
// of files in the private TMPDIR) followed by the harness's own abstraction
// "what would a reader of this part get", which the Lean side compares with
// Impl and Spec respectively.
//
// Direct oracles (no model involved): twin runs of the same history under the
// case's limits and under the default limits must give the same observation
// (all cells raw + formatted, formulas, styles, merges, rich text, sheet
// list, streaming rows) at the end of the history, after every step, and
// after save + reopen; the abstraction line must be equal step by step; the
// private TMPDIR must be empty after Close and after a failed open.

import (
	"archive/zip"
	"bytes"
	"crypto/sha1"
	"encoding/hex"
	"errors"
	"fmt"
	"hash/crc32"
	"io"
	"os"
	"path/filepath"
	"sort"
	"strconv"
	"strings"

	xl "github.com/xuri/excelize/v2"
)

func init() { props["C12"] = runC12 }

var c12SST, c12CT, c12SSTKey = xl.VerifC12Names()

// ---------- canonical text ----------

func c12Esc(s string) string {
	if s == "" {
		return "-"
	}
	var b strings.Builder
	for i := 0; i < len(s); i++ {
		c := s[i]
		if c < 128 && (c >= 'a' && c <= 'z' || c >= 'A' && c <= 'Z' || c >= '0' && c <= '9' || strings.IndexByte("_./[]-", c) >= 0) {
			b.WriteByte(c)
		} else {
			fmt.Fprintf(&b, "%%%02x", c)
		}
	}
	return b.String()
}

func c12Unesc(s string) string {
	if s == "-" {
		return ""
	}
	var b strings.Builder
	for i := 0; i < len(s); i++ {
		if s[i] == '%' && i+2 < len(s) {
			v, _ := strconv.ParseUint(s[i+1:i+3], 16, 8)
			b.WriteByte(byte(v))
			i += 2
		} else {
			b.WriteByte(s[i])
		}
	}
	return b.String()
}

type c12Blob struct {
	n   int
	tag string
}

func c12B(b []byte) c12Blob {
	if len(b) == 0 {
		return c12Blob{0, "-"}
	}
	h := sha1.Sum(b)
	return c12Blob{len(b), hex.EncodeToString(h[:4])}
}
func (b c12Blob) op() string { return fmt.Sprintf("%d %s", b.n, b.tag) }
func (b c12Blob) show() string {
	if b.n == 0 {
		return "0."
	}
	return fmt.Sprintf("%d.%s", b.n, b.tag)
}

func c12TmpCount() int {
	es, _ := os.ReadDir(os.TempDir())
	return len(es)
}

func c12ShowMap(m map[string]string) string {
	ks := make([]string, 0, len(m))
	for k := range m {
		ks = append(ks, k)
	}
	sort.Strings(ks)
	var b strings.Builder
	for i, k := range ks {
		if i > 0 {
			b.WriteByte(' ')
		}
		b.WriteString(c12Esc(k) + ":" + m[k])
	}
	return b.String()
}

// c12Dump renders the store and the abstraction. taint masks the shared strings part in the abstraction.
func c12Dump(f *xl.File, taint bool) (impl, abs string) {
	st := xl.VerifC12Dump(f)
	p, t, a := map[string]string{}, map[string]string{}, map[string]string{}
	tc := map[string][]byte{}
	for k, path := range st.Temp {
		b, err := os.ReadFile(path)
		if err != nil {
			t[k] = "gone"
			continue
		}
		tc[k] = b
		t[k] = c12B(b).show()
	}
	for k, v := range st.Pkg {
		p[k] = c12B(v).show()
		if len(v) != 0 {
			a[k] = c12B(v).show()
		} else if tb, ok := tc[k]; ok {
			a[k] = c12B(tb).show()
		} else {
			a[k] = c12B(v).show()
		}
	}
	for k, tb := range tc {
		if _, ok := st.Pkg[k]; !ok && k != c12SSTKey {
			a[k] = c12B(tb).show()
		}
	}
	if taint {
		if _, ok := a[c12SST]; ok {
			a[c12SST] = "*"
		}
	}
	ls := make([]string, len(st.Loaded))
	for i, n := range st.Loaded {
		ls[i] = c12Esc(n)
	}
	bi := func(b bool) string {
		if b {
			return "1"
		}
		return "0"
	}
	impl = fmt.Sprintf("P[%s] T[%s] L[%s] s%s i%s f%d", c12ShowMap(p), c12ShowMap(t), strings.Join(ls, " "), bi(st.SSTLoaded), bi(st.SSTTemp != ""), c12TmpCount())
	abs = "A[" + c12ShowMap(a) + "]"
	return
}

// ---------- workbooks ----------

type c12Sheet struct {
	name, path     string
	num, str, rich string // cells: numeric, shared string, rich text ("" = none)
	hasStr         bool
}

type c12Book struct {
	id     string
	data   []byte
	sheets []c12Sheet
	parts  []string // all part names (as the store names them), for rb
	total  int64
	sizes  []int64 // declared sizes of spillable parts
	prefix []int64 // prefix sums of declared sizes
	nEntry int
	neg    bool // some entry declares >= 2^63 bytes (negative FileInfo().Size())
	ok     bool // opens under default limits
}

// c12Gen builds a workbook with excelize itself.
func c12Gen(seed uint64) []byte {
	rng := NewRng(seed)
	f := xl.NewFile()
	defer f.Close()
	ns := rng.Range(1, 4)
	st1, _ := f.NewStyle(&xl.Style{NumFmt: 2, Font: &xl.Font{Bold: true}})
	st2, _ := f.NewStyle(&xl.Style{NumFmt: 14, Fill: xl.Fill{Type: "pattern", Pattern: 1, Color: []string{"FFEE00"}}})
	words := []string{"alpha", " lead", "trail ", "a<b&c>\"d\"", "multi\nline", "ünï", "x_x000D_y", "", "12", "TRUE", "日本語", "tab\there"}
	for s := 0; s < ns; s++ {
		name := "Sheet1"
		if s > 0 {
			name = fmt.Sprintf("S %d&", s+1)
			f.NewSheet(name)
		}
		rows := rng.Pick2([]int{1, 3, 12, 40, 120})
		noStr := s > 0 && rng.Chance(25)
		for r := 1; r <= rows; r++ {
			f.SetCellValue(name, fmt.Sprintf("A%d", r), r*7-rng.Intn(5))
			if !noStr {
				w := words[rng.Intn(len(words))]
				if rng.Chance(50) {
					w = fmt.Sprintf("%s-%d", w, rng.Intn(20))
				}
				if r == 1 && w == "" {
					w = "first"
				}
				f.SetCellStr(name, fmt.Sprintf("B%d", r), w)
			}
			if rng.Chance(40) {
				f.SetCellFormula(name, fmt.Sprintf("C%d", r), fmt.Sprintf("A%d*2+SUM(A1:A%d)", r, r))
			}
			if rng.Chance(40) {
				f.SetCellValue(name, fmt.Sprintf("D%d", r), float64(r)+0.125)
				f.SetCellStyle(name, fmt.Sprintf("D%d", r), fmt.Sprintf("D%d", r), rng.Pick2([]int{st1, st2}))
			}
			if rng.Chance(10) {
				f.SetCellValue(name, fmt.Sprintf("F%d", r), rng.Bool())
			}
		}
		if !noStr {
			f.SetCellRichText(name, "E1", []xl.RichTextRun{
				{Text: "bold", Font: &xl.Font{Bold: true}}, {Text: fmt.Sprintf(" and plain %d", s)},
				{Text: " red ", Font: &xl.Font{Color: "FF0000", Italic: true}}})
		}
		if rows >= 3 {
			f.MergeCell(name, "G1", "H2")
			if rng.Bool() {
				f.MergeCell(name, "A3", "B3")
			}
		}
		if rng.Chance(30) {
			f.SetColWidth(name, "A", "B", 17.5)
			f.SetRowHeight(name, 1, 30)
		}
	}
	if rng.Chance(30) {
		f.SetDefinedName(&xl.DefinedName{Name: "Amount", RefersTo: "Sheet1!$A$1:$A$3"})
	}
	buf, err := f.WriteToBuffer()
	must(err)
	return buf.Bytes()
}

type c12Raw struct {
	name    string
	content []byte
	mode    int // 0 deflate, 1 store, 2 unsupported method, 3 bad crc, 4 directory
}

func c12ReadRaw(data []byte) []c12Raw {
	zr, err := zip.NewReader(bytes.NewReader(data), int64(len(data)))
	must(err)
	var out []c12Raw
	for _, e := range zr.File {
		rc, err := e.Open()
		must(err)
		b, _ := io.ReadAll(rc)
		rc.Close()
		out = append(out, c12Raw{name: e.Name, content: b})
	}
	return out
}

func c12WriteRaw(es []c12Raw) []byte {
	var buf bytes.Buffer
	zw := zip.NewWriter(&buf)
	for _, e := range es {
		switch e.mode {
		case 0:
			w, err := zw.Create(e.name)
			must(err)
			w.Write(e.content)
		case 1:
			w, err := zw.CreateHeader(&zip.FileHeader{Name: e.name, Method: zip.Store})
			must(err)
			w.Write(e.content)
		case 2:
			w, err := zw.CreateRaw(&zip.FileHeader{Name: e.name, Method: 99, CRC32: crc32.ChecksumIEEE(e.content),
				CompressedSize64: uint64(len(e.content)), UncompressedSize64: uint64(len(e.content))})
			must(err)
			w.Write(e.content)
		case 3:
			w, err := zw.CreateRaw(&zip.FileHeader{Name: e.name, Method: zip.Store, CRC32: crc32.ChecksumIEEE(e.content) ^ 1,
				CompressedSize64: uint64(len(e.content)), UncompressedSize64: uint64(len(e.content))})
			must(err)
			w.Write(e.content)
		case 4:
			_, err := zw.Create(e.name)
			must(err)
		case 5:
			// declared uncompressed size >= 2^63: FileInfo().Size() is negative
			w, err := zw.CreateRaw(&zip.FileHeader{Name: e.name, Method: zip.Store, CRC32: crc32.ChecksumIEEE(e.content),
				CompressedSize64: uint64(len(e.content)), UncompressedSize64: 1<<63 + 5})
			must(err)
			w.Write(e.content)
		}
	}
	must(zw.Close())
	return buf.Bytes()
}

var c12Variants = []string{"plain", "backslash", "upper", "dirs", "stored-reordered", "badmethod", "badcrc", "dup", "sstkey", "sheets-last", "negsize"}

func c12IsSheetName(n string) bool {
	return strings.HasPrefix(strings.ToLower(strings.ReplaceAll(n, "\\", "/")), "xl/worksheets/sheet")
}

func c12ApplyVariant(data []byte, variant string, seed uint64) []byte {
	if variant == "plain" {
		return data
	}
	rng := NewRng(seed ^ 0xabcdef)
	es := c12ReadRaw(data)
	switch variant {
	case "backslash":
		for i := range es {
			if c12IsSheetName(es[i].name) || rng.Chance(30) {
				es[i].name = strings.ReplaceAll(es[i].name, "/", "\\")
			}
		}
	case "upper":
		for i := range es {
			l := strings.ToLower(es[i].name)
			if l == "xl/sharedstrings.xml" || l == "[content_types].xml" {
				es[i].name = strings.ToUpper(es[i].name)
			}
		}
	case "dirs":
		es = append([]c12Raw{{name: "xl/", mode: 4}, {name: "xl/worksheets/", mode: 4}}, es...)
		es = append(es, c12Raw{name: "xl/worksheets/sheetdir/", mode: 4})
	case "stored-reordered":
		for i := range es {
			es[i].mode = 1
		}
		for i := len(es) - 1; i > 0; i-- {
			j := rng.Intn(i + 1)
			es[i], es[j] = es[j], es[i]
		}
	case "sheets-last":
		sort.SliceStable(es, func(i, j int) bool { return !c12IsSheetName(es[i].name) && c12IsSheetName(es[j].name) })
	case "badmethod":
		bad := c12Raw{name: rng.Pick([]string{"docProps/junk.bin", "xl/worksheets/sheet99.xml", "xl/media/image1.png"}), content: bytes.Repeat([]byte("junk"), 50), mode: 2}
		pos := rng.Intn(len(es) + 1)
		if rng.Chance(50) {
			pos = len(es)
		}
		es = append(es[:pos], append([]c12Raw{bad}, es[pos:]...)...)
	case "badcrc":
		for i := range es {
			if c12IsSheetName(es[i].name) && (rng.Bool() || strings.HasSuffix(es[i].name, "sheet1.xml")) {
				es[i].mode = 3
			}
		}
	case "dup":
		var out []c12Raw
		for _, e := range es {
			out = append(out, e)
			if strings.HasSuffix(e.name, "sheet1.xml") {
				// the second copy differs in its first cell value and is one byte longer
				out = append(out, c12Raw{name: strings.ReplaceAll(e.name, "/", "\\"), content: bytes.Replace(e.content, []byte("<v>"), []byte("<v>9"), 1)})
			}
		}
		es = out
	case "negsize":
		// an entry declaring 2^63+5 bytes at a random position (first for even seeds): rejected by the size guard;
		// whatever was spilled before it must be cleaned up
		neg := c12Raw{name: "docProps/neg.bin", content: []byte("x"), mode: 5}
		pos := 0
		if seed%2 == 1 {
			pos = rng.Intn(len(es) + 1)
		}
		es = append(es[:pos], append([]c12Raw{neg}, es[pos:]...)...)
	case "sstkey":
		es = append(es, c12Raw{name: c12SSTKey, content: []byte("not a part")})
	}
	return c12WriteRaw(es)
}

func c12Digest(b []byte) string { h := sha1.Sum(b); return hex.EncodeToString(h[:6]) }

// c12MakeBook builds a workbook from its id: gen:<seed>:<variant> or fix:<file>:<variant>.
func c12MakeBook(id string) (*c12Book, error) {
	p := strings.SplitN(id, ":", 3)
	if len(p) != 3 {
		return nil, fmt.Errorf("bad book id %q", id)
	}
	var data []byte
	var seed uint64
	switch p[0] {
	case "gen":
		seed, _ = strconv.ParseUint(p[1], 10, 64)
		data = c12Gen(seed)
	case "fix":
		b, err := os.ReadFile(filepath.Join(c12RepoDir(), "test", p[1]))
		if err != nil {
			return nil, err
		}
		data = b
		seed = uint64(len(b))
	default:
		return nil, fmt.Errorf("bad book id %q", id)
	}
	data = c12ApplyVariant(data, p[2], seed)
	bk := &c12Book{id: id, data: data}
	zr, err := zip.NewReader(bytes.NewReader(data), int64(len(data)))
	if err != nil {
		return nil, err
	}
	bk.nEntry = len(zr.File)
	for _, e := range zr.File {
		sz := e.FileInfo().Size()
		bk.total += sz
		if sz < 0 {
			bk.neg = true
		}
		bk.prefix = append(bk.prefix, bk.total)
		n := strings.ReplaceAll(e.Name, "\\", "/")
		if c12IsSheetName(n) || strings.EqualFold(n, c12SST) {
			bk.sizes = append(bk.sizes, sz)
		}
	}
	// reference open: targets
	f, err := c12Open(data, 0, 0)
	if f == nil {
		return bk, nil
	}
	_ = err
	defer f.Close()
	bk.ok = true
	st := xl.VerifC12Dump(f)
	for k := range st.Pkg {
		bk.parts = append(bk.parts, k)
	}
	sort.Strings(bk.parts)
	for _, name := range f.GetSheetList() {
		path, ok := xl.VerifC12SheetPath(f, name)
		if !ok || !strings.HasPrefix(path, "xl/worksheets/") {
			continue
		}
		sh := c12Sheet{name: name, path: path}
		sh.hasStr = bytes.Contains(xl.VerifC12ReadXML(f, path), []byte(`t="s"`))
		rows, err := f.GetRows(name, xl.Options{RawCellValue: true})
		if err == nil {
		scan:
			for ri, row := range rows {
				if ri > 60 {
					break
				}
				for ci, v := range row {
					if v == "" || ci > 30 {
						continue
					}
					cell, _ := xl.CoordinatesToCellName(ci+1, ri+1)
					ty, _ := f.GetCellType(name, cell)
					switch {
					case ty == xl.CellTypeSharedString && sh.str == "":
						sh.str = cell
					case ty == xl.CellTypeSharedString && sh.rich == "":
						if runs, _ := f.GetCellRichText(name, cell); len(runs) > 1 {
							sh.rich = cell
						}
					case (ty == xl.CellTypeNumber || ty == xl.CellTypeUnset) && sh.num == "":
						sh.num = cell
					}
					if sh.num != "" && sh.str != "" && sh.rich != "" {
						break scan
					}
				}
			}
		}
		bk.sheets = append(bk.sheets, sh)
	}
	return bk, nil
}

func c12RepoDir() string {
	if d := os.Getenv("VERIF_REPO"); d != "" {
		return d
	}
	return "/repo"
}

// c12Open opens with limits; returns (nil, err) exactly as OpenReader does; a panic is reported as errPanic.
var c12ErrPanic = errors.New("panic")

func c12Open(data []byte, xmlL, sizeL int64) (f *xl.File, err error) {
	defer func() {
		if p := recover(); p != nil {
			f, err = nil, c12ErrPanic
		}
	}()
	return xl.OpenReader(bytes.NewReader(data), xl.Options{UnzipXMLSizeLimit: xmlL, UnzipSizeLimit: sizeL})
}

// ---------- one case ----------

type c12Ctx struct {
	bk      *c12Book
	f       *xl.File
	dirty   bool
	taint   bool
	nWrite  int
	saveIdx int
	refSST  []c12Blob // per save: serialised shared strings of the reference run
	sstOut  []c12Blob // recorded by this run
	lastBuf []byte
}

func c12Guard(fn func()) (panicked bool) {
	defer func() {
		if p := recover(); p != nil {
			panicked = true
		}
	}()
	fn()
	return
}

func (c *c12Ctx) flat() c12Blob {
	st := xl.VerifC12Dump(c.f)
	if p, ok := st.Temp[c12SSTKey]; ok {
		b, _ := os.ReadFile(p)
		return c12B(b)
	}
	return c12Blob{0, "-"}
}

// exec runs one history token and returns (op line, extra prefix of the result). tok = kind[.sheetIdx]
func (c *c12Ctx) exec(tok string) (op string, pre string, panicked bool) {
	kind, arg := tok, 0
	if i := strings.IndexByte(tok, '.'); i >= 0 {
		kind = tok[:i]
		arg, _ = strconv.Atoi(tok[i+1:])
	}
	f := c.f
	var sh c12Sheet
	if len(c.bk.sheets) > 0 {
		sh = c.bk.sheets[arg%len(c.bk.sheets)]
	}
	part := c12Esc(sh.path)
	switch kind {
	case "getmiss":
		panicked = c12Guard(func() { f.GetCellValue(sh.name, "XFD1048576") })
		op = "getmiss " + part
	case "getnum":
		if sh.num == "" {
			return c.exec(fmt.Sprintf("getmiss.%d", arg))
		}
		panicked = c12Guard(func() { f.GetCellValue(sh.name, sh.num) })
		op = "getnum " + part
	case "getstr":
		if sh.str == "" {
			return c.exec(fmt.Sprintf("getnum.%d", arg))
		}
		panicked = c12Guard(func() { f.GetCellValue(sh.name, sh.str) })
		op = "getstr " + part + " " + c.flat().op()
	case "setnum":
		c.nWrite++
		panicked = c12Guard(func() { f.SetCellValue(sh.name, fmt.Sprintf("J%d", 900+c.nWrite), 1000+c.nWrite) })
		op = "setnum " + part
	case "setstr":
		c.nWrite++
		panicked = c12Guard(func() {
			f.SetCellStr(sh.name, fmt.Sprintf("K%d", 900+c.nWrite), fmt.Sprintf("new <string> %d ", c.nWrite))
		})
		c.dirty = true
		op = "setstr " + part
	case "rich":
		cell := sh.rich
		if cell == "" {
			cell = sh.str
		}
		isS := "1"
		if cell == "" {
			cell, isS = "XFD1048570", "0"
			if sh.num != "" {
				cell = sh.num
			}
		}
		panicked = c12Guard(func() { f.GetCellRichText(sh.name, cell) })
		op = "rich " + part + " " + isS
	case "rows":
		st0 := xl.VerifC12Dump(f)
		was := false
		for _, n := range st0.Loaded {
			if n == sh.path {
				was = true
			}
		}
		hasRow := false
		panicked = c12Guard(func() {
			rows, err := f.Rows(sh.name)
			if err != nil {
				return
			}
			for rows.Next() {
				hasRow = true
				rows.Columns()
			}
			rows.Close()
		})
		ser := c12Blob{0, "-"}
		if was {
			ser = c12B(xl.VerifC12Dump(f).Pkg[sh.path])
		}
		hr, hs := "0", "0"
		if hasRow {
			hr = "1"
		}
		if sh.hasStr && hasRow {
			hs = "1"
		}
		op = fmt.Sprintf("rows %s %s %s %s %s", part, ser.op(), hr, hs, c.flat().op())
	case "rb":
		names := append([]string{c12SST, "xl/nope.xml", c12CT}, c.bk.parts...)
		n := names[arg%len(names)]
		if n == c12SSTKey {
			n = c12SST
		}
		panicked = c12Guard(func() { xl.VerifC12ReadBytes(f, n) })
		op = "rb " + c12Esc(n)
	case "sstload":
		panicked = c12Guard(func() { xl.VerifC12SharedStringsLoader(f) })
		op = "sstload"
	case "save":
		st0 := xl.VerifC12Dump(f)
		pkg0 := map[string]c12Blob{}
		for k, v := range st0.Pkg {
			pkg0[k] = c12B(v)
		}
		_, abs0 := c12DumpRaw(f)
		var buf *bytes.Buffer
		panicked = c12Guard(func() { buf, _ = f.WriteToBuffer() })
		st1 := xl.VerifC12Dump(f)
		loaded := map[string]bool{}
		var ws []string
		for _, n := range st0.Loaded {
			loaded[n] = true
			ws = append(ws, fmt.Sprintf("%s %s", c12Esc(n), c12B(st1.Pkg[n]).op()))
		}
		own := c12Blob{0, "-"}
		if v, ok := st1.Pkg[c12SST]; ok {
			own = c12B(v)
		}
		c.sstOut = append(c.sstOut, own)
		sst := own
		if c.refSST != nil && c.saveIdx < len(c.refSST) {
			sst = c.refSST[c.saveIdx]
		}
		c.saveIdx++
		law := "1"
		if before, ok := abs0[c12SST]; ok && !c.dirty && before != sst.show() {
			law = "0"
			c.taint = true
		}
		var oth []string
		var names []string
		for k := range st1.Pkg {
			names = append(names, k)
		}
		sort.Strings(names)
		for _, k := range names {
			if loaded[k] || k == c12SST {
				continue
			}
			if _, sp := st0.Temp[k]; sp {
				continue
			}
			nb := c12B(st1.Pkg[k])
			if ob, ok := pkg0[k]; !ok || ob != nb {
				oth = append(oth, fmt.Sprintf("%s %s", c12Esc(k), nb.op()))
			}
		}
		op = fmt.Sprintf("save %s %d", law, len(ws))
		if len(ws) > 0 {
			op += " " + strings.Join(ws, " ")
		}
		op += fmt.Sprintf(" %s %d", sst.op(), len(oth))
		if len(oth) > 0 {
			op += " " + strings.Join(oth, " ")
		}
		pre = "Z[] "
		if buf != nil {
			c.lastBuf = append([]byte(nil), buf.Bytes()...)
			var zs []string
			if zr, err := zip.NewReader(bytes.NewReader(c.lastBuf), int64(len(c.lastBuf))); err == nil {
				for _, e := range zr.File {
					rc, err := e.Open()
					if err != nil {
						continue
					}
					b, _ := io.ReadAll(rc)
					rc.Close()
					zs = append(zs, c12Esc(e.Name)+":"+c12B(b).show())
				}
			}
			pre = "Z[" + strings.Join(zs, " ") + "] "
		}
	default:
		op = "unknown-" + kind
	}
	return
}

// c12DumpRaw returns the abstraction as a map (part -> blob text).
func c12DumpRaw(f *xl.File) (pkg map[string]string, abs map[string]string) {
	st := xl.VerifC12Dump(f)
	abs = map[string]string{}
	pkg = map[string]string{}
	for k, v := range st.Pkg {
		pkg[k] = c12B(v).show()
		if len(v) != 0 {
			abs[k] = pkg[k]
			continue
		}
		abs[k] = pkg[k]
		if p, ok := st.Temp[k]; ok {
			if b, err := os.ReadFile(p); err == nil {
				abs[k] = c12B(b).show()
			}
		}
	}
	for k, p := range st.Temp {
		if _, ok := st.Pkg[k]; ok || k == c12SSTKey {
			continue
		}
		if b, err := os.ReadFile(p); err == nil {
			abs[k] = c12B(b).show()
		}
	}
	return
}

func c12Entries(data []byte) (string, int) {
	zr, err := zip.NewReader(bytes.NewReader(data), int64(len(data)))
	if err != nil {
		return "", 0
	}
	var sb strings.Builder
	for _, e := range zr.File {
		dir, ioe := "0", "0"
		if e.FileInfo().IsDir() {
			dir = "1"
		}
		var content []byte
		rc, err := e.Open()
		if err != nil {
			ioe = "2"
		} else {
			var bb bytes.Buffer
			if _, err := io.Copy(&bb, rc); err != nil {
				ioe = "1"
			}
			rc.Close()
			content = bb.Bytes()
		}
		fmt.Fprintf(&sb, " %s %d %s %s %s", c12Esc(e.Name), e.FileInfo().Size(), dir, ioe, c12B(content).op())
	}
	return sb.String(), len(zr.File)
}

type c12Result struct {
	status   string   // ok | ERR | OPTERR | PANIC | NOFILE
	abs      []string // abstraction after each step (open, ops...), SST masked when tainted
	taint    bool
	spilled  int
	sstOut   []c12Blob
	left     int    // files left in TMPDIR at the end
	savedObs string // observation of the reopened file of the last save of the history
}

// c12Transcript runs one case with transcript lines. refSST: per-save SST serialisation of the reference run.
func c12Transcript(r *Run, bk *c12Book, xmlL, sizeL int64, hist []string, refSST []c12Blob, record bool) c12Result {
	res := c12Result{}
	emit := func(op, out string) int {
		if record {
			return r.Op(op, out)
		}
		return 0
	}
	base := c12TmpCount()
	ents, k := c12Entries(bk.data)
	f, err := c12Open(bk.data, xmlL, sizeL)
	opLine := fmt.Sprintf("open %d %d %d%s", xmlL, sizeL, k, ents)
	if f == nil {
		left := c12TmpCount() - base
		res.left = left
		switch {
		case err == c12ErrPanic:
			res.status = "PANIC"
			emit(opLine, fmt.Sprintf("PANIC f%d", left))
		case errors.Is(err, xl.ErrOptionsUnzipSizeLimit):
			res.status = "OPTERR"
			emit(opLine, "OPTERR")
		default:
			res.status = "ERR"
			emit(opLine, fmt.Sprintf("ERR f%d", left))
		}
		// leftovers of a failed open are removed by the harness so that later cases start clean
		c12CleanTmp()
		return res
	}
	res.status = "ok"
	c := &c12Ctx{bk: bk, f: f, refSST: refSST}
	impl, abs := c12Dump(f, false)
	res.spilled = len(xl.VerifC12Dump(f).Temp)
	emit(opLine, fmt.Sprintf("ok ws=%d %s | %s", f.SheetCount, impl, abs))
	res.abs = append(res.abs, abs)
	closed := false
	for _, tok := range hist {
		if tok == "close" {
			e := f.Close()
			eb := "0"
			if e != nil {
				eb = "1"
			}
			res.left = c12TmpCount() - base
			emit("close", fmt.Sprintf("closed err=%s f%d", eb, res.left))
			closed = true
			break
		}
		if len(bk.sheets) == 0 && tok != "save" && tok != "sstload" && !strings.HasPrefix(tok, "rb") {
			continue
		}
		op, pre, panicked := c.exec(tok)
		impl, abs := c12Dump(f, c.taint)
		if panicked {
			emit(op, "PANIC")
		} else {
			emit(op, pre+impl+" | "+abs)
		}
		res.abs = append(res.abs, abs)
	}
	if !closed {
		f.Close()
		res.left = c12TmpCount() - base
	}
	res.taint = c.taint
	res.sstOut = c.sstOut
	if c.lastBuf != nil {
		// the file written by the history's own last save (parts that were never touched are
		// written from their temp files), reopened under default limits
		if g, _ := c12Open(c.lastBuf, 0, 0); g != nil {
			res.savedObs = c12Observe(g)
			g.Close()
		} else {
			res.savedObs = "REOPEN-FAILED"
		}
	}
	c12CleanTmp()
	return res
}

func c12CleanTmp() {
	es, _ := os.ReadDir(os.TempDir())
	for _, e := range es {
		os.RemoveAll(filepath.Join(os.TempDir(), e.Name()))
	}
}

// ---------- observation (direct oracle) ----------

func c12Observe(f *xl.File) string {
	var sb strings.Builder
	defer func() {
		if p := recover(); p != nil {
			sb.WriteString("PANIC")
		}
	}()
	list := f.GetSheetList()
	fmt.Fprintf(&sb, "sheets=%q;", list)
	for _, dn := range f.GetDefinedName() {
		fmt.Fprintf(&sb, "dn=%s|%s|%s;", dn.Name, dn.RefersTo, dn.Scope)
	}
	for _, s := range list {
		fmt.Fprintf(&sb, "\n[%s]", s)
		rows, err := f.GetRows(s)
		fmt.Fprintf(&sb, "rows=%q err=%v;", rows, err != nil)
		raw, err := f.GetRows(s, xl.Options{RawCellValue: true})
		fmt.Fprintf(&sb, "raw=%q err=%v;", raw, err != nil)
		cols, err := f.GetCols(s)
		fmt.Fprintf(&sb, "cols=%d err=%v;", len(cols), err != nil)
		mc, _ := f.GetMergeCells(s)
		for _, m := range mc {
			fmt.Fprintf(&sb, "merge=%s:%s=%q;", m.GetStartAxis(), m.GetEndAxis(), m.GetCellValue())
		}
		n := 0
		for ri, row := range raw {
			for ci := range row {
				if n > 150 {
					break
				}
				n++
				cell, _ := xl.CoordinatesToCellName(ci+1, ri+1)
				v, _ := f.GetCellValue(s, cell)
				fm, _ := f.GetCellFormula(s, cell)
				st, _ := f.GetCellStyle(s, cell)
				ty, _ := f.GetCellType(s, cell)
				fmt.Fprintf(&sb, "%s=%q|%q|%d|%d", cell, v, fm, st, ty)
				if ty == xl.CellTypeSharedString || ty == xl.CellTypeInlineString {
					runs, _ := f.GetCellRichText(s, cell)
					for _, run := range runs {
						fmt.Fprintf(&sb, "{%q", run.Text)
						if run.Font != nil {
							fmt.Fprintf(&sb, " b%v i%v c%s", run.Font.Bold, run.Font.Italic, run.Font.Color)
						}
						sb.WriteString("}")
					}
				}
				if st != 0 {
					if sty, err := f.GetStyle(st); err == nil && sty != nil {
						fmt.Fprintf(&sb, "<nf%d", sty.NumFmt)
						if sty.Font != nil {
							fmt.Fprintf(&sb, " b%v", sty.Font.Bold)
						}
						fmt.Fprintf(&sb, " %v>", sty.Fill.Color)
					}
				}
				sb.WriteString(";")
			}
		}
		w, _ := f.GetColWidth(s, "A")
		h, _ := f.GetRowHeight(s, 1)
		dim, _ := f.GetSheetDimension(s)
		fmt.Fprintf(&sb, "w=%v h=%v dim=%s;", w, h, dim)
		res, _ := f.SearchSheet(s, "alpha", true)
		fmt.Fprintf(&sb, "search=%v;", res)
	}
	return sb.String()
}

// c12Plain runs the history without transcript; mode 0: observe at the end and after save+reopen;
// mode 1: observe after every step as well.
func c12Plain(bk *c12Book, xmlL, sizeL int64, hist []string, mode int) (obs []string, left int, status string) {
	base := c12TmpCount()
	f, err := c12Open(bk.data, xmlL, sizeL)
	if f == nil {
		left = c12TmpCount() - base
		c12CleanTmp()
		if err == c12ErrPanic {
			return nil, left, "PANIC"
		}
		return nil, left, "ERR"
	}
	c := &c12Ctx{bk: bk, f: f}
	if mode == 1 {
		obs = append(obs, "open:"+c12Observe(f))
	}
	for _, tok := range hist {
		if tok == "close" {
			break
		}
		if len(bk.sheets) == 0 && tok != "save" && tok != "sstload" && !strings.HasPrefix(tok, "rb") {
			continue
		}
		_, _, panicked := c.exec(tok)
		if panicked {
			obs = append(obs, tok+":PANIC")
		}
		if mode == 1 {
			obs = append(obs, tok+":"+c12Observe(f))
		}
	}
	obs = append(obs, "end:"+c12Observe(f))
	var buf *bytes.Buffer
	if !c12Guard(func() { buf, _ = f.WriteToBuffer() }) && buf != nil {
		data := append([]byte(nil), buf.Bytes()...)
		if g, _ := c12Open(data, 0, 0); g != nil {
			obs = append(obs, "reopened:"+c12Observe(g))
			g.Close()
		} else {
			obs = append(obs, "reopened:FAILED")
		}
	} else {
		obs = append(obs, "reopened:NOSAVE")
	}
	obs = append(obs, "after-save:"+c12Observe(f))
	f.Close()
	left = c12TmpCount() - base
	c12CleanTmp()
	return obs, left, "ok"
}

func c12FirstDiff(a, b []string) string {
	for i := range a {
		if i >= len(b) {
			return "length"
		}
		if a[i] != b[i] {
			x, y := a[i], b[i]
			j := 0
			for j < len(x) && j < len(y) && x[j] == y[j] {
				j++
			}
			lo := j - 60
			if lo < 0 {
				lo = 0
			}
			hx, hy := j+60, j+60
			if hx > len(x) {
				hx = len(x)
			}
			if hy > len(y) {
				hy = len(y)
			}
			tag := x
			if k := strings.IndexByte(x, ':'); k >= 0 {
				tag = x[:k]
			}
			return fmt.Sprintf("step %d (%s): %q vs reference %q", i, tag, x[lo:hx], y[lo:hy])
		}
	}
	if len(b) > len(a) {
		return "length"
	}
	return ""
}

// ---------- case driver ----------

type c12Ref struct {
	shscript []string    // sheet-operation script (c12_sheetops.go)
	shref    c12SheetRun // its run under default limits
	sb       *c12SBook   // shared-string view of the book (c12_sst.go)
	sscript  []string    // shared-string script
	sref     []string    // its outputs under default limits
	script   []string    // live-iterator script (c12_iter.go)
	iter     c12IterRun  // its run under default limits
	hist     string
	res      c12Result
	obs0     []string
	obs1     []string
	status   string
}

func c12FirstTouch(hist []string) string {
	for _, t := range hist {
		k := t
		if i := strings.IndexByte(t, '.'); i >= 0 {
			k = t[:i]
		}
		switch k {
		case "setnum", "setstr":
			return "write"
		case "rows":
			return "rows"
		case "save":
			return "save"
		case "getnum", "getstr", "getmiss", "rich":
			return "read"
		}
	}
	return "none"
}

func c12Case(r *Run, bk *c12Book, xmlL, sizeL int64, hist []string, ref *c12Ref, deep bool) {
	hs := strings.Join(hist, ",")
	header := fmt.Sprintf("case %s %d %d %s", c12Esc(bk.id), xmlL, sizeL, hs)
	if len(ref.script) > 0 || len(ref.sscript) > 0 || len(ref.shscript) > 0 {
		opt := func(x []string) string {
			if len(x) == 0 {
				return "-"
			}
			return strings.Join(x, ",")
		}
		header += " " + opt(ref.script) + " " + opt(ref.sscript) + " " + opt(ref.shscript)
	}
	r.Op(header, "case")
	res := c12Transcript(r, bk, xmlL, sizeL, hist, ref.res.sstOut, true)
	ft := c12FirstTouch(hist)
	r.Stat("open:" + res.status)
	r.Stat("first-touch:" + ft)
	if res.spilled > 0 {
		r.Stat("open:spilled-parts>0")
	}
	r.Case(header, res.spilled > 0 || res.status != "ok")
	variant := bk.id[strings.LastIndexByte(bk.id, ':')+1:]
	// oracle 1: temp dir
	if res.left != 0 {
		switch res.status {
		case "ok":
			sig := "tmp-left-after-close"
			if variant == "dup" {
				sig += ":duplicate-entry"
			}
			r.Fail(sig, fmt.Sprintf("%d temp file(s) remain in TMPDIR after Close (book %s, UnzipXMLSizeLimit=%d UnzipSizeLimit=%d)", res.left, bk.id, xmlL, sizeL), 0, header)
		case "ERR", "PANIC":
			r.Fail("tmp-left-after-failed-open", fmt.Sprintf("OpenReader returned (nil, err) but %d temp file(s) remain in TMPDIR (book %s, UnzipXMLSizeLimit=%d UnzipSizeLimit=%d)", res.left, bk.id, xmlL, sizeL), 0, header)
		}
	}
	// oracle 2: size limit verdict against the harness's own prefix sums
	if res.status == "ok" || res.status == "ERR" {
		effSize, effXML := sizeL, xmlL
		if effSize == 0 {
			effSize = int64(xl.UnzipSizeLimit)
			if effXML > effSize {
				effSize = effXML
			}
		}
		exceeds := bk.neg
		for _, p := range bk.prefix {
			if p > effSize {
				exceeds = true
			}
		}
		if exceeds && res.status == "ok" {
			r.Fail("limit-not-enforced", fmt.Sprintf("declared total %d exceeds UnzipSizeLimit=%d but the package was opened (book %s)", bk.total, sizeL, bk.id), 0, header)
		}
		if !exceeds && res.status == "ERR" && bk.ok && variant != "badmethod" {
			r.Fail("rejected-within-limit", fmt.Sprintf("declared total %d within UnzipSizeLimit=%d but the package was rejected (book %s)", bk.total, sizeL, bk.id), 0, header)
		}
	}
	if res.status != "ok" || ref.status != "ok" {
		return
	}
	// oracle 3: abstraction equal step by step to the reference run
	if variant != "dup" || true {
		for i := range res.abs {
			if i >= len(ref.res.abs) {
				break
			}
			a, b := res.abs[i], ref.res.abs[i]
			if res.taint || ref.res.taint {
				a, b = c12MaskSST(a), c12MaskSST(b)
			}
			if a != b {
				sig := "abs-differs-across-limits"
				if variant == "dup" {
					sig += ":duplicate-entry"
				}
				r.Fail(sig, fmt.Sprintf("part contents differ from the default-limit run at step %d (book %s, limits %d/%d): %s", i, bk.id, xmlL, sizeL, c12FirstDiff([]string{a}, []string{b})), 0, header)
				break
			}
		}
	}
	// oracle 3b: the file written by the history's last save, reopened, observed
	if res.savedObs != ref.res.savedObs {
		r.Fail("saved-file-differs:first-touch-"+ft, fmt.Sprintf("the file saved by the history reads differently from the one saved under default limits (book %s, limits %d/%d): %s", bk.id, xmlL, sizeL, c12FirstDiff([]string{"saved:" + res.savedObs}, []string{"saved:" + ref.res.savedObs})), 0, header)
	}
	// oracle 3c: live iterators interleaved with edits / readers / saves (only when something is spilled:
	// otherwise the run is the reference run)
	if res.spilled > 0 {
		c12IterOracle(r, bk, xmlL, sizeL, ref.script, ref.iter, header)
	}
	// oracle 3d + transcript: the shared-string table as an object (every case: the in-memory tier is modelled too)
	if ref.sb != nil && ref.sb.ok {
		c12SOracle(r, bk, ref.sb, xmlL, sizeL, ref.sscript, ref.sref, header)
	}
	// oracle 3e: sheet-collection operations and stream-writer rewrites (every case that opened)
	c12SheetOracle(r, bk, xmlL, sizeL, ref.shscript, ref.shref, header)
	// oracle 4: observations
	obs0, left0, _ := c12Plain(bk, xmlL, sizeL, hist, 0)
	if left0 != 0 {
		sig := "tmp-left-after-close"
		if variant == "dup" {
			sig += ":duplicate-entry"
		}
		r.Fail(sig, fmt.Sprintf("%d temp file(s) remain after Close in the observation run (book %s, limits %d/%d)", left0, bk.id, xmlL, sizeL), 0, header)
	}
	if d := c12FirstDiff(obs0, ref.obs0); d != "" {
		r.Fail(c12ObsSig(d, ft, variant), fmt.Sprintf("observation differs from the default-limit run (book %s, limits %d/%d, first touch by %s): %s", bk.id, xmlL, sizeL, ft, d), 0, header)
	}
	if deep {
		obs1, _, _ := c12Plain(bk, xmlL, sizeL, hist, 1)
		if d := c12FirstDiff(obs1, ref.obs1); d != "" {
			r.Fail(c12ObsSig(d, "every-step", variant), fmt.Sprintf("step-by-step observation differs from the default-limit run (book %s, limits %d/%d): %s", bk.id, xmlL, sizeL, d), 0, header)
		}
		r.Stat("oracle:step-observation")
	}
	r.Stat("oracle:twin-observation")
}

func c12ObsSig(diff, ft, variant string) string {
	sig := "obs-differs"
	if strings.Contains(diff, "{") && strings.Contains(diff, "|6") {
		// heuristic only for naming; the failure is reported either way
	}
	if variant == "dup" {
		return sig + ":duplicate-entry"
	}
	return sig + ":first-touch-" + ft
}

func c12MaskSST(a string) string {
	i := strings.Index(a, c12Esc(c12SST)+":")
	if i < 0 {
		return a
	}
	j := strings.IndexAny(a[i:], " ]")
	if j < 0 {
		return a
	}
	return a[:i] + c12Esc(c12SST) + ":*" + a[i+j:]
}

func c12MakeRef(bk *c12Book, hist []string, script []string, sb *c12SBook, sscript []string, shscript []string) *c12Ref {
	ref := &c12Ref{hist: strings.Join(hist, ","), script: script, sb: sb, sscript: sscript, shscript: shscript}
	if len(shscript) > 0 && bk.ok {
		ref.shref = c12RunSheetScript(nil, bk, 0, 0, shscript)
	}
	if sb != nil && sb.ok && len(sscript) > 0 {
		ref.sref, _ = c12SRun(nil, bk, sb, 0, 0, sscript)
	}
	if len(script) > 0 && bk.ok {
		ref.iter = c12RunIterScript(bk, 0, 0, script)
	}
	ref.res = c12Transcript(nil, bk, 0, 0, hist, nil, false)
	ref.status = ref.res.status
	if ref.status == "ok" {
		ref.obs0, _, _ = c12Plain(bk, 0, 0, hist, 0)
		ref.obs1, _, _ = c12Plain(bk, 0, 0, hist, 1)
	}
	return ref
}

var c12Kinds = []string{"getmiss", "getnum", "getstr", "setnum", "setstr", "rich", "rows", "rb", "sstload", "save"}

func c12History(rng *Rng, nSheets int, first string) []string {
	if nSheets == 0 {
		nSheets = 1
	}
	tok := func(k string) string {
		switch k {
		case "save", "sstload":
			return k
		case "rb":
			return fmt.Sprintf("rb.%d", rng.Intn(12))
		}
		return fmt.Sprintf("%s.%d", k, rng.Intn(nSheets))
	}
	var h []string
	h = append(h, tok(first))
	if first == "getnum" {
		// forced (no rng draw): numeric-only read of the spilled table (empty placeholder cached, no index file),
		// then the first string write (sharedStringsLoader promotes and must reset File.SharedStrings), then a
		// string read; the history's save + the reopen of the saved file follow
		h = append(h, "setstr.0", "getstr.0")
	}
	n := rng.Range(1, 5)
	for i := 0; i < n; i++ {
		h = append(h, tok(c12Kinds[rng.Intn(len(c12Kinds)-1)]))
	}
	h = append(h, "save")
	m := rng.Range(0, 3)
	for i := 0; i < m; i++ {
		h = append(h, tok(c12Kinds[rng.Intn(len(c12Kinds))]))
	}
	if m > 0 && rng.Bool() {
		h = append(h, "save")
	}
	h = append(h, "close")
	return h
}

func c12Limits(rng *Rng, bk *c12Book, n int) [][2]int64 {
	T := bk.total
	out := [][2]int64{{0, 0}, {1, 0}, {1, T}, {1, T - 1}}
	var xs, ss []int64
	xs = append(xs, 1, 2, 0, T, -1)
	for _, s := range bk.sizes {
		xs = append(xs, s-1, s, s+1)
	}
	ss = append(ss, 0, T-1, T, T+1, 1)
	for _, p := range bk.prefix {
		ss = append(ss, p-1, p)
	}
	if strings.HasSuffix(bk.id, ":dup") {
		// the limit that keeps the first copy in memory and spills the second
		for _, s := range bk.sizes {
			out = append(out, [2]int64{s, 0})
		}
	}
	for i := 0; i < n; i++ {
		x := xs[rng.Intn(len(xs))]
		s := ss[rng.Intn(len(ss))]
		switch rng.Intn(10) {
		case 0:
			s = x // equal limits
		case 1:
			s = x - 1 // rejected by the option check
		case 2, 3, 4:
			s = 0
		case 5:
			s = T
		}
		out = append(out, [2]int64{x, s})
	}
	return out
}

func runC12(r *Run, rng *Rng, replay string) {
	r.Rule = "case = (workbook, UnzipXMLSizeLimit, UnzipSizeLimit, history); non-trivial = at least one part was spilled to a temp file at open, or the open was rejected; distinct by the case header. Workbooks: seeded excelize-generated books (1-4 sheets, numbers, shared strings incl. rich text, formulas, styles, merges) and the fixtures of test/, each in zip variants (plain, backslash names, upper-case docPart names, directory entries, stored+reordered, sheets last, unsupported method, bad CRC, duplicate entry, entry named like the index key); limits from {1,2,-1,default,s-1,s,s+1 of each spillable part, total} x {default, total-1,total,total+1, prefix sums, equal, xml-1}"
	c12CleanTmp()
	if replay != "" {
		c12Replay(r, replay)
		return
	}
	thorough := r.Tier == "thorough"
	nGen, nLim, deepEvery := 22, 4, 4
	if thorough {
		nGen, nLim, deepEvery = 110, 8, 3
	}
	var ids []string
	// deterministic witnesses first
	ids = append(ids, "gen:1:plain", "gen:2:dup", "gen:3:badmethod", "gen:4:badcrc", "gen:5:negsize", "gen:6:negsize")
	for i := 0; i < nGen; i++ {
		seed := rng.U64() % 1000000
		v := "plain"
		if i%2 == 1 {
			v = c12Variants[1+(i/2)%(len(c12Variants)-1)]
		}
		ids = append(ids, fmt.Sprintf("gen:%d:%s", seed, v))
	}
	for _, fx := range []string{"Book1.xlsx", "SharedStrings.xlsx", "MergeCell.xlsx", "CalcChain.xlsx", "OverflowNumericCell.xlsx", "BadWorkbook.xlsx"} {
		ids = append(ids, "fix:"+fx+":plain")
		if thorough {
			ids = append(ids, "fix:"+fx+":backslash", "fix:"+fx+":stored-reordered")
		}
	}
	firsts := []string{"setnum", "setstr", "rows", "save", "getstr", "rich", "getnum"}
	for bi, id := range ids {
		bk, err := c12MakeBook(id)
		if err != nil {
			r.Notes = append(r.Notes, fmt.Sprintf("book %s: %v", id, err))
			continue
		}
		r.Stat("book:" + id[:3] + ":" + id[strings.LastIndexByte(id, ':')+1:])
		hist := c12History(rng, len(bk.sheets), firsts[bi%len(firsts)])
		var script []string
		if strings.HasPrefix(id, "gen:") || bi%2 == 0 {
			script = c12IterScript(rng, len(bk.sheets), bi)
		}
		sb := c12SPrepare(bk)
		sscript := c12SScript(rng, sb, bi)
		shscript := c12SheetScript(rng, len(bk.sheets), bi, thorough && strings.HasPrefix(id, "gen:") && bi%60 == 7 && len(bk.sheets) > 1)
		ref := c12MakeRef(bk, hist, script, sb, sscript, shscript)
		n := nLim
		if strings.HasPrefix(id, "fix:Book1") && !thorough {
			n = 2
		}
		for li, l := range c12Limits(rng, bk, n) {
			c12Case(r, bk, l[0], l[1], hist, ref, (bi+li)%deepEvery == 0)
		}
		if bi < 3 {
			r.Sample(fmt.Sprintf("case %s: history %s, %d entries, declared total %d, spillable sizes %v", id, strings.Join(hist, ","), bk.nEntry, bk.total, bk.sizes))
		}
	}
	for _, s := range r.opsSample(6) {
		if len(s) > 300 {
			s = s[:300] + "..."
		}
		r.Sample(s)
	}
}

func c12Replay(r *Run, path string) {
	for _, line := range readLines(path) {
		line = strings.TrimSpace(line)
		if !strings.HasPrefix(line, "case ") {
			continue
		}
		w := strings.Fields(line)
		if len(w) < 5 || len(w) > 8 {
			continue
		}
		fld := func(i int) []string {
			if len(w) > i && w[i] != "-" {
				return strings.Split(w[i], ",")
			}
			return nil
		}
		script, sscript, shscript := fld(5), fld(6), fld(7)
		bk, err := c12MakeBook(c12Unesc(w[1]))
		if err != nil {
			r.Notes = append(r.Notes, err.Error())
			continue
		}
		x, _ := strconv.ParseInt(w[2], 10, 64)
		s, _ := strconv.ParseInt(w[3], 10, 64)
		hist := strings.Split(w[4], ",")
		ref := c12MakeRef(bk, hist, script, c12SPrepare(bk), sscript, shscript)
		c12Case(r, bk, x, s, hist, ref, true)
	}
}
