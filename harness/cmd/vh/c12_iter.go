//go:build verif_c12

package main

// C12 — live iterators interleaved with edits, other readers and saves (direct
// oracle only; no transcript lines).
//
// An *iterator script* is a sequence of actions on one opened File:
//
//   ro.<sheet>.<slot>   f.Rows(sheet) into slot 0/1 (an iterator already in the slot stays open, unclosed)
//   co.<sheet>.<slot>   f.Cols(sheet) into slot 0/1
//   rn.<slot>.<k>       consume up to k rows of the Rows iterator in the slot (Next + Columns), log them
//   cn.<slot>.<k>       consume up to k columns of the Cols iterator in the slot (Next + Rows), log them
//   rc.<slot>           Close the Rows iterator in the slot
//   setstr.<sheet> | setnum.<sheet> | setval.<sheet> | rich.<sheet> | setrich.<sheet>
//   getcell.<sheet> | getrows.<sheet> | getcols.<sheet>   other readers, logged
//   save                WriteToBuffer
//
// The same script runs under the case's limits and under the default limits;
// everything the iterators and readers returned must be equal line by line,
// and the private TMPDIR must be empty after File.Close whether the iterators
// were closed early, late or never.
//
// Why oracle-only: what a live iterator can hold on to is the *decoded* shared
// string table object (File.SharedStrings at the time of a Columns call). The
// Store model abstracts that object to the flag `sstLoaded`; the store-level
// effects of an iterator (flush, streaming read / promotion, sharedStringsReader,
// index temp file) are already transcript ops (`rows`, `rb`).

import (
	"fmt"
	"strconv"
	"strings"

	xl "github.com/xuri/excelize/v2"
)

type c12IterRun struct {
	log    []string // one entry per action that returns data
	after  []string // for each log entry: the last mutating/other action before it
	left   int
	status string
}

func c12ParseTok(tok string) (kind string, a, b int) {
	p := strings.Split(tok, ".")
	kind = p[0]
	if len(p) > 1 {
		a, _ = strconv.Atoi(p[1])
	}
	if len(p) > 2 {
		b, _ = strconv.Atoi(p[2])
	}
	return
}

// c12IterScript generates a script for a book with n sheets. The first actions force the pattern
// "iterator has returned rows, then something happens, then the iterator continues".
func c12IterScript(rng *Rng, n int, variant int) []string {
	if n == 0 {
		return nil
	}
	sh := func() int { return rng.Intn(n) }
	between := []string{"setstr", "setval", "setnum", "save", "getcell", "getrows", "rich", "setrich", "getcols", "ro2", "co2"}
	mid := func(k string, s int) string {
		switch k {
		case "save":
			return "save"
		case "ro2":
			return fmt.Sprintf("ro.%d.1", s)
		case "co2":
			return fmt.Sprintf("co.%d.1", s)
		}
		return fmt.Sprintf("%s.%d", k, s)
	}
	var sc []string
	s0 := sh()
	if variant%3 == 2 {
		sc = append(sc, fmt.Sprintf("co.%d.0", s0), fmt.Sprintf("cn.0.%d", rng.Range(1, 2)))
	} else {
		sc = append(sc, fmt.Sprintf("ro.%d.0", s0), fmt.Sprintf("rn.0.%d", rng.Range(1, 3)))
	}
	// the interleaved action: cycles deterministically so that every kind appears early in a run
	k := between[variant%len(between)]
	ts := s0
	if rng.Chance(40) {
		ts = sh()
	}
	sc = append(sc, mid(k, ts))
	m := rng.Range(2, 7)
	for i := 0; i < m; i++ {
		switch rng.Intn(10) {
		case 0, 1, 2:
			sc = append(sc, fmt.Sprintf("rn.%d.%d", rng.Intn(2), rng.Range(1, 4)))
		case 3:
			sc = append(sc, fmt.Sprintf("cn.%d.%d", rng.Intn(2), rng.Range(1, 3)))
		case 4:
			sc = append(sc, fmt.Sprintf("ro.%d.%d", sh(), rng.Intn(2)))
		case 5:
			sc = append(sc, fmt.Sprintf("rc.%d", rng.Intn(2)))
		default:
			sc = append(sc, mid(between[rng.Intn(len(between))], sh()))
		}
	}
	// continue consuming afterwards; close early / late / never
	sc = append(sc, "rn.0.2", "cn.0.1")
	if rng.Chance(35) {
		sc = append(sc, "rc.0")
	}
	sc = append(sc, "rn.0.100000", "rn.1.100000", "cn.0.100000", "cn.1.100000")
	if rng.Chance(50) {
		sc = append(sc, "rc.0")
	}
	if rng.Chance(30) {
		sc = append(sc, "rc.1")
	}
	return sc
}

func c12RunIterScript(bk *c12Book, xmlL, sizeL int64, script []string) (res c12IterRun) {
	base := c12TmpCount()
	f, err := c12Open(bk.data, xmlL, sizeL)
	if f == nil {
		res.status = "ERR"
		if err == c12ErrPanic {
			res.status = "PANIC"
		}
		c12CleanTmp()
		return
	}
	res.status = "ok"
	var rit [2]*xl.Rows
	var cit [2]*xl.Cols
	nw := 0
	last := "open"
	add := func(s string) {
		res.log = append(res.log, s)
		res.after = append(res.after, last)
	}
	for _, tok := range script {
		kind, a, b := c12ParseTok(tok)
		if len(bk.sheets) == 0 {
			break
		}
		sh := bk.sheets[a%len(bk.sheets)]
		panicked := c12Guard(func() {
			switch kind {
			case "ro":
				it, err := f.Rows(sh.name)
				if err == nil {
					rit[b%2] = it
				}
				add(fmt.Sprintf("%s: err=%v", tok, err != nil))
			case "co":
				it, err := f.Cols(sh.name)
				if err == nil {
					cit[b%2] = it
				}
				add(fmt.Sprintf("%s: err=%v", tok, err != nil))
			case "rn":
				it := rit[a%2]
				if it == nil {
					return
				}
				var sb strings.Builder
				for i := 0; i < b && it.Next(); i++ {
					row, err := it.Columns()
					fmt.Fprintf(&sb, "%q/%v;", row, err != nil)
				}
				add(tok + ": " + sb.String())
			case "cn":
				it := cit[a%2]
				if it == nil {
					return
				}
				var sb strings.Builder
				for i := 0; i < b && it.Next(); i++ {
					col, err := it.Rows()
					fmt.Fprintf(&sb, "%q/%v;", col, err != nil)
				}
				add(tok + ": " + sb.String())
			case "rc":
				if it := rit[a%2]; it != nil {
					it.Close()
					rit[a%2] = nil
				}
			case "setstr":
				nw++
				f.SetCellStr(sh.name, fmt.Sprintf("K%d", 900+nw), fmt.Sprintf("new <string> %d ", nw))
			case "setval":
				nw++
				f.SetCellValue(sh.name, fmt.Sprintf("L%d", 900+nw), fmt.Sprintf("value %d", nw))
			case "setnum":
				nw++
				f.SetCellValue(sh.name, fmt.Sprintf("J%d", 900+nw), 1000+nw)
			case "setrich":
				nw++
				f.SetCellRichText(sh.name, fmt.Sprintf("M%d", 900+nw), []xl.RichTextRun{{Text: "r", Font: &xl.Font{Bold: true}}, {Text: fmt.Sprintf("ich %d", nw)}})
			case "rich":
				cell := sh.rich
				if cell == "" {
					cell = sh.str
				}
				if cell == "" {
					cell = "A1"
				}
				runs, err := f.GetCellRichText(sh.name, cell)
				var sb strings.Builder
				for _, run := range runs {
					fmt.Fprintf(&sb, "{%q}", run.Text)
				}
				add(fmt.Sprintf("%s: %s/%v", tok, sb.String(), err != nil))
			case "getcell":
				cell := sh.str
				if cell == "" {
					cell = "A1"
				}
				v, err := f.GetCellValue(sh.name, cell)
				add(fmt.Sprintf("%s: %q/%v", tok, v, err != nil))
			case "getrows":
				rows, err := f.GetRows(sh.name)
				add(fmt.Sprintf("%s: %q/%v", tok, rows, err != nil))
			case "getcols":
				cols, err := f.GetCols(sh.name)
				add(fmt.Sprintf("%s: %q/%v", tok, cols, err != nil))
			case "save":
				buf, err := f.WriteToBuffer()
				n := 0
				if buf != nil {
					n = 1
				}
				add(fmt.Sprintf("save: buf=%d err=%v", n, err != nil))
			}
		})
		if panicked {
			add(tok + ": PANIC")
		}
		switch kind {
		case "rn", "cn", "rc":
		default:
			last = kind
		}
	}
	f.Close()
	res.left = c12TmpCount() - base
	// iterators that were never closed are closed only now (after File.Close)
	for _, it := range rit {
		if it != nil {
			c12Guard(func() { it.Close() })
		}
	}
	c12CleanTmp()
	return
}

// c12IterOracle compares the script under the case limits with the reference run.
func c12IterOracle(r *Run, bk *c12Book, xmlL, sizeL int64, script []string, ref c12IterRun, header string) {
	if len(script) == 0 || ref.status != "ok" {
		return
	}
	got := c12RunIterScript(bk, xmlL, sizeL, script)
	if got.status != "ok" {
		return
	}
	r.Stat("oracle:live-iterators")
	if got.left != 0 {
		r.Fail("tmp-left-after-close:live-iterators", fmt.Sprintf("%d temp file(s) remain after File.Close with iterators closed early/late/never (book %s, limits %d/%d, script %s)", got.left, bk.id, xmlL, sizeL, strings.Join(script, ",")), 0, header)
	}
	for i := range got.log {
		if i >= len(ref.log) {
			break
		}
		if got.log[i] != ref.log[i] {
			kind := got.log[i]
			if j := strings.IndexAny(kind, ".:"); j >= 0 {
				kind = kind[:j]
			}
			what := map[string]string{"rn": "rows", "cn": "cols", "ro": "rows-open", "co": "cols-open"}[kind]
			if what == "" {
				what = "reader-" + kind
			}
			sig := fmt.Sprintf("iter-differs:%s-after-%s", what, got.after[i])
			r.Stat("iter-diff:" + what + "-after-" + got.after[i])
			r.Fail(sig, fmt.Sprintf("a live iterator / reader returns different data than under the default limits (book %s, limits %d/%d): %s", bk.id, xmlL, sizeL, c12FirstDiff([]string{got.log[i]}, []string{ref.log[i]})), 0, header)
			return
		}
	}
	if len(got.log) != len(ref.log) {
		r.Fail("iter-differs:length", fmt.Sprintf("iterator script produced %d results, %d under default limits (book %s, limits %d/%d)", len(got.log), len(ref.log), bk.id, xmlL, sizeL), 0, header)
	}
}
