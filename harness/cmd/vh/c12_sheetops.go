//go:build verif_c12

package main

// C12 — sheet-collection operations and stream-writer rewrites after a spilled open (direct oracle).
//
// Script tokens (sheet arguments index the sheet list at open; a deleted sheet is skipped):
//   del.<s>     DeleteSheet            copy.<s>   NewSheet + CopySheet       ren.<s>  SetSheetName
//   new         NewSheet + a cell      move.<s>   MoveSheet to the front     get.<s>  GetRows (logged)
//   stream.<s>  NewStreamWriter on the existing sheet, three rows, Flush (rewrites the sheet)
//   streambig.<s>  the same with ~18 MB of rows, so that the stream writer itself spills to a temp file
//               (past StreamChunkSize; thorough tier only)
//   save        WriteToBuffer: logged = sorted zip entry names (with multiplicity) + observation of the reopened file
// Every script ends with save, File.Close and a listing of the private TMPDIR.
//
// Oracles: the log under the case limits equals the log under the default limits
// (`sheetops-differs:<last sheet op>`); no saved package holds two entries of the same name
// (`zip-duplicate-entry:<last sheet op>`); TMPDIR is empty after Close (`tmp-left-after-close:sheet-ops`).

import (
	"archive/zip"
	"bytes"
	"fmt"
	"sort"
	"strings"

	xl "github.com/xuri/excelize/v2"
)

type c12SheetRun struct {
	log       []string
	after     []string
	dups      []string        // "<entry name> after <op>"
	deleted   map[string]bool // part names of deleted worksheets
	streamed  map[string]bool // part names of worksheets rewritten with the stream writer
	streamNow map[string]bool // part names currently held in File.streams
	left      int
	status    string
}

func c12SheetScript(rng *Rng, n int, variant int, big bool) []string {
	if n == 0 {
		return nil
	}
	if big {
		return []string{"get.0", "streambig.0", "save", "del.1", "save"}
	}
	firsts := []string{"del", "stream", "copy", "ren", "new", "move", "del", "stream"}
	tok := func(k string) string {
		if k == "new" || k == "save" {
			return k
		}
		return fmt.Sprintf("%s.%d", k, rng.Intn(n))
	}
	var sc []string
	switch variant {
	case 0: // deterministic witnesses of the two open findings
		return []string{"del.1", "del.0", "save"}
	case 1:
		return []string{"stream.0", "save"}
	}
	if variant%4 == 3 {
		sc = append(sc, tok("get"))
	}
	sc = append(sc, tok(firsts[variant%len(firsts)]))
	kinds := []string{"del", "stream", "copy", "ren", "new", "move", "get", "save", "stream", "del"}
	for i, m := 0, rng.Range(0, 3); i < m; i++ {
		sc = append(sc, tok(kinds[rng.Intn(len(kinds))]))
	}
	sc = append(sc, "save")
	if rng.Chance(40) {
		sc = append(sc, tok(kinds[rng.Intn(len(kinds))]), "save")
	}
	return sc
}

func c12RunSheetScript(r *Run, bk *c12Book, xmlL, sizeL int64, script []string) (res c12SheetRun) {
	base := c12TmpCount()
	f, err := c12Open(bk.data, xmlL, sizeL)
	if f == nil {
		res.status = "ERR"
		if err == c12ErrPanic {
			res.status = "PANIC"
		}
		c12CleanTmp()
		return
	}
	res.status = "ok"
	res.deleted, res.streamed, res.streamNow = map[string]bool{}, map[string]bool{}, map[string]bool{}
	names := make([]string, len(bk.sheets)) // current name of the i-th original sheet, "" = deleted
	for i, sh := range bk.sheets {
		names[i] = sh.name
	}
	last := "open"
	cnt := 0
	add := func(s string) {
		res.log = append(res.log, s)
		res.after = append(res.after, last)
	}
	for _, tok := range script {
		kind, a, _ := c12ParseTok(tok)
		name := ""
		if len(names) > 0 {
			name = names[a%len(names)]
		}
		if kind != "new" && kind != "save" && name == "" {
			continue
		}
		cnt++
		panicked := c12Guard(func() {
			switch kind {
			case "del":
				if err := f.DeleteSheet(name); err == nil {
					if idx, _ := f.GetSheetIndex(name); idx == -1 {
						names[a%len(names)] = ""
						res.deleted[bk.sheets[a%len(names)].path] = true
						delete(res.streamNow, bk.sheets[a%len(names)].path)
					}
				}
			case "copy":
				idx, err := f.NewSheet(fmt.Sprintf("Copy%d", cnt))
				if err == nil {
					from, _ := f.GetSheetIndex(name)
					f.CopySheet(from, idx)
				}
			case "ren":
				nn := fmt.Sprintf("Ren%d", cnt)
				if f.SetSheetName(name, nn) == nil {
					names[a%len(names)] = nn
				}
			case "new":
				nn := fmt.Sprintf("New%d", cnt)
				if _, err := f.NewSheet(nn); err == nil {
					f.SetCellValue(nn, "A1", cnt)
					f.SetCellValue(nn, "B1", fmt.Sprintf("text %d", cnt))
				}
			case "move":
				list := f.GetSheetList()
				if len(list) > 1 && list[0] != name {
					f.MoveSheet(name, list[0])
				}
			case "get":
				rows, err := f.GetRows(name)
				add(fmt.Sprintf("%s: %q/%v", tok, rows, err != nil))
			case "stream":
				sw, err := f.NewStreamWriter(name)
				if err != nil {
					add(tok + ": err")
					return
				}
				res.streamNow[bk.sheets[a%len(names)].path] = true
				sw.SetRow("A1", []interface{}{"streamed", cnt, true})
				sw.SetRow("A2", []interface{}{fmt.Sprintf("row two %d", cnt), 2.5})
				sw.SetRow("A3", []interface{}{xl.Cell{Value: "styled"}, nil, "x"})
				res.streamed[bk.sheets[a%len(names)].path] = true
				add(fmt.Sprintf("%s: flush err=%v", tok, sw.Flush() != nil))
			case "streambig":
				sw, err := f.NewStreamWriter(name)
				if err != nil {
					add(tok + ": err")
					return
				}
				res.streamNow[bk.sheets[a%len(names)].path] = true
				filler := strings.Repeat("0123456789abcdef", 128) // 2 KiB
				for r := 1; r <= 900; r++ {
					row := make([]interface{}, 10)
					for c := range row {
						row[c] = fmt.Sprintf("%d.%d %s", r, c, filler)
					}
					cell, _ := xl.CoordinatesToCellName(1, r)
					sw.SetRow(cell, row)
				}
				res.streamed[bk.sheets[a%len(names)].path] = true
				spill := c12TmpCount() - base
				add(fmt.Sprintf("%s: flush err=%v stream-spilled=%v", tok, sw.Flush() != nil, spill > len(xl.VerifC12Dump(f).Temp)))
			case "save":
				d0 := xl.VerifC12Dump(f)
				buf, err := f.WriteToBuffer()
				if buf == nil || err != nil {
					add("save: FAILED")
					return
				}
				data := append([]byte(nil), buf.Bytes()...)
				var zn []string
				seen := map[string]int{}
				if zr, err := zip.NewReader(bytes.NewReader(data), int64(len(data))); err == nil {
					for _, e := range zr.File {
						zn = append(zn, e.Name)
						seen[e.Name]++
						if seen[e.Name] == 2 {
							res.dups = append(res.dups, e.Name+" after "+last)
						}
					}
				}
				sort.Strings(zn)
				if r != nil {
					// transcript: the three collections writeToZip lists from (model XlModel.ZipList)
					d1 := xl.VerifC12Dump(f)
					var ss, ps, ts []string
					for n := range res.streamNow {
						ss = append(ss, n)
					}
					for n := range d1.Pkg {
						_, t0 := d0.Temp[n]
						_, p0 := d0.Pkg[n]
						if t0 && !p0 && n != c12SST {
							continue // promoted by the temp loop itself
						}
						ps = append(ps, n)
					}
					for n := range d1.Temp {
						ts = append(ts, n)
					}
					sort.Strings(ss)
					sort.Strings(ps)
					sort.Strings(ts)
					esc := func(xs []string) string {
						var b strings.Builder
						for _, x := range xs {
							b.WriteString(" " + c12Esc(x))
						}
						return b.String()
					}
					var zs []string
					for _, n := range zn {
						zs = append(zs, c12Esc(n))
					}
					r.Op(fmt.Sprintf("zipnames %d%s %d%s %d%s", len(ss), esc(ss), len(ps), esc(ps), len(ts), esc(ts)), "N["+strings.Join(zs, " ")+"]")
				}
				obs := "REOPEN-FAILED"
				if g, _ := c12Open(data, 0, 0); g != nil {
					obs = c12Observe(g)
					g.Close()
					if len(obs) > 1<<20 {
						obs = fmt.Sprintf("digest %s of %d bytes", c12Digest([]byte(obs)), len(obs))
					}
				}
				add("savezip: " + strings.Join(zn, ","))
				add("saveobs: " + obs)
			}
		})
		if panicked {
			add(tok + ": PANIC")
		}
		if kind != "get" && kind != "save" {
			last = kind
		}
	}
	f.Close()
	res.left = c12TmpCount() - base
	c12CleanTmp()
	return
}

func c12SheetOracle(r *Run, bk *c12Book, xmlL, sizeL int64, script []string, ref c12SheetRun, header string) {
	if len(script) == 0 || ref.status != "ok" {
		return
	}
	got := c12RunSheetScript(r, bk, xmlL, sizeL, script)
	if got.status != "ok" {
		return
	}
	r.Stat("oracle:sheet-ops")
	for _, e := range got.log {
		if strings.Contains(e, "stream-spilled=true") {
			r.Stat("sheetops:stream-writer-spilled-past-chunk-size")
		}
	}
	if got.left != 0 {
		r.Fail("tmp-left-after-close:sheet-ops", fmt.Sprintf("%d temp file(s) remain in TMPDIR after Close following sheet operations (book %s, limits %d/%d, script %s)", got.left, bk.id, xmlL, sizeL, strings.Join(script, ",")), 0, header)
	}
	for _, d := range got.dups {
		name := d[:strings.IndexByte(d, ' ')]
		op := d[strings.LastIndexByte(d, ' ')+1:]
		if got.streamed[name] {
			r.Fail("zip-duplicate-entry:stream-rewrite-of-spilled-sheet", fmt.Sprintf("the saved package holds two entries named %s: a worksheet spilled at open and rewritten with NewStreamWriter+Flush is written once from File.streams and once from the temp branch of writeToZip (book %s, limits %d/%d, script %s)", name, bk.id, xmlL, sizeL, strings.Join(script, ",")), 0, header)
		} else {
			r.Fail("zip-duplicate-entry:"+op, fmt.Sprintf("the saved package holds two entries named %s (book %s, limits %d/%d, script %s)", d, bk.id, xmlL, sizeL, strings.Join(script, ",")), 0, header)
		}
		break
	}
	for i := range got.log {
		if i >= len(ref.log) {
			break
		}
		if got.log[i] == ref.log[i] {
			continue
		}
		if strings.HasPrefix(got.log[i], "savezip: ") && strings.HasPrefix(ref.log[i], "savezip: ") {
			// classify the difference of the entry-name multisets
			cnt := map[string]int{}
			for _, n := range strings.Split(strings.TrimPrefix(got.log[i], "savezip: "), ",") {
				cnt[n]++
			}
			for _, n := range strings.Split(strings.TrimPrefix(ref.log[i], "savezip: "), ",") {
				cnt[n]--
			}
			onlyDel, onlyDup, other := false, false, false
			for n, c := range cnt {
				switch {
				case c == 0:
				case c > 0 && got.deleted[n]:
					onlyDel = true
				case c > 0 && got.streamed[n]:
					onlyDup = true
				default:
					other = true
				}
			}
			if other {
				r.Fail("sheetops-zip-differs:"+got.after[i], fmt.Sprintf("the saved package has other parts than under the default limits (book %s, limits %d/%d, script %s): %s", bk.id, xmlL, sizeL, strings.Join(script, ","), c12FirstDiff([]string{got.log[i]}, []string{ref.log[i]})), 0, header)
				return
			}
			if onlyDel {
				r.Fail("saved-package:deleted-spilled-sheet-part-survives", fmt.Sprintf("DeleteSheet of a worksheet that was spilled at open leaves its tempFiles entry, so writeToZip still writes the part: the saved package holds an unreferenced worksheet part that is absent under the default limits (book %s, limits %d/%d, script %s)", bk.id, xmlL, sizeL, strings.Join(script, ",")), 0, header)
			}
			_ = onlyDup // reported through the duplicate-entry check above
			continue
		}
		kind := "obs"
		if !strings.HasPrefix(got.log[i], "saveobs: ") {
			kind = "read"
		}
		r.Fail("sheetops-"+kind+"-differs:"+got.after[i], fmt.Sprintf("after sheet operations the %s content differs from the default-limit run (book %s, limits %d/%d, script %s): %s", kind, bk.id, xmlL, sizeL, strings.Join(script, ","), c12FirstDiff([]string{got.log[i]}, []string{ref.log[i]})), 0, header)
		return
	}
}
