//go:build verif_c12

package main

// C12 — the shared-string table as an object across the two tiers (transcript + twin oracle).
//
// Transcript ops (model: lean/XlModel/Sst.lean, driver: Drv/C12.lean):
//
//   sopen <spilled> <inPkg> <k> (<plain> <keyhex> <texthex>)*k   decoded items of xl/sharedStrings.xml
//   sread                     GetCellValue of a numeric cell (sharedStringsReader only)
//   sget <i>                  GetCellValue of a cell whose <v> is shared-string index i
//   siter <i>                 the same cell through a fresh Rows iterator (Next/Columns up to its row)
//   scol <i>                  the same cell through a fresh Cols iterator
//   (script tokens slo.<c> / sln.<c>: a LIVE Rows iterator opened and advanced to the cell's row, kept open across
//    the following writes / loader calls / saves, then advanced further; transcript op is `siter <i>` as well)
//   sload                     GetCellRichText of a shared-string cell (sharedStringsLoader + reader)
//   sset <keyhex> <texthex>   SetCellStr of that text into a fresh cell; answer = index stored in the cell
//   ssave                     WriteToBuffer; answer = decoded items of the saved shared strings part
//
// Answer format: `<out> t=<nil|len(File.SharedStrings.SI)> x=<index temp file open> sp=<part spilled> | <out> n=<items>`.

import (
	"fmt"
	"regexp"
	"strconv"
	"strings"

	xl "github.com/xuri/excelize/v2"
)

type c12SCell struct {
	sheet, cell string
	col, row    int
	idx         int
}

type c12SBook struct {
	items []string // "plain key text" per item, as op tokens
	n     int
	keys  []string // raw text of plain items
	cells []c12SCell
	num   map[string]string // sheet -> numeric cell
	ok    bool
}

var c12CellRe = regexp.MustCompile(` ([A-Z]+[0-9]+):s=\d+:t=s:v=([0-9a-f]+):`)

func c12SItems(f *xl.File) (toks []string, keys []string) {
	xl.VerifSharedStrings(f) // forces the decode on this (separate) instance
	if f.SharedStrings == nil {
		return
	}
	for _, si := range f.SharedStrings.SI {
		if si.T != nil {
			toks = append(toks, "1 "+hx(si.T.Val)+" "+hx(si.String()))
			keys = append(keys, si.T.Val)
		} else {
			toks = append(toks, "0 - "+hx(si.String()))
		}
	}
	return
}

func c12SPrepare(bk *c12Book) *c12SBook {
	sb := &c12SBook{num: map[string]string{}}
	if !bk.ok {
		return sb
	}
	f, _ := c12Open(bk.data, 0, 0)
	if f == nil {
		return sb
	}
	defer f.Close()
	for _, sh := range bk.sheets {
		if sh.num != "" {
			sb.num[sh.name] = sh.num
		}
		d := xl.VerifDumpSheet(f, sh.name)
		n := 0
		for _, m := range c12CellRe.FindAllStringSubmatch(d, -1) {
			idx, err := strconv.Atoi(unhx(m[2]))
			if err != nil || idx < 0 {
				continue
			}
			col, row, err := xl.CellNameToCoordinates(m[1])
			if err != nil || row > 150 {
				continue
			}
			sb.cells = append(sb.cells, c12SCell{sh.name, m[1], col, row, idx})
			if n++; n >= 12 {
				break
			}
		}
	}
	sb.items, sb.keys = c12SItems(f)
	sb.n = len(sb.items)
	sb.ok = len(sb.cells) > 0
	return sb
}

// c12SScript: tokens kind[.arg]
func c12SScript(rng *Rng, sb *c12SBook, variant int) []string {
	if !sb.ok {
		return nil
	}
	nc := len(sb.cells)
	cell := func() int { return rng.Intn(nc) }
	var sc []string
	// a live iterator that has returned rows, then a write / loader / save, then it continues
	mid := []string{fmt.Sprintf("sset.%d", rng.Intn(8)), "ssave", fmt.Sprintf("sload.%d", cell()), fmt.Sprintf("sset.%d", 5+rng.Intn(3))}
	livePattern := func() {
		sc = append(sc, fmt.Sprintf("slo.%d", cell()), mid[(variant/2)%len(mid)], fmt.Sprintf("sln.%d", rng.Intn(5)))
		if rng.Chance(50) {
			sc = append(sc, mid[rng.Intn(len(mid))], fmt.Sprintf("sln.%d", rng.Intn(5)))
		}
	}
	if variant%2 == 0 {
		livePattern() // while the table is still spilled
	}
	// forced openings: numeric-only read before the first string write; string read first; write first; iterator first
	switch variant % 5 {
	case 0:
		sc = append(sc, "sread", fmt.Sprintf("sset.%d", rng.Intn(6)))
	case 1:
		sc = append(sc, fmt.Sprintf("sget.%d", cell()), fmt.Sprintf("sset.%d", rng.Intn(6)))
	case 2:
		sc = append(sc, fmt.Sprintf("sset.%d", rng.Intn(6)))
	case 3:
		sc = append(sc, fmt.Sprintf("siter.%d", cell()), "ssave")
	default:
		sc = append(sc, "sread", fmt.Sprintf("sload.%d", cell()))
	}
	if variant%2 == 1 {
		livePattern()
	}
	kinds := []string{"sget", "sget", "siter", "scol", "sread", "sload", "sset", "sset", "ssave"}
	m := rng.Range(3, 8)
	for i := 0; i < m; i++ {
		k := kinds[rng.Intn(len(kinds))]
		switch k {
		case "sread", "ssave":
			sc = append(sc, k)
		case "sset":
			sc = append(sc, fmt.Sprintf("sset.%d", rng.Intn(8)))
		default:
			sc = append(sc, fmt.Sprintf("%s.%d", k, cell()))
		}
	}
	sc = append(sc, fmt.Sprintf("sget.%d", cell()), "ssave", fmt.Sprintf("siter.%d", cell()))
	return sc
}

func c12SState(f *xl.File) (string, bool, bool) {
	st := xl.VerifC12Dump(f)
	t := "nil"
	if f.SharedStrings != nil {
		t = strconv.Itoa(len(f.SharedStrings.SI))
	}
	_, sp := st.Temp[c12SST]
	b := func(x bool) string {
		if x {
			return "1"
		}
		return "0"
	}
	pk, inPkg := st.Pkg[c12SST]
	return fmt.Sprintf("t=%s x=%s sp=%s", t, b(st.SSTTemp != ""), b(sp)), sp, inPkg && len(pk) > 0
}

// c12SRun executes the script; emits transcript lines when r != nil; returns the outputs.
func c12SRun(r *Run, bk *c12Book, sb *c12SBook, xmlL, sizeL int64, script []string) (outs []string, ok bool) {
	f, _ := c12Open(bk.data, xmlL, sizeL)
	if f == nil {
		return nil, false
	}
	defer func() {
		f.Close()
		c12CleanTmp()
	}()
	emit := func(op, res string) {
		if r != nil {
			r.Op(op, res)
		}
	}
	state, sp, inPkg := c12SState(f)
	b := func(x bool) string {
		if x {
			return "1"
		}
		return "0"
	}
	open := fmt.Sprintf("sopen %s %s %d", b(sp), b(inPkg), sb.n)
	if sb.n > 0 {
		open += " " + strings.Join(sb.items, " ")
	}
	emit(open, "sok "+state)
	if r != nil && sp {
		r.Stat("sst:spilled-table")
	}
	n := sb.n
	added := map[string]int{}
	keyIdx := map[string]bool{}
	for _, k := range sb.keys {
		keyIdx[k] = true
	}
	nw := 0
	var live *xl.Rows
	liveSheet, liveRow := "", 0
	defer func() {
		if live != nil {
			c12Guard(func() { live.Close() })
		}
	}()
	// advance the live iterator to the given row and return the value in the given column
	liveTo := func(row, col int) string {
		v := "<norow>"
		for liveRow < row && live.Next() {
			liveRow++
			r, _ := live.Columns()
			if liveRow == row {
				v = ""
				if col-1 < len(r) {
					v = r[col-1]
				}
			}
		}
		return v
	}
	for _, tok := range script {
		kind, a, _ := c12ParseTok(tok)
		var op, out string
		panicked := c12Guard(func() {
			switch kind {
			case "sread":
				c := sb.cells[0]
				cell := sb.num[c.sheet]
				if cell == "" {
					cell = "XFD1048570"
				}
				if cell == "XFD1048570" {
					// no numeric cell: a missing cell does not reach sharedStringsReader
					op = ""
					return
				}
				f.GetCellValue(c.sheet, cell)
				op, out = "sread", "-"
			case "sget":
				c := sb.cells[a%len(sb.cells)]
				v, _ := f.GetCellValue(c.sheet, c.cell)
				op, out = fmt.Sprintf("sget %d", c.idx), "S"+hx(v)
			case "siter":
				c := sb.cells[a%len(sb.cells)]
				v := "<norow>"
				rows, err := f.Rows(c.sheet)
				if err == nil {
					cur := 0
					for rows.Next() {
						cur++
						row, _ := rows.Columns()
						if cur == c.row {
							v = "" // trailing empty cells are not returned
							if c.col-1 < len(row) {
								v = row[c.col-1]
							}
							break
						}
					}
					rows.Close()
				}
				op, out = fmt.Sprintf("siter %d", c.idx), "S"+hx(v)
			case "scol":
				c := sb.cells[a%len(sb.cells)]
				v := "<nocol>"
				cols, err := f.Cols(c.sheet)
				if err == nil {
					cur := 0
					for cols.Next() {
						cur++
						col, _ := cols.Rows()
						if cur == c.col {
							v = ""
							if c.row-1 < len(col) {
								v = col[c.row-1]
							}
							break
						}
					}
				}
				op, out = fmt.Sprintf("scol %d", c.idx), "S"+hx(v)
			case "slo":
				c := sb.cells[a%len(sb.cells)]
				if live != nil {
					live.Close()
					live = nil
				}
				it, err := f.Rows(c.sheet)
				if err != nil {
					return
				}
				live, liveSheet, liveRow = it, c.sheet, 0
				op, out = fmt.Sprintf("siter %d", c.idx), "S"+hx(liveTo(c.row, c.col))
			case "sln":
				if live == nil {
					return
				}
				var later []c12SCell
				for _, c := range sb.cells {
					if c.sheet == liveSheet && c.row > liveRow {
						later = append(later, c)
					}
				}
				if len(later) == 0 {
					return
				}
				c := later[a%len(later)]
				op, out = fmt.Sprintf("siter %d", c.idx), "S"+hx(liveTo(c.row, c.col))
			case "sload":
				c := sb.cells[a%len(sb.cells)]
				f.GetCellRichText(c.sheet, c.cell)
				op, out = "sload", "-"
			case "sset":
				var text string
				switch {
				case a < 2 && len(sb.keys) > 0:
					text = xl.VerifBstrUnmarshal(sb.keys[(a*7+len(script))%len(sb.keys)]) // an existing plain string: deduplicated
				case a < 5:
					text = fmt.Sprintf("fresh %d", a) // repeated across the script: appended once
				default:
					nw++
					text = fmt.Sprintf("new <&> %d ", nw) // no _xHHHH_ look-alikes: decode(marshal t) = t is the law the model assumes
				}
				c := sb.cells[0]
				nw++
				cell := fmt.Sprintf("N%d", 900+nw)
				f.SetCellStr(c.sheet, cell, text)
				idx := -1
				d := xl.VerifDumpSheet(f, c.sheet)
				if m := regexp.MustCompile(" " + cell + `:s=\d+:t=s:v=([0-9a-f]+):`).FindStringSubmatch(d); m != nil {
					idx, _ = strconv.Atoi(unhx(m[1]))
				}
				key := xl.VerifBstrMarshal(text) // t.Val as setSharedString computes it (trimCellValue)
				if !keyIdx[key] {
					if _, ok := added[key]; !ok {
						added[key] = n
						n++
					}
				}
				op, out = fmt.Sprintf("sset %s %s", hx(key), hx(xl.VerifBstrUnmarshal(key))), "I"+strconv.Itoa(idx)
			case "ssave":
				buf, _ := f.WriteToBuffer()
				list := "P[]"
				if buf != nil {
					if g, _ := c12Open(append([]byte(nil), buf.Bytes()...), 0, 0); g != nil {
						toks, _ := c12SItems(g)
						var xs []string
						for _, t := range toks {
							p := strings.Fields(t)
							if p[0] == "1" {
								xs = append(xs, "k"+p[1]+":"+p[2])
							} else {
								xs = append(xs, "r:"+p[2])
							}
						}
						list = "P[" + strings.Join(xs, " ") + "]"
						g.Close()
					}
				}
				op, out = "ssave", list
			}
		})
		if op == "" {
			continue
		}
		if panicked {
			emit(op, "PANIC")
			outs = append(outs, tok+":PANIC")
			continue
		}
		state, _, _ := c12SState(f)
		if kind == "ssave" {
			emit(op, out+" "+state+" | "+out)
		} else {
			emit(op, fmt.Sprintf("%s %s | %s n=%d", out, state, out, n))
		}
		outs = append(outs, tok+":"+out)
	}
	return outs, true
}

// c12SOracle: the script under the case limits must return what it returns under the default limits.
func c12SOracle(r *Run, bk *c12Book, sb *c12SBook, xmlL, sizeL int64, script []string, ref []string, header string) {
	if len(script) == 0 || ref == nil {
		return
	}
	got, ok := c12SRun(r, bk, sb, xmlL, sizeL, script)
	if !ok {
		return
	}
	r.Stat("oracle:sst-script")
	for i := range got {
		if i < len(ref) && got[i] != ref[i] {
			kind, _, _ := c12ParseTok(strings.SplitN(got[i], ":", 2)[0])
			prev := "open"
			if i > 0 {
				prev, _, _ = c12ParseTok(strings.SplitN(got[i-1], ":", 2)[0])
			}
			r.Fail("sst-differs:"+kind+"-after-"+prev, fmt.Sprintf("shared-string operation returns something else than under the default limits (book %s, limits %d/%d, script %s): %s vs reference %s", bk.id, xmlL, sizeL, strings.Join(script, ","), got[i], ref[i]), 0, header)
			return
		}
	}
}
