//go:build verif_c13

package main

// C13 — password protection round-trips and gates access.
//
// Transcript ops (model side: lean/XlModel/Drv/C13.lean):
//   loc <n> <size>*         (*cfb).prepare+locate (hook) on a root entry + n streams
//   cfb <n> <size>*         (*cfb).write (hook): header fields, RLE of the header DIFAT and of every
//                           table word, directory entries, FNV-1a of all bytes, reader round trip
//   enc <pwhex> <size> <k>  real Encrypt then Decrypt: stream sizes, file size, outcome
// Go-only oracle lines (in replays; not part of the transcript):
//   open <pwhex> <rows> <seed>   workbook -> WriteToBuffer(password) -> OpenReader with right/wrong/no password
//   big <n> <size>*              (*cfb).write read back by the reference reader and by mscfb (no model)
//   fixture <file> <pwhex>       Office-produced fixture decrypts to a valid package
//
// Direct oracles: Decrypt(Encrypt(b,p),p) == b; wrong/missing password => OpenReader error and
// Decrypt never returns b; reference reader ([MS-CFB]) == third-party mscfb == streams put in;
// structural checks on the container (FAT marks, chains disjoint, sibling order).

import (
	"archive/zip"
	"bytes"
	"encoding/binary"
	"fmt"
	"io"
	"os"
	"path/filepath"
	"sort"
	"strconv"
	"strings"
	"time"

	"github.com/richardlehane/mscfb"
	xl "github.com/xuri/excelize/v2"
)

func init() { props["C13"] = runC13 }

// ---------------------------------------------------------------------------
// deterministic content (same formula as XlModel.Drv.C13.pat)

func c13pat(n, k int) []byte {
	b := make([]byte, n)
	for i := range b {
		b[i] = byte((i*7 + 3 + k*11 + i/256) % 256)
	}
	return b
}

func c13name(k int) string {
	switch k {
	case 0:
		return "EncryptionInfo"
	case 1:
		return "EncryptedPackage"
	}
	return "ZStream0000000000" + strconv.Itoa(k)
}

func c13streams(sizes []int) ([]string, [][]byte) {
	var names []string
	var cs [][]byte
	for k, n := range sizes {
		names = append(names, c13name(k))
		cs = append(cs, c13pat(n, k))
	}
	return names, cs
}

// ---------------------------------------------------------------------------
// reference reader written from [MS-CFB] (independent of crypt.go and of mscfb)

type c13Ent struct {
	name               string
	typ, color         int
	left, right, child int32
	start              int32
	size               uint64
	blank              bool
}

type c13Doc struct {
	numFat, firstDir, cutoff, firstMiniFat, numMiniFat, firstDifat, numDifat int32
	hdrDifat                                                                 []int32
	fat, miniFat                                                             []int32
	ents                                                                     []c13Ent
	streams                                                                  map[string][]byte
	order                                                                    []string
	notes                                                                    []string // tolerated deviations
}

func c13le32(b []byte, off int) int32 { return int32(binary.LittleEndian.Uint32(b[off:])) }

func c13cmpName(a, b string) int { // [MS-CFB] 2.6.4: length first, then upper-cased code units
	if len(a) != len(b) {
		if len(a) < len(b) {
			return -1
		}
		return 1
	}
	return strings.Compare(strings.ToUpper(a), strings.ToUpper(b))
}

// c13Read parses a compound file strictly. Any structural violation is an error.
func c13Read(b []byte) (*c13Doc, error) {
	d := &c13Doc{streams: map[string][]byte{}}
	if len(b) < 512 || len(b)%512 != 0 {
		return nil, fmt.Errorf("file length %d is not a positive multiple of 512", len(b))
	}
	if !bytes.Equal(b[:8], []byte{0xd0, 0xcf, 0x11, 0xe0, 0xa1, 0xb1, 0x1a, 0xe1}) {
		return nil, fmt.Errorf("bad signature")
	}
	if binary.LittleEndian.Uint16(b[0x1A:]) != 3 || binary.LittleEndian.Uint16(b[0x1C:]) != 0xFFFE ||
		binary.LittleEndian.Uint16(b[0x1E:]) != 9 || binary.LittleEndian.Uint16(b[0x20:]) != 6 {
		return nil, fmt.Errorf("bad version/byte order/sector shifts")
	}
	if c13le32(b, 0x28) != 0 {
		return nil, fmt.Errorf("directory sector count must be 0 in version 3")
	}
	d.numFat, d.firstDir, d.cutoff = c13le32(b, 0x2C), c13le32(b, 0x30), c13le32(b, 0x38)
	d.firstMiniFat, d.numMiniFat, d.firstDifat, d.numDifat = c13le32(b, 0x3C), c13le32(b, 0x40), c13le32(b, 0x44), c13le32(b, 0x48)
	if d.cutoff != 4096 {
		return nil, fmt.Errorf("mini stream cutoff %d", d.cutoff)
	}
	nsec := int32(len(b)/512 - 1)
	sec := func(id int32) ([]byte, error) {
		if id < 0 || id >= nsec {
			return nil, fmt.Errorf("sector %d outside file (%d sectors)", id, nsec)
		}
		return b[512*(int(id)+1) : 512*(int(id)+2)], nil
	}
	owner := map[int32]string{}
	claim := func(id int32, who string) error {
		if o, dup := owner[id]; dup {
			return fmt.Errorf("sector %d used by %s and %s", id, o, who)
		}
		owner[id] = who
		return nil
	}
	// DIFAT
	var difat []int32
	for i := 0; i < 109; i++ {
		v := c13le32(b, 0x4C+4*i)
		d.hdrDifat = append(d.hdrDifat, v)
		difat = append(difat, v)
	}
	cur := d.firstDifat
	for k := int32(0); k < d.numDifat; k++ {
		s, err := sec(cur)
		if err != nil {
			return nil, fmt.Errorf("DIFAT chain: %v", err)
		}
		if err := claim(cur, "DIFAT"); err != nil {
			return nil, err
		}
		for i := 0; i < 127; i++ {
			difat = append(difat, c13le32(s, 4*i))
		}
		cur = c13le32(s, 508)
	}
	if cur != -2 {
		return nil, fmt.Errorf("DIFAT chain does not end with ENDOFCHAIN after %d sectors (next=%d)", d.numDifat, cur)
	}
	if int(d.numFat) > len(difat) {
		return nil, fmt.Errorf("%d FAT sectors but only %d DIFAT entries", d.numFat, len(difat))
	}
	for i, v := range difat {
		if i >= int(d.numFat) && v != -1 {
			return nil, fmt.Errorf("DIFAT entry %d beyond the FAT count is %d, not FREESECT", i, v)
		}
	}
	// FAT
	for i := 0; i < int(d.numFat); i++ {
		s, err := sec(difat[i])
		if err != nil {
			return nil, fmt.Errorf("FAT sector %d: %v", i, err)
		}
		if err := claim(difat[i], "FAT"); err != nil {
			return nil, err
		}
		for j := 0; j < 128; j++ {
			d.fat = append(d.fat, c13le32(s, 4*j))
		}
	}
	if int(nsec) > len(d.fat) {
		return nil, fmt.Errorf("file has %d sectors but the FAT covers only %d", nsec, len(d.fat))
	}
	for id, who := range owner {
		want := int32(-3)
		if who == "DIFAT" {
			want = -4
		}
		if d.fat[id] != want {
			return nil, fmt.Errorf("%s sector %d is marked %d in the FAT", who, id, d.fat[id])
		}
	}
	chain := func(tbl []int32, start int32, who string, claimIt bool) ([]int32, error) {
		var ids []int32
		for s := start; s != -2; {
			if s < 0 || int(s) >= len(tbl) {
				return nil, fmt.Errorf("%s chain: entry %d out of range", who, s)
			}
			if len(ids) > len(tbl) {
				return nil, fmt.Errorf("%s chain: cycle", who)
			}
			if claimIt {
				if err := claim(s, who); err != nil {
					return nil, err
				}
			}
			ids = append(ids, s)
			s = tbl[s]
		}
		return ids, nil
	}
	cat := func(ids []int32) ([]byte, error) {
		var out []byte
		for _, id := range ids {
			s, err := sec(id)
			if err != nil {
				return nil, err
			}
			out = append(out, s...)
		}
		return out, nil
	}
	// directory
	dirIds, err := chain(d.fat, d.firstDir, "directory", true)
	if err != nil {
		return nil, err
	}
	dirB, err := cat(dirIds)
	if err != nil {
		return nil, err
	}
	for off := 0; off+128 <= len(dirB); off += 128 {
		e := dirB[off : off+128]
		nl := int(binary.LittleEndian.Uint16(e[64:]))
		ent := c13Ent{typ: int(e[66]), color: int(e[67]), left: c13le32(e, 68), right: c13le32(e, 72), child: c13le32(e, 76),
			start: c13le32(e, 116), size: binary.LittleEndian.Uint64(e[120:])}
		if ent.typ == 0 {
			ent.blank = true
			d.ents = append(d.ents, ent)
			continue
		}
		if nl < 2 || nl > 64 || nl%2 != 0 {
			return nil, fmt.Errorf("directory entry %d: name length %d", off/128, nl)
		}
		var sb strings.Builder
		for i := 0; i < nl-2; i += 2 {
			sb.WriteRune(rune(binary.LittleEndian.Uint16(e[i:])))
		}
		ent.name = sb.String()
		d.ents = append(d.ents, ent)
	}
	if len(d.ents) == 0 || d.ents[0].typ != 5 {
		return nil, fmt.Errorf("first directory entry is not the root storage")
	}
	// mini FAT
	mfIds, err := chain(d.fat, d.firstMiniFat, "miniFAT", true)
	if err != nil {
		return nil, err
	}
	if len(mfIds) != int(d.numMiniFat) {
		return nil, fmt.Errorf("miniFAT chain has %d sectors, header says %d", len(mfIds), d.numMiniFat)
	}
	mfB, _ := cat(mfIds)
	for i := 0; i+4 <= len(mfB); i += 4 {
		d.miniFat = append(d.miniFat, c13le32(mfB, i))
	}
	// mini stream container
	root := d.ents[0]
	var container []byte
	if root.size > 0 {
		ids, err := chain(d.fat, root.start, "mini stream", true)
		if err != nil {
			return nil, err
		}
		container, _ = cat(ids)
		if uint64(len(container)) < root.size {
			return nil, fmt.Errorf("mini stream chain holds %d bytes, root size %d", len(container), root.size)
		}
		container = container[:root.size]
	}
	// tree walk from the root's child: every stream must be reachable, siblings ordered
	reach := map[int32]bool{}
	var walk func(id int32, lo, hi string, depth int) error
	walk = func(id int32, lo, hi string, depth int) error {
		if id == -1 {
			return nil
		}
		if id < 0 || int(id) >= len(d.ents) || d.ents[id].blank || reach[id] || depth > len(d.ents) {
			return fmt.Errorf("directory tree: bad or repeated entry id %d", id)
		}
		reach[id] = true
		n := d.ents[id].name
		if (lo != "" && c13cmpName(lo, n) >= 0) || (hi != "" && c13cmpName(n, hi) >= 0) {
			return fmt.Errorf("directory tree: %q out of sibling order", n)
		}
		if err := walk(d.ents[id].left, lo, n, depth+1); err != nil {
			return err
		}
		return walk(d.ents[id].right, n, hi, depth+1)
	}
	treeErr := walk(root.child, "", "", 0)
	miniOwner := map[int32]string{}
	for i, e := range d.ents {
		if e.blank || i == 0 {
			continue
		}
		if e.typ != 2 {
			return nil, fmt.Errorf("directory entry %d (%q): unexpected type %d", i, e.name, e.typ)
		}
		if treeErr == nil && !reach[int32(i)] {
			treeErr = fmt.Errorf("directory tree: stream %q not reachable from the root", e.name)
		}
		var data []byte
		switch {
		case e.size == 0:
		case e.size < 4096:
			ids, err := chain(d.miniFat, e.start, "mini chain of "+e.name, false)
			if err != nil {
				return nil, err
			}
			for _, id := range ids {
				if o, dup := miniOwner[id]; dup {
					return nil, fmt.Errorf("mini sector %d used by %s and %s", id, o, e.name)
				}
				miniOwner[id] = e.name
				if 64*(int(id)+1) > len(container) {
					return nil, fmt.Errorf("mini sector %d of %q outside the mini stream (%d bytes)", id, e.name, len(container))
				}
				data = append(data, container[64*int(id):64*(int(id)+1)]...)
			}
		default:
			ids, err := chain(d.fat, e.start, "chain of "+e.name, true)
			if err != nil {
				return nil, err
			}
			data, _ = cat(ids)
		}
		if uint64(len(data)) < e.size {
			return nil, fmt.Errorf("stream %q: chain holds %d bytes, size %d", e.name, len(data), e.size)
		}
		if uint64(len(data))-e.size >= 512 || (e.size < 4096 && uint64(len(data))-e.size >= 64) {
			return nil, fmt.Errorf("stream %q: chain longer than needed (%d bytes for size %d)", e.name, len(data), e.size)
		}
		d.streams[e.name] = data[:e.size]
		d.order = append(d.order, e.name)
	}
	if treeErr != nil {
		d.notes = append(d.notes, treeErr.Error())
	}
	// every sector of the file must be owned by exactly one structure
	for id := int32(0); id < nsec; id++ {
		if _, ok := owner[id]; !ok {
			return nil, fmt.Errorf("sector %d belongs to no chain", id)
		}
	}
	for id := int(nsec); id < len(d.fat); id++ {
		if d.fat[id] != -1 {
			d.notes = append(d.notes, "FAT entries beyond the last sector are not FREESECT")
			break
		}
	}
	return d, nil
}

// mscfb (third party) view of the same bytes
func c13Mscfb(b []byte) (map[string][]byte, error) {
	doc, err := mscfb.New(bytes.NewReader(b))
	if err != nil {
		return nil, err
	}
	got := map[string][]byte{}
	for e, err := doc.Next(); err == nil; e, err = doc.Next() {
		buf, rerr := io.ReadAll(e)
		if rerr != nil {
			return nil, fmt.Errorf("%s: %v", e.Name, rerr)
		}
		got[e.Name] = buf
	}
	return got, nil
}

// ---------------------------------------------------------------------------
// canonical text shared with the Lean driver

func c13rle(l []int32) string {
	if len(l) == 0 {
		return "-"
	}
	var out []string
	for i := 0; i < len(l); {
		v := l[i]
		a := 1
		for i+a < len(l) && int64(l[i+a]) == int64(v)+int64(a) {
			a++
		}
		b := 1
		for i+b < len(l) && l[i+b] == v {
			b++
		}
		if b >= a {
			out = append(out, fmt.Sprintf("%d*%d", v, b))
			i += b
		} else {
			out = append(out, fmt.Sprintf("%d+%d", v, a))
			i += a
		}
	}
	return strings.Join(out, ",")
}

func c13fnv(b []byte) uint64 {
	h := uint64(14695981039346656037)
	for _, x := range b {
		h = (h ^ uint64(x)) * 1099511628211
	}
	return h
}

func c13sizesArg(sizes []int) string {
	s := strconv.Itoa(len(sizes))
	for _, n := range sizes {
		s += " " + strconv.Itoa(n)
	}
	return s
}

// checkContainer runs both readers on container bytes and compares with the streams put in.
// Returns "" when everything agrees, else a (signature, description).
func c13checkContainer(out []byte, names []string, cs [][]byte) (string, string) {
	doc, err := c13Read(out)
	if err != nil {
		sig := "cfb:structure"
		if strings.Contains(err.Error(), "mini sector") && strings.Contains(err.Error(), "used by") {
			sig = "cfb:mini-stream-start"
		}
		return sig, "reference reader rejects the container: " + err.Error()
	}
	third, terr := c13Mscfb(out)
	for k, n := range names {
		if !bytes.Equal(doc.streams[n], cs[k]) {
			sig := "cfb:reader-mismatch"
			if len(cs[k]) > 0 && len(cs[k]) < 4096 {
				sig = "cfb:mini-stream-start"
			}
			return sig, fmt.Sprintf("stream %q (%d bytes) read back by the reference reader differs (got %d bytes)", n, len(cs[k]), len(doc.streams[n]))
		}
	}
	if len(doc.order) != len(names) {
		return "cfb:reader-mismatch", fmt.Sprintf("container holds %d streams, %d were put", len(doc.order), len(names))
	}
	if terr != nil {
		return "cfb:mscfb-vs-ref", "mscfb fails where the reference reader succeeds: " + terr.Error()
	}
	for k, n := range names {
		if !bytes.Equal(third[n], cs[k]) {
			return "cfb:mscfb-vs-ref", fmt.Sprintf("mscfb reads stream %q differently from the reference reader", n)
		}
	}
	return "", ""
}

// ---------------------------------------------------------------------------
// ops

var c13zero = make([]byte, 1<<25)

func c13loc(r *Run, sizes []int) {
	// locate only looks at len(content): zero pages, never touched
	var names []string
	var cs [][]byte
	for k, n := range sizes {
		names = append(names, c13name(k))
		for n > len(c13zero) {
			c13zero = make([]byte, 2*n)
		}
		cs = append(cs, c13zero[:n])
	}
	op := "loc " + c13sizesArg(sizes)
	res := "PANIC"
	func() {
		defer func() { _ = recover() }()
		v := xl.VerifC13Locate(names, cs)
		// location[0] (header sectors) is a fact; print location[1..7], root start, root size
		res = fmt.Sprintf("%d %d %d %d %d %d %d %d %d", v[1], v[2], v[3], v[4], v[5], v[6], v[7], v[8], v[9])
		// direct oracle: the FAT covers every sector (incl. itself and the DIFAT) and is not larger than needed
		total := v[7] - 1
		if v[2]*128 < total || (v[2] > 0 && (v[2]-1)*128 >= total) {
			r.Fail("loc:fat-cover", fmt.Sprintf("locate%v: %d FAT sectors for %d sectors", sizes, v[2], total), 0, op)
		}
		if 109+127*v[1] < v[2] || (v[1] > 0 && 109+127*(v[1]-1) >= v[2]) {
			r.Fail("loc:difat-cover", fmt.Sprintf("locate%v: %d DIFAT sectors for %d FAT sectors", sizes, v[1], v[2]), 0, op)
		}
		r.Stat(fmt.Sprintf("loc:difat=%d", v[1]))
	}()
	r.Op(op, res)
	r.Case(op, true)
	r.Stat("op:loc")
}

func c13cfb(r *Run, sizes []int) {
	names, cs := c13streams(sizes)
	op := "cfb " + c13sizesArg(sizes)
	res := "PANIC"
	var out []byte
	func() {
		defer func() { _ = recover() }()
		out = xl.VerifC13CfbWrite(names, cs)
		res = "unparsed"
	}()
	sig, what := "", ""
	if out != nil {
		sig, what = c13checkContainer(out, names, cs)
		rt := "1"
		if sig != "" && sig != "cfb:mscfb-vs-ref" {
			rt = "0"
		}
		res = c13canon(out) + " rt=" + rt
	} else {
		sig, what = "cfb:panic", "(*cfb).write panicked"
	}
	ln := r.Op(op, res)
	nontrivial := false
	for _, n := range sizes {
		if n > 0 {
			nontrivial = true
		}
	}
	r.Case(op, nontrivial)
	r.Stat("op:cfb")
	r.Stat("cfb:class:" + c13class(sizes))
	if sig != "" {
		r.Fail(sig, fmt.Sprintf("cfb.write(sizes %v): %s", sizes, what), ln, op)
	}
}

// c13canon prints header fields, table words (by position) and directory entries of container bytes.
func c13canon(b []byte) string {
	if len(b) < 512 {
		return fmt.Sprintf("len=%d short", len(b))
	}
	h := func(off int) int32 { return c13le32(b, off) }
	var hd []int32
	for i := 0; i < 109; i++ {
		hd = append(hd, h(0x4C+4*i))
	}
	firstDir := int(h(0x30))
	var tbl []int32
	end := 512 * (firstDir + 1)
	if end > len(b) {
		end = len(b)
	}
	for off := 512; off+4 <= end; off += 4 {
		tbl = append(tbl, c13le32(b, off))
	}
	// directory: follow the FAT by position (FAT sectors are those listed in the header DIFAT / by position)
	var dir []string
	if doc, err := c13ReadLoose(b); err == nil {
		for _, e := range doc {
			if e.blank {
				dir = append(dir, "_")
			} else {
				dir = append(dir, fmt.Sprintf("%s:%d:%d:%d:%d:%d:%d:%d", hx(e.name), e.typ, e.color, e.left, e.right, e.child, e.start, e.size))
			}
		}
	} else {
		dir = append(dir, "unreadable")
	}
	// byte regions described through the directory: streams at or above the cutoff and the mini stream container
	var regs []string
	if doc, err := c13ReadLoose(b); err == nil {
		for _, e := range doc {
			if e.blank || !((e.typ == 2 && e.size >= 4096) || (e.typ == 5 && e.size > 0)) || e.start < 0 {
				continue
			}
			n := (int(e.size) + 511) / 512
			lo, hi := 512*(int(e.start)+1), 512*(int(e.start)+1+n)
			if lo > len(b) {
				lo = len(b)
			}
			if hi > len(b) {
				hi = len(b)
			}
			regs = append(regs, fmt.Sprintf("%s:%d:%d:%d", hx(e.name), e.start, n, c13fnv(b[lo:hi])))
		}
	}
	reg := "-"
	if len(regs) > 0 {
		reg = strings.Join(regs, ";")
	}
	return fmt.Sprintf("len=%d hdr=%d,%d,%d,%d,%d,%d,%d hd=%s tbl=%s dir=%s hdr76=%s reg=%s h=%d", len(b), h(0x2C), h(0x30), h(0x38), h(0x3C), h(0x40), h(0x44), h(0x48),
		c13rle(hd), c13rle(tbl), strings.Join(dir, ";"), hx(string(b[:76])), reg, c13fnv(b))
}

// c13ReadLoose returns the directory entries in file order, located by following the FAT
// found through the DIFAT; no strictness (used only for printing).
func c13ReadLoose(b []byte) ([]c13Ent, error) {
	nsec := len(b)/512 - 1
	sec := func(id int32) []byte {
		if id < 0 || int(id) >= nsec {
			return nil
		}
		return b[512*(int(id)+1) : 512*(int(id)+2)]
	}
	var difat []int32
	for i := 0; i < 109; i++ {
		difat = append(difat, c13le32(b, 0x4C+4*i))
	}
	cur := c13le32(b, 0x44)
	for k := int32(0); k < c13le32(b, 0x48) && cur >= 0; k++ {
		s := sec(cur)
		if s == nil {
			return nil, fmt.Errorf("difat")
		}
		for i := 0; i < 127; i++ {
			difat = append(difat, c13le32(s, 4*i))
		}
		cur = c13le32(s, 508)
	}
	var fat []int32
	for i := 0; i < int(c13le32(b, 0x2C)) && i < len(difat); i++ {
		s := sec(difat[i])
		if s == nil {
			return nil, fmt.Errorf("fat")
		}
		for j := 0; j < 128; j++ {
			fat = append(fat, c13le32(s, 4*j))
		}
	}
	var ents []c13Ent
	steps := 0
	for s := c13le32(b, 0x30); s != -2; s = fat[s] {
		if s < 0 || int(s) >= len(fat) || steps > len(fat) {
			return nil, fmt.Errorf("dir chain")
		}
		steps++
		sb := sec(s)
		if sb == nil {
			return nil, fmt.Errorf("dir sector")
		}
		for off := 0; off < 512; off += 128 {
			e := sb[off : off+128]
			ent := c13Ent{typ: int(e[66]), color: int(e[67]), left: c13le32(e, 68), right: c13le32(e, 72), child: c13le32(e, 76),
				start: c13le32(e, 116), size: binary.LittleEndian.Uint64(e[120:])}
			if ent.typ == 0 {
				ent.blank = true
			} else {
				nl := int(binary.LittleEndian.Uint16(e[64:]))
				var nb strings.Builder
				for i := 0; i+2 <= nl-2 && i < 64; i += 2 {
					nb.WriteRune(rune(binary.LittleEndian.Uint16(e[i:])))
				}
				ent.name = nb.String()
			}
			ents = append(ents, ent)
		}
	}
	return ents, nil
}

func c13class(sizes []int) string {
	var cl []string
	for _, n := range sizes {
		switch {
		case n == 0:
			cl = append(cl, "empty")
		case n < 4096:
			cl = append(cl, "mini")
		default:
			cl = append(cl, "big")
		}
	}
	return strings.Join(cl, "+")
}

func c13pwClass(p string) string {
	switch {
	case len(p) == 0:
		return "empty"
	case len(p) > 255:
		return "too-long"
	case strings.ContainsRune(p, 0):
		return "embedded-nul"
	}
	astral, multi := false, false
	for _, ch := range p {
		if ch > 0xFFFF {
			astral = true
		} else if ch > 0x7F {
			multi = true
		}
	}
	switch {
	case astral:
		return "astral"
	case multi:
		return "multibyte"
	case len(p) >= 250:
		return "ascii-max"
	}
	return "ascii"
}

func c13decrypt(enc []byte, pw string) (out []byte, res string) {
	res = "PANIC"
	func() {
		defer func() { _ = recover() }()
		d, err := xl.Decrypt(enc, &xl.Options{Password: pw})
		if err != nil {
			res = "err"
			return
		}
		out, res = d, "ok"
	}()
	return
}

// c13wrong derives wrong-password variants of p (all different from p).
func c13wrong(p string, rng *Rng) []string {
	cands := []string{"", p + "\x00", p + " ", strings.ToUpper(p), strings.ToLower(p), "x" + p, "password", p + p}
	if len(p) > 1 {
		cands = append(cands, p[:len(p)-1], p[1:])
		b := []byte(p)
		b[rng.Intn(len(b))] ^= 1
		cands = append(cands, string(b))
	}
	var out []string
	seen := map[string]bool{p: true}
	for _, c := range cands {
		if !seen[c] && len(c) <= 255 {
			seen[c] = true
			out = append(out, c)
		}
	}
	return out
}

func c13enc(r *Run, rng *Rng, pw string, n, k int, nWrong int) {
	op := fmt.Sprintf("enc %s %d %d", hx(pw), n, k)
	raw := c13pat(n, k)
	var enc []byte
	var eerr error
	res := "PANIC"
	func() {
		defer func() { _ = recover() }()
		enc, eerr = xl.Encrypt(raw, &xl.Options{Password: pw})
		res = ""
	}()
	r.Stat("op:enc")
	r.Stat("enc:pw:" + c13pwClass(pw))
	if res == "PANIC" {
		ln := r.Op(op, res)
		r.Case(op, true)
		r.Fail("enc:panic", fmt.Sprintf("Encrypt(%d bytes, password %q) panicked", n, pw), ln, op)
		return
	}
	if eerr != nil {
		ln := r.Op(op, "ERR")
		r.Case(op, false)
		if len(pw) >= 1 && len(pw) <= 255 {
			r.Fail("enc:reject-valid-password", fmt.Sprintf("Encrypt rejects the %d-byte password %q: %v", len(pw), pw, eerr), ln, op)
		}
		return
	}
	if len(pw) < 1 || len(pw) > 255 {
		ln := r.Op(op, "accepted")
		r.Case(op, false)
		r.Fail("enc:accept-invalid-password", fmt.Sprintf("Encrypt accepts a %d-byte password", len(pw)), ln, op)
		return
	}
	// container structure: both readers, sizes of the two streams
	info, pkg := -1, -1
	structSig, structWhat := "", ""
	if doc, err := c13Read(enc); err == nil {
		info, pkg = len(doc.streams["EncryptionInfo"]), len(doc.streams["EncryptedPackage"])
		for _, note := range doc.notes {
			if strings.HasPrefix(note, "directory tree") {
				structSig, structWhat = "enc:structure", note
			} else {
				r.Stat("note:" + note)
			}
		}
		if third, terr := c13Mscfb(enc); terr != nil || !bytes.Equal(third["EncryptedPackage"], doc.streams["EncryptedPackage"]) || !bytes.Equal(third["EncryptionInfo"], doc.streams["EncryptionInfo"]) {
			structSig, structWhat = "cfb:mscfb-vs-ref", fmt.Sprintf("mscfb and the reference reader disagree on Encrypt's output (%v)", terr)
		}
		c13einfo(r, doc.streams["EncryptionInfo"])
		if verr := c13verifier(doc.streams["EncryptionInfo"], pw); verr != nil {
			structSig, structWhat = "enc:verifier", "the EncryptionInfo written by Encrypt does not verify under the password with an independent key derivation: "+verr.Error()
		}
		if pkg >= 8 && binary.LittleEndian.Uint64(doc.streams["EncryptedPackage"][:8]) != uint64(n) {
			structSig, structWhat = "enc:length-prefix", "EncryptedPackage does not start with the plaintext length"
		}
	} else {
		structSig, structWhat = "enc:structure", "reference reader rejects Encrypt's output: "+err.Error()
		if strings.Contains(err.Error(), "mini sector") {
			structSig = "enc:mini-stream-start"
		}
		// sizes as recorded in the directory, for the transcript
		if ents, e2 := c13ReadLoose(enc); e2 == nil {
			for _, e := range ents {
				if e.name == "EncryptionInfo" {
					info = int(e.size)
				}
				if e.name == "EncryptedPackage" {
					pkg = int(e.size)
				}
			}
		}
	}
	dec, dres := c13decrypt(enc, pw)
	switch dres {
	case "ok":
		eq := 0
		if bytes.Equal(dec, raw) {
			eq = 1
		}
		dres = fmt.Sprintf("ok %d %d", len(dec), eq)
	}
	ln := r.Op(op, fmt.Sprintf("info=%d pkg=%d total=%d dec=%s", info, pkg, len(enc), dres))
	r.Case(op, true)
	r.Stat("enc:class:" + c13class([]int{info, pkg}))
	if structSig != "" {
		r.Fail(structSig, fmt.Sprintf("Encrypt(%d bytes, %q): %s", n, pw, structWhat), ln, op)
	}
	if !(dres == fmt.Sprintf("ok %d 1", n)) {
		sig := "enc:roundtrip"
		switch {
		case pkg >= 0 && pkg < 4096 && n > 0:
			sig = "enc:roundtrip:mini-stream"
		case dec != nil && len(dec) > n && bytes.Equal(dec[:n], raw) && len(dec)-n < 16 && bytes.Equal(dec[n:], make([]byte, len(dec)-n)):
			sig = "enc:roundtrip:padding"
		}
		r.Fail(sig, fmt.Sprintf("Decrypt(Encrypt(b,p),p) != b for len(b)=%d, password %q (%s): outcome %s", n, pw, c13pwClass(pw), dres), ln, op)
	}
	// wrong passwords: Decrypt must never hand back the content
	ws := c13wrong(pw, rng)
	for i := 0; i < nWrong && i < len(ws); i++ {
		w := ws[(i+k)%len(ws)]
		wd, wres := c13decrypt(enc, w)
		r.Stat("enc:wrong:" + wres)
		// n >= 8: Encrypt draws a random salt, and garbage truncated to a 1..7-byte plaintext length
		// coincides with the plaintext with probability up to 1/256 per attempt (a false alarm seen
		// once in a fresh sandbox); 8 bytes make a coincidence a 2^-64 event
		if wres == "ok" && n >= 8 && (bytes.Equal(wd, raw) || (len(wd) >= n && n >= 16 && bytes.Equal(wd[:n], raw))) {
			r.Fail("decrypt:wrong-password-content", fmt.Sprintf("Decrypt with wrong password %q returns the content protected with %q", w, pw), 0, op)
		}
		if wres == "PANIC" {
			r.Fail("decrypt:wrong-password-panic", fmt.Sprintf("Decrypt with wrong password %q panics", w), 0, op)
		}
	}
}

// ---------------------------------------------------------------------------
// Go-only oracles

func c13obs(f *xl.File) string {
	var sb strings.Builder
	for _, sh := range f.GetSheetList() {
		rows, err := f.GetRows(sh)
		fmt.Fprintf(&sb, "[%s %v]", sh, err)
		for i, row := range rows {
			for j, c := range row {
				if c != "" {
					fmt.Fprintf(&sb, "%d,%d=%q;", i, j, c)
				}
			}
		}
	}
	return sb.String()
}

func c13randText(rng *Rng, n int) string {
	const al = "abcdefghijklmnopqrstuvwxyzABCDEFGHIJKLMNOPQRSTUVWXYZ0123456789 -_"
	b := make([]byte, n)
	for i := range b {
		b[i] = al[rng.Intn(len(al))]
	}
	return string(b)
}

func c13open(r *Run, pw string, rows int, seed uint64) {
	line := fmt.Sprintf("open %s %d %d", hx(pw), rows, seed)
	rng := NewRng(seed)
	r.Stat("op:open")
	r.Stat("open:pw:" + c13pwClass(pw))
	if pw == "" { // the API defines the empty password as "no protection": nothing to check
		return
	}
	fail := func(sig, what string) { r.Fail(sig, what+" ("+line+")", 0, line) }
	defer func() {
		if p := recover(); p != nil {
			fail("open:panic", fmt.Sprintf("panic: %v", p))
		}
	}()
	f := xl.NewFile()
	defer f.Close()
	_ = f.SetCellValue("Sheet1", "A1", "SECRET")
	_ = f.SetCellValue("Sheet1", "B2", 42.5)
	if rng.Bool() {
		_, _ = f.NewSheet("Other")
		_ = f.SetCellValue("Other", "C3", "x<&>\"y")
	}
	cellLen := 40
	if rows > 2000 {
		cellLen = 900
	}
	for i := 0; i < rows; i++ {
		cell, _ := xl.CoordinatesToCellName(1+i%8, 3+i/8)
		_ = f.SetCellStr("Sheet1", cell, c13randText(rng, cellLen))
	}
	before := c13obs(f)
	buf, err := f.WriteToBuffer()
	if err != nil {
		fail("open:save", fmt.Sprintf("WriteToBuffer without password fails: %v", err))
		return
	}
	plainLen := buf.Len()
	var enc bytes.Buffer
	if err := f.Write(&enc, xl.Options{Password: pw}); err != nil {
		if len(pw) >= 1 && len(pw) <= 255 {
			fail("open:save-rejects-valid-password", fmt.Sprintf("Write with %d-byte password fails: %v", len(pw), err))
		}
		r.Case(line, false)
		return
	}
	r.Case(line, true)
	r.Stat(fmt.Sprintf("open:plain-size<2^%d", c13log2(plainLen)))
	eb := enc.Bytes()
	if !bytes.Contains(eb[:8], []byte{0xd0, 0xcf, 0x11, 0xe0}) {
		fail("open:not-encrypted", "Write with a password did not produce a compound file")
		return
	}
	if _, err := zip.NewReader(bytes.NewReader(eb), int64(len(eb))); err == nil {
		fail("open:not-encrypted", "the protected file is readable as a plain zip")
	}
	if sig, what := c13containerOf(eb); sig != "" {
		fail(sig, what)
	}
	g, err := xl.OpenReader(bytes.NewReader(eb), xl.Options{Password: pw})
	if err != nil {
		fail("open:roundtrip", fmt.Sprintf("OpenReader with the right password fails: %v (plain package %d bytes)", err, plainLen))
	} else {
		after := c13obs(g)
		g.Close()
		if after != before {
			fail("open:roundtrip", fmt.Sprintf("content differs after save-with-password/open (plain package %d bytes)", plainLen))
		}
	}
	for i, w := range c13wrong(pw, rng) {
		if i >= 3 && w != "" {
			continue
		}
		g, err := xl.OpenReader(bytes.NewReader(eb), xl.Options{Password: w})
		r.Stat("open:wrong-tried")
		if err == nil {
			sig := "open:wrong-password-accepted"
			if w == "" {
				sig = "open:missing-password-accepted"
			}
			fail(sig, fmt.Sprintf("OpenReader with password %q opens a file protected with %q", w, pw))
			g.Close()
		} else if g != nil {
			fail("open:content-with-error", fmt.Sprintf("OpenReader with wrong password %q returns a *File together with the error", w))
		}
	}
	// no options at all (missing password)
	if g, err := xl.OpenReader(bytes.NewReader(eb)); err == nil {
		fail("open:missing-password-accepted", "OpenReader without options opens the protected file")
		g.Close()
	}
}

func c13log2(n int) int {
	k := 0
	for (1 << k) <= n {
		k++
	}
	return k
}

// c13containerOf checks Encrypt's container with both readers (no knowledge of the plaintext).
func c13containerOf(eb []byte) (string, string) {
	doc, err := c13Read(eb)
	if err != nil {
		return "enc:structure", "reference reader rejects the protected file: " + err.Error()
	}
	third, terr := c13Mscfb(eb)
	if terr != nil {
		return "cfb:mscfb-vs-ref", "mscfb rejects the protected file: " + terr.Error()
	}
	for _, n := range []string{"EncryptionInfo", "EncryptedPackage"} {
		if !bytes.Equal(third[n], doc.streams[n]) || len(doc.streams[n]) == 0 {
			return "cfb:mscfb-vs-ref", "readers disagree on stream " + n
		}
	}
	for _, note := range doc.notes {
		if strings.HasPrefix(note, "directory tree") {
			return "enc:structure", note
		}
	}
	return "", ""
}

func c13big(r *Run, sizes []int) {
	line := "big " + c13sizesArg(sizes)
	r.Stat("op:big")
	names, cs := c13streams(sizes)
	defer func() {
		if p := recover(); p != nil {
			r.Fail("cfb:panic", fmt.Sprintf("cfb.write(%v) panicked: %v", sizes, p), 0, line)
		}
	}()
	out := xl.VerifC13CfbWrite(names, cs)
	r.Case(line, true)
	if sig, what := c13checkContainer(out, names, cs); sig != "" {
		r.Fail(sig, fmt.Sprintf("cfb.write(sizes %v): %s", sizes, what), 0, line)
	}
	r.Stat(fmt.Sprintf("big:difat=%d", c13le32(out, 0x48)))
}

func c13fixture(r *Run, file, pw string) {
	line := fmt.Sprintf("fixture %s %s", file, hx(pw))
	r.Stat("op:fixture")
	repo := os.Getenv("VERIF_REPO")
	if repo == "" {
		repo = "/repo"
	}
	raw, err := os.ReadFile(filepath.Join(repo, "test", file))
	if err != nil {
		r.Notes = append(r.Notes, "fixture "+file+" not readable: "+err.Error())
		return
	}
	r.Case(line, true)
	mech := "?"
	if third, err := c13Mscfb(raw); err == nil {
		mech, _ = xl.VerifC13EncryptionMechanism(third["EncryptionInfo"])
	}
	r.Stat("fixture:mechanism:" + mech)
	dec, res := c13decrypt(raw, pw)
	if res != "ok" {
		r.Fail("fixture:decrypt", fmt.Sprintf("%s (%s): Decrypt outcome %s", file, mech, res), 0, line)
		return
	}
	zr, err := zip.NewReader(bytes.NewReader(dec), int64(len(dec)))
	if err != nil {
		r.Fail("fixture:not-a-package", fmt.Sprintf("%s (%s): decrypted bytes are not a zip: %v", file, mech, err), 0, line)
		return
	}
	okCT := false
	for _, zf := range zr.File {
		if zf.Name == "[Content_Types].xml" {
			okCT = true
		}
		rc, err := zf.Open()
		if err == nil {
			_, err = io.Copy(io.Discard, rc)
			rc.Close()
		}
		if err != nil {
			r.Fail("fixture:not-a-package", fmt.Sprintf("%s: part %s unreadable: %v", file, zf.Name, err), 0, line)
			return
		}
	}
	if !okCT {
		r.Fail("fixture:not-a-package", file+": no [Content_Types].xml", 0, line)
	}
	g, err := xl.OpenReader(bytes.NewReader(raw), xl.Options{Password: pw})
	if err != nil {
		r.Fail("fixture:open", fmt.Sprintf("%s: OpenReader with the right password: %v", file, err), 0, line)
	} else {
		g.Close()
	}
	for _, w := range []string{"", pw + "x", "Password"} {
		if g, err := xl.OpenReader(bytes.NewReader(raw), xl.Options{Password: w}); err == nil {
			r.Fail("open:wrong-password-accepted", fmt.Sprintf("%s opens with wrong password %q", file, w), 0, line)
			g.Close()
		}
	}
}

// ---------------------------------------------------------------------------
// generators

// c13pkgSizes: EncryptedPackage sizes across every boundary of the writer.
func c13boundarySizes() []int {
	s := []int{0, 1, 8, 15, 16, 17, 24, 63, 64, 65, 127, 128, 129, 248, 511, 512, 513, 1024, 2048, 3839, 3840, 3841, 4031, 4032, 4033}
	for n := 4080; n <= 4112; n++ {
		s = append(s, n)
	}
	for _, c := range []int{4608, 5120, 8192, 16384, 32768, 57344, 58368, 60416, 61440, 61952, 62464, 62976, 63488, 64000, 64512, 65024, 65536, 66048, 126976, 127488, 128000, 130048, 131072} {
		s = append(s, c-1, c, c+1)
	}
	return s
}

func c13passwords(rng *Rng) []string {
	ps := []string{"a", "pw", "password", "passwd", "Pa$$w0rd!", " ", "\x00", "a\x00b", "\x00\x00", "trailing\x00",
		"é", "пароль", "密码", "パスワード", "é", "ß", "\u00a0", "😀", "𝓹𝔀", "a😀b\x00c", "\U0010FFFF", "\ufeffbom", "\ufffd",
		strings.Repeat("a", 254), strings.Repeat("a", 255), strings.Repeat("é", 127), strings.Repeat("é", 127) + "a", strings.Repeat("😀", 63), strings.Repeat("😀", 63) + "abc",
		strings.Repeat("\x00", 255)}
	for i := 0; i < 20; i++ {
		n := rng.Range(1, 40)
		var sb strings.Builder
		for sb.Len() < n {
			switch rng.Intn(5) {
			case 0:
				sb.WriteRune(rune(rng.Range(0x20, 0x7E)))
			case 1:
				sb.WriteRune(rune(rng.Range(0xA0, 0x7FF)))
			case 2:
				sb.WriteRune(rune(rng.Range(0x800, 0xD7FF)))
			case 3:
				sb.WriteRune(rune(rng.Range(0x10000, 0x10FFFF)))
			default:
				sb.WriteByte(0)
			}
		}
		p := sb.String()
		if len(p) > 255 {
			continue
		}
		ps = append(ps, p)
	}
	return ps
}

func runC13(r *Run, rng *Rng, replay string) {
	r.Rule = "loc: every (info,package) size pair on the boundary grid plus seeded pairs/triples, all sector steps around the 109- and 236-FAT-sector thresholds; cfb: whole container bytes vs model for the boundary grid; enc: real Encrypt->Decrypt over password classes x boundary sizes; open: save-with-password/OpenReader with right, wrong and missing passwords. non-trivial = at least one non-empty stream (loc/cfb), accepted password (enc/open); distinct by op text"
	if replay != "" {
		c13replay(r, rng, replay)
		return
	}
	thorough := r.Tier == "thorough"
	sizes := c13boundarySizes()
	t0 := time.Now()
	mark := func(phase string) {
		r.Notes = append(r.Notes, fmt.Sprintf("phase %s: %.1fs", phase, time.Since(t0).Seconds()))
		t0 = time.Now()
	}
	// 0. witnesses of reconnaissance (DESIGN section 6), always first
	c13cfb(r, []int{248, 24})
	c13enc(r, rng, "pw", 1, 1, 2)
	c13enc(r, rng, "pw", 4080, 1, 1)
	c13enc(r, rng, "pw", 5000, 1, 1)
	// 1. locate: boundary grid for the package, info fixed at 248 (what Encrypt produces), 0 and a big one
	for _, info := range []int{248, 0, 4096, 5000} {
		for _, n := range sizes {
			c13loc(r, []int{info, n})
		}
	}
	// all sector steps around the FAT-sector boundaries and the DIFAT thresholds
	for _, fatSecs := range []int{1, 2, 3, 108, 109, 110, 111, 235, 236, 237, 238, 363, 364} {
		centre := fatSecs * 128 * 512
		span := 6
		if thorough {
			span = 40
		}
		for d := -span - fatSecs - 6; d <= span; d++ {
			n := centre + d*512
			if n < 0 {
				continue
			}
			c13loc(r, []int{248, n})
			if d%3 == 0 {
				c13loc(r, []int{248, n - 1})
				c13loc(r, []int{248, n + 1})
			}
		}
	}
	nRand := 4000
	if thorough {
		nRand = 40000
	}
	for i := 0; i < nRand; i++ {
		k := rng.Range(1, 4)
		var ss []int
		for j := 0; j < k; j++ {
			switch rng.Intn(6) {
			case 0:
				ss = append(ss, rng.Pick2(sizes))
			case 1:
				ss = append(ss, rng.Range(0, 4200))
			case 2:
				ss = append(ss, rng.Range(4000, 70000))
			case 3:
				ss = append(ss, rng.Range(0, 20000000))
			case 4:
				ss = append(ss, 128*512*rng.Range(1, 400)+512*rng.Range(-140, 3)+rng.Range(-1, 1))
			default:
				ss = append(ss, 0)
			}
			if ss[j] < 0 {
				ss[j] = 0
			}
		}
		c13loc(r, ss)
	}
	mark("loc")
	// 2. cfb: whole container for the boundary grid
	for _, n := range sizes {
		c13cfb(r, []int{248, n})
	}
	for _, n := range []int{0, 1, 64, 4095, 4096, 70000} {
		c13cfb(r, []int{0, n})
		c13cfb(r, []int{4096, n})
		c13cfb(r, []int{n, 248})
	}
	nCfb := 150
	if thorough {
		nCfb = 600
	}
	for i := 0; i < nCfb; i++ {
		k := rng.Range(1, 5)
		var ss []int
		for j := 0; j < k; j++ {
			switch rng.Intn(4) {
			case 0:
				ss = append(ss, rng.Pick2(sizes))
			case 1:
				ss = append(ss, rng.Range(0, 300))
			case 2:
				ss = append(ss, rng.Range(3900, 9000))
			default:
				ss = append(ss, rng.Range(0, 140000))
			}
		}
		c13cfb(r, ss)
	}
	if thorough {
		// the DIFAT threshold with the model in the loop (multi-MiB lists on the Lean side)
		th := 109 * 128 * 512
		for _, n := range []int{th - 57344, th - 56832, th - 56320, th - 55808, th} {
			c13cfb(r, []int{248, n})
		}
	}
	mark("cfb")
	// 3. big containers, Go side only (reference reader + mscfb): around 109 and 236 FAT sectors
	bigs := []int{109*128*512 - 57344, 109*128*512 - 56832, 109*128*512 - 56320, 109*128*512 - 55808, 236*128*512 - 122880, 236*128*512 - 121856}
	if thorough {
		for d := -130; d <= 4; d += 1 {
			bigs = append(bigs, 109*128*512+d*512, 236*128*512+(d-110)*512)
		}
		bigs = append(bigs, 364*128*512-190000, 40000000)
	}
	for _, n := range bigs {
		c13big(r, []int{248, n})
	}
	mark("big")
	// 4. real Encrypt -> Decrypt: passwords x sizes
	pws := c13passwords(rng)
	for i, p := range pws {
		n := sizes[(i*7+int(r.Seed))%len(sizes)]
		c13enc(r, rng, p, n, i, i%2)
	}
	nEnc := 100
	if thorough {
		nEnc = 1500
	}
	for i := 0; i < nEnc; i++ {
		p := pws[rng.Intn(len(pws))]
		var n int
		switch rng.Intn(4) {
		case 0:
			n = rng.Range(0, 4200)
		case 1:
			n = rng.Range(4000, 200000)
		default:
			n = rng.Pick2(sizes)
		}
		c13enc(r, rng, p, n, rng.Intn(200), rng.Intn(2))
	}
	if thorough {
		for _, n := range []int{109*128*512 - 56840, 109*128*512 - 56320 - 8, 8000000} {
			c13enc(r, rng, "большой", n, 3, 1)
		}
	}
	// malformed stream: passwords outside 1..255 bytes must be rejected
	for _, p := range []string{"", strings.Repeat("a", 256), strings.Repeat("é", 128), strings.Repeat("😀", 64), strings.Repeat("x", 1000)} {
		c13enc(r, rng, p, 5000, 0, 0)
	}
	mark("enc")
	// 4b. agile segment loop (synthesised conformant documents) and password -> UTF-16LE
	for i, S := range c13agileSizes(rng, thorough) {
		c13agile(r, S, i%7)
	}
	c13agilen(r, 4092, 0) // regression: stream length 4100 panicked (slice bounds out of range [4104:4100])
	for i, N := range c13agilenSizes() {
		c13agilen(r, N, i%5)
	}
	mark("agile")
	c13sinfoCases(r, rng, thorough)
	mark("sinfo")
	c13kdCases(r, rng, pws, thorough)
	for _, kb := range []int{128, 192, 256} {
		c13stdsyn(r, kb, 0, int(r.Seed)%200)
		c13stdsyn(r, kb, 5000+kb, 3)
		c13stdsyn(r, kb, 17, 4)
	}
	mark("kd")
	c13conc(r, r.Seed)
	if thorough {
		for i := uint64(1); i <= 5; i++ {
			c13conc(r, r.Seed*10+i)
		}
	}
	mark("conc")
	for i, k := range c13openKinds {
		c13openmap(r, k, uint64(i)+r.Seed*100)
	}
	mark("openmap")
	for _, p := range pws {
		c13u16(r, p)
	}
	for _, p := range []string{"", "\xff", "a\xc3", "\xed\xa0\x80", "\xf4\x90\x80\x80", "ok\x00", "\U00010000", "\uffff", "\ud7ff\ue000"} {
		c13u16(r, p)
	}
	// 5. save with password / OpenReader
	nOpen := 14
	if thorough {
		nOpen = 120
	}
	for i := 0; i < nOpen; i++ {
		p := pws[(i*5+int(r.Seed))%len(pws)]
		rows := []int{0, 1, 10, 100, 400, 1500}[i%6]
		c13open(r, p, rows, rng.U64()%1000000)
	}
	c13open(r, "", 3, 5)
	c13open(r, strings.Repeat("a", 256), 3, 5)
	if thorough {
		c13open(r, "пароль😀", 12000, 77) // plain package > 7 MiB: DIFAT sectors in a real protected workbook
	}
	mark("open")
	// 6. Office-produced fixtures
	c13fixture(r, "encryptAES.xlsx", "password")
	c13fixture(r, "encryptSHA1.xlsx", "password")
	for _, s := range r.opsSample(10) {
		r.Sample(s)
	}
	keys := make([]string, 0)
	for k := range r.Stats {
		if strings.HasPrefix(k, "note:") {
			keys = append(keys, k)
		}
	}
	sort.Strings(keys)
	for _, k := range keys {
		r.Notes = append(r.Notes, fmt.Sprintf("tolerated deviation seen %d times: %s", r.Stats[k], k[5:]))
	}
}

func c13replay(r *Run, rng *Rng, path string) {
	for _, line := range readLines(path) {
		w := strings.Fields(line)
		if len(w) == 0 || strings.HasPrefix(w[0], "#") {
			continue
		}
		ints := func(ws []string) []int {
			var out []int
			for _, x := range ws {
				n, _ := strconv.Atoi(x)
				out = append(out, n)
			}
			return out
		}
		switch w[0] {
		case "loc":
			if len(w) >= 2 {
				c13loc(r, ints(w[2:]))
			}
		case "cfb":
			if len(w) >= 2 {
				c13cfb(r, ints(w[2:]))
			}
		case "big":
			if len(w) >= 2 {
				c13big(r, ints(w[2:]))
			}
		case "agile":
			if len(w) == 3 {
				v := ints(w[1:])
				c13agile(r, v[0], v[1])
			}
		case "agilen":
			if len(w) == 3 {
				v := ints(w[1:])
				c13agilen(r, v[0], v[1])
			}
		case "stdsyn":
			if len(w) == 4 {
				v := ints(w[1:])
				c13stdsyn(r, v[0], v[1], v[2])
			}
		case "conc":
			if len(w) == 2 {
				n, _ := strconv.ParseUint(w[1], 10, 64)
				c13conc(r, n)
			}
		case "kds":
			if len(w) == 4 {
				n, _ := strconv.Atoi(w[3])
				c13kds(r, []byte(unhx(w[1])), unhx(w[2]), n)
			}
		case "kda":
			if len(w) == 6 {
				v := ints(w[3:5])
				c13kda(r, []byte(unhx(w[1])), unhx(w[2]), v[0], v[1], []byte(unhx(w[5])))
			}
		case "openmap":
			if len(w) >= 3 {
				n, _ := strconv.ParseUint(w[2], 10, 64)
				c13openmap(r, w[1], n)
			}
		case "sinfo":
			if len(w) == 3 {
				n, _ := strconv.Atoi(w[2])
				c13sinfo(r, []byte(unhx(w[1])), n)
			}
		case "u16":
			if len(w) == 2 {
				c13u16(r, unhx(w[1]))
			}
		case "enc":
			if len(w) == 4 {
				v := ints(w[2:])
				c13enc(r, rng, unhx(w[1]), v[0], v[1], 3)
			}
		case "open":
			if len(w) >= 4 {
				v := ints(w[2:4])
				c13open(r, unhx(w[1]), v[0], uint64(v[1]))
			}
		case "fixture":
			if len(w) == 3 {
				c13fixture(r, w[1], unhx(w[2]))
			}
		}
	}
}
