//go:build verif_c13

package main

// C13, second part: agile segment loop, password -> UTF-16LE, standard verifier.
//
// Transcript ops (model: XlModel.Crypt via lean/XlModel/Drv/C13.lean):
//   agile <S> <k>   a spec-conformant agile-encrypted document ([MS-OFFCRYPTO] 2.3.4.10-15) holding
//                   S plaintext bytes is synthesised here (own AES-CBC segment encryptor, SHA-512,
//                   spin count 1), wrapped with the hooked cfb writer and given to the public
//                   Decrypt: output length and the number of leading plaintext bytes recovered
//                   (rounded down to the AES block) vs the model of decryptPackage's segment loop
//   u16 <pwhex>     UTF-16LE code units of a password: golang.org/x/text encoder (the call crypt.go
//                   makes) and an independent encoder (unicode/utf16) vs the model utf16le
// Direct oracle added to `enc`: the EncryptionInfo written by Encrypt verifies under the password
// with an independent key derivation (own UTF-16LE, own SHA-1 iteration): the verifier check that
// Office performs; ties the conversion inside standardConvertPasswdToKey to the independent encoder.

import (
	"archive/zip"
	"bytes"
	"crypto/aes"
	"crypto/cipher"
	"crypto/sha1"
	"crypto/sha512"
	"encoding/base64"
	"encoding/binary"
	"encoding/hex"
	"fmt"
	"io"
	"os"
	"path/filepath"
	"sync"
	"unicode/utf16"
	"unicode/utf8"

	xl "github.com/xuri/excelize/v2"
	xunicode "golang.org/x/text/encoding/unicode"
)

// independent UTF-16LE encoder (standard library)
func c13utf16(pw string) []byte {
	var out []byte
	for _, u := range utf16.Encode([]rune(pw)) {
		out = append(out, byte(u), byte(u>>8))
	}
	return out
}

func c13u16(r *Run, pw string) {
	op := "u16 " + hx(pw)
	r.Stat("op:u16")
	res := "invalid"
	if utf8.ValidString(pw) {
		enc, err := xunicode.UTF16(xunicode.LittleEndian, xunicode.IgnoreBOM).NewEncoder().Bytes([]byte(pw))
		own := c13utf16(pw)
		if err != nil {
			res = "ERR"
		} else {
			res = "ok " + hx(string(enc))
		}
		if err != nil || !bytes.Equal(enc, own) {
			r.Fail("u16:encoder-vs-std", fmt.Sprintf("x/text UTF-16LE of %q = %x (%v), unicode/utf16 gives %x", pw, enc, err, own), 0, op)
		}
	}
	r.Op(op, res)
	r.Case(op, utf8.ValidString(pw) && pw != "")
}

// c13verifier checks the standard-encryption verifier of an EncryptionInfo stream written by
// Encrypt against an independent derivation of the key from the password.
func c13verifier(info []byte, pw string) error {
	if len(info) < 12 {
		return fmt.Errorf("EncryptionInfo too short")
	}
	hs := int(binary.LittleEndian.Uint32(info[8:12]))
	if 12+hs+72 > len(info) {
		return fmt.Errorf("EncryptionInfo: header size %d, stream %d bytes", hs, len(info))
	}
	v := info[12+hs:]
	salt, encVerifier, encHash := v[4:20], v[20:36], v[40:72]
	h := sha1.Sum(append(append([]byte{}, salt...), c13utf16(pw)...))
	key := h[:]
	for i := 0; i < 50000; i++ {
		var it [4]byte
		binary.LittleEndian.PutUint32(it[:], uint32(i))
		s := sha1.Sum(append(it[:], key...))
		key = s[:]
	}
	f := sha1.Sum(append(append([]byte{}, key...), 0, 0, 0, 0))
	buf := bytes.Repeat([]byte{0x36}, 64)
	for i := range f {
		buf[i] ^= f[i]
	}
	x1 := sha1.Sum(buf)
	blk, err := aes.NewCipher(x1[:16])
	if err != nil {
		return err
	}
	verifier := make([]byte, 16)
	blk.Decrypt(verifier, encVerifier)
	hash := make([]byte, 32)
	blk.Decrypt(hash[:16], encHash[:16])
	blk.Decrypt(hash[16:], encHash[16:])
	want := sha1.Sum(verifier)
	if !bytes.Equal(hash[:20], want[:]) {
		return fmt.Errorf("verifier hash does not match under the independently derived key")
	}
	return nil
}

// c13indepKey: ECMA-376 standard key derivation written from [MS-OFFCRYPTO] 2.3.4.7 (own UTF-16LE, own
// SHA-1 loop): the first n bytes of X1 || X2.
func c13indepKey(salt []byte, pw string, n int) []byte {
	h := sha1.Sum(append(append([]byte{}, salt...), c13utf16(pw)...))
	key := h[:]
	for i := 0; i < 50000; i++ {
		var it [4]byte
		binary.LittleEndian.PutUint32(it[:], uint32(i))
		s := sha1.Sum(append(it[:], key...))
		key = s[:]
	}
	f := sha1.Sum(append(append([]byte{}, key...), 0, 0, 0, 0))
	pad := func(b byte) []byte {
		buf := bytes.Repeat([]byte{b}, 64)
		for i := range f {
			buf[i] ^= f[i]
		}
		d := sha1.Sum(buf)
		return d[:]
	}
	x3 := append(pad(0x36), pad(0x5c)...)
	if n > len(x3) {
		return nil
	}
	return x3[:n]
}

// c13stdDoc builds a standard-encrypted compound file per [MS-OFFCRYPTO] 2.3.4.5-2.3.4.9 with an AES key
// of keyBits (128 / 192 / 256): own key derivation, verifier, ECB package encryption.
func c13stdDoc(plain []byte, pw string, keyBits int, rng *Rng) []byte {
	rnd := func(n int) []byte {
		b := make([]byte, n)
		for i := range b {
			b[i] = byte(rng.Intn(256))
		}
		return b
	}
	salt, verifier := rnd(16), rnd(16)
	key := c13indepKey(salt, pw, keyBits/8)
	blk, _ := aes.NewCipher(key)
	ecb := func(in []byte) []byte {
		if rem := len(in) % 16; rem != 0 {
			in = append(append([]byte{}, in...), make([]byte, 16-rem)...)
		}
		out := make([]byte, len(in))
		for i := 0; i < len(in); i += 16 {
			blk.Encrypt(out[i:i+16], in[i:i+16])
		}
		return out
	}
	vh := sha1.Sum(verifier)
	var b []byte
	u16 := func(v int) { b = append(b, byte(v), byte(v>>8)) }
	u32 := func(v int) { b = append(b, byte(v), byte(v>>8), byte(v>>16), byte(v>>24)) }
	algID := map[int]int{128: 0x660E, 192: 0x660F, 256: 0x6610}[keyBits]
	u16(4)
	u16(2)
	u32(0x24)
	u32(0xA4)
	u32(0x24)
	u32(0)
	u32(algID)
	u32(0x8004)
	u32(keyBits)
	u32(0x18)
	u32(0)
	u32(0)
	for _, ch := range "Microsoft Enhanced RSA and AES Cryptographic Provider (Prototype)" {
		u16(int(ch))
	}
	u16(0)
	u32(0x10)
	b = append(b, salt...)
	b = append(b, ecb(verifier)...)
	u32(0x14)
	b = append(b, ecb(vh[:])...)
	pkg := make([]byte, 8)
	binary.LittleEndian.PutUint64(pkg, uint64(len(plain)))
	pkg = append(pkg, ecb(plain)...)
	return xl.VerifC13CfbWrite([]string{"EncryptionInfo", "EncryptedPackage"}, [][]byte{b, pkg})
}

// c13stdsyn: a conformant standard-encrypted document with an AES-128/192/256 key (as Office writes
// them; Encrypt itself only writes AES-128) must decrypt with the right password; with S = 0 the plaintext
// is a real workbook and OpenReader must open it.
func c13stdsyn(r *Run, keyBits, S, k int) {
	line := fmt.Sprintf("stdsyn %d %d %d", keyBits, S, k)
	r.Stat("op:stdsyn")
	r.Stat(fmt.Sprintf("stdsyn:aes-%d", keyBits))
	pw := "pä" + hex.EncodeToString([]byte{byte(k)})
	plain := c13pat(S, k)
	if S == 0 {
		f := xl.NewFile()
		_ = f.SetCellValue("Sheet1", "A1", "SECRET")
		buf, _ := f.WriteToBuffer()
		f.Close()
		plain = buf.Bytes()
	}
	r.Case(line, true)
	defer func() {
		if p := recover(); p != nil {
			r.Fail("stdsyn:panic", fmt.Sprintf("AES-%d standard-encrypted document: panic %v", keyBits, p), 0, line)
		}
	}()
	doc := c13stdDoc(plain, pw, keyBits, NewRng(uint64(S)*7+uint64(k)+uint64(keyBits)))
	dec, res := c13decrypt(doc, pw)
	if res != "ok" || !bytes.Equal(dec, plain) {
		r.Fail(fmt.Sprintf("stdsyn:decrypt:aes-%d", keyBits), fmt.Sprintf("a conformant standard-encrypted document with an AES-%d key (%d-byte package) does not decrypt with the right password: outcome %s, %d bytes", keyBits, len(plain), res, len(dec)), 0, line)
		return
	}
	if S == 0 {
		g, err := xl.OpenReader(bytes.NewReader(doc), xl.Options{Password: pw})
		if err != nil {
			r.Fail(fmt.Sprintf("stdsyn:open:aes-%d", keyBits), fmt.Sprintf("a workbook protected with standard encryption and an AES-%d key does not open with the right password: %v", keyBits, err), 0, line)
			return
		}
		v, _ := g.GetCellValue("Sheet1", "A1")
		g.Close()
		if v != "SECRET" {
			r.Fail(fmt.Sprintf("stdsyn:open:aes-%d", keyBits), "content differs after opening", 0, line)
		}
		if g2, err := xl.OpenReader(bytes.NewReader(doc), xl.Options{Password: pw + "x"}); err == nil {
			g2.Close()
			r.Fail("open:wrong-password-accepted", fmt.Sprintf("AES-%d standard-encrypted workbook opens with a wrong password", keyBits), 0, line)
		}
	}
}

// c13conc: the round trips must not depend on what other goroutines do: 8 goroutines derive keys,
// Encrypt/Decrypt and save/open with distinct passwords at the same time; every result is compared with the
// value computed sequentially beforehand. No timing assertions.
func c13conc(r *Run, seed uint64) {
	line := fmt.Sprintf("conc %d", seed)
	r.Stat("op:conc")
	r.Case(line, true)
	const G = 8
	type job struct {
		pw   string
		salt []byte
		key  []byte // sequential reference
		raw  []byte
	}
	rng := NewRng(seed)
	jobs := make([]job, G)
	for g := range jobs {
		salt := make([]byte, 16)
		for i := range salt {
			salt[i] = byte(rng.Intn(256))
		}
		pw := fmt.Sprintf("pw-%d-%d-ü", seed, g)
		jobs[g] = job{pw: pw, salt: salt, key: c13indepKey(salt, pw, 32), raw: c13pat(4000+977*g, g)}
	}
	fails := make([]string, G)
	var wg sync.WaitGroup
	for g := 0; g < G; g++ {
		wg.Add(1)
		go func(g int) {
			defer wg.Done()
			defer func() {
				if p := recover(); p != nil {
					fails[g] = fmt.Sprintf("panic: %v", p)
				}
			}()
			j := jobs[g]
			for round := 0; round < 3 && fails[g] == ""; round++ {
				k, err := xl.VerifC13StandardKey(j.salt, j.pw, 256)
				if err != nil || !bytes.Equal(k, j.key) {
					fails[g] = fmt.Sprintf("round %d: derived key differs from the sequentially derived one", round)
					break
				}
				enc, err := xl.Encrypt(j.raw, &xl.Options{Password: j.pw})
				if err != nil {
					fails[g] = "Encrypt: " + err.Error()
					break
				}
				dec, err := xl.Decrypt(enc, &xl.Options{Password: j.pw})
				if err != nil || !bytes.Equal(dec, j.raw) {
					fails[g] = fmt.Sprintf("round %d: Decrypt(Encrypt(b,p),p) != b", round)
					break
				}
				if round == 0 {
					f := xl.NewFile()
					_ = f.SetCellValue("Sheet1", "A1", j.pw)
					var buf bytes.Buffer
					werr := f.Write(&buf, xl.Options{Password: j.pw})
					f.Close()
					if werr != nil {
						fails[g] = "Write: " + werr.Error()
						break
					}
					o, err := xl.OpenReader(bytes.NewReader(buf.Bytes()), xl.Options{Password: j.pw})
					if err != nil {
						fails[g] = "OpenReader with the right password: " + err.Error()
						break
					}
					v, _ := o.GetCellValue("Sheet1", "A1")
					o.Close()
					if v != j.pw {
						fails[g] = "content differs after concurrent save/open"
					}
				}
			}
		}(g)
	}
	wg.Wait()
	for g, f := range fails {
		if f != "" {
			r.Fail("conc:roundtrip-depends-on-other-goroutines", fmt.Sprintf("goroutine %d of %d (password %q): %s", g, G, jobs[g].pw, f), 0, line)
			return
		}
	}
}

func c13sha512(parts ...[]byte) []byte {
	h := sha512.New()
	for _, p := range parts {
		h.Write(p)
	}
	return h.Sum(nil)
}

func c13putLE32(i int) []byte {
	b := make([]byte, 4)
	binary.LittleEndian.PutUint32(b, uint32(i))
	return b
}

// c13agileDoc builds an agile-encrypted compound file per [MS-OFFCRYPTO]: AES-256-CBC, SHA-512,
// spin count 1, 4096-byte segments, segment i encrypted with IV = H(keyData salt || le32 i)[:16].
func c13agileDoc(plain []byte, pw string, rng *Rng) []byte {
	rnd := func(n int) []byte {
		b := make([]byte, n)
		for i := range b {
			b[i] = byte(rng.Intn(256))
		}
		return b
	}
	saltK, saltE, pkgKey := rnd(16), rnd(16), rnd(32)
	// password key encryptor
	key := c13sha512(saltE, c13utf16(pw))
	for i := 0; i < 1; i++ {
		key = c13sha512(c13putLE32(i), key)
	}
	key = c13sha512(key, []byte{0x14, 0x6e, 0x0b, 0xe7, 0xab, 0xac, 0xd0, 0xd6})[:32]
	blk, _ := aes.NewCipher(key)
	encKey := make([]byte, 32)
	cipher.NewCBCEncrypter(blk, saltE).CryptBlocks(encKey, pkgKey)
	// package
	pkg := make([]byte, 8)
	binary.LittleEndian.PutUint64(pkg, uint64(len(plain)))
	pblk, _ := aes.NewCipher(pkgKey)
	for i, off := 0, 0; off < len(plain); i, off = i+1, off+4096 {
		end := off + 4096
		if end > len(plain) {
			end = len(plain)
		}
		seg := append([]byte{}, plain[off:end]...)
		if rem := len(seg) % 16; rem != 0 {
			seg = append(seg, make([]byte, 16-rem)...)
		}
		iv := c13sha512(saltK, c13putLE32(i))[:16]
		cipher.NewCBCEncrypter(pblk, iv).CryptBlocks(seg, seg)
		pkg = append(pkg, seg...)
	}
	b64 := base64.StdEncoding.EncodeToString
	xml := `<?xml version="1.0" encoding="UTF-8" standalone="yes"?>` +
		`<encryption xmlns="http://schemas.microsoft.com/office/2006/encryption" xmlns:p="http://schemas.microsoft.com/office/2006/keyEncryptor/password">` +
		`<keyData saltSize="16" blockSize="16" keyBits="256" hashSize="64" cipherAlgorithm="AES" cipherChaining="ChainingModeCBC" hashAlgorithm="SHA512" saltValue="` + b64(saltK) + `"/>` +
		`<dataIntegrity encryptedHmacKey="" encryptedHmacValue=""/>` +
		`<keyEncryptors><keyEncryptor uri="http://schemas.microsoft.com/office/2006/keyEncryptor/password">` +
		`<p:encryptedKey spinCount="1" saltSize="16" blockSize="16" keyBits="256" hashSize="64" cipherAlgorithm="AES" cipherChaining="ChainingModeCBC" hashAlgorithm="SHA512" saltValue="` + b64(saltE) + `" encryptedVerifierHashInput="" encryptedVerifierHashValue="" encryptedKeyValue="` + b64(encKey) + `"/>` +
		`</keyEncryptor></keyEncryptors></encryption>`
	info := append([]byte{4, 0, 4, 0, 0x40, 0, 0, 0}, xml...)
	return xl.VerifC13CfbWrite([]string{"EncryptionInfo", "EncryptedPackage"}, [][]byte{info, pkg})
}

func c13agile(r *Run, S, k int) {
	op := fmt.Sprintf("agile %d %d", S, k)
	r.Stat("op:agile")
	plain := c13pat(S, k)
	res := "PANIC"
	var dec []byte
	func() {
		defer func() { _ = recover() }()
		doc := c13agileDoc(plain, "pw"+hex.EncodeToString([]byte{byte(k)}), NewRng(uint64(S)*131+uint64(k)))
		d, err := xl.Decrypt(doc, &xl.Options{Password: "pw" + hex.EncodeToString([]byte{byte(k)})})
		if err != nil {
			res = "err"
			return
		}
		dec, res = d, "ok"
	}()
	good := -1
	if res == "ok" {
		cp := 0
		for cp < len(dec) && cp < S && dec[cp] == plain[cp] {
			cp++
		}
		g := "full"
		if cp < S {
			good = cp / 16 * 16
			g = fmt.Sprint(good)
		}
		res = fmt.Sprintf("out=%d good=%s", len(dec), g)
	}
	ln := r.Op(op, res)
	r.Case(op, S > 0)
	switch {
	case S%4096 == 0 && S > 0:
		r.Stat("agile:class:multiple-of-4096")
	case S%4096 > 4080:
		r.Stat("agile:class:within-16-below-4096k")
	case S < 4096:
		r.Stat("agile:class:one-segment")
	default:
		r.Stat("agile:class:several-segments")
	}
	if good >= 0 {
		r.Fail("agile:segment-loss", fmt.Sprintf("Decrypt of a conformant agile document with a %d-byte package returns only %d correct leading bytes (cipher text %d bytes)", S, good, (S+15)/16*16), ln, op)
	} else if res == "err" || res == "PANIC" {
		r.Fail("agile:decrypt-failed", fmt.Sprintf("Decrypt of a conformant agile document with a %d-byte package: %s", S, res), ln, op)
	}
}

// c13agilen: the cipher text of a conformant document cut to N bytes (any N, block aligned or not):
// Decrypt must not panic, must return every whole block before the cut correctly.
func c13agilen(r *Run, N, k int) {
	op := fmt.Sprintf("agilen %d %d", N, k)
	r.Stat("op:agilen")
	S := (N + 15) / 16 * 16
	plain := c13pat(S, k)
	res := "PANIC"
	var dec []byte
	func() {
		defer func() { _ = recover() }()
		names := []string{"EncryptionInfo", "EncryptedPackage"}
		doc := c13agileDoc(plain, "pw", NewRng(uint64(N)*977+uint64(k)))
		// re-wrap with the package stream cut to 8+N bytes
		parts, err := c13Mscfb(doc)
		if err != nil {
			res = "ERR-container"
			return
		}
		cut := xl.VerifC13CfbWrite(names, [][]byte{parts[names[0]], parts[names[1]][:8+N]})
		d, err := xl.Decrypt(cut, &xl.Options{Password: "pw"})
		if err != nil {
			res = "err"
			return
		}
		dec, res = d, "ok"
	}()
	if res == "ok" {
		cp := 0
		for cp < len(dec) && cp < S && dec[cp] == plain[cp] {
			cp++
		}
		g := "full"
		if cp < S {
			g = fmt.Sprint(cp / 16 * 16)
		}
		res = fmt.Sprintf("out=%d good=%s spec=1", len(dec), g)
	}
	ln := r.Op(op, res)
	r.Case(op, N > 0)
	rr := N % 4096
	switch {
	case rr == 0:
		r.Stat("agilen:r=0")
	case rr <= 7:
		r.Stat("agilen:r=1..7")
	case rr <= 4088:
		r.Stat("agilen:r=8..4088")
	default:
		r.Stat("agilen:r=4089..4095")
	}
	if N%16 == 0 {
		r.Stat("agilen:block-aligned")
	} else {
		r.Stat("agilen:unaligned")
	}
	if res == "PANIC" || res == "err" || res == "ERR-container" {
		r.Fail("agile:decrypt-failed", fmt.Sprintf("Decrypt of an agile document with %d bytes of cipher text: %s", N, res), ln, op)
	}
}

func c13agilenSizes() []int {
	var s []int
	for _, q := range []int{0, 1, 2, 5} {
		for _, rr := range []int{0, 1, 4, 7, 8, 9, 15, 16, 17, 2048, 4080, 4087, 4088, 4089, 4092, 4095} {
			s = append(s, 4096*q+rr)
		}
	}
	return s
}

// c13stdInfo builds an EncryptionInfo stream with the layout Encrypt writes (deterministic content).
func c13stdInfo(rng *Rng) []byte {
	var b []byte
	u16 := func(v int) { b = append(b, byte(v), byte(v>>8)) }
	u32 := func(v int) { b = append(b, byte(v), byte(v>>8), byte(v>>16), byte(v>>24)) }
	u16(3)
	u16(2)
	u32(0x24)
	u32(0xA4)
	u32(0x24)
	u32(0)
	u32(0x660E)
	u32(0x8004)
	u32(0x80)
	u32(0x18)
	u32(0)
	u32(0)
	for _, ch := range "Microsoft Enhanced RSA and AES Cryptographic Provider (Prototype)" {
		u16(int(ch))
	}
	u16(0)
	u32(0x10)
	for i := 0; i < 32; i++ {
		b = append(b, byte(rng.Intn(256)))
	}
	u32(0x14)
	for i := 0; i < 32; i++ {
		b = append(b, byte(rng.Intn(256)))
	}
	return b
}

// c13sinfo: public Decrypt on a container holding the given EncryptionInfo bytes and a package stream
// of pkgLen zero bytes: rejected / accepted / panic, vs the model of the guards.
func c13sinfo(r *Run, info []byte, pkgLen int) {
	op := fmt.Sprintf("sinfo %s %d", hx(string(info)), pkgLen)
	r.Stat("op:sinfo")
	res := "PANIC"
	if len(info) >= 4 && info[0] == 4 && info[1] == 0 && info[2] == 4 && info[3] == 0 {
		res = "agile"
	} else {
		func() {
			defer func() { _ = recover() }()
			doc := xl.VerifC13CfbWrite([]string{"EncryptionInfo", "EncryptedPackage"}, [][]byte{info, make([]byte, pkgLen)})
			_, err := xl.Decrypt(doc, &xl.Options{Password: "pw"})
			if err != nil {
				res = "err"
			} else {
				res = "ok"
			}
		}()
	}
	ln := r.Op(op, res)
	r.Case(op, res == "ok")
	r.Stat("sinfo:" + res)
	if res == "PANIC" {
		r.Fail("sinfo:panic", fmt.Sprintf("Decrypt panics on a %d-byte EncryptionInfo stream (package stream %d bytes)", len(info), pkgLen), ln, op)
	}
}

func c13sinfoCases(r *Run, rng *Rng, thorough bool) {
	base := c13stdInfo(rng)
	put32 := func(b []byte, off, v int) []byte {
		c := append([]byte{}, b...)
		binary.LittleEndian.PutUint32(c[off:], uint32(v))
		return c
	}
	c13sinfo(r, base, 8+32)
	// truncations: inside the encrypted verifier hash (the 60..72 table), the verifier, the header
	for cut := 0; cut <= 90; cut++ {
		c13sinfo(r, base[:len(base)-cut], 8+16)
	}
	for _, n := range []int{0, 1, 3, 4, 8, 11, 12, 13, 43, 44, 45, 175, 176, 177} {
		c13sinfo(r, base[:n], 8+16)
	}
	// RC4 algorithm id: table entry 60
	rc4 := put32(base, 12+8, 0x6801)
	for cut := 0; cut <= 40; cut++ {
		c13sinfo(r, rc4[:len(rc4)-cut], 8+16)
	}
	// header size field
	for _, hs := range []int{0, 4, 31, 32, 33, 0xA3, 0xA4, 0xA5, 0xA4 + 11, 0xA4 + 12, 0xA4 + 13, 236, 237, 1 << 20, 0x7FFFFFFF, 0xFFFFFFFF} {
		c13sinfo(r, put32(base, 8, hs), 8+16)
	}
	// key size field, AES ids
	for _, ks := range []int{0, 8, 64, 127, 128, 135, 136, 192, 256, 257, 320, 327, 328, 1024, 0xFFFFFFFF} {
		c13sinfo(r, put32(base, 12+16, ks), 8+16)
	}
	for _, id := range []int{0x660D, 0x660E, 0x660F, 0x6610, 0x6611, 0} {
		c13sinfo(r, put32(base, 12+8, id)[:len(base)-6], 8+16)
	}
	// version field
	for _, v := range [][2]int{{1, 2}, {2, 2}, {3, 2}, {4, 2}, {5, 2}, {3, 3}, {4, 3}, {4, 4}, {2, 3}, {0, 0}, {3, 1}} {
		c := append([]byte{}, base...)
		c[0], c[1], c[2], c[3] = byte(v[0]), 0, byte(v[1]), 0
		c13sinfo(r, c, 8+16)
	}
	// package stream length
	for _, pl := range []int{0, 1, 7, 8, 9, 23, 24, 25, 8 + 4096, 8 + 4097} {
		c13sinfo(r, base, pl)
	}
	n := 30
	if thorough {
		n = 600
	}
	for i := 0; i < n; i++ {
		c := append([]byte{}, base...)
		for k := rng.Range(1, 3); k > 0; k-- {
			switch rng.Intn(4) {
			case 0:
				c = put32(c, 8, rng.Pick2([]int{rng.Range(0, 300), 0xA4, 32}))
			case 1:
				c = put32(c, 12+16, rng.Pick2([]int{128, 192, 256, rng.Range(0, 400)}))
			case 2:
				c = put32(c, 12+8, rng.Pick2([]int{0x660E, 0x6610, 0x6801, rng.Range(0, 70000)}))
			default:
				c = c[:rng.Range(0, len(c))]
			}
			if len(c) < 32 {
				break
			}
		}
		c13sinfo(r, c, rng.Pick2([]int{8, 24, 40, 7, 25}))
	}
}

// c13kds: the real standardConvertPasswdToKey (hook) vs the model standardKey with SHA-1.
func c13kds(r *Run, salt []byte, pw string, keyBits int) {
	op := fmt.Sprintf("kds %s %s %d", hx(string(salt)), hx(pw), keyBits)
	r.Stat("op:kds")
	res := "PANIC"
	ln, what := 0, ""
	func() {
		defer func() { _ = recover() }()
		k, err := xl.VerifC13StandardKey(salt, pw, uint32(keyBits))
		if err != nil {
			res = "ERR"
		} else {
			res = "ok " + hx(string(k))
		}
		// direct oracle: the key [MS-OFFCRYPTO] prescribes, derived independently
		want := c13indepKey(salt, pw, keyBits/8)
		if (want == nil) != (err != nil) || (err == nil && !bytes.Equal(k, want)) {
			ln = -1
			what = fmt.Sprintf("standardConvertPasswdToKey(salt %x, password %q, %d bits) = %x (%v), the specification gives %x", salt, pw, keyBits, k, err, want)
		}
	}()
	n := r.Op(op, res)
	r.Case(op, true)
	if ln == -1 {
		r.Fail("kd:standard-key", what, n, op)
	}
}

// c13kda: the real convertPasswdToKey (hook, hash algorithm SHA1) vs the model agileKey with SHA-1.
func c13kda(r *Run, salt []byte, pw string, spin, keyBits int, blockKey []byte) {
	op := fmt.Sprintf("kda %s %s %d %d %s", hx(string(salt)), hx(pw), spin, keyBits, hx(string(blockKey)))
	r.Stat("op:kda")
	res := "PANIC"
	func() {
		defer func() { _ = recover() }()
		k, err := xl.VerifC13AgileKey(pw, blockKey, "SHA1", base64.StdEncoding.EncodeToString(salt), spin, keyBits)
		if err != nil {
			res = "ERR"
		} else {
			res = "ok " + hx(string(k))
		}
	}()
	r.Op(op, res)
	r.Case(op, true)
}

func c13kdCases(r *Run, rng *Rng, pws []string, thorough bool) {
	rnd := func(n int) []byte {
		b := make([]byte, n)
		for i := range b {
			b[i] = byte(rng.Intn(256))
		}
		return b
	}
	n := 6
	if thorough {
		n = 40
	}
	for i := 0; i < n; i++ {
		c13kds(r, rnd(16), pws[(i*7+3)%len(pws)], []int{128, 192, 256, 0, 320, 328, 64, 136}[i%8])
	}
	c13kds(r, nil, "pw", 128)
	blockKeys := [][]byte{{0x14, 0x6e, 0x0b, 0xe7, 0xab, 0xac, 0xd0, 0xd6}, {0xfe, 0xa7, 0xd2, 0x76, 0x3b, 0x4b, 0x9e, 0x79}, {}, {1}}
	na := 40
	if thorough {
		na = 400
	}
	for i := 0; i < na; i++ {
		spin := []int{0, 1, 2, 3, 10, 100, 255, 256, 257, 1000}[i%10]
		if i == 7 {
			spin = 100000
		}
		c13kda(r, rnd([]int{16, 0, 8, 32}[i%4]), pws[(i*5+1)%len(pws)], spin, []int{128, 256, 160, 0, 8, 168, 512, 159}[i%8], blockKeys[i%4])
	}
}

// c13openmap: OpenReader's error mapping on one input of the given kind; the branch conditions are
// measured independently here and given to the model.
func c13openmap(r *Run, kind string, seed uint64) {
	rng := NewRng(seed)
	pw := "secret"
	var data []byte
	mkBook := func(password string) []byte {
		f := xl.NewFile()
		defer f.Close()
		_ = f.SetCellValue("Sheet1", "A1", "x")
		var buf bytes.Buffer
		if password == "" {
			_ = f.Write(&buf)
		} else {
			_ = f.Write(&buf, xl.Options{Password: password})
		}
		return buf.Bytes()
	}
	openPw := pw
	switch kind {
	case "plain":
		data, openPw = mkBook(""), ""
	case "plain-pw":
		data = mkBook("")
	case "garbage":
		data, openPw = []byte(c13randText(rng, 600)), ""
	case "garbage-pw":
		data = []byte(c13randText(rng, 600))
	case "enc-right":
		data = mkBook(pw)
	case "enc-wrong":
		data, openPw = mkBook(pw), "other"
	case "enc-missing":
		data, openPw = mkBook(pw), ""
	case "ole-short":
		data = append([]byte{0xd0, 0xcf, 0x11, 0xe0, 0xa1, 0xb1, 0x1a, 0xe1}, make([]byte, 100)...)
	case "ole-damaged":
		data = mkBook(pw)
		for i := 0x2C; i < 0x30; i++ {
			data[i] = 0xFF
		}
	case "ole-in-zip": // a plain workbook that merely contains the signature bytes
		data, openPw = append(mkBook(""), 0xd0, 0xcf, 0x11, 0xe0, 0xa1, 0xb1, 0x1a, 0xe1), ""
	case "enc-truncated":
		data = mkBook(pw)
		data = data[:len(data)/2/512*512]
	case "ole-stored-part": // an unprotected macro workbook whose vbaProject.bin (a compound file) is STORED in the zip
		f := xl.NewFile()
		repo := os.Getenv("VERIF_REPO")
		if repo == "" {
			repo = "/repo"
		}
		vba, _ := os.ReadFile(filepath.Join(repo, "test", "vbaProject.bin"))
		_ = f.AddVBAProject(vba)
		f.Path = "x.xlsm"
		var buf bytes.Buffer
		_ = f.Write(&buf)
		f.Close()
		zr0, _ := zip.NewReader(bytes.NewReader(buf.Bytes()), int64(buf.Len()))
		var out bytes.Buffer
		zw := zip.NewWriter(&out)
		for _, zf := range zr0.File {
			rc, _ := zf.Open()
			part, _ := io.ReadAll(rc)
			rc.Close()
			m := zip.Deflate
			if zf.Name == "xl/vbaProject.bin" {
				m = zip.Store
			}
			w, _ := zw.CreateHeader(&zip.FileHeader{Name: zf.Name, Method: m})
			_, _ = w.Write(part)
		}
		_ = zw.Close()
		data, openPw = out.Bytes(), ""
	case "zip-bad-part": // zip opens, a part does not decode
		f := xl.NewFile()
		f.Pkg.Store("xl/styles.xml", []byte("<styleSheet><fonts"))
		var buf bytes.Buffer
		_ = f.Write(&buf)
		f.Close()
		data, openPw = buf.Bytes(), ""
	default:
		return
	}
	hasOle := bytes.Contains(data, []byte{0xd0, 0xcf, 0x11, 0xe0, 0xa1, 0xb1, 0x1a, 0xe1})
	decOk, inner := true, data
	if hasOle {
		d, res := c13decrypt(data, openPw)
		decOk = res == "ok"
		inner = d
	}
	zipOk := false
	var zr *zip.Reader
	if decOk {
		z, err := zip.NewReader(bytes.NewReader(inner), int64(len(inner)))
		zipOk, zr = err == nil, z
	}
	b01 := func(b bool) int {
		if b {
			return 1
		}
		return 0
	}
	content, class := 0, "none"
	func() {
		defer func() {
			if p := recover(); p != nil {
				class = "PANIC"
			}
		}()
		var f *xl.File
		var err error
		if openPw == "" {
			f, err = xl.OpenReader(bytes.NewReader(data))
		} else {
			f, err = xl.OpenReader(bytes.NewReader(data), xl.Options{Password: openPw})
		}
		if f != nil {
			content = 1
			f.Close()
		}
		switch {
		case err == nil:
		case err == xl.ErrWorkbookFileFormat:
			class = "fileFormat"
		case err == xl.ErrWorkbookPassword:
			class = "password"
		default:
			class = "other"
		}
	}()
	// later stages are not measured independently: read/parts flags follow from the outcome when the zip opened
	readOk, partsOk := 1, 1
	if zipOk && decOk {
		if content == 0 {
			readOk = 0
		} else if class != "none" {
			partsOk = 0
		}
	}
	_ = zr
	op := fmt.Sprintf("openmap %s %d %d %d %d %d %d %d", kind, seed, b01(hasOle), b01(decOk), b01(zipOk), b01(openPw != ""), readOk, partsOk)
	ln := r.Op(op, fmt.Sprintf("content=%d err=%s", content, class))
	r.Case(op, true)
	r.Stat("op:openmap")
	r.Stat("openmap:" + kind + ":" + class)
	// direct oracle: content only after a successful decrypt (when encrypted) and a valid zip
	if content == 1 && ((hasOle && !decOk) || !zipOk) {
		r.Fail("open:content-without-decrypt", fmt.Sprintf("OpenReader returns a *File for kind %s although decrypt/zip failed", kind), ln, op)
	}
	if (kind == "enc-wrong" || kind == "enc-missing") && (content == 1 || class == "none") {
		r.Fail("open:wrong-password-accepted", "OpenReader opened a protected workbook with a wrong or missing password ("+kind+")", ln, op)
	}
}

var c13openKinds = []string{"plain", "plain-pw", "garbage", "garbage-pw", "enc-right", "enc-wrong", "enc-missing", "ole-short", "ole-damaged", "ole-in-zip", "ole-stored-part", "enc-truncated", "zip-bad-part"}

// c13einfo: the EncryptionInfo stream the real Encrypt wrote vs the model's layout
// (assembleInfo) given the random parts found in it (salt, encrypted verifier, encrypted hash).
func c13einfo(r *Run, info []byte) {
	if len(info) < 68 {
		return
	}
	n := len(info)
	salt, ev, eh := info[n-68:n-52], info[n-52:n-36], info[n-32:]
	op := fmt.Sprintf("einfo %s %s %s", hx(string(salt)), hx(string(ev)), hx(string(eh)))
	r.Op(op, hx(string(info)))
	r.Stat("op:einfo")
	r.Case("einfo", true)
}

func c13agileSizes(rng *Rng, thorough bool) []int {
	s := []int{4096, 0, 1, 15, 16, 17, 100, 4079, 4080, 4081, 4088, 4095, 4097, 4111, 4112, 4113, 8175, 8176, 8177, 8191, 8192, 8193,
		12272, 12287, 12288, 12289, 40944, 40960, 40961}
	n := 40
	if thorough {
		n = 1500
	}
	for i := 0; i < n; i++ {
		switch rng.Intn(3) {
		case 0:
			s = append(s, rng.Range(0, 20000))
		case 1:
			s = append(s, 4096*rng.Range(1, 40)+rng.Range(-20, 20))
		default:
			s = append(s, rng.Range(0, 300000))
		}
	}
	return s
}
