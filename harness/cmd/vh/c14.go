//go:build verif_c14

package main

// C14 — damaged or hostile input yields errors, not crashes.
//
// Transcript ops (see lean/XlModel/Drv/C14.lean); refs and strings are hex:
//   cs  <spec>                       checkSheet + checkRow on decoded rows (spec: "R,ref:hv,..;R,.."), full grid dump
//   csz <spec>                       same, outcome and number of row slots only (large r attributes)
//   gv  <t> <v> <s> <nSI> <nXf> <raw> (*xlsxC).getValueFrom: shared-string index and style index lookups
//   gvc <t> <v> <s> <nSI> <nXf>      same, outcome class only (cells taken from mutants: number formats not modelled)
//   sd  <info> <pkg>                 Decrypt's dispatch after extractPart: encryptionMechanism + standardDecrypt
//   zl  <fixture> <limit> <xmlLimit> <sizes>   OpenReader of an unmutated fixture under UnzipSizeLimit / UnzipXMLSizeLimit
//   mut <fixture> <mode> <level> <part> <kind> <a> <b> <val> <path>   one mutant through the call battery (result "-")
//
// Direct oracle: every mutant of the enumerated space runs the fixed battery in
// an isolated worker process; outcome classes OK / PANIC / TIMEOUT / CRASH
// (worker died: out of memory, fatal error) / ALLOC (allocation out of
// proportion). Anything but OK is a property failure with signature
// "<class>:<site>:<kind>". Mutants whose damage is visible in a modelled value
// (decoded rows, shared-string/style indices, encryption streams) additionally
// produce cs/gvc/sd lines, and the worker's observation must agree with the
// in-process hook result that the Lean model is compared with.

import (
	"bytes"
	"encoding/binary"
	"encoding/hex"
	"fmt"
	"os"
	"runtime"
	"sort"
	"strconv"
	"strings"
	"time"

	xl "github.com/xuri/excelize/v2"
)

func init() { props["C14"] = runC14 }

const c14TotalRows = 1048576

func c14Guard(fn func() string) (res string) {
	defer func() {
		if p := recover(); p != nil {
			res = "PANIC"
		}
	}()
	return fn()
}

func c14Class(s string) string {
	switch {
	case strings.HasPrefix(s, "ok"):
		return "ok"
	case strings.HasPrefix(s, "ERR"):
		return "ERR"
	}
	return s
}

// c14SpecMaxR returns the largest row number a spec mentions (attributes only).
func c14SpecMaxR(spec string) int {
	m := 0
	if spec == "-" {
		return 0
	}
	for _, rs := range strings.Split(spec, ";") {
		head := rs
		if i := strings.IndexByte(rs, ','); i >= 0 {
			head = rs[:i]
		}
		if r, err := strconv.Atoi(head); err == nil && r > m {
			m = r
		}
	}
	return m
}

// c14SpecWide: some reference has a column beyond 2000 (the list-based model is quadratic in the row width)
func c14SpecWide(spec string) bool {
	for _, rs := range strings.Split(spec, ";") {
		for _, cs := range strings.Split(rs, ",")[1:] {
			h := strings.SplitN(cs, ":", 2)[0]
			if h == "-" {
				continue
			}
			if col, _, err := xl.CellNameToCoordinates(unhx(h)); err == nil && col > 2000 {
				return true
			}
		}
	}
	return false
}

type c14Ctx struct {
	r    *Run
	seen map[string]bool
	base map[string]*C14Res // per fixture: the unmutated package through the battery
}

// cs: full dump, in-process (rows are small).
func (c *c14Ctx) opCS(spec string) string {
	res := c14Guard(func() string { return xl.VerifC14CheckSheet(spec) })
	ln := c.r.Op("cs "+spec, res)
	c.r.Case("cs:"+spec, spec != "-")
	c.r.Stat("cs:" + c14Class(res))
	if res == "PANIC" {
		c.r.Fail("panic:checkSheet/checkRow:spec", "checkSheet/checkRow panics on decoded rows "+spec, ln, "cs "+spec)
	}
	return res
}

// csz: outcome + slot count; specs with very large r run in a worker.
func (c *c14Ctx) opCSZ(spec string) string {
	var res string
	if c14SpecMaxR(spec) > 2*c14TotalRows {
		w := c14RunOne(c14Job{kind: "C", data: []byte(spec)}, 60*time.Second)
		switch w.Outcome {
		case "OK":
			res = w.Text
		case "PANIC":
			res = "PANIC"
		default:
			res = w.Outcome
		}
		if w.Outcome == "ALLOC" || w.Outcome == "CRASH" || w.Outcome == "TIMEOUT" {
			c.r.Fail("alloc:checkSheet:row-slots", fmt.Sprintf("checkSheet on rows %s: %s (allocated %d bytes)", spec, w.Outcome, w.Alloc), 0, "csz "+spec)
		}
	} else {
		res = c14Guard(func() string { return xl.VerifC14CheckSheetSlots(spec) })
	}
	ln := c.r.Op("csz "+spec, res)
	c.r.Case("csz:"+spec, true)
	c.r.Stat("csz:" + c14Class(res))
	if res == "PANIC" {
		c.r.Fail("panic:checkSheet/checkRow:spec", "checkSheet/checkRow panics on decoded rows "+spec, ln, "csz "+spec)
	}
	if strings.HasPrefix(res, "ok ") {
		if n, _ := strconv.Atoi(res[3:]); n > c14TotalRows+strings.Count(spec, ";")+1 {
			c.r.Fail("alloc:checkSheet:row-slots", fmt.Sprintf("checkSheet allocates %d row slots for rows %s (TotalRows %d)", n, spec, c14TotalRows), ln, "csz "+spec)
		}
	}
	return res
}

func (c *c14Ctx) opGV(t, v string, s, nSI, nXf int, raw, classOnly bool) string {
	res := c14Guard(func() string {
		val, err := xl.VerifC14GetValueFrom(t, v, s, nSI, nXf, raw)
		if err != nil {
			return "ERR"
		}
		if classOnly {
			return "ok"
		}
		return "ok " + hx(val)
	})
	var op string
	if classOnly {
		op = fmt.Sprintf("gvc %s %s %d %d %d", hx(t), hx(v), s, nSI, nXf)
	} else {
		op = fmt.Sprintf("gv %s %s %d %d %d %d", hx(t), hx(v), s, nSI, nXf, map[bool]int{false: 0, true: 1}[raw])
	}
	ln := c.r.Op(op, res)
	c.r.Case(op, t == "s" || s != 0)
	c.r.Stat(strings.Fields(op)[0] + ":" + c14Class(res))
	if res == "PANIC" {
		c.r.Fail("panic:getValueFrom:index", fmt.Sprintf("getValueFrom panics for t=%q v=%q s=%d with %d shared strings, %d cell formats", t, v, s, nSI, nXf), ln, op)
	}
	return res
}

func (c *c14Ctx) opSD(info, pkg []byte) string {
	res := c14Guard(func() string {
		mech, n, err := xl.VerifC14StandardDecrypt(info, pkg, "pw")
		if err != nil {
			return "ERR"
		}
		if mech != "standard" {
			return mech
		}
		return "ok " + strconv.Itoa(n)
	})
	op := "sd " + hx(string(info)) + " " + hx(string(pkg))
	ln := c.r.Op(op, res)
	c.r.Case(op, len(info) >= 4)
	c.r.Stat("sd:" + c14Class(res))
	if res == "PANIC" {
		c.r.Fail("panic:standardDecrypt:slice", fmt.Sprintf("Decrypt dispatch panics on EncryptionInfo of %d bytes, EncryptedPackage of %d bytes", len(info), len(pkg)), ln, op)
	}
	return res
}

// zl: size accounting of ReadZipReader. sizes = declared uncompressed sizes of the zip entries, in order.
func (c *c14Ctx) opZL(fix *c14Fixture, limit, xmlLimit int64) {
	var sizes []string
	var total int64
	for _, p := range fix.parts {
		sizes = append(sizes, strconv.Itoa(len(p.data)))
		total += int64(len(p.data))
	}
	res := c14Guard(func() string {
		f, err := xl.OpenReader(bytes.NewReader(fix.raw), xl.Options{UnzipSizeLimit: limit, UnzipXMLSizeLimit: xmlLimit})
		if f != nil {
			f.Close()
		}
		if err != nil {
			return "ERR"
		}
		return "ok"
	})
	op := fmt.Sprintf("zl %s %d %d %s", fix.name, limit, xmlLimit, strings.Join(sizes, ","))
	ln := c.r.Op(op, res)
	c.r.Case(op, true)
	c.r.Stat("zl:" + res)
	switch {
	case res == "PANIC":
		c.r.Fail("panic:OpenReader:limits", fmt.Sprintf("OpenReader panics on %s with UnzipSizeLimit=%d UnzipXMLSizeLimit=%d", fix.name, limit, xmlLimit), ln, op)
	case res == "ok" && total > limit:
		c.r.Fail("limit:accepted-oversized", fmt.Sprintf("OpenReader accepts %s (declared uncompressed size %d bytes) with UnzipSizeLimit=%d, UnzipXMLSizeLimit=%d: parts spooled to temporary files are not counted", fix.name, total, limit, xmlLimit), ln, op)
	case res == "ERR" && total <= limit && xmlLimit <= limit:
		c.r.Fail("limit:rejected-within-limit", fmt.Sprintf("OpenReader rejects %s (declared uncompressed size %d bytes) with UnzipSizeLimit=%d, UnzipXMLSizeLimit=%d", fix.name, total, limit, xmlLimit), ln, op)
	}
}

// c14GenZL: every plain fixture under limits around its total size, around the size of its largest
// part and around the size of everything but its worksheets / shared strings (the parts that may be spooled).
func c14GenZL(c *c14Ctx, fx []*c14Fixture) {
	for _, fix := range fx {
		if fix.pw != "" {
			continue
		}
		var total, largest, spoolable int64
		for _, p := range fix.parts {
			n := int64(len(p.data))
			total += n
			if n > largest {
				largest = n
			}
			l := strings.ToLower(p.name)
			if strings.HasPrefix(l, "xl/worksheets/sheet") || l == "xl/sharedstrings.xml" {
				spoolable += n
			}
		}
		rest := total - spoolable
		seen := map[[2]int64]bool{}
		for _, limit := range []int64{total - 1, total, total + 1, total / 2, largest - 1, largest, rest, rest + 1, rest + spoolable/2, 100, 1 << 20} {
			for _, xmlLimit := range []int64{1, 512, 1024, limit} {
				if limit < 1 || xmlLimit > limit || seen[[2]int64{limit, xmlLimit}] {
					continue
				}
				seen[[2]int64{limit, xmlLimit}] = true
				c.opZL(fix, limit, xmlLimit)
			}
		}
	}
}

// ---- generators for the modelled functions ------------------------------------

var c14BadRefs = []string{"A0", "1A", "A", "1", "A1048577", "XFE1", "ZZZZZZZZZZZZZZZ1", "A-1", "$A$1", "a1", "A01", "A1:B2", " A1"}

func c14GenSpec(rng *Rng, big bool) string {
	n := rng.Range(0, 6)
	if n == 0 {
		return "-"
	}
	var rows []string
	prev := 0
	for i := 0; i < n; i++ {
		var r int
		switch rng.Intn(10) {
		case 0, 1:
			r = 0
		case 2:
			r = prev
		case 3:
			r = prev + 1
		case 4:
			r = rng.Range(1, 4)
		case 5:
			r = -rng.Range(1, 3)
		default:
			r = rng.Range(1, 12)
		}
		if big && rng.Chance(40) {
			r = rng.Pick2([]int{c14TotalRows - 1, c14TotalRows, c14TotalRows + 1, 99999999, 1 << 31, -(1 << 31), 1 << 40, 3000, -1, c14TotalRows})
		}
		prev = r
		row := strconv.Itoa(r)
		nc := rng.Range(0, 5)
		base := r
		if base < 1 {
			base = rng.Range(1, 9)
		}
		for j := 0; j < nc; j++ {
			ref := ""
			switch rng.Intn(8) {
			case 0, 1:
				ref = ""
			case 2:
				ref = rng.Pick(c14BadRefs)
				if big && len(ref) > 10 {
					ref = "A0" // csz compares slot counts only: keep the column-overflow name to the cs ops
				}
			case 3:
				col, _ := xl.ColumnNumberToName(rng.Range(1, 12))
				ref = col + strconv.Itoa(rng.Range(1, 12))
			case 4:
				cn := rng.Pick2([]int{1, 2, 26, 27, 52, 300})
				if rng.Chance(1) {
					cn = rng.Pick2([]int{16383, 16384})
				}
				col, _ := xl.ColumnNumberToName(cn)
				ref = col + strconv.Itoa(base)
				if big {
					ref = col + strconv.Itoa(rng.Pick2([]int{1, c14TotalRows, base}))
				}
			default:
				col, _ := xl.ColumnNumberToName(rng.Range(1, 9))
				rr := base
				if rr > c14TotalRows {
					rr = 1
				}
				ref = col + strconv.Itoa(rr)
			}
			row += "," + hx(ref) + ":" + strconv.Itoa(rng.Intn(2))
		}
		rows = append(rows, row)
	}
	return strings.Join(rows, ";")
}

var c14Fixed = []string{
	// witnesses of the defects seen by reconnaissance and by the enumeration (kept as regression inputs)
	"cs -1,4131:1",                            // <row r="-1">
	"cs 1,5a31:1,4331:1,4431:1",               // cells Z1, C1, D1: unordered, last column smaller than an earlier one
	"cs 0,5a5a5a5a5a5a5a5a5a5a5a5a5a5a5a31:1", // r="0" row with a 15-letter column name (C20 overflow)
	"csz 99999999,-:1",
	"csz 1048576,-:1",
	"csz 1048577,-:1",
	"csz 2147483648",
	"csz -9223372036854775808",
	"gv 73 2d33 0 3 1 0", // t="s" <v>-3</v>
	"gv 73 33 0 3 1 0",   // index == len
	"gv 73 32 5 3 1 0",   // style beyond cellXfs
	"gv 73 32 -1 3 1 0",  // negative style
	"gv 73 2d39323233333732303336383534373735383038 0 3 1 0", // MinInt64
	"gv 73 3939393939393939393939393939393939393939 0 3 1 0", // out of range: clamps to MaxInt64
}

func (c *c14Ctx) replayLine(fx func() []*c14Fixture, line string, pool func() *c14Pool) {
	w := strings.Fields(line)
	if len(w) == 0 || strings.HasPrefix(w[0], "#") {
		return
	}
	at := func(i int) int {
		if i >= len(w) {
			return 0
		}
		n, _ := strconv.Atoi(w[i])
		return n
	}
	switch w[0] {
	case "cs":
		if len(w) == 2 {
			c.opCS(w[1])
		}
	case "csz":
		if len(w) == 2 {
			c.opCSZ(w[1])
		}
	case "gv":
		if len(w) == 7 {
			c.opGV(unhx(w[1]), unhx(w[2]), at(3), at(4), at(5), w[6] == "1", false)
		}
	case "gvc":
		if len(w) == 6 {
			c.opGV(unhx(w[1]), unhx(w[2]), at(3), at(4), at(5), false, true)
		}
	case "sd":
		if len(w) == 3 {
			c.opSD([]byte(unhx(w[1])), []byte(unhx(w[2])))
		}
	case "ns":
		if len(w) == 2 {
			c.opNS(unhx(w[1]))
		}
	case "rw":
		if len(w) == 2 {
			c.opRW(w[1])
		}
	case "ic":
		if len(w) == 6 {
			vm, _ := strconv.ParseUint(w[1], 10, 64)
			c.opIC(vm, at(2), at(3), at(4), at(5))
		}
	case "gr":
		if len(w) == 2 {
			c.opGR(strings.Trim(w[1], "-"))
		}
	case "bs":
		if len(w) == 2 {
			c.opBS(unhx(w[1]))
		}
	case "st":
		if len(w) == 12 {
			c.opST(at(1), at(2), at(3) == 1, at(4), at(5), at(6) == 1, at(7), at(8), at(9) == 1, at(10), at(11))
		}
	case "as":
		if len(w) == 4 {
			c.opAS(w[1] == "1", at(2), strings.Count(w[3], ",")+1)
		}
	case "df":
		if len(w) == 4 {
			c.opDF(at(1), w[2] == "1", w[3] == "1")
		}
	case "tc":
		if len(w) == 3 {
			c.opTC(at(1), w[2] == "1")
		}
	case "gc":
		if len(w) == 3 {
			c.opGC(at(1), at(2))
		}
	case "rt":
		if len(w) == 2 {
			c.opRT(strings.Trim(w[1], "-"))
		}
	case "cf":
		if len(w) == 2 {
			c.opCF(at(1))
		}
	case "mc":
		if len(w) == 4 {
			c.opMC(unhx(w[1]), at(2), at(3))
		}
	case "mm":
		if len(w) == 2 {
			var rs [][4]int
			if w[1] != "-" {
				for _, r := range strings.Split(w[1], ";") {
					q := strings.Split(r, ",")
					if len(q) == 4 {
						var v [4]int
						for i := range v {
							v[i], _ = strconv.Atoi(q[i])
						}
						rs = append(rs, v)
					}
				}
			}
			c.opMM(rs)
		}
	case "ch":
		if len(w) == 4 {
			cs := strings.Split(w[3], ",")
			n, _ := strconv.ParseUint(cs[0], 10, 32)
			for _, f := range fx() {
				if f.name == "gen-enc" {
					c.opCH(f, uint32(n))
				}
			}
		}
	case "ag":
		if len(w) == 14 {
			il := at(1)
			if il >= 8 {
				il = 100
			}
			c.opAG(c14Ag{infoLen: il, xmlOK: w[2] == "1", nKE: at(3), blockSize: at(4), hashLen: at(5), keyBits: at(6), spin: at(7),
				saltOK: w[8] == "1", saltLen: at(9), encOK: w[10] == "1", encLen: at(11), kdSaltOK: w[12] == "1", pkgLen: at(13)})
		}
	case "zl":
		if len(w) >= 4 {
			for _, f := range fx() {
				if f.name == w[1] {
					c.opZL(f, int64(at(2)), int64(at(3)))
				}
			}
		}
	case "mut":
		m := c14ParseMut(fx(), w)
		if m == nil {
			c.r.Notes = append(c.r.Notes, "unparsable mutant line: "+line)
			return
		}
		res := c14RunOne(c14Job{kind: "B", mode: m.mode, pw: m.fix.pw, data: c14Materialise(m)}, 150*time.Second)
		if os.Getenv("VH_C14_DEBUG") != "" {
			fmt.Fprintf(os.Stderr, "c14: replay %s %s %s %s open=%s calls=%d errs=%d %dms %dMiB slowest %s %dms\n", res.Outcome, res.Site, res.Kind, res.Call, res.Open, res.Calls, res.Errs, res.Ms, res.Alloc>>20, res.Slow, res.SlowMs)
		}
		c.mutResult(m, res)
	}
}

// mutResult records one mutant: transcript line, statistics, oracle, tie lines.
func (c *c14Ctx) mutResult(m *c14Mut, res *C14Res) {
	r := c.r
	r.Op(m.line(), "-")
	r.Case(m.line(), true)
	r.Stat("mut:level=" + m.level)
	r.Stat("mut:kind=" + m.kind)
	r.Stat("mut:outcome=" + res.Outcome)
	r.Stat("mut:open=" + res.Open)
	if res.Outcome != "OK" {
		sig := strings.ToLower(res.Outcome) + ":" + res.Site + ":" + res.Kind
		if res.Outcome == "TIMEOUT" || res.Outcome == "CRASH" || res.Outcome == "ALLOC" {
			sig = strings.ToLower(res.Outcome) + ":" + res.Call + ":" + c14PartClass(m)
		}
		// the whole-grid-range class: a formula / defined name replaced by A1:XFD1048576 makes CalcCellValue
		// materialise the grid; depending on machine load that ends as a timeout or as a resource-limit kill of
		// the worker. Attributed by the mutation (value names the whole grid) and the call, not by the outcome class.
		if (res.Outcome == "TIMEOUT" || res.Outcome == "CRASH") && res.Call == "CalcCellValue" &&
			(m.kind == "text" || m.kind == "atval") && m.val >= 0 && m.val < len(c14Values) && c14Values[m.val] == "A1:XFD1048576" {
			sig = "wholegrid:CalcCellValue:" + c14PartClass(m)
		}
		what := fmt.Sprintf("%s in %s (%s) during %s; %s", res.Outcome, res.Site, res.Kind, res.Call, m.ident())
		if res.Outcome != "PANIC" {
			what = fmt.Sprintf("%s during %s (battery took %d ms, allocated %d MiB); %s", res.Outcome, res.Call, res.Ms, res.Alloc>>20, m.ident())
		}
		r.Fail(sig, what, 0, "# "+m.ident()+"\n"+m.line())
	}
	// does the damage show in a modelled value? (decoded rows, shared-string / styled cells, table sizes of a
	// package that still opens; the streams of an encrypted container) — those mutants have Impl's outcome
	// compared with Go's on a transcript line (cs/csz/gvc/sd, deduplicated by value); the others are enumeration only
	if b := c.base[m.fix.name]; b != nil {
		modelled := false
		if m.fix.pw != "" {
			modelled = m.level == "stream" || m.level == "ixml" || m.level == "cfb"
		} else if res.Open == "ok" {
			modelled = strings.Join(res.Specs, "|") != strings.Join(b.Specs, "|") ||
				strings.Join(res.Cells, "|") != strings.Join(b.Cells, "|") || res.NSI != b.NSI || res.NXf != b.NXf
		}
		if modelled {
			r.Stat("tie:mutant-in-modelled-value")
		} else {
			r.Stat("tie:mutant-enumeration-only")
		}
	}
	// tie: decoded rows of every sheet -> cs/csz line; worker's workSheetReader must agree with the hook
	for i, spec := range res.Specs {
		if spec == "!" || spec == "~" || i >= len(res.Wsr) {
			continue
		}
		key := "spec:" + spec
		var got string
		if c.seen[key] {
			continue
		}
		c.seen[key] = true
		slotsOnly := c14SpecMaxR(spec) > 3000 || c14SpecWide(spec)
		if slotsOnly {
			got = c.opCSZ(spec)
		} else {
			got = c.opCS(spec)
		}
		want := map[string]string{"ok": "ok", "err": "ERR", "panic": "PANIC"}[res.Wsr[i]]
		if slotsOnly && c14Class(got) == "ok" && want == "ERR" {
			want = "ok" // csz covers checkSheet only; checkRow may still report an error
		}
		if res.Wsr[i] != "-" && c14Class(got) != want && !(res.Outcome != "OK" && res.Wsr[i] == "panic") {
			r.Fail("tie:workSheetReader", fmt.Sprintf("workSheetReader in the worker: %s, checkSheet/checkRow hook on the same decoded rows: %s; %s", res.Wsr[i], c14Class(got), m.ident()), 0, "# "+m.ident()+"\n"+m.line())
		}
		r.Stat("tie:cs")
	}
	// tie: shared-string / style indices of the cells -> gvc lines; GetRows must agree
	for i, cells := range res.Cells {
		if cells == "" || res.NSI < 0 || i >= len(res.Rows) {
			continue
		}
		predicted := false
		for _, tvs := range strings.Split(cells, ",") {
			p := strings.Split(tvs, ":")
			if len(p) != 3 {
				continue
			}
			s, _ := strconv.Atoi(p[2])
			key := fmt.Sprintf("gvc:%s:%d:%d", tvs, res.NSI, res.NXf)
			if c.seen[key] {
				continue
			}
			c.seen[key] = true
			if c.opGV(unhx(p[0]), unhx(p[1]), s, res.NSI, res.NXf, false, true) == "PANIC" {
				predicted = true
			}
			r.Stat("tie:gvc")
		}
		if predicted && !strings.HasPrefix(res.Rows[i], "panic") && m.mode == 0 {
			r.Fail("tie:getValueFrom", "hook predicts a getValueFrom panic for a cell but GetRows did not panic; "+m.ident(), 0, "# "+m.ident()+"\n"+m.line())
		}
	}
	// tie: encryption streams as Decrypt reads them -> sd line; OpenReader must agree
	// (not in-process when the worker crashed or allocated a lot: extractPart sizes its buffers
	// from the directory entry, the harness would do the same)
	if m.fix.pw != "" && (res.Outcome == "OK" || res.Outcome == "PANIC") && res.Alloc < 512<<20 {
		var info, pkg []byte
		ok := c14Guard(func() string {
			var err error
			info, pkg, err = xl.VerifC14ExtractStreams(c14Materialise(m))
			if err != nil {
				return "ERR"
			}
			return "ok"
		})
		if ok == "ok" && len(info) <= 4096 && len(pkg) <= 1<<16 {
			key := "sd:" + string(info) + "|" + string(pkg[:min(len(pkg), 64)]) + strconv.Itoa(len(pkg))
			if !c.seen[key] {
				c.seen[key] = true
				got := c.opSD(info, pkg)
				panicked := res.Outcome == "PANIC" && res.Call == "OpenReader"
				if (got == "PANIC") != panicked && !(got == "agile") {
					r.Fail("tie:Decrypt", fmt.Sprintf("Decrypt dispatch hook: %s, OpenReader in the worker: %s %s; %s", got, res.Outcome, res.Site, m.ident()), 0, "# "+m.ident()+"\n"+m.line())
				}
				r.Stat("tie:sd")
			}
		}
	}
}

func c14Dbg(what string, t0 time.Time) {
	if os.Getenv("VH_C14_DEBUG") != "" {
		fmt.Fprintf(os.Stderr, "c14: %s at %.1fs\n", what, time.Since(t0).Seconds())
	}
}

func c14PartClass(m *c14Mut) string {
	p := strings.ToLower(m.part)
	for _, k := range []string{"worksheets/_rels", "worksheets/sheet", "sharedstrings", "styles", "workbook.xml.rels", "workbook", "content_types", "drawings/_rels", "vmldrawing", "drawing", "comments", "tables", "charts", "theme", "calcchain", "docprops", "_rels/.rels", "media", "encryptioninfo", "encryptedpackage"} {
		if strings.Contains(p, k) {
			return k
		}
	}
	return m.level
}

func runC14(r *Run, rng *Rng, replay string) {
	r.Rule = "mutants: every enumerated mutant (distinct descriptor) of the corpus run through the fixed battery in a worker process counts as one non-trivial case; model ops: cs/csz with at least one row, gv/gvc with a shared-string cell or non-zero style, sd with a version header; distinct by op text"
	ctx := &c14Ctx{r: r, seen: map[string]bool{}}
	var corpus []*c14Fixture
	fx := func() []*c14Fixture {
		if corpus == nil {
			corpus = c14LoadCorpus()
		}
		return corpus
	}
	if replay != "" {
		for _, line := range readLines(replay) {
			ctx.replayLine(fx, line, nil)
		}
		return
	}
	thorough := r.Tier == "thorough"
	t0 := time.Now()
	if pat := os.Getenv("VH_C14_LIST"); pat != "" { // helper: print the descriptor lines of matching mutants
		for _, m := range c14Enumerate(fx(), true) {
			if strings.Contains(m.ident(), pat) {
				fmt.Println(m.line(), " # ", m.ident())
			}
		}
		return
	}
	// 1. fixed witnesses
	for _, l := range c14Fixed {
		ctx.replayLine(fx, l, nil)
	}
	// the witnesses of the open findings run through the pool with the other mutants (see below)
	c14Dbg("fixed done", t0)
	// 2. generated decoded values for the modelled functions
	nCS, nGV, nSD := 2500, 1200, 60
	if thorough {
		nCS, nGV, nSD = 15000, 8000, 600
	}
	for i := 0; i < nCS; i++ {
		ctx.opCS(c14GenSpec(rng, false))
	}
	nCSZ := 16
	if thorough {
		nCSZ = 120
	}
	for i := 0; i < nCSZ; i++ {
		ctx.opCSZ(c14GenSpec(rng, true))
	}
	ts := []string{"s", "s", "s", "str", "b", "inlineStr", "", "n", "e"}
	vs := []string{"0", "1", "2", "3", "4", "-1", "-3", " 2 ", "\t1\n", "+1", "abc", "", "2.5", "1e3", "9223372036854775807", "9223372036854775808", "-9223372036854775808", "-9223372036854775809", "007", "0x1", "1_0", "٣", " 2", " 2"}
	for i := 0; i < nGV; i++ {
		t, v := rng.Pick(ts), rng.Pick(vs)
		if rng.Chance(30) {
			v = strconv.Itoa(rng.Range(-6, 8))
		}
		nSI, nXf := rng.Range(0, 5), rng.Range(-1, 4)
		s := rng.Range(-3, 6)
		if rng.Chance(10) {
			s = rng.Pick2([]int{1 << 31, -(1 << 31), 1 << 62, 65536})
		}
		if rng.Chance(30) {
			s = 0
		}
		if t != "s" && t != "str" && t != "b" {
			// number formats are not modelled: keep the numeric-looking payloads to the shared-string path
			v = rng.Pick([]string{"abc", "", "x y", "-", "1a"})
		}
		ctx.opGV(t, v, s, nSI, nXf, rng.Chance(25), false)
	}
	c14Dbg("cs/gv done", t0)
	c14GenSD(ctx, rng, nSD)
	c14GenZL(ctx, fx())
	c14GenSites(ctx, rng, fx(), thorough)
	c14Dbg("sites done", t0)
	c14Dbg("sd done", t0)
	// 3. the mutation space
	all := c14Enumerate(fx(), thorough)
	sel := all
	full := os.Getenv("VH_C14_FULL") == "1"
	if thorough && !full {
		// deterministic stride: every 4th mutant of the enumeration, phase rotating with the seed
		sel = nil
		for i := int(r.Seed % 4); i < len(all); i += 4 {
			sel = append(sel, all[i])
		}
	}
	if !thorough {
		sel = c14Select(all, r.Seed, map[string]int{"xml": 2000, "part": 160, "zip": 260, "cfb": 220, "stream": 220, "ixml": 160, "nsroot": 250})
	}
	{
		var wit []*c14Mut
		have := map[string]bool{}
		for _, l := range c14Witness {
			if m := c14ParseMut(fx(), strings.Fields(l)); m != nil {
				wit = append(wit, m)
				have[m.line()] = true
			}
		}
		// regression mutants for the Strict scanner: the blank between two namespace declarations of the root
		// element flipped to '!' (lowest bit), in every XML part of the Strict fixture that has one
		for _, f := range fx() {
			if f.name != "gen-strict" {
				continue
			}
			for _, p := range f.parts {
				if k := bytes.Index(p.data, []byte(`" xmlns`)); k > 0 && c14IsXML(p.name) {
					m := &c14Mut{fix: f, level: "nsroot", part: p.name, kind: "nsbyte", a: k + 1, val: 0, path: "/root#attrs"}
					if !have[m.line()] {
						wit = append(wit, m)
						have[m.line()] = true
					}
				}
			}
		}
		for _, m := range sel {
			if !have[m.line()] {
				wit = append(wit, m)
			}
		}
		sel = wit
	}
	r.Notes = append(r.Notes, fmt.Sprintf("mutation space: %d mutants over %d fixtures; executed %d (incl. %d witnesses of open findings)", len(all), len(fx()), len(sel), len(c14Witness)))
	workers := runtime.NumCPU()
	if workers > 16 {
		workers = 16
	}
	if workers < 2 {
		workers = 2
	}
	results := make([]*C14Res, len(sel))
	pool := c14NewPool(workers, 30*time.Second)
	// baseline: every fixture unmutated must pass the battery
	base := make([]*C14Res, len(fx()))
	for i, f := range fx() {
		i, f := i, f
		pool.submit(c14Job{kind: "B", pw: f.pw, data: f.raw, done: func(res *C14Res) { base[i] = res }})
	}
	for i, m := range sel {
		i, m := i, m
		pool.submit(c14Job{kind: "B", mode: m.mode, pw: m.fix.pw, data: c14Materialise(m), done: func(res *C14Res) {
			results[i] = res
			if os.Getenv("VH_C14_DEBUG") != "" && (res.Ms > 2000 || res.Outcome != "OK") {
				fmt.Fprintf(os.Stderr, "c14: #%d %s %s %s %s %dms %dMiB :: %s\n", i, res.Outcome, res.Site, res.Kind, res.Call, res.Ms, res.Alloc>>20, m.ident())
			}
		}})
	}
	pool.close()
	c14Dbg("pool done", t0)
	// a timeout under load proves nothing: re-run such mutants alone, with a generous limit
	for i, m := range sel {
		if results[i] != nil && results[i].Outcome == "TIMEOUT" && i >= len(c14Witness) {
			r.Stat("mut:timeout-retried")
			results[i] = c14RunOne(c14Job{kind: "B", mode: m.mode, pw: m.fix.pw, data: c14Materialise(m)}, 60*time.Second)
		}
	}
	c14Dbg("retries done", t0)
	for i, f := range fx() {
		if base[i] == nil || base[i].Outcome != "OK" || base[i].Open != "ok" {
			o := "nil"
			if base[i] != nil {
				o = base[i].Outcome + "/" + base[i].Open + " " + base[i].Site
			}
			r.Fail("corpus:baseline", "unmutated fixture "+f.name+" does not pass the battery: "+o, 0, "# fixture "+f.name)
		}
		r.Stat("corpus:fixture")
	}
	ctx.base = map[string]*C14Res{}
	for i, f := range fx() {
		ctx.base[f.name] = base[i]
	}
	var maxMs int64
	var maxAlloc uint64
	for i, m := range sel {
		if results[i] == nil {
			results[i] = &C14Res{Outcome: "CRASH", Open: "?"}
		}
		if results[i].Ms > maxMs {
			maxMs = results[i].Ms
		}
		if results[i].Alloc > maxAlloc {
			maxAlloc = results[i].Alloc
		}
		ctx.mutResult(m, results[i])
	}
	r.Notes = append(r.Notes, fmt.Sprintf("mutant->model tie: %d of %d executed mutants changed a modelled value (decoded rows, shared-string/styled cells, table sizes, encryption streams) and had Impl's outcome compared with Go's on a cs/csz/gvc/sd line (%d distinct lines); %d mutants are enumeration only",
		r.Stats["tie:mutant-in-modelled-value"], len(sel), r.Stats["tie:cs"]+r.Stats["tie:gvc"]+r.Stats["tie:sd"], r.Stats["tie:mutant-enumeration-only"]))
	r.Notes = append(r.Notes, fmt.Sprintf("workers %d (respawned %d times); slowest battery %d ms; largest allocation %d MiB; harness %.1fs", workers, pool.spawned-workers, maxMs, maxAlloc>>20, time.Since(t0).Seconds()))
	for _, s := range r.opsSample(10) {
		if len(s) > 300 {
			s = s[:300] + "..."
		}
		r.Sample(s)
	}
	r.Exhaust = thorough && full
	if thorough && !full {
		r.Notes = append(r.Notes, "thorough tier runs every 4th mutant of the enumeration (phase = seed mod 4); VH_C14_FULL=1 runs all of it")
	}
	// distribution per fixture
	perFix := map[string]int{}
	for _, m := range sel {
		perFix[m.fix.name]++
	}
	var names []string
	for n := range perFix {
		names = append(names, n)
	}
	sort.Strings(names)
	for _, n := range names {
		r.Stats["mut:fixture="+n] = perFix[n]
	}
}

// c14GenSD: EncryptionInfo / EncryptedPackage streams around a valid standard-encryption pair.
func c14GenSD(ctx *c14Ctx, rng *Rng, n int) {
	info, pkg, err := xl.VerifC14EncryptStreams([]byte(strings.Repeat("payload-", 9)), "pw")
	must(err)
	ctx.opSD(info, pkg)
	for l := 0; l <= len(info); l++ {
		ctx.opSD(info[:l], pkg)
	}
	for l := 0; l <= 40; l++ {
		ctx.opSD(info, pkg[:l])
	}
	// the same truncation sweep with a non-AES algorithm id (RC4: 60-byte verifier) and with every
	// value of the VerifierHashSize field the stream could claim
	rc4 := append([]byte{}, info...)
	binary.LittleEndian.PutUint32(rc4[12+8:], 0x6801)
	for l := 0; l <= len(rc4); l++ {
		ctx.opSD(rc4[:l], pkg)
	}
	if hs := int(binary.LittleEndian.Uint32(info[8:12])); 12+hs+40 <= len(info) {
		for _, v := range []uint32{0, 16, 20, 31, 32, 33, 64, 0xFFFFFFFF} {
			for _, cut := range []int{0, 1, 6, 12, 13, 20} {
				in := append([]byte{}, info...)
				binary.LittleEndian.PutUint32(in[12+hs+36:], v)
				ctx.opSD(in[:len(in)-cut], pkg)
			}
		}
	}
	for i := 0; i < n; i++ {
		in := append([]byte{}, info...)
		pk := append([]byte{}, pkg...)
		for k := rng.Range(1, 2); k > 0; k-- {
			switch rng.Intn(7) {
			case 0: // header size
				binary.LittleEndian.PutUint32(in[8:], uint32(rng.Pick2([]int{0, 4, 31, 32, 33, len(in) - 12, len(in) - 11, len(in) - 52, len(in) - 51, 0x7FFFFFFF, 0xFFFFFFFF, 0xFFFFFFF4, 0xFFFFFFF3, rng.Range(0, 200)})))
			case 1: // key size
				binary.LittleEndian.PutUint32(in[12+16:], uint32(rng.Pick2([]int{0, 8, 64, 127, 128, 192, 256, 320, 384, 385, 392, 512, 1 << 20, 0xFFFFFFFF})))
			case 2: // algorithm
				binary.LittleEndian.PutUint32(in[12+8:], uint32(rng.Pick2([]int{0x660E, 0x660F, 0x6610, 0x6801, 0})))
			case 3: // version
				binary.LittleEndian.PutUint16(in[0:], uint16(rng.Pick2([]int{1, 2, 3, 4, 5})))
				binary.LittleEndian.PutUint16(in[2:], uint16(rng.Pick2([]int{2, 2, 2, 3, 4, 0})))
			case 4:
				in = in[:rng.Range(0, len(in))]
			case 5:
				pk = pk[:rng.Range(0, len(pk))]
			default:
				o := rng.Range(0, len(in)/4-1) * 4
				binary.LittleEndian.PutUint32(in[o:], uint32(rng.U64()))
			}
			if len(in) < 36 {
				break
			}
		}
		ctx.opSD(in, pk)
	}
	_ = hex.EncodeToString
	_ = os.Getenv
}
