//go:build verif_c14

package main

// C14 mutation space: corpus of valid packages (generated through the API +
// the fixtures of the repository's test directory) and the systematic
// enumeration of mutants over them: per-part truncation points, removal and
// duplication of every element and attribute, boundary-value substitution of
// every attribute value and text node, part removal/renaming/replacement,
// zip-level corruption and compound-file (encrypted container) corruption.
// A mutant is identified by a self-contained descriptor line (`mut ...`) that
// regenerates it deterministically.

import (
	"archive/zip"
	"bytes"
	"encoding/binary"
	"fmt"
	_ "image/gif"
	_ "image/jpeg"
	_ "image/png"
	"io"
	"os"
	"path/filepath"
	"sort"
	"strconv"
	"strings"

	xl "github.com/xuri/excelize/v2"
)

type c14Part struct {
	name string
	data []byte
}

type c14Fixture struct {
	name  string
	parts []c14Part // zip entries in order (plain packages)
	pw    string    // non-empty: encrypted container
	raw   []byte    // container bytes (encrypted) or canonical zip bytes (plain)
	info  []byte    // EncryptionInfo stream
	pkg   []byte    // EncryptedPackage stream
	agile bool
}

// boundary values substituted for every attribute value and text node
var c14Values = []string{
	"-1", "0", "1", "2147483648", "4294967296", "9223372036854775807", "9223372036854775808",
	"-9223372036854775808", "1e308", "1048576", "1048577", "99999999", "", "abc",
	strings.Repeat("9", 400), strings.Repeat("A", 70000),
	"XFD1048576", "A0", "A1048577", "ZZZZZZZZZZZZZZZ1", "A1:XFD1048576", "-3", "16385", "65536",
}

// string payloads for the text nodes of shared-string and worksheet parts: a value ending in every prefix
// of an `_xHHHH_` escape (the unescaping of basic strings slices at the escape positions)
var c14BstrValues = []string{"hello_", "hello_x", "hello_x0", "hello_x00", "hello_x000", "hello_x000A", "hello_x000A_", "_x005F", "_x005F_x000A", "_xD800_"}

func c14RepoDir() string {
	if d := os.Getenv("VERIF_REPO"); d != "" {
		return d
	}
	return "/repo"
}

func c14ZipParts(b []byte) ([]c14Part, error) {
	zr, err := zip.NewReader(bytes.NewReader(b), int64(len(b)))
	if err != nil {
		return nil, err
	}
	var parts []c14Part
	for _, f := range zr.File {
		rc, err := f.Open()
		if err != nil {
			return nil, err
		}
		d, err := io.ReadAll(rc)
		rc.Close()
		if err != nil {
			return nil, err
		}
		parts = append(parts, c14Part{f.Name, d})
	}
	return parts, nil
}

func c14WriteZip(parts []c14Part) []byte {
	var buf bytes.Buffer
	zw := zip.NewWriter(&buf)
	for _, p := range parts {
		w, err := zw.CreateHeader(&zip.FileHeader{Name: p.name, Method: zip.Deflate})
		must(err)
		_, err = w.Write(p.data)
		must(err)
	}
	must(zw.Close())
	return buf.Bytes()
}

func c14GenBasic() []byte {
	f := xl.NewFile()
	defer f.Close()
	sh := "Sheet1"
	must(f.SetCellValue(sh, "A1", "text"))
	must(f.SetCellValue(sh, "B1", 42.5))
	must(f.SetCellValue(sh, "C1", true))
	dateStyle, err := f.NewStyle(&xl.Style{NumFmt: 14})
	must(err)
	must(f.SetCellValue(sh, "A2", 44197.5))
	must(f.SetCellStyle(sh, "A2", "A2", dateStyle))
	custom := "0.00%;[Red]-0.00%"
	pct, err := f.NewStyle(&xl.Style{CustomNumFmt: &custom, Font: &xl.Font{Bold: true, Color: "FF0000"},
		Fill:   xl.Fill{Type: "pattern", Color: []string{"E0EBF5"}, Pattern: 1},
		Border: []xl.Border{{Type: "left", Color: "0000FF", Style: 2}}})
	must(err)
	must(f.SetCellValue(sh, "B2", 0.1234))
	must(f.SetCellStyle(sh, "B2", "B2", pct))
	must(f.SetCellFormula(sh, "C2", "SUM(B1:B2)"))
	must(f.SetCellValue(sh, "C3", 7))
	must(f.AddComment(sh, xl.Comment{Cell: "C3", Author: "v", Paragraph: []xl.RichTextRun{{Text: "note"}}}))
	must(f.SetCellRichText(sh, "A4", []xl.RichTextRun{{Text: "rich", Font: &xl.Font{Bold: true}}, {Text: " text"}}))
	must(f.SetCellValue(sh, "D5", "sparse"))
	must(f.SetCellValue(sh, "H5", "far"))
	must(f.SetCellFormula(sh, "B7", "A1&\"x\""))
	must(f.SetCellValue(sh, "A8", "merged"))
	must(f.MergeCell(sh, "A8", "C9"))
	must(f.SetCellHyperLink(sh, "D5", "https://example.com", "External"))
	if img, err := os.ReadFile(filepath.Join(c14RepoDir(), "test", "images", "excel.gif")); err == nil {
		must(f.AddPictureFromBytes(sh, "E9", &xl.Picture{Extension: ".gif", File: img, Format: &xl.GraphicOptions{AltText: "p"}}))
	}
	dv := xl.NewDataValidation(true)
	dv.Sqref = "F1:F3"
	must(dv.SetRange(1, 10, xl.DataValidationTypeWhole, xl.DataValidationOperatorBetween))
	must(f.AddDataValidation(sh, dv))
	must(f.SetConditionalFormat(sh, "B1:B2", []xl.ConditionalFormatOptions{{Type: "cell", Criteria: ">", Format: &pct, Value: "6"}}))
	must(f.SetDefinedName(&xl.DefinedName{Name: "Amount", RefersTo: "Sheet1!$B$1:$B$2", Comment: "c"}))
	must(f.SetColWidth(sh, "B", "C", 18))
	must(f.SetRowHeight(sh, 2, 30))
	must(f.SetPanes(sh, &xl.Panes{Freeze: true, XSplit: 1, YSplit: 1, TopLeftCell: "B2", ActivePane: "bottomRight"}))
	_, err = f.NewSheet("Data")
	must(err)
	must(f.SetCellValue("Data", "A1", "text"))
	must(f.SetCellValue("Data", "B2", 3))
	must(f.SetCellFormula("Data", "C3", "Sheet1!B1*B2+Amount"))
	must(f.SetRowVisible("Data", 2, false))
	must(f.AddTable("Data", &xl.Table{Range: "E1:F3", Name: "T1"}))
	buf, err := f.WriteToBuffer()
	must(err)
	return buf.Bytes()
}

// c14GenR0 is a package whose worksheet relies on implicit positions: rows and
// cells without r attributes, r="0" rows, unordered and sparse cells.
func c14GenR0() []byte {
	f := xl.NewFile()
	must(f.SetCellValue("Sheet1", "A1", "s0"))
	must(f.SetCellValue("Sheet1", "A2", "s1"))
	st, err := f.NewStyle(&xl.Style{NumFmt: 2})
	must(err)
	must(f.SetCellStyle("Sheet1", "B1", "B1", st))
	buf, err := f.WriteToBuffer()
	must(err)
	f.Close()
	parts, err := c14ZipParts(buf.Bytes())
	must(err)
	sheet := `<?xml version="1.0" encoding="UTF-8" standalone="yes"?>` +
		`<worksheet xmlns="http://schemas.openxmlformats.org/spreadsheetml/2006/main"><dimension ref="A1:H9"/><sheetData>` +
		`<row><c t="s"><v>0</v></c><c s="1"><v>1.5</v></c><c r="E1"><v>5</v></c></row>` +
		`<row r="2" spans="1:8"><c r="A2" t="s" s="1"><v>1</v></c><c r="D2"><v>4</v></c><c r="H2"><v>8</v></c></row>` +
		`<row r="0"><c r="B4"><v>24</v></c><c r="A3" t="inlineStr"><is><t>in</t></is></c></row>` +
		`<row r="5"><c r="C5"><f>A1&amp;"x"</f></c><c><v>6</v></c></row>` +
		`<row r="5"><c r="F5" t="b"><v>1</v></c></row>` +
		`<row r="9" ht="20" customHeight="1"><c r="B9" t="str"><v>nine</v></c></row>` +
		`</sheetData><mergeCells count="1"><mergeCell ref="A8:B8"/></mergeCells></worksheet>`
	for i := range parts {
		if parts[i].name == "xl/worksheets/sheet1.xml" {
			parts[i].data = []byte(sheet)
		}
	}
	return c14WriteZip(parts)
}

// c14ToStrict rewrites a library-written package to the ISO Strict namespace / relationship URLs, so that
// namespaceStrictToTransitional (the tag-aware scanner) runs on every XML part when it is read.
func c14ToStrict(b []byte) []byte {
	parts, err := c14ZipParts(b)
	must(err)
	pairs := [][2]string{
		{"http://schemas.openxmlformats.org/officeDocument/2006/relationships/officeDocument", "http://purl.oclc.org/ooxml/officeDocument/relationships/officeDocument"},
		{"http://schemas.openxmlformats.org/officeDocument/2006/relationships/extended-properties", "http://purl.oclc.org/ooxml/officeDocument/relationships/extendedProperties"},
		{"http://schemas.openxmlformats.org/officeDocument/2006/relationships/comments", "http://purl.oclc.org/ooxml/officeDocument/relationships/comments"},
		{"http://schemas.openxmlformats.org/officeDocument/2006/relationships/image", "http://purl.oclc.org/ooxml/officeDocument/relationships/image"},
		{"http://schemas.openxmlformats.org/officeDocument/2006/relationships/chart", "http://purl.oclc.org/ooxml/officeDocument/relationships/chart"},
		{"http://schemas.openxmlformats.org/officeDocument/2006/relationships\"", "http://purl.oclc.org/ooxml/officeDocument/relationships\""},
		{"http://schemas.openxmlformats.org/spreadsheetml/2006/main", "http://purl.oclc.org/ooxml/spreadsheetml/main"},
		{"http://schemas.openxmlformats.org/drawingml/2006/main", "http://purl.oclc.org/ooxml/drawingml/main"},
		{"http://schemas.openxmlformats.org/officeDocument/2006/extended-properties", "http://purl.oclc.org/ooxml/officeDocument/extendedProperties"},
		{"http://schemas.openxmlformats.org/officeDocument/2006/docPropsVTypes", "http://purl.oclc.org/ooxml/officeDocument/docPropsVTypes"},
	}
	for i := range parts {
		if !c14IsXML(parts[i].name) {
			continue
		}
		t := string(parts[i].data)
		for _, p := range pairs {
			t = strings.ReplaceAll(t, p[0], p[1])
		}
		parts[i].data = []byte(t)
	}
	return c14WriteZip(parts)
}

func c14LoadCorpus() []*c14Fixture {
	var fx []*c14Fixture
	addPlain := func(name string, b []byte) {
		parts, err := c14ZipParts(b)
		must(err)
		fx = append(fx, &c14Fixture{name: name, parts: parts, raw: c14WriteZip(parts)})
	}
	basic := c14GenBasic()
	addPlain("gen-basic", basic)
	addPlain("gen-r0", c14GenR0())
	addPlain("gen-strict", c14ToStrict(basic))
	for _, n := range []string{"Book1", "MergeCell", "SharedStrings", "CalcChain", "OverflowNumericCell", "BadWorkbook"} {
		b, err := os.ReadFile(filepath.Join(c14RepoDir(), "test", n+".xlsx"))
		must(err)
		addPlain(n, b)
	}
	// encrypted containers
	small := c14GenR0()
	info, pkg, err := xl.VerifC14EncryptStreams(small, "pw")
	must(err)
	fx = append(fx, &c14Fixture{name: "gen-enc", pw: "pw", raw: xl.VerifC14BuildCFB(info, pkg), info: info, pkg: pkg})
	for _, n := range []string{"encryptAES", "encryptSHA1"} {
		b, err := os.ReadFile(filepath.Join(c14RepoDir(), "test", n+".xlsx"))
		must(err)
		info, pkg, err := xl.VerifC14ExtractStreams(b)
		must(err)
		ag := len(info) >= 4 && binary.LittleEndian.Uint16(info[:2]) == 4 && binary.LittleEndian.Uint16(info[2:4]) == 4
		fx = append(fx, &c14Fixture{name: n, pw: "password", raw: b, info: info, pkg: pkg, agile: ag})
	}
	return fx
}

// ---- XML scanner -------------------------------------------------------------

type c14Attr struct {
	s, e, vs, ve int // [s,e): whole attribute including the leading blank; [vs,ve): value inside the quotes
	name         string
}

type c14Elem struct {
	s, se, e int // '<' offset; end of start tag; end of element (after the matching end tag)
	name     string
	path     string
	attrs    []c14Attr
}

type c14Text struct {
	s, e int
	path string
}

func c14IsXML(name string) bool {
	l := strings.ToLower(name)
	return strings.HasSuffix(l, ".xml") || strings.HasSuffix(l, ".rels") || strings.HasSuffix(l, ".vml")
}

// c14ScanXML is a small offset-preserving scanner for well-formed XML (the corpus is valid).
func c14ScanXML(b []byte) (elems []c14Elem, texts []c14Text) {
	type open struct {
		idx   int
		count map[string]int
	}
	var stack []open
	rootCount := map[string]int{}
	i, n := 0, len(b)
	curPath := func() string {
		if len(stack) == 0 {
			return ""
		}
		return elems[stack[len(stack)-1].idx].path
	}
	for i < n {
		if b[i] != '<' {
			j := bytes.IndexByte(b[i:], '<')
			if j < 0 {
				j = n - i
			}
			if len(bytes.TrimSpace(b[i:i+j])) > 0 && len(stack) > 0 {
				texts = append(texts, c14Text{i, i + j, curPath()})
			}
			i += j
			continue
		}
		switch {
		case bytes.HasPrefix(b[i:], []byte("<?")):
			j := bytes.Index(b[i:], []byte("?>"))
			if j < 0 {
				return
			}
			i += j + 2
		case bytes.HasPrefix(b[i:], []byte("<!--")):
			j := bytes.Index(b[i:], []byte("-->"))
			if j < 0 {
				return
			}
			i += j + 3
		case bytes.HasPrefix(b[i:], []byte("<![CDATA[")):
			j := bytes.Index(b[i:], []byte("]]>"))
			if j < 0 {
				return
			}
			i += j + 3
		case bytes.HasPrefix(b[i:], []byte("<!")):
			j := bytes.IndexByte(b[i:], '>')
			if j < 0 {
				return
			}
			i += j + 1
		case bytes.HasPrefix(b[i:], []byte("</")):
			j := bytes.IndexByte(b[i:], '>')
			if j < 0 {
				return
			}
			if len(stack) > 0 {
				elems[stack[len(stack)-1].idx].e = i + j + 1
				stack = stack[:len(stack)-1]
			}
			i += j + 1
		default:
			s := i
			k := i + 1
			for k < n && !strings.ContainsRune(" \t\r\n/>", rune(b[k])) {
				k++
			}
			name := string(b[i+1 : k])
			var attrs []c14Attr
			selfClose := false
			for k < n && b[k] != '>' {
				if b[k] == '/' {
					selfClose = true
					k++
					continue
				}
				if b[k] == ' ' || b[k] == '\t' || b[k] == '\r' || b[k] == '\n' {
					k++
					continue
				}
				as := k
				for as > 0 && (b[as-1] == ' ' || b[as-1] == '\t' || b[as-1] == '\r' || b[as-1] == '\n') {
					as--
				}
				ne := k
				for ne < n && b[ne] != '=' && b[ne] != '>' {
					ne++
				}
				if ne >= n || b[ne] == '>' {
					k = ne
					break
				}
				an := strings.TrimSpace(string(b[k:ne]))
				q := ne + 1
				for q < n && b[q] != '"' && b[q] != '\'' {
					q++
				}
				if q >= n {
					return
				}
				qe := bytes.IndexByte(b[q+1:], b[q])
				if qe < 0 {
					return
				}
				attrs = append(attrs, c14Attr{as, q + 1 + qe + 1, q + 1, q + 1 + qe, an})
				k = q + 1 + qe + 1
				selfClose = false
			}
			if k >= n {
				return
			}
			var cnt map[string]int
			if len(stack) == 0 {
				cnt = rootCount
			} else {
				cnt = stack[len(stack)-1].count
			}
			cnt[name]++
			path := curPath() + "/" + name
			if cnt[name] > 1 || true {
				path += "[" + strconv.Itoa(cnt[name]) + "]"
			}
			el := c14Elem{s: s, se: k + 1, e: k + 1, name: name, path: path, attrs: attrs}
			elems = append(elems, el)
			if !selfClose {
				stack = append(stack, open{len(elems) - 1, map[string]int{}})
			}
			i = k + 1
		}
	}
	return
}

// ---- mutants -----------------------------------------------------------------

type c14Mut struct {
	fix   *c14Fixture
	mode  int
	level string // xml | part | zip | cfb | stream | ixml
	part  string
	kind  string
	a, b  int
	val   int
	path  string
}

func (m *c14Mut) line() string {
	return fmt.Sprintf("mut %s %d %s %s %s %d %d %d %s", m.fix.name, m.mode, m.level, hx(m.part), m.kind, m.a, m.b, m.val, hx(m.path))
}

func (m *c14Mut) ident() string {
	v := ""
	if m.kind == "btext" {
		v = "=" + c14BstrValues[m.val%len(c14BstrValues)]
	} else if m.kind == "atval" || m.kind == "text" {
		v = "=" + c14ValName(m.val)
	} else if m.level != "xml" && m.level != "ixml" {
		v = fmt.Sprintf("@%d,%d,%d", m.a, m.b, m.val)
	}
	return fmt.Sprintf("fixture=%s mode=%d part=%s path=%s mutation=%s%s", m.fix.name, m.mode, m.part, m.path, m.kind, v)
}

func c14ValName(i int) string {
	if i < 0 || i >= len(c14Values) {
		return "?"
	}
	v := c14Values[i]
	if len(v) > 24 {
		return fmt.Sprintf("%s..x%d", v[:4], len(v))
	}
	if v == "" {
		return "<empty>"
	}
	return v
}

func c14XMLMuts(fix *c14Fixture, level, part string, data []byte, thorough bool) []*c14Mut {
	var ms []*c14Mut
	elems, texts := c14ScanXML(data)
	// parts the library never decodes (it only stores and re-emits their bytes): structural
	// mutations in full, every sixth boundary value
	lp := strings.ToLower(part)
	opaque := strings.Contains(lp, "charts/style") || strings.Contains(lp, "charts/colors") || strings.Contains(lp, "charts/chart")
	add := func(kind string, a, b, val int, path string) {
		ms = append(ms, &c14Mut{fix: fix, level: level, part: part, kind: kind, a: a, b: b, val: val, path: path})
	}
	for _, el := range elems {
		add("trunc", el.s, 0, 0, el.path)
		add("trunc", el.s+2, 0, 0, el.path+"#name")
		if len(el.attrs) > 0 {
			at := el.attrs[0]
			add("trunc", (at.vs+at.ve+1)/2, 0, 0, el.path+"/@"+at.name+"#value")
		}
		if el.e > el.se {
			add("trunc", el.e-2, 0, 0, el.path+"#end")
		}
		add("elrm", el.s, el.e, 0, el.path)
		add("eldup", el.s, el.e, 0, el.path)
		for _, at := range el.attrs {
			p := el.path + "/@" + at.name
			add("atrm", at.s, at.e, 0, p)
			add("atdup", at.s, at.e, 0, p)
			for vi := range c14Values {
				if c14Values[vi] == string(data[at.vs:at.ve]) || (opaque && vi%6 != 0) {
					continue
				}
				add("atval", at.vs, at.ve, vi, p)
			}
		}
	}
	for _, t := range texts {
		add("trunc", (t.s+t.e)/2, 0, 0, t.path+"#text")
		for vi := range c14Values {
			add("text", t.s, t.e, vi, t.path+"#text")
		}
		if strings.Contains(lp, "sharedstrings") || strings.Contains(lp, "worksheets/sheet") {
			for vi := range c14BstrValues {
				add("btext", t.s, t.e, vi, t.path+"#text")
			}
		}
	}
	return ms
}

func c14ApplyXML(data []byte, m *c14Mut) []byte {
	a, b := m.a, m.b
	if a < 0 || a > len(data) || (m.kind != "trunc" && (b < a || b > len(data))) {
		return data
	}
	cat := func(xs ...[]byte) []byte { return bytes.Join(xs, nil) }
	switch m.kind {
	case "trunc":
		return append([]byte{}, data[:a]...)
	case "elrm", "atrm":
		return cat(data[:a], data[b:])
	case "eldup", "atdup":
		return cat(data[:b], data[a:b], data[b:])
	case "atval", "text":
		return cat(data[:a], []byte(c14Values[m.val]), data[b:])
	case "btext":
		return cat(data[:a], []byte(c14BstrValues[m.val%len(c14BstrValues)]), data[b:])
	}
	return data
}

var c14CfbBytes = []byte{0x00, 0xFF, 0x7F, 0x01}
var c14U32 = []uint32{0, 1, 0x20, 0x7FFFFFFF, 0x80000000, 0xFFFFFFF4, 0xFFFFFFFF, 24, 1024}

// c14Enumerate lists every mutant of the space (descriptors only).
func c14Enumerate(fx []*c14Fixture, thorough bool) []*c14Mut {
	var ms []*c14Mut
	for _, fix := range fx {
		if fix.pw == "" {
			for _, p := range fix.parts {
				if c14IsXML(p.name) {
					xm := c14XMLMuts(fix, "xml", p.name, p.data, thorough)
					ms = append(ms, xm...)
					// the temp-file code paths (UnzipXMLSizeLimit tiny) for worksheet / shared-string parts
					l := strings.ToLower(p.name)
					if strings.Contains(l, "worksheets/sheet") || strings.Contains(l, "sharedstrings") {
						for _, m := range xm {
							if m.kind == "atval" || m.kind == "text" || m.kind == "btext" || m.kind == "elrm" || m.kind == "atrm" {
								c := *m
								c.mode = 1
								ms = append(ms, &c)
							}
						}
					}
				}
				if fix.name == "gen-strict" && c14IsXML(p.name) {
					// the attribute region of the root element, byte by byte: flip the lowest bit, delete, a quote, '<'
					if els, _ := c14ScanXML(p.data); len(els) > 0 && len(els[0].attrs) > 0 {
						for off := els[0].attrs[0].s; off < els[0].se && off < len(p.data); off++ {
							for v := 0; v < 4; v++ {
								ms = append(ms, &c14Mut{fix: fix, level: "nsroot", part: p.name, kind: "nsbyte", a: off, val: v, path: els[0].path + "#attrs"})
							}
						}
					}
				}
				for _, k := range []string{"prm", "pren-x", "pren-upper", "pren-bslash", "pren-slash", "pempty", "pjunk", "pdup", "pbom"} {
					ms = append(ms, &c14Mut{fix: fix, level: "part", part: p.name, kind: k, path: "-"})
				}
			}
			// zip level, on the canonical serialisation
			n := len(fix.raw)
			for i := 0; i <= 64; i++ {
				ms = append(ms, &c14Mut{fix: fix, level: "zip", part: "-", kind: "ztrunc", a: n * i / 65, path: "-"})
			}
			for i := 1; i <= 24; i++ {
				ms = append(ms, &c14Mut{fix: fix, level: "zip", part: "-", kind: "ztrunc", a: n - i, path: "-"})
			}
			cd := bytes.Index(fix.raw, []byte("PK\x01\x02"))
			eocd := bytes.LastIndex(fix.raw, []byte("PK\x05\x06"))
			for _, v := range []int{0x00, 0xFF} {
				for off := eocd; off >= 0 && off < n; off++ {
					ms = append(ms, &c14Mut{fix: fix, level: "zip", part: "-", kind: "zbyte", a: off, val: v, path: "eocd"})
				}
				for off := cd; cd >= 0 && off < cd+46*2 && off < n; off++ {
					ms = append(ms, &c14Mut{fix: fix, level: "zip", part: "-", kind: "zbyte", a: off, val: v, path: "central"})
				}
				for off := 0; off < 64 && off < n; off++ {
					ms = append(ms, &c14Mut{fix: fix, level: "zip", part: "-", kind: "zbyte", a: off, val: v, path: "local"})
				}
			}
			step := 97
			if thorough {
				step = 13
			}
			for off := 64; off < n; off += step {
				ms = append(ms, &c14Mut{fix: fix, level: "zip", part: "-", kind: "zbyte", a: off, val: 0xA5, path: "data"})
			}
			for pi := range fix.parts {
				for vi := range []int{0, 1, 2, 3} {
					ms = append(ms, &c14Mut{fix: fix, level: "zip", part: fix.parts[pi].name, kind: "zsize", a: pi, val: vi, path: "-"})
				}
			}
			continue
		}
		// encrypted container: byte level
		n := len(fix.raw)
		for i := 0; i <= 40; i++ {
			ms = append(ms, &c14Mut{fix: fix, level: "cfb", part: "-", kind: "ctrunc", a: n * i / 41, path: "-"})
		}
		for _, d := range []int{-1, 0, 1} {
			for s := 512; s < n; s += 512 {
				ms = append(ms, &c14Mut{fix: fix, level: "cfb", part: "-", kind: "ctrunc", a: s + d, path: "-"})
			}
		}
		dirStart := 0
		if n >= 0x34 {
			dirStart = (int(binary.LittleEndian.Uint32(fix.raw[0x30:0x34])) + 1) * 512
		}
		for vi := range c14CfbBytes {
			for off := 0; off < 0x60 && off < n; off++ {
				ms = append(ms, &c14Mut{fix: fix, level: "cfb", part: "-", kind: "cbyte", a: off, val: vi, path: "header"})
			}
			if vi < 2 {
				for off := dirStart; dirStart > 0 && off < dirStart+512 && off < n; off++ {
					ms = append(ms, &c14Mut{fix: fix, level: "cfb", part: "-", kind: "cbyte", a: off, val: vi, path: "directory"})
				}
				for off := 512; off < 512+96 && off < n; off++ {
					ms = append(ms, &c14Mut{fix: fix, level: "cfb", part: "-", kind: "cbyte", a: off, val: vi, path: "sector0"})
				}
			}
		}
		// stream level (container rebuilt around the mutated streams)
		for l := 0; l <= len(fix.info) && l <= 300; l++ {
			ms = append(ms, &c14Mut{fix: fix, level: "stream", part: "EncryptionInfo", kind: "itrunc", a: l, path: "-"})
		}
		if !fix.agile {
			for off := 0; off+4 <= len(fix.info) && off < 200; off += 4 {
				for vi := range c14U32 {
					ms = append(ms, &c14Mut{fix: fix, level: "stream", part: "EncryptionInfo", kind: "iu32", a: off, val: vi, path: fmt.Sprintf("u32@%d", off)})
				}
			}
		} else {
			for off := 0; off < 8; off += 2 {
				for vi := range c14U32 {
					ms = append(ms, &c14Mut{fix: fix, level: "stream", part: "EncryptionInfo", kind: "iu16", a: off, val: vi, path: fmt.Sprintf("u16@%d", off)})
				}
			}
			ms = append(ms, c14XMLMuts(fix, "ixml", "EncryptionInfo", fix.info[8:], thorough)...)
		}
		for l := 0; l <= 48 && l <= len(fix.pkg); l++ {
			ms = append(ms, &c14Mut{fix: fix, level: "stream", part: "EncryptedPackage", kind: "ptrunc", a: l, path: "-"})
		}
		for _, d := range []int{1, 7, 8, 15, 16, 17} {
			ms = append(ms, &c14Mut{fix: fix, level: "stream", part: "EncryptedPackage", kind: "ptrunc", a: len(fix.pkg) - d, path: "-"})
		}
		for off := 0; off < 8; off += 4 {
			for vi := range c14U32 {
				ms = append(ms, &c14Mut{fix: fix, level: "stream", part: "EncryptedPackage", kind: "pu32", a: off, val: vi, path: fmt.Sprintf("u32@%d", off)})
			}
		}
	}
	return ms
}

// c14Materialise builds the bytes of a mutant; for stream-level mutants of an
// encrypted container also the streams that were stored.
func c14Materialise(m *c14Mut) []byte {
	fix := m.fix
	switch m.level {
	case "nsroot":
		parts := make([]c14Part, len(fix.parts))
		copy(parts, fix.parts)
		for i := range parts {
			if parts[i].name == m.part && m.a >= 0 && m.a < len(parts[i].data) {
				d := append([]byte{}, parts[i].data...)
				switch m.val % 4 {
				case 0:
					d[m.a] ^= 1
				case 1:
					d = append(d[:m.a], d[m.a+1:]...)
				case 2:
					d[m.a] = '"'
				default:
					d[m.a] = '<'
				}
				parts[i].data = d
			}
		}
		return c14WriteZip(parts)
	case "xml":
		parts := make([]c14Part, len(fix.parts))
		copy(parts, fix.parts)
		for i := range parts {
			if parts[i].name == m.part {
				parts[i].data = c14ApplyXML(parts[i].data, m)
			}
		}
		return c14WriteZip(parts)
	case "part":
		var parts []c14Part
		for _, p := range fix.parts {
			if p.name != m.part {
				parts = append(parts, p)
				continue
			}
			switch m.kind {
			case "prm":
			case "pren-x":
				parts = append(parts, c14Part{p.name + "x", p.data})
			case "pren-upper":
				parts = append(parts, c14Part{strings.ToUpper(p.name), p.data})
			case "pren-bslash":
				parts = append(parts, c14Part{strings.ReplaceAll(p.name, "/", "\\"), p.data})
			case "pren-slash":
				parts = append(parts, c14Part{"/" + p.name, p.data})
			case "pempty":
				parts = append(parts, c14Part{p.name, nil})
			case "pjunk":
				parts = append(parts, c14Part{p.name, []byte("<\x00\xff junk & <<")})
			case "pbom":
				parts = append(parts, c14Part{p.name, append([]byte{0xEF, 0xBB, 0xBF, 0xFE, 0xFF}, p.data...)})
			case "pdup":
				parts = append(parts, p, c14Part{p.name, []byte("<a/>")})
			}
		}
		return c14WriteZip(parts)
	case "zip":
		raw := append([]byte{}, fix.raw...)
		switch m.kind {
		case "ztrunc":
			if m.a >= 0 && m.a <= len(raw) {
				raw = raw[:m.a]
			}
		case "zbyte":
			if m.a >= 0 && m.a < len(raw) {
				if m.val == 0xA5 {
					raw[m.a] ^= 0xA5
				} else {
					raw[m.a] = byte(m.val)
				}
			}
		case "zsize":
			// falsify the declared uncompressed size of entry a in the central directory
			sizes := []uint32{0, 1, 0x7FFFFFFF, 0xFFFFFFFE}
			off, idx := 0, 0
			for {
				j := bytes.Index(raw[off:], []byte("PK\x01\x02"))
				if j < 0 {
					break
				}
				off += j
				if idx == m.a && off+28 <= len(raw) {
					binary.LittleEndian.PutUint32(raw[off+24:], sizes[m.val%4])
					break
				}
				idx++
				off += 4
			}
		}
		return raw
	case "cfb":
		raw := append([]byte{}, fix.raw...)
		switch m.kind {
		case "ctrunc":
			if m.a >= 0 && m.a <= len(raw) {
				raw = raw[:m.a]
			}
		case "cbyte":
			if m.a >= 0 && m.a < len(raw) {
				raw[m.a] = c14CfbBytes[m.val%len(c14CfbBytes)]
			}
		}
		return raw
	case "stream", "ixml":
		info := append([]byte{}, fix.info...)
		pkg := append([]byte{}, fix.pkg...)
		switch m.kind {
		case "itrunc":
			if m.a <= len(info) {
				info = info[:m.a]
			}
		case "iu32":
			if m.a+4 <= len(info) {
				binary.LittleEndian.PutUint32(info[m.a:], c14U32[m.val%len(c14U32)])
			}
		case "iu16":
			if m.a+2 <= len(info) {
				binary.LittleEndian.PutUint16(info[m.a:], uint16(c14U32[m.val%len(c14U32)]))
			}
		case "ptrunc":
			if m.a >= 0 && m.a <= len(pkg) {
				pkg = pkg[:m.a]
			}
		case "pu32":
			if m.a+4 <= len(pkg) {
				binary.LittleEndian.PutUint32(pkg[m.a:], c14U32[m.val%len(c14U32)])
			}
		default: // ixml: XML mutation of the agile descriptor
			info = append(append([]byte{}, info[:8]...), c14ApplyXML(fix.info[8:], m)...)
		}
		return xl.VerifC14BuildCFB(info, pkg)
	}
	return fix.raw
}

func c14ParseMut(fx []*c14Fixture, w []string) *c14Mut {
	if len(w) < 10 {
		return nil
	}
	var fix *c14Fixture
	for _, f := range fx {
		if f.name == w[1] {
			fix = f
		}
	}
	if fix == nil {
		return nil
	}
	at := func(i int) int { n, _ := strconv.Atoi(w[i]); return n }
	return &c14Mut{fix: fix, mode: at(2), level: w[3], part: unhx(w[4]), kind: w[5], a: at(6), b: at(7), val: at(8), path: unhx(w[9])}
}

// c14Select picks the quick tier's deterministic stride: a quota per level so
// that no level starves, phase shifted by the seed.
func c14Select(all []*c14Mut, seed uint64, quota map[string]int) []*c14Mut {
	by := map[string][]*c14Mut{}
	var levels []string
	for _, m := range all {
		if _, ok := by[m.level]; !ok {
			levels = append(levels, m.level)
		}
		by[m.level] = append(by[m.level], m)
	}
	sort.Strings(levels)
	var out []*c14Mut
	for _, l := range levels {
		ms := by[l]
		q := quota[l]
		if q <= 0 || q >= len(ms) {
			out = append(out, ms...)
			continue
		}
		stride := (len(ms) + q - 1) / q
		phase := int((seed * 2654435761) % uint64(stride))
		for i := phase; i < len(ms); i += stride {
			out = append(out, ms[i])
		}
	}
	return out
}
