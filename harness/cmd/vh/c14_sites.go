//go:build verif_c14

package main

// C14 round 3: transcript ops for the decode sites repaired in round 2. Each op crafts a package
// whose one part carries exactly the decoded values named in the op line (any int for an id, any
// count for a table), runs the public API call that reaches the site on the real library and prints
// a canonical outcome; the Lean driver evaluates the model of the site on the same values.
//
//   ns  <hex>                                   a worksheet part with these bytes read through workSheetReader (namespaceStrictToTransitional): nopanic | PANIC
//   rw  <r,cell,…;…>                            GetRows through the streaming iterator: lengths of the rows returned (cell = col|-|B : v|n)
//   ic  <vm> <nBk> <rcLen> <v> <nRv>            GetPictures on a cell image cell (getImageCellRel: value metadata / rich value indices)
//   gr  <0/1 per row>                           GetRows: rows r=1..n, empty or with a value; number of rows returned
//   bs  <hex>                                   bstrUnmarshal (hook VerifBstrUnmarshal): result bytes
//   st  <idx> <nXf> <fillP> <fillId> <nFills> <borderP> <borderId> <nBorders> <fontP> <fontId> <nFonts>   GetStyle
//   as  <hasView> <activeTab> <ids,…>           GetActiveSheetIndex
//   df  <nFonts> <hasName> <hasVal>             GetDefaultFont
//   tc  <len> <tintZero>                        ThemeColor
//   gc  <authorId> <nAuthors>                   GetComments
//   rt  <0/1 per run>                           GetCellRichText
//   cf  <nFormula>                              GetConditionalFormats (cellIs rule)
//   mc  <ref-hex> <col> <row>                   GetCellValue through mergeCellsParser: the cell it redirects to (exact, C20's RefMulti)
//   mm  <x1,y1,x2,y2;…>                         GetMergeCells: number of merged cells after the overlap normalisation
//   ch  <len> <shift> <c1,c2,c3,c4>             Decrypt: compound file header check (directory-sector count varied)
//   ag  <infoLen> <xmlOK> <nKE> <blockSize> <hashLen> <keyBits> <spin> <saltOK> <saltLen> <encOK> <encLen> <kdSaltOK> <pkgLen>   Decrypt (agile)
// (-1 for a table count = table absent)

import (
	"bytes"
	"encoding/base64"
	"encoding/binary"
	"fmt"
	"regexp"
	"strconv"
	"strings"

	xl "github.com/xuri/excelize/v2"
)

const c14NS = `xmlns="http://schemas.openxmlformats.org/spreadsheetml/2006/main"`

var c14SiteBase struct {
	plain, comment, cond, sheets4, grid []c14Part
}

func c14Parts(f *xl.File) []c14Part {
	buf, err := f.WriteToBuffer()
	must(err)
	f.Close()
	p, err := c14ZipParts(buf.Bytes())
	must(err)
	return p
}

func c14SiteInit() {
	if c14SiteBase.plain != nil {
		return
	}
	f := xl.NewFile()
	must(f.SetCellValue("Sheet1", "A1", "TL"))
	must(f.SetCellValue("Sheet1", "C3", "c3"))
	c14SiteBase.plain = c14Parts(f)
	f = xl.NewFile()
	must(f.SetCellValue("Sheet1", "A1", "x"))
	must(f.AddComment("Sheet1", xl.Comment{Cell: "A1", Author: "a", Paragraph: []xl.RichTextRun{{Text: "n"}}}))
	c14SiteBase.comment = c14Parts(f)
	f = xl.NewFile()
	must(f.SetConditionalFormat("Sheet1", "A1:A2", []xl.ConditionalFormatOptions{{Type: "cell", Criteria: ">", Value: "6"}}))
	c14SiteBase.cond = c14Parts(f)
	f = xl.NewFile()
	for _, n := range []string{"S2", "S3", "S4"} {
		_, err := f.NewSheet(n)
		must(err)
	}
	c14SiteBase.sheets4 = c14Parts(f)
	f = xl.NewFile()
	for col := 1; col <= 6; col++ {
		for row := 1; row <= 6; row++ {
			name, _ := xl.CoordinatesToCellName(col, row)
			must(f.SetCellStr("Sheet1", name, name))
		}
	}
	c14SiteBase.grid = c14Parts(f)
}

// c14Patch returns the package with one part replaced (or edited by fn).
func c14Patch(base []c14Part, name string, fn func(old string) string) []byte {
	parts := make([]c14Part, len(base))
	copy(parts, base)
	for i := range parts {
		if parts[i].name == name {
			parts[i].data = []byte(fn(string(parts[i].data)))
		}
	}
	return c14WriteZip(parts)
}

func c14Open(data []byte, fn func(f *xl.File) string) string {
	return c14Guard(func() string {
		f, err := xl.OpenReader(bytes.NewReader(data))
		if err != nil {
			if f != nil {
				f.Close()
			}
			return "ERR"
		}
		defer f.Close()
		return fn(f)
	})
}

func (c *c14Ctx) site(op, res, failSig, what string) {
	ln := c.r.Op(op, res)
	c.r.Case(op, true)
	c.r.Stat(strings.Fields(op)[0] + ":" + c14Class(res))
	if res == "PANIC" {
		c.r.Fail(failSig, what+" ("+op+")", ln, op)
	}
}

func c14Rep(s string, n int) string {
	if n < 0 {
		n = 0
	}
	return strings.Repeat(s, n)
}

func c14Table(tag, elem string, n int) string {
	if n < 0 {
		return ""
	}
	return fmt.Sprintf(`<%s count="%d">%s</%s>`, tag, n, c14Rep(elem, n), tag)
}

func c14IDAttr(name string, present bool, id int) string {
	if !present {
		return ""
	}
	return fmt.Sprintf(` %s="%d"`, name, id)
}

func (c *c14Ctx) opST(idx, nXf int, fp bool, fid, nf int, bp bool, bid, nb int, np bool, nid, nn int) {
	c14SiteInit()
	xf := "<xf" + c14IDAttr("fillId", fp, fid) + c14IDAttr("borderId", bp, bid) + c14IDAttr("fontId", np, nid) + "/>"
	styles := `<?xml version="1.0" encoding="UTF-8" standalone="yes"?><styleSheet ` + c14NS + `>` +
		c14Table("fonts", `<font><b/><sz val="11"/><name val="Calibri"/></font>`, nn) +
		c14Table("fills", `<fill><patternFill patternType="solid"><fgColor rgb="FFFF0000"/></patternFill></fill>`, nf) +
		c14Table("borders", `<border><left style="thin"><color rgb="FF000000"/></left></border>`, nb) +
		`<cellStyleXfs count="1"><xf/></cellStyleXfs>` + c14Table("cellXfs", xf, nXf) + `</styleSheet>`
	data := c14Patch(c14SiteBase.plain, "xl/styles.xml", func(string) string { return styles })
	res := c14Open(data, func(f *xl.File) string {
		st, err := f.GetStyle(idx)
		if err != nil {
			return "ERR"
		}
		b := func(x bool) string {
			if x {
				return "1"
			}
			return "0"
		}
		return "ok " + b(st.Fill.Type != "") + " " + b(len(st.Border) > 0) + " " + b(st.Font != nil)
	})
	p := func(x bool) int {
		if x {
			return 1
		}
		return 0
	}
	c.site(fmt.Sprintf("st %d %d %d %d %d %d %d %d %d %d %d", idx, nXf, p(fp), fid, nf, p(bp), bid, nb, p(np), nid, nn), res,
		"panic:GetStyle:index", "GetStyle indexes a style table out of range")
}

var c14ViewRe = regexp.MustCompile(`<bookViews>.*?</bookViews>|<bookViews/>`)

func (c *c14Ctx) opAS(hasView bool, activeTab, n int) {
	c14SiteInit()
	if n < 1 || n > 4 {
		return
	}
	// keep the first n sheets of the 4-sheet base
	data := c14Patch(c14SiteBase.sheets4, "xl/workbook.xml", func(old string) string {
		view := ""
		if hasView {
			view = fmt.Sprintf(`<bookViews><workbookView activeTab="%d"/></bookViews>`, activeTab)
		}
		if c14ViewRe.MatchString(old) {
			old = c14ViewRe.ReplaceAllString(old, view)
		} else {
			old = strings.Replace(old, "<sheets>", view+"<sheets>", 1)
		}
		for k := 4; k > n; k-- {
			re := regexp.MustCompile(fmt.Sprintf(`<sheet [^>]*sheetId="%d"[^>]*/>|<sheet [^>]*sheetId="%d"[^>]*></sheet>`, k, k))
			old = re.ReplaceAllString(old, "")
		}
		return old
	})
	res := c14Open(data, func(f *xl.File) string { return "ok " + strconv.Itoa(f.GetActiveSheetIndex()) })
	ids := make([]string, n)
	for i := range ids {
		ids[i] = strconv.Itoa(i + 1)
	}
	hv := 0
	if hasView {
		hv = 1
	}
	c.site(fmt.Sprintf("as %d %d %s", hv, activeTab, strings.Join(ids, ",")), res, "panic:getActiveSheetID:index", "getActiveSheetID indexes the sheet list out of range")
}

func (c *c14Ctx) opDF(nFonts int, hasName, hasVal bool) {
	c14SiteInit()
	name := ""
	if hasName {
		name = `<name/>`
		if hasVal {
			name = `<name val="Calibri"/>`
		}
	}
	styles := `<?xml version="1.0" encoding="UTF-8" standalone="yes"?><styleSheet ` + c14NS + `>` +
		c14Table("fonts", `<font><sz val="11"/>`+name+`</font>`, nFonts) +
		`<fills count="1"><fill><patternFill patternType="none"/></fill></fills><borders count="1"><border/></borders>` +
		`<cellStyleXfs count="1"><xf/></cellStyleXfs><cellXfs count="1"><xf/></cellXfs></styleSheet>`
	data := c14Patch(c14SiteBase.plain, "xl/styles.xml", func(string) string { return styles })
	res := c14Open(data, func(f *xl.File) string {
		n, err := f.GetDefaultFont()
		if err != nil {
			return "ERR"
		}
		if n == "" {
			return "ok empty"
		}
		return "ok name"
	})
	b := func(x bool) int {
		if x {
			return 1
		}
		return 0
	}
	c.site(fmt.Sprintf("df %d %d %d", nFonts, b(hasName), b(hasVal)), res, "panic:GetDefaultFont:nil", "GetDefaultFont dereferences a missing font / name")
}

func (c *c14Ctx) opTC(n int, tintZero bool) {
	tint := 0.5
	tz := 0
	if tintZero {
		tint, tz = 0, 1
	}
	res := c14Guard(func() string { xl.ThemeColor(strings.Repeat("8", n), tint); return "ok" })
	c.site(fmt.Sprintf("tc %d %d", n, tz), res, "panic:ThemeColor:slice", "ThemeColor slices the base colour out of range")
}

func (c *c14Ctx) opGC(authorID, nAuthors int) {
	c14SiteInit()
	var au strings.Builder
	for i := 0; i < nAuthors; i++ {
		fmt.Fprintf(&au, "<author>a%d</author>", i)
	}
	cm := `<?xml version="1.0" encoding="UTF-8" standalone="yes"?><comments ` + c14NS + `><authors>` + au.String() +
		fmt.Sprintf(`</authors><commentList><comment ref="A1" authorId="%d"><text><t>x</t></text></comment></commentList></comments>`, authorID)
	data := c14Patch(c14SiteBase.comment, "xl/comments1.xml", func(string) string { return cm })
	res := c14Open(data, func(f *xl.File) string {
		cs, err := f.GetComments("Sheet1")
		if err != nil || len(cs) != 1 {
			return "ERR"
		}
		if cs[0].Author == "" {
			return "ok none"
		}
		return "ok " + strings.TrimPrefix(cs[0].Author, "a")
	})
	c.site(fmt.Sprintf("gc %d %d", authorID, nAuthors), res, "panic:GetComments:index", "GetComments indexes the author list out of range")
}

func (c *c14Ctx) opRT(runs string) {
	c14SiteInit()
	var sb strings.Builder
	for _, r := range runs {
		if r == '1' {
			sb.WriteString(`<r><rPr><b/></rPr><t>x</t></r>`)
		} else {
			sb.WriteString(`<r><rPr><b/></rPr></r>`)
		}
	}
	sst := `<?xml version="1.0" encoding="UTF-8" standalone="yes"?><sst ` + c14NS + ` count="2" uniqueCount="2"><si>` + sb.String() + `</si><si><t>c3</t></si></sst>`
	data := c14Patch(c14SiteBase.plain, "xl/sharedStrings.xml", func(string) string { return sst })
	res := c14Open(data, func(f *xl.File) string {
		rs, err := f.GetCellRichText("Sheet1", "A1")
		if err != nil {
			return "ERR"
		}
		out := "ok "
		for _, r := range rs {
			if r.Text != "" {
				out += "1"
			} else {
				out += "0"
			}
		}
		if len(rs) == 0 {
			out += "-"
		}
		return out
	})
	if runs == "" {
		runs = "-"
	}
	c.site("rt "+runs, res, "panic:getCellRichText:nil", "getCellRichText dereferences a run without text")
}

var c14FormulaRe = regexp.MustCompile(`(<formula>[^<]*</formula>)+`)

func (c *c14Ctx) opCF(n int) {
	c14SiteInit()
	data := c14Patch(c14SiteBase.cond, "xl/worksheets/sheet1.xml", func(old string) string {
		return c14FormulaRe.ReplaceAllString(old, c14Rep("<formula>7</formula>", n))
	})
	res := c14Open(data, func(f *xl.File) string {
		m, err := f.GetConditionalFormats("Sheet1")
		if err != nil {
			return "ERR"
		}
		for _, opts := range m {
			for _, o := range opts {
				switch {
				case o.MinValue != "" || o.MaxValue != "":
					return "ok minMax"
				case o.Value != "":
					return "ok value"
				}
				return "ok none"
			}
		}
		return "ERR"
	})
	c.site(fmt.Sprintf("cf %d", n), res, "panic:extractCondFmtCellIs:index", "extractCondFmtCellIs indexes the formula list out of range")
}

func c14XMLEsc(s string) string {
	return strings.NewReplacer("&", "&amp;", "<", "&lt;", ">", "&gt;", `"`, "&quot;").Replace(s)
}

func c14WithMerges(refs []string) []byte {
	var sb strings.Builder
	fmt.Fprintf(&sb, `<mergeCells count="%d">`, len(refs))
	for _, r := range refs {
		sb.WriteString(`<mergeCell ref="` + c14XMLEsc(r) + `"/>`)
	}
	sb.WriteString(`</mergeCells>`)
	return c14Patch(c14SiteBase.plain, "xl/worksheets/sheet1.xml", func(old string) string {
		return strings.Replace(old, "</sheetData>", "</sheetData>"+sb.String(), 1)
	})
}

func (c *c14Ctx) opMC(ref string, col, row int) {
	c14SiteInit()
	for _, ch := range ref { // keep to what survives an XML attribute unchanged
		if ch < 0x20 || ch > 0x7e {
			return
		}
	}
	cell, err := xl.CoordinatesToCellName(col, row)
	if err != nil {
		return
	}
	mc := `<mergeCells count="1"><mergeCell ref="` + c14XMLEsc(ref) + `"/></mergeCells>`
	data := c14Patch(c14SiteBase.grid, "xl/worksheets/sheet1.xml", func(old string) string {
		return strings.Replace(old, "</sheetData>", "</sheetData>"+mc, 1)
	})
	res := c14Open(data, func(f *xl.File) string {
		// every cell of A1:F6 holds its own name: the value read names the cell mergeCellsParser redirected to
		v, err := f.GetCellValue("Sheet1", cell)
		if err != nil {
			return "ERR"
		}
		return "ok " + hx(v)
	})
	c.site(fmt.Sprintf("mc %s %d %d", hx(ref), col, row), res, "panic:cellInRange:index", "mergeCellsParser / cellInRange index a rectangle out of range")
}

func (c *c14Ctx) opMM(rects [][4]int) {
	c14SiteInit()
	var refs, spec []string
	for _, r := range rects {
		a, e1 := xl.CoordinatesToCellName(r[0], r[1])
		b, e2 := xl.CoordinatesToCellName(r[2], r[3])
		if e1 != nil || e2 != nil {
			return
		}
		refs = append(refs, a+":"+b)
		spec = append(spec, fmt.Sprintf("%d,%d,%d,%d", r[0], r[1], r[2], r[3]))
	}
	res := c14Open(c14WithMerges(refs), func(f *xl.File) string {
		mcs, err := f.GetMergeCells("Sheet1")
		if err != nil {
			return "ERR"
		}
		return "ok " + strconv.Itoa(len(mcs))
	})
	s := strings.Join(spec, ";")
	if s == "" {
		s = "-"
	}
	c.site("mm "+s, res, "panic:mergeOverlapCells:index", "mergeOverlapCells indexes its matrix out of range")
}

func (c *c14Ctx) opCH(base *c14Fixture, count uint32) {
	raw := append([]byte{}, base.raw...)
	if len(raw) < 512 {
		return
	}
	binary.LittleEndian.PutUint32(raw[40:], count)
	res := c14Guard(func() string {
		if _, err := xl.Decrypt(raw, &xl.Options{Password: base.pw}); err != nil {
			return "ERR"
		}
		return "ok"
	})
	rd := func(o int) uint32 { return binary.LittleEndian.Uint32(raw[o:]) }
	c.site(fmt.Sprintf("ch %d %d %d,%d,%d,%d", len(raw), binary.LittleEndian.Uint16(raw[30:]), count, rd(44), rd(64), rd(72)), res,
		"panic:checkCompoundFileHeader", "Decrypt panics on a compound file header")
}

var c14HashName = map[int]string{0: "nope", 16: "MD5", 20: "SHA1", 32: "SHA256", 48: "SHA384", 64: "SHA512"}

type c14Ag struct {
	infoLen                                int // < 8: the stream is cut to this length; otherwise ignored (the XML decides)
	xmlOK                                  bool
	nKE, blockSize, hashLen, keyBits, spin int
	saltOK                                 bool
	saltLen                                int
	encOK                                  bool
	encLen                                 int
	kdSaltOK                               bool
	pkgLen                                 int
}

func (c *c14Ctx) opAG(a c14Ag) {
	b64 := func(ok bool, n int) string {
		if !ok {
			return "!!"
		}
		return base64.StdEncoding.EncodeToString(make([]byte, n))
	}
	ke := fmt.Sprintf(`<keyEncryptor uri="http://schemas.microsoft.com/office/2006/keyEncryptor/password"><p:encryptedKey spinCount="%d" saltSize="16" blockSize="16" keyBits="%d" hashSize="64" cipherAlgorithm="AES" cipherChaining="ChainingModeCBC" hashAlgorithm="SHA512" saltValue="%s" encryptedVerifierHashInput="AAAA" encryptedVerifierHashValue="AAAA" encryptedKeyValue="%s"/></keyEncryptor>`,
		a.spin, a.keyBits, b64(a.saltOK, a.saltLen), b64(a.encOK, a.encLen))
	xmlDoc := fmt.Sprintf(`<?xml version="1.0" encoding="UTF-8" standalone="yes"?><encryption xmlns="http://schemas.microsoft.com/office/2006/encryption" xmlns:p="http://schemas.microsoft.com/office/2006/keyEncryptor/password"><keyData saltSize="16" blockSize="%d" keyBits="256" hashSize="64" cipherAlgorithm="AES" cipherChaining="ChainingModeCBC" hashAlgorithm="%s" saltValue="%s"/><keyEncryptors>%s</keyEncryptors></encryption>`,
		a.blockSize, c14HashName[a.hashLen], b64(a.kdSaltOK, 16), c14Rep(ke, a.nKE))
	if !a.xmlOK {
		xmlDoc = `<encryption><keyData blockSize="x"`
	}
	info := append([]byte{4, 0, 4, 0, 0x40, 0, 0, 0}, []byte(xmlDoc)...)
	if a.infoLen < 8 {
		info = info[:a.infoLen]
	}
	pkg := make([]byte, a.pkgLen)
	for i := range pkg {
		pkg[i] = byte(i * 7)
	}
	raw := xl.VerifC14BuildCFB(info, pkg)
	// the container writer must have stored the streams as given, otherwise the op says nothing
	gi, gp, err := xl.VerifC14ExtractStreams(raw)
	if err != nil || len(gi) != len(info) || len(gp) != len(pkg) {
		c.r.Stat("ag:container-skipped")
		return
	}
	res := c14Guard(func() string {
		if _, err := xl.Decrypt(raw, &xl.Options{Password: "pw"}); err != nil {
			return "ERR"
		}
		return "ok"
	})
	b := func(x bool) int {
		if x {
			return 1
		}
		return 0
	}
	op := fmt.Sprintf("ag %d %d %d %d %d %d %d %d %d %d %d %d %d", len(info), b(a.xmlOK), a.nKE, a.blockSize, a.hashLen, a.keyBits, a.spin,
		b(a.saltOK), a.saltLen, b(a.encOK), a.encLen, b(a.kdSaltOK), a.pkgLen)
	ln := c.r.Op(op, res)
	c.r.Case(op, true)
	c.r.Stat("ag:" + c14Class(res))
	if res == "PANIC" {
		sig := "panic:agileDecrypt:descriptor"
		if a.pkgLen > 4096 && a.pkgLen%4096 >= 1 && a.pkgLen%4096 <= 7 {
			sig = "panic:decryptPackage:tail-chunk"
		}
		c.r.Fail(sig, fmt.Sprintf("agile Decrypt panics: EncryptedPackage of %d bytes, descriptor blockSize=%d hash=%s keyBits=%d spinCount=%d keyEncryptors=%d", a.pkgLen, a.blockSize, c14HashName[a.hashLen], a.keyBits, a.spin, a.nKE), ln, op)
	}
}

func (c *c14Ctx) opNS(part string) {
	c14SiteInit()
	data := c14Patch(c14SiteBase.plain, "xl/worksheets/sheet1.xml", func(string) string { return part })
	res := c14Open(data, func(f *xl.File) string {
		_, _ = f.GetCellValue("Sheet1", "A1")
		_, _ = f.GetRows("Sheet1")
		return "nopanic"
	})
	if res == "ERR" {
		res = "nopanic"
	}
	c.site("ns "+hx(part), res, "panic:namespaceStrictToTransitional:index", "namespaceStrictToTransitional indexes the part out of range")
}

// c14GenNS: a Strict worksheet part whose root start tag is damaged byte by byte, plus short adversarial strings
func c14GenNS(c *c14Ctx, rng *Rng, thorough bool) {
	const strict = "http://purl.oclc.org/ooxml/"
	head := `<worksheet xmlns="` + strict + `spreadsheetml/main" xmlns:r="` + strict + `officeDocument/relationships">`
	body := `<sheetData><row r="1"><c r="A1"><v>1</v></c></row></sheetData></worksheet>`
	c.opNS(head + body)
	step := 3
	if thorough {
		step = 1
	}
	for off := 10; off < len(head); off += step {
		for _, v := range []string{"^", "del", "\"", "<", "=", "'"} {
			b := []byte(head)
			switch v {
			case "^":
				b[off] ^= 1
			case "del":
				b = append(b[:off], b[off+1:]...)
			default:
				b[off] = v[0]
			}
			c.opNS(string(b) + body)
		}
	}
	// the blank between the two namespace declarations
	sp := strings.Index(head, `" xmlns:r`) + 1
	for _, r := range []byte{'!', '"', '=', 'x', 0} {
		b := []byte(head)
		b[sp] = r
		c.opNS(string(b) + body)
	}
	for _, s := range []string{strict, `"` + strict, `<"` + strict, `<a "` + strict + `"`, `<a x="1"y="` + strict + `">`, `<a xmlns="` + strict + `"="` + strict + `">`,
		`<a xmlns="` + strict + `"""">`, `<a xmlns='` + strict + `'Type="` + strict + `">`, `<a =="` + strict + `">`, `<a xmlns="` + strict, `<!--` + strict, `<![CDATA[` + strict, `<?` + strict, `</` + strict,
		`<a xmlns="` + strict + `"   =   "q">`, `"""` + strict + `<"="<"`} {
		c.opNS(s)
	}
	n := 150
	if thorough {
		n = 1500
	}
	alpha := []string{"<", ">", "\"", "'", "=", " ", "xmlns", "xmlns:r", "Type", "a", strict, "<!--", "-->", "<?", "?>", "</", "\t"}
	for i := 0; i < n; i++ {
		var sb strings.Builder
		sb.WriteString(strict[:rng.Range(0, 3)*9])
		for k := rng.Range(1, 14); k > 0; k-- {
			sb.WriteString(rng.Pick(alpha))
		}
		if !strings.Contains(sb.String(), strict) {
			sb.WriteString(strict)
		}
		c.opNS(sb.String())
	}
}

// opRW: spec = rows separated by ';', each "<r>,<cell>,…" with cell "<col|-|B>:<v|n>" (col = 1-based column of a
// valid reference, '-' = no r attribute, 'B' = unparsable r attribute; v = has a value)
func (c *c14Ctx) opRW(spec string) {
	c14SiteInit()
	var sb strings.Builder
	if spec != "-" {
		for _, rs := range strings.Split(spec, ";") {
			p := strings.Split(rs, ",")
			r, _ := strconv.Atoi(p[0])
			if r != 0 {
				fmt.Fprintf(&sb, `<row r="%d">`, r)
			} else {
				sb.WriteString(`<row>`)
			}
			rr := r
			if rr < 1 || rr > c14TotalRows {
				rr = 1
			}
			for _, cs := range p[1:] {
				kv := strings.Split(cs, ":")
				ref := ""
				switch kv[0] {
				case "-":
				case "B":
					ref = ` r="1A"`
				default:
					n, _ := strconv.Atoi(kv[0])
					name, err := xl.CoordinatesToCellName(n, rr)
					if err != nil {
						return
					}
					ref = ` r="` + name + `"`
				}
				if kv[1] == "v" {
					sb.WriteString(`<c` + ref + `><v>7</v></c>`)
				} else {
					sb.WriteString(`<c` + ref + `/>`)
				}
			}
			sb.WriteString(`</row>`)
		}
	}
	sheet := `<?xml version="1.0" encoding="UTF-8" standalone="yes"?><worksheet ` + c14NS + `><sheetData>` + sb.String() + `</sheetData></worksheet>`
	data := c14Patch(c14SiteBase.plain, "xl/worksheets/sheet1.xml", func(string) string { return sheet })
	res := c14Open(data, func(f *xl.File) string {
		rows, err := f.GetRows("Sheet1")
		var ls []string
		for _, r := range rows {
			ls = append(ls, strconv.Itoa(len(r)))
		}
		out := strings.Join(ls, ",")
		if out == "" {
			out = "-"
		}
		if err != nil {
			return "ERR " + out
		}
		return "ok " + out
	})
	c.site("rw "+spec, res, "panic:Rows:iterator", "the streaming row iterator panics")
}

func c14GenRW(c *c14Ctx, rng *Rng, thorough bool) {
	for _, s := range []string{"-", "1", "0", "1,1:v", "0,-:v", "3,2:v", "2,-:v,-:n,-:v;1,1:v", "5,3:v;5,1:v", "0,-:v;0,-:v;0,-:n;0,-:v",
		"1,B:v", "1,1:v;2,B:v;3,1:v", "1048576,1:v", "1048577,1:v", "1,1:v;1048577,1:v;2,1:v", "2,1:v;99999999", "7;3,1:v;9,2:n", "1,16384:v", "1,3:v,1:v,-:v"} {
		c.opRW(s)
	}
	n := 150
	if thorough {
		n = 1500
	}
	for i := 0; i < n; i++ {
		var rows []string
		for k := rng.Range(1, 5); k > 0; k-- {
			r := rng.Pick2([]int{0, 0, 1, 2, 3, 5, 9, 2, 1, 40})
			if rng.Chance(3) {
				r = rng.Pick2([]int{c14TotalRows + 1, 4294967296, 3000})
			}
			row := strconv.Itoa(r)
			for j := rng.Range(0, 4); j > 0; j-- {
				col := rng.Pick([]string{"-", "-", "1", "2", "3", "5", "9"})
				if rng.Chance(4) {
					col = "B"
				}
				row += "," + col + ":" + rng.Pick([]string{"v", "v", "n"})
			}
			rows = append(rows, row)
		}
		c.opRW(strings.Join(rows, ";"))
	}
}

func (c *c14Ctx) opIC(vm uint64, nBk, rcLen, v, nRv int) {
	c14SiteInit()
	sheet := `<?xml version="1.0" encoding="UTF-8" standalone="yes"?><worksheet ` + c14NS + `><sheetData><row r="1">` +
		fmt.Sprintf(`<c r="A1" t="e" vm="%d"><v>#VALUE!</v></c>`, vm) + `</row></sheetData></worksheet>`
	meta := `<?xml version="1.0" encoding="UTF-8" standalone="yes"?><metadata ` + c14NS + `>`
	if nBk >= 0 {
		meta += fmt.Sprintf(`<valueMetadata count="%d">`, nBk) + c14Rep(`<bk>`+c14Rep(fmt.Sprintf(`<rc t="1" v="%d"/>`, v), rcLen)+`</bk>`, nBk) + `</valueMetadata>`
	}
	meta += `</metadata>`
	rv := `<?xml version="1.0" encoding="UTF-8" standalone="yes"?><rvData xmlns="http://schemas.microsoft.com/office/spreadsheetml/2017/richdata" count="` +
		strconv.Itoa(nRv) + `">` + c14Rep(`<rv s="0"><v>0</v></rv>`, nRv) + `</rvData>`
	parts := make([]c14Part, len(c14SiteBase.plain))
	copy(parts, c14SiteBase.plain)
	for i := range parts {
		if parts[i].name == "xl/worksheets/sheet1.xml" {
			parts[i].data = []byte(sheet)
		}
	}
	parts = append(parts, c14Part{"xl/metadata.xml", []byte(meta)}, c14Part{"xl/richData/rdrichvalue.xml", []byte(rv)})
	res := c14Open(c14WriteZip(parts), func(f *xl.File) string {
		if _, err := f.GetPictures("Sheet1", "A1"); err != nil {
			return "ERR"
		}
		return "ok"
	})
	op := fmt.Sprintf("ic %d %d %d %d %d", vm, nBk, rcLen, v, nRv)
	ln := c.r.Op(op, res)
	c.r.Case(op, true)
	c.r.Stat("ic:" + c14Class(res))
	if res == "PANIC" {
		sig := "panic:getImageCellRel:other"
		switch {
		case vm == 0:
			sig = "panic:getImageCellRel:vm-zero"
		case v < 0:
			sig = "panic:getImageCellRel:negative-rich-value-index"
		}
		c.r.Fail(sig, fmt.Sprintf("GetPictures panics in getImageCellRel: cell vm=%d, %d metadata blocks with %d records v=%d, %d rich values", vm, nBk, rcLen, v, nRv), ln, op)
	}
}

func (c *c14Ctx) opGR(flags string) {
	c14SiteInit()
	var sb strings.Builder
	for i, fl := range flags {
		if fl == '1' {
			fmt.Fprintf(&sb, `<row r="%d"><c r="A%d"><v>%d</v></c></row>`, i+1, i+1, i+1)
		} else {
			fmt.Fprintf(&sb, `<row r="%d"/>`, i+1)
		}
	}
	sheet := `<?xml version="1.0" encoding="UTF-8" standalone="yes"?><worksheet ` + c14NS + `><sheetData>` + sb.String() + `</sheetData></worksheet>`
	data := c14Patch(c14SiteBase.plain, "xl/worksheets/sheet1.xml", func(string) string { return sheet })
	res := c14Open(data, func(f *xl.File) string {
		rows, err := f.GetRows("Sheet1")
		if err != nil {
			return "ERR"
		}
		return "ok " + strconv.Itoa(len(rows))
	})
	if flags == "" {
		flags = "-"
	}
	c.site("gr "+flags, res, "panic:GetRows:accounting", "GetRows slices / allocates out of range")
}

func (c *c14Ctx) opBS(str string) {
	res := c14Guard(func() string { return "ok " + hx(xl.VerifBstrUnmarshal(str)) })
	c.site("bs "+hx(str), res, "panic:bstrUnmarshal:index", fmt.Sprintf("bstrUnmarshal panics on %q", str))
}

// c14GenBS: every prefix of an escape at the end, in the middle and after another escape; escapes of
// all classes (control, underscore, surrogate halves, non-hex); random strings over the escape alphabet.
func c14GenBS(c *c14Ctx, rng *Rng, thorough bool) {
	escs := []string{"_x000A_", "_x005F_", "_xD800_", "_xFFFF_", "_x0041_", "_xabCD_", "_x00e9_", "_x000G_", "_X000A_"}
	for _, e := range escs {
		for k := 0; k <= len(e); k++ {
			pre := e[:k]
			for _, ctxs := range [][2]string{{"", ""}, {"hello", ""}, {"hello", "x"}, {"_x0041_", ""}, {"_", ""}, {"_x005F", ""}, {"é", "_"}} {
				c.opBS(ctxs[0] + pre + ctxs[1])
			}
		}
	}
	for _, s := range []string{"", "_", "__", "_x", "_x_x_x", "_x005F_x000A_", "_x005F__x000A_", "_x005F_x005F_", "_x000A__x000A_", "_x000A_x000A_", "_x_x000A_", "x000A_", "_x000A", "_x000", "\xff_x0041_\xfe", "_x0041_\xff"} {
		c.opBS(s)
	}
	n := 400
	if thorough {
		n = 4000
	}
	alpha := []string{"_", "x", "0", "5", "F", "A", "d", "8", "G", "é", "_x", "_x00", "_x005F_", "_x000D_", "\xff", " "}
	for i := 0; i < n; i++ {
		var sb strings.Builder
		for k := rng.Range(1, 12); k > 0; k-- {
			sb.WriteString(rng.Pick(alpha))
		}
		c.opBS(sb.String())
	}
}

// c14GenSites: boundary-heavy decoded values for every site.
func c14GenSites(c *c14Ctx, rng *Rng, fx []*c14Fixture, thorough bool) {
	c14GenBS(c, rng, thorough)
	c14GenRW(c, rng, thorough)
	c14GenNS(c, rng, thorough)
	for _, vm := range []uint64{0, 1, 2, 3, 4294967295} {
		for _, nBk := range []int{-1, 0, 1, 2} {
			for _, rc := range []int{0, 1} {
				for _, v := range []int{-9223372036854775808, -1, 0, 1, 2} {
					for _, nRv := range []int{0, 1, 2} {
						if rng.Chance(40) || (vm <= 1 && nBk == 1 && rc == 1 && nRv == 1) {
							c.opIC(vm, nBk, rc, v, nRv)
						}
					}
				}
			}
		}
	}
	for _, fl := range []string{"", "0", "1", "00", "01", "10", "11", "0001", "1000", "0100010", "1111", "0000", "10000001"} {
		c.opGR(fl)
	}
	for i := 0; i < 40; i++ {
		var sb strings.Builder
		for k := rng.Range(1, 30); k > 0; k-- {
			sb.WriteByte("01"[rng.Intn(2)])
		}
		c.opGR(sb.String())
	}
	ids := []int{-9223372036854775808, -3, -1, 0, 1, 2, 3, 4, 7, 2147483648, 9223372036854775807}
	ns := []int{-1, 0, 1, 2, 3}
	n := 120
	if thorough {
		n = 600
	}
	for i := 0; i < n; i++ {
		c.opST(rng.Pick2([]int{-1, 0, 1, 2, 3, 5}), rng.Pick2([]int{-1, 0, 1, 2, 3}),
			rng.Chance(85), rng.Pick2(ids), rng.Pick2(ns), rng.Chance(85), rng.Pick2(ids), rng.Pick2(ns), rng.Chance(85), rng.Pick2(ids), rng.Pick2(ns))
	}
	for _, hv := range []bool{true, false} {
		for _, at := range ids {
			for k := 1; k <= 4; k++ {
				c.opAS(hv, at, k)
			}
		}
	}
	for _, nf := range []int{-1, 0, 1, 2} {
		for _, a := range []bool{false, true} {
			for _, b := range []bool{false, true} {
				c.opDF(nf, a, b)
			}
		}
	}
	for l := 0; l <= 8; l++ {
		c.opTC(l, true)
		c.opTC(l, false)
	}
	for _, a := range ids {
		for k := 0; k <= 3; k++ {
			c.opGC(a, k)
		}
	}
	for _, r := range []string{"", "0", "1", "00", "01", "10", "11", "010", "1011", "0000"} {
		c.opRT(r)
	}
	for k := 0; k <= 4; k++ {
		c.opCF(k)
	}
	refs := []string{"", "A1", "A1:B2", "B2:A1", "A1:B2:C3", "A0", "A1:", ":A1", "XFD1048576", "A1:XFD1048576", "ZZZZZZZZZZZZZZZ1", "A1:A0", "$A$1:$C$3", "a1:c3", "B2:D4", "C3", "1:1", "A:A", " A1", "A1:B2 ", "A-1:B2", "A1048577"}
	for _, ref := range refs {
		for _, cell := range [][2]int{{1, 1}, {3, 3}, {2, 2}, {5, 5}} {
			c.opMC(ref, cell[0], cell[1])
		}
	}
	m := 60
	if thorough {
		m = 400
	}
	c.opMM(nil)
	for i := 0; i < m; i++ {
		var rs [][4]int
		for k := rng.Range(1, 4); k > 0; k-- {
			rs = append(rs, [4]int{rng.Range(1, 9), rng.Range(1, 9), rng.Range(1, 9), rng.Range(1, 9)})
		}
		c.opMM(rs)
	}
	for _, f := range fx {
		if f.name != "gen-enc" {
			continue
		}
		max := uint32(len(f.raw) / 512)
		for _, cnt := range []uint32{0, 1, max - 1, max, max + 1, 2 * max, 0x7FFFFFFF, 0xFFFFFFFF} {
			c.opCH(f, cnt)
		}
	}
	// agile descriptors
	good := c14Ag{infoLen: 100, xmlOK: true, nKE: 1, blockSize: 16, hashLen: 64, keyBits: 256, spin: 2, saltOK: true, saltLen: 16, encOK: true, encLen: 32, kdSaltOK: true, pkgLen: 4096 + 64}
	c.opAG(good)
	with := func(fn func(a *c14Ag)) { a := good; fn(&a); c.opAG(a) }
	for l := 0; l <= 8; l++ {
		with(func(a *c14Ag) { a.infoLen = l })
	}
	with(func(a *c14Ag) { a.xmlOK = false })
	for _, v := range []int{0, 2} {
		with(func(a *c14Ag) { a.nKE = v })
	}
	for _, v := range []int{-16, -1, 0, 1, 8, 15, 17, 32, 2147483647, 9223372036854775807} {
		with(func(a *c14Ag) { a.blockSize = v })
	}
	for _, v := range []int{0, 16, 20, 32, 48} {
		with(func(a *c14Ag) { a.hashLen = v })
	}
	for _, v := range []int{-9223372036854775808, -8, -1, 0, 7, 8, 64, 128, 192, 255, 256, 257, 512, 520, 1024, 9223372036854775807} {
		with(func(a *c14Ag) { a.keyBits = v })
		with(func(a *c14Ag) { a.keyBits = v; a.hashLen = 16 })
	}
	for _, v := range []int{-1, 0, 1, 10000001, 4294967296} {
		with(func(a *c14Ag) { a.spin = v })
	}
	with(func(a *c14Ag) { a.saltOK = false })
	with(func(a *c14Ag) { a.encOK = false })
	with(func(a *c14Ag) { a.kdSaltOK = false })
	for _, v := range []int{0, 6, 15, 17, 32} {
		with(func(a *c14Ag) { a.saltLen = v })
	}
	for _, v := range []int{0, 1, 15, 16, 24, 31, 33, 48} {
		with(func(a *c14Ag) { a.encLen = v })
	}
	for _, v := range []int{0, 1, 7, 8, 9, 24, 4095, 4096, 4097, 4100, 4103, 4104, 4105, 8191, 8192, 8193, 8199, 8200, 12288 + 3} {
		with(func(a *c14Ag) { a.pkgLen = v })
	}
	for i := 0; i < 40; i++ {
		with(func(a *c14Ag) {
			a.keyBits = rng.Pick2([]int{128, 192, 256, 0, 512})
			a.hashLen = rng.Pick2([]int{16, 20, 32, 48, 64})
			a.encLen = rng.Pick2([]int{16, 24, 32})
			a.pkgLen = rng.Pick2([]int{8, 24, 4096, 5000, 8192 + 8, 8192 + 16})
			a.spin = rng.Range(0, 3)
		})
	}
}
