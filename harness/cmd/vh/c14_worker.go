//go:build verif_c14

package main

// C14 worker: the harness binary re-executes itself with VH_C14_WORKER=1. A
// worker reads jobs from stdin ("J <kind> <mode> <pw-hex> <len>\n" + bytes),
// runs the fixed call battery on the real library with recover() around every
// call and answers one JSON line. A worker that dies (fatal out-of-memory,
// unrecoverable panic in a goroutine) or exceeds the per-mutant timeout is
// killed/restarted by the pool; both are outcomes, not crashes of the run.

import (
	"bufio"
	"bytes"
	"encoding/json"
	"fmt"
	"io"
	"os"
	"os/exec"
	"runtime"
	"runtime/debug"
	"strconv"
	"strings"
	"sync"
	"sync/atomic"
	"syscall"
	"time"

	xl "github.com/xuri/excelize/v2"
)

func init() {
	if os.Getenv("VH_C14_WORKER") == "1" {
		c14WorkerMain()
		os.Exit(0)
	}
}

const (
	c14MemSoft   = 2 << 30  // GOMEMLIMIT of a worker
	c14MemHard   = 10 << 30 // RLIMIT_AS of a worker: beyond this the Go runtime dies with "out of memory"
	c14AllocCap  = 3 << 30  // oracle: peak heap of one battery (HeapSys)
	c14UnzipSize = 256 << 20
)

// C14Res is a worker's answer for one job.
type C14Res struct {
	Outcome string   `json:"o"`           // OK | PANIC | TIMEOUT | CRASH | ALLOC
	Site    string   `json:"s,omitempty"` // panic site: innermost excelize (or dependency) function
	Kind    string   `json:"k,omitempty"` // panic kind (normalised message)
	Call    string   `json:"c,omitempty"` // battery call that panicked
	Open    string   `json:"open"`        // ok | err
	Calls   int      `json:"n"`           // calls executed
	Errs    int      `json:"e"`           // calls that returned an error
	Alloc   uint64   `json:"a"`           // bytes allocated
	Ms      int64    `json:"ms"`
	Specs   []string `json:"specs,omitempty"` // per sheet: decoded row skeleton ("!" = decode error, "~" = too long)
	Wsr     []string `json:"wsr,omitempty"`   // per sheet: workSheetReader outcome ok|err|panic
	Cells   []string `json:"cells,omitempty"` // per sheet: (t:v:s) triples joined by ","
	Rows    []string `json:"rows,omitempty"`  // per sheet: GetRows outcome ok|err|panic@site
	NSI     int      `json:"nsi"`
	NXf     int      `json:"nxf"`
	Text    string   `json:"t,omitempty"`    // kind C: dump of VerifC14CheckSheet
	Bye     bool     `json:"bye,omitempty"`  // the worker retires after this answer
	Slow    string   `json:"slow,omitempty"` // slowest call
	SlowMs  int64    `json:"slowms,omitempty"`
}

func c14PanicKind(p interface{}) string {
	s := fmt.Sprint(p)
	switch {
	case strings.Contains(s, "index out of range"):
		return "index-out-of-range"
	case strings.Contains(s, "slice bounds out of range"):
		return "slice-bounds"
	case strings.Contains(s, "nil pointer"):
		return "nil-deref"
	case strings.Contains(s, "makeslice"):
		return "makeslice"
	case strings.Contains(s, "interface conversion"):
		return "type-assertion"
	case strings.Contains(s, "divide by zero"):
		return "divide-by-zero"
	case strings.Contains(s, "negative"):
		return "negative-count"
	}
	if len(s) > 40 {
		s = s[:40]
	}
	return strings.Map(func(r rune) rune {
		if r == ' ' || r == '\n' {
			return '_'
		}
		return r
	}, s)
}

// c14PanicSite returns the innermost excelize function on the panicking stack
// (or, when the stack has none, the innermost non-runtime function).
func c14PanicSite() string {
	pcs := make([]uintptr, 96)
	n := runtime.Callers(3, pcs)
	frames := runtime.CallersFrames(pcs[:n])
	first := ""
	clean := func(fn string) string {
		fn = strings.TrimPrefix(fn, "github.com/xuri/excelize/v2.")
		fn = strings.NewReplacer("(*", "", ")", "").Replace(fn)
		if i := strings.Index(fn, ".func"); i > 0 { // closures: keep the enclosing function
			fn = fn[:i]
		}
		return fn
	}
	for {
		fr, more := frames.Next()
		fn := fr.Function
		if fn != "" && !strings.HasPrefix(fn, "runtime.") && !strings.Contains(fn, "c14") && !strings.Contains(fn, "VerifC14") {
			if strings.HasPrefix(fn, "github.com/xuri/excelize/v2.") {
				return clean(fn)
			}
			if first == "" {
				first = clean(fn)
			}
		}
		if !more {
			break
		}
	}
	if first == "" {
		return "?"
	}
	return first
}

type c14Battery struct {
	res  *C14Res
	dead bool
	prog *bufio.Writer // progress lines ("P <call>") so that a timeout can be attributed to a call
}

func (b *c14Battery) call(name string, fn func() error) {
	if b.dead {
		return
	}
	b.res.Calls++
	if b.prog != nil {
		b.prog.WriteString("P " + name + "\n")
		b.prog.Flush()
	}
	t0 := time.Now()
	defer func() {
		if d := time.Since(t0).Milliseconds(); d > b.res.SlowMs {
			b.res.Slow, b.res.SlowMs = name, d
		}
	}()
	defer func() {
		if p := recover(); p != nil {
			b.dead = true
			b.res.Outcome = "PANIC"
			b.res.Site = c14PanicSite()
			b.res.Kind = c14PanicKind(p)
			b.res.Call = name
		}
	}()
	if err := fn(); err != nil {
		b.res.Errs++
	}
}

var c14ProbeCells = []string{"A1", "B2", "C3", "A4", "D5", "B7", "E9", "H5"}

// c14RunBattery is the fixed battery of read, calculate and save calls.
func c14RunBattery(data []byte, mode int, password string, prog *bufio.Writer) *C14Res {
	res := &C14Res{Outcome: "OK", Open: "err", NSI: -1, NXf: -1}
	b := &c14Battery{res: res, prog: prog}
	opts := xl.Options{UnzipSizeLimit: c14UnzipSize, Password: password}
	if mode == 1 {
		opts.UnzipXMLSizeLimit = 1024
	}
	var f *xl.File
	b.call("OpenReader", func() error {
		var err error
		f, err = xl.OpenReader(bytes.NewReader(data), opts)
		if err != nil && f != nil {
			f.Close()
			f = nil
		}
		return err
	})
	if b.dead || f == nil {
		return res
	}
	res.Open = "ok"
	var sheets []string
	b.call("GetSheetList", func() error { sheets = f.GetSheetList(); return nil })
	b.call("GetSheetMap", func() error { f.GetSheetMap(); return nil })
	if len(sheets) > 4 {
		sheets = sheets[:4]
	}
	b.call("Sizes", func() error { res.NSI, res.NXf = xl.VerifC14Sizes(f); return nil })
	for _, sh := range sheets {
		sh := sh
		spec, cells, wsr, rows := "!", "", "-", "-"
		b.call("DecodeSheetSpec", func() error {
			if s, ok := xl.VerifC14DecodeSheetSpec(f, sh); ok {
				spec = s
				if len(s) > 6000 {
					spec = "~"
				}
			}
			cells = strings.Join(xl.VerifC14CellSpec(f, sh, 40), ",")
			return nil
		})
		// streaming readers first (they read the part as stored)
		b.call("GetRows", func() error {
			rows = "panic"
			_, err := f.GetRows(sh)
			rows = "ok"
			if err != nil {
				rows = "err"
			}
			return err
		})
		if b.dead && b.res.Call == "GetRows" {
			rows = "panic@" + b.res.Site
		}
		// column iterator, first columns only: GetCols re-reads the part once per column up to the
		// last used column (16384 re-reads for a cell in XFD), which is slow but bounded by the limits
		b.call("Cols", func() error {
			cols, err := f.Cols(sh)
			if err != nil {
				return err
			}
			for n := 0; n < 6 && cols.Next(); n++ {
				if _, err := cols.Rows(); err != nil {
					return err
				}
			}
			return cols.Error()
		})
		b.call("workSheetReader", func() error {
			wsr = "panic"
			err := xl.VerifC14WorkSheetReader(f, sh)
			wsr = "ok"
			if err != nil {
				wsr = "err"
			}
			return err
		})
		res.Specs = append(res.Specs, spec)
		res.Cells = append(res.Cells, cells)
		res.Wsr = append(res.Wsr, wsr)
		res.Rows = append(res.Rows, rows)
		for _, c := range c14ProbeCells {
			c := c
			b.call("GetCellValue", func() error { _, err := f.GetCellValue(sh, c); return err })
			b.call("GetCellStyle", func() error { _, err := f.GetCellStyle(sh, c); return err })
			b.call("GetCellFormula", func() error { _, err := f.GetCellFormula(sh, c); return err })
			b.call("GetCellType", func() error { _, err := f.GetCellType(sh, c); return err })
			b.call("GetCellRichText", func() error { _, err := f.GetCellRichText(sh, c); return err })
			b.call("GetCellHyperLink", func() error { _, _, err := f.GetCellHyperLink(sh, c); return err })
			b.call("CalcCellValue", func() error { _, err := f.CalcCellValue(sh, c); return err })
			b.call("GetPictures", func() error { _, err := f.GetPictures(sh, c); return err })
		}
		b.call("GetCellValueFar", func() error { _, err := f.GetCellValue(sh, "XFD1048576"); return err })
		b.call("GetCellValueRaw", func() error {
			_, err := f.GetCellValue(sh, "A1", xl.Options{RawCellValue: true})
			return err
		})
		b.call("GetMergeCells", func() error {
			mcs, err := f.GetMergeCells(sh)
			for _, m := range mcs {
				_ = m.GetCellValue()
				_ = m.GetStartAxis()
				_ = m.GetEndAxis()
			}
			return err
		})
		b.call("GetComments", func() error { _, err := f.GetComments(sh); return err })
		b.call("GetTables", func() error { _, err := f.GetTables(sh); return err })
		b.call("GetDataValidations", func() error { _, err := f.GetDataValidations(sh); return err })
		b.call("GetConditionalFormats", func() error { _, err := f.GetConditionalFormats(sh); return err })
		b.call("GetColWidth", func() error { _, err := f.GetColWidth(sh, "B"); return err })
		b.call("GetColStyle", func() error { _, err := f.GetColStyle(sh, "B"); return err })
		b.call("GetColVisible", func() error { _, err := f.GetColVisible(sh, "B"); return err })
		b.call("GetRowHeight", func() error { _, err := f.GetRowHeight(sh, 2); return err })
		b.call("GetRowVisible", func() error { _, err := f.GetRowVisible(sh, 2); return err })
		b.call("GetSheetVisible", func() error { _, err := f.GetSheetVisible(sh); return err })
		b.call("GetSheetProps", func() error { _, err := f.GetSheetProps(sh); return err })
		b.call("GetSheetView", func() error { _, err := f.GetSheetView(sh, 0); return err })
		b.call("GetPanes", func() error { _, err := f.GetPanes(sh); return err })
		b.call("GetSheetDimension", func() error { _, err := f.GetSheetDimension(sh); return err })
		b.call("GetPageLayout", func() error { _, err := f.GetPageLayout(sh); return err })
		b.call("GetPageMargins", func() error { _, err := f.GetPageMargins(sh); return err })
		b.call("GetPictureCells", func() error { _, err := f.GetPictureCells(sh); return err })
		b.call("SearchSheet", func() error { _, err := f.SearchSheet(sh, "a"); return err })
		b.call("Rows", func() error {
			rs, err := f.Rows(sh)
			if err != nil {
				return err
			}
			n := 0
			for rs.Next() && n < 2000000 {
				n++
				if _, err := rs.Columns(); err != nil {
					break
				}
				rs.GetRowOpts()
			}
			return rs.Close()
		})
	}
	b.call("GetDefinedName", func() error { f.GetDefinedName(); return nil })
	b.call("GetActiveSheetIndex", func() error { f.GetActiveSheetIndex(); return nil })
	b.call("GetWorkbookProps", func() error { _, err := f.GetWorkbookProps(); return err })
	b.call("GetDocProps", func() error { _, err := f.GetDocProps(); return err })
	b.call("GetAppProps", func() error { _, err := f.GetAppProps(); return err })
	b.call("GetCalcProps", func() error { _, err := f.GetCalcProps(); return err })
	for i := 0; i < 4; i++ {
		i := i
		b.call("GetStyle", func() error { _, err := f.GetStyle(i); return err })
	}
	b.call("GetDefaultFont", func() error { _, err := f.GetDefaultFont(); return err })
	b.call("WriteToBuffer", func() error { _, err := f.WriteToBuffer(); return err })
	b.call("Close", func() error { return f.Close() })
	return res
}

func c14WorkerMain() {
	debug.SetMemoryLimit(c14MemSoft)
	lim := syscall.Rlimit{Cur: c14MemHard, Max: c14MemHard}
	_ = syscall.Setrlimit(syscall.RLIMIT_AS, &lim)
	in := bufio.NewReaderSize(os.Stdin, 1<<20)
	out := bufio.NewWriter(os.Stdout)
	for {
		line, err := in.ReadString('\n')
		if err != nil {
			return
		}
		w := strings.Fields(line)
		if len(w) != 5 || w[0] != "J" {
			return
		}
		mode, _ := strconv.Atoi(w[2])
		n, _ := strconv.Atoi(w[4])
		data := make([]byte, n)
		if _, err := io.ReadFull(in, data); err != nil {
			return
		}
		var ms0, ms1 runtime.MemStats
		runtime.ReadMemStats(&ms0)
		t0 := time.Now()
		var res *C14Res
		switch w[1] {
		case "B":
			res = c14RunBattery(data, mode, unhx(w[3]), out)
		case "C": // VerifC14CheckSheet on a spec that may allocate a lot
			res = &C14Res{Outcome: "OK"}
			func() {
				defer func() {
					if p := recover(); p != nil {
						res.Outcome, res.Site, res.Kind = "PANIC", c14PanicSite(), c14PanicKind(p)
					}
				}()
				res.Text = xl.VerifC14CheckSheetSlots(string(data))
			}()
		default:
			return
		}
		runtime.ReadMemStats(&ms1)
		// peak heap of this job: HeapSys does not shrink, and a worker whose heap grew is retired
		// after answering (Bye), so the next job starts from a fresh process
		res.Alloc = ms1.HeapSys
		_ = ms0
		res.Ms = time.Since(t0).Milliseconds()
		if res.Outcome == "OK" && res.Alloc > c14AllocCap {
			res.Outcome = "ALLOC"
		}
		res.Bye = ms1.HeapSys > 768<<20
		js, _ := json.Marshal(res)
		out.Write(js)
		out.WriteByte('\n')
		out.Flush()
		if res.Bye {
			return
		}
	}
}

// c14CutDump keeps "ok <n>" of a checkSheet dump (size-only comparison).
func c14CutDump(s string) string {
	if i := strings.Index(s, " |"); i >= 0 {
		return s[:i]
	}
	return s
}

// ---- pool ------------------------------------------------------------------

type c14Job struct {
	kind string // B | C
	mode int
	pw   string
	data []byte
	done func(*C14Res)
}

type c14Pool struct {
	jobs    chan c14Job
	wg      sync.WaitGroup
	timeout time.Duration
	mu      sync.Mutex
	spawned int
}

type c14Proc struct {
	cmd *exec.Cmd
	in  io.WriteCloser
	out *bufio.Reader
}

func c14Spawn() (*c14Proc, error) {
	cmd := exec.Command(os.Args[0])
	cmd.Env = append(os.Environ(), "VH_C14_WORKER=1", "GOMAXPROCS=2")
	in, err := cmd.StdinPipe()
	if err != nil {
		return nil, err
	}
	op, err := cmd.StdoutPipe()
	if err != nil {
		return nil, err
	}
	cmd.Stderr = nil
	if err := cmd.Start(); err != nil {
		return nil, err
	}
	return &c14Proc{cmd, in, bufio.NewReaderSize(op, 1<<20)}, nil
}

func (p *c14Proc) kill() {
	if p == nil {
		return
	}
	p.in.Close()
	_ = p.cmd.Process.Kill()
	_ = p.cmd.Wait()
}

func c14NewPool(n int, timeout time.Duration) *c14Pool {
	pool := &c14Pool{jobs: make(chan c14Job, 4*n), timeout: timeout}
	for i := 0; i < n; i++ {
		pool.wg.Add(1)
		go pool.loop()
	}
	return pool
}

func (pool *c14Pool) loop() {
	defer pool.wg.Done()
	var p *c14Proc
	defer func() { p.kill() }()
	for j := range pool.jobs {
		if p == nil {
			var err error
			if p, err = c14Spawn(); err != nil {
				must(err)
			}
			pool.mu.Lock()
			pool.spawned++
			pool.mu.Unlock()
		}
		t0 := time.Now()
		hdr := fmt.Sprintf("J %s %d %s %d\n", j.kind, j.mode, hx(j.pw), len(j.data))
		type ans struct {
			line string
			err  error
		}
		ch := make(chan ans, 1)
		proc := p
		var last atomic.Value
		last.Store("")
		go func() {
			if _, err := io.WriteString(proc.in, hdr); err != nil {
				ch <- ans{"", err}
				return
			}
			if _, err := proc.in.Write(j.data); err != nil {
				ch <- ans{"", err}
				return
			}
			for {
				l, err := proc.out.ReadString('\n')
				if err == nil && strings.HasPrefix(l, "P ") {
					last.Store(strings.TrimSpace(l[2:]))
					continue
				}
				ch <- ans{l, err}
				return
			}
		}()
		var res C14Res
		select {
		case a := <-ch:
			if a.err != nil || json.Unmarshal([]byte(a.line), &res) != nil {
				res = C14Res{Outcome: "CRASH", Open: "?", Call: last.Load().(string)}
				p.kill()
				p = nil
			} else if res.Bye {
				p.kill()
				p = nil
			}
		case <-time.After(pool.timeout):
			res = C14Res{Outcome: "TIMEOUT", Open: "?", Call: last.Load().(string)}
			p.kill()
			p = nil
		}
		if res.Ms == 0 {
			res.Ms = time.Since(t0).Milliseconds()
		}
		j.done(&res)
	}
}

func (pool *c14Pool) submit(j c14Job) { pool.jobs <- j }

func (pool *c14Pool) close() {
	close(pool.jobs)
	pool.wg.Wait()
}

// c14RunOne runs a single job synchronously on a fresh pool of one worker.
func c14RunOne(j c14Job, timeout time.Duration) *C14Res {
	pool := c14NewPool(1, timeout)
	var out *C14Res
	j.done = func(r *C14Res) { out = r }
	pool.submit(j)
	pool.close()
	return out
}
