//go:build verif_c15

package main

// C15 — documented concurrency-safe functions are race-free and linearizable.
//
// The runner builds harness/cmd/c15race with the race detector
// (`go build -race -tags verif`, CGO_ENABLED=1) against the repository under
// test, runs its seeded scenarios, and turns what happened into
//
//   transcript ops (answered by lean/XlModel/Drv/C15.lean from the model that is
//   computed from the regenerated lock skeletons):
//     docs                         the sorted list of functions documented as concurrency safe
//     doc <Fn>                     is Fn documented as concurrency safe?
//     race <Class> <field> <A> <B> a race report of the detector on location class Class.field
//                                  between API functions A and B: does the model predict it?
//     cover <Fn>                   was Fn called in this run / does the model have a lock footprint for it
//     lin <G> <prog>.. <final>     per-goroutine write programs and the observed final state:
//                                  is there a sequential order (program order kept) producing it?
//
//   direct oracles (independent of the model): no panic / error / deadlock, every key holds
//   the last write of one of its writers, distinct-key writes all present, NewStyle ids denote
//   the requested style, data validations and pictures present, SetSheetRow rows untorn,
//   workbook saves and reopens; every race report is an oracle failure with signature
//   race:<Class.field>:<A>|<B>.

import (
	"bytes"
	"context"
	"encoding/json"
	"fmt"
	"os"
	"os/exec"
	"path/filepath"
	"regexp"
	"sort"
	"strconv"
	"strings"
	"time"
)

func init() { props["C15"] = runC15 }

// the functions the stress scenarios exercise (kept in step with the doc comments by the `docs` op)
var c15Documented = []string{"AddDataValidation", "AddPicture", "Cols", "DeleteDataValidation", "GetCellStyle", "GetCellValue",
	"GetColStyle", "GetColVisible", "GetColWidth", "GetPictures", "NewStyle", "Rows", "SetCellStyle", "SetCellValue",
	"SetColStyle", "SetColVisible", "SetColWidth", "SetSheetRow"}

type c15Fail struct {
	Sig  string `json:"sig"`
	What string `json:"what"`
}

type c15Lin struct {
	Progs [][][2]int `json:"progs"`
	Final [][2]int   `json:"final"`
}

type c15Result struct {
	Idx        int            `json:"idx"`
	Name       string         `json:"name"`
	Seed       uint64         `json:"seed"`
	Goroutines int            `json:"goroutines"`
	Procs      int            `json:"procs"`
	Ops        int            `json:"ops"`
	Fns        map[string]int `json:"fns"`
	Payloads   map[string]int `json:"payloads"`
	Fails      []c15Fail      `json:"fails"`
	Lin        *c15Lin        `json:"lin"`
	Keys       int            `json:"keys"`
	SharedKeys int            `json:"shared_keys"`
	Millis     int64          `json:"millis"`
}

type c15Frame struct {
	fn, file string
	line     int
}

type c15Race struct {
	scenario int
	stacks   [][]c15Frame // the two access stacks
	kinds    []string     // "Read" / "Write" / "Previous write" ...
	text     string
}

var (
	c15AccessRe = regexp.MustCompile(`^((?:Previous )?(?:[Rr]ead|[Ww]rite|[Aa]tomic [a-z]+)) at 0x[0-9a-f]+ by `)
	c15FuncRe   = regexp.MustCompile(`^  (\S.*)\(\)$`)
	c15LocRe    = regexp.MustCompile(`^      (\S+):(\d+)`)
)

const c15Pkg = "github.com/xuri/excelize/v2."

// c15ParseRaces splits the race detector's stderr into reports, attributed to scenarios by the
// @@SCENARIO markers the stress binary prints on the same stream.
func c15ParseRaces(stderr string) []c15Race {
	var out []c15Race
	cur := -1
	lines := strings.Split(stderr, "\n")
	for i := 0; i < len(lines); i++ {
		l := lines[i]
		if strings.HasPrefix(l, "@@SCENARIO ") {
			f := strings.Fields(l)
			cur, _ = strconv.Atoi(f[1])
			continue
		}
		if !strings.HasPrefix(l, "WARNING: DATA RACE") {
			continue
		}
		r := c15Race{scenario: cur}
		var txt []string
		j := i + 1
		section := -1
		for ; j < len(lines) && !strings.HasPrefix(lines[j], "=================="); j++ {
			ll := lines[j]
			if strings.HasPrefix(ll, "@@") {
				continue
			}
			txt = append(txt, ll)
			if m := c15AccessRe.FindStringSubmatch(ll); m != nil {
				r.kinds = append(r.kinds, m[1])
				r.stacks = append(r.stacks, nil)
				section = len(r.stacks) - 1
				continue
			}
			if strings.HasPrefix(ll, "Goroutine ") || strings.HasPrefix(ll, "Previous ") && section < 0 {
				section = -2
			}
			if section >= 0 {
				if m := c15FuncRe.FindStringSubmatch(ll); m != nil && j+1 < len(lines) {
					fr := c15Frame{fn: m[1]}
					if lm := c15LocRe.FindStringSubmatch(lines[j+1]); lm != nil {
						fr.file = lm[1]
						fr.line, _ = strconv.Atoi(lm[2])
					}
					r.stacks[section] = append(r.stacks[section], fr)
				}
			}
			if strings.HasPrefix(ll, "Goroutine ") {
				section = -2
			}
		}
		if len(txt) > 60 {
			txt = txt[:60]
		}
		r.text = strings.Join(txt, "\n")
		out = append(out, r)
		i = j
	}
	return out
}

func c15ShortFn(fn string) string {
	fn = strings.TrimPrefix(fn, c15Pkg)
	if strings.HasPrefix(fn, "(*File).") {
		fn = strings.TrimPrefix(fn, "(*File).")
	} else if strings.HasPrefix(fn, "(*") {
		fn = strings.Replace(strings.TrimPrefix(fn, "(*"), ").", ".", 1)
	}
	if k := strings.Index(fn, ".func"); k >= 0 {
		fn = fn[:k]
	}
	return fn
}

// c15API: the API function a stack entered the library through (outermost library frame),
// and the innermost library frame (where the access happens).
func c15API(st []c15Frame) (api string, top c15Frame) {
	api = "?"
	for _, fr := range st {
		if strings.HasPrefix(fr.fn, c15Pkg) {
			if top.fn == "" {
				top = fr
			}
			api = c15ShortFn(fr.fn)
		}
	}
	return
}

var c15LineCache = map[string][]string{}

func c15SrcLine(file string, line int) string {
	ls, ok := c15LineCache[file]
	if !ok {
		b, err := os.ReadFile(file)
		if err == nil {
			ls = strings.Split(string(b), "\n")
		}
		c15LineCache[file] = ls
	}
	if line >= 1 && line <= len(ls) {
		return ls[line-1]
	}
	return ""
}

type c15LocRule struct {
	re  *regexp.Regexp
	cls string
	fld string
}

// location classes, in the extractor's vocabulary, recognised from the text of the accessing line
var c15LocRules = []c15LocRule{
	{regexp.MustCompile(`sharedStringsMap`), "File", "sharedStringsMap"},
	{regexp.MustCompile(`f\.SharedStrings\b`), "File", "SharedStrings"},
	{regexp.MustCompile(`f\.CalcChain\b`), "File", "CalcChain"},
	{regexp.MustCompile(`f\.WorkBook\b`), "File", "WorkBook"},
	{regexp.MustCompile(`f\.ContentTypes\b`), "File", "ContentTypes"},
	{regexp.MustCompile(`f\.Styles\b`), "File", "Styles"},
	{regexp.MustCompile(`f\.sheetMap\b`), "File", "sheetMap"},
	{regexp.MustCompile(`sharedStringItem|sharedStringTemp`), "File", "sharedStringItem"},
	{regexp.MustCompile(`\.MergeCells\b`), "Ws", "MergeCells"},
	{regexp.MustCompile(`\.DataValidations\b`), "Ws", "DataValidations"},
	{regexp.MustCompile(`\.Drawing\b`), "Ws", "Drawing"},
	{regexp.MustCompile(`\.Cols\b`), "Ws", "Cols"},
	{regexp.MustCompile(`\.SheetFormatPr\b`), "Ws", "SheetFormatPr"},
	{regexp.MustCompile(`\.CellXfs\b|\.NumFmts\b|\.Fonts\b|\.Fills\b|\.Borders\b|\.CellStyles\b|\.Dxfs\b|styleSheet\.|\bss\.`), "Styles", "tables"},
	{regexp.MustCompile(`\.SheetData\b|\.Row\[|\.C\[|\bc\.(S|V|T|IS|F|R)\b|rowData|colData|\brow\.C\b`), "Ws", "SheetData"},
	{regexp.MustCompile(`\.SI\b|\.UniqueCount\b|sst\.Count`), "Sst", "SI"},
	{regexp.MustCompile(`\.Relationships\b`), "Rels", "list"},
	{regexp.MustCompile(`\.Overrides\b|\.Defaults\b`), "ContentTypes", "list"},
	{regexp.MustCompile(`TwoCellAnchor|OneCellAnchor|AbsoluteAnchor`), "Drawing", "anchors"},
	{regexp.MustCompile(`calc\.C\b`), "CalcChain", "C"},
	{regexp.MustCompile(`wb\.|\.WorkbookPr\b|\.Sheets\b`), "Workbook", "fields"},
}

// innermost-function fallback when the line text is not telling
var c15FnLoc = map[string][2]string{
	"xlsxWorksheet.prepareSheetXML": {"Ws", "SheetData"}, "xlsxWorksheet.prepareCell": {"Ws", "SheetData"},
	"xlsxWorksheet.makeContiguousColumns": {"Ws", "SheetData"}, "fillColumns": {"Ws", "SheetData"},
	"xlsxC.setCellDefault": {"Ws", "SheetData"}, "xlsxC.setCellTime": {"Ws", "SheetData"}, "xlsxC.setInlineStr": {"Ws", "SheetData"},
	"xlsxC.setCellFloat": {"Ws", "SheetData"}, "xlsxC.getValueFrom": {"Ws", "SheetData"}, "xlsxC.hasValue": {"Ws", "SheetData"},
	"xlsxWorksheet.prepareCellStyle": {"Ws", "SheetData"}, "xlsxWorksheet.mergeCellsParser": {"Ws", "MergeCells"},
	"setCellXfs": {"Styles", "tables"}, "getStyleID": {"Styles", "tables"}, "newNumFmt": {"Styles", "tables"},
	"formattedValue": {"Styles", "tables"}, "xlsxStyleSheet.getCustomNumFmtCode": {"Styles", "tables"},
	"getFromStringItem": {"File", "sharedStringItem"},
	"calcChainReader": {"File", "CalcChain"}, "deleteCalcChain": {"File", "CalcChain"},
	"workbookReader": {"File", "WorkBook"}, "stylesReader": {"File", "Styles"}, "contentTypesReader": {"File", "ContentTypes"},
	"xlsxWorksheet.setColStyle": {"Ws", "Cols"}, "xlsxWorksheet.setColWidth": {"Ws", "Cols"}, "flatCols": {"Ws", "Cols"},
}

func c15Classify(top c15Frame) (string, string) {
	txt := c15SrcLine(top.file, top.line)
	if k := strings.Index(txt, "//"); k >= 0 {
		txt = txt[:k]
	}
	for _, r := range c15LocRules {
		if r.re.MatchString(txt) {
			return r.cls, r.fld
		}
	}
	if l, ok := c15FnLoc[c15ShortFn(top.fn)]; ok {
		return l[0], l[1]
	}
	return "Unknown", strings.ReplaceAll(c15ShortFn(top.fn), " ", "")
}

func c15RaceSig(r c15Race) (cls, fld, a, b string) {
	apis := []string{"?", "?"}
	tops := make([]c15Frame, 2)
	for i := 0; i < 2 && i < len(r.stacks); i++ {
		apis[i], tops[i] = c15API(r.stacks[i])
	}
	cls, fld = "Unknown", "?"
	// the writing side names the location best (`x.F = append(x.F, ...)`); readers often mention several
	order := []int{0, 1}
	if len(r.kinds) > 1 && !strings.Contains(strings.ToLower(r.kinds[0]), "write") && strings.Contains(strings.ToLower(r.kinds[1]), "write") {
		order = []int{1, 0}
	}
	for _, i := range order {
		if tops[i].fn != "" {
			if c, f := c15Classify(tops[i]); c != "Unknown" || cls == "Unknown" && fld == "?" {
				cls, fld = c, f
				if c != "Unknown" {
					break
				}
			}
		}
	}
	sort.Strings(apis)
	return cls, fld, apis[0], apis[1]
}

func c15LinLine(l *c15Lin, g int) string {
	var b strings.Builder
	fmt.Fprintf(&b, "lin %d", g)
	enc := func(ws [][2]int) string {
		if len(ws) == 0 {
			return "-"
		}
		parts := make([]string, len(ws))
		for i, w := range ws {
			parts[i] = strconv.Itoa(w[0]) + ":" + strconv.Itoa(w[1])
		}
		return strings.Join(parts, ",")
	}
	n := 0
	for t := 0; t < g; t++ {
		var p [][2]int
		if t < len(l.Progs) {
			p = l.Progs[t]
		}
		n += len(p)
		b.WriteString(" " + enc(p))
	}
	b.WriteString(" " + enc(l.Final))
	return b.String()
}

func c15Build(r *Run) (string, bool) {
	bin, _ := filepath.Abs(filepath.Join("bin", "c15race"))
	env := append(os.Environ(), "CGO_ENABLED=1")
	cmd := exec.Command("go", "build", "-race", "-tags", "verif", "-o", bin, "./cmd/c15race")
	cmd.Env = env
	out, err := cmd.CombinedOutput()
	if err == nil {
		return bin, true
	}
	r.Notes = append(r.Notes, "race-detector build failed, falling back to a plain build (no race reports, final-state oracles only): "+strings.TrimSpace(string(out)))
	cmd = exec.Command("go", "build", "-tags", "verif", "-o", bin, "./cmd/c15race")
	cmd.Env = append(os.Environ(), "CGO_ENABLED=0")
	if out, err := cmd.CombinedOutput(); err != nil {
		fmt.Fprintln(os.Stderr, "vh: c15race does not build:", string(out))
		os.Exit(3)
	}
	return bin, false
}

func c15Images() string {
	repo := os.Getenv("VERIF_REPO")
	if repo == "" {
		repo = "/repo"
	}
	return filepath.Join(repo, "test", "images")
}

func runC15(r *Run, rng *Rng, replay string) {
	r.Rule = "a stress scenario is non-trivial when at least two goroutines ran to completion against one File and at least one state key (cell, column attribute, cell style) was written by two different goroutines; distinct = distinct (scenario kind, goroutine programs) by hash"
	bin, withRace := c15Build(r)
	if withRace {
		r.Stat("race_detector:on")
	} else {
		r.Stat("race_detector:off")
	}
	// static part of the transcript: the harness's function list against the doc comments
	r.Op("docs", strings.Join(c15Documented, ","))
	for _, fn := range c15Documented {
		r.Op("doc "+fn, "documented")
	}
	r.Op("doc SetCellFormula", "undocumented")
	r.Op("doc GetStyle", "undocumented")
	// a malformed stream for the driver
	for _, bad := range []string{"lin", "lin x", "race Ws", "lin 2 1:1 zz 1:1", "frob", "lin 1 0:1,0:2 0:3"} {
		res := "bad-op"
		if bad == "lin 1 0:1,0:2 0:3" {
			res = "bad 2" // final value written by nobody
		}
		r.Op(bad, res)
	}

	type job struct {
		seed   uint64
		only   int
		n      int
		repeat int
	}
	var jobs []job
	if replay != "" {
		for _, l := range readLines(replay) {
			f := strings.Fields(l)
			if len(f) >= 3 && f[0] == "scenario" {
				s, _ := strconv.ParseUint(f[1], 10, 64)
				k, _ := strconv.Atoi(f[2])
				jobs = append(jobs, job{seed: s, only: k, n: k + 1, repeat: 5})
			} else if len(f) > 0 && !strings.HasPrefix(l, "#") {
				// transcript lines of a recorded case are re-emitted as they are
				switch f[0] {
				case "race":
					r.Op(l, "predicted")
				case "lin":
					r.Op(l, "ok "+strconv.Itoa(c15CountWrites(f)))
				}
			}
		}
	} else {
		jobs = append(jobs, job{seed: r.Seed, only: -1, n: 0, repeat: 1})
	}
	seenRace := map[string]bool{}
	byFn := map[string]map[string]bool{} // function -> scenario kinds that called it
	defer func() {
		if replay == "" {
			c15Coverage(r, byFn)
		}
	}()
	for _, jb := range jobs {
		for rep := 0; rep < jb.repeat; rep++ {
			outFile := filepath.Join(r.Dir, fmt.Sprintf("c15race-%d-%d.json", jb.only, rep))
			args := []string{"-seed", strconv.FormatUint(jb.seed, 10), "-tier", r.Tier, "-out", outFile, "-images", c15Images()}
			if jb.only >= 0 {
				args = append(args, "-only", strconv.Itoa(jb.only), "-n", strconv.Itoa(jb.n))
			}
			// the stress process has its own watchdog; the deadline here only makes sure it never
			// outlives the check
			limit := 12 * time.Minute
			if r.Tier == "thorough" {
				limit = 100 * time.Minute
			}
			ctx, cancel := context.WithTimeout(context.Background(), limit)
			cmd := exec.CommandContext(ctx, bin, args...)
			cmd.Env = append(os.Environ(), "GORACE=halt_on_error=0 history_size=5")
			var stderr bytes.Buffer
			cmd.Stderr = &stderr
			t0 := time.Now()
			err := cmd.Run()
			cancel()
			_ = os.WriteFile(filepath.Join(r.Dir, fmt.Sprintf("c15race-%d-%d.stderr", jb.only, rep)), stderr.Bytes(), 0o644)
			// exit status 66 = the race detector reported something; anything else abnormal is a crash
			if err != nil {
				if ee, ok := err.(*exec.ExitError); !ok || ee.ExitCode() != 66 {
					tail := stderr.String()
					if len(tail) > 3000 {
						tail = tail[len(tail)-3000:]
					}
					r.Fail("crash:stress-process", "the stress process died: "+err.Error()+"\n"+tail, 0,
						fmt.Sprintf("scenario %d %d\n# process died: %v", jb.seed, jb.only, err))
				}
			}
			r.Notes = append(r.Notes, fmt.Sprintf("stress run seed=%d only=%d: %.1fs", jb.seed, jb.only, time.Since(t0).Seconds()))
			var results []c15Result
			if b, e := os.ReadFile(outFile); e == nil {
				_ = json.Unmarshal(b, &results)
			}
			byIdx := map[int]*c15Result{}
			for i := range results {
				byIdx[results[i].Idx] = &results[i]
			}
			// race reports
			for _, rc := range c15ParseRaces(stderr.String()) {
				cls, fld, a, b := c15RaceSig(rc)
				sig := fmt.Sprintf("race:%s.%s:%s|%s", cls, fld, a, b)
				r.Stat("race_report")
				line := 0
				opl := fmt.Sprintf("race %s %s %s %s", cls, fld, a, b)
				if !seenRace[sig] {
					seenRace[sig] = true
					line = r.Op(opl, "predicted")
					if len(r.Samples) < 6 {
						r.Sample(opl + " => reported by the race detector in scenario " + strconv.Itoa(rc.scenario))
					}
				}
				name := ""
				if sr := byIdx[rc.scenario]; sr != nil {
					name = sr.Name
				}
				r.Fail(sig, fmt.Sprintf("data race on %s.%s between %s and %s (scenario %d %s)", cls, fld, a, b, rc.scenario, name), line,
					fmt.Sprintf("scenario %d %d\n%s\n# race detector report:\n# %s", jb.seed, rc.scenario, opl, strings.ReplaceAll(rc.text, "\n", "\n# ")))
			}
			// per-scenario oracles and the linearizability transcript line
			for i := range results {
				sr := &results[i]
				r.Stat("scenario:" + sr.Name)
				r.Stat(fmt.Sprintf("goroutines:%d", sr.Goroutines))
				r.Stat(fmt.Sprintf("gomaxprocs:%d", sr.Procs))
				for fn, n := range sr.Fns {
					r.Stats["calls:"+fn] += n
					if byFn[fn] == nil {
						byFn[fn] = map[string]bool{}
					}
					byFn[fn][sr.Name] = true
				}
				for p, n := range sr.Payloads {
					r.Stats["payload:"+p] += n
				}
				r.Stats["ops"] += sr.Ops
				r.Stats["keys_written"] += sr.Keys
				r.Stats["keys_written_by_2+_goroutines"] += sr.SharedKeys
				line := 0
				key := fmt.Sprintf("%s/%d", sr.Name, sr.Seed)
				if sr.Lin != nil {
					ll := c15LinLine(sr.Lin, sr.Goroutines)
					n := 0
					for _, p := range sr.Lin.Progs {
						n += len(p)
					}
					verdict := "ok "
					if len(sr.Lin.Final) != sr.Keys {
						verdict = "bad " // some key holds the value of no last write (reported below as lin:...)
					}
					line = r.Op(ll, verdict+strconv.Itoa(n))
					key += ll
					if i%9 == 0 && len(ll) < 300 {
						r.Sample(ll + " => ok")
					}
				}
				r.Case(key, sr.Goroutines >= 2 && sr.SharedKeys > 0)
				for _, f := range sr.Fails {
					ln := 0
					if strings.HasPrefix(f.Sig, "lin:") {
						ln = line
					}
					r.Fail(f.Sig, fmt.Sprintf("%s (scenario %d %s, %d goroutines, GOMAXPROCS %d)", f.What, sr.Idx, sr.Name, sr.Goroutines, sr.Procs), ln,
						fmt.Sprintf("scenario %d %d\n# %s", jb.seed, sr.Idx, f.What))
				}
			}
		}
	}
}

// c15Coverage: after the stress run, one `cover` line per documented function / iterator method
// (Go: was it called at least once in this run; Lean: does it have a modelled lock footprint) and
// the coverage table (function x mutexes x locations x scenarios), obtained from the Lean driver
// as a co-process, in the notes of the evidence.
func c15Coverage(r *Run, byFn map[string]map[string]bool) {
	iter := map[string]string{"Rows.Next": "Rows", "Rows.Columns": "Rows", "Rows.Close": "Rows", "Cols.Next": "Cols", "Cols.Rows": "Cols"}
	fns := append([]string{}, c15Documented...)
	for _, m := range []string{"Rows.Columns", "Cols.Rows"} {
		fns = append(fns, m)
	}
	var ask []string
	for _, fn := range fns {
		called := fn
		if c, ok := iter[fn]; ok {
			called = c
		}
		res := "unstressed"
		if r.Stats["calls:"+called] > 0 {
			res = "covered"
		}
		r.Op("cover "+fn, res)
		ask = append(ask, "table "+fn)
	}
	drv := os.Getenv("VH_DRV")
	if drv == "" {
		return
	}
	cmd := exec.Command(drv)
	cmd.Stdin = strings.NewReader(strings.Join(ask, "\n") + "\n")
	out, err := cmd.Output()
	if err != nil {
		r.Notes = append(r.Notes, "coverage table unavailable: "+err.Error())
		return
	}
	lines := strings.Split(strings.TrimSpace(string(out)), "\n")
	for i, fn := range fns {
		if i >= len(lines) {
			break
		}
		called := fn
		if c, ok := iter[fn]; ok {
			called = c
		}
		var kinds []string
		for k := range byFn[called] {
			kinds = append(kinds, k)
		}
		sort.Strings(kinds)
		r.Notes = append(r.Notes, fmt.Sprintf("coverage %s | calls=%d | %s | scenarios=%s", fn, r.Stats["calls:"+called], lines[i], strings.Join(kinds, ",")))
	}
}

func c15CountWrites(f []string) int {
	n := 0
	if len(f) < 3 {
		return 0
	}
	for _, p := range f[2 : len(f)-1] {
		if p != "-" {
			n += strings.Count(p, ",") + 1
		}
	}
	return n
}
