//go:build verif_c16

package main

// C16 — sheet-collection operations keep the workbook consistent.
//
// Transcript ops (see lean/XlModel/Drv/C16.lean); names are hex-encoded:
//   reset | new h | del h | copy i j | move h h | ren h h | vis h b b | act i |
//   grp h* | ungrp | defn k h | setc h v | save | chk h
// Result line:  <result> | <VerifC16Dump internal lists> | <public-API observation> | <defined-name scopes>
//
// Direct oracles (independent of the Lean model): an ordered-list model kept
// by the harness (c16Book) predicts GetSheetList / visibility / A1 content /
// active index / defined-name scopes after every call; invariants evaluated on
// the implementation after every call (names unique case-insensitively and
// valid, active index in range, some sheet visible, ids / rIds / parts
// bijective, no orphan parts); save + reopen gives the same observation.

import (
	"fmt"
	"sort"
	"strconv"
	"strings"

	xl "github.com/xuri/excelize/v2"
)

func init() { props["C16"] = runC16 }

// ---------------------------------------------------------------- list model

type c16Ent struct {
	name    string
	vis     bool
	content int
	sel     bool
	key     int
}

type c16Def struct {
	name string
	key  int // 0 = workbook scope
	data string
}

// c16RewriteRef is the harness's own reading of "SetSheetName renames the references to the sheet":
// the text is cut at ',' ':' '!' ; a component that is the old name, bare or in single quotes, is
// replaced by the new name in the same spelling; every other component is byte-identical.
func c16RewriteRef(data, from, to string) string {
	var out []byte
	start := 0
	flush := func(end int) {
		comp := data[start:end]
		switch {
		case comp == from:
			comp = to
		case len(comp) >= 2 && comp[0] == '\'' && comp[len(comp)-1] == '\'' && comp[1:len(comp)-1] == from:
			comp = "'" + to + "'"
		}
		out = append(out, comp...)
	}
	for i := 0; i < len(data); i++ {
		if c := data[i]; c == ',' || c == ':' || c == '!' {
			flush(i)
			out = append(out, c)
			start = i + 1
		}
	}
	flush(len(data))
	return string(out)
}

type c16Book struct {
	ents    []c16Ent
	active  int
	defs    []c16Def
	nextKey int
}

func c16NewBook() *c16Book {
	return &c16Book{ents: []c16Ent{{"Sheet1", true, 0, true, 1}}, nextKey: 2}
}

func c16Fold(s string) string {
	b := []byte(s)
	for i, c := range b {
		if c >= 'A' && c <= 'Z' {
			b[i] = c + 32
		}
	}
	return string(b)
}

func c16Upper(s string) string {
	b := []byte(s)
	for i, c := range b {
		if c >= 'a' && c <= 'z' {
			b[i] = c - 32
		}
	}
	return string(b)
}

func c16IsHex(s string) bool {
	if s == "-" {
		return true
	}
	if len(s) == 0 || len(s)%2 != 0 {
		return false
	}
	for _, c := range s {
		if !(c >= '0' && c <= '9' || c >= 'a' && c <= 'f' || c >= 'A' && c <= 'F') {
			return false
		}
	}
	return true
}

func c16IsInt(s string, signed bool) bool {
	if signed && len(s) > 1 && (s[0] == '-' || s[0] == '+') {
		s = s[1:]
	}
	if s == "" || len(s) > 9 {
		return false
	}
	for _, c := range s {
		if c < '0' || c > '9' {
			return false
		}
	}
	return true
}

// c16WellFormed mirrors parseOp of the Lean driver.
func c16WellFormed(w []string) bool {
	n := len(w)
	switch w[0] {
	case "new", "del":
		return n == 2 && c16IsHex(w[1])
	case "copy":
		return n == 3 && c16IsInt(w[1], true) && c16IsInt(w[2], true)
	case "move", "ren":
		return n == 3 && c16IsHex(w[1]) && c16IsHex(w[2])
	case "vis":
		return n == 4 && c16IsHex(w[1])
	case "act":
		return n == 2 && c16IsInt(w[1], true)
	case "grp":
		for _, h := range w[1:] {
			if !c16IsHex(h) {
				return false
			}
		}
		return true
	case "ungrp", "save", "reopen":
		return n == 1
	case "defn":
		return (n == 3 || n == 4 && c16IsHex(w[3])) && c16IsInt(w[1], false) && c16IsHex(w[2])
	case "deln":
		return n == 3 && c16IsInt(w[1], false) && c16IsHex(w[2])
	case "setc":
		return n == 3 && c16IsHex(w[1]) && c16IsInt(w[2], false)
	}
	return false
}

// c16Valid is the harness's own reading of the sheet-name rules.
func c16Valid(s string) bool {
	if s == "" || len([]rune(s)) > 31 {
		return false
	}
	if s[0] == '\'' || s[len(s)-1] == '\'' {
		return false
	}
	for _, c := range s {
		switch c {
		case ':', '\\', '/', '?', '*', '[', ']':
			return false
		}
	}
	return true
}

func (b *c16Book) find(n string) int {
	for i, e := range b.ents {
		if c16Fold(e.name) == c16Fold(n) {
			return i
		}
	}
	return -1
}

func (b *c16Book) otherVisible(n string) bool {
	for _, e := range b.ents {
		if c16Fold(e.name) != c16Fold(n) && e.vis {
			return true
		}
	}
	return false
}

func (b *c16Book) selectOnly(i int) {
	for k := range b.ents {
		b.ents[k].sel = k == i
	}
}

func (b *c16Book) follow(oldKey int) int {
	for i, e := range b.ents {
		if e.key == oldKey {
			return i
		}
	}
	return 0
}

// apply returns whether the call is expected to succeed ("ok") and, for new, the index.
func (b *c16Book) apply(w []string) (ok bool, idx int) {
	switch w[0] {
	case "new":
		n := unhx(w[1])
		if !c16Valid(n) {
			return false, -1
		}
		if i := b.find(n); i >= 0 {
			return true, i
		}
		b.ents = append(b.ents, c16Ent{n, true, 0, false, b.nextKey})
		b.nextKey++
		return true, len(b.ents) - 1
	case "del":
		n := unhx(w[1])
		if !c16Valid(n) {
			return false, 0
		}
		i := b.find(n)
		if i < 0 || len(b.ents) == 1 || !b.otherVisible(n) {
			return true, 0
		}
		ak := b.ents[b.active].key
		dk := b.ents[i].key
		b.ents = append(b.ents[:i:i], b.ents[i+1:]...)
		var nd []c16Def
		for _, d := range b.defs {
			if d.key != dk {
				nd = append(nd, d)
			}
		}
		b.defs = nd
		b.active = b.follow(ak)
		b.selectOnly(b.active)
		return true, 0
	case "copy":
		f, _ := strconv.Atoi(w[1])
		t, _ := strconv.Atoi(w[2])
		if f < 0 || t < 0 || f == t || f >= len(b.ents) || t >= len(b.ents) {
			return false, 0
		}
		b.ents[t].content = b.ents[f].content
		b.ents[t].sel = false
		return true, 0
	case "move":
		s, t := unhx(w[1]), unhx(w[2])
		if c16Fold(s) == c16Fold(t) {
			return true, 0
		}
		if !c16Valid(s) || !c16Valid(t) {
			return false, 0
		}
		si, ti := b.find(s), b.find(t)
		if si < 0 || ti < 0 {
			return false, 0
		}
		ak := b.ents[b.active].key
		e := b.ents[si]
		rest := append(append([]c16Ent{}, b.ents[:si]...), b.ents[si+1:]...)
		if ti > si {
			ti--
		}
		out := append([]c16Ent{}, rest[:ti]...)
		out = append(out, e)
		out = append(out, rest[ti:]...)
		b.ents = out
		b.active = b.follow(ak)
		b.selectOnly(b.active)
		return true, 0
	case "ren":
		s, t := unhx(w[1]), unhx(w[2])
		if !c16Valid(s) || !c16Valid(t) {
			return false, 0
		}
		if s == t {
			return true, 0
		}
		if c16Fold(s) != c16Fold(t) && b.find(t) >= 0 {
			return false, 0
		}
		for i := range b.ents {
			if b.ents[i].name == s {
				b.ents[i].name = t
			}
		}
		for i := range b.defs {
			b.defs[i].data = c16RewriteRef(b.defs[i].data, s, t)
		}
		return true, 0
	case "vis":
		n := unhx(w[1])
		if !c16Valid(n) {
			return false, 0
		}
		i := b.find(n)
		if i < 0 {
			return true, 0
		}
		if w[2] == "1" {
			b.ents[i].vis = true
		} else if b.otherVisible(n) && !b.ents[i].sel {
			b.ents[i].vis = false
		}
		return true, 0
	case "act":
		i, _ := strconv.Atoi(w[1])
		if i < 0 {
			i = 0
		}
		if i < len(b.ents) {
			b.active = i
		}
		b.selectOnly(i)
		return true, 0
	case "grp":
		in := false
		for _, h := range w[1:] {
			n := unhx(h)
			if c16Fold(n) == c16Fold(b.ents[b.active].name) {
				in = true
			}
		}
		if !in {
			return false, 0
		}
		for _, h := range w[1:] {
			n := unhx(h)
			if !c16Valid(n) || b.find(n) < 0 {
				return false, 0
			}
		}
		for _, h := range w[1:] {
			b.ents[b.find(unhx(h))].sel = true
		}
		return true, 0
	case "ungrp":
		for i := range b.ents {
			if i != b.active {
				b.ents[i].sel = false
			}
		}
		return true, 0
	case "defn":
		// the scope is resolved once: "" / "Workbook" = workbook, otherwise an existing sheet
		// (case-insensitive); the same name twice in one scope is a duplicate
		name := "dn_" + w[1]
		scope := unhx(w[2])
		data := "1/2"
		if len(w) > 3 {
			data = unhx(w[3])
		}
		if data == "" {
			return false, 0
		}
		key := 0
		if scope != "" && scope != "Workbook" {
			if !c16Valid(scope) {
				return false, 0
			}
			i := b.find(scope)
			if i < 0 {
				return false, 0
			}
			key = b.ents[i].key
		}
		for _, d := range b.defs {
			if d.key == key && d.name == name {
				return false, 0
			}
		}
		b.defs = append(b.defs, c16Def{name, key, data})
		return true, 0
	case "deln":
		name := "dn_" + w[1]
		scope := unhx(w[2])
		key := 0
		if scope != "" && scope != "Workbook" {
			if !c16Valid(scope) {
				return false, 0
			}
			i := b.find(scope)
			if i < 0 {
				return false, 0
			}
			key = b.ents[i].key
		}
		for i, d := range b.defs {
			if d.key == key && d.name == name {
				b.defs = append(b.defs[:i:i], b.defs[i+1:]...)
				return true, 0
			}
		}
		return false, 0
	case "setc":
		n := unhx(w[1])
		v, _ := strconv.Atoi(w[2])
		if !c16Valid(n) {
			return false, 0
		}
		i := b.find(n)
		if i < 0 {
			return false, 0
		}
		b.ents[i].content = v
		return true, 0
	case "save", "reopen":
		return true, 0
	}
	return false, 0
}

func (b *c16Book) obs() string {
	var sb strings.Builder
	sb.WriteString("L=")
	for i, e := range b.ents {
		if i > 0 {
			sb.WriteByte(';')
		}
		fmt.Fprintf(&sb, "%s:%s:%d:%s", hx(e.name), c16b(e.vis), e.content, c16b(e.sel))
	}
	fmt.Fprintf(&sb, " A=%d", b.active)
	return sb.String()
}

func (b *c16Book) defObs() string {
	var xs []string
	for _, d := range b.defs {
		sc := "W"
		if d.key != 0 {
			sc = hx(b.ents[b.follow(d.key)].name)
		}
		xs = append(xs, hx(d.name)+":"+sc)
	}
	return "N=" + strings.Join(xs, ";")
}

func (b *c16Book) textObs() string {
	var xs []string
	for _, d := range b.defs {
		xs = append(xs, hx(d.data))
	}
	return strings.Join(xs, ";")
}

func c16b(v bool) string {
	if v {
		return "1"
	}
	return "0"
}

// ---------------------------------------------------------------- implementation runner

type c16Dump struct {
	raw                      string
	count, active            int
	names                    []string
	ids, rids                []string
	states                   []string
	mapName, mapPart         []string
	partNo, partSel, partVal []string
	pkg, ctypes              []string
	relID, relT              []string
	defName, defLoc          []string
}

func c16Split(s string) []string {
	if s == "" {
		return nil
	}
	return strings.Split(s, ";")
}

func c16ParseDump(raw string) c16Dump {
	d := c16Dump{raw: raw}
	for _, fld := range strings.Split(raw, " ") {
		kv := strings.SplitN(fld, "=", 2)
		if len(kv) != 2 {
			continue
		}
		switch kv[0] {
		case "c":
			d.count, _ = strconv.Atoi(kv[1])
		case "a":
			d.active, _ = strconv.Atoi(kv[1])
		case "S":
			for _, e := range c16Split(kv[1]) {
				p := strings.Split(e, ":")
				d.names = append(d.names, unhx(p[0]))
				d.ids = append(d.ids, p[1])
				d.rids = append(d.rids, p[2])
				d.states = append(d.states, p[3])
			}
		case "M":
			for _, e := range c16Split(kv[1]) {
				p := strings.Split(e, ":")
				d.mapName = append(d.mapName, unhx(p[0]))
				d.mapPart = append(d.mapPart, p[1])
			}
		case "P":
			for _, e := range c16Split(kv[1]) {
				p := strings.Split(e, ":")
				d.partNo = append(d.partNo, p[0])
				d.partSel = append(d.partSel, p[1])
				d.partVal = append(d.partVal, p[2])
			}
		case "K":
			d.pkg = c16Split(kv[1])
		case "T":
			d.ctypes = c16Split(kv[1])
		case "R":
			for _, e := range c16Split(kv[1]) {
				p := strings.Split(e, ":")
				d.relID = append(d.relID, p[0])
				d.relT = append(d.relT, p[1])
			}
		case "D":
			for _, e := range c16Split(kv[1]) {
				p := strings.Split(e, ":")
				d.defName = append(d.defName, unhx(p[0]))
				d.defLoc = append(d.defLoc, p[1])
			}
		}
	}
	return d
}

func (d *c16Dump) selOf(name string) string {
	for i, n := range d.mapName {
		if n == name {
			for j, p := range d.partNo {
				if p == d.mapPart[i] {
					return d.partSel[j]
				}
			}
		}
	}
	return "?"
}

// c16Exec runs one op line on the real library.
func c16Exec(f *xl.File, w []string) (res string) {
	defer func() {
		if p := recover(); p != nil {
			res = "PANIC"
		}
	}()
	e := func(err error) string {
		if err != nil {
			return "ERR"
		}
		return "ok"
	}
	switch w[0] {
	case "new":
		i, err := f.NewSheet(unhx(w[1]))
		if err != nil {
			return "ERR"
		}
		return "ok " + strconv.Itoa(i)
	case "del":
		return e(f.DeleteSheet(unhx(w[1])))
	case "copy":
		a, _ := strconv.Atoi(w[1])
		b, _ := strconv.Atoi(w[2])
		return e(f.CopySheet(a, b))
	case "move":
		return e(f.MoveSheet(unhx(w[1]), unhx(w[2])))
	case "ren":
		return e(f.SetSheetName(unhx(w[1]), unhx(w[2])))
	case "vis":
		if w[3] == "1" {
			return e(f.SetSheetVisible(unhx(w[1]), w[2] == "1", true))
		}
		return e(f.SetSheetVisible(unhx(w[1]), w[2] == "1"))
	case "act":
		i, _ := strconv.Atoi(w[1])
		f.SetActiveSheet(i)
		return "ok"
	case "grp":
		var ns []string
		for _, h := range w[1:] {
			ns = append(ns, unhx(h))
		}
		return e(f.GroupSheets(ns))
	case "ungrp":
		return e(f.UngroupSheets())
	case "defn":
		rt := "1/2"
		if len(w) > 3 {
			rt = unhx(w[3])
		}
		return e(f.SetDefinedName(&xl.DefinedName{Name: "dn_" + w[1], RefersTo: rt, Scope: unhx(w[2])}))
	case "deln":
		return e(f.DeleteDefinedName(&xl.DefinedName{Name: "dn_" + w[1], Scope: unhx(w[2])}))
	case "setc":
		v, _ := strconv.Atoi(w[2])
		if err := f.SetCellInt(unhx(w[1]), "A1", int64(v)); err != nil {
			return "ERR"
		}
		// more content than the modelled token: a second cell whose position depends on the value
		cell, _ := xl.CoordinatesToCellName(2+v%4, 2+v%6)
		return e(f.SetCellInt(unhx(w[1]), cell, int64(v)*3))
	case "save":
		_, err := f.WriteToBuffer()
		return e(err)
	}
	return "bad-op"
}

// c16Observe reads the workbook through the public API only (plus tabSelected from the dump).
func c16Observe(f *xl.File, d *c16Dump) (obs, defs string) {
	defer func() {
		if p := recover(); p != nil {
			obs, defs = "PANIC", "PANIC"
		}
	}()
	var sb strings.Builder
	sb.WriteString("L=")
	for i, n := range f.GetSheetList() {
		if i > 0 {
			sb.WriteByte(';')
		}
		v, _ := f.GetSheetVisible(n)
		c, err := f.GetCellValue(n, "A1")
		if c == "" {
			c = "0"
		}
		if err != nil {
			c = "ERR"
		}
		fmt.Fprintf(&sb, "%s:%s:%s:%s", hx(n), c16b(v), c, d.selOf(n))
	}
	fmt.Fprintf(&sb, " A=%d", f.GetActiveSheetIndex())
	var xs []string
	for i, dn := range f.GetDefinedName() {
		sc := "W"
		if i < len(d.defLoc) && d.defLoc[i] != "-" {
			sc = hx(dn.Scope)
		}
		xs = append(xs, hx(dn.Name)+":"+sc)
	}
	return sb.String(), "N=" + strings.Join(xs, ";")
}

func c16HasDup(xs []string) bool {
	m := map[string]bool{}
	for _, x := range xs {
		if m[x] {
			return true
		}
		m[x] = true
	}
	return false
}

func c16SameSet(a, b []string) bool {
	if len(a) != len(b) {
		return false
	}
	x := append([]string{}, a...)
	y := append([]string{}, b...)
	sort.Strings(x)
	sort.Strings(y)
	for i := range x {
		if x[i] != y[i] {
			return false
		}
	}
	return true
}

// c16Invariants evaluates the property's invariants on the implementation; returns failed clause names.
func c16Invariants(f *xl.File, d *c16Dump) []string {
	var bad []string
	var folded []string
	for _, n := range d.names {
		folded = append(folded, c16Fold(n))
		if !c16Valid(n) {
			bad = append(bad, "names-valid")
		}
	}
	if c16HasDup(folded) {
		bad = append(bad, "names-unique-ci")
	}
	if len(d.names) == 0 || d.active < 0 || d.active >= len(d.names) {
		bad = append(bad, "active-in-range")
	}
	if a := f.GetActiveSheetIndex(); a < 0 || a >= len(d.names) || a != d.active {
		bad = append(bad, "active-index-agrees")
	}
	vis := false
	for _, s := range d.states {
		if s == "v" {
			vis = true
		}
	}
	if !vis {
		bad = append(bad, "some-visible")
	}
	if d.count != len(d.names) {
		bad = append(bad, "sheetcount")
	}
	if c16HasDup(d.ids) {
		bad = append(bad, "ids-unique")
	}
	if c16HasDup(d.rids) {
		bad = append(bad, "rids-unique")
	}
	// sheetMap = {name -> part of the sheet's relationship target}; decoded parts, content types and
	// worksheet relationships are exactly the parts of the listed sheets
	if !c16SameSet(d.mapName, d.names) {
		bad = append(bad, "sheetmap-keys")
	}
	var parts []string
	for i := range d.names {
		tgt := "?"
		for j, r := range d.relID {
			if r == d.rids[i] && strings.HasPrefix(d.relT[j], "w") {
				tgt = d.relT[j][1:]
			}
		}
		parts = append(parts, tgt)
		for k, n := range d.mapName {
			if n == d.names[i] && d.mapPart[k] != tgt {
				bad = append(bad, "sheetmap-part")
			}
		}
	}
	if c16HasDup(parts) {
		bad = append(bad, "parts-unique")
	}
	if !c16SameSet(d.partNo, parts) {
		bad = append(bad, "orphan-or-missing-decoded-part")
	}
	if !c16SameSet(d.ctypes, parts) {
		bad = append(bad, "content-types")
	}
	var wrel []string
	for _, t := range d.relT {
		if strings.HasPrefix(t, "w") {
			wrel = append(wrel, t[1:])
		}
	}
	if !c16SameSet(wrel, parts) {
		bad = append(bad, "workbook-rels")
	}
	for _, k := range d.pkg {
		in := false
		for _, p := range parts {
			if p == k {
				in = true
			}
		}
		if !in {
			bad = append(bad, "stale-package-part")
		}
	}
	for _, l := range d.defLoc {
		if l != "-" {
			if v, _ := strconv.Atoi(l); v < 0 || v >= len(d.names) {
				bad = append(bad, "localsheetid-range")
			}
		}
	}
	// index getters agree with the list
	for i, n := range d.names {
		if j, err := f.GetSheetIndex(n); err != nil || j != i {
			bad = append(bad, "getsheetindex")
		}
		if j, err := f.GetSheetIndex(c16Upper(n)); err != nil || j != i {
			bad = append(bad, "getsheetindex-ci")
		}
		if f.GetSheetName(i) != n {
			bad = append(bad, "getsheetname")
		}
	}
	if m := f.GetSheetMap(); len(m) != len(d.names) {
		bad = append(bad, "getsheetmap")
	}
	return bad
}

// c16Reopen saves to a buffer, reopens and compares the public observation.
func c16Reopen(f *xl.File, want, wantDefs string) string {
	buf, err := f.WriteToBuffer()
	if err != nil {
		return "save-error"
	}
	g, err := xl.OpenReader(buf)
	if err != nil {
		return "open-error"
	}
	defer g.Close()
	d := c16ParseDump(xl.VerifC16Dump(g))
	got, gotDefs := c16Observe(g, &d)
	if got != want {
		return "list"
	}
	if gotDefs != wantDefs {
		return "defined-names"
	}
	return ""
}

// ---------------------------------------------------------------- generator

var c16Base = []string{
	"a", "B", "Data", "Sheet1", "Sheet2", "my sheet", "it's", "Q1-2024", "tab(1)", "x.y", "Ünï", "表", "1", "A1", "R1C1", "TRUE",
	"Workbook", "sheet 2!", "a&b", "<tag>", "\"q\"", "ǂ", "$A$1",
}

func c16Case(r *Rng, s string) string {
	b := []byte(s)
	switch r.Intn(4) {
	case 0:
		return s
	case 1:
		return c16Upper(s)
	case 2:
		return c16Fold(s)
	}
	for i, c := range b {
		if r.Bool() {
			if c >= 'a' && c <= 'z' {
				b[i] = c - 32
			} else if c >= 'A' && c <= 'Z' {
				b[i] = c + 32
			}
		}
	}
	return string(b)
}

func c16Pad(s string, runes int, fill string) string {
	for len([]rune(s)) < runes {
		s += fill
	}
	return string([]rune(s)[:runes])
}

// c16Name draws a valid sheet name from the quantifier's classes.
func c16Name(r *Rng) string {
	switch r.Intn(10) {
	case 0, 1, 2, 3, 4:
		return c16Case(r, r.Pick(c16Base[:8]))
	case 5, 6:
		return c16Case(r, r.Pick(c16Base))
	case 7:
		return c16Case(r, c16Pad(r.Pick([]string{"Long", "long name with spaces ", "L'"}), 31, "abcdefghij"))
	case 8:
		return c16Pad(r.Pick([]string{"表", "数据", "a表"}), r.Pick2([]int{30, 31}), "表")
	}
	return c16Case(r, r.Pick(c16Base[:4])) + strconv.Itoa(r.Intn(3))
}

func c16BadName(r *Rng) string {
	switch r.Intn(8) {
	case 0:
		return ""
	case 1:
		return c16Pad("x", 32, "y")
	case 2:
		return c16Pad("表", 32, "表")
	case 3:
		return "'a"
	case 4:
		return "a'"
	case 5:
		return "a" + string(":\\/?*[]"[r.Intn(7)]) + "b"
	case 6:
		return "'"
	}
	return c16Pad("z", 40+r.Intn(30), "w")
}

type c16Gen struct {
	r    *Rng
	book *c16Book // tracks the predicted list so that the generator can aim at existing sheets
	dead []string // names of deleted sheets (re-creation)
}

func (g *c16Gen) existing() string {
	e := g.book.ents[g.r.Intn(len(g.book.ents))]
	if g.r.Chance(30) {
		return c16Case(g.r, e.name)
	}
	return e.name
}

func (g *c16Gen) boundary() string {
	n := len(g.book.ents)
	switch g.r.Intn(4) {
	case 0:
		return g.book.ents[0].name
	case 1:
		return g.book.ents[n-1].name
	case 2:
		return g.book.ents[g.book.active].name
	}
	return g.existing()
}

func (g *c16Gen) anyName() string {
	switch {
	case g.r.Chance(6):
		return c16BadName(g.r)
	case g.r.Chance(12):
		return c16Name(g.r)
	case len(g.dead) > 0 && g.r.Chance(10):
		return g.r.Pick(g.dead)
	}
	return g.boundary()
}

func (g *c16Gen) idx() int {
	n := len(g.book.ents)
	if g.r.Chance(8) {
		return g.r.Pick2([]int{-1, n, n + 1, 99})
	}
	return g.r.Pick2([]int{0, n - 1, g.book.active, g.r.Intn(n)})
}

// refersTo draws a refers-to text: references to existing / deleted / fresh sheets, bare or quoted,
// names that contain the separators, ranges and lists.
func (g *c16Gen) refersTo() string {
	if g.r.Chance(15) {
		return g.r.Pick([]string{"1/2", "$A$1", "TRUE", "a'b", "''", "x,y", "A1:B2"})
	}
	n := 1 + g.r.Intn(3)
	var parts []string
	for i := 0; i < n; i++ {
		sh := g.anyName()
		if sh == "" {
			sh = "Sheet1"
		}
		if g.r.Chance(15) {
			sh = sh + "x"
		}
		q := g.r.Bool()
		ref := c16Quote(sh, q) + "!" + g.r.Pick([]string{"$A$1", "A1", "$A:$A", "$1:$1", "C3"})
		if g.r.Chance(30) {
			ref += ":" + c16Quote(sh, q) + "!" + g.r.Pick([]string{"$B$2", "D4"})
		}
		parts = append(parts, ref)
	}
	return strings.Join(parts, ",")
}

func (g *c16Gen) next() string {
	n := len(g.book.ents)
	k := g.r.Intn(100)
	switch {
	case k < 18:
		if n >= 8 && g.r.Chance(85) {
			return "del " + hx(g.boundary())
		}
		if len(g.dead) > 0 && g.r.Chance(25) {
			return "new " + hx(c16Case(g.r, g.r.Pick(g.dead)))
		}
		if g.r.Chance(12) {
			return "new " + hx(g.anyName())
		}
		return "new " + hx(c16Name(g.r))
	case k < 34:
		return "del " + hx(g.anyName())
	case k < 42:
		return fmt.Sprintf("copy %d %d", g.idx(), g.idx())
	case k < 54:
		return "move " + hx(g.anyName()) + " " + hx(g.anyName())
	case k < 64:
		t := c16Name(g.r)
		switch g.r.Intn(4) {
		case 0:
			t = c16Case(g.r, g.existing()) // clash or pure case change
		case 1:
			t = g.anyName()
		}
		return "ren " + hx(g.anyName()) + " " + hx(t)
	case k < 78:
		return fmt.Sprintf("vis %s %d %d", hx(g.anyName()), g.r.Intn(3)/2, g.r.Intn(2))
	case k < 85:
		return fmt.Sprintf("act %d", g.idx())
	case k < 89:
		m := g.r.Intn(4)
		xs := []string{"grp"}
		for i := 0; i < m; i++ {
			xs = append(xs, hx(g.anyName()))
		}
		if g.r.Chance(60) {
			xs = append(xs, hx(g.book.ents[g.book.active].name))
		}
		return strings.Join(xs, " ")
	case k < 91:
		return "ungrp"
	case k < 95:
		sc := g.anyName()
		if g.r.Chance(20) {
			sc = ""
		}
		if g.r.Chance(5) {
			sc = "Workbook"
		}
		if g.r.Chance(25) {
			return fmt.Sprintf("deln %d %s", g.r.Intn(4), hx(sc))
		}
		return fmt.Sprintf("defn %d %s %s", g.r.Intn(4), hx(sc), hx(g.refersTo()))
	case k < 98:
		return fmt.Sprintf("setc %s %d", hx(g.anyName()), 1+g.r.Intn(999))
	}
	if g.r.Bool() {
		return "reopen"
	}
	return "save"
}

// deterministic witnesses of the defects repaired in the repository (see known_findings.d/C16.json)
var c16Witnesses = [][]string{
	{"reset", "new 61", "new 42", "ren 61 62", "vis 62 0 0", "vis 42 0 0", "del 62", "del 42"},
	{"reset", "new 61", "new 42", "setc 61 11", "setc 42 22", "ren 61 42", "del 42", "new 43"},
	{"reset", "new 42", "vis 42 0 1", "act 1", "vis 536865657431 0 0"},
	{"reset", "new 42", "new 43", "vis 42 0 0", "vis 43 0 1", "act 1", "vis 536865657431 0 1", "vis 536865657431 0 0"},
	{"reset", "new 42", "vis 42 0 0", "del 536865657431", "new 43", "del 536865657431"},
	{"reset", "new 41", "new 42", "new 43", "defn 0 41", "defn 1 43", "defn 2 536865657431", "move 43 41", "move 536865657431 43", "move 41 536865657431", "del 42", "save"},
	{"reset", "new 576f726b626f6f6b", "defn 0 576f726b626f6f6b", "defn 0 -", "defn 1 6e6f73756368", "new 61", "defn 2 41", "defn 2 61", "defn 2 -", "deln 2 41", "deln 2 41", "deln 0 576f726b626f6f6b", "deln 7 -", "deln 2 6e6f73756368", "defn 2 61", "del 61", "defn 2 61", "deln 2 -", "deln 2 -"},
	// refers-to text under SetSheetName: bare and quoted references, another quoted sheet, a longer name, no-op rename of an absent sheet
	{"reset", "new 782e79", "new 6d79207368656574", "defn 0 - 27782e7927212441243a24422432", "defn 1 782e79 782e7921412c276d79207368656574272124412431", "defn 2 - 782e797a214333",
		"ren 782e79 615f6e", "ren 6e6f6e65 6f74686572", "ren 6d79207368656574 6d79", "del 6d79", "ren 615f6e 782e79"},
	// OPEN FINDING defs-text:lone-quote: the text ' becomes '' on any rename
	{"reset", "new 61", "defn 3 - 27", "ren 61 62"},
	// the active last sheet is deleted, then a sheet is created: bookViews.activeTab must stay inside the list
	{"reset", "new 42", "act 1", "del 42", "new 43", "act 1", "del 43", "del 536865657431", "new 44", "new 45", "act 2", "del 45", "del 44"},
	{"reset", "ren 536865657431 7368656574310a", "ren 536865657431 736865657431", "ren 736865657431 534845455431", "new 736865657431"},
}

// ---------------------------------------------------------------- run

type c16Session struct {
	r       *Run
	f       *xl.File
	book    *c16Book
	hist    []string
	changes int
	fails   int
	maxN    int
	grid    map[int]string // list-model key -> full-grid dump of the sheet as last accepted
}

func (s *c16Session) close() {
	if s.f != nil {
		s.f.Close()
		s.f = nil
	}
}

func (s *c16Session) line(op string) {
	r := s.r
	w := strings.Fields(op)
	if len(w) == 0 {
		return
	}
	if w[0] == "chk" && len(w) == 2 && c16IsHex(w[1]) {
		n := unhx(w[1])
		res := "ok"
		if xl.VerifC16CheckSheetName(n) != nil {
			res = "ERR"
		}
		ln := r.Op(op, res)
		r.Stat("op:chk:" + res)
		if (res == "ok") != c16Valid(n) {
			r.Fail("checkname", fmt.Sprintf("checkSheetName(%q) = %s, the sheet-name rules say valid=%v", n, res, c16Valid(n)), ln, op)
		}
		return
	}
	if w[0] == "calc" && len(w) == 4 && c16IsInt(w[1], false) && c16IsInt(w[2], false) {
		if k, _ := strconv.Atoi(w[1]); k >= 2 && k <= 6 {
			if id, _ := strconv.Atoi(w[2]); id >= 1 && id <= k {
				if ents, ok := c16CalcParse(w[3]); ok {
					s.calc(op, k, id, ents)
					return
				}
			}
		}
	}
	if w[0] == "calcc" && len(w) == 5 && c16IsInt(w[1], false) && c16IsInt(w[2], false) && c16IsInt(w[3], false) {
		k, _ := strconv.Atoi(w[1])
		from, _ := strconv.Atoi(w[2])
		to, _ := strconv.Atoi(w[3])
		if ents, ok := c16CalcParse(w[4]); ok && k >= 2 && k <= 6 && from < k && to < k && from != to {
			s.calcCopy(op, k, from, to, ents)
			return
		}
	}
	if w[0] == "reset" {
		s.close()
		s.f = xl.NewFile()
		s.book = c16NewBook()
		s.hist = []string{"reset"}
		s.changes = 0
		s.fails = 0
		s.maxN = 1
		s.grid = map[int]string{}
		d := c16ParseDump(xl.VerifC16Dump(s.f))
		o, dn := c16Observe(s.f, &d)
		r.Op(op, "ok | "+d.raw+" | "+o+" | "+dn)
		r.Stat("op:reset")
		return
	}
	if s.f == nil {
		s.f = xl.NewFile()
		s.book = c16NewBook()
		s.hist = []string{"reset"}
	}
	if (w[0] == "gidx" && len(w) == 2 && c16IsHex(w[1])) || (w[0] == "gnm" && len(w) == 2 && c16IsInt(w[1], false)) {
		// pure reads: GetSheetIndex / GetSheetName on the current workbook (Lean: index_name_inverse)
		var res, want string
		if w[0] == "gidx" {
			n := unhx(w[1])
			if j, err := s.f.GetSheetIndex(n); err != nil {
				res = "ERR"
			} else {
				res = strconv.Itoa(j)
			}
			want = "ERR"
			if c16Valid(n) {
				want = strconv.Itoa(s.book.find(n))
			}
		} else {
			i, _ := strconv.Atoi(w[1])
			res = "n:" + hx(s.f.GetSheetName(i))
			want = "n:" + hx("")
			if i < len(s.book.ents) {
				want = "n:" + hx(s.book.ents[i].name)
			}
		}
		ln := r.Op(op, res)
		r.Stat("op:" + w[0])
		if res != want && s.fails == 0 {
			s.fails++
			r.Fail("getter:"+w[0], fmt.Sprintf("%s answered %s, the list model expects %s", op, res, want), ln, strings.Join(append(append([]string{}, s.hist...), op), "\n"))
		}
		return
	}
	if !c16WellFormed(w) {
		r.Op(op, "bad-op")
		r.Stat("op:bad-op")
		return
	}
	s.hist = append(s.hist, op)
	before := s.book.obs()
	// frame oracle: which list-model sheets may this call write?
	tgtKey, srcKey := -1, -1
	switch w[0] {
	case "setc":
		if i := s.book.find(unhx(w[1])); i >= 0 && c16Valid(unhx(w[1])) {
			tgtKey = s.book.ents[i].key
		}
	case "copy":
		fi, _ := strconv.Atoi(w[1])
		ti, _ := strconv.Atoi(w[2])
		if fi >= 0 && ti >= 0 && fi != ti && fi < len(s.book.ents) && ti < len(s.book.ents) {
			tgtKey, srcKey = s.book.ents[ti].key, s.book.ents[fi].key
		}
	}
	var res string
	if w[0] == "reopen" {
		// save, open the written bytes, and continue the history on the opened workbook
		res = func() (r string) {
			defer func() {
				if p := recover(); p != nil {
					r = "PANIC"
				}
			}()
			buf, err := s.f.WriteToBuffer()
			if err != nil {
				return "ERR"
			}
			g, err := xl.OpenReader(buf)
			if err != nil {
				return "ERR"
			}
			s.f.Close()
			s.f = g
			return "ok"
		}()
	} else {
		res = c16Exec(s.f, w)
	}
	d := c16ParseDump(xl.VerifC16Dump(s.f))
	obs, defs := c16Observe(s.f, &d)
	ln := r.Op(op, res+" | "+d.raw+" | "+obs+" | "+defs)
	r.Stat("op:" + w[0] + ":" + strings.Fields(res)[0])
	replay := strings.Join(s.hist, "\n")
	// list-model oracle
	ok, idx := s.book.apply(w)
	want := "ERR"
	if ok {
		want = "ok"
		if w[0] == "new" {
			want = "ok " + strconv.Itoa(idx)
		}
	}
	if s.book.obs() != before {
		s.changes++
	}
	if len(s.book.ents) > s.maxN {
		s.maxN = len(s.book.ents)
	}
	if s.fails > 0 {
		// the history already failed: the list model has diverged, later failures would only be echoes
		r.Stat("op-after-failure")
		return
	}
	if res != want {
		s.fails++
		r.Fail("result:"+w[0], fmt.Sprintf("%s returned %s, the list model expects %s", op, res, want), ln, replay)
	}
	if o := s.book.obs(); o != obs {
		s.fails++
		r.Fail("list:"+w[0], fmt.Sprintf("after %s the workbook shows %s, the ordered-list model predicts %s", op, obs, o), ln, replay)
	}
	if o := s.book.defObs(); o != defs {
		s.fails++
		r.Fail("defs:"+w[0], fmt.Sprintf("after %s the defined-name scopes are %s, expected %s", op, defs, o), ln, replay)
	}
	// frame: the full grid (VerifDumpSheet: every row, cell, merge) of every sheet the call does not
	// target is what it was; the target of CopySheet gets the grid of its source
	if s.grid != nil {
		rewritten := w[0] == "save" || w[0] == "reopen" // saving normalises the representation (C02's subject)
		for _, e := range s.book.ents {
			now := xl.VerifDumpSheet(s.f, e.name)
			was, known := s.grid[e.key]
			switch {
			case !known || rewritten || (e.key == tgtKey && w[0] == "setc" && res == "ok"):
			case e.key == tgtKey && w[0] == "copy" && res == "ok":
				if src, ok := s.grid[srcKey]; ok && now != src {
					s.fails++
					r.Fail("frame:copy-differs", fmt.Sprintf("after %s the grid of the copy %q is not the grid of its source", op, e.name), ln, replay)
				}
			default:
				if now != was {
					s.fails++
					r.Fail("frame:"+w[0], fmt.Sprintf("after %s the grid of the untargeted sheet %q changed: %s -> %s", op, e.name, was, now), ln, replay)
				}
			}
			s.grid[e.key] = now
		}
	}
	{
		var xs []string
		for _, dn := range s.f.GetDefinedName() {
			xs = append(xs, hx(dn.RefersTo))
		}
		if got, want := strings.Join(xs, ";"), s.book.textObs(); got != want {
			s.fails++
			sig := "defs-text:" + w[0]
			for _, d := range s.book.defs {
				for _, comp := range strings.FieldsFunc(d.data, func(c rune) bool { return c == ',' || c == ':' || c == '!' }) {
					if comp == "'" {
						sig = "defs-text:lone-quote" // a component that is a single apostrophe
					}
				}
			}
			r.Fail(sig, fmt.Sprintf("after %s the defined names refer to %s, expected %s (hex; only references to the renamed sheet may change)", op, got, want), ln, replay)
		}
	}
	for _, b := range c16Invariants(s.f, &d) {
		s.fails++
		r.Fail("inv:"+b+":"+w[0], fmt.Sprintf("after %s invariant %s fails: %s", op, b, d.raw), ln, replay)
	}
	if res == "PANIC" {
		r.Fail("panic:"+w[0], op+" panicked", ln, replay)
	}
}

type c16CalcEnt struct {
	i int
	r string
}

func c16CalcParse(e string) ([]c16CalcEnt, bool) {
	if e == "-" {
		return nil, true
	}
	var out []c16CalcEnt
	for _, x := range strings.Split(e, ",") {
		p := strings.Split(x, ".")
		if len(p) != 2 || !c16IsInt(p[0], false) || !c16IsHex(p[1]) {
			return nil, false
		}
		i, _ := strconv.Atoi(p[0])
		out = append(out, c16CalcEnt{i, unhx(p[1])})
	}
	return out, true
}

func c16CalcShow(es []c16CalcEnt) string {
	if len(es) == 0 {
		return "nil"
	}
	var xs []string
	for _, e := range es {
		xs = append(xs, strconv.Itoa(e.i)+"."+hx(e.r))
	}
	return strings.Join(xs, ",")
}

// calc: a fresh workbook with k sheets (ids 1..k) gets a calculation chain, the sheet with the given id is
// deleted through the public DeleteSheet, the remaining chain (File.CalcChain) is the answer
// (Lean: deleteCalcChain, calcchain_delete_sheet).  Stateless: the session workbook is not touched.
func (s *c16Session) calc(op string, k, id int, ents []c16CalcEnt) {
	r := s.r
	f := xl.NewFile()
	defer f.Close()
	for j := 2; j <= k; j++ {
		_, _ = f.NewSheet("Sheet" + strconv.Itoa(j))
	}
	name := "Sheet" + strconv.Itoa(id)
	setup := f.GetSheetMap()[id] == name && len(f.GetSheetList()) == k
	var b strings.Builder
	b.WriteString(`<calcChain xmlns="http://schemas.openxmlformats.org/spreadsheetml/2006/main">`)
	for _, e := range ents {
		fmt.Fprintf(&b, `<c r="%s" i="%d"/>`, e.r, e.i)
	}
	b.WriteString(`</calcChain>`)
	// NewFile / OpenReader decode the chain eagerly (file.go, excelize.go): resetting the exported field makes
	// calcChainReader decode the stored part on its next call, as it does for an opened workbook
	f.CalcChain = nil
	f.Pkg.Store("xl/calcChain.xml", []byte(b.String()))
	res := func() (res string) {
		defer func() {
			if recover() != nil {
				res = "PANIC"
			}
		}()
		if err := f.DeleteSheet(name); err != nil {
			return "ERR"
		}
		if f.CalcChain == nil {
			return "nil"
		}
		var got []c16CalcEnt
		for _, c := range f.CalcChain.C {
			got = append(got, c16CalcEnt{c.I, c.R})
		}
		return c16CalcShow(got)
	}()
	ln := r.Op(op, res)
	r.Stat("op:calc:" + map[bool]string{true: "emptied", false: "kept"}[res == "nil"])
	if !setup || len(f.GetSheetList()) != k-1 {
		r.Fail("calc:setup", fmt.Sprintf("%s: the workbook does not have sheet id %d named %s, or DeleteSheet did not remove it", op, id, name), ln, op)
		return
	}
	var want []c16CalcEnt
	for _, e := range ents {
		if !(e.i == id || (e.i == 0 && e.r == "")) {
			want = append(want, e)
		}
	}
	if w := c16CalcShow(want); res != w {
		r.Fail("calc:entries", fmt.Sprintf("%s left the calculation chain %s, expected %s (the entries of the other sheets, in order)", op, res, w), ln, op)
	}
	if _, stale := f.Pkg.Load("xl/calcChain.xml"); res == "nil" && stale {
		r.Fail("calc:stale-part", op+": the chain is empty but xl/calcChain.xml is still in the package", ln, op)
	}
}

// calcc: CopySheet(from, to) on a fresh k-sheet workbook with a calculation chain: copySheet drops the entries
// of the overwritten sheet (Lean: copySheetCalc, calcchain_copy_target).  Stateless.
func (s *c16Session) calcCopy(op string, k, from, to int, ents []c16CalcEnt) {
	r := s.r
	f := xl.NewFile()
	defer f.Close()
	for j := 2; j <= k; j++ {
		_, _ = f.NewSheet("Sheet" + strconv.Itoa(j))
	}
	id := to + 1
	setup := f.GetSheetMap()[id] == f.GetSheetName(to) && len(f.GetSheetList()) == k
	var b strings.Builder
	b.WriteString(`<calcChain xmlns="http://schemas.openxmlformats.org/spreadsheetml/2006/main">`)
	for _, e := range ents {
		fmt.Fprintf(&b, `<c r="%s" i="%d"/>`, e.r, e.i)
	}
	b.WriteString(`</calcChain>`)
	f.CalcChain = nil // see calc
	f.Pkg.Store("xl/calcChain.xml", []byte(b.String()))
	res := func() (res string) {
		defer func() {
			if recover() != nil {
				res = "PANIC"
			}
		}()
		if err := f.CopySheet(from, to); err != nil {
			return "ERR"
		}
		if f.CalcChain == nil {
			return "nil"
		}
		var got []c16CalcEnt
		for _, c := range f.CalcChain.C {
			got = append(got, c16CalcEnt{c.I, c.R})
		}
		return c16CalcShow(got)
	}()
	ln := r.Op(op, res)
	r.Stat("op:calcc:" + map[bool]string{true: "emptied", false: "kept"}[res == "nil"])
	if !setup {
		r.Fail("calc:setup", fmt.Sprintf("%s: sheet index %d does not have id %d", op, to, id), ln, op)
		return
	}
	var want []c16CalcEnt
	for _, e := range ents {
		if !(e.i == id || (e.i == 0 && e.r == "")) {
			want = append(want, e)
		}
	}
	if w := c16CalcShow(want); res != w {
		r.Fail("calc:copy-entries", fmt.Sprintf("%s left the calculation chain %s, expected %s (the entries of every sheet but the target, in order)", op, res, w), ln, op)
	}
}

func (s *c16Session) reopen() {
	if s.f == nil || s.fails > 0 {
		return
	}
	s.line("save")
	d := c16ParseDump(xl.VerifC16Dump(s.f))
	obs, defs := c16Observe(s.f, &d)
	s.r.Stat("reopen")
	if what := c16Reopen(s.f, obs, defs); what != "" {
		s.r.Fail("reopen:"+what, "save + reopen does not give the same "+what+" as before saving: "+obs, 0, strings.Join(s.hist, "\n")+"\nsave")
	}
	// saving must not disturb the bookkeeping (the save itself goes through the transcript as `save`)
}

// c16Quote writes a sheet name the way references do.
func c16Quote(n string, quoted bool) string {
	if quoted {
		return "'" + n + "'"
	}
	return n
}

// c16RenameTextProbe: defined names referring to two sheets, one of them renamed.
func c16RenameTextProbe(r *Run, rng *Rng) {
	pool := []string{"a", "B", "Data", "Sheet2", "my sheet", "Q1-2024", "tab(1)", "x.y", "表", "R1C1"}
	src, other, tgt := rng.Pick(pool), rng.Pick(pool), rng.Pick(pool)+"_n"
	if c16Fold(src) == c16Fold(other) || c16Fold(src) == "sheet1" || c16Fold(other) == "sheet1" {
		return
	}
	f := xl.NewFile()
	defer f.Close()
	f.NewSheet(src)
	f.NewSheet(other)
	type ref struct {
		sheet  string
		quoted bool
		cell   string
	}
	mk := func() ref {
		sh := src
		switch rng.Intn(4) {
		case 0:
			sh = other
		case 1:
			sh = c16Upper(src) + "x" // a longer name containing the source
		}
		return ref{sh, rng.Bool(), rng.Pick([]string{"$A$1", "A1:B2", "$A:$A", "$1:$1", "C3"})}
	}
	render := func(rs []ref, from, to string) string {
		var parts []string
		for _, x := range rs {
			n := x.sheet
			if n == from {
				n = to
			}
			parts = append(parts, c16Quote(n, x.quoted)+"!"+x.cell)
		}
		return strings.Join(parts, ",")
	}
	var all [][]ref
	for k := 0; k < 3; k++ {
		rs := []ref{mk()}
		if rng.Bool() {
			rs = append(rs, mk())
		}
		all = append(all, rs)
		scope := ""
		if k == 1 {
			scope = src
		}
		if err := f.SetDefinedName(&xl.DefinedName{Name: fmt.Sprintf("dn_%d", k), RefersTo: render(rs, "", ""), Scope: scope}); err != nil {
			return
		}
	}
	if err := f.SetSheetName(src, tgt); err != nil {
		return
	}
	r.Stat("probe:rename-text")
	r.Case(fmt.Sprintf("rename-text:%s:%s:%v", src, tgt, all), true)
	got := f.GetDefinedName()
	for k, rs := range all {
		want := render(rs, src, tgt)
		if k >= len(got) || got[k].RefersTo != want {
			g := "<missing>"
			if k < len(got) {
				g = got[k].RefersTo
			}
			r.Fail("rename-defname-text", fmt.Sprintf("sheets %q,%q: after SetSheetName(%q,%q) defined name %d refers to %q, expected %q (was %q)",
				src, other, src, tgt, k, g, want, render(rs, "", "")), 0, fmt.Sprintf("probe rename-text\n# random probe: src=%s other=%s tgt=%s refs=%v", hx(src), hx(other), hx(tgt), all))
			return
		}
		if k == 1 && got[k].Scope != tgt {
			r.Fail("rename-defname-scope", fmt.Sprintf("after SetSheetName(%q,%q) the scope of a name scoped to the renamed sheet is %q", src, tgt, got[k].Scope), 0,
				fmt.Sprintf("# probe rename-text src=%s tgt=%s", hx(src), hx(tgt)))
			return
		}
	}
}

// c16RenameTextFixed is the deterministic witness of the repaired defect "SetSheetName strips the quotes
// of the other quoted sheet names in defined names" (replay line: `probe rename-text`).
func c16RenameTextFixed(r *Run) {
	f := xl.NewFile()
	defer f.Close()
	f.NewSheet("x.y")
	f.NewSheet("my sheet")
	_ = f.SetDefinedName(&xl.DefinedName{Name: "dn_0", RefersTo: "'x.y'!$A$1,'my sheet'!$A$1:'my sheet'!$B$2,x.y!C3"})
	_ = f.SetSheetName("x.y", "a_n")
	r.Stat("probe:rename-text-witness")
	r.Case("rename-text-witness", true)
	want := "'a_n'!$A$1,'my sheet'!$A$1:'my sheet'!$B$2,a_n!C3"
	if got := f.GetDefinedName(); len(got) != 1 || got[0].RefersTo != want {
		g := "<missing>"
		if len(got) == 1 {
			g = got[0].RefersTo
		}
		r.Fail("rename-defname-text", fmt.Sprintf("after SetSheetName(\"x.y\",\"a_n\") the defined name refers to %q, expected %q", g, want), 0, "probe rename-text")
	}
}

func runC16(r *Run, rng *Rng, replay string) {
	r.Rule = "cases = call histories on a fresh workbook + single checkSheetName probes; a history is non-trivial when at least 3 of its calls changed the observable sheet list (order, names, visibility, A1 content, selection or active index), a probe always; distinct = distinct op sequences / distinct probed strings"
	s := &c16Session{r: r}
	defer s.close()
	if replay != "" {
		for _, l := range readLines(replay) {
			l = strings.TrimSpace(l)
			if l == "" || strings.HasPrefix(l, "#") {
				continue
			}
			if l == "probe rename-text" {
				c16RenameTextFixed(r)
				continue
			}
			s.line(l)
		}
		s.reopen()
		r.Case(strings.Join(s.hist, "|"), true)
		return
	}
	// 1. stateless sweep of checkSheetName
	var chk []string
	for _, base := range []string{"", "a", "'", "''", "a'b", "'a", "a'", "Sheet1", " ", "\t", "a\nb"} {
		chk = append(chk, base)
	}
	for n := 29; n <= 33; n++ {
		chk = append(chk, c16Pad("", n, "x"), c16Pad("", n, "表"), c16Pad("é", n, "ü"), c16Pad("'", n, "q"), c16Pad("", n-1, "q")+"'")
	}
	for _, c := range ":\\/?*[]<>|\"'!$&%;,.#@(){}-+=~`^ " {
		chk = append(chk, string(c), "a"+string(c), string(c)+"a", "a"+string(c)+"b", c16Pad("a"+string(c), 31, "z"))
	}
	for i := 0; i < 200; i++ {
		if rng.Bool() {
			chk = append(chk, c16Name(rng))
		} else {
			chk = append(chk, c16BadName(rng))
		}
	}
	for _, n := range chk {
		s.line("chk " + hx(n))
		r.Case("chk:"+n, true)
	}
	// 2. deterministic witnesses
	for _, h := range c16Witnesses {
		for _, l := range h {
			s.line(l)
		}
		s.reopen()
		r.Case(strings.Join(h, "|"), true)
		r.Stat("history:witness")
	}
	// 3. generated histories
	nh := 1500
	if r.Tier == "thorough" {
		nh = 12000
	}
	for h := 0; h < nh; h++ {
		s.line("reset")
		g := &c16Gen{r: rng, book: s.book}
		steps := rng.Pick2([]int{6, 12, 25, 40, 60})
		if h%50 == 0 {
			// grow to 8 sheets first
			for i := 0; i < 7; i++ {
				s.line("new " + hx(c16Name(rng)))
			}
		}
		for i := 0; i < steps; i++ {
			g.book = s.book
			op := g.next()
			w := strings.Fields(op)
			var delName string
			if w[0] == "del" {
				delName = unhx(w[1])
			}
			before := len(s.book.ents)
			s.line(op)
			if delName != "" && len(s.book.ents) < before {
				g.dead = append(g.dead, delName)
			}
			if i%3 == 0 {
				// pure reads compared with the model (no randomness drawn: the histories stay the same):
				// the name the call just used (existing, deleted, fresh or malformed), a listed name in
				// upper case, an index from 0 to len+1
				if len(w) > 1 && c16IsHex(w[1]) && w[0] != "grp" {
					s.line("gidx " + w[1])
				}
				if n := len(s.book.ents); n > 0 {
					s.line("gidx " + hx(c16Upper(s.book.ents[(i/3)%n].name)))
					s.line("gnm " + strconv.Itoa((i/3)%(n+2)))
				}
			}
			if rng.Chance(3) {
				s.reopen()
			}
		}
		s.reopen()
		r.Stat(fmt.Sprintf("history:final-sheets=%d", len(s.book.ents)))
		r.Stat(fmt.Sprintf("history:max-sheets=%d", s.maxN))
		r.Case(strings.Join(s.hist, "|"), s.changes >= 3)
		if h < 3 {
			r.Sample(strings.Join(s.hist, " ; "))
		}
	}
	// 4. oracle-only probe (not modelled in Lean): SetSheetName rewrites the sheet-name components of
	// defined-name references that equal the old name exactly, and nothing else
	np := 150
	if r.Tier == "thorough" {
		np = 1500
	}
	c16RenameTextFixed(r)
	for i := 0; i < np; i++ {
		c16RenameTextProbe(r, rng)
	}
	// 5. calculation chain under DeleteSheet (stateless lines; drawn after everything else so that the
	// histories and probes of a seed are unchanged)
	ncalc := 300
	if r.Tier == "thorough" {
		ncalc = 3000
	}
	calcLines := []string{"calc 2 1 -", "calc 2 2 1." + hx("A1"), "calc 3 2 2." + hx("A1") + ",2." + hx("B2"),
		"calc 3 1 1." + hx("A1") + ",2." + hx("B1") + ",1." + hx("C1") + ",3." + hx("A1"), "calc 2 1 0.-,0." + hx("A1") + ",2.-"}
	for i := 0; i < ncalc; i++ {
		k := 2 + rng.Intn(5)
		id := 1 + rng.Intn(k)
		var es []c16CalcEnt
		for n := rng.Intn(8); n > 0; n-- {
			es = append(es, c16CalcEnt{rng.Intn(k + 2), rng.Pick([]string{"A1", "B2", "C10", "AA7", "A1", ""})})
		}
		e := c16CalcShow(es)
		if len(es) == 0 {
			e = "-"
		}
		calcLines = append(calcLines, fmt.Sprintf("calc %d %d %s", k, id, e))
		if i%2 == 0 {
			// CopySheet(from, to): from = id-1, to = the next index (no extra randomness)
			calcLines = append(calcLines, fmt.Sprintf("calcc %d %d %d %s", k, id-1, id%k, e))
		}
	}
	for _, l := range calcLines {
		s.line(l)
		r.Case(l, true)
	}
	// malformed lines: the driver must answer bad-op
	for _, l := range []string{"new", "new zz", "copy a b", "vis 61", "frobnicate 1", "act x", "setc 61 -3", "defn x 61", "gidx zz", "gnm -1", "gnm 1234567890", "gidx 5368656574", "gnm 0", "gnm 7", "calc 1 1 -", "calc 3 4 -", "calc 7 1 -", "calc 2 1 1", "calc 2 1 x.41", "calc 2 1", "calcc 2 1 1 -", "calcc 3 0 3 -", "calcc 2 0 1"} {
		s.line(l)
	}
	for _, x := range r.opsSample(6) {
		r.Sample(x)
	}
}
