//go:build verif_c17

package main

// C17 — style registry (NewStyle / GetStyle) and three-level style resolution.
// Transcript ops: see lean/XlModel/Drv/C17.lean. One workbook per `reset`.
//
// Direct oracles (independent of the Lean model):
//   stability   after every NewStyle all earlier ids are re-read with GetStyle and compared
//               with what was read when the id was first seen
//   idem        NewStyle of a definition registered before returns the id issued then
//   readback    GetStyle(NewStyle(s)) equals the harness's own default-normalisation of s
//   rereg       GetStyle(NewStyle(GetStyle(id))) equals GetStyle(id)
//   counts      every table's Count field equals the slice length (dumper hook)
//   resolve     GetCellStyle / GetColStyle vs the harness's own three-level model
//   invalid-id  rejected SetCellStyle/SetRowStyle/SetColStyle leave the stored styles unchanged

import (
	"archive/zip"
	"bytes"
	"fmt"
	"io"
	"math"
	"strconv"
	"strings"

	xl "github.com/xuri/excelize/v2"
)

func init() { props["C17"] = runC17 }

// ---------------------------------------------------------------- encoding

func c17Q(x float64, unit float64) string {
	v := x * unit
	if v == math.Trunc(v) && math.Abs(v) < 1e15 {
		return strconv.FormatInt(int64(v), 10)
	}
	return "x" + strconv.FormatUint(math.Float64bits(x), 16)
}

func c17Bit(b bool) string {
	if b {
		return "1"
	}
	return "0"
}

func c17AlignTok(a *xl.Alignment) string {
	if a == nil {
		return "~"
	}
	if *a == (xl.Alignment{}) {
		return "z"
	}
	b2 := func(v bool) int {
		if v {
			return 1
		}
		return 0
	}
	return hx(fmt.Sprintf("%s|%d|%d|%d|%d|%d|%d|%s|%d", a.Horizontal, a.Indent, b2(a.JustifyLastLine), a.ReadingOrder, a.RelativeIndent, b2(a.ShrinkToFit), a.TextRotation, a.Vertical, b2(a.WrapText)))
}

func c17AlignFromTok(t string) *xl.Alignment {
	if t == "~" {
		return nil
	}
	if t == "z" {
		return &xl.Alignment{}
	}
	p := strings.Split(unhx(t), "|")
	if len(p) != 9 {
		return &xl.Alignment{Horizontal: "?" + t}
	}
	at := func(i int) int { n, _ := strconv.Atoi(p[i]); return n }
	ro, _ := strconv.ParseUint(p[3], 10, 64)
	return &xl.Alignment{Horizontal: p[0], Indent: at(1), JustifyLastLine: at(2) == 1, ReadingOrder: ro, RelativeIndent: at(4), ShrinkToFit: at(5) == 1, TextRotation: at(6), Vertical: p[7], WrapText: at(8) == 1}
}

func c17EncStyle(s *xl.Style) string {
	f := "~"
	if s.Font != nil {
		t := s.Font
		th := "~"
		if t.ColorTheme != nil {
			th = strconv.Itoa(*t.ColorTheme)
		}
		f = strings.Join([]string{c17Bit(t.Bold), c17Bit(t.Italic), c17Bit(t.Strike), hx(t.Underline), hx(t.Family), c17Q(t.Size, 4), hx(t.Color), strconv.Itoa(t.ColorIndexed), th, c17Q(t.ColorTint, 8), hx(t.VertAlign)}, ",")
	}
	cols := "~"
	if len(s.Fill.Color) > 0 {
		cs := make([]string, len(s.Fill.Color))
		for i, c := range s.Fill.Color {
			cs[i] = hx(c)
		}
		cols = strings.Join(cs, "+")
	}
	l := fmt.Sprintf("%s,%d,%d,%s", hx(s.Fill.Type), s.Fill.Pattern, s.Fill.Shading, cols)
	b := "~"
	if len(s.Border) > 0 {
		bs := make([]string, len(s.Border))
		for i, x := range s.Border {
			bs[i] = fmt.Sprintf("%s,%s,%d", hx(x.Type), hx(x.Color), x.Style)
		}
		b = strings.Join(bs, ";")
	}
	p := "~"
	if s.Protection != nil {
		p = c17Bit(s.Protection.Hidden) + c17Bit(s.Protection.Locked)
	}
	d := "~"
	if s.DecimalPlaces != nil {
		d = strconv.Itoa(*s.DecimalPlaces)
	}
	c := "~"
	if s.CustomNumFmt != nil {
		c = hx(*s.CustomNumFmt)
	}
	return fmt.Sprintf("F=%s L=%s B=%s A=%s P=%s N=%d D=%s C=%s R=%s", f, l, b, c17AlignTok(s.Alignment), p, s.NumFmt, d, c, c17Bit(s.NegRed))
}

func c17DecStyle(w []string) (*xl.Style, bool) {
	if len(w) != 9 {
		return nil, false
	}
	get := func(i int, pfx string) string { return strings.TrimPrefix(w[i], pfx) }
	atoi := func(s string) int { n, _ := strconv.Atoi(s); return n }
	s := &xl.Style{}
	if v := get(0, "F="); v != "~" {
		p := strings.Split(v, ",")
		if len(p) != 11 {
			return nil, false
		}
		ft := &xl.Font{Bold: p[0] == "1", Italic: p[1] == "1", Strike: p[2] == "1", Underline: unhx(p[3]), Family: unhx(p[4]),
			Size: float64(atoi(p[5])) / 4, Color: unhx(p[6]), ColorIndexed: atoi(p[7]), ColorTint: float64(atoi(p[9])) / 8, VertAlign: unhx(p[10])}
		if p[8] != "~" {
			t := atoi(p[8])
			ft.ColorTheme = &t
		}
		s.Font = ft
	}
	{
		p := strings.Split(get(1, "L="), ",")
		if len(p) != 4 {
			return nil, false
		}
		s.Fill = xl.Fill{Type: unhx(p[0]), Pattern: atoi(p[1]), Shading: atoi(p[2])}
		if p[3] != "~" {
			for _, c := range strings.Split(p[3], "+") {
				s.Fill.Color = append(s.Fill.Color, unhx(c))
			}
		}
	}
	if v := get(2, "B="); v != "~" {
		for _, e := range strings.Split(v, ";") {
			p := strings.Split(e, ",")
			if len(p) != 3 {
				return nil, false
			}
			s.Border = append(s.Border, xl.Border{Type: unhx(p[0]), Color: unhx(p[1]), Style: atoi(p[2])})
		}
	}
	s.Alignment = c17AlignFromTok(get(3, "A="))
	if v := get(4, "P="); v != "~" && len(v) == 2 {
		s.Protection = &xl.Protection{Hidden: v[0] == '1', Locked: v[1] == '1'}
	}
	s.NumFmt = atoi(get(5, "N="))
	if v := get(6, "D="); v != "~" {
		d := atoi(v)
		s.DecimalPlaces = &d
	}
	if v := get(7, "C="); v != "~" {
		c := unhx(v)
		s.CustomNumFmt = &c
	}
	s.NegRed = get(8, "R=") == "1"
	return s, true
}

// equality of definitions: a zero-valued Alignment and no Alignment are the same formatting
func c17Canon(enc string) string { return strings.Replace(enc, " A=z ", " A=~ ", 1) }

// ---------------------------------------------------------------- harness-side specification

func c17WellFormedColor(c string) bool {
	c = strings.ReplaceAll(c, "#", "")
	if len(c) != 6 {
		return false
	}
	for _, ch := range c {
		if !strings.ContainsRune("0123456789abcdefABCDEF", ch) {
			return false
		}
	}
	return true
}

func c17NormColor(c string, emptyDefault string, exact *bool) string {
	if c == "" {
		return emptyDefault
	}
	if !c17WellFormedColor(c) {
		*exact = false
	}
	return strings.ReplaceAll(strings.ToUpper(c), "#", "")
}

func c17CurrencyCode(code string, s *xl.Style) string {
	if s.DecimalPlaces != nil {
		dp := "0"
		if *s.DecimalPlaces > 0 {
			dp += "." + strings.Repeat("0", *s.DecimalPlaces)
		}
		code = strings.ReplaceAll(code, "0.00", dp)
	}
	if s.NegRed {
		code = code + ";[Red]" + code
	}
	return code
}

func c17CurrencyIDOf(code string) int {
	for id := 164; id < 700; id++ {
		c, ok := xl.VerifC17CurrencyNumFmt(id)
		if !ok {
			continue
		}
		if strings.Contains(code, ";[Red]") {
			c = c + ";[Red]" + c
		}
		if c == code {
			return id
		}
	}
	return 0
}

func c17IsLang(id int) bool { return (27 <= id && id <= 36) || (50 <= id && id <= 62) || (67 <= id && id <= 81) }

// c17Normalize is the harness's own statement of what GetStyle(NewStyle(s)) must report on a
// workbook made by NewFile(): s with the library's documented defaults applied. exact=false
// when s carries a malformed colour (no expectation is checked then).
func c17Normalize(s *xl.Style, dec func(string) int) (xl.Style, bool) {
	exact := true
	var e xl.Style
	one := 1
	if s.Font == nil {
		e.Font = &xl.Font{Family: "Calibri", Size: 11, ColorTheme: &one}
	} else {
		f := *s.Font
		if f.Size < 1 {
			f.Size = 11
		}
		if f.Family == "" {
			f.Family = "Calibri"
		}
		if f.Underline != "none" && f.Underline != "single" && f.Underline != "double" {
			f.Underline = ""
		}
		f.Color = c17NormColor(f.Color, "", &exact)
		if f.ColorIndexed < 0 || f.ColorIndexed > len(xl.IndexedColorMapping)+1 {
			f.ColorIndexed = 0
		}
		f.VertAlign = ""
		e.Font = &f
	}
	switch {
	case s.Fill.Type == "pattern" && s.Fill.Pattern >= 0 && s.Fill.Pattern <= 18:
		e.Fill = xl.Fill{Type: "pattern", Pattern: s.Fill.Pattern}
		if len(s.Fill.Color) > 0 {
			e.Fill.Color = []string{c17NormColor(s.Fill.Color[0], "000000", &exact)}
		}
	case s.Fill.Type == "gradient" && len(s.Fill.Color) == 2 && s.Fill.Shading >= 0 && s.Fill.Shading <= 16:
		e.Fill = xl.Fill{Type: "gradient", Shading: s.Fill.Shading, Color: []string{c17NormColor(s.Fill.Color[0], "000000", &exact), c17NormColor(s.Fill.Color[1], "000000", &exact)}}
	default: // no fill, unknown type, out-of-range pattern, malformed gradient: no fill is created
		e.Fill = xl.Fill{Type: "pattern"}
	}
	// borders: last entry of a kind wins, the diagonal line is shared, fixed read order
	slots := map[string]*xl.Border{}
	var diag *xl.Border
	up, down := false, false
	for i := range s.Border {
		b := s.Border[i]
		if b.Style < 0 || b.Style >= 14 {
			continue
		}
		nb := xl.Border{Type: b.Type, Style: b.Style, Color: c17NormColor(b.Color, "000000", &exact)}
		switch b.Type {
		case "left", "right", "top", "bottom":
			slots[b.Type] = &nb
		case "diagonalUp":
			diag, up = &nb, true
		case "diagonalDown":
			diag, down = &nb, true
		}
	}
	for _, t := range []string{"left", "right", "top", "bottom"} {
		if b := slots[t]; b != nil {
			e.Border = append(e.Border, *b)
		}
	}
	if up {
		e.Border = append(e.Border, xl.Border{Type: "diagonalUp", Color: diag.Color, Style: diag.Style})
	}
	if down {
		e.Border = append(e.Border, xl.Border{Type: "diagonalDown", Color: diag.Color, Style: diag.Style})
	}
	e.Alignment = s.Alignment
	e.Protection = s.Protection
	setDec := func(code string) {
		if d := dec(code); d != -1 {
			e.DecimalPlaces = &d
		}
	}
	cl := *s
	if cl.DecimalPlaces != nil && (*cl.DecimalPlaces < 0 || *cl.DecimalPlaces > 30) {
		two := 2
		cl.DecimalPlaces = &two
	}
	if s.CustomNumFmt != nil {
		c := *s.CustomNumFmt
		e.CustomNumFmt = &c
		e.NegRed = strings.Contains(c, ";[Red]")
		e.NumFmt = c17CurrencyIDOf(c)
		setDec(c)
	} else if code, ok := xl.VerifC17BuiltInNumFmt(s.NumFmt); ok {
		e.NumFmt = s.NumFmt
		setDec(code)
	} else if c17IsLang(s.NumFmt) {
		e.NumFmt = s.NumFmt
		setDec("")
	} else if code, ok := xl.VerifC17CurrencyNumFmt(s.NumFmt); ok {
		c := c17CurrencyCode(code, &cl)
		e.CustomNumFmt = &c
		e.NegRed = s.NegRed
		e.NumFmt = c17CurrencyIDOf(c)
		setDec(c)
	} else {
		setDec("general")
	}
	return e, exact
}

func c17IdemClass(s *xl.Style) string {
	dp := s.DecimalPlaces
	if dp != nil && (*dp < 0 || *dp > 30) {
		two := 2
		dp = &two
	}
	_, builtin := xl.VerifC17BuiltInNumFmt(s.NumFmt)
	_, cur := xl.VerifC17CurrencyNumFmt(s.NumFmt)
	inRange := (27 <= s.NumFmt && s.NumFmt <= 36) || (50 <= s.NumFmt && s.NumFmt <= 81)
	switch {
	case s.Fill.Type != "" && s.Fill.Type != "pattern" && s.Fill.Type != "gradient":
		return "idem:fill-unknown-type"
	case s.CustomNumFmt == nil && 63 <= s.NumFmt && s.NumFmt <= 66:
		return "idem:numfmt-63-66"
	case (s.NegRed || (dp != nil && *dp != 2)) && (s.CustomNumFmt != nil || builtin || inRange || cur):
		return "idem:numfmt-negred-or-decimal"
	}
	if s.Fill.Type == "pattern" && s.Fill.Pattern == 0 && len(s.Fill.Color) == 0 {
		return "idem:component-index-0"
	}
	if f := s.Font; f != nil && !f.Bold && !f.Italic && !f.Strike && f.Underline != "none" && f.Underline != "single" && f.Underline != "double" &&
		(f.Family == "" || f.Family == "Calibri") && (f.Size < 1 || f.Size == 11) && f.Color == "" && f.ColorIndexed == 0 &&
		f.ColorTheme != nil && *f.ColorTheme == 1 && f.ColorTint == 0 {
		return "idem:component-index-0"
	}
	return "idem:other"
}

// ---------------------------------------------------------------- per-workbook state

type c17Key struct{ c, r int }

type c17WB struct {
	f         *xl.File
	lines     []string       // ops of this workbook (replay text)
	firstRead map[int]string // id -> canonical definition when first seen
	firstLine map[int]int
	issued    map[string]int // encoded request -> id first returned
	noColOracle bool          // <cols> of the opened file overlap: GetColStyle / GetCellStyle follow different entries
	loose     bool            // opened from a file whose count attributes differ from the element counts
	prevCnt   map[string][2]int
	dupCur    map[string]bool // request is a plain currency format whose code was already in numFmts when first registered
	nxf       int
	cell      map[c17Key]int
	row       map[int]int
	col       map[int]int
	created   int
}

type c17H struct {
	r        *Run
	wb       *c17WB
	declared map[string]bool
}

func (h *c17H) replay() string { return strings.Join(h.wb.lines, "\n") }

func (h *c17H) op(line, res string) int {
	h.wb.lines = append(h.wb.lines, line)
	h.r.Stat("op:" + strings.Fields(line)[0])
	return h.r.Op(line, res)
}

func (h *c17H) dec(code string) int { return xl.VerifC17NumFmtDecimal(h.wb.f, code) }

func (h *c17H) declare(code string) {
	if h.declared[code] {
		return
	}
	h.declared[code] = true
	h.r.Op(fmt.Sprintf("decl %s %d", hx(code), h.dec(code)), "ok")
}

func (h *c17H) declareNew() {
	for _, c := range xl.VerifC17NumFmtCodes(h.wb.f) {
		h.declare(c)
	}
}

func c17Counts(f *xl.File) (string, int, bool) {
	s := xl.VerifC17Counts(f)
	ok := true
	nxf := 0
	for _, w := range strings.Fields(s) {
		kv := strings.SplitN(w, "=", 2)
		if kv[1] == "~" {
			continue
		}
		p := strings.Split(kv[1], "/")
		if len(p) != 2 || p[0] != p[1] {
			ok = false
		}
		if kv[0] == "xfs" {
			nxf, _ = strconv.Atoi(p[0])
		}
	}
	return s, nxf, ok
}

// c17XfNumFmtID reads the numFmtId of cellXfs[id] from the table dump (-1 if absent).
func c17XfNumFmtID(f *xl.File, id int) int {
	d := xl.VerifC17DumpStyles(f)
	i := strings.Index(d, "xfs=")
	if i < 0 {
		return -1
	}
	j := strings.Index(d[i:], ":[")
	if j < 0 {
		return -1
	}
	xfs := strings.Split(strings.TrimSuffix(d[i+j+2:], "]"), ";")
	if id < 0 || id >= len(xfs) {
		return -1
	}
	n, err := strconv.Atoi(strings.SplitN(xfs[id], ".", 2)[0])
	if err != nil {
		return -1
	}
	return n
}

func (h *c17H) getEnc(id int) (string, bool) {
	var st *xl.Style
	var err error
	func() {
		defer func() {
			if p := recover(); p != nil {
				err = fmt.Errorf("panic: %v", p)
			}
		}()
		st, err = h.wb.f.GetStyle(id)
	}()
	if err != nil || st == nil {
		return "ERR", false
	}
	return c17EncStyle(st), true
}

// c17OpenWithCounts builds a workbook as a consumer would receive it from another producer: the
// package of NewFile() with the count attributes of xl/styles.xml rewritten, opened with OpenReader.
func c17OpenWithCounts(fonts, fills, borders, xfs int) (*xl.File, error) {
	f := xl.NewFile()
	buf, err := f.WriteToBuffer()
	f.Close()
	if err != nil {
		return nil, err
	}
	zr, err := zip.NewReader(bytes.NewReader(buf.Bytes()), int64(buf.Len()))
	if err != nil {
		return nil, err
	}
	var out bytes.Buffer
	zw := zip.NewWriter(&out)
	for _, zf := range zr.File {
		rc, err := zf.Open()
		if err != nil {
			return nil, err
		}
		data, _ := io.ReadAll(rc)
		rc.Close()
		if zf.Name == "xl/styles.xml" {
			x := string(data)
			for _, rp := range [][2]string{
				{`<fonts count="1"`, fmt.Sprintf(`<fonts count="%d"`, fonts)},
				{`<fills count="2"`, fmt.Sprintf(`<fills count="%d"`, fills)},
				{`<borders count="1"`, fmt.Sprintf(`<borders count="%d"`, borders)},
				{`<cellXfs count="1"`, fmt.Sprintf(`<cellXfs count="%d"`, xfs)},
			} {
				if !strings.Contains(x, rp[0]) {
					return nil, fmt.Errorf("styles.xml: %s not found", rp[0])
				}
				x = strings.Replace(x, rp[0], rp[1], 1)
			}
			data = []byte(x)
		}
		w, err := zw.Create(zf.Name)
		if err != nil {
			return nil, err
		}
		w.Write(data)
	}
	zw.Close()
	return xl.OpenReader(bytes.NewReader(out.Bytes()))
}

func (h *c17H) doResetCounts(line string, a []int) {
	if h.wb != nil && h.wb.f != nil {
		h.wb.f.Close()
	}
	f, err := c17OpenWithCounts(a[0], a[1], a[2], a[3])
	must(err)
	h.wb = &c17WB{f: f, loose: true, firstRead: map[int]string{}, firstLine: map[int]int{}, issued: map[string]int{}, dupCur: map[string]bool{}, cell: map[c17Key]int{}, row: map[int]int{}, col: map[int]int{}}
	ln := h.op(line, "ok "+xl.VerifC17DumpStyles(f))
	counts, nxf, _ := c17Counts(f)
	h.wb.nxf = nxf
	h.wb.prevCnt = c17ParseCounts(counts)
	h.r.Stat("case:count-attributes-differ")
	for id := 0; id < nxf; id++ {
		if e, ok := h.getEnc(id); ok {
			h.wb.firstRead[id] = c17Canon(e)
			h.wb.firstLine[id] = ln
		}
	}
}

// c17OpenWithCols reopens NewFile()'s package with a <cols> element holding the given range entries.
func c17OpenWithCols(ranges [][3]int) (*xl.File, error) {
	f := xl.NewFile()
	buf, err := f.WriteToBuffer()
	f.Close()
	if err != nil {
		return nil, err
	}
	zr, err := zip.NewReader(bytes.NewReader(buf.Bytes()), int64(buf.Len()))
	if err != nil {
		return nil, err
	}
	var cols strings.Builder
	cols.WriteString("<cols>")
	for _, r := range ranges {
		fmt.Fprintf(&cols, `<col min="%d" max="%d" width="9.14" style="%d"/>`, r[0], r[1], r[2])
	}
	cols.WriteString("</cols>")
	var out bytes.Buffer
	zw := zip.NewWriter(&out)
	for _, zf := range zr.File {
		rc, err := zf.Open()
		if err != nil {
			return nil, err
		}
		data, _ := io.ReadAll(rc)
		rc.Close()
		if zf.Name == "xl/worksheets/sheet1.xml" {
			x := string(data)
			if !strings.Contains(x, "<sheetData") {
				return nil, fmt.Errorf("sheet1.xml: no sheetData")
			}
			data = []byte(strings.Replace(x, "<sheetData", cols.String()+"<sheetData", 1))
		}
		w, err := zw.Create(zf.Name)
		if err != nil {
			return nil, err
		}
		w.Write(data)
	}
	zw.Close()
	return xl.OpenReader(bytes.NewReader(out.Bytes()))
}

func c17ParseCols(spec string) [][3]int {
	var out [][3]int
	for _, e := range strings.Split(spec, ";") {
		var a, b, st int
		if n, _ := fmt.Sscanf(e, "%d-%d:%d", &a, &b, &st); n == 3 {
			out = append(out, [3]int{a, b, st})
		}
	}
	return out
}

func (h *c17H) doResetCols(line, spec string) {
	if h.wb != nil && h.wb.f != nil {
		h.wb.f.Close()
	}
	ranges := c17ParseCols(spec)
	f, err := c17OpenWithCols(ranges)
	must(err)
	h.wb = &c17WB{f: f, firstRead: map[int]string{}, firstLine: map[int]int{}, issued: map[string]int{}, dupCur: map[string]bool{}, cell: map[c17Key]int{}, row: map[int]int{}, col: map[int]int{}}
	ln := h.op(line, "ok "+xl.VerifC17DumpGrid(f, "Sheet1"))
	_, nxf, _ := c17Counts(f)
	h.wb.nxf = nxf
	h.r.Stat("case:cols-with-ranges")
	// the column level of the file: the first covering entry with a non-zero style
	for c := 1; c <= 40; c++ {
		for _, r := range ranges {
			if r[0] <= c && c <= r[1] && r[2] != 0 {
				h.wb.col[c] = r[2]
				break
			}
		}
	}
	for i := range ranges {
		for j := i + 1; j < len(ranges); j++ {
			if !(ranges[i][1] < ranges[j][0] || ranges[j][1] < ranges[i][0]) {
				h.wb.noColOracle = true
			}
		}
	}
	for id := 0; id < nxf; id++ {
		if e, ok := h.getEnc(id); ok {
			h.wb.firstRead[id] = c17Canon(e)
			h.wb.firstLine[id] = ln
		}
	}
}

func (h *c17H) doReset() {
	if h.wb != nil && h.wb.f != nil {
		h.wb.f.Close()
	}
	h.wb = &c17WB{f: xl.NewFile(), firstRead: map[int]string{}, firstLine: map[int]int{}, issued: map[string]int{}, dupCur: map[string]bool{}, cell: map[c17Key]int{}, row: map[int]int{}, col: map[int]int{}}
	ln := h.op("reset", "ok "+xl.VerifC17DumpStyles(h.wb.f))
	_, nxf, _ := c17Counts(h.wb.f)
	h.wb.nxf = nxf
	// environment: decimals of the codes GetStyle can consult
	if !h.declared["\x00init"] {
		h.declared["\x00init"] = true
		h.declare("")
		for id := 0; id < 64; id++ {
			if c, ok := xl.VerifC17BuiltInNumFmt(id); ok {
				h.declare(c)
			}
		}
	}
	for id := 0; id < nxf; id++ {
		if e, ok := h.getEnc(id); ok {
			h.wb.firstRead[id] = c17Canon(e)
			h.wb.firstLine[id] = ln
		}
	}
}

// after a registry operation: counts oracle, stability oracle, bookkeeping of new ids
// c17ParseCounts reads "name=len/count ..." into a map.
func c17ParseCounts(s string) map[string][2]int {
	m := map[string][2]int{}
	for _, w := range strings.Fields(s) {
		kv := strings.SplitN(w, "=", 2)
		p := strings.Split(kv[1], "/")
		if len(p) != 2 {
			continue
		}
		a, _ := strconv.Atoi(p[0])
		b, _ := strconv.Atoi(p[1])
		m[kv[0]] = [2]int{a, b}
	}
	return m
}

func (h *c17H) afterRegistryOp(ln int, counts string, nxf int, cok bool) {
	if h.wb.loose {
		// count attributes were wrong when the file was opened: a table that grew must have Count = len,
		// a table that did not grow keeps its Count
		cur := c17ParseCounts(counts)
		for k, v := range cur {
			pv, seen := h.wb.prevCnt[k]
			h.r.Stat("counts:loose-checked")
			if seen && !(v == pv || v[0] == v[1]) {
				h.r.Fail("counts:not-repaired", fmt.Sprintf("table %s went from len/Count %d/%d to %d/%d: an appended table must get Count = len, an untouched one keeps its Count", k, pv[0], pv[1], v[0], v[1]), ln, h.replay())
			}
		}
		h.wb.prevCnt = cur
	} else if !cok {
		h.r.Fail("counts", "a style table's Count field differs from its length: "+counts, ln, h.replay())
	}
	h.declareNew()
	for id := 0; id < h.wb.nxf; id++ {
		e, ok := h.getEnc(id)
		h.r.Stat("stability:reread")
		if !ok || c17Canon(e) != h.wb.firstRead[id] {
			h.r.Fail("stability", fmt.Sprintf("GetStyle(%d) changed after a later NewStyle: first %q now %q", id, h.wb.firstRead[id], e), ln, h.replay())
		}
	}
	for id := h.wb.nxf; id < nxf; id++ {
		if e, ok := h.getEnc(id); ok {
			h.wb.firstRead[id] = c17Canon(e)
			h.wb.firstLine[id] = ln
		}
		h.wb.created++
	}
	h.wb.nxf = nxf
}

func (h *c17H) doNew(line string, w []string) {
	s, ok := c17DecStyle(w)
	if !ok {
		h.op(line, "bad-op")
		return
	}
	req, _ := c17DecStyle(w) // untouched copy of the request (NewStyle mutates its argument)
	codesBefore := xl.VerifC17NumFmtCodes(h.wb.f)
	var id int
	var err error
	func() {
		defer func() {
			if p := recover(); p != nil {
				err = fmt.Errorf("PANIC")
			}
		}()
		id, err = h.wb.f.NewStyle(s)
	}()
	if err != nil {
		res := "ERR"
		if err.Error() == "PANIC" {
			res = "PANIC"
		}
		h.op(line, res)
		h.r.Stat("new:rejected")
		return
	}
	counts, nxf, cok := c17Counts(h.wb.f)
	sz, dp := "~", "~"
	if s.Font != nil {
		sz = c17Q(s.Font.Size, 4)
	}
	if s.DecimalPlaces != nil {
		dp = strconv.Itoa(*s.DecimalPlaces)
	}
	ln := h.op(line, fmt.Sprintf("ok %d sz=%s dp=%s %s", id, sz, dp, counts))
	if nxf > h.wb.nxf {
		h.r.Stat("new:created")
	} else {
		h.r.Stat("new:found")
	}
	h.afterRegistryOp(ln, counts, nxf, cok)
	key := strings.Join(w, " ")
	// idempotence
	if prev, seen := h.wb.issued[key]; seen {
		h.r.Stat("idem:checked")
		if prev != id {
			sig := c17IdemClass(req)
			if (sig == "idem:other" || sig == "idem:component-index-0") && h.wb.dupCur[key] {
				sig = "idem:currency-duplicate-code"
			}
			h.r.Fail(sig, fmt.Sprintf("NewStyle of a definition registered before returned id %d, first registration returned %d: %s", id, prev, key), ln, h.replay())
		}
	} else {
		h.wb.issued[key] = id
		if code, cur := xl.VerifC17CurrencyNumFmt(req.NumFmt); cur && req.CustomNumFmt == nil {
			cl := *req
			if cl.DecimalPlaces != nil && (*cl.DecimalPlaces < 0 || *cl.DecimalPlaces > 30) {
				two := 2
				cl.DecimalPlaces = &two
			}
			want := c17CurrencyCode(code, &cl)
			for _, c := range codesBefore {
				if c == want {
					h.wb.dupCur[key] = true
				}
			}
		}
	}
	// read back
	if got, ok := h.getEnc(id); ok {
		exp, exact := c17Normalize(req, h.dec)
		h.r.Stat("readback:checked")
		if !exact {
			h.r.Stat("readback:malformed-colour-skipped")
		} else if c17Canon(got) != c17Canon(c17EncStyle(&exp)) {
			sig := "readback:other"
			if req.Fill.Type == "gradient" && len(req.Fill.Color) == 2 && (req.Fill.Shading == 2 || req.Fill.Shading == 5 || req.Fill.Shading == 8 || req.Fill.Shading == 11) {
				sig = "readback:gradient-3stop"
			} else if _, cur := xl.VerifC17CurrencyNumFmt(req.NumFmt); cur && req.CustomNumFmt == nil && nxf == h.wb.nxf {
				// an existing xf was returned for a currency request: did its numFmtId merely equal the requested id?
				gs, _ := h.wb.f.GetStyle(id)
				if gs != nil && gs.CustomNumFmt != nil && exp.CustomNumFmt != nil && *gs.CustomNumFmt != *exp.CustomNumFmt {
					sig = "readback:currency-id-collision"
					if c17XfNumFmtID(h.wb.f, id) != req.NumFmt {
						// not found through the raw id: the xf of another DecimalPlaces/NegRed variant of the
						// same currency format was returned through the format-code lookup
						sig = "readback:currency-variant-folded"
					}
				}
			}
			h.r.Fail(sig, fmt.Sprintf("GetStyle(NewStyle(s)) = %q, default-normalised s = %q", got, c17EncStyle(&exp)), ln, h.replay())
		}
	} else {
		h.r.Fail("readback:error", fmt.Sprintf("GetStyle(%d) of a just issued id fails", id), ln, h.replay())
	}
}

// doNorm compares the Lean Spec's font / fill normal forms with the harness's own c17Normalize.
func (h *c17H) doNorm(line string, w []string) {
	req, ok := c17DecStyle(w)
	if !ok {
		h.op(line, "bad-op")
		return
	}
	exp, _ := c17Normalize(req, h.dec)
	f, l := "~", "~"
	if req.Font != nil {
		f = strings.TrimPrefix(strings.Fields(c17EncStyle(&xl.Style{Font: exp.Font}))[0], "F=")
	}
	validFill := (req.Fill.Type == "pattern" && req.Fill.Pattern >= 0 && req.Fill.Pattern <= 18) ||
		(req.Fill.Type == "gradient" && len(req.Fill.Color) == 2 && req.Fill.Shading >= 0 && req.Fill.Shading <= 16)
	if validFill {
		l = strings.TrimPrefix(strings.Fields(c17EncStyle(&xl.Style{Fill: exp.Fill}))[1], "L=")
	}
	h.op(line, "F="+f+" L="+l)
}

func (h *c17H) doGet(line string, id int) {
	e, ok := h.getEnc(id)
	if ok {
		h.op(line, "ok "+e)
	} else {
		h.op(line, "ERR")
		if id >= 0 && id < h.wb.nxf {
			h.r.Fail("get:valid-id-rejected", fmt.Sprintf("GetStyle(%d) fails for an issued id", id), 0, h.replay())
		}
	}
}

func (h *c17H) doRereg(line string, id int) {
	g, err := h.wb.f.GetStyle(id)
	if err != nil || g == nil {
		h.op(line, "ERR")
		return
	}
	genc := c17EncStyle(g)
	var id2 int
	func() {
		defer func() {
			if p := recover(); p != nil {
				err = fmt.Errorf("PANIC")
			}
		}()
		id2, err = h.wb.f.NewStyle(g)
	}()
	if err != nil {
		h.op(line, "ERR")
		h.r.Fail("rereg:rejected", fmt.Sprintf("NewStyle(GetStyle(%d)) fails: %v", id, err), 0, h.replay())
		return
	}
	counts, nxf, cok := c17Counts(h.wb.f)
	ln := h.op(line, fmt.Sprintf("ok %d %s", id2, counts))
	h.afterRegistryOp(ln, counts, nxf, cok)
	h.r.Stat("rereg:checked")
	g2, ok := h.getEnc(id2)
	if !ok || c17Canon(g2) != c17Canon(genc) {
		sig := "rereg:other"
		switch {
		case g.Fill.Type == "gradient" && len(g.Fill.Color) == 3:
			sig = "rereg:gradient-3stop"
		case g.Fill.Type == "":
			sig = "rereg:empty-fill-record"
		}
		h.r.Fail(sig, fmt.Sprintf("GetStyle(%d) = %q but GetStyle(NewStyle(that)) = %q", id, genc, g2), ln, h.replay())
	}
	// the read-back definition registered again must give the id just issued
	// keyed by the literal definition, like `new`: a zero-valued Alignment and no Alignment are
	// different requests for NewStyle (they may get different ids) although they read as one definition
	key := "rereg:" + genc
	if prev, seen := h.wb.issued[key]; seen {
		h.r.Stat("idem:checked")
		if prev != id2 {
			h.r.Fail(c17IdemClass(g), fmt.Sprintf("NewStyle(GetStyle(%d)) returned id %d, the same definition registered before returned %d", id, id2, prev), ln, h.replay())
		}
	} else {
		h.wb.issued[key] = id2
	}
}

// ---- grid

func (h *c17H) specResolve(c, r int) int {
	if v := h.wb.cell[c17Key{c, r}]; v != 0 {
		return v
	}
	if v := h.wb.row[r]; v != 0 {
		return v
	}
	return h.wb.col[c]
}

func c17Name(c, r int) string { n, _ := xl.CoordinatesToCellName(c, r); return n }

func c17GridEssence(d string) string {
	// drop trailing zero cells of each row and trailing rows without any style
	i := strings.Index(d, ":[")
	j := strings.Index(d, "] cols=")
	if i < 0 || j < 0 {
		return d
	}
	rows := strings.Split(d[i+2:j], ";")
	for k, r := range rows {
		p := strings.SplitN(r, "/", 2)
		if len(p) != 2 {
			continue
		}
		cs := strings.Split(p[1], ",")
		for len(cs) > 0 && (cs[len(cs)-1] == "0" || cs[len(cs)-1] == "") {
			cs = cs[:len(cs)-1]
		}
		rows[k] = p[0] + "/" + strings.Join(cs, ",")
	}
	for len(rows) > 0 && (rows[len(rows)-1] == "0/" || rows[len(rows)-1] == "") {
		rows = rows[:len(rows)-1]
	}
	return strings.Join(rows, ";") + d[j:]
}

func (h *c17H) validID(sid int) bool { return sid >= 0 && sid < h.wb.nxf }

func (h *c17H) gridSet(line, kind string, a []int) {
	sid := a[len(a)-1]
	before := c17GridEssence(xl.VerifC17DumpGrid(h.wb.f, "Sheet1"))
	var err error
	func() {
		defer func() {
			if p := recover(); p != nil {
				err = fmt.Errorf("PANIC")
			}
		}()
		switch kind {
		case "setcell":
			err = h.wb.f.SetCellStyle("Sheet1", c17Name(a[0], a[1]), c17Name(a[2], a[3]), sid)
		case "setrow":
			err = h.wb.f.SetRowStyle("Sheet1", a[0], a[1], sid)
		case "setcol":
			n1, _ := xl.ColumnNumberToName(a[0])
			n2, _ := xl.ColumnNumberToName(a[1])
			err = h.wb.f.SetColStyle("Sheet1", n1+":"+n2, sid)
		}
	}()
	res := "ok"
	if err != nil {
		res = "ERR"
		if err.Error() == "PANIC" {
			res = "PANIC"
		}
	}
	ln := h.op(line, res)
	lo := func(x, y int) int {
		if x < y {
			return x
		}
		return y
	}
	hi := func(x, y int) int {
		if x > y {
			return x
		}
		return y
	}
	if !h.validID(sid) {
		h.r.Stat("grid:invalid-id")
		if err == nil {
			h.r.Fail("invalid-id:accepted", fmt.Sprintf("%s accepted style id %d (valid ids 0..%d)", kind, sid, h.wb.nxf-1), ln, h.replay())
		}
		if after := c17GridEssence(xl.VerifC17DumpGrid(h.wb.f, "Sheet1")); after != before {
			h.r.Fail("invalid-id:changed", fmt.Sprintf("%s with invalid id %d changed the stored styles: %q -> %q", kind, sid, before, after), ln, h.replay())
		}
		return
	}
	if err != nil {
		if kind == "setrow" && lo(a[0], a[1]) < 1 {
			h.r.Stat("grid:bad-row")
			return
		}
		h.r.Fail("set:valid-rejected", fmt.Sprintf("%s with valid id %d rejected: %v", kind, sid, err), ln, h.replay())
		return
	}
	h.r.Stat("grid:" + kind)
	switch kind {
	case "setcell":
		for c := lo(a[0], a[2]); c <= hi(a[0], a[2]); c++ {
			for r := lo(a[1], a[3]); r <= hi(a[1], a[3]); r++ {
				h.wb.cell[c17Key{c, r}] = sid
			}
		}
	case "setrow":
		for r := lo(a[0], a[1]); r <= hi(a[0], a[1]); r++ {
			h.wb.row[r] = sid
			for k := range h.wb.cell {
				if k.r == r {
					delete(h.wb.cell, k)
				}
			}
		}
	case "setcol":
		for c := lo(a[0], a[1]); c <= hi(a[0], a[1]); c++ {
			h.wb.col[c] = sid
			for k := range h.wb.cell {
				if k.c == c {
					delete(h.wb.cell, k)
				}
			}
			h.wb.colOver(c, sid)
		}
	}
}

// a column assignment overrides row styles for the cells of the column: represented as explicit
// cell styles on the rows that carry a row style
func (wb *c17WB) colOver(c, sid int) {
	if sid == 0 {
		return
	}
	for r, rs := range wb.row {
		if rs != 0 {
			wb.cell[c17Key{c, r}] = sid
		}
	}
}

func (h *c17H) doWrite(line string, c, r, kind int) {
	var err error
	name := c17Name(c, r)
	exp := h.specResolve(c, r)
	func() {
		defer func() {
			if p := recover(); p != nil {
				err = fmt.Errorf("PANIC")
			}
		}()
		switch kind % 6 {
		case 0:
			err = h.wb.f.SetCellInt("Sheet1", name, int64(c*100+r))
		case 1:
			err = h.wb.f.SetCellStr("Sheet1", name, "v")
		case 2:
			err = h.wb.f.SetCellBool("Sheet1", name, true)
		case 3:
			err = h.wb.f.SetCellFloat("Sheet1", name, 1.5, 2, 64)
		case 4:
			err = h.wb.f.SetCellValue("Sheet1", name, 7)
		default:
			err = h.wb.f.SetCellFormula("Sheet1", name, "1+1")
		}
	}()
	res := "ok"
	if err != nil {
		res = "ERR"
	}
	h.op(line, res)
	h.r.Stat("grid:write")
	h.wb.cell[c17Key{c, r}] = exp
}

func (h *c17H) doGetCell(line string, c, r int) {
	var sid int
	var err error
	func() {
		defer func() {
			if p := recover(); p != nil {
				err = fmt.Errorf("PANIC")
			}
		}()
		sid, err = h.wb.f.GetCellStyle("Sheet1", c17Name(c, r))
	}()
	exp := h.specResolve(c, r)
	if err != nil {
		h.op(line, "ERR")
		return
	}
	ln := h.op(line, fmt.Sprintf("ok %d S=%d", sid, exp))
	h.r.Stat("resolve:checked")
	if sid != exp {
		lvl := "col"
		if h.wb.cell[c17Key{c, r}] != 0 {
			lvl = "cell"
		} else if h.wb.row[r] != 0 {
			lvl = "row"
		}
		h.r.Fail("resolve:"+lvl, fmt.Sprintf("GetCellStyle(%s) = %d, three-level model says %d (cell %d, row %d, column %d)", c17Name(c, r), sid, exp, h.wb.cell[c17Key{c, r}], h.wb.row[r], h.wb.col[c]), ln, h.replay())
	}
}

func (h *c17H) doGetCol(line string, c int) {
	n, _ := xl.ColumnNumberToName(c)
	sid, err := h.wb.f.GetColStyle("Sheet1", n)
	if err != nil {
		h.op(line, "ERR")
		return
	}
	ln := h.op(line, fmt.Sprintf("ok %d S=%d", sid, h.wb.col[c]))
	if sid != h.wb.col[c] && !h.wb.noColOracle {
		h.r.Fail("resolve:getcol", fmt.Sprintf("GetColStyle(%s) = %d, model says %d", n, sid, h.wb.col[c]), ln, h.replay())
	}
}

// exec runs one op line on the real library.
func (h *c17H) exec(line string) {
	w := strings.Fields(line)
	if len(w) == 0 || strings.HasPrefix(w[0], "#") {
		return
	}
	if h.wb == nil && w[0] != "reset" && w[0] != "resetc" && w[0] != "resetcols" && w[0] != "decl" {
		h.doReset()
	}
	ints := func(from int) []int {
		var out []int
		for _, x := range w[from:] {
			n, _ := strconv.Atoi(x)
			out = append(out, n)
		}
		return out
	}
	switch {
	case w[0] == "reset":
		h.doReset()
	case w[0] == "resetcols" && len(w) == 2:
		h.doResetCols(line, w[1])
	case w[0] == "resetc" && len(w) == 5:
		h.doResetCounts(line, ints(1))
	case w[0] == "decl":
		// environment line of a recorded transcript: re-derived here
	case w[0] == "new":
		h.doNew(line, w[1:])
	case w[0] == "norm":
		h.doNorm(line, w[1:])
	case w[0] == "get" && len(w) == 2:
		h.doGet(line, ints(1)[0])
	case w[0] == "rereg" && len(w) == 2:
		h.doRereg(line, ints(1)[0])
	case w[0] == "dump":
		h.op(line, xl.VerifC17DumpStyles(h.wb.f))
	case w[0] == "grid":
		h.op(line, xl.VerifC17DumpGrid(h.wb.f, "Sheet1"))
	case w[0] == "setcell" && len(w) == 6, w[0] == "setrow" && len(w) == 4, w[0] == "setcol" && len(w) == 4:
		h.gridSet(line, w[0], ints(1))
	case w[0] == "write" && len(w) == 4:
		a := ints(1)
		h.doWrite(line, a[0], a[1], a[2])
	case w[0] == "getcell" && len(w) == 3:
		a := ints(1)
		h.doGetCell(line, a[0], a[1])
	case w[0] == "getcol" && len(w) == 2:
		h.doGetCol(line, ints(1)[0])
	default:
		h.op(line, "bad-op")
	}
}


// ---------------------------------------------------------------- single-field twins

type c17Twin struct {
	field string
	mut   func(s *xl.Style)
}

func c17CopyStyle(s *xl.Style) *xl.Style {
	c, _ := c17DecStyle(strings.Fields(c17EncStyle(s)))
	return c
}

// c17CodePair toggles CustomNumFmt between two near-equal codes.
func c17CodePair(a, b string) func(*xl.Style) {
	return func(s *xl.Style) {
		c := a
		if s.CustomNumFmt != nil && *s.CustomNumFmt == a {
			c = b
		}
		s.CustomNumFmt = &c
	}
}

// c17Twins lists, for every field of Style that takes part in a definition, a change of exactly
// that field (the mutators make the field differ from whatever the base holds).
func c17Twins() []c17Twin {
	font := func(f func(*xl.Font)) func(*xl.Style) {
		return func(s *xl.Style) {
			if s.Font == nil {
				s.Font = &xl.Font{}
			}
			f(s.Font)
		}
	}
	align := func(f func(*xl.Alignment)) func(*xl.Style) {
		return func(s *xl.Style) {
			if s.Alignment == nil {
				s.Alignment = &xl.Alignment{}
			}
			f(s.Alignment)
		}
	}
	prot := func(f func(*xl.Protection)) func(*xl.Style) {
		return func(s *xl.Style) {
			if s.Protection == nil {
				s.Protection = &xl.Protection{}
			}
			f(s.Protection)
		}
	}
	other := func(cur string, a, b string) string {
		if cur == a {
			return b
		}
		return a
	}
	border0 := func(f func(*xl.Border)) func(*xl.Style) {
		return func(s *xl.Style) {
			if len(s.Border) == 0 {
				s.Border = []xl.Border{{Type: "left", Color: "112233", Style: 1}}
			}
			s.Border = append([]xl.Border(nil), s.Border...)
			// the entry that decides its side is the last one of that kind: change the last entry
			f(&s.Border[len(s.Border)-1])
		}
	}
	currency := func(f func(*xl.Style)) func(*xl.Style) {
		return func(s *xl.Style) { s.CustomNumFmt = nil; f(s) }
	}
	return []c17Twin{
		{"Font(nil/set)", func(s *xl.Style) {
			if s.Font == nil {
				s.Font = &xl.Font{Bold: true}
			} else {
				s.Font = nil
			}
		}},
		{"Font.Bold", font(func(f *xl.Font) { f.Bold = !f.Bold })},
		{"Font.Italic", font(func(f *xl.Font) { f.Italic = !f.Italic })},
		{"Font.Strike", font(func(f *xl.Font) { f.Strike = !f.Strike })},
		{"Font.Underline", font(func(f *xl.Font) { f.Underline = other(f.Underline, "single", "double") })},
		{"Font.Family", font(func(f *xl.Font) { f.Family = other(f.Family, "Arial", "Courier New") })},
		{"Font.Size", font(func(f *xl.Font) {
			if f.Size == 12 {
				f.Size = 14
			} else {
				f.Size = 12
			}
		})},
		{"Font.Color", font(func(f *xl.Font) { f.Color = other(f.Color, "FF0000", "00FF00") })},
		{"Font.ColorIndexed", font(func(f *xl.Font) {
			if f.ColorIndexed == 5 {
				f.ColorIndexed = 6
			} else {
				f.ColorIndexed = 5
			}
		})},
		{"Font.ColorTheme", font(func(f *xl.Font) {
			t := 4
			if f.ColorTheme != nil && *f.ColorTheme == 4 {
				t = 5
			}
			f.ColorTheme = &t
		})},
		{"Font.ColorTint", font(func(f *xl.Font) {
			if f.ColorTint == 0.5 {
				f.ColorTint = -0.25
			} else {
				f.ColorTint = 0.5
			}
		})},
		{"Font.VertAlign", font(func(f *xl.Font) { f.VertAlign = other(f.VertAlign, "superscript", "subscript") })},
		{"Fill.Type", func(s *xl.Style) {
			if s.Fill.Type == "pattern" {
				s.Fill = xl.Fill{Type: "gradient", Shading: 1, Color: []string{"112233", "445566"}}
			} else {
				s.Fill = xl.Fill{Type: "pattern", Pattern: 1, Color: []string{"112233"}}
			}
		}},
		{"Fill.Pattern", func(s *xl.Style) {
			if s.Fill.Type != "pattern" || s.Fill.Pattern < 0 || s.Fill.Pattern > 18 {
				s.Fill = xl.Fill{Type: "pattern", Pattern: 1, Color: []string{"112233"}}
			}
			s.Fill.Pattern = (s.Fill.Pattern + 1) % 19
		}},
		{"Fill.Shading", func(s *xl.Style) {
			if s.Fill.Type != "gradient" || len(s.Fill.Color) != 2 || s.Fill.Shading < 0 || s.Fill.Shading > 16 {
				s.Fill = xl.Fill{Type: "gradient", Shading: 1, Color: []string{"112233", "445566"}}
			}
			s.Fill.Shading = (s.Fill.Shading + 1) % 17
		}},
		{"Fill.Color[0]", func(s *xl.Style) {
			if (s.Fill.Type != "pattern" && s.Fill.Type != "gradient") || len(s.Fill.Color) == 0 {
				s.Fill = xl.Fill{Type: "pattern", Pattern: 1, Color: []string{"112233"}}
			}
			s.Fill.Color = append([]string(nil), s.Fill.Color...)
			s.Fill.Color[0] = other(s.Fill.Color[0], "A1B2C3", "3C2B1A")
		}},
		{"Fill.Color[1]", func(s *xl.Style) {
			if s.Fill.Type != "gradient" || len(s.Fill.Color) != 2 || s.Fill.Shading < 0 || s.Fill.Shading > 16 {
				s.Fill = xl.Fill{Type: "gradient", Shading: 1, Color: []string{"112233", "445566"}}
			}
			s.Fill.Color = append([]string(nil), s.Fill.Color...)
			s.Fill.Color[1] = other(s.Fill.Color[1], "A1B2C3", "3C2B1A")
		}},
		{"Border(+side)", func(s *xl.Style) {
			have := map[string]bool{}
			for _, b := range s.Border {
				have[b.Type] = true
			}
			for _, t := range []string{"left", "right", "top", "bottom", "diagonalUp", "diagonalDown"} {
				if !have[t] && !(strings.HasPrefix(t, "diagonal") && (have["diagonalUp"] || have["diagonalDown"])) {
					s.Border = append(append([]xl.Border(nil), s.Border...), xl.Border{Type: t, Color: "0000FF", Style: 2})
					return
				}
			}
			s.Border = nil
		}},
		{"Border.Type", border0(func(b *xl.Border) { b.Type = other(b.Type, "top", "bottom") })},
		{"Border.Style", border0(func(b *xl.Border) {
			if b.Style < 0 || b.Style > 13 {
				b.Style = 1
			}
			b.Style = b.Style%13 + 1
		})},
		{"Border.Color", border0(func(b *xl.Border) {
			if b.Style < 0 || b.Style > 13 {
				b.Style = 1
			}
			b.Color = other(b.Color, "A1B2C3", "3C2B1A")
		})},
		{"Alignment(nil/set)", func(s *xl.Style) {
			if s.Alignment == nil {
				s.Alignment = &xl.Alignment{Horizontal: "right"}
			} else {
				s.Alignment = nil
			}
		}},
		{"Alignment.Horizontal", align(func(a *xl.Alignment) { a.Horizontal = other(a.Horizontal, "center", "right") })},
		{"Alignment.Indent", align(func(a *xl.Alignment) { a.Indent++ })},
		{"Alignment.JustifyLastLine", align(func(a *xl.Alignment) { a.JustifyLastLine = !a.JustifyLastLine })},
		{"Alignment.ReadingOrder", align(func(a *xl.Alignment) { a.ReadingOrder++ })},
		{"Alignment.RelativeIndent", align(func(a *xl.Alignment) { a.RelativeIndent++ })},
		{"Alignment.ShrinkToFit", align(func(a *xl.Alignment) { a.ShrinkToFit = !a.ShrinkToFit })},
		{"Alignment.TextRotation", align(func(a *xl.Alignment) { a.TextRotation += 15 })},
		{"Alignment.Vertical", align(func(a *xl.Alignment) { a.Vertical = other(a.Vertical, "top", "center") })},
		{"Alignment.WrapText", align(func(a *xl.Alignment) { a.WrapText = !a.WrapText })},
		{"Protection(nil/set)", func(s *xl.Style) {
			if s.Protection == nil {
				s.Protection = &xl.Protection{Locked: true}
			} else {
				s.Protection = nil
			}
		}},
		{"Protection.Hidden", prot(func(p *xl.Protection) { p.Hidden = !p.Hidden })},
		{"Protection.Locked", prot(func(p *xl.Protection) { p.Locked = !p.Locked })},
		{"NumFmt(built-in)", currency(func(s *xl.Style) {
			if s.NumFmt == 3 {
				s.NumFmt = 10
			} else {
				s.NumFmt = 3
			}
		})},
		{"NumFmt(locale)", currency(func(s *xl.Style) {
			if s.NumFmt == 27 {
				s.NumFmt = 28
			} else {
				s.NumFmt = 27
			}
		})},
		{"NumFmt(currency)", currency(func(s *xl.Style) {
			if s.NumFmt == 166 {
				s.NumFmt = 167
			} else {
				s.NumFmt = 166
			}
		})},
		{"DecimalPlaces(currency)", currency(func(s *xl.Style) {
			if _, ok := xl.VerifC17CurrencyNumFmt(s.NumFmt); !ok {
				s.NumFmt = 165
			}
			d := 3
			if s.DecimalPlaces != nil && *s.DecimalPlaces == 3 {
				d = 1
			}
			s.DecimalPlaces = &d
		})},
		{"NegRed(currency)", currency(func(s *xl.Style) {
			if _, ok := xl.VerifC17CurrencyNumFmt(s.NumFmt); !ok {
				s.NumFmt = 165
			}
			s.NegRed = !s.NegRed
		})},
		// near-equal custom codes: every pair must stay two definitions with two ids
		{"CustomNumFmt(letter case in a literal)", c17CodePair(`0.0 "kg"`, `0.0 "KG"`)},
		{"CustomNumFmt(exponent case)", c17CodePair("0.00E+00", "0.00e+00")},
		{"CustomNumFmt(date token case)", c17CodePair("yyyy-mm-dd", "YYYY-MM-DD")},
		{"CustomNumFmt(colour name case)", c17CodePair("0.00;[Red]0.00", "0.00;[red]0.00")},
		{"CustomNumFmt(trailing space)", c17CodePair("0.00", "0.00 ")},
		{"CustomNumFmt(leading space)", c17CodePair("0.0", " 0.0")},
		{"CustomNumFmt(literal content)", c17CodePair(`0 "a"`, `0 "b"`)},
		{"CustomNumFmt(escaped char)", c17CodePair(`0\-0`, `0-0`)},
		{"CustomNumFmt(quote vs escape)", c17CodePair(`0"x"`, `0\x`)},
		{"CustomNumFmt(non-ASCII case)", c17CodePair(`0 "é"`, `0 "É"`)},
		{"CustomNumFmt", func(s *xl.Style) {
			c := "0.0000"
			if s.CustomNumFmt != nil && *s.CustomNumFmt == c {
				c = "#,##0.0"
			}
			s.CustomNumFmt = &c
		}},
	}
}

// twinCase registers a base definition and a definition that differs from it in exactly one field
// (in either order) on a new workbook. Oracles: each reads back its own normalised definition
// (`readback`, in doNew) and, when the two normalised definitions differ, the ids differ (`twin:*`).
func (h *c17H) twinCase(rng *Rng, base *xl.Style, tw c17Twin, prelude []string) {
	a := c17CopyStyle(base)
	tw.mut(a) // some mutators first move the base into the domain of the field
	b := c17CopyStyle(a)
	tw.mut(b)
	if c17EncStyle(a) == c17EncStyle(b) {
		return
	}
	if rng.Bool() {
		a, b = b, a
	}
	h.exec("reset")
	for _, l := range prelude {
		h.exec(l)
	}
	la, lb := "new "+c17EncStyle(a), "new "+c17EncStyle(b)
	h.exec(la)
	h.exec(lb)
	ida, oka := h.wb.issued[strings.TrimPrefix(la, "new ")]
	idb, okb := h.wb.issued[strings.TrimPrefix(lb, "new ")]
	h.r.Stat("twin:cases")
	if oka && okb {
		na, ea := c17Normalize(a, h.dec)
		nb, eb := c17Normalize(b, h.dec)
		if ea && eb && c17Canon(c17EncStyle(&na)) != c17Canon(c17EncStyle(&nb)) {
			h.r.Stat("twin:distinct-required")
			h.r.Stat("twin:required:" + tw.field)
			if ida == idb {
				h.r.Fail("twin:"+tw.field, fmt.Sprintf("two definitions that differ only in %s got the same id %d: %s / %s", tw.field, ida, la, lb), h.r.N, h.replay())
			}
		}
	}
	h.exec(fmt.Sprintf("get %d", ida))
	h.exec(fmt.Sprintf("get %d", idb))
	h.r.Case(strings.Join(h.wb.lines, "\n"), true)
}

func (h *c17H) twins(rng *Rng, nBases int) {
	tws := c17Twins()
	for i := 0; i < nBases; i++ {
		var base *xl.Style
		var prelude []string
		switch {
		case i == 0:
			base = &xl.Style{}
		case i == 1: // a full definition
			th := 3
			base = &xl.Style{Font: &xl.Font{Bold: true, Family: "Arial", Size: 10, Color: "333333", ColorTheme: &th},
				Fill:   xl.Fill{Type: "pattern", Pattern: 1, Color: []string{"EEEEEE"}},
				Border: []xl.Border{{Type: "left", Color: "000000", Style: 1}, {Type: "top", Color: "FF0000", Style: 2}},
				Alignment:  &xl.Alignment{Horizontal: "left", Indent: 1, RelativeIndent: 1, ReadingOrder: 1, TextRotation: 30, Vertical: "bottom", WrapText: true},
				Protection: &xl.Protection{Hidden: true, Locked: true}, NumFmt: 4}
		default:
			pal := c17GenPalette(rng)
			base = c17GenStyle(rng, pal)
			base.CustomNumFmt = nil
			if base.Font != nil && (len(base.Font.Family) > 31 || base.Font.Size > 409) {
				base.Font = nil
			}
			// unrelated definitions registered first, so that the tables are not empty
			for k := rng.Intn(3); k > 0; k-- {
				prelude = append(prelude, "new "+c17EncStyle(c17GenStyle(rng, pal)))
			}
		}
		for _, tw := range tws {
			h.twinCase(rng, base, tw, prelude)
		}
	}
}

// ---------------------------------------------------------------- generator

var c17Colors = []string{"FF0000", "00ff00", "#0000FF", "#abcdef", "123456", "FFFFFF", "000000", "C0C0C0"}
var c17BadColors = []string{"", "abc", "FFFF0000", "12345", "red", "#12#3456", "1234567"}

func c17Color(rng *Rng, allowEmpty bool) string {
	if allowEmpty && rng.Chance(25) {
		return ""
	}
	if rng.Chance(5) {
		return rng.Pick(c17BadColors)
	}
	return rng.Pick(c17Colors)
}

func c17GenFont(rng *Rng) *xl.Font {
	f := &xl.Font{Bold: rng.Chance(30), Italic: rng.Chance(25), Strike: rng.Chance(15)}
	f.Underline = rng.Pick([]string{"", "", "", "single", "double", "none", "wavy", "Single"})
	f.Family = rng.Pick([]string{"", "", "Arial", "Calibri", "Times New Roman", strings.Repeat("F", 31)})
	f.Size = float64(rng.Pick2([]int{0, 0, 2, 3, 4, 32, 44, 44, 46, 48, 56, 1636, -12})) / 4
	f.Color = c17Color(rng, true)
	f.ColorIndexed = rng.Pick2([]int{0, 0, 0, 0, 1, 8, 64, 67, 68, -1})
	if rng.Chance(35) {
		t := rng.Pick2([]int{0, 1, 1, 3, 9})
		f.ColorTheme = &t
	}
	f.ColorTint = float64(rng.Pick2([]int{0, 0, 0, 4, -2})) / 8
	if rng.Chance(10) {
		f.VertAlign = "superscript"
	}
	if rng.Chance(6) { // the default font itself
		one := 1
		f = &xl.Font{Family: rng.Pick([]string{"", "Calibri"}), Size: float64(rng.Pick2([]int{0, 44})) / 4, ColorTheme: &one}
	}
	return f
}

func c17GenFill(rng *Rng) xl.Fill {
	switch x := rng.Intn(100); {
	case x < 30:
		return xl.Fill{}
	case x < 62:
		fl := xl.Fill{Type: "pattern", Pattern: rng.Pick2([]int{0, 1, 1, 1, 2, 9, 17, 18, 19, -1, rng.Intn(19)})}
		for i := rng.Pick2([]int{0, 1, 1, 1, 2}); i > 0; i-- {
			fl.Color = append(fl.Color, c17Color(rng, false))
		}
		return fl
	case x < 94:
		fl := xl.Fill{Type: "gradient", Shading: rng.Pick2([]int{rng.Intn(17), rng.Intn(17), rng.Intn(17), 0, 16, 17, -1})}
		for i := rng.Pick2([]int{2, 2, 2, 2, 2, 2, 1, 3, 0}); i > 0; i-- {
			fl.Color = append(fl.Color, c17Color(rng, false))
		}
		return fl
	default:
		return xl.Fill{Type: rng.Pick([]string{"solid", "Pattern", "x"}), Pattern: 1, Color: []string{"FF0000"}}
	}
}

func c17GenBorder(rng *Rng) []xl.Border {
	if rng.Chance(35) {
		return nil
	}
	var bs []xl.Border
	for i := rng.Range(1, 4); i > 0; i-- {
		bs = append(bs, xl.Border{
			Type:  rng.Pick([]string{"left", "right", "top", "bottom", "diagonalUp", "diagonalDown", "left", "top", "middle", "Left"}),
			Color: c17Color(rng, true),
			Style: rng.Pick2([]int{0, 1, 1, 2, 5, 13, 14, -1, rng.Intn(14)}),
		})
	}
	return bs
}

var c17Customs = []string{"0.000", "yyyy-mm-dd", "#,##0.00;[Red]#,##0.00", "[$$-409]#,##0.00", "[$$-409]#,##0.00;[Red][$$-409]#,##0.00", "@", "0.0%", "\"¥\"#,##0.00", "#,##0.0_);(#,##0.00)", "general", "", "0.00E+00", "0.00e+00", "0.0 \"kg\"", "0.0 \"KG\"", "0.000 ", "YYYY-MM-DD"}

func c17GenNum(rng *Rng, s *xl.Style) {
	switch x := rng.Intn(100); {
	case x < 35:
	case x < 55:
		s.NumFmt = rng.Pick2([]int{1, 2, 3, 4, 9, 10, 11, 14, 22, 37, 40, 44, 49})
	case x < 65:
		s.NumFmt = rng.Pick2([]int{27, 36, 50, 62, 63, 66, 67, 81})
	case x < 72:
		s.NumFmt = rng.Pick2([]int{23, 26, 82, 163, -1, 999, 635})
	default:
		s.NumFmt = rng.Pick2([]int{164, 165, 165, 166, 178, 181, 634})
	}
	if rng.Chance(35) {
		d := rng.Pick2([]int{0, 1, 2, 2, 3, 5, 30, 31, -1})
		s.DecimalPlaces = &d
	}
	if rng.Chance(18) {
		c := rng.Pick(c17Customs)
		s.CustomNumFmt = &c
	}
	s.NegRed = rng.Chance(15)
}

type c17Palette struct {
	fonts   []*xl.Font
	fills   []xl.Fill
	borders [][]xl.Border
	aligns  []*xl.Alignment
}

func c17GenPalette(rng *Rng) *c17Palette {
	p := &c17Palette{}
	for i := 0; i < 3; i++ {
		p.fonts = append(p.fonts, c17GenFont(rng))
		p.fills = append(p.fills, c17GenFill(rng))
		p.borders = append(p.borders, c17GenBorder(rng))
	}
	p.aligns = []*xl.Alignment{{}, {Horizontal: "center"}, {Horizontal: "left", Indent: 2, WrapText: true}, {Vertical: "top", TextRotation: 45, ShrinkToFit: true, ReadingOrder: 1, RelativeIndent: 1, JustifyLastLine: true}}
	return p
}

func c17GenStyle(rng *Rng, p *c17Palette) *xl.Style {
	s := &xl.Style{}
	if rng.Chance(60) {
		if rng.Chance(70) {
			f := *p.fonts[rng.Intn(len(p.fonts))]
			s.Font = &f
		} else {
			s.Font = c17GenFont(rng)
		}
	}
	if rng.Chance(70) {
		s.Fill = p.fills[rng.Intn(len(p.fills))]
	} else {
		s.Fill = c17GenFill(rng)
	}
	if rng.Chance(70) {
		s.Border = p.borders[rng.Intn(len(p.borders))]
	} else {
		s.Border = c17GenBorder(rng)
	}
	if rng.Chance(35) {
		a := *p.aligns[rng.Intn(len(p.aligns))]
		s.Alignment = &a
	}
	if rng.Chance(30) {
		s.Protection = &xl.Protection{Hidden: rng.Bool(), Locked: rng.Bool()}
	}
	c17GenNum(rng, s)
	if rng.Chance(2) {
		s.Font = &xl.Font{Family: strings.Repeat("G", 32)}
	}
	if rng.Chance(2) {
		s.Font = &xl.Font{Size: 409.25}
	}
	return s
}

func (h *c17H) pickSid(rng *Rng) int {
	switch x := rng.Intn(100); {
	case x < 8:
		return rng.Pick2([]int{-1, h.wb.nxf, h.wb.nxf + 3, 99999, -7})
	case x < 22:
		return 0
	default:
		return rng.Intn(h.wb.nxf)
	}
}

func (h *c17H) observe(rng *Rng, cs, rs []int) {
	for _, c := range cs {
		for _, r := range rs {
			if c >= 1 && r >= 1 {
				h.exec(fmt.Sprintf("getcell %d %d", c, r))
			}
		}
	}
	for i := 0; i < 3; i++ {
		h.exec(fmt.Sprintf("getcell %d %d", rng.Range(1, 9), rng.Range(1, 9)))
	}
}

func (h *c17H) genCase(rng *Rng, nops int, gridHeavy bool) { h.genCaseFrom(rng, nops, gridHeavy, "reset") }

func (h *c17H) genCaseFrom(rng *Rng, nops int, gridHeavy bool, resetLine string) {
	if gridHeavy && rng.Chance(12) {
		h.genFlatCase(rng, nops)
		return
	}
	h.exec(resetLine)
	if strings.HasPrefix(resetLine, "resetcols") {
		for c := 1; c <= 14; c++ {
			h.exec(fmt.Sprintf("getcol %d", c))
			h.exec(fmt.Sprintf("getcell %d %d", c, rng.Range(1, 3)))
		}
	}
	pal := c17GenPalette(rng)
	var reqs []string
	for i := 0; i < nops; i++ {
		x := rng.Intn(100)
		if gridHeavy {
			x = 45 + rng.Intn(55)
			if i < 4 {
				x = 0
			}
		}
		switch {
		case x < 30:
			st := c17GenStyle(rng, pal)
			line := "new " + c17EncStyle(st)
			reqs = append(reqs, line)
			h.exec(line)
			if _, exact := c17Normalize(st, h.dec); exact {
				h.exec("norm " + c17EncStyle(st))
			}
			if rng.Chance(25) {
				h.exec(line)
			}
		case x < 38 && len(reqs) > 0:
			h.exec(reqs[rng.Intn(len(reqs))])
		case x < 42 && len(reqs) > 0:
			// an earlier definition with only its number-format fields changed
			w := strings.Fields(reqs[rng.Intn(len(reqs))])
			if st, ok := c17DecStyle(w[1:]); ok {
				st.NumFmt = rng.Pick2([]int{st.NumFmt, st.NumFmt, 165, 164, 4, 2})
				st.DecimalPlaces, st.NegRed = nil, rng.Chance(25)
				if rng.Chance(60) {
					d := rng.Pick2([]int{0, 2, 3})
					st.DecimalPlaces = &d
				}
				line := "new " + c17EncStyle(st)
				reqs = append(reqs, line)
				h.r.Stat("new:numfmt-variant")
				h.exec(line)
			}
		case x < 50:
			h.exec(fmt.Sprintf("rereg %d", rng.Intn(h.wb.nxf)))
		case x < 58:
			h.exec(fmt.Sprintf("get %d", rng.Pick2([]int{rng.Intn(h.wb.nxf), rng.Intn(h.wb.nxf), h.wb.nxf - 1, h.wb.nxf, -1, h.wb.nxf + 7})))
		case x < 70:
			c1, r1 := rng.Range(1, 8), rng.Range(1, 8)
			c2, r2 := c1+rng.Pick2([]int{0, 0, 1, 2, -1}), r1+rng.Pick2([]int{0, 0, 1, 3, -2})
			if c2 < 1 {
				c2 = 1
			}
			if r2 < 1 {
				r2 = 1
			}
			h.exec(fmt.Sprintf("setcell %d %d %d %d %d", c1, r1, c2, r2, h.pickSid(rng)))
			h.observe(rng, []int{c1 - 1, c1, c2, c2 + 1}, []int{r1 - 1, r1, r2, r2 + 1})
		case x < 79:
			r1 := rng.Range(1, 8)
			r2 := r1 + rng.Pick2([]int{0, 0, 1, 2, -1, -9})
			h.exec(fmt.Sprintf("setrow %d %d %d", r1, r2, h.pickSid(rng)))
			h.observe(rng, []int{1, 4, 12}, []int{r1 - 1, r1, r2, r2 + 1})
		case x < 88:
			c1 := rng.Range(1, 8)
			c2 := c1 + rng.Pick2([]int{0, 0, 1, 2})
			h.exec(fmt.Sprintf("setcol %d %d %d", c1, c2, h.pickSid(rng)))
			h.observe(rng, []int{c1 - 1, c1, c2, c2 + 1}, []int{1, 4, 12})
			h.exec(fmt.Sprintf("getcol %d", c1))
			h.exec(fmt.Sprintf("getcol %d", c2+1))
		case x < 97:
			c, r := rng.Range(1, 9), rng.Range(1, 9)
			h.exec(fmt.Sprintf("write %d %d %d", c, r, rng.Intn(6)))
			h.exec(fmt.Sprintf("getcell %d %d", c, r))
		default:
			h.exec("grid")
		}
	}
	h.exec("dump")
	h.exec("grid")
	if gridHeavy {
		for c := 1; c <= 10; c++ {
			for r := 1; r <= 10; r++ {
				h.exec(fmt.Sprintf("getcell %d %d", c, r))
			}
		}
	}
	key := strings.Join(h.wb.lines, "\n")
	h.r.Case(key, h.wb.created >= 2 || gridHeavy)
}

// a worksheet that keeps exactly one row slot: SetColStyle's overwrite of existing cells at the
// smallest non-empty size
func (h *c17H) genFlatCase(rng *Rng, nops int) {
	h.exec("reset")
	for i := 0; i < 4; i++ {
		h.exec("new " + c17EncStyle(&xl.Style{Font: &xl.Font{Bold: i&1 == 1, Italic: i&2 == 2, Size: float64(8 + i)}}))
	}
	h.r.Stat("case:flat")
	for i := 0; i < nops; i++ {
		c := rng.Range(1, 6)
		switch rng.Intn(5) {
		case 0:
			h.exec(fmt.Sprintf("setcell %d 1 %d 1 %d", c, c+rng.Intn(2), h.pickSid(rng)))
		case 1:
			h.exec(fmt.Sprintf("setcol %d %d %d", c, c+rng.Intn(2), h.pickSid(rng)))
		case 2:
			h.exec(fmt.Sprintf("setrow 1 1 %d", h.pickSid(rng)))
		case 3:
			h.exec(fmt.Sprintf("write %d 1 %d", c, rng.Intn(6)))
		default:
			h.exec(fmt.Sprintf("getcol %d", c))
		}
		for k := 1; k <= 8; k++ {
			h.exec(fmt.Sprintf("getcell %d 1", k))
		}
	}
	h.exec("grid")
	h.r.Case(strings.Join(h.wb.lines, "\n"), true)
}

// deterministic witnesses of the known findings and boundary definitions: part of every run
func (h *c17H) witnesses() {
	ip := func(i int) *int { return &i }
	sp := func(s string) *string { return &s }
	run := func(styles ...*xl.Style) {
		h.exec("reset")
		for _, s := range styles {
			line := "new " + c17EncStyle(s)
			h.exec(line)
			h.exec(line)
		}
		for id := 0; id < h.wb.nxf; id++ {
			h.exec(fmt.Sprintf("get %d", id))
		}
		n := h.wb.nxf
		for id := 0; id < n; id++ {
			h.exec(fmt.Sprintf("rereg %d", id))
			h.exec(fmt.Sprintf("rereg %d", id))
		}
		h.exec("dump")
		h.r.Case(strings.Join(h.wb.lines, "\n"), true)
	}
	// DESIGN section 6 reconnaissance: currency format with DecimalPlaces/NegRed, gradient read-back
	run(&xl.Style{NumFmt: 165, DecimalPlaces: ip(3), NegRed: true})
	run(&xl.Style{Fill: xl.Fill{Type: "gradient", Shading: 2, Color: []string{"112233", "445566"}}})
	run(&xl.Style{Fill: xl.Fill{Type: "gradient", Shading: 1, Color: []string{"112233", "445566"}}})
	run(&xl.Style{NumFmt: 2, NegRed: true}, &xl.Style{NumFmt: 63}, &xl.Style{Fill: xl.Fill{Type: "x", Pattern: 1}},
		&xl.Style{Fill: xl.Fill{Type: "pattern", Pattern: 0}}, &xl.Style{Fill: xl.Fill{Type: "pattern", Pattern: 19, Color: []string{"112233"}}})
	run(&xl.Style{Font: &xl.Font{Bold: true}, NumFmt: 165}, &xl.Style{NumFmt: 165})
	run(&xl.Style{NumFmt: 165, DecimalPlaces: ip(3)}, &xl.Style{NumFmt: 164})
	// variants of one currency format that differ only in DecimalPlaces / NegRed must stay apart
	run(&xl.Style{NumFmt: 165}, &xl.Style{NumFmt: 165, DecimalPlaces: ip(3)}, &xl.Style{NumFmt: 165, DecimalPlaces: ip(0)},
		&xl.Style{NumFmt: 165, NegRed: true}, &xl.Style{NumFmt: 4}, &xl.Style{NumFmt: 4, DecimalPlaces: ip(3)}, &xl.Style{NumFmt: 4, NegRed: true})
	run(&xl.Style{}, &xl.Style{Font: &xl.Font{Bold: true}}, &xl.Style{Alignment: &xl.Alignment{}}, &xl.Style{Protection: &xl.Protection{}},
		&xl.Style{CustomNumFmt: sp("0.000")}, &xl.Style{CustomNumFmt: sp("")}, &xl.Style{NumFmt: 165}, &xl.Style{NumFmt: 165, DecimalPlaces: ip(2)},
		&xl.Style{Fill: xl.Fill{Type: "pattern", Pattern: 1, Color: []string{"#aabbcc"}}, Alignment: &xl.Alignment{}})
	// three levels: every combination of cell / row / column being set or unset, then writes
	h.exec("reset")
	h.exec("new " + c17EncStyle(&xl.Style{Font: &xl.Font{Bold: true}}))
	h.exec("new " + c17EncStyle(&xl.Style{Font: &xl.Font{Italic: true}}))
	h.exec("new " + c17EncStyle(&xl.Style{Font: &xl.Font{Strike: true}}))
	for m := 0; m < 8; m++ {
		c, r := 2+m, 2+m
		if m&4 != 0 {
			h.exec(fmt.Sprintf("setcol %d %d 3", c, c))
		}
		if m&2 != 0 {
			h.exec(fmt.Sprintf("setrow %d %d 2", r, r))
		}
		if m&1 != 0 {
			h.exec(fmt.Sprintf("setcell %d %d %d %d 1", c, r, c, r))
		}
		h.exec(fmt.Sprintf("getcell %d %d", c, r))
		h.exec(fmt.Sprintf("getcell %d %d", c+20, r))
		h.exec(fmt.Sprintf("getcell %d %d", c, r+20))
	}
	for m := 0; m < 8; m++ {
		h.exec(fmt.Sprintf("write %d %d %d", 2+m, 2+m, m))
		h.exec(fmt.Sprintf("write %d %d %d", 2+m, 25, m))
		h.exec(fmt.Sprintf("getcell %d %d", 2+m, 2+m))
		h.exec(fmt.Sprintf("getcell %d %d", 2+m, 25))
	}
	h.exec("setrow 3 3 0")
	h.exec("setcol 4 4 0")
	h.r.Case(strings.Join(h.wb.lines, "\n"), true)
	// one row slot only: an explicit cell style, then a column style over it
	h.exec("reset")
	h.exec("new " + c17EncStyle(&xl.Style{Font: &xl.Font{Bold: true}}))
	h.exec("new " + c17EncStyle(&xl.Style{Font: &xl.Font{Italic: true}}))
	h.exec("setcell 2 1 2 1 1")
	h.exec("setcol 2 2 2")
	h.exec("getcell 2 1")
	h.exec("getcell 3 1")
	h.exec("grid")
	h.exec("setcol 2 3 0")
	h.exec("getcell 2 1")
	h.exec("setcell 1 1 12 12 99")
	h.exec("setrow 1 2 -1")
	h.exec("setcol 1 2 4")
	h.exec("grid")
	for c := 1; c <= 11; c++ {
		for r := 1; r <= 11; r++ {
			h.exec(fmt.Sprintf("getcell %d %d", c, r))
		}
	}
	h.r.Case(strings.Join(h.wb.lines, "\n"), true)
}

func runC17(r *Run, rng *Rng, replay string) {
	r.Rule = "one case = one workbook (reset .. dump): a seeded sequence of NewStyle (fresh definitions over fonts, pattern/gradient fills, borders, alignment, protection, built-in/locale/currency/custom number formats, DecimalPlaces, NegRed, sharing a per-workbook palette of components; repeats of earlier definitions), GetStyle, NewStyle(GetStyle(id)), and cell/row/column style assignments with later cell writes and GetCellStyle observations. non-trivial = at least two new xf records were created (registry cases) or the case is a three-level history; distinct by the full op text"
	h := &c17H{r: r, declared: map[string]bool{}}
	if replay != "" {
		for _, line := range readLines(replay) {
			h.exec(line)
		}
		if h.wb != nil {
			r.Case(strings.Join(h.wb.lines, "\n"), true)
		}
		return
	}
	h.witnesses()
	nReg, nGrid, nops, nTwinBases := 260, 160, 26, 6
	if r.Tier == "thorough" {
		nReg, nGrid, nops, nTwinBases = 3000, 1800, 40, 60
	}
	h.twins(rng, nTwinBases)
	// worksheets opened from a file whose <cols> hold ranges (disjoint, as the format requires)
	nCols := 30
	if r.Tier == "thorough" {
		nCols = 300
	}
	for i := 0; i < nCols; i++ {
		var parts []string
		c := rng.Range(1, 3)
		for k := rng.Range(1, 4); k > 0 && c <= 12; k-- {
			w := rng.Range(0, 3)
			parts = append(parts, fmt.Sprintf("%d-%d:%d", c, c+w, rng.Range(0, 3)))
			c += w + 1 + rng.Range(0, 2)
		}
		reset := "resetcols " + strings.Join(parts, ";")
		h.genCaseFrom(rng, rng.Range(10, nops), true, reset)
	}
	// overlapping entries (not valid in a file): the two lookups follow different entries; model vs code only
	h.exec("resetcols 1-3:5;2-2:7;4-6:0;5-5:2")
	for c := 1; c <= 7; c++ {
		h.exec(fmt.Sprintf("getcell %d 1", c))
		h.exec(fmt.Sprintf("getcol %d", c))
	}
	h.exec("setcol 2 5 0")
	h.exec("grid")
	for c := 1; c <= 7; c++ {
		h.exec(fmt.Sprintf("getcell %d 1", c))
		h.exec(fmt.Sprintf("getcol %d", c))
	}
	// style sheets whose count attributes differ from the element counts (opened from a file)
	nLoose := 40
	if r.Tier == "thorough" {
		nLoose = 400
	}
	pc := func(real int) int { return rng.Pick2([]int{0, real, real + 1, real - 1, 5, 100, real}) }
	for i := 0; i < nLoose; i++ {
		h.genCaseFrom(rng, rng.Range(6, nops), false, fmt.Sprintf("resetc %d %d %d %d", pc(1), pc(2), pc(1), pc(1)))
	}
	for i := 0; i < nReg; i++ {
		h.genCase(rng, rng.Range(8, nops), false)
	}
	for i := 0; i < nGrid; i++ {
		h.genCase(rng, rng.Range(10, nops+10), true)
	}
	// malformed stream: unknown ops and broken style encodings must be rejected alike
	h.exec("reset")
	for _, l := range []string{"new F=~", "frobnicate 1 2", "get", "setcell 1 1 1", "new F=zz L=-,0,0,~ B=~ A=~ P=~ N=0 D=~ C=~ R=0"} {
		r.Op(l, "bad-op")
	}
	for _, s := range r.opsSample(10) {
		if len(s) > 300 {
			s = s[:300] + "..."
		}
		r.Sample(s)
	}
	r.Notes = append(r.Notes, fmt.Sprintf("%d registry cases, %d three-level cases, up to %d ops each, plus deterministic witnesses", nReg, nGrid, nops+10))
}
