//go:build verif_c18

package main

// C18 — settings read back as set, and persist.
//
// Transcript ops (Go vs Lean Impl, see lean/XlModel/Drv/C18.lean):
//   cpn <fields> | <imm rec> | <mut rec>     setNoPtrFieldsVal (hook) on harness-defined structs
//   cpp <fields> | <imm rec> | <mut rec>     setPtrFieldsVal (hook)
//   pair <name> | <prev getter rec> | <opts rec>   production Set*/Get* pair routed through the helpers
//   esc/unesc/dvunesc <hex>                  formulaEscaper / formulaUnescaper / unescapeDataValidationFormula
//   droplist <hex>,<hex>,...                 DataValidation.SetDropList -> Formula1, and what the getter decodes
//   xorpw <bytelen> <rune,rune,...>          genSheetPasswd
//   protun <hex pw1> <hex pw2|~>             ProtectSheet(XOR, pw1); UnprotectSheet(pw2)
//   dnreset/dnset/dndel/dnget                defined names on one workbook (stateful)
// Direct oracles (no model): every Set*/Get* pair, whole structures, immediately /
// after unrelated edits / after save+reopen.  Record token: Name:<p|v><b|i|f|s>(~|=payload).

import (
	"bytes"
	"fmt"
	"math"
	"reflect"
	"sort"
	"strconv"
	"strings"

	xl "github.com/xuri/excelize/v2"
)

func init() { props["C18"] = runC18 }

// ---------------------------------------------------------------- value pools

var c18Strs = []string{"", "a", "Sheet1", "x&y", "<b>", "a>b", `q"q`, "&amp;", "&lt;x&gt;", "&quot;", "tab\there", "line\nbreak",
	" lead", "trail ", "é漢字", "_x000D_", "=A1", "'", "a,b", "1", "true", "&", "<", ">", `"`, `""`, "]]>", "&#38;", "😀"}
var c18Ints = []int{0, 1, -1, 2, 9, 10, 64, 100, 255, 256, 400, 401, 32767, 65535, math.MaxInt32, math.MinInt32}
var c18Floats = []float64{0, math.Copysign(0, -1), 0.5, 1, 9.99, 10, 100, 400, 400.5, 1e-7, 1e21, -3.25, 0.1 + 0.2, 0.75, 0.3, 8.43}
var c18Uints = []uint{0, 1, 9, 10, 100, 400, 401, 65535, math.MaxUint32}

func c18Str(rng *Rng) string {
	if rng.Chance(4) {
		return strings.Repeat("L", rng.Pick2([]int{254, 255, 256, 300}))
	}
	if rng.Chance(15) {
		return c18Strs[rng.Intn(len(c18Strs))] + c18Strs[rng.Intn(len(c18Strs))]
	}
	return c18Strs[rng.Intn(len(c18Strs))]
}

// c18Fill fills a struct (addressable) with random values: pointers nil / zero / set.
func c18Fill(rng *Rng, v reflect.Value) {
	for i := 0; i < v.NumField(); i++ {
		f := v.Field(i)
		if !f.CanSet() {
			continue
		}
		c18FillVal(rng, f)
	}
}

func c18FillVal(rng *Rng, f reflect.Value) {
	switch f.Kind() {
	case reflect.Ptr:
		switch c := rng.Intn(100); {
		case c < 35:
			f.Set(reflect.Zero(f.Type()))
		case c < 55:
			f.Set(reflect.New(f.Type().Elem()))
		default:
			p := reflect.New(f.Type().Elem())
			c18FillVal(rng, p.Elem())
			f.Set(p)
		}
	case reflect.Bool:
		f.SetBool(rng.Bool())
	case reflect.Int:
		f.SetInt(int64(c18Ints[rng.Intn(len(c18Ints))]))
	case reflect.Uint, reflect.Uint8:
		u := c18Uints[rng.Intn(len(c18Uints))]
		if f.Kind() == reflect.Uint8 {
			u &= 0xff
		}
		f.SetUint(uint64(u))
	case reflect.Float64:
		f.SetFloat(c18Floats[rng.Intn(len(c18Floats))])
	case reflect.String:
		f.SetString(c18Str(rng))
	case reflect.Struct:
		c18Fill(rng, f)
	case reflect.Slice:
		n := rng.Intn(4)
		s := reflect.MakeSlice(f.Type(), n, n)
		for i := 0; i < n; i++ {
			c18FillVal(rng, s.Index(i))
		}
		if n == 0 && rng.Bool() {
			s = reflect.Zero(f.Type())
		}
		f.Set(s)
	}
}

// ---------------------------------------------------------------- canonical rendering

func c18Scalar(v reflect.Value) string {
	switch v.Kind() {
	case reflect.Bool:
		if v.Bool() {
			return "b=1"
		}
		return "b=0"
	case reflect.Int, reflect.Int64, reflect.Int32:
		return "i=" + strconv.FormatInt(v.Int(), 10)
	case reflect.Uint, reflect.Uint8, reflect.Uint32, reflect.Uint64:
		return "u=" + strconv.FormatUint(v.Uint(), 10)
	case reflect.Float64:
		x := v.Float()
		if x == 0 { // -0 == 0 in Go: not a difference the property can see
			x = 0
		}
		return "f=" + strconv.FormatUint(math.Float64bits(x), 16)
	case reflect.String:
		return "s=" + hx(v.String())
	}
	return "?" + v.Kind().String()
}

// c18Render maps field path -> canonical value ("~" for a nil pointer).
func c18Render(prefix string, v reflect.Value, out map[string]string) {
	switch v.Kind() {
	case reflect.Ptr:
		if v.IsNil() {
			out[prefix] = "~"
			return
		}
		c18Render(prefix, v.Elem(), out)
	case reflect.Struct:
		for i := 0; i < v.NumField(); i++ {
			if v.Type().Field(i).PkgPath != "" {
				continue
			}
			p := v.Type().Field(i).Name
			if prefix != "" {
				p = prefix + "." + p
			}
			c18Render(p, v.Field(i), out)
		}
	case reflect.Slice:
		out[prefix+".#"] = strconv.Itoa(v.Len())
		for i := 0; i < v.Len(); i++ {
			c18Render(fmt.Sprintf("%s[%d]", prefix, i), v.Index(i), out)
		}
	default:
		out[prefix] = c18Scalar(v)
	}
}

func c18Map(x interface{}) map[string]string {
	m := map[string]string{}
	v := reflect.ValueOf(x)
	if v.Kind() == reflect.Ptr && v.IsNil() {
		m["<nil>"] = "~"
		return m
	}
	c18Render("", v, m)
	return m
}

func c18Show(m map[string]string) string {
	ks := make([]string, 0, len(m))
	for k := range m {
		ks = append(ks, k)
	}
	sort.Strings(ks)
	var sb strings.Builder
	for _, k := range ks {
		sb.WriteString(k + ":" + m[k] + " ")
	}
	return strings.TrimSpace(sb.String())
}

// c18Class describes the option value of a field for signatures.
func c18Class(v string) string {
	switch {
	case v == "~":
		return "nil"
	case v == "b=0" || v == "i=0" || v == "u=0" || v == "f=0" || v == "s=-":
		return "zero"
	case v == "":
		return "absent"
	}
	return "set"
}

// ---------------------------------------------------------------- generic pair engine

type c18Pair struct {
	name   string
	mk     func(rng *Rng) interface{}                           // pointer to a fresh random options struct
	set    func(f *xl.File, o interface{}) error                // setter
	get    func(f *xl.File) (interface{}, error)                // getter (struct or pointer)
	expect func(before, opts map[string]string) map[string]string // what the property demands (default: overlay)
	reopen func(exp map[string]string) map[string]string        // documented differences after save+reopen (nil = none)
	fresh  map[string]string                                    // getter result on a new workbook (defaults)
	fields []string                                             // fields routed through the modelled helpers (transcript op "pair")
	sig    func(field string, opts map[string]string) string    // signature suffix naming the value class that matters (optional)
}

// eff is the effective value of a rendering: a nil pointer stands for the
// default the getter reports on a new workbook (or the zero value), and every
// zero value is written "z".
func (p *c18Pair) eff(k, v string) string {
	if v == "~" || v == "" {
		d, ok := p.fresh[c18FieldKey(k)]
		if !ok {
			d = p.fresh[k]
		}
		if d == "" || d == "~" {
			return "z"
		}
		v = d
	}
	if c18Class(v) == "zero" {
		return "z"
	}
	return v
}

// overlay: a nil pointer in opts leaves the setting as it was, everything else replaces it.
func c18Overlay(before, opts map[string]string) map[string]string {
	exp := map[string]string{}
	for k, v := range before {
		exp[k] = v
	}
	for k, v := range opts {
		if v != "~" {
			exp[k] = v
		}
	}
	return exp
}

func c18Replace(before, opts map[string]string) map[string]string {
	exp := map[string]string{}
	for k, v := range opts {
		exp[k] = v
	}
	return exp
}

func c18Copy(m map[string]string) map[string]string {
	c := map[string]string{}
	for k, v := range m {
		c[k] = v
	}
	return c
}

// c18Diff reports differing fields of two renderings.
func c18Diff(exp, got map[string]string) []string {
	var d []string
	for k, v := range exp {
		if got[k] != v {
			d = append(d, k)
		}
	}
	for k := range got {
		if _, ok := exp[k]; !ok {
			d = append(d, k)
		}
	}
	sort.Strings(d)
	return d
}

var c18IdxRe = strings.NewReplacer("0", "", "1", "", "2", "", "3", "", "4", "", "5", "", "6", "", "7", "", "8", "", "9", "")

func c18FieldKey(k string) string { // Selection[2].Pane -> Selection[].Pane
	i := strings.Index(k, "[")
	if i < 0 {
		return k
	}
	j := strings.Index(k, "]")
	return k[:i+1] + k[j:]
}

func c18Unrelated(f *xl.File, rng *Rng) {
	_ = f.SetCellValue("Sheet1", "C3", rng.Intn(1000))
	_ = f.SetCellStr("Sheet1", "D4", c18Str(rng))
	_ = f.SetColWidth("Sheet1", "F", "G", 17.5)
	_ = f.SetRowHeight("Sheet1", 9, 33)
	if idx, _ := f.GetSheetIndex("Other"); idx < 0 {
		_, _ = f.NewSheet("Other")
	}
	_ = f.SetCellValue("Other", "A1", "x")
	_ = f.MergeCell("Sheet1", "J10", "K11")
}

func c18Reopen(f *xl.File) (*xl.File, error) {
	buf, err := f.WriteToBuffer()
	if err != nil {
		return nil, err
	}
	return xl.OpenReader(bytes.NewReader(buf.Bytes()))
}

func c18Safe(fn func() error) (err error, panicked bool) {
	defer func() {
		if p := recover(); p != nil {
			err, panicked = fmt.Errorf("panic: %v", p), true
		}
	}()
	return fn(), false
}

// c18RunPair runs one history of k successive sets on one workbook.
func c18RunPair(r *Run, rng *Rng, p *c18Pair, steps int, forced []interface{}) {
	f := xl.NewFile()
	defer f.Close()
	var hist []string
	for s := 0; s < steps; s++ {
		var o interface{}
		if s < len(forced) {
			o = forced[s]
		} else {
			o = p.mk(rng)
		}
		om := c18Map(reflect.ValueOf(o).Elem().Interface())
		hist = append(hist, c18Show(om))
		replay := "# pair " + p.name + " history (field:value, ~ = nil pointer, strings hex)\n# " + strings.Join(hist, "\n# ")
		bv, err := p.get(f)
		if err != nil {
			r.Fail(p.name+":getter-error", "getter failed before set: "+err.Error(), 0, replay)
			return
		}
		before := c18Map(bv)
		serr, pan := c18Safe(func() error { return p.set(f, o) })
		if p.fields != nil {
			res := "PANIC"
			if !pan && serr != nil {
				res = "ERR"
			} else if !pan {
				if gv, e := p.get(f); e == nil {
					res = "ok " + c18Rec(gv, p.fields)
				}
			}
			r.Op("pair "+p.name+" | "+c18Rec(bv, p.fields)+" | "+c18Rec(o, p.fields), res)
		}
		r.Case(p.name+"|"+strings.Join(hist, "|"), true)
		r.Stat("pair:" + p.name)
		if pan {
			r.Stat("pair-panic:" + p.name)
			fields := []string{}
			for k, v := range om {
				if v != "~" && c18Class(v) != "zero" {
					fields = append(fields, k)
				}
			}
			sort.Strings(fields)
			r.Fail(p.name+":panic", fmt.Sprintf("%s setter panicked (%v) on %s", p.name, serr, c18Show(om)), 0, replay)
			return
		}
		av, gerr := p.get(f)
		if gerr != nil {
			r.Fail(p.name+":getter-error", "getter failed after set: "+gerr.Error(), 0, replay)
			return
		}
		after := c18Map(av)
		if serr != nil {
			r.Stat("pair-rejected:" + p.name)
			if len(c18Diff(before, after)) > 0 {
				r.Stat("pair-rejected-but-partly-applied:" + p.name)
			}
			continue
		}
		exp := p.expect(before, om)
		for _, k := range c18Diff(exp, after) {
			if ov, ok := om[k]; ok && p.eff(k, ov) == p.eff(k, after[k]) {
				continue // the getter returns literally what was set
			}
			if p.eff(k, exp[k]) == p.eff(k, after[k]) {
				continue // nil pointer == the default it stands for
			}
			sig := fmt.Sprintf("%s:%s", p.name, c18FieldKey(k))
			if p.sig != nil {
				sig += p.sig(k, om)
			}
			r.Fail(sig, fmt.Sprintf("%s: field %s set %q (" + c18Class(om[k]) + "), before %q, getter returns %q, expected %q", p.name, k, om[k], before[k], after[k], exp[k]), 0, replay)
		}
		// after unrelated edits
		if rng.Chance(50) {
			c18Unrelated(f, rng)
			ev, e2 := p.get(f)
			if e2 != nil || len(c18Diff(after, c18Map(ev))) > 0 {
				r.Fail(p.name+":changed-by-unrelated-edit", fmt.Sprintf("%s: getter result changed after unrelated edits: %v", p.name, c18Diff(after, c18Map(ev))), 0, replay)
			}
		}
		// after save + reopen
		if rng.Chance(30) || s == steps-1 {
			r.Stat("pair-reopen:" + p.name)
			g, e2 := c18Reopen(f)
			if e2 != nil {
				r.Fail(p.name+":reopen-error", fmt.Sprintf("%s: workbook does not reopen after set: %v; opts %s", p.name, e2, c18Show(om)), 0, replay)
				return
			}
			rv, e3 := p.get(g)
			want := after
			if p.reopen != nil {
				want = p.reopen(c18Copy(after))
			}
			if e3 != nil {
				r.Fail(p.name+":getter-error-after-reopen", e3.Error(), 0, replay)
			} else {
				got := c18Map(rv)
				for _, k := range c18Diff(want, got) {
					if p.eff(k, want[k]) == p.eff(k, got[k]) {
						continue
					}
					sig := fmt.Sprintf("%s:%s:reopen", p.name, c18FieldKey(k))
					r.Fail(sig, fmt.Sprintf("%s: field %s is %q before save and %q after reopen (set %q)", p.name, k, after[k], got[k], om[k]), 0, replay)
				}
			}
			g.Close()
			// an intervening save must not change the live file either
			lv, _ := p.get(f)
			if d := c18Diff(after, c18Map(lv)); len(d) > 0 {
				r.Fail(p.name+":changed-by-save", fmt.Sprintf("%s: getter result on the live file changed after a save: %v", p.name, d), 0, replay)
			}
		}
	}
}

func c18Pick(rng *Rng, pct int, good []string, p **string) {
	if *p != nil && rng.Chance(pct) {
		s := good[rng.Intn(len(good))]
		*p = &s
	}
}

func reflectElem(o interface{}) reflect.Value { return reflect.ValueOf(o).Elem() }
