//go:build verif_c18

package main

// C18 — conditional-format rule contents (model: XlModel.CfRule).
//   cfr <24 fields of ConditionalFormatOptions in struct order; strings hex, bools 0/1, Format ~|int>
// Go: SetConditionalFormat(Sheet1, "A1:A10", [opts]) on a new workbook, GetConditionalFormats:
// "ERR" (rejected), "hidden" (accepted, but the getter lists no rule), or the decoded options.

import (
	"fmt"
	"strings"

	xl "github.com/xuri/excelize/v2"
)

func c18CfrLine(o xl.ConditionalFormatOptions) string {
	b := func(x bool) string {
		if x {
			return "1"
		}
		return "0"
	}
	fm := "~"
	if o.Format != nil {
		fm = fmt.Sprint(*o.Format)
	}
	return strings.Join([]string{hx(o.Type), b(o.AboveAverage), b(o.Percent), fm, hx(o.Criteria), hx(o.Value), hx(o.MinType), hx(o.MidType),
		hx(o.MaxType), hx(o.MinValue), hx(o.MidValue), hx(o.MaxValue), hx(o.MinColor), hx(o.MidColor), hx(o.MaxColor), hx(o.BarColor),
		hx(o.BarBorderColor), hx(o.BarDirection), b(o.BarOnly), b(o.BarSolid), hx(o.IconStyle), b(o.ReverseIcons), b(o.IconsOnly), b(o.StopIfTrue)}, " ")
}

func c18Cfr(r *Run, o xl.ConditionalFormatOptions) {
	line := "cfr " + c18CfrLine(o)
	f := xl.NewFile()
	defer f.Close()
	res := ""
	err, pan := c18Safe(func() error { return f.SetConditionalFormat(c18Sheet, "A1:A10", []xl.ConditionalFormatOptions{o}) })
	switch {
	case pan:
		res = "PANIC"
	case err != nil:
		res = "ERR"
	default:
		got, e := f.GetConditionalFormats(c18Sheet)
		switch {
		case e != nil:
			res = "ERR-get"
		case len(got["A1:A10"]) == 0:
			res = "hidden"
		default:
			res = "ok " + c18CfrLine(got["A1:A10"][0])
		}
	}
	ln := r.Op(line, res)
	r.Case(line, true)
	r.Stat("cfr:" + o.Type + ":" + strings.Fields(res)[0])
	if res == "PANIC" {
		r.Fail("cfr:panic", fmt.Sprintf("SetConditionalFormat panicked on %+v: %v", o, err), ln, line)
	}
	if res == "hidden" {
		r.Fail("cfr:accepted-but-not-listed:"+o.Type, fmt.Sprintf("SetConditionalFormat accepted %+v but GetConditionalFormats lists no rule for the range", o), ln, line)
	}
}

func c18Cfrs(r *Run, rng *Rng, mul int) {
	types := []string{"cell", "average", "duplicate", "unique", "top", "bottom", "text", "time_period", "blanks", "no_blanks", "errors", "no_errors",
		"2_color_scale", "3_color_scale", "data_bar", "formula", "icon_set", "bogus", ""}
	crits := []string{"=", "==", "<>", "!=", ">", "<", ">=", "<=", "between", "not between", "equal to", "not equal to", "greater than", "less than",
		"greater than or equal to", "less than or equal to", "containing", "not containing", "begins with", "ends with", "yesterday", "today", "tomorrow",
		"last 7 days", "last week", "this week", "continue week", "last month", "this month", "continue month", "", "bogus", "A1>5"}
	vals := []string{"", "6", "10", "007", "-3", "+4", "abc", "1.5", "A1>5", `"x"`, "$B$1", "99999999999999999999", "0", "50"}
	cfvoTypes := []string{"min", "max", "num", "percent", "percentile", "formula", ""}
	colors := []string{"#F8696B", "#63be7b", "FFEB84", "#FF0000", "#ffffff", "#000000"}
	icons := []string{"3Arrows", "4Rating", "5Quarters", "3Flags", "5ArrowsGray", "bogus", ""}
	dirs := []string{"", "leftToRight", "rightToLeft", "context", "bogus"}
	pick := func(xs []string) string { return xs[rng.Intn(len(xs))] }
	// deterministic: text / time-period rules with a criteria of another family, top with a non-number
	for _, o := range []xl.ConditionalFormatOptions{
		{Type: "text", Criteria: "greater than", Value: "abc"},
		{Type: "time_period", Criteria: "between"},
		{Type: "top", Criteria: "=", Value: "abc"},
		{Type: "cell", Criteria: "yesterday", Value: "5"},
		{Type: "cell", Criteria: "last 7 days", Value: "5", MinValue: "1", MaxValue: "9", StopIfTrue: true}, // cf_cell_other_roundtrip: no formula stored
		{Type: "3_color_scale", Criteria: "=", MinType: "min", MidType: "percentile", MaxType: "max", MinColor: "#F8696B", MidColor: "#FFEB84", MaxColor: "#63BE7B"},
		{Type: "data_bar", Criteria: "=", MinType: "min", MaxType: "max", BarColor: "#638EC6", BarDirection: "context", BarSolid: true},
	} {
		c18Cfr(r, o)
	}
	for i := 0; i < 500*mul; i++ {
		var o xl.ConditionalFormatOptions
		o.Type = pick(types)
		if rng.Chance(85) {
			o.Type = types[rng.Intn(17)]
		}
		o.Criteria = pick(crits)
		if rng.Chance(40) {
			o.Criteria = "="
		}
		o.Value = pick(vals)
		if rng.Chance(70) {
			z := rng.Intn(3)
			o.Format = &z
		}
		o.AboveAverage, o.Percent, o.StopIfTrue = rng.Bool(), rng.Bool(), rng.Chance(30)
		o.MinType, o.MidType, o.MaxType = pick(cfvoTypes), pick(cfvoTypes), pick(cfvoTypes)
		o.MinValue, o.MidValue, o.MaxValue = pick(vals), pick(vals), pick(vals)
		o.MinColor, o.MidColor, o.MaxColor, o.BarColor = pick(colors), pick(colors), pick(colors), pick(colors)
		if rng.Bool() {
			o.BarBorderColor = pick(colors)
		}
		o.BarDirection, o.BarOnly, o.BarSolid = pick(dirs), rng.Bool(), rng.Bool()
		o.IconStyle, o.ReverseIcons, o.IconsOnly = pick(icons), rng.Bool(), rng.Bool()
		c18Cfr(r, o)
	}
}
