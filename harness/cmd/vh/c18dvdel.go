//go:build verif_c18

package main

// C18 — DeleteDataValidation as list surgery (model: XlModel.DvDelete).
//   dvdel <hex sqref>,<hex sqref>,... <hex delete sqref>
// Go: a new sheet gets one validation per sqref, then DeleteDataValidation(delete sqref);
// result = the remaining rules in order, each as its sorted cell set "col.row,...".
// Direct oracle (independent of the model): every rule keeps exactly its cells outside the
// deleted range, a rule with none left disappears, the order of the others is kept.

import (
	"fmt"
	"sort"
	"strings"

	xl "github.com/xuri/excelize/v2"
)

type c18Cell struct{ c, r int }

// c18Expand: cells denoted by a sqref text (set semantics), ok=false when a token is not a reference
func c18Expand(sqref string) (map[c18Cell]bool, bool) {
	m := map[c18Cell]bool{}
	for _, tok := range strings.Fields(sqref) {
		parts := strings.Split(tok, ":")
		switch len(parts) {
		case 1:
			c, r, err := xl.CellNameToCoordinates(tok)
			if err != nil {
				return nil, false
			}
			m[c18Cell{c, r}] = true
		case 2:
			q, err := xl.VerifRangeRefToCoordinates(tok)
			if err != nil {
				return nil, false
			}
			if q[0] > q[2] {
				q[0], q[2] = q[2], q[0]
			}
			if q[1] > q[3] {
				q[1], q[3] = q[3], q[1]
			}
			for c := q[0]; c <= q[2]; c++ {
				for r := q[1]; r <= q[3]; r++ {
					m[c18Cell{c, r}] = true
				}
			}
		}
	}
	return m, true
}

func c18CellsText(m map[c18Cell]bool) string {
	var cs []c18Cell
	for k := range m {
		cs = append(cs, k)
	}
	sort.Slice(cs, func(i, j int) bool { return cs[i].c < cs[j].c || (cs[i].c == cs[j].c && cs[i].r < cs[j].r) })
	p := make([]string, len(cs))
	for i, k := range cs {
		p[i] = fmt.Sprintf("%d.%d", k.c, k.r)
	}
	return strings.Join(p, ",")
}

func c18DvDel(r *Run, rules []string, del string) {
	hs := make([]string, len(rules))
	for i, s := range rules {
		hs[i] = hx(s)
	}
	line := "dvdel " + strings.Join(hs, ",") + " " + hx(del)
	f := xl.NewFile()
	defer f.Close()
	for i, s := range rules {
		dv := xl.NewDataValidation(true)
		dv.Sqref = s
		_ = dv.SetRange(i, 100+i, xl.DataValidationTypeWhole, xl.DataValidationOperatorBetween)
		_ = f.AddDataValidation(c18Sheet, dv)
	}
	err, pan := c18Safe(func() error { return f.DeleteDataValidation(c18Sheet, del) })
	r.Case(line, true)
	r.Stat("dvdel")
	if pan {
		ln := r.Op(line, "PANIC")
		r.Fail("dvdel:panic", fmt.Sprintf("DeleteDataValidation(%q) on rules %q panicked: %v", del, rules, err), ln, line)
		return
	}
	if err != nil {
		r.Op(line, "ERR")
		r.Stat("dvdel:rejected")
		return
	}
	got, gerr := f.GetDataValidations(c18Sheet)
	if gerr != nil {
		ln := r.Op(line, "ERR-get")
		r.Fail("dvdel:getter-error", gerr.Error(), ln, line)
		return
	}
	var gotTxt []string
	var gotF1 []string
	for _, g := range got {
		m, ok := c18Expand(g.Sqref)
		if !ok {
			gotTxt = append(gotTxt, "?"+g.Sqref)
		} else {
			gotTxt = append(gotTxt, c18CellsText(m))
		}
		gotF1 = append(gotF1, g.Formula1)
	}
	res := "ok " + strings.Join(gotTxt, ";")
	if len(got) == 0 {
		res = "ok -"
	}
	ln := r.Op(line, res)
	// oracle
	delCells, _ := c18Expand(del)
	var want, wantF1 []string
	overlapping := false
	for i, s := range rules {
		m, ok := c18Expand(s)
		if !ok {
			return
		}
		n := 0
		for _, tok := range strings.Fields(s) {
			t, _ := c18Expand(tok)
			n += len(t)
		}
		if n != len(m) {
			overlapping = true // the areas of this sqref overlap
		}
		for k := range delCells {
			delete(m, k)
		}
		if len(m) > 0 {
			want = append(want, c18CellsText(m))
			wantF1 = append(wantF1, fmt.Sprint(i))
		}
	}
	if strings.Join(want, ";") != strings.Join(gotTxt, ";") || strings.Join(wantF1, ";") != strings.Join(gotF1, ";") {
		sig := "dvdel:not-exact"
		switch {
		case overlapping:
			sig = "dvdel:overlapping-areas"
		case !c18AscendingAreas(rules):
			sig = "dvdel:areas-not-ascending"
		}
		r.Fail(sig, fmt.Sprintf("rules %q, delete %q: remaining rules (cells) %q with formulas %q, expected %q with %q", rules, del, gotTxt, gotF1, want, wantF1), ln, line)
	}
}

// c18AscendingAreas: within every column the cells of each sqref appear with strictly increasing rows
func c18AscendingAreas(rules []string) bool {
	for _, s := range rules {
		last := map[int]int{}
		for _, tok := range strings.Fields(s) {
			parts := strings.Split(tok, ":")
			var q []int
			if len(parts) == 1 {
				c, r, err := xl.CellNameToCoordinates(tok)
				if err != nil {
					return true
				}
				q = []int{c, r, c, r}
			} else {
				var err error
				if q, err = xl.VerifRangeRefToCoordinates(tok); err != nil {
					return true
				}
				if q[0] > q[2] {
					q[0], q[2] = q[2], q[0]
				}
				if q[1] > q[3] {
					q[1], q[3] = q[3], q[1]
				}
			}
			for c := q[0]; c <= q[2]; c++ {
				if l, ok := last[c]; ok && q[1] <= l {
					return false
				}
				last[c] = q[3]
			}
		}
	}
	return true
}

func c18DvDeletes(r *Run, rng *Rng, mul int) {
	// deterministic: adjacent rules emptied by one call (seeded change C18d/2), partial covers,
	// multi-range sqrefs on both sides, overlapping and descending areas inside one rule
	adj := []string{"A1:A3", "B1:B3", "C1:C3", "E1:E5"}
	for _, d := range []string{"A1:C3", "A1:B3", "B1:C3", "A1:E5", "A2:C2", "A1:A3", "B2", "A1:C3 E1", "A3:B1", "XFD1", "A1:B2 B2:C3"} {
		c18DvDel(r, adj, d)
	}
	c18DvDel(r, []string{"A1:A3 C1:C2", "A4:B5", "C3 D1:D2"}, "A1:C5")
	c18DvDel(r, []string{"A1:A3 C1:C2", "A4:B5", "C3 D1:D2"}, "A2:A4 C1")
	c18DvDel(r, []string{"A1:A3 A2:A4", "B1"}, "A2")
	c18DvDel(r, []string{"A1:A2 A2", "B1"}, "A2")
	c18DvDel(r, []string{"A5:A6 A1:A2", "B1"}, "C9")
	c18DvDel(r, []string{"A3 A1", "B1"}, "B1")
	c18DvDel(r, []string{"A1", "A1", "A1"}, "A1")
	c18DvDel(r, []string{"A1:B2"}, "A0")
	c18DvDel(r, []string{"A1:B2", "bogus"}, "A1")
	cols := []string{"A", "B", "C", "D", "E"}
	ref := func() string {
		c1, c2 := rng.Intn(5), rng.Intn(5)
		r1, r2 := rng.Range(1, 6), rng.Range(1, 6)
		if rng.Chance(30) {
			return fmt.Sprintf("%s%d", cols[c1], r1)
		}
		if rng.Chance(80) { // mostly normalised corners
			if c2 < c1 {
				c1, c2 = c2, c1
			}
			if r2 < r1 {
				r1, r2 = r2, r1
			}
		}
		return fmt.Sprintf("%s%d:%s%d", cols[c1], r1, cols[c2], r2)
	}
	for i := 0; i < 250*mul; i++ {
		n := rng.Range(1, 5)
		rules := make([]string, n)
		for j := range rules {
			if rng.Chance(55) { // adjacent single-column blocks: several rules emptied by one delete
				rules[j] = fmt.Sprintf("%s1:%s%d", cols[j], cols[j], rng.Range(1, 4))
			} else {
				rules[j] = ref()
				if rng.Chance(25) {
					rules[j] += " " + ref()
				}
			}
		}
		del := ref()
		if rng.Chance(30) {
			del = fmt.Sprintf("A1:%s%d", cols[rng.Range(1, 4)], rng.Range(2, 6))
		}
		if rng.Chance(20) {
			del += " " + ref()
		}
		c18DvDel(r, rules, del)
	}
}

// ---------------------------------------------------------------- dvb: the record through the builder methods

// c18Dvb: `dvb <allowBlank> <showDropDown> <rs|ri|list|sqref> <type> <operator> <a> <b> <errstyle|~> <hex title> <hex msg>
// <input 0|1> <hex title> <hex msg> <hex sqref>` — model: XlModel.DvRecord
func c18Dvb(r *Run, ab, dd bool, form string, t, o int, a, b string, errStyle int, et, em string, in bool, it, im, sq string) {
	bit := map[bool]string{false: "0", true: "1"}
	es := "~"
	if errStyle >= 0 {
		es = fmt.Sprint(errStyle)
	}
	ea, eb := hx(a), hx(b)
	dv := xl.NewDataValidation(ab)
	dv.Sqref, dv.ShowDropDown = sq, dd
	switch form {
	case "rs":
		_ = dv.SetRange(a, b, xl.DataValidationType(t), xl.DataValidationOperator(o))
	case "ri":
		ea, eb = a, b
		var x, y int
		fmt.Sscan(a, &x)
		fmt.Sscan(b, &y)
		_ = dv.SetRange(x, y, xl.DataValidationType(t), xl.DataValidationOperator(o))
	case "list":
		keys := strings.Split(a, "\x00")
		hs := make([]string, len(keys))
		for i, k := range keys {
			hs[i] = hx(k)
		}
		ea = strings.Join(hs, ",")
		_ = dv.SetDropList(keys)
	case "sqref":
		dv.SetSqrefDropList(a)
	}
	if errStyle >= 0 {
		dv.SetError(xl.DataValidationErrorStyle(errStyle), et, em)
	}
	if in {
		dv.SetInput(it, im)
	}
	line := fmt.Sprintf("dvb %s %s %s %d %d %s %s %s %s %s %s %s %s %s", bit[ab], bit[dd], form, t, o, ea, eb, es, hx(et), hx(em), bit[in], hx(it), hx(im), hx(sq))
	f := c18DvBook()
	defer f.Close()
	res := "ERR"
	if err := f.AddDataValidation(c18Sheet, dv); err == nil {
		if got, e := f.GetDataValidations(c18Sheet); e == nil && len(got) == 1 {
			res = "ok " + c18Show(c18Map(*got[0]))
		}
	}
	r.Op(line, res)
	r.Case(line, true)
	r.Stat("dvb:" + form)
	// the saved element: attributes in document order, formulas as decoded text
	xres := "ERR"
	if buf, err := f.WriteToBuffer(); err == nil {
		if attrs, texts, ok := c18Element(buf.Bytes(), "xl/worksheets/sheet1.xml", "dataValidation", []string{"formula1", "formula2"}); ok {
			el := func(k string) string {
				if t, ok := texts[k]; ok {
					return hx(t)
				}
				return "~"
			}
			xres = "ok " + c18AttrText(attrs) + " f1=" + el("formula1") + " f2=" + el("formula2")
		}
	}
	r.Op("dvx"+strings.TrimPrefix(line, "dvb"), xres)
}

func c18Dvbs(r *Run, rng *Rng, mul int) {
	strs := []string{"A1", "LEN(A1)<5", `A1&"x"`, `"a""b"`, `"txt"`, "A1&amp;B1", "", "'P&L'!$A$1", ">", `"`}
	for i := 0; i < 200*mul; i++ {
		form := rng.Pick([]string{"rs", "rs", "ri", "list", "sqref"})
		t, o := rng.Range(0, 9), rng.Range(0, 9)
		a, b := strs[rng.Intn(len(strs))], strs[rng.Intn(len(strs))]
		switch form {
		case "ri":
			a, b = fmt.Sprint(rng.Range(-9, 1000)), fmt.Sprint(c18Ints[rng.Intn(len(c18Ints))])
		case "list":
			n := rng.Range(1, 3)
			ks := make([]string, n)
			for j := range ks {
				ks[j] = c18EscStr(rng)
			}
			if rng.Chance(4) {
				ks[0] = strings.Repeat("k", 256)
			}
			a, b = strings.Join(ks, "\x00"), ""
		case "sqref":
			a, b = rng.Pick(append(c18DvSources, `"q""q"`)), ""
		}
		es := -1
		if rng.Bool() {
			es = rng.Range(0, 4)
		}
		c18Dvb(r, rng.Bool(), rng.Bool(), form, t, o, a, b, es, c18Str(rng), c18Str(rng), rng.Bool(), c18Str(rng), c18Str(rng), rng.Pick([]string{"A1:B2", "D1", "H1:H2 J1:J2", ""}))
	}
}
