//go:build verif_c18

package main

// C18 — helper tie (generic copy, escapers, XOR hash), protection, dispatcher.

import (
	"fmt"
	"math"
	"reflect"
	"strconv"
	"strings"
	"unicode/utf8"

	xl "github.com/xuri/excelize/v2"
)

// harness-defined structs driving the generic helpers over every kind combination
type c18O1 struct {
	B *bool
	I *int
	F *float64
	S *string
}
type c18P1 struct {
	B bool
	I int
	F float64
	S string
}
type c18Mis struct {
	B string
	I bool
	F string
	S int
}

// c18Rec encodes the listed fields of a struct: Name:<p|v><b|i|f|s>(~|=payload)
func c18Rec(x interface{}, only []string) string {
	v := reflect.ValueOf(x)
	if v.Kind() == reflect.Ptr {
		v = v.Elem()
	}
	var parts []string
	for i := 0; i < v.NumField(); i++ {
		name := v.Type().Field(i).Name
		if only != nil && !c18In(only, name) {
			continue
		}
		f := v.Field(i)
		pv := "v"
		if f.Kind() == reflect.Ptr {
			pv = "p"
			if f.IsNil() {
				if kl := c18KindLetter(f.Type().Elem().Kind()); kl != "o" {
					parts = append(parts, name+":p"+kl+"~")
				}
				continue
			}
			f = f.Elem()
		}
		var pay string
		switch f.Kind() {
		case reflect.Bool:
			pay = map[bool]string{false: "0", true: "1"}[f.Bool()]
		case reflect.Int:
			pay = strconv.FormatInt(f.Int(), 10)
		case reflect.Float64:
			pay = strconv.FormatUint(math.Float64bits(f.Float()), 16)
		case reflect.String:
			pay = hx(f.String())
		default:
			continue // kinds outside the model (uint...) are not part of the record
		}
		parts = append(parts, name+":"+pv+c18KindLetter(f.Kind())+"="+pay)
	}
	if len(parts) == 0 {
		return "-"
	}
	return strings.Join(parts, " ")
}

func c18KindLetter(k reflect.Kind) string {
	switch k {
	case reflect.Bool:
		return "b"
	case reflect.Int:
		return "i"
	case reflect.Float64:
		return "f"
	case reflect.String:
		return "s"
	}
	return "o"
}

func c18In(xs []string, s string) bool {
	for _, x := range xs {
		if x == s {
			return true
		}
	}
	return false
}

func c18HelperCase(r *Run, rng *Rng) {
	all := []string{"B", "I", "F", "S"}
	var fields []string
	for _, f := range all {
		if rng.Chance(70) {
			fields = append(fields, f)
		}
	}
	if rng.Chance(10) {
		fields = append(fields, fields...)
	}
	if rng.Chance(5) {
		fields = append(fields, "Z")
	}
	for i := len(fields) - 1; i > 0; i-- {
		j := rng.Intn(i + 1)
		fields[i], fields[j] = fields[j], fields[i]
	}
	mkO := func() *c18O1 { o := &c18O1{}; c18Fill(rng, reflectElem(o)); return o }
	mkP := func() *c18P1 { p := &c18P1{}; c18Fill(rng, reflectElem(p)); return p }
	mkM := func() *c18Mis { p := &c18Mis{}; c18Fill(rng, reflectElem(p)); return p }
	fl := strings.Join(fields, ",")
	if fl == "" {
		fl = "-"
	}
	noPtr := rng.Bool()
	var imm, mut interface{} // mut is a pointer
	switch c := rng.Intn(10); {
	case c < 4 && noPtr:
		imm, mut = *mkO(), mkP()
	case c < 7 && noPtr:
		imm, mut = *mkP(), mkP()
	case c < 9 && noPtr:
		imm, mut = *mkO(), mkM()
	case noPtr:
		imm, mut = *mkP(), mkO()
	case c < 5:
		imm, mut = *mkP(), mkO()
	case c < 7:
		imm, mut = *mkO(), mkP()
	case c < 8:
		imm, mut = *mkO(), mkO()
	case c < 9:
		imm, mut = *mkP(), mkP()
	default:
		imm, mut = *mkM(), mkO()
	}
	op := "cpp"
	if noPtr {
		op = "cpn"
	}
	line := fmt.Sprintf("%s %s | %s | %s", op, fl, c18Rec(imm, nil), c18Rec(mut, nil))
	_, pan := c18Safe(func() error {
		if noPtr {
			xl.VerifC18SetNoPtrFieldsVal(fields, imm, mut)
		} else {
			xl.VerifC18SetPtrFieldsVal(fields, imm, mut)
		}
		return nil
	})
	res := "PANIC"
	if !pan {
		res = "ok " + c18Rec(mut, nil)
	}
	r.Op(line, res)
	r.Case(line, true)
	r.Stat("helper:" + op + ":" + res[:2])
}

// ---------------------------------------------------------------- escapers

var c18Frags = []string{"&", "<", ">", "&amp;", "&lt;", "&gt;", "amp;", "&am", "a", `"`, `""`, ";", "lt;", "&&", "=", "é", ",", "&quot;", "b c", "&#38;", "gt;"}

func c18EscStr(rng *Rng) string {
	n := rng.Range(0, 6)
	var sb strings.Builder
	for i := 0; i < n; i++ {
		sb.WriteString(c18Frags[rng.Intn(len(c18Frags))])
	}
	return sb.String()
}

func c18Esc(r *Run, s string) {
	e := xl.VerifC18FormulaEscape(s)
	ln := r.Op("esc "+hx(s), hx(e))
	r.Case("esc:"+s, true)
	r.Stat("esc")
	if back := xl.VerifC18FormulaUnescape(e); back != s {
		r.Fail("escape:roundtrip", fmt.Sprintf("formulaUnescaper(formulaEscaper(%q)) = %q", s, back), ln, "esc "+hx(s))
	}
}

func c18Unesc(r *Run, s string) {
	r.Op("unesc "+hx(s), hx(xl.VerifC18FormulaUnescape(s)))
	r.Op("dvunesc "+hx(s), hx(xl.VerifC18UnescapeDataValidationFormula(s)))
	r.Case("unesc:"+s, true)
	r.Stat("unesc")
}

func c18DropList(r *Run, keys []string) {
	hs := make([]string, len(keys))
	for i, k := range keys {
		hs[i] = hx(k)
	}
	line := "droplist " + strings.Join(hs, ",")
	dv := xl.NewDataValidation(true)
	dv.Sqref = "A1:A3"
	err := dv.SetDropList(keys)
	r.Case(line, true)
	r.Stat("droplist")
	if err != nil {
		r.Op(line, "ERR")
		return
	}
	dec := xl.VerifC18UnescapeDataValidationFormula(dv.Formula1)
	ln := r.Op(line, "ok "+hx(dv.Formula1)+" "+hx(dec))
	joined := strings.Join(keys, ",")
	want := `"` + joined + `"`
	if strings.HasPrefix(joined, "=") {
		want = joined
	}
	f := xl.NewFile()
	defer f.Close()
	if e := f.AddDataValidation(c18Sheet, dv); e != nil {
		r.Fail("dv:droplist:add-error", e.Error(), ln, line)
		return
	}
	bad := false
	chk := func(g *xl.File, phase string) {
		if bad {
			return
		}
		dvs, e := g.GetDataValidations(c18Sheet)
		if e != nil || len(dvs) != 1 {
			r.Fail("dv:droplist:getter"+phase, fmt.Sprintf("GetDataValidations: %v, %d items (list %q)", e, len(dvs), keys), ln, line)
			return
		}
		if dvs[0].Formula1 != want {
			sig := "dv:droplist:Formula1" + phase
			if strings.Trim(joined, `"`) == "" {
				sig = "dv:droplist:Formula1:only-quotes" + phase
			}
			bad = true
			r.Fail(sig, fmt.Sprintf("drop list %q reads back as %q, want %q", keys, dvs[0].Formula1, want), ln, line)
		}
	}
	chk(f, "")
	g, e := c18Reopen(f)
	if e != nil {
		r.Fail("dv:droplist:reopen-error", fmt.Sprintf("list %q: %v", keys, e), ln, line)
		return
	}
	chk(g, ":reopen")
	g.Close()
}

// ---------------------------------------------------------------- XOR hash, protection

func c18XorPw(r *Run, pw string) {
	var runes []string
	for _, c := range pw {
		runes = append(runes, strconv.Itoa(int(c)))
	}
	rs := strings.Join(runes, ",")
	if rs == "" {
		rs = "-"
	}
	line := fmt.Sprintf("xorpw %d %s", len(pw), rs)
	h := xl.VerifC18GenSheetPasswd(pw)
	ln := r.Op(line, h)
	r.Case(line, true)
	r.Stat("xorpw")
	if len(h) > 4 {
		r.Fail("xorpw:range", fmt.Sprintf("genSheetPasswd of a %d-character password = %q: not a 16-bit value (ST_UnsignedShortHex)", utf8.RuneCountInString(pw), h), ln, line)
	}
}

func c18ProtUn(r *Run, pw1, pw2 string, has2 bool) {
	f := xl.NewFile()
	defer f.Close()
	a2 := "~"
	if has2 {
		a2 = hx(pw2)
	}
	line := "protun " + hx(pw1) + " " + a2
	res := "ok"
	if e := f.ProtectSheet(c18Sheet, &xl.SheetProtectionOptions{Password: pw1, EditScenarios: true}); e != nil {
		res = "ERR-protect"
	} else {
		var e2 error
		if has2 {
			e2 = f.UnprotectSheet(c18Sheet, pw2)
		} else {
			e2 = f.UnprotectSheet(c18Sheet)
		}
		if e2 != nil {
			res = "refused"
		}
	}
	ln := r.Op(line, res)
	r.Case(line, true)
	r.Stat("protun:" + res)
	if has2 && pw1 == pw2 && pw1 != "" && res != "ok" {
		r.Fail("protect:verify:XOR", fmt.Sprintf("sheet protected with %q refuses the same password", pw1), ln, line)
	}
}

var c18Algs = []string{"", "MD4", "MD5", "SHA-1", "SHA-256", "SHA-384", "SHA-512", "XOR", "sha-512", "bogus"}
var c18Pws = []string{"password", "p", "Pa$$w0rd<&>", "пароль", "a b", strings.Repeat("x", 24), strings.Repeat("y", 255), "😀", "AAAAAAAAAAAAAAAAAAAAAAAAAAAAAA"}

func c18Protection(r *Run, rng *Rng, alg, pw string, workbook bool) {
	f := xl.NewFile()
	defer f.Close()
	kind := "sheet"
	if workbook {
		kind = "workbook"
	}
	replay := fmt.Sprintf("protect %s %s %s", kind, hx(alg), hx(pw))
	r.Case(replay, true)
	r.Stat("protect:" + kind + ":" + alg)
	other := pw + "x"
	if rng.Bool() && len(pw) > 1 {
		other = pw[:len(pw)-1]
	}
	xorCollide := alg == "" && !workbook && xl.VerifC18GenSheetPasswd(other) == xl.VerifC18GenSheetPasswd(pw)
	var protect func(g *xl.File) error
	var unprotect func(g *xl.File, p ...string) error
	var dump func(g *xl.File) string
	var wantFlags string
	if workbook {
		o := xl.WorkbookProtectionOptions{AlgorithmName: alg, Password: pw, LockStructure: rng.Bool(), LockWindows: rng.Bool()}
		wantFlags = fmt.Sprintf("LockStructure=%v LockWindows=%v", o.LockStructure, o.LockWindows)
		protect = func(g *xl.File) error { oo := o; return g.ProtectWorkbook(&oo) }
		unprotect = func(g *xl.File, p ...string) error { return g.UnprotectWorkbook(p...) }
		dump = func(g *xl.File) string { return xl.VerifC18WorkbookProtection(g) }
	} else {
		o := xl.SheetProtectionOptions{AlgorithmName: alg, Password: pw}
		c18Fill(rng, reflectElem(&o))
		o.AlgorithmName, o.Password = alg, pw
		ov := reflect.ValueOf(o)
		inv := map[string]string{"EditObjects": "Objects", "EditScenarios": "Scenarios"}
		var fl []string
		for i := 0; i < ov.NumField(); i++ {
			if ov.Field(i).Kind() == reflect.Bool {
				n := ov.Type().Field(i).Name
				if m, ok := inv[n]; ok {
					n = m
				}
				fl = append(fl, fmt.Sprintf("%s=%v", n, !ov.Field(i).Bool()))
			}
		}
		wantFlags = strings.Join(fl, " ")
		protect = func(g *xl.File) error { oo := o; return g.ProtectSheet(c18Sheet, &oo) }
		unprotect = func(g *xl.File, p ...string) error { return g.UnprotectSheet(c18Sheet, p...) }
		dump = func(g *xl.File) string { return xl.VerifC18SheetProtection(g, c18Sheet) }
	}
	if err := protect(f); err != nil {
		r.Stat("protect-rejected:" + kind + ":" + alg)
		if d := dump(f); d != "none" {
			r.Stat("protect-rejected-but-applied:" + kind)
		}
		return
	}
	d := dump(f)
	for _, w := range strings.Fields(wantFlags) {
		if !strings.Contains(" "+d+" ", " "+w+" ") {
			r.Fail("protect:"+kind+":flags", fmt.Sprintf("protection record %q lacks %s", d, w), 0, replay)
		}
	}
	check := func(g *xl.File, phase string) {
		if pw == "" {
			return
		}
		// any other password is refused (XOR: unless the 16-bit hashes collide); the quick tier
		// asks this of the live file only (each ISO hash costs 100 000 spins)
		if phase != "" && r.Tier != "thorough" {
		} else if e := unprotect(g, other); e == nil && !xorCollide {
			r.Fail("protect:"+kind+":wrong-accepted:"+alg+phase, fmt.Sprintf("protected with %q (%s); Unprotect(%q) succeeded", pw, alg, other), 0, replay)
			_ = protect(g)
		}
		if dump(g) == "none" && !xorCollide {
			r.Fail("protect:"+kind+":removed-by-refused-unprotect"+phase, "protection gone after a refused password", 0, replay)
		}
		if e := unprotect(g, pw); e != nil {
			r.Fail("protect:"+kind+":verify:"+alg+phase, fmt.Sprintf("protected with %q (%s); Unprotect with the same password: %v", pw, alg, e), 0, replay)
		} else if dump(g) != "none" {
			r.Fail("protect:"+kind+":not-removed"+phase, "protection still present after successful unprotect", 0, replay)
		}
	}
	g, e := c18Reopen(f)
	if e != nil {
		r.Fail("protect:"+kind+":reopen-error", e.Error(), 0, replay)
	} else {
		if d2 := dump(g); d2 != d {
			r.Fail("protect:"+kind+":reopen", fmt.Sprintf("protection record %q is %q after save+reopen", d, d2), 0, replay)
		}
		check(g, ":reopen")
		g.Close()
	}
	check(f, "")
}

// ---------------------------------------------------------------- dispatcher

func c18Extra(r *Run, rng *Rng) {
	thorough := r.Tier == "thorough"
	mul := 1
	if thorough {
		mul = 10
	}
	for i := 0; i < 1500*mul; i++ {
		c18HelperCase(r, rng)
	}
	c18Lap(r, "dimension+helpers")
	for _, s := range c18Frags {
		c18Esc(r, s)
		c18Unesc(r, s)
	}
	for i := 0; i < 600*mul; i++ {
		c18Esc(r, c18EscStr(rng))
		c18Unesc(r, c18EscStr(rng))
	}
	// drop lists: deterministic witnesses first
	for _, ks := range [][]string{{"a", "b"}, {"a&b", "<c>"}, {`"`}, {""}, {`""`, `"`}, {`say "hi"`, "x"}, {"=Sheet1!$A$1:$A$3"}, {"=A1<B1"}, {`"a`, `b"`}, {"&amp;"}, {"1", "2", "3"}} {
		c18DropList(r, ks)
	}
	for i := 0; i < 150*mul; i++ {
		n := rng.Range(1, 4)
		ks := make([]string, n)
		for j := range ks {
			ks[j] = c18EscStr(rng)
		}
		if rng.Chance(5) {
			ks[0] = strings.Repeat("k", rng.Pick2([]int{253, 254, 255, 256}))
		}
		c18DropList(r, ks)
	}
	c18Lap(r, "escapers+droplists")
	// XOR hash: lengths 0..40 of one letter (deterministic), then random
	for n := 0; n <= 40; n++ {
		c18XorPw(r, strings.Repeat("A", n))
	}
	for _, p := range c18Pws {
		c18XorPw(r, p)
	}
	for i := 0; i < 400*mul; i++ {
		n := rng.Range(0, 30)
		var sb strings.Builder
		for j := 0; j < n; j++ {
			if rng.Chance(85) {
				sb.WriteByte(byte(rng.Range(32, 126)))
			} else {
				sb.WriteRune(rune(rng.Pick2([]int{0xe9, 0x4e2d, 0x1f600, 0x7f, 0x80, 0xffff})))
			}
		}
		p := sb.String()
		c18XorPw(r, p)
		if i%4 == 0 {
			q := p
			switch rng.Intn(4) {
			case 0:
				q = p + "x"
			case 1:
				q = strings.ToUpper(p)
			case 2:
				q = c18Str(rng)
			}
			c18ProtUn(r, p, q, rng.Chance(85))
		}
	}
	c18ProtUn(r, "password", "password", true)
	c18ProtUn(r, "", "x", true)
	c18Lap(r, "xor")
	// protection through the public API, every algorithm
	for _, wb := range []bool{false, true} {
		for i, alg := range c18Algs {
			if wb && !thorough && !c18In([]string{"", "MD5", "SHA-256", "XOR", "bogus"}, alg) {
				continue // quick tier: every algorithm on sheets, a subset on the workbook
			}
			c18Protection(r, rng, alg, c18Pws[(i+map[bool]int{false: 0, true: 3}[wb])%len(c18Pws)], wb)
		}
		c18Protection(r, rng, "", "", wb)
		c18Protection(r, rng, "SHA-512", "", wb)
	}
	nRandProt := 2
	if thorough {
		nRandProt = 60
	}
	for i := 0; i < nRandProt; i++ {
		c18Protection(r, rng, c18Algs[rng.Intn(7)], c18Pws[rng.Intn(len(c18Pws))], rng.Bool())
	}
	c18Ignored(r, rng, mul)
	c18DvDeletes(r, rng, mul)
	c18Dvbs(r, rng, mul)
	c18Cfrs(r, rng, mul)
	c18Pmgs(r, rng, mul)
	c18Hfss(r, rng, mul)
	c18ProtHistories(r, rng, thorough)
	c18Lap(r, "protection")
	c18DefinedNames(r, rng, mul)
	c18Lap(r, "definednames")
	c18Lists(r, rng, mul)
	c18Lap(r, "lists")
	c18Histories(r, rng, mul)
	c18Lap(r, "histories")
}

func c18ReplayLine(r *Run, rng *Rng, line string, w []string) {
	arg := func(i int) string {
		if i < len(w) {
			return w[i]
		}
		return "-"
	}
	switch w[0] {
	case "dim":
		c18Dimension(r, rng, unhx(arg(1)))
	case "esc":
		c18Esc(r, unhx(arg(1)))
	case "unesc", "dvunesc":
		c18Unesc(r, unhx(arg(1)))
	case "droplist":
		var ks []string
		for _, h := range strings.Split(arg(1), ",") {
			ks = append(ks, unhx(h))
		}
		c18DropList(r, ks)
	case "xorpw":
		var sb strings.Builder
		if arg(2) != "-" {
			for _, n := range strings.Split(arg(2), ",") {
				c, _ := strconv.Atoi(n)
				sb.WriteRune(rune(c))
			}
		}
		c18XorPw(r, sb.String())
	case "dvdel":
		var rules []string
		for _, h := range strings.Split(arg(1), ",") {
			rules = append(rules, unhx(h))
		}
		c18DvDel(r, rules, unhx(arg(2)))
	case "protun":
		if arg(2) == "~" {
			c18ProtUn(r, unhx(arg(1)), "", false)
		} else {
			c18ProtUn(r, unhx(arg(1)), unhx(arg(2)), true)
		}
	case "protect":
		c18Protection(r, rng, unhx(arg(2)), unhx(arg(3)), arg(1) == "workbook")
	default:
		c18ReplayMore(r, rng, line, w)
	}
}
