//go:build verif_c18

package main

// C18 — SetHeaderFooter / GetHeaderFooter (model: XlModel.HeaderFooter).
//   hfs <call>... ; one call = n|o + the ten option fields in struct order (*bool ~|0|1, bool 0|1, strings hex; ASCII texts)
// Go: the calls in order on Sheet1 of a new workbook: "ok"/"ERR" per call, then "|", then the getter (nil or the ten fields).

import (
	"strings"

	xl "github.com/xuri/excelize/v2"
)

func c18Hfs(r *Run, calls [][11]string) {
	line := "hfs"
	for _, c := range calls {
		line += " " + strings.Join(c[:], " ")
	}
	f := xl.NewFile()
	defer f.Close()
	pb := func(s string) *bool {
		if s == "~" {
			return nil
		}
		v := s == "1"
		return &v
	}
	spb := func(p *bool) string {
		if p == nil {
			return "~"
		}
		if *p {
			return "1"
		}
		return "0"
	}
	sb := func(b bool) string {
		if b {
			return "1"
		}
		return "0"
	}
	var out []string
	panicked := false
	for _, c := range calls {
		var o *xl.HeaderFooterOptions
		if c[0] == "o" {
			o = &xl.HeaderFooterOptions{AlignWithMargins: pb(c[1]), DifferentFirst: c[2] == "1", DifferentOddEven: c[3] == "1", ScaleWithDoc: pb(c[4]),
				OddHeader: unhx(c[5]), OddFooter: unhx(c[6]), EvenHeader: unhx(c[7]), EvenFooter: unhx(c[8]), FirstHeader: unhx(c[9]), FirstFooter: unhx(c[10])}
		}
		err, pan := c18Safe(func() error { return f.SetHeaderFooter(c18Sheet, o) })
		switch {
		case pan:
			out, panicked = append(out, "PANIC"), true
		case err != nil:
			out = append(out, "ERR")
		default:
			out = append(out, "ok")
		}
	}
	out = append(out, "|")
	got, err := f.GetHeaderFooter(c18Sheet)
	switch {
	case err != nil:
		out = append(out, "ERR-get")
	case got == nil:
		out = append(out, "nil")
	default:
		out = append(out, spb(got.AlignWithMargins), sb(got.DifferentFirst), sb(got.DifferentOddEven), spb(got.ScaleWithDoc), hx(got.OddHeader), hx(got.OddFooter),
			hx(got.EvenHeader), hx(got.EvenFooter), hx(got.FirstHeader), hx(got.FirstFooter))
	}
	res := strings.Join(out, " ")
	ln := r.Op(line, res)
	r.Case(line, true)
	if got == nil {
		r.Stat("hfs:nil")
	} else {
		r.Stat("hfs:set")
	}
	if panicked {
		r.Fail("hfs:panic", "SetHeaderFooter panicked", ln, line)
	}
}

func c18Hfss(r *Run, rng *Rng, mul int) {
	texts := []string{"", "&L&P", "&C&\"Arial,Bold\"Title", "&R&D &T", "x", strings.Repeat("a", 255), strings.Repeat("b", 256), strings.Repeat("c", 300)}
	pbs := []string{"~", "0", "1"}
	mk := func(fill func(i int) string) [11]string {
		c := [11]string{"o", "~", "0", "0", "~"}
		for i := 5; i < 11; i++ {
			c[i] = hx(fill(i))
		}
		return c
	}
	long := strings.Repeat("x", 256)
	nilCall := [11]string{"n", "~", "0", "0", "~", "-", "-", "-", "-", "-", "-"}
	// deterministic: each string field alone one unit too long (the last one is not checked), set then nil, rejected call keeps the previous one
	for k := 5; k < 11; k++ {
		k := k
		c18Hfs(r, [][11]string{mk(func(i int) string {
			if i == k {
				return long
			}
			return ""
		})})
	}
	ok := mk(func(i int) string { return texts[1+i%4] })
	c18Hfs(r, [][11]string{ok, nilCall})
	c18Hfs(r, [][11]string{ok, mk(func(i int) string { return long })})
	c18Hfs(r, [][11]string{nilCall})
	for n := 0; n < 50*mul; n++ {
		var calls [][11]string
		for k := 1 + rng.Intn(3); k > 0; k-- {
			if rng.Chance(15) {
				calls = append(calls, nilCall)
				continue
			}
			c := mk(func(i int) string {
				if rng.Chance(8) {
					return texts[5+rng.Intn(3)]
				}
				return texts[rng.Intn(5)]
			})
			c[1], c[4] = pbs[rng.Intn(3)], pbs[rng.Intn(3)]
			c[2], c[3] = pbs[1+rng.Intn(2)], pbs[1+rng.Intn(2)]
			calls = append(calls, c)
		}
		c18Hfs(r, calls)
	}
}
