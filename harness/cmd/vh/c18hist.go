//go:build verif_c18

package main

// C18 — HISTORY oracles for the list-like settings where deletion exists:
// "Deleting or unsetting such an item removes exactly that item", and what is
// set after a deletion reads back as set (no state of the deleted item leaks).
//
// Conditional formats are driven by replayable op lines (not part of the Lean
// transcript; they are the replay text of a failure):
//   cfnew                          new workbook with sheets Sheet1, S2 and one conditional style
//   cfset <sheet> <hex range> <hex json of []ConditionalFormatOptions>
//   cfunset <sheet> <hex range>
//   cfedit                         unrelated edits
//   cfsave                         save + reopen, compare the copy, keep the live file
//   cfswap                         save + reopen, continue on the reopened file
// After every line the getter of every sheet is compared with the model:
// ranges set and not unset, each with exactly the rules set for it.

import (
	"archive/zip"
	"bytes"
	"encoding/json"
	"fmt"
	"io"
	"regexp"
	"sort"
	"strings"

	xl "github.com/xuri/excelize/v2"
)

var c18CfSheets = []string{"Sheet1", "S2"}
var c18CfRanges = []string{"A1:A10", "C1:C10", "E2:F5", "H1:H3 J1:J3"}

type c18CfItem struct {
	rng   string
	rules []xl.ConditionalFormatOptions
}

type c18CfHist struct {
	f     *xl.File
	model map[string][]c18CfItem
	lines []string
	dead  bool
}

func (h *c18CfHist) replay() string { return strings.Join(h.lines, "\n") }

func (h *c18CfHist) fail(r *Run, sig, what string) {
	if !h.dead {
		r.Fail(sig, what, 0, h.replay())
	}
	h.dead = true // one report per history: later differences would be consequences
}

// expected getter result of one sheet: range -> rules in the order set
func (h *c18CfHist) expected(sheet string) (map[string][]xl.ConditionalFormatOptions, map[string]int) {
	exp, times := map[string][]xl.ConditionalFormatOptions{}, map[string]int{}
	for _, it := range h.model[sheet] {
		exp[it.rng] = append(exp[it.rng], it.rules...)
		times[it.rng]++
	}
	return exp, times
}

func (h *c18CfHist) compare(r *Run, g *xl.File, phase string) {
	for _, sheet := range c18CfSheets {
		if h.dead {
			return
		}
		exp, times := h.expected(sheet)
		got, err := g.GetConditionalFormats(sheet)
		if err != nil {
			h.fail(r, "cfh:getter-error"+phase, fmt.Sprintf("GetConditionalFormats(%s): %v", sheet, err))
			return
		}
		var ks []string
		for k := range exp {
			ks = append(ks, k)
		}
		sort.Strings(ks)
		for k := range got {
			if _, ok := exp[k]; !ok {
				h.fail(r, "cfh:unset-range-still-listed"+phase, fmt.Sprintf("%s: getter lists range %s which is not set (any more): %d rules", sheet, k, len(got[k])))
				return
			}
		}
		for _, k := range ks {
			gr, ok := got[k]
			if !ok {
				h.fail(r, "cfh:range-missing"+phase, fmt.Sprintf("%s: range %s set with %d rules, not listed by the getter", sheet, k, len(exp[k])))
				return
			}
			if len(gr) != len(exp[k]) {
				sig := "cfh:rule-count"
				if times[k] > 1 {
					sig = "cfh:same-range-set-twice:earlier-rules-hidden"
				}
				h.fail(r, sig+phase, fmt.Sprintf("%s!%s: %d rules set (in %d calls), getter lists %d", sheet, k, len(exp[k]), times[k], len(gr)))
				return
			}
			for i := range gr {
				wm, gm := c18Map(exp[k][i]), c18Map(gr[i])
				for _, fld := range c18Diff(wm, gm) {
					h.fail(r, "cfh:"+exp[k][i].Type+":"+fld+phase, fmt.Sprintf("%s!%s rule %d (%s) field %s: set %q, getter %q", sheet, k, i, exp[k][i].Type, fld, wm[fld], gm[fld]))
					return
				}
			}
		}
	}
}

// exec runs one op line; returns false when the line is not a cf op.
func (h *c18CfHist) exec(r *Run, rng *Rng, line string) bool {
	w := strings.Fields(line)
	if len(w) == 0 {
		return false
	}
	switch w[0] {
	case "cfnew":
		if h.f != nil {
			h.f.Close()
		}
		h.f = xl.NewFile()
		_, _ = h.f.NewSheet("S2")
		_, _ = h.f.NewConditionalStyle(&xl.Style{Font: &xl.Font{Color: "9A0511"}})
		h.model, h.lines, h.dead = map[string][]c18CfItem{}, []string{line}, false
		r.Op("cfnew", "ok")
		return true
	case "cfset", "cfunset", "cfedit", "cfsave", "cfswap":
	default:
		return false
	}
	if h.f == nil {
		h.exec(r, rng, "cfnew")
	}
	h.lines = append(h.lines, line)
	if h.dead {
		return true
	}
	r.Stat("cfh:" + w[0])
	switch w[0] {
	case "cfset":
		var rules []xl.ConditionalFormatOptions
		if len(w) < 5 || json.Unmarshal([]byte(unhx(w[4])), &rules) != nil {
			return true
		}
		sheet, rg := w[1], unhx(w[2])
		err, pan := c18Safe(func() error { return h.f.SetConditionalFormat(sheet, rg, rules) })
		if pan {
			h.fail(r, "cfh:panic", fmt.Sprintf("SetConditionalFormat(%s,%s) panicked: %v", sheet, rg, err))
			return true
		}
		if err != nil {
			r.Stat("cfh:set-rejected")
			r.Op("cfrejected "+strings.Join(w[1:], " "), "ERR "+h.live())
		} else {
			h.model[sheet] = append(h.model[sheet], c18CfItem{rg, rules})
			for _, o := range rules {
				r.Stat("cfh:rule:" + o.Type)
			}
			r.Op(line, "ok "+h.live())
		}
	case "cfunset":
		sheet, rg := w[1], unhx(w[2])
		if err := h.f.UnsetConditionalFormat(sheet, rg); err != nil {
			h.fail(r, "cfh:unset-error", err.Error())
			return true
		}
		var rest []c18CfItem
		n := 0
		for _, it := range h.model[sheet] {
			if it.rng == rg {
				n++
				continue
			}
			rest = append(rest, it)
		}
		h.model[sheet] = rest
		r.Op(line, "ok "+h.live())
		if n > 1 { // the range was set by several calls: unsetting it must remove it altogether
			if got, _ := h.f.GetConditionalFormats(sheet); len(got[rg]) > 0 {
				h.fail(r, "cfh:same-range-set-twice:unset-leaves-rest", fmt.Sprintf("%s!%s was set by %d calls; after UnsetConditionalFormat the getter still lists %d rules for it", sheet, rg, n, len(got[rg])))
				return true
			}
		}
	case "cfedit":
		c18Unrelated(h.f, rng)
		r.Op(line, h.live())
	case "cfsave", "cfswap":
		buf, err := h.f.WriteToBuffer()
		var g *xl.File
		if err == nil {
			r.Op(line, c18CfSaved(buf.Bytes()))
			g, err = xl.OpenReader(bytes.NewReader(buf.Bytes()))
		}
		if err != nil {
			h.fail(r, "cfh:reopen-error", err.Error())
			return true
		}
		h.compare(r, g, ":reopen")
		if w[0] == "cfswap" && !h.dead {
			h.f.Close()
			h.f = g
		} else {
			g.Close()
		}
	}
	h.compare(r, h.f, "")
	return true
}

func c18CfLineSet(sheet, rg string, rules []xl.ConditionalFormatOptions) string {
	b, _ := json.Marshal(rules)
	return fmt.Sprintf("cfset %s %s %d %s", sheet, hx(rg), len(rules), hx(string(b)))
}

// live: what the getter shows per sheet, as the Lean driver prints it: sorted range#rules
func (h *c18CfHist) live() string {
	var parts []string
	for _, sheet := range c18CfSheets {
		got, _ := h.f.GetConditionalFormats(sheet)
		var items []string
		for k, v := range got {
			items = append(items, fmt.Sprintf("%s#%d", hx(k), len(v)))
		}
		sort.Strings(items)
		t := strings.Join(items, ",")
		if t == "" {
			t = "-"
		}
		parts = append(parts, sheet+": "+t)
	}
	return strings.Join(parts, " | ")
}

var c18CfBlockRe = regexp.MustCompile(`(?s)<conditionalFormatting sqref="([^"]*)">(.*?)</conditionalFormatting>`)
var c18CfPrioRe = regexp.MustCompile(`<cfRule [^>]*priority="(\d+)"`)

// c18CfSaved: the conditionalFormatting blocks of the saved worksheets in document order
// with the priorities of their rules (read from the package bytes, not through the getter)
func c18CfSaved(pkg []byte) string {
	zr, err := zip.NewReader(bytes.NewReader(pkg), int64(len(pkg)))
	if err != nil {
		return "ERR"
	}
	var parts []string
	for i, sheet := range c18CfSheets {
		var xmlText string
		for _, zf := range zr.File {
			if zf.Name == fmt.Sprintf("xl/worksheets/sheet%d.xml", i+1) {
				rc, _ := zf.Open()
				b, _ := io.ReadAll(rc)
				rc.Close()
				xmlText = string(b)
			}
		}
		var blocks []string
		for _, m := range c18CfBlockRe.FindAllStringSubmatch(xmlText, -1) {
			var ps []string
			for _, p := range c18CfPrioRe.FindAllStringSubmatch(m[2], -1) {
				ps = append(ps, p[1])
			}
			blocks = append(blocks, hx(m[1])+"["+strings.Join(ps, ",")+"]")
		}
		t := strings.Join(blocks, ";")
		if t == "" {
			t = "-"
		}
		parts = append(parts, sheet+": "+t)
	}
	return strings.Join(parts, " | ")
}

// c18DataBar: a data bar with a chosen combination of the extension fields.
func c18DataBar(rng *Rng) xl.ConditionalFormatOptions {
	o := xl.ConditionalFormatOptions{Type: "data_bar", Criteria: "=", MinType: "min", MaxType: "max", BarColor: rng.Pick([]string{"#638EC6", "#FF0000", "#00B050"})}
	if rng.Chance(40) {
		o.MinType, o.MaxType, o.MinValue, o.MaxValue = "num", "num", rng.Pick([]string{"1", "2"}), rng.Pick([]string{"7", "90"})
	}
	o.BarDirection = rng.Pick([]string{"", "leftToRight", "rightToLeft"})
	o.BarSolid = rng.Bool()
	o.BarBorderColor = rng.Pick([]string{"", "#0000FF", "#00FF00"})
	o.BarOnly = rng.Bool()
	return o
}

func c18CfRules(rng *Rng) []xl.ConditionalFormatOptions {
	zero := 0
	all := c18CfCases(rng, zero)
	var rules []xl.ConditionalFormatOptions
	for n := rng.Range(1, 3); n > 0; n-- {
		var o xl.ConditionalFormatOptions
		if rng.Chance(40) {
			o = c18DataBar(rng)
		} else {
			o = all[rng.Intn(len(all))]
			if o.Format != nil {
				z := 0
				o.Format = &z
				o.StopIfTrue = rng.Chance(25)
			}
		}
		rules = append(rules, o)
	}
	return rules
}

func c18CfHistory(r *Run, rng *Rng, script []string) {
	h := &c18CfHist{}
	h.exec(r, rng, "cfnew")
	for _, l := range script {
		h.exec(r, rng, l)
	}
	r.Case("cfh|"+h.replay(), true)
	h.f.Close()
}

func c18CfRandomScript(rng *Rng) []string {
	present := map[string][]string{}
	var script []string
	steps := rng.Range(3, 8)
	for i := 0; i < steps; i++ {
		sheet := c18CfSheets[rng.Intn(2)]
		c := rng.Intn(100)
		switch {
		case c < 50 || len(present[sheet]) == 0 && c < 75:
			rg := c18CfRanges[rng.Intn(len(c18CfRanges))]
			if c18In(present[sheet], rg) && !rng.Chance(8) { // setting a range twice stays rare
				for _, cand := range c18CfRanges {
					if !c18In(present[sheet], cand) {
						rg = cand
						break
					}
				}
			}
			script = append(script, c18CfLineSet(sheet, rg, c18CfRules(rng)))
			present[sheet] = append(present[sheet], rg)
		case c < 75:
			k := rng.Intn(len(present[sheet]))
			rg := present[sheet][k]
			script = append(script, "cfunset "+sheet+" "+hx(rg))
			var rest []string
			for _, x := range present[sheet] {
				if x != rg {
					rest = append(rest, x)
				}
			}
			present[sheet] = rest
		case c < 80:
			script = append(script, "cfedit")
		case c < 90:
			script = append(script, "cfsave")
		default:
			script = append(script, "cfswap")
		}
	}
	return append(script, "cfsave")
}

func c18CfHistories(r *Run, rng *Rng, mul int) {
	bar := func(dir string, solid bool, border string) []xl.ConditionalFormatOptions {
		return []xl.ConditionalFormatOptions{{Type: "data_bar", Criteria: "=", MinType: "min", MaxType: "max", BarColor: "#638EC6", BarDirection: dir, BarSolid: solid, BarBorderColor: border}}
	}
	// deterministic: data bar with extension -> unset -> a different data bar (same generated rule id)
	c18CfHistory(r, rng, []string{
		c18CfLineSet("Sheet1", "A1:A10", bar("rightToLeft", false, "")), "cfunset Sheet1 " + hx("A1:A10"),
		c18CfLineSet("Sheet1", "C1:C10", bar("leftToRight", true, "#00FF00")), "cfsave"})
	c18CfHistory(r, rng, []string{
		c18CfLineSet("Sheet1", "A1:A10", bar("leftToRight", true, "#0000FF")), "cfunset Sheet1 " + hx("A1:A10"),
		c18CfLineSet("Sheet1", "A1:A10", bar("", false, "")), "cfsave"})
	c18CfHistory(r, rng, []string{
		c18CfLineSet("S2", "A1:A10", bar("leftToRight", true, "#0000FF")), c18CfLineSet("Sheet1", "A1:A10", bar("rightToLeft", false, "")),
		"cfswap", "cfunset S2 " + hx("A1:A10"), c18CfLineSet("S2", "E2:F5", bar("rightToLeft", true, "")), "cfsave"})
	// deterministic: one range set by two calls
	c18CfHistory(r, rng, []string{
		c18CfLineSet("Sheet1", "A1:A10", bar("", false, "")),
		c18CfLineSet("Sheet1", "A1:A10", []xl.ConditionalFormatOptions{{Type: "icon_set", IconStyle: "3Arrows"}})})
	for i := 0; i < 120*mul; i++ {
		c18CfHistory(r, rng, c18CfRandomScript(rng))
	}
}

// ---------------------------------------------------------------- set -> delete -> set different -> get

func c18DvSafe(rng *Rng, sqref string) (*xl.DataValidation, map[string]string) {
	dv := xl.NewDataValidation(rng.Bool())
	dv.Sqref = sqref
	w1, w2 := "", ""
	switch rng.Intn(4) {
	case 3:
		w1 = rng.Pick(c18DvSources)
		dv.SetSqrefDropList(w1)
	case 0:
		a, b := rng.Range(-5, 100), rng.Range(0, 1000)
		_ = dv.SetRange(a, b, xl.DataValidationTypeWhole, xl.DataValidationOperator(rng.Range(1, 8)))
		w1, w2 = fmt.Sprint(a), fmt.Sprint(b)
	case 1:
		fs := []string{"A1", "Sheet1!$B$2", "AND(A1=1,B1=3)", "1", "LEN(A1)"}
		a, b := fs[rng.Intn(len(fs))], fs[rng.Intn(len(fs))]
		_ = dv.SetRange(a, b, xl.DataValidationTypeCustom, xl.DataValidationOperatorBetween)
		w1, w2 = a, b
	default:
		ks := []string{rng.Pick([]string{"a", "x y", "1"}), rng.Pick([]string{"b", "z"})}
		_ = dv.SetDropList(ks)
		w1 = `"` + strings.Join(ks, ",") + `"`
	}
	if rng.Bool() {
		dv.SetError(xl.DataValidationErrorStyle(rng.Range(1, 3)), rng.Pick([]string{"t", "Title"}), rng.Pick([]string{"m", "msg 2"}))
	}
	if rng.Bool() {
		dv.SetInput(rng.Pick([]string{"it", "In"}), rng.Pick([]string{"im", "body"}))
	}
	m := c18Map(*dv)
	m["Formula1"], m["Formula2"] = "s="+hx(w1), "s="+hx(w2)
	return dv, m
}

// data validations: add / delete / add a different one on the same cells
func c18DvHistory(r *Run, rng *Rng) {
	f := c18DvBook()
	defer func() { f.Close() }()
	sq := []string{"A1:B2", "D1", "F3:F9", "H1:H2"}
	type item struct {
		sq string
		m  map[string]string
	}
	var model []item
	var hist []string
	dead := false
	fail := func(sig, what string) {
		if !dead {
			r.Fail(sig, what, 0, "# dv history on Sheet1:\n# "+strings.Join(hist, "\n# "))
		}
		dead = true
	}
	check := func(g *xl.File, phase string) {
		if dead {
			return
		}
		got, err := g.GetDataValidations(c18Sheet)
		if err != nil {
			fail("dvh:getter-error"+phase, err.Error())
			return
		}
		if len(got) != len(model) {
			fail("dvh:count"+phase, fmt.Sprintf("%d validations should remain, getter lists %d", len(model), len(got)))
			return
		}
		for i := range got {
			gm := c18Map(*got[i])
			for _, k := range c18Diff(model[i].m, gm) {
				if (model[i].m[k] == "~" && gm[k] == "s=-") || (model[i].m[k] == "s=-" && gm[k] == "~") {
					continue
				}
				if k == "Sqref" && c18CellSet(model[i].m[k]) == c18CellSet(gm[k]) {
					continue
				}
				fail("dvh:"+k+phase, fmt.Sprintf("validation %d (%s) field %s: set %q, getter %q", i, model[i].sq, k, model[i].m[k], gm[k]))
				return
			}
		}
	}
	steps := rng.Range(3, 7)
	for i := 0; i < steps && !dead; i++ {
		used := map[string]bool{}
		for _, it := range model {
			used[it.sq] = true
		}
		c := rng.Intn(100)
		switch {
		case c < 50 || len(model) == 0:
			s := sq[rng.Intn(len(sq))]
			if used[s] {
				continue
			}
			dv, m := c18DvSafe(rng, s)
			hist = append(hist, "add "+c18Show(m))
			if err := f.AddDataValidation(c18Sheet, dv); err != nil {
				continue
			}
			model = append(model, item{s, m})
		case c < 85:
			k := rng.Intn(len(model))
			hist = append(hist, "delete "+model[k].sq)
			if err := f.DeleteDataValidation(c18Sheet, model[k].sq); err != nil {
				fail("dvh:delete-error", err.Error())
				return
			}
			model = append(append([]item{}, model[:k]...), model[k+1:]...)
		case c < 93:
			hist = append(hist, "save+reopen, continue on the reopened file")
			g, err := c18Reopen(f)
			if err != nil {
				fail("dvh:reopen-error", err.Error())
				return
			}
			f.Close()
			f = g
		default:
			hist = append(hist, "unrelated edits")
			c18Unrelated(f, rng)
		}
		check(f, "")
	}
	r.Case("dvh|"+strings.Join(hist, "|"), true)
	r.Stat("dvh")
	if g, err := c18Reopen(f); err != nil {
		fail("dvh:reopen-error", err.Error())
	} else {
		check(g, ":reopen")
		g.Close()
	}
}

// comments: add / delete / add a different one on the same cell
func c18CommentHistory(r *Run, rng *Rng) {
	f := xl.NewFile()
	defer func() { f.Close() }()
	cells := []string{"A1", "C5", "B2", "D9"}
	model := map[string]xl.Comment{}
	var hist []string
	dead := false
	fail := func(sig, what string) {
		if !dead {
			r.Fail(sig, what, 0, "# comment history on Sheet1: "+strings.Join(hist, "; "))
		}
		dead = true
	}
	text := func(c xl.Comment) string {
		t := c.Text
		for _, p := range c.Paragraph {
			t += p.Text
		}
		return t
	}
	check := func(g *xl.File, phase string) {
		if dead {
			return
		}
		got, err := g.GetComments(c18Sheet)
		if err != nil {
			fail("commenth:getter-error"+phase, err.Error())
			return
		}
		if len(got) != len(model) {
			fail("commenth:count"+phase, fmt.Sprintf("%d comments should remain, getter lists %d", len(model), len(got)))
			return
		}
		for _, c := range got {
			w, ok := model[c.Cell]
			if !ok {
				fail("commenth:deleted-still-listed"+phase, "comment on "+c.Cell+" listed although deleted / never set")
				return
			}
			if c.Author != w.Author {
				fail("commenth:Author"+phase, fmt.Sprintf("%s: author %q listed as %q", c.Cell, w.Author, c.Author))
				return
			}
			if text(c) != text(w) {
				fail("commenth:Text"+phase, fmt.Sprintf("%s: text %q listed as %q", c.Cell, text(w), text(c)))
				return
			}
		}
	}
	steps := rng.Range(3, 7)
	for i := 0; i < steps && !dead; i++ {
		c := rng.Intn(100)
		switch {
		case c < 50 || len(model) == 0:
			cell := cells[rng.Intn(len(cells))]
			if _, ok := model[cell]; ok {
				continue
			}
			cm := xl.Comment{Cell: cell, Author: rng.Pick([]string{"Ann", "Bob", "C&D", "Eve"}), Text: rng.Pick([]string{"", "note ", "x<y "})}
			for j := rng.Intn(3); j > 0; j-- {
				cm.Paragraph = append(cm.Paragraph, xl.RichTextRun{Text: rng.Pick([]string{"one", "two ", "3&4"})})
			}
			if text(cm) == "" {
				cm.Text = "t"
			}
			hist = append(hist, fmt.Sprintf("add %s author=%q text=%q", cell, cm.Author, text(cm)))
			if err := f.AddComment(c18Sheet, cm); err != nil {
				continue
			}
			model[cell] = cm
		case c < 85:
			var ks []string
			for k := range model {
				ks = append(ks, k)
			}
			sort.Strings(ks)
			cell := ks[rng.Intn(len(ks))]
			hist = append(hist, "delete "+cell)
			if err := f.DeleteComment(c18Sheet, cell); err != nil {
				fail("commenth:delete-error", err.Error())
				return
			}
			delete(model, cell)
		case c < 93:
			hist = append(hist, "save+reopen, continue on the reopened file")
			g, err := c18Reopen(f)
			if err != nil {
				fail("commenth:reopen-error", err.Error())
				return
			}
			f.Close()
			f = g
		default:
			hist = append(hist, "unrelated edits")
			c18Unrelated(f, rng)
		}
		check(f, "")
	}
	r.Case("commenth|"+strings.Join(hist, "|"), true)
	r.Stat("commenth")
	if g, err := c18Reopen(f); err != nil {
		fail("commenth:reopen-error", err.Error())
	} else {
		check(g, ":reopen")
		g.Close()
	}
}

// tables: add / delete / add a different one on the same range
func c18TableHistory(r *Run, rng *Rng) {
	f := xl.NewFile()
	defer func() { f.Close() }()
	for _, row := range []int{1, 8} {
		for c := 1; c <= 8; c++ {
			n, _ := xl.CoordinatesToCellName(c, row)
			_ = f.SetCellStr(c18Sheet, n, fmt.Sprintf("h%d_%d", row, c))
		}
	}
	ranges := []string{"A1:C5", "E1:H4", "A8:B12", "D8:F11"}
	model := map[string]xl.Table{} // by range
	var hist []string
	dead := false
	seq := 0
	fail := func(sig, what string) {
		if !dead {
			r.Fail(sig, what, 0, "# table history on Sheet1: "+strings.Join(hist, "; "))
		}
		dead = true
	}
	check := func(g *xl.File, phase string) {
		if dead {
			return
		}
		got, err := g.GetTables(c18Sheet)
		if err != nil {
			fail("tableh:getter-error"+phase, err.Error())
			return
		}
		if len(got) != len(model) {
			fail("tableh:count"+phase, fmt.Sprintf("%d tables should remain, getter lists %d", len(model), len(got)))
			return
		}
		def := map[string]string{"ShowHeaderRow": "b=1", "ShowRowStripes": "b=1"}
		for _, t := range got {
			w, ok := model[t.Range]
			if !ok {
				fail("tableh:deleted-still-listed"+phase, "table on "+t.Range+" ("+t.Name+") listed although deleted / never set")
				return
			}
			wm, gm := c18Map(w), c18Map(t)
			for _, k := range c18Diff(wm, gm) {
				a, b := wm[k], gm[k]
				if a == "~" {
					a = def[k]
				}
				if b == "~" {
					b = def[k]
				}
				if a == b || (k == "StyleName" && wm[k] == "s=-") {
					continue
				}
				fail("tableh:"+k+phase, fmt.Sprintf("table %s field %s: set %q, getter %q", t.Range, k, wm[k], gm[k]))
				return
			}
		}
	}
	steps := rng.Range(3, 7)
	for i := 0; i < steps && !dead; i++ {
		c := rng.Intn(100)
		switch {
		case c < 50 || len(model) == 0:
			rg := ranges[rng.Intn(len(ranges))]
			if _, ok := model[rg]; ok {
				continue
			}
			seq++
			t := xl.Table{Range: rg, Name: fmt.Sprintf("%s%d", rng.Pick([]string{"tbl", "_t", "Sales"}), seq),
				StyleName: rng.Pick([]string{"", "TableStyleMedium2", "TableStyleLight1"}), ShowColumnStripes: rng.Bool(), ShowFirstColumn: rng.Bool(), ShowLastColumn: rng.Bool()}
			if rng.Bool() {
				b := rng.Bool()
				t.ShowRowStripes = &b
			}
			hist = append(hist, "add "+c18Show(c18Map(t)))
			tt := t
			if err := f.AddTable(c18Sheet, &tt); err != nil {
				hist[len(hist)-1] += " (rejected)"
				continue
			}
			model[rg] = t
		case c < 85:
			var ks []string
			for k := range model {
				ks = append(ks, k)
			}
			sort.Strings(ks)
			rg := ks[rng.Intn(len(ks))]
			hist = append(hist, "delete "+model[rg].Name)
			if err := f.DeleteTable(model[rg].Name); err != nil {
				fail("tableh:delete-error", err.Error())
				return
			}
			delete(model, rg)
		case c < 93:
			hist = append(hist, "save+reopen, continue on the reopened file")
			g, err := c18Reopen(f)
			if err != nil {
				fail("tableh:reopen-error", err.Error())
				return
			}
			f.Close()
			f = g
		default:
			hist = append(hist, "unrelated edits")
			c18Unrelated(f, rng)
		}
		check(f, "")
	}
	r.Case("tableh|"+strings.Join(hist, "|"), true)
	r.Stat("tableh")
	if g, err := c18Reopen(f); err != nil {
		fail("tableh:reopen-error", err.Error())
	} else {
		check(g, ":reopen")
		g.Close()
	}
}

// hyperlinks: set / remove / set a different one on the same cell
func c18LinkHistory(r *Run, rng *Rng) {
	f := xl.NewFile()
	defer func() { f.Close() }()
	cells := []string{"A1", "B3", "D4"}
	model := map[string]string{}
	var hist []string
	dead := false
	fail := func(sig, what string) {
		if !dead {
			r.Fail(sig, what, 0, "# hyperlink history on Sheet1: "+strings.Join(hist, "; "))
		}
		dead = true
	}
	check := func(g *xl.File, phase string) {
		for _, c := range cells {
			if dead {
				return
			}
			ok, got, err := g.GetCellHyperLink(c18Sheet, c)
			w, set := model[c]
			if err != nil || ok != set || got != w {
				sig := "linkh:target"
				if !set {
					sig = "linkh:removed-still-set"
				}
				fail(sig+phase, fmt.Sprintf("%s: expected (%v,%q), getter (%v,%q,%v)", c, set, w, ok, got, err))
			}
		}
	}
	links := []string{"https://example.com/?a=1&b=2", "https://example.org/x", "Sheet1!A40", "Other!B2", "mailto:a@b.c"}
	steps := rng.Range(3, 7)
	for i := 0; i < steps && !dead; i++ {
		cell := cells[rng.Intn(len(cells))]
		c := rng.Intn(100)
		switch {
		case c < 55:
			l := links[rng.Intn(len(links))]
			typ := "External"
			if strings.Contains(l, "!") {
				typ = "Location"
			}
			var opts []xl.HyperlinkOpts
			if rng.Bool() {
				d, t := rng.Pick([]string{"disp", "d&d"}), rng.Pick([]string{"tip", "<t>"})
				opts = append(opts, xl.HyperlinkOpts{Display: &d, Tooltip: &t})
			}
			hist = append(hist, fmt.Sprintf("set %s %s %q", cell, typ, l))
			if err := f.SetCellHyperLink(c18Sheet, cell, l, typ, opts...); err != nil {
				continue
			}
			model[cell] = l
		case c < 85:
			hist = append(hist, "remove "+cell)
			if err := f.SetCellHyperLink(c18Sheet, cell, "", "None"); err != nil {
				fail("linkh:remove-error", err.Error())
				return
			}
			delete(model, cell)
		case c < 93:
			hist = append(hist, "save+reopen, continue on the reopened file")
			g, err := c18Reopen(f)
			if err != nil {
				fail("linkh:reopen-error", err.Error())
				return
			}
			f.Close()
			f = g
		default:
			hist = append(hist, "unrelated edits")
			c18Unrelated(f, rng)
		}
		check(f, "")
	}
	r.Case("linkh|"+strings.Join(hist, "|"), true)
	r.Stat("linkh")
	if g, err := c18Reopen(f); err != nil {
		fail("linkh:reopen-error", err.Error())
	} else {
		check(g, ":reopen")
		g.Close()
	}
}

func c18Histories(r *Run, rng *Rng, mul int) {
	c18CfHistories(r, rng, mul)
	for i := 0; i < 60*mul; i++ {
		c18DvHistory(r, rng)
		c18CommentHistory(r, rng)
		c18TableHistory(r, rng)
		c18LinkHistory(r, rng)
	}
}
