//go:build verif_c18

package main

// C18 — transcript ops for the setters that accept and ignore invalid values
// (model: Settings.setView / setZoom / setFirstPage):
//   svz <hex view1> <hex view2> <zoom1> <zoom2>   SetSheetView twice on a new sheet, then GetSheetView
//   fpn <n1> <n2>                                  SetPageLayout(FirstPageNumber) twice, then GetPageLayout

import (
	"fmt"
	"strconv"

	xl "github.com/xuri/excelize/v2"
)

func c18Svz(r *Run, v1, v2 string, z1, z2 int) {
	f := xl.NewFile()
	defer f.Close()
	line := fmt.Sprintf("svz %s %s %d %d", hx(v1), hx(v2), z1, z2)
	res := ""
	for i, s := range []struct {
		v string
		z int
	}{{v1, z1}, {v2, z2}} {
		v, z := s.v, float64(s.z)
		if err := f.SetSheetView(c18Sheet, -1, &xl.ViewOptions{View: &v, ZoomScale: &z}); err != nil {
			res += fmt.Sprintf("ERR ")
			_ = i
		} else {
			res += "ok "
		}
	}
	g, err := f.GetSheetView(c18Sheet, -1)
	if err != nil || g.View == nil || g.ZoomScale == nil {
		res += "ERR"
	} else {
		res += hx(*g.View) + " " + strconv.FormatFloat(*g.ZoomScale, 'f', -1, 64)
	}
	r.Op(line, res)
	r.Case(line, true)
	r.Stat("svz")
}

func c18Fpn(r *Run, a, b uint) {
	f := xl.NewFile()
	defer f.Close()
	line := fmt.Sprintf("fpn %d %d", a, b)
	res := "ok"
	for _, n := range []uint{a, b} {
		n := n
		if err := f.SetPageLayout(c18Sheet, &xl.PageLayoutOptions{FirstPageNumber: &n}); err != nil {
			res = "ERR"
		}
	}
	if res == "ok" {
		g, err := f.GetPageLayout(c18Sheet)
		if err != nil || g.FirstPageNumber == nil {
			res = "ERR"
		} else {
			res = "ok " + strconv.FormatUint(uint64(*g.FirstPageNumber), 10)
		}
	}
	r.Op(line, res)
	r.Case(line, true)
	r.Stat("fpn")
}

func c18Ignored(r *Run, rng *Rng, mul int) {
	views := []string{"normal", "pageLayout", "pageBreakPreview", "", "bogus", "Normal", "pagelayout", "page Layout"}
	zooms := []int{0, 5, 9, 10, 11, 100, 399, 400, 401, 1000, -10}
	c18Svz(r, "", "bogus", 0, 5)
	for _, v1 := range views {
		for _, v2 := range views {
			c18Svz(r, v1, v2, zooms[rng.Intn(len(zooms))], zooms[rng.Intn(len(zooms))])
		}
	}
	for _, z1 := range zooms {
		for _, z2 := range zooms {
			c18Svz(r, views[rng.Intn(len(views))], views[rng.Intn(len(views))], z1, z2)
		}
	}
	for _, a := range []uint{0, 1, 2, 5, 4294967295} {
		for _, b := range []uint{0, 1, 7, 65536} {
			c18Fpn(r, a, b)
		}
	}
}
