//go:build verif_c18

package main

// C18 — list-valued settings: defined names (modelled), data validations,
// conditional formats, comments, hyperlinks, tables (oracle only).

import (
	"fmt"
	"reflect"
	"sort"
	"strings"

	xl "github.com/xuri/excelize/v2"
)

// ---------------------------------------------------------------- defined names

var c18DnSheets = []string{"Sheet1", "Data", "other"}
var c18DnScopes = []string{"", "", "Workbook", "Sheet1", "sheet1", "Data", "DATA", "Nope", "other"}
var c18DnNames = []string{"Amount", "amount", "_x", "Total.1", "a", "R1C1x", "1abc", "a b", "", "x\\y", "Amount", "_xlnm.Print_Area", "_xlnm.Print_Titles", "tax?"}

func c18DnShow(d []xl.DefinedName) string {
	if len(d) == 0 {
		return "-"
	}
	var p []string
	for _, x := range d {
		p = append(p, hx(x.Name)+"/"+hx(x.Scope)+"/"+hx(x.RefersTo)+"/"+hx(x.Comment))
	}
	return strings.Join(p, ";")
}

type c18DnState struct {
	f      *xl.File
	hist   []string
	sheets []string
}

func c18DnNew(r *Run, sheets []string) *c18DnState {
	f := xl.NewFile()
	for _, s := range sheets[1:] {
		_, _ = f.NewSheet(s)
	}
	hs := make([]string, len(sheets))
	for i, s := range sheets {
		hs[i] = hx(s)
	}
	line := "dnreset " + strings.Join(hs, " ")
	r.Op(line, "ok")
	return &c18DnState{f: f, hist: []string{line}, sheets: sheets}
}

func (st *c18DnState) replay() string { return strings.Join(st.hist, "\n") }

func (st *c18DnState) scopeOf(scope string) (string, bool) { // what the property expects the getter to report
	if scope == "" || scope == "Workbook" {
		return "Workbook", true
	}
	for _, s := range st.sheets {
		if strings.EqualFold(s, scope) {
			return s, true
		}
	}
	return "", false
}

func (st *c18DnState) get(r *Run) []xl.DefinedName {
	d := st.f.GetDefinedName()
	st.hist = append(st.hist, "dnget")
	ln := r.Op("dnget", c18DnShow(d))
	seen := map[string]bool{}
	for _, x := range d {
		k := strings.ToLower(x.Name) + "\x00" + x.Scope
		if seen[k] {
			r.Fail("definedname:duplicate", fmt.Sprintf("GetDefinedName lists %q twice in scope %q", x.Name, x.Scope), ln, st.replay())
		}
		seen[k] = true
	}
	return d
}

func (st *c18DnState) set(r *Run, d xl.DefinedName) {
	before := st.f.GetDefinedName()
	line := "dnset " + hx(d.Name) + " " + hx(d.Scope) + " " + hx(d.RefersTo) + " " + hx(d.Comment)
	st.hist = append(st.hist, line)
	dd := d
	err, pan := c18Safe(func() error { return st.f.SetDefinedName(&dd) })
	res := "ok"
	if pan {
		res = "PANIC"
	} else if err != nil {
		res = "ERR"
	}
	ln := r.Op(line, res)
	r.Case(st.replay(), true)
	r.Stat("dnset:" + res)
	after := st.get(r)
	if res != "ok" {
		if c18DnShow(before) != c18DnShow(after) {
			r.Fail("definedname:rejected-but-changed", "SetDefinedName returned an error and changed the list", ln, st.replay())
		}
		return
	}
	want := d
	sc, ok := st.scopeOf(d.Scope)
	if !ok {
		r.Fail("definedname:Scope:unknown-sheet-accepted", fmt.Sprintf("SetDefinedName accepted scope %q (no such sheet); stored as %s", d.Scope, c18DnShow(after[len(before):])), ln, st.replay())
		return
	}
	want.Scope = sc
	if len(after) != len(before)+1 || c18DnShow(after[:len(before)]) != c18DnShow(before) || after[len(after)-1] != want {
		r.Fail("definedname:set-get", fmt.Sprintf("after SetDefinedName(%+v): list %s, expected previous list + %+v", d, c18DnShow(after), want), ln, st.replay())
	}
}

func (st *c18DnState) del(r *Run, name, scope string) {
	before := st.f.GetDefinedName()
	line := "dndel " + hx(name) + " " + hx(scope)
	st.hist = append(st.hist, line)
	err, pan := c18Safe(func() error { return st.f.DeleteDefinedName(&xl.DefinedName{Name: name, Scope: scope}) })
	res := "ok"
	if pan {
		res = "PANIC"
	} else if err != nil {
		res = "ERR"
	}
	ln := r.Op(line, res)
	r.Case(st.replay(), true)
	r.Stat("dndel:" + res)
	after := st.get(r)
	sc, _ := st.scopeOf(scope)
	idx := -1
	for i, x := range before {
		if x.Name == name && x.Scope == sc {
			idx = i
			break
		}
	}
	if res != "ok" {
		if c18DnShow(before) != c18DnShow(after) {
			r.Fail("definedname:rejected-but-changed", "DeleteDefinedName returned an error and changed the list", ln, st.replay())
		}
		if idx >= 0 {
			r.Fail("definedname:delete-refused", fmt.Sprintf("DeleteDefinedName(%q,%q) refused although listed", name, scope), ln, st.replay())
		}
		return
	}
	if idx < 0 {
		r.Fail("definedname:delete-wrong-item", fmt.Sprintf("DeleteDefinedName(%q,%q) succeeded although no such item was listed: %s -> %s", name, scope, c18DnShow(before), c18DnShow(after)), ln, st.replay())
		return
	}
	want := append(append([]xl.DefinedName{}, before[:idx]...), before[idx+1:]...)
	if c18DnShow(want) != c18DnShow(after) {
		r.Fail("definedname:delete-not-exact", fmt.Sprintf("delete %q/%q: %s -> %s", name, scope, c18DnShow(before), c18DnShow(after)), ln, st.replay())
	}
}

func (st *c18DnState) reopen(r *Run) {
	before := st.f.GetDefinedName()
	g, e := c18Reopen(st.f)
	if e != nil {
		r.Fail("definedname:reopen-error", e.Error(), 0, st.replay())
		return
	}
	defer g.Close()
	if a := g.GetDefinedName(); c18DnShow(a) != c18DnShow(before) {
		r.Fail("definedname:reopen", fmt.Sprintf("%s is %s after save+reopen", c18DnShow(before), c18DnShow(a)), 0, st.replay())
	}
}

func c18DefinedNames(r *Run, rng *Rng, mul int) {
	// deterministic witnesses
	st := c18DnNew(r, c18DnSheets)
	st.set(r, xl.DefinedName{Name: "Amount", RefersTo: "Sheet1!$A$2:$D$5", Comment: "c", Scope: "Sheet1"})
	st.set(r, xl.DefinedName{Name: "Amount", RefersTo: "Sheet1!$A$2", Scope: "sheet1"})
	st.f.Close()
	st = c18DnNew(r, c18DnSheets)
	st.set(r, xl.DefinedName{Name: "Amount", RefersTo: "Sheet1!$A$2"})
	st.set(r, xl.DefinedName{Name: "Amount", RefersTo: "Sheet1!$B$2", Scope: "Workbook"})
	st.del(r, "Amount", "")
	st.f.Close()
	st = c18DnNew(r, c18DnSheets)
	st.set(r, xl.DefinedName{Name: "Amount", RefersTo: "Sheet1!$A$2", Scope: "Nope"})
	st.f.Close()
	st = c18DnNew(r, c18DnSheets)
	st.set(r, xl.DefinedName{Name: "Rate", RefersTo: "Data!$A$2", Scope: "DATA"})
	st.del(r, "Rate", "DATA")
	st.f.Close()
	for i := 0; i < 120*mul; i++ {
		st := c18DnNew(r, c18DnSheets)
		n := rng.Range(2, 9)
		for j := 0; j < n; j++ {
			name, scope := c18DnNames[rng.Intn(len(c18DnNames))], c18DnScopes[rng.Intn(len(c18DnScopes))]
			switch c := rng.Intn(10); {
			case c < 6:
				refers := rng.Pick([]string{"Sheet1!$A$1", "Sheet1!$A$2:$D$5", "Data!$B$2", "1+2", `"a<b&c"`, "", "SUM(Sheet1!A:A)>3"})
				st.set(r, xl.DefinedName{Name: name, Scope: scope, RefersTo: refers, Comment: rng.Pick([]string{"", "note", "x&y <z>"})})
			case c < 9:
				st.del(r, name, scope)
			default:
				st.reopen(r)
			}
		}
		st.reopen(r)
		st.f.Close()
	}
}

// ---------------------------------------------------------------- data validations

// sheets whose names need quoting in a reference and contain XML specials; created in every DV workbook
var c18DvSheets = []string{"P&L", "A<B", "x > y", "it's", "Q1 2024"}
var c18DvSources = []string{"$E$1:$E$3", "Sheet1!$E$1:$E$3", "INDIRECT(\"a\"&B1)", "'P&L'!$A$1:$A$3", "'A<B'!$B$2:$B$9", "'x > y'!$C$1:$C$4", "'it''s'!$A$1:$A$2", "'Q1 2024'!$D$1:$D$5"}

func c18DvBook() *xl.File {
	f := xl.NewFile()
	for _, s := range c18DvSheets {
		_, _ = f.NewSheet(s)
	}
	return f
}

func c18DvMake(rng *Rng, sqref string, force int) (*xl.DataValidation, string, string) {
	dv := xl.NewDataValidation(rng.Bool())
	dv.Sqref = sqref
	dv.ShowDropDown = rng.Bool()
	want1, want2 := "", ""
	types := []xl.DataValidationType{xl.DataValidationTypeCustom, xl.DataValidationTypeDate, xl.DataValidationTypeDecimal, xl.DataValidationTypeTextLength, xl.DataValidationTypeTime, xl.DataValidationTypeWhole}
	ops := []xl.DataValidationOperator{xl.DataValidationOperatorBetween, xl.DataValidationOperatorEqual, xl.DataValidationOperatorGreaterThan, xl.DataValidationOperatorNotBetween, xl.DataValidationOperatorLessThanOrEqual}
	switch c := rng.Intn(10); {
	case force == 3: // witness: a string-literal formula with an embedded (doubled) quote
		_ = dv.SetRange(`"a""b"`, "1", xl.DataValidationTypeCustom, xl.DataValidationOperatorBetween)
		want1, want2 = `"a""b"`, "1"
	case force == 2: // witness: list source on a sheet whose quoted name needs XML escaping
		dv.SetSqrefDropList("'P&L'!$A$1:$A$3")
		want1 = "'P&L'!$A$1:$A$3"
	case force == 0: // witness: a formula that needs XML escaping, passed escaped
		_ = dv.SetRange("A1&amp;B1", "A1&amp;B1", xl.DataValidationTypeCustom, xl.DataValidationOperatorBetween)
		want1, want2 = "A1&amp;B1", "A1&amp;B1"
	case force == 1: // witness: the same kind of formula passed as the user writes it
		_ = dv.SetRange("LEN(A1)<5", "1", xl.DataValidationTypeCustom, xl.DataValidationOperatorBetween)
		want1, want2 = "LEN(A1)<5", "1"
	case c < 3:
		a, b := rng.Range(-5, 100), rng.Range(0, 1000)
		_ = dv.SetRange(a, b, types[rng.Intn(len(types))], ops[rng.Intn(len(ops))])
		want1, want2 = fmt.Sprint(a), fmt.Sprint(b)
	case c < 5:
		a, b := c18Floats[rng.Intn(len(c18Floats))], 2.5
		_ = dv.SetRange(a, b, xl.DataValidationTypeDecimal, ops[rng.Intn(len(ops))])
		want1, want2 = fmt.Sprintf("%.17g", a), "2.5"
	case c < 8:
		fs := []string{"A1", "Sheet1!$B$2", "LEN(A1)<5", "A1>B1", `A1&"x"`, "AND(A1>=1,A1<>3)", `"txt"`, "A1&amp;B1", `IF(A1="<",1,2)`, "1"}
		a, b := fs[rng.Intn(len(fs))], fs[rng.Intn(len(fs))]
		_ = dv.SetRange(a, b, types[rng.Intn(len(types))], ops[rng.Intn(len(ops))])
		want1, want2 = a, b
	case c < 9:
		s := rng.Pick(c18DvSources)
		dv.SetSqrefDropList(s)
		want1 = s
	default:
		ks := []string{c18EscStr(rng), "k"}
		_ = dv.SetDropList(ks)
		want1 = `"` + strings.Join(ks, ",") + `"`
		if strings.HasPrefix(ks[0], "=") {
			want1 = strings.Join(ks, ",")
		}
	}
	if rng.Bool() {
		dv.SetError(xl.DataValidationErrorStyle(rng.Range(1, 3)), c18Str(rng), c18Str(rng))
	}
	if rng.Bool() {
		dv.SetInput(c18Str(rng), c18Str(rng))
	}
	return dv, want1, want2
}

func c18DvCase(r *Run, rng *Rng, force int) {
	f := c18DvBook()
	defer f.Close()
	sq := []string{"A1:B2", "D1", "F3:F9", "H1:H2 J1:J2"}
	n := rng.Range(1, 4)
	if force >= 0 {
		n = 1
	}
	var want []map[string]string
	var hist []string
	for i := 0; i < n; i++ {
		dv, w1, w2 := c18DvMake(rng, sq[i], force)
		m := c18Map(*dv)
		hist = append(hist, c18Show(m))
		m["Formula1"], m["Formula2"] = "s="+hx(w1), "s="+hx(w2)
		if err := f.AddDataValidation(c18Sheet, dv); err != nil {
			r.Stat("dv-rejected")
			continue
		}
		want = append(want, m)
	}
	replay := "# dv history (AddDataValidation on Sheet1), formulas as passed:\n# " + strings.Join(hist, "\n# ")
	r.Case("dv|"+strings.Join(hist, "|"), true)
	r.Stat("dv")
	seen := map[string]bool{}
	failp := func(base, phase, what string) {
		if phase != "" && seen[base] {
			return // already reported for this case in an earlier phase
		}
		seen[base] = true
		r.Fail(base+phase, what, 0, replay)
	}
	cmp := func(g *xl.File, phase string, want []map[string]string) {
		got, err := g.GetDataValidations(c18Sheet)
		if err != nil {
			cls := ""
			for _, w := range want {
				if strings.ContainsAny(unhx(strings.TrimPrefix(w["Formula1"], "s="))+unhx(strings.TrimPrefix(w["Formula2"], "s=")), "<&") {
					cls = ":formula-markup"
				}
			}
			seen["dv:getter-error"] = true
			failp("dv:getter-error"+cls, phase, err.Error())
			return
		}
		if len(got) != len(want) {
			failp("dv:count", phase, fmt.Sprintf("%d validations set, getter lists %d", len(want), len(got)))
			return
		}
		for i := range got {
			gm := c18Map(*got[i])
			for _, k := range c18Diff(want[i], gm) {
				if (want[i][k] == "~" && gm[k] == "s=-") || (want[i][k] == "s=-" && gm[k] == "~") {
					continue // nil == absent attribute
				}
				cls := ""
				if (k == "Formula1" || k == "Formula2") && strings.Contains(unhx(strings.TrimPrefix(want[i][k], "s=")), "&") {
					cls = ":contains-amp"
				}
				if wv := unhx(strings.TrimPrefix(want[i][k], "s=")); (k == "Formula1" || k == "Formula2") && strings.HasPrefix(wv, `"`) && strings.Contains(wv[1:], `""`) {
					cls = ":string-literal-doubled-quote"
				}
				failp("dv:"+k+cls, phase, fmt.Sprintf("validation %d field %s: set %q, getter %q", i, k, want[i][k], gm[k]))
			}
		}
	}
	cmp(f, "", want)
	if rng.Bool() {
		c18Unrelated(f, rng)
		cmp(f, ":after-edit", want)
	}
	g, e := c18Reopen(f)
	if e != nil {
		r.Fail("dv:reopen-error", e.Error(), 0, replay)
	} else {
		cmp(g, ":reopen", want)
		g.Close()
	}
	if seen["dv:getter-error"] {
		return // the saved sheet XML is not well-formed; the live file re-reads it
	}
	// deletion removes exactly the targeted validation
	if len(want) > 1 {
		k := rng.Intn(len(want))
		target := unhx(strings.TrimPrefix(want[k]["Sqref"], "s="))
		if err := f.DeleteDataValidation(c18Sheet, target); err != nil {
			r.Fail("dv:delete-error", err.Error(), 0, replay+"\n# delete "+target)
			return
		}
		rest := append(append([]map[string]string{}, want[:k]...), want[k+1:]...)
		got, _ := f.GetDataValidations(c18Sheet)
		if len(got) != len(rest) {
			r.Fail("dv:delete-not-exact", fmt.Sprintf("delete %s: %d validations remain, expected %d", target, len(got), len(rest)), 0, replay+"\n# delete "+target)
			return
		}
		for i := range got {
			gm := c18Map(*got[i])
			if c18CellSet(gm["Sqref"]) != c18CellSet(rest[i]["Sqref"]) {
				r.Fail("dv:delete-not-exact", fmt.Sprintf("delete %s: remaining sqref %s expected %s", target, gm["Sqref"], rest[i]["Sqref"]), 0, replay+"\n# delete "+target)
			}
		}
	}
}

// ---------------------------------------------------------------- conditional formats

func c18CfCases(rng *Rng, style int) []xl.ConditionalFormatOptions {
	fmtID := &style
	v := rng.Pick([]string{"6", "A1>5", `"x"`, "$B$1", "1.5", `LEFT(A1,1)="<"`, "A1&B1"})
	return []xl.ConditionalFormatOptions{
		{Type: "cell", Criteria: rng.Pick([]string{"greater than", "less than", "greater than or equal to", "less than or equal to", "equal to", "not equal to"}), Format: fmtID, Value: v},
		{Type: "cell", Criteria: rng.Pick([]string{"between", "not between"}), Format: fmtID, MinValue: rng.Pick([]string{"1", "A1", "$B$1"}), MaxValue: rng.Pick([]string{"9", "B1<C1", `"z"`})},
		{Type: "top", Criteria: "=", Format: fmtID, Value: rng.Pick([]string{"1", "10", "1000"}), Percent: rng.Bool()},
		{Type: "bottom", Criteria: "=", Format: fmtID, Value: "5", Percent: rng.Bool()},
		{Type: "average", Criteria: "=", Format: fmtID, AboveAverage: rng.Bool()},
		{Type: "duplicate", Criteria: "=", Format: fmtID},
		{Type: "unique", Criteria: "=", Format: fmtID},
		{Type: "formula", Criteria: v, Format: fmtID},
		{Type: "text", Criteria: rng.Pick([]string{"containing", "not containing", "begins with", "ends with"}), Format: fmtID, Value: rng.Pick([]string{"abc", `a"b`, "a<b", "x&y"})},
		{Type: "time_period", Criteria: rng.Pick([]string{"yesterday", "today", "last 7 days", "next month"}), Format: fmtID},
		{Type: "blanks", Format: fmtID}, {Type: "no_blanks", Format: fmtID}, {Type: "errors", Format: fmtID}, {Type: "no_errors", Format: fmtID},
		{Type: "2_color_scale", Criteria: "=", MinType: "min", MaxType: "max", MinColor: "#F8696B", MaxColor: "#63BE7B"},
		{Type: "2_color_scale", Criteria: "=", MinType: "num", MaxType: "percent", MinValue: "3", MaxValue: "90", MinColor: "#FFFFFF", MaxColor: "#000000"},
		{Type: "3_color_scale", Criteria: "=", MinType: "min", MidType: "percentile", MaxType: "max", MidValue: "50", MinColor: "#F8696B", MidColor: "#FFEB84", MaxColor: "#63BE7B"},
		{Type: "data_bar", Criteria: "=", MinType: "min", MaxType: "max", BarColor: "#638EC6"},
		{Type: "data_bar", Criteria: "=", MinType: "num", MaxType: "num", MinValue: "1", MaxValue: "7", BarColor: "#638EC6", BarBorderColor: "#0000FF", BarDirection: "rightToLeft", BarOnly: true, BarSolid: true},
		{Type: "icon_set", IconStyle: rng.Pick([]string{"3Arrows", "4Rating", "5Quarters"}), ReverseIcons: rng.Bool(), IconsOnly: rng.Bool()},
	}
}

func c18CfCase(r *Run, rng *Rng) {
	f := xl.NewFile()
	defer f.Close()
	style, _ := f.NewConditionalStyle(&xl.Style{Font: &xl.Font{Color: "9A0511"}})
	all := c18CfCases(rng, style)
	ranges := []string{"A1:A10", "C1:D4", "F2"}
	want := map[string][]xl.ConditionalFormatOptions{}
	var hist []string
	n := rng.Range(1, 3)
	for i := 0; i < n; i++ {
		var opts []xl.ConditionalFormatOptions
		for j := rng.Range(1, 2); j > 0; j-- {
			o := all[rng.Intn(len(all))]
			o.StopIfTrue = rng.Chance(30) && o.Format != nil
			opts = append(opts, o)
		}
		if err := f.SetConditionalFormat(c18Sheet, ranges[i], opts); err != nil {
			r.Stat("cf-rejected:" + opts[0].Type)
			continue
		}
		want[ranges[i]] = opts
		for _, o := range opts {
			hist = append(hist, ranges[i]+" "+c18Show(c18Map(o)))
			r.Stat("cf:" + o.Type)
		}
	}
	replay := "# cf history (SetConditionalFormat on Sheet1):\n# " + strings.Join(hist, "\n# ")
	r.Case("cf|"+strings.Join(hist, "|"), true)
	seen := map[string]bool{}
	failp := func(base, phase, what string) {
		if phase != "" && seen[base] {
			return // already reported for this case in an earlier phase
		}
		seen[base] = true
		r.Fail(base+phase, what, 0, replay)
	}
	cmp := func(g *xl.File, phase string, want map[string][]xl.ConditionalFormatOptions) {
		got, err := g.GetConditionalFormats(c18Sheet)
		if err != nil {
			failp("cf:getter-error", phase, err.Error())
			return
		}
		var ks []string
		for k := range want {
			ks = append(ks, k)
		}
		sort.Strings(ks)
		if len(got) != len(want) {
			failp("cf:count", phase, fmt.Sprintf("%d ranges set, getter lists %d", len(want), len(got)))
		}
		for _, k := range ks {
			if len(got[k]) != len(want[k]) {
				failp("cf:rules", phase, fmt.Sprintf("range %s: %d rules set, getter lists %d", k, len(want[k]), len(got[k])))
				continue
			}
			for i := range want[k] {
				wm, gm := c18Map(want[k][i]), c18Map(got[k][i])
				for _, fld := range c18Diff(wm, gm) {
					failp("cf:"+want[k][i].Type+":"+fld, phase, fmt.Sprintf("range %s rule %d (%s) field %s: set %q, getter %q", k, i, want[k][i].Type, fld, wm[fld], gm[fld]))
				}
			}
		}
	}
	cmp(f, "", want)
	g, e := c18Reopen(f)
	if e != nil {
		r.Fail("cf:reopen-error", e.Error(), 0, replay)
	} else {
		cmp(g, ":reopen", want)
		g.Close()
	}
	if len(want) > 1 {
		var ks []string
		for k := range want {
			ks = append(ks, k)
		}
		sort.Strings(ks)
		k := ks[rng.Intn(len(ks))]
		if err := f.UnsetConditionalFormat(c18Sheet, k); err != nil {
			r.Fail("cf:unset-error", err.Error(), 0, replay)
			return
		}
		delete(want, k)
		cmp(f, ":after-unset", want)
	}
}

// ---------------------------------------------------------------- comments, hyperlinks, tables

func c18CommentCase(r *Run, rng *Rng) {
	f := xl.NewFile()
	defer f.Close()
	cells := []string{"A1", "C5", "B2"}
	n := rng.Range(1, 3)
	var want []xl.Comment
	var hist []string
	for i := 0; i < n; i++ {
		c := xl.Comment{Cell: cells[i], Author: rng.Pick([]string{"Excelize", "A&B", "<me>", ""}), Text: ""}
		if rng.Bool() {
			c.Text = c18Str(rng)
		}
		for j := rng.Intn(3); j > 0; j-- {
			c.Paragraph = append(c.Paragraph, xl.RichTextRun{Text: c18Str(rng) + "p"})
		}
		hist = append(hist, fmt.Sprintf("%s author=%q text=%q runs=%d", c.Cell, c.Author, c.Text, len(c.Paragraph)))
		if err := f.AddComment(c18Sheet, c); err != nil {
			r.Stat("comment-rejected")
			continue
		}
		want = append(want, c)
	}
	replay := "# comments: " + strings.Join(hist, "; ")
	r.Case("comment|"+replay, true)
	r.Stat("comment")
	seen := map[string]bool{}
	failp := func(base, phase, what string) {
		if phase != "" && seen[base] {
			return // already reported for this case in an earlier phase
		}
		seen[base] = true
		r.Fail(base+phase, what, 0, replay)
	}
	cmp := func(g *xl.File, phase string, want []xl.Comment) {
		got, err := g.GetComments(c18Sheet)
		if err != nil {
			failp("comment:getter-error", phase, err.Error())
			return
		}
		if len(got) != len(want) {
			failp("comment:count", phase, fmt.Sprintf("%d comments set, %d listed", len(want), len(got)))
			return
		}
		for i := range want {
			wt := want[i].Text
			for _, p := range want[i].Paragraph {
				wt += p.Text
			}
			if got[i].Cell != want[i].Cell {
				failp("comment:Cell", phase, fmt.Sprintf("cell %q listed as %q", want[i].Cell, got[i].Cell))
			}
			if got[i].Author != want[i].Author && !(want[i].Author == "" && got[i].Author == "Author") { // documented default author
				failp("comment:Author", phase, fmt.Sprintf("author %q listed as %q", want[i].Author, got[i].Author))
			}
			gt := got[i].Text
			for _, p := range got[i].Paragraph {
				gt += p.Text
			}
			if gt != wt {
				failp("comment:Text", phase, fmt.Sprintf("text %q listed as %q", wt, gt))
			}
		}
	}
	cmp(f, "", want)
	g, e := c18Reopen(f)
	if e != nil {
		r.Fail("comment:reopen-error", e.Error(), 0, replay)
	} else {
		cmp(g, ":reopen", want)
		g.Close()
	}
	if len(want) > 1 {
		k := rng.Intn(len(want))
		_ = f.DeleteComment(c18Sheet, want[k].Cell)
		cmp(f, ":after-delete", append(append([]xl.Comment{}, want[:k]...), want[k+1:]...))
	}
}

func c18LinkCase(r *Run, rng *Rng) {
	f := xl.NewFile()
	defer f.Close()
	type lk struct{ cell, link, typ string }
	var want []lk
	cells := []string{"A1", "B3", "D4"}
	for i := 0; i < rng.Range(1, 3); i++ {
		l := lk{cells[i], rng.Pick([]string{"https://example.com/?a=1&b=2", "https://example.com/<x>", "Sheet1!A40", "'My Sheet'!B2", "mailto:a@b.c", "https://example.com/é"}), "External"}
		if strings.Contains(l.link, "!") {
			l.typ = "Location"
		}
		var opts []xl.HyperlinkOpts
		if rng.Bool() {
			d, t := c18Str(rng), c18Str(rng)
			opts = append(opts, xl.HyperlinkOpts{Display: &d, Tooltip: &t})
		}
		if err := f.SetCellHyperLink(c18Sheet, l.cell, l.link, l.typ, opts...); err != nil {
			continue
		}
		want = append(want, l)
	}
	replay := fmt.Sprintf("# hyperlinks %v", want)
	r.Case(replay, true)
	r.Stat("hyperlink")
	seen := map[string]bool{}
	failp := func(base, phase, what string) {
		if phase != "" && seen[base] {
			return // already reported for this case in an earlier phase
		}
		seen[base] = true
		r.Fail(base+phase, what, 0, replay)
	}
	cmp := func(g *xl.File, phase string, want []lk, gone []lk) {
		for _, l := range want {
			ok, got, err := g.GetCellHyperLink(c18Sheet, l.cell)
			if err != nil || !ok || got != l.link {
				failp("hyperlink:"+l.typ, phase, fmt.Sprintf("%s: set %q, getter (%v,%q,%v)", l.cell, l.link, ok, got, err))
			}
		}
		for _, l := range gone {
			if ok, got, _ := g.GetCellHyperLink(c18Sheet, l.cell); ok {
				failp("hyperlink:not-removed", phase, fmt.Sprintf("%s still links to %q", l.cell, got))
			}
		}
	}
	cmp(f, "", want, nil)
	g, e := c18Reopen(f)
	if e != nil {
		r.Fail("hyperlink:reopen-error", e.Error(), 0, replay)
	} else {
		cmp(g, ":reopen", want, nil)
		g.Close()
	}
	if len(want) > 1 {
		_ = f.SetCellHyperLink(c18Sheet, want[0].cell, "", "None")
		cmp(f, ":after-remove", want[1:], want[:1])
	}
}

func c18TableCase(r *Run, rng *Rng, noHeader bool) {
	f := xl.NewFile()
	defer f.Close()
	for c := 1; c <= 8; c++ {
		n, _ := xl.CoordinatesToCellName(c, 1)
		_ = f.SetCellStr(c18Sheet, n, fmt.Sprintf("h%d", c))
		n2, _ := xl.CoordinatesToCellName(c, 8)
		_ = f.SetCellStr(c18Sheet, n2, fmt.Sprintf("g%d", c))
	}
	rs := []string{"A1:C5", "E1:H4", "A8:B12"}
	var want []xl.Table
	for i := 0; i < rng.Range(1, 3); i++ {
		t := xl.Table{Range: rs[i], Name: rng.Pick([]string{"", "tbl" + fmt.Sprint(i), "_t" + fmt.Sprint(i), "Таблица" + fmt.Sprint(i)}),
			StyleName: rng.Pick([]string{"", "TableStyleMedium2", "TableStyleLight1"}), ShowColumnStripes: rng.Bool(), ShowFirstColumn: rng.Bool(), ShowLastColumn: rng.Bool()}
		if rng.Bool() || noHeader {
			b := rng.Bool() && !noHeader
			t.ShowHeaderRow = &b
		}
		if rng.Bool() {
			b := rng.Bool()
			t.ShowRowStripes = &b
		}
		tt := t
		if err := f.AddTable(c18Sheet, &tt); err != nil {
			r.Stat("table-rejected")
			continue
		}
		want = append(want, t)
	}
	var hist []string
	for _, t := range want {
		hist = append(hist, c18Show(c18Map(t)))
	}
	replay := "# tables: " + strings.Join(hist, " ; ")
	r.Case(replay, true)
	r.Stat("table")
	seen := map[string]bool{}
	failp := func(base, phase, what string) {
		if phase != "" && seen[base] {
			return // already reported for this case in an earlier phase
		}
		seen[base] = true
		r.Fail(base+phase, what, 0, replay)
	}
	cmp := func(g *xl.File, phase string, want []xl.Table) {
		got, err := g.GetTables(c18Sheet)
		if err != nil {
			failp("table:getter-error", phase, err.Error())
			return
		}
		if len(got) != len(want) {
			failp("table:count", phase, fmt.Sprintf("%d tables set, %d listed", len(want), len(got)))
			return
		}
		sort.Slice(got, func(i, j int) bool { return got[i].Range < got[j].Range })
		ws := append([]xl.Table{}, want...)
		sort.Slice(ws, func(i, j int) bool { return ws[i].Range < ws[j].Range })
		tblFresh := map[string]string{"ShowHeaderRow": "b=1", "ShowRowStripes": "b=1"}
		for i := range ws {
			wm, gm := c18Map(ws[i]), c18Map(got[i])
			for _, k := range c18Diff(wm, gm) {
				w, gv := wm[k], gm[k]
				if w == "~" {
					w = tblFresh[k]
				}
				if gv == "~" {
					gv = tblFresh[k]
				}
				if w == gv || (k == "Name" && wm[k] == "s=-") || (k == "StyleName" && wm[k] == "s=-") {
					continue
				}
				failp("table:"+k, phase, fmt.Sprintf("table %s field %s: set %q, getter %q", ws[i].Range, k, wm[k], gm[k]))
			}
		}
	}
	cmp(f, "", want)
	g, e := c18Reopen(f)
	if e != nil {
		r.Fail("table:reopen-error", e.Error(), 0, replay)
	} else {
		cmp(g, ":reopen", want)
		g.Close()
	}
	if len(want) > 1 {
		k := rng.Intn(len(want))
		if want[k].Name == "" {
			return
		}
		if err := f.DeleteTable(want[k].Name); err != nil {
			r.Fail("table:delete-error", err.Error(), 0, replay)
			return
		}
		cmp(f, ":after-delete", append(append([]xl.Table{}, want[:k]...), want[k+1:]...))
	}
}

func c18Lists(r *Run, rng *Rng, mul int) {
	c18DvCase(r, rng, 0)
	c18DvCase(r, rng, 1)
	c18DvCase(r, rng, 2)
	c18DvCase(r, rng, 3)
	c18TableCase(r, rng, true)
	for i := 0; i < 150*mul; i++ {
		c18DvCase(r, rng, -1)
	}
	for i := 0; i < 150*mul; i++ {
		c18CfCase(r, rng)
	}
	for i := 0; i < 40*mul; i++ {
		c18CommentCase(r, rng)
		c18LinkCase(r, rng)
		c18TableCase(r, rng, false)
	}
}

var c18ReplayDn *c18DnState
var c18ReplayCf *c18CfHist
var c18ReplayPh *c18ProtHist

// c18ReplayMore re-executes defined-name op lines (stateful) of a replay file.
func c18ReplayMore(r *Run, rng *Rng, line string, w []string) {
	_ = reflect.TypeOf
	arg := func(i int) string {
		if i < len(w) {
			return unhx(w[i])
		}
		return ""
	}
	if strings.HasPrefix(w[0], "ph") {
		if c18ReplayPh == nil {
			c18ReplayPh = &c18ProtHist{}
		}
		c18ReplayPh.exec(r, line)
		return
	}
	if strings.HasPrefix(w[0], "cf") {
		if c18ReplayCf == nil {
			c18ReplayCf = &c18CfHist{}
		}
		c18ReplayCf.exec(r, rng, line)
		return
	}
	switch w[0] {
	case "dnreset":
		var sheets []string
		for _, h := range w[1:] {
			sheets = append(sheets, unhx(h))
		}
		if len(sheets) == 0 {
			sheets = c18DnSheets
		}
		c18ReplayDn = c18DnNew(r, sheets)
	case "dnset", "dndel", "dnget":
		if c18ReplayDn == nil {
			c18ReplayDn = c18DnNew(r, c18DnSheets)
		}
		switch w[0] {
		case "dnset":
			c18ReplayDn.set(r, xl.DefinedName{Name: arg(1), Scope: arg(2), RefersTo: arg(3), Comment: arg(4)})
		case "dndel":
			c18ReplayDn.del(r, arg(1), arg(2))
		default:
			c18ReplayDn.get(r)
		}
	}
}

// c18CellSet expands a rendered sqref ("s=<hex>") into its sorted set of cells.
func c18CellSet(rendered string) string {
	var cells []string
	for _, part := range strings.Fields(unhx(strings.TrimPrefix(rendered, "s="))) {
		q, err := xl.VerifRangeRefToCoordinates(part)
		if err != nil {
			c, ro, e2 := xl.CellNameToCoordinates(part)
			if e2 != nil {
				return rendered
			}
			q = []int{c, ro, c, ro}
		}
		for c := q[0]; c <= q[2]; c++ {
			for ro := q[1]; ro <= q[3]; ro++ {
				n, _ := xl.CoordinatesToCellName(c, ro)
				cells = append(cells, n)
			}
		}
	}
	sort.Strings(cells)
	return strings.Join(cells, " ")
}
