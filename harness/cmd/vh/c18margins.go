//go:build verif_c18

package main

// C18 — SetPageMargins / GetPageMargins (model: XlModel.Margins).
//   pmg <call>... ; one call = 6 margins in option-struct order (~ = nil, else decimal text) + Horizontally + Vertically (~|0|1)
// Go: the calls in order on Sheet1 of a new workbook, then GetPageMargins: "ok <6 margins> <h> <v>".

import (
	"strconv"
	"strings"

	xl "github.com/xuri/excelize/v2"
)

func c18Pmg(r *Run, calls [][8]string) {
	line := "pmg"
	for _, c := range calls {
		line += " " + strings.Join(c[:], " ")
	}
	f := xl.NewFile()
	defer f.Close()
	fl := func(s string) *float64 {
		if s == "~" {
			return nil
		}
		v, _ := strconv.ParseFloat(s, 64)
		return &v
	}
	bl := func(s string) *bool {
		if s == "~" {
			return nil
		}
		v := s == "1"
		return &v
	}
	res := ""
	for _, c := range calls {
		o := &xl.PageLayoutMarginsOptions{Bottom: fl(c[0]), Footer: fl(c[1]), Header: fl(c[2]), Left: fl(c[3]), Right: fl(c[4]), Top: fl(c[5]),
			Horizontally: bl(c[6]), Vertically: bl(c[7])}
		err, pan := c18Safe(func() error { return f.SetPageMargins(c18Sheet, o) })
		if pan {
			res = "PANIC"
		} else if err != nil {
			res = "ERR"
		}
	}
	if res == "" {
		got, err := f.GetPageMargins(c18Sheet)
		if err != nil {
			res = "ERR-get"
		} else {
			sf := func(p *float64) string {
				if p == nil {
					return "~"
				}
				return strconv.FormatFloat(*p, 'g', -1, 64)
			}
			sb := func(p *bool) string {
				if p == nil {
					return "~"
				}
				if *p {
					return "1"
				}
				return "0"
			}
			res = "ok " + strings.Join([]string{sf(got.Bottom), sf(got.Footer), sf(got.Header), sf(got.Left), sf(got.Right), sf(got.Top),
				sb(got.Horizontally), sb(got.Vertically)}, " ")
		}
	}
	ln := r.Op(line, res)
	r.Case(line, true)
	r.Stat("pmg:" + strings.Fields(res)[0])
	if res == "PANIC" {
		r.Fail("pmg:panic", "SetPageMargins panicked", ln, line)
	}
}

func c18Pmgs(r *Run, rng *Rng, mul int) {
	vals := []string{"0", "0.25", "0.5", "1", "1.5", "2.75", "0.3", "0.7", "0.75", "10", "0.1", "1e-07"}
	bs := []string{"~", "0", "1"}
	// deterministic: the margins:* regression (one margin on a fresh sheet), flags only, nothing at all, one flag then the other
	c18Pmg(r, [][8]string{{"1", "~", "~", "~", "~", "~", "~", "~"}})
	c18Pmg(r, [][8]string{{"~", "~", "~", "~", "~", "~", "1", "~"}})
	c18Pmg(r, [][8]string{{"~", "~", "~", "~", "~", "~", "~", "~"}})
	c18Pmg(r, [][8]string{{"~", "~", "~", "~", "~", "2.75", "~", "1"}, {"~", "0.5", "~", "~", "~", "~", "0", "~"}})
	for i := 0; i < 60*mul; i++ {
		var calls [][8]string
		for k := 1 + rng.Intn(3); k > 0; k-- {
			var c [8]string
			pSet := []int{0, 20, 50, 90}[rng.Intn(4)]
			for j := 0; j < 6; j++ {
				c[j] = "~"
				if rng.Chance(pSet) {
					c[j] = vals[rng.Intn(len(vals))]
				}
			}
			c[6], c[7] = bs[rng.Intn(3)], bs[rng.Intn(3)]
			calls = append(calls, c)
		}
		c18Pmg(r, calls)
	}
}
