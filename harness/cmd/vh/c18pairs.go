//go:build verif_c18

package main

// C18 — the Set*/Get* pairs whose options are one structure (generic engine in c18.go).

import (
	"math"
	"strconv"
	"strings"

	xl "github.com/xuri/excelize/v2"
)

const c18Sheet = "Sheet1"

func c18ZeroToNil(m map[string]string) map[string]string {
	for k, v := range m {
		if c18Class(v) == "zero" {
			m[k] = "~"
		}
	}
	return m
}

func c18Pairs() []*c18Pair {
	ps := []*c18Pair{
		{
			name: "wbprops", fields: []string{"Date1904", "FilterPrivacy", "CodeName"},
			mk: func(rng *Rng) interface{} {
				o := &xl.WorkbookPropsOptions{}
				c18Fill(rng, reflectElem(o))
				return o
			},
			set: func(f *xl.File, o interface{}) error { return f.SetWorkbookProps(o.(*xl.WorkbookPropsOptions)) },
			get: func(f *xl.File) (interface{}, error) { return f.GetWorkbookProps() },
		},
		{
			name: "calcprops", fields: []string{"CalcCompleted", "CalcOnSave", "ForceFullCalc", "FullCalcOnLoad", "FullPrecision", "Iterate", "IterateDelta", "CalcMode", "RefMode"},
			mk: func(rng *Rng) interface{} {
				o := &xl.CalcPropsOptions{}
				c18Fill(rng, reflectElem(o))
				c18Pick(rng, 85, []string{"manual", "auto", "autoNoTable"}, &o.CalcMode)
				c18Pick(rng, 85, []string{"A1", "R1C1"}, &o.RefMode)
				return o
			},
			set: func(f *xl.File, o interface{}) error { return f.SetCalcProps(o.(*xl.CalcPropsOptions)) },
			get: func(f *xl.File) (interface{}, error) { return f.GetCalcProps() },
		},
		{
			name: "appprops", fields: []string{"Application", "ScaleCrop", "DocSecurity", "Company", "LinksUpToDate", "HyperlinksChanged", "AppVersion"},
			mk: func(rng *Rng) interface{} {
				o := &xl.AppProperties{}
				c18Fill(rng, reflectElem(o))
				return o
			},
			set:    func(f *xl.File, o interface{}) error { return f.SetAppProps(o.(*xl.AppProperties)) },
			get:    func(f *xl.File) (interface{}, error) { return f.GetAppProps() },
			expect: c18Replace,
		},
		{
			name: "docprops", fields: []string{"Category", "ContentStatus", "Creator", "Description", "Identifier", "Keywords", "LastModifiedBy", "Revision", "Subject", "Title", "Language", "Version"},
			mk: func(rng *Rng) interface{} {
				o := &xl.DocProperties{}
				c18Fill(rng, reflectElem(o))
				return o
			},
			set: func(f *xl.File, o interface{}) error { return f.SetDocProps(o.(*xl.DocProperties)) },
			get: func(f *xl.File) (interface{}, error) { return f.GetDocProps() },
			expect: func(before, opts map[string]string) map[string]string {
				e := c18Replace(before, opts)
				for _, k := range []string{"Created", "Modified"} { // documented: only set when non-empty
					if opts[k] == "s=-" {
						e[k] = before[k]
					}
				}
				return e
			},
		},
		{
			name: "sheetprops",
			mk: func(rng *Rng) interface{} {
				o := &xl.SheetPropsOptions{}
				c18Fill(rng, reflectElem(o))
				c18Pick(rng, 70, []string{"FF0000", "00FF00FF", "", "123456"}, &o.TabColorRGB)
				return o
			},
			set: func(f *xl.File, o interface{}) error { return f.SetSheetProps(c18Sheet, o.(*xl.SheetPropsOptions)) },
			get: func(f *xl.File) (interface{}, error) { return f.GetSheetProps(c18Sheet) },
			sig: func(k string, o map[string]string) string {
				if k == "AutoPageBreaks" && o[k] == "~" && o["FitToPage"] != "~" {
					return ":unset-with-FitToPage"
				}
				return ""
			},
		},
		{
			name: "sheetview",
			mk: func(rng *Rng) interface{} {
				o := &xl.ViewOptions{}
				c18Fill(rng, reflectElem(o))
				c18Pick(rng, 80, []string{"normal", "pageLayout", "pageBreakPreview"}, &o.View)
				c18Pick(rng, 80, []string{"A1", "B7", "XFD1048576", ""}, &o.TopLeftCell)
				return o
			},
			set: func(f *xl.File, o interface{}) error { return f.SetSheetView(c18Sheet, -1, o.(*xl.ViewOptions)) },
			get: func(f *xl.File) (interface{}, error) { return f.GetSheetView(c18Sheet, -1) },
			sig: func(k string, o map[string]string) string {
				switch k {
				case "ZoomScale":
					if b, err := strconv.ParseUint(strings.TrimPrefix(o[k], "f="), 16, 64); err == nil {
						if z := math.Float64frombits(b); z < 10 || z > 400 {
							return ":out-of-range"
						}
					}
				case "View":
					if v := unhx(strings.TrimPrefix(o[k], "s=")); v != "normal" && v != "pageLayout" && v != "pageBreakPreview" {
						return ":invalid-value"
					}
				}
				return ""
			},
		},
		{
			name: "margins",
			mk: func(rng *Rng) interface{} {
				o := &xl.PageLayoutMarginsOptions{}
				c18Fill(rng, reflectElem(o))
				return o
			},
			set: func(f *xl.File, o interface{}) error {
				return f.SetPageMargins(c18Sheet, o.(*xl.PageLayoutMarginsOptions))
			},
			get: func(f *xl.File) (interface{}, error) { return f.GetPageMargins(c18Sheet) },
		},
		{
			name: "layout",
			mk: func(rng *Rng) interface{} {
				o := &xl.PageLayoutOptions{}
				c18Fill(rng, reflectElem(o))
				c18Pick(rng, 85, []string{"portrait", "landscape"}, &o.Orientation)
				c18Pick(rng, 85, []string{"overThenDown", "downThenOver"}, &o.PageOrder)
				if o.AdjustTo != nil && rng.Chance(70) {
					u := uint(rng.Pick2([]int{10, 11, 100, 399, 400}))
					o.AdjustTo = &u
				}
				return o
			},
			set: func(f *xl.File, o interface{}) error { return f.SetPageLayout(c18Sheet, o.(*xl.PageLayoutOptions)) },
			get: func(f *xl.File) (interface{}, error) { return f.GetPageLayout(c18Sheet) },
			sig: func(k string, o map[string]string) string {
				if k == "FirstPageNumber" && o[k] == "u=0" {
					return ":zero"
				}
				return ""
			},
		},
		{
			name: "headerfooter",
			mk: func(rng *Rng) interface{} {
				o := &xl.HeaderFooterOptions{}
				c18Fill(rng, reflectElem(o))
				return o
			},
			set: func(f *xl.File, o interface{}) error {
				return f.SetHeaderFooter(c18Sheet, o.(*xl.HeaderFooterOptions))
			},
			get:    func(f *xl.File) (interface{}, error) { return f.GetHeaderFooter(c18Sheet) },
			expect: c18Replace,
		},
		{
			name: "panes",
			mk: func(rng *Rng) interface{} {
				o := &xl.Panes{}
				c18Fill(rng, reflectElem(o))
				panes := []string{"", "bottomLeft", "bottomRight", "topLeft", "topRight"}
				if rng.Chance(85) {
					o.ActivePane = panes[rng.Intn(len(panes))]
					o.TopLeftCell = rng.Pick([]string{"", "A1", "B2", "N57"})
					o.XSplit, o.YSplit = rng.Pick2([]int{0, 1, 2, 1800, 3270}), rng.Pick2([]int{0, 1, 9, 1800})
					for i := range o.Selection {
						o.Selection[i].Pane = panes[rng.Intn(len(panes))]
						o.Selection[i].ActiveCell = rng.Pick([]string{"A1", "I36", ""})
						o.Selection[i].SQRef = rng.Pick([]string{"A1", "I36:J37", "A1 C3", ""})
					}
				}
				return o
			},
			set: func(f *xl.File, o interface{}) error { return f.SetPanes(c18Sheet, o.(*xl.Panes)) },
			get: func(f *xl.File) (interface{}, error) { return f.GetPanes(c18Sheet) },
			expect: func(before, opts map[string]string) map[string]string {
				e := c18Replace(before, opts)
				if opts["Freeze"] == "b=0" && opts["Split"] == "b=0" { // documented: removes all panes
					e["XSplit"], e["YSplit"], e["TopLeftCell"], e["ActivePane"] = "i=0", "i=0", "s=-", "s=-"
				}
				if opts["Freeze"] == "b=1" { // a frozen pane is not a split pane: Freeze takes precedence
					e["Split"] = "b=0"
				}
				return e
			},
		},
	}
	for _, p := range ps {
		if p.expect == nil {
			p.expect = c18Overlay
		}
		f := xl.NewFile()
		if v, err := p.get(f); err == nil {
			p.fresh = c18Map(v)
		} else {
			p.fresh = map[string]string{}
		}
		f.Close()
	}
	// wbprops / calcprops: the getter reports a zero value as a nil pointer (default-normalised):
	// nil stands for the zero value there, whatever the template workbook contains
	ps[0].fresh, ps[1].fresh = map[string]string{}, map[string]string{}
	return ps
}

func c18PairByName(n string) *c18Pair {
	for _, p := range c18Pairs() {
		if p.name == n {
			return p
		}
	}
	return nil
}

// c18Dimension: SetSheetDimension / GetSheetDimension on a reference string.
func c18Dimension(r *Run, rng *Rng, ref string) {
	f := xl.NewFile()
	defer f.Close()
	replay := "dim " + hx(ref)
	err, pan := c18Safe(func() error { return f.SetSheetDimension(c18Sheet, ref) })
	r.Case("dim:"+ref, true)
	r.Stat("dim")
	if pan {
		r.Fail("dimension:panic", "SetSheetDimension panicked on "+ref, 0, replay)
		return
	}
	if err != nil {
		r.Stat("dim-rejected")
		return
	}
	got, _ := f.GetSheetDimension(c18Sheet)
	want := c18CanonRange(ref)
	if got != want && got != strings.ToUpper(ref) {
		sig := "dimension:not-canonical"
		if strings.Contains(ref, "$") {
			sig = "dimension:absolute-kept"
		}
		r.Fail(sig, "SetSheetDimension("+ref+") accepted; GetSheetDimension = "+got+", canonical "+want, 0, replay)
	}
	c18Unrelated(f, rng)
	g2, _ := f.GetSheetDimension(c18Sheet)
	if g2 != got {
		r.Fail("dimension:changed-by-unrelated-edit", "dimension "+got+" became "+g2, 0, replay)
	}
	if g, e := c18Reopen(f); e != nil {
		r.Fail("dimension:reopen-error", e.Error(), 0, replay)
	} else {
		// saving recomputes nothing: the explicit dimension must persist
		g3, _ := g.GetSheetDimension(c18Sheet)
		if g3 != got {
			r.Fail("dimension:reopen", "dimension "+got+" is "+g3+" after save+reopen", 0, replay)
		}
		g.Close()
	}
}

// c18CanonRange: upper-case, no '$', corners sorted.
func c18CanonRange(ref string) string {
	ref = strings.ToUpper(strings.ReplaceAll(ref, "$", ""))
	parts := strings.Split(ref, ":")
	if len(parts) == 1 {
		c, ro, err := xl.CellNameToCoordinates(parts[0])
		if err != nil {
			return ref
		}
		s, _ := xl.CoordinatesToCellName(c, ro)
		return s
	}
	c1, r1, e1 := xl.CellNameToCoordinates(parts[0])
	c2, r2, e2 := xl.CellNameToCoordinates(parts[1])
	if e1 != nil || e2 != nil {
		return ref
	}
	if c2 < c1 {
		c1, c2 = c2, c1
	}
	if r2 < r1 {
		r1, r2 = r2, r1
	}
	a, _ := xl.CoordinatesToCellName(c1, r1)
	b, _ := xl.CoordinatesToCellName(c2, r2)
	return a + ":" + b
}
