//go:build verif_c18

package main

// C18 — protection HISTORIES: protect(opts1) -> protect(opts2) / unprotect -> protect,
// for sheets and the workbook. After every step the stored record must be exactly
// what the LAST accepted ProtectSheet / ProtectWorkbook asked for (flags, algorithm,
// password / hash presence); at the end the right password is accepted, another one
// refused, and a password-less protection is removable — on a saved+reopened copy and
// on the live file.
//
// Replayable op lines (replay text of a failure, not part of the Lean transcript):
//   phnew <sheet|workbook>
//   phprot <hex alg> <hex password> <Option:0|1,...>   (transcript op: result = stored record)
//   phunprot <hex password | ~>          (~ = no password argument)
//   phswap                               save + reopen, continue on the reopened file
//   phverify                             final verification (copy and live)

import (
	"fmt"
	"reflect"
	"sort"
	"strings"

	xl "github.com/xuri/excelize/v2"
)

type c18ProtHist struct {
	f        *xl.File
	workbook bool
	lines    []string
	dead     bool
	// model: protection in force
	on    bool
	alg   string
	pw    string
	flags map[string]bool // stored flag name -> stored value
}

var c18SheetFlagOpts = []string{"AutoFilter", "DeleteColumns", "DeleteRows", "EditObjects", "EditScenarios", "FormatCells", "FormatColumns", "FormatRows",
	"InsertColumns", "InsertHyperlinks", "InsertRows", "PivotTables", "SelectLockedCells", "SelectUnlockedCells", "Sort"}

func (h *c18ProtHist) kind() string {
	if h.workbook {
		return "workbook"
	}
	return "sheet"
}

func (h *c18ProtHist) fail(r *Run, sig, what string) {
	if !h.dead {
		r.Fail("protecth:"+h.kind()+":"+sig, what, 0, strings.Join(h.lines, "\n"))
	}
	h.dead = true
}

func (h *c18ProtHist) dump(g *xl.File) map[string]string {
	var d string
	if h.workbook {
		d = xl.VerifC18WorkbookProtection(g)
	} else {
		d = xl.VerifC18SheetProtection(g, c18Sheet)
	}
	m := map[string]string{"_raw": d}
	for _, w := range strings.Fields(d) {
		if i := strings.Index(w, "="); i > 0 {
			m[w[:i]] = strings.Trim(w[i+1:], `"`)
		}
	}
	return m
}

// canon renders the stored record as the Lean driver does: algorithm and legacy password
// (hex), presence of hash and salt, spin count, flags sorted by name.
func (h *c18ProtHist) canon(g *xl.File) string {
	d := h.dump(g)
	if d["_raw"] == "none" || d["_raw"] == "ERR" {
		return d["_raw"]
	}
	b := func(v string) string {
		if v == "0" {
			return "0"
		}
		return "1"
	}
	var fl []string
	for k, v := range d {
		switch k {
		case "_raw", "alg", "pw", "hash", "salt", "spin":
		default:
			fl = append(fl, k+"="+v)
		}
	}
	sort.Strings(fl)
	return "alg=" + hx(d["alg"]) + " pw=" + hx(d["pw"]) + " hash=" + b(d["hash"]) + " salt=" + b(d["salt"]) + " spin=" + d["spin"] + " " + strings.Join(fl, " ")
}

func (h *c18ProtHist) unprotect(g *xl.File, p ...string) error {
	if h.workbook {
		return g.UnprotectWorkbook(p...)
	}
	return g.UnprotectSheet(c18Sheet, p...)
}

// checkRecord compares the stored record with the protection that should be in force.
func (h *c18ProtHist) checkRecord(r *Run, g *xl.File, phase string) {
	if h.dead {
		return
	}
	d := h.dump(g)
	if !h.on {
		if d["_raw"] != "none" {
			h.fail(r, "record-after-unprotect"+phase, "no protection should be in force; stored record: "+d["_raw"])
		}
		return
	}
	if d["_raw"] == "none" || d["_raw"] == "ERR" {
		h.fail(r, "record-missing"+phase, "protection should be in force; stored record: "+d["_raw"])
		return
	}
	for k, v := range h.flags {
		if d[k] != fmt.Sprint(v) {
			h.fail(r, "flags"+phase, fmt.Sprintf("flag %s should be stored as %v (last protect call); record: %s", k, v, d["_raw"]))
			return
		}
	}
	wantAlg, wantHash, wantPw := "", false, ""
	switch {
	case h.pw == "":
	case !h.workbook && h.alg == "":
		wantPw = xl.VerifC18GenSheetPasswd(h.pw)
	case h.workbook && h.alg == "":
		wantAlg, wantHash = "SHA-512", true
	default:
		wantAlg, wantHash = h.alg, true
	}
	hasHash := d["hash"] != "0" || d["salt"] != "0" || d["spin"] != "0"
	if d["alg"] != wantAlg || hasHash != wantHash || (!h.workbook && d["pw"] != wantPw) {
		sig := "stale-password-record"
		if h.pw != "" {
			sig = "password-record"
		}
		h.fail(r, sig+phase, fmt.Sprintf("last protect call: algorithm %q password %q -> expected algorithm %q, hash present %v, legacy password %q; record: %s", h.alg, h.pw, wantAlg, wantHash, wantPw, d["_raw"]))
	}
}

// verify: destructive check that exactly the last protection is in force (on g).
func (h *c18ProtHist) verify(r *Run, g *xl.File, phase string, wrongToo bool) {
	h.checkRecord(r, g, phase)
	if h.dead || !h.on {
		return
	}
	if h.pw == "" {
		// nothing to verify: removable without a password; the workbook variant documents that
		// any password is accepted when none was set
		if h.workbook && wrongToo {
			if e := h.unprotect(g, "anything"); e != nil {
				h.fail(r, "no-password-not-removable"+phase, fmt.Sprintf("protection set without password; Unprotect(\"anything\"): %v", e))
			}
			return
		}
		if e := h.unprotect(g); e != nil {
			h.fail(r, "no-password-not-removable"+phase, fmt.Sprintf("protection set without password; Unprotect(): %v", e))
		}
		return
	}
	if wrongToo {
		other := h.pw + "x"
		collide := !h.workbook && h.alg == "" && xl.VerifC18GenSheetPasswd(other) == xl.VerifC18GenSheetPasswd(h.pw)
		if e := h.unprotect(g, other); e == nil && !collide {
			h.fail(r, "wrong-accepted"+phase, fmt.Sprintf("protected with %q (%s); Unprotect(%q) succeeded", h.pw, h.alg, other))
			return
		}
	}
	if e := h.unprotect(g, h.pw); e != nil {
		h.fail(r, "verify"+phase, fmt.Sprintf("last protect call used password %q (%s); Unprotect with it: %v", h.pw, h.alg, e))
	} else if h.dump(g)["_raw"] != "none" {
		h.fail(r, "not-removed"+phase, "protection still present after successful unprotect")
	}
}

func (h *c18ProtHist) exec(r *Run, line string) bool {
	w := strings.Fields(line)
	if len(w) == 0 || !strings.HasPrefix(w[0], "ph") {
		return false
	}
	if w[0] == "phnew" {
		if h.f != nil {
			h.f.Close()
		}
		*h = c18ProtHist{f: xl.NewFile(), workbook: len(w) > 1 && w[1] == "workbook", lines: []string{line}}
		r.Op("phnew "+h.kind(), "ok")
		return true
	}
	if h.f == nil {
		h.exec(r, "phnew sheet")
	}
	h.lines = append(h.lines, line)
	if h.dead {
		return true
	}
	r.Stat("protecth:" + h.kind() + ":" + w[0])
	switch w[0] {
	case "phprot":
		if len(w) < 4 {
			return true
		}
		alg, pw := unhx(w[1]), unhx(w[2])
		given := map[string]bool{}
		if w[3] != "-" {
			for _, t := range strings.Split(w[3], ",") {
				if i := strings.Index(t, ":"); i > 0 {
					given[t[:i]] = t[i+1:] == "1"
				}
			}
		}
		flags := map[string]bool{}
		var err error
		if h.workbook {
			o := &xl.WorkbookProtectionOptions{AlgorithmName: alg, Password: pw, LockStructure: given["LockStructure"], LockWindows: given["LockWindows"]}
			flags["LockStructure"], flags["LockWindows"] = given["LockStructure"], given["LockWindows"]
			err = h.f.ProtectWorkbook(o)
		} else {
			o := &xl.SheetProtectionOptions{AlgorithmName: alg, Password: pw}
			ov := reflect.ValueOf(o).Elem()
			for _, n := range c18SheetFlagOpts {
				ov.FieldByName(n).SetBool(given[n])
				stored := n
				switch n {
				case "EditObjects":
					stored = "Objects"
				case "EditScenarios":
					stored = "Scenarios"
				}
				flags[stored] = !given[n]
			}
			flags["Sheet"] = true
			err = h.f.ProtectSheet(c18Sheet, o)
		}
		if err != nil {
			r.Stat("protecth:" + h.kind() + ":rejected")
			// a rejected call (unsupported algorithm, password too long) has already replaced the
			// record by the flags-only one: that is what the model says too (transcript); the
			// property speaks about accepted calls only, so the oracle stops here
			r.Op(line, "ERR "+h.canon(h.f))
			h.dead = true
			return true
		}
		h.on, h.alg, h.pw, h.flags = true, alg, pw, flags
		r.Op(line, "ok "+h.canon(h.f))
	case "phunprot":
		var err error
		if len(w) < 2 || w[1] == "~" {
			err = h.unprotect(h.f)
		} else {
			err = h.unprotect(h.f, unhx(w[1]))
		}
		if err == nil {
			h.on = false
			r.Op(line, "ok "+h.canon(h.f))
		} else {
			r.Op(line, "refused "+h.canon(h.f))
		}
	case "phxml":
		r.Op("phxml", h.xmlAttrs())
		return true
	case "phswap":
		g, err := c18Reopen(h.f)
		if err != nil {
			h.fail(r, "reopen-error", err.Error())
			return true
		}
		h.f.Close()
		h.f = g
		r.Op(line, h.canon(h.f))
	case "phverify":
		g, err := c18Reopen(h.f)
		if err != nil {
			h.fail(r, "reopen-error", err.Error())
			return true
		}
		h.verify(r, g, ":reopen", true)
		g.Close()
		if r.Tier == "thorough" || h.pw == "" || (!h.workbook && h.alg == "") {
			h.verify(r, h.f, "", false)
		} else { // quick tier: no second 100 000-spin hash on the live file, the record is compared
			h.checkRecord(r, h.f, "")
		}
		if !h.dead {
			h.on = false
		}
		return true
	}
	h.checkRecord(r, h.f, "")
	return true
}

func c18ProtLine(alg, pw string, bits string) string {
	return "phprot " + hx(alg) + " " + hx(pw) + " " + bits
}

func c18ProtHistory(r *Run, workbook bool, script []string) {
	h := &c18ProtHist{}
	k := "sheet"
	if workbook {
		k = "workbook"
	}
	h.exec(r, "phnew "+k)
	for _, l := range script {
		h.exec(r, l)
		if strings.HasPrefix(l, "phprot") || strings.HasPrefix(l, "phunprot") {
			h.exec(r, "phxml") // what the saved part contains after this step
		}
	}
	h.exec(r, "phverify")
	r.Case("protecth|"+strings.Join(h.lines, "|"), true)
	h.f.Close()
}

func c18ProtBits(rng *Rng, workbook bool) string {
	names := c18SheetFlagOpts
	if workbook {
		names = []string{"LockStructure", "LockWindows"}
	}
	var p []string
	for _, n := range names {
		p = append(p, fmt.Sprintf("%s:%d", n, rng.Intn(2)))
	}
	return strings.Join(p, ",")
}

func c18ProtHistories(r *Run, rng *Rng, thorough bool) {
	for _, wb := range []bool{false, true} {
		wbk := wb
		b := func() string { return c18ProtBits(rng, wbk) }
		// deterministic: password -> none, none -> password, algorithm change, legacy -> ISO, protect -> unprotect -> protect
		c18ProtHistory(r, wb, []string{c18ProtLine("SHA-256", "first", b()), c18ProtLine("", "", b())})
		c18ProtHistory(r, wb, []string{c18ProtLine("", "", b()), c18ProtLine("MD5", "second", b())})
		c18ProtHistory(r, wb, []string{c18ProtLine("MD5", "one", b()), "phswap", c18ProtLine("SHA-1", "two", b())})
		c18ProtHistory(r, wb, []string{c18ProtLine("", "legacy", b()), c18ProtLine("SHA-1", "iso", b()), c18ProtLine("", "legacy2", b())})
		c18ProtHistory(r, wb, []string{c18ProtLine("MD4", "p1", b()), "phunprot " + hx("p1"), c18ProtLine("", "", b()), "phswap"})
		c18ProtHistory(r, wb, []string{c18ProtLine("", "", b()), "phunprot ~", c18ProtLine("MD5", "again", b())})
		c18ProtHistory(r, wb, []string{c18ProtLine("MD5", "keep", b()), "phunprot " + hx("wrong"), "phunprot " + hx(""), c18ProtLine("bogus", "x", b())})
		c18ProtHistory(r, wb, []string{c18ProtLine("", "legacy", b()), "phunprot " + hx("Legacy"), "phunprot " + hx("legacy")})
		nr := 2
		if thorough {
			nr = 40
		}
		algs := []string{"", "", "MD4", "MD5", "SHA-1", "SHA-256"}
		if thorough {
			algs = append(algs, "SHA-384", "SHA-512")
		}
		pws := []string{"", "", "pw", "Pa$$<&>", "пароль", "a b"}
		for i := 0; i < nr; i++ {
			var script []string
			for s := rng.Range(2, 4); s > 0; s-- {
				switch c := rng.Intn(10); {
				case c < 7:
					script = append(script, c18ProtLine(algs[rng.Intn(len(algs))], pws[rng.Intn(len(pws))], b()))
				case c < 8:
					script = append(script, "phunprot ~")
				case c < 9:
					script = append(script, "phunprot "+hx(pws[2+rng.Intn(4)]))
				default:
					script = append(script, "phswap")
				}
			}
			c18ProtHistory(r, wb, script)
		}
	}
}
