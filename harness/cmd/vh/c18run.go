//go:build verif_c18

package main

import (
	"fmt"
	"time"
	"strings"

	xl "github.com/xuri/excelize/v2"
)

func c18Named(ps []*c18Pair, n string) *c18Pair {
	for _, p := range ps {
		if p.name == n {
			return p
		}
	}
	return nil
}

var c18T0 time.Time

// c18Lap records the wall time of one generator section in the notes (not in stats: it varies).
func c18Lap(r *Run, what string) {
	r.Notes = append(r.Notes, fmt.Sprintf("time %s: %.1fs", what, time.Since(c18T0).Seconds()))
	c18T0 = time.Now()
}

func runC18(r *Run, rng *Rng, replay string) {
	r.Rule = "one case = one history of 1..3 successive sets of one Set*/Get* pair on one workbook (whole-structure comparison immediately, after unrelated edits, after save+reopen), or one helper/escape/password/defined-name op; non-trivial = the setter was reached with a generated structure (all); distinct by rendered history"
	if replay != "" {
		c18Replay(r, rng, replay)
		return
	}
	n := 60
	if r.Tier == "thorough" {
		n = 600
	}
	c18T0 = time.Now()
	pairs := c18Pairs()
	// deterministic witnesses of the open findings (reproduced on every run)
	tr, zero, five, bogus, u0 := true, 0.0, 5.0, "bogus", uint(0)
	c18RunPair(r, rng, c18Named(pairs, "sheetprops"), 1, []interface{}{&xl.SheetPropsOptions{FitToPage: &tr}})
	c18RunPair(r, rng, c18Named(pairs, "sheetview"), 1, []interface{}{&xl.ViewOptions{View: &bogus}})
	c18RunPair(r, rng, c18Named(pairs, "sheetview"), 1, []interface{}{&xl.ViewOptions{ZoomScale: &five}})
	c18RunPair(r, rng, c18Named(pairs, "sheetview"), 1, []interface{}{&xl.ViewOptions{ZoomScale: &zero}})
	c18RunPair(r, rng, c18Named(pairs, "layout"), 1, []interface{}{&xl.PageLayoutOptions{FirstPageNumber: &u0}})
	for _, p := range pairs {
		for i := 0; i < n; i++ {
			c18RunPair(r, rng, p, rng.Range(1, 3), nil)
		}
	}
	dims := []string{"A1", "a1", "$A$1", "B2:D9", "d9:b2", "$B$2:$D$9", "D2:B9", "XFD1048576", "A1:XFD1048576", "A0", "A1:B2:C3", "", "A", "1:2", "A:B", "XFE1", "A1048577", "Sheet1!A1", "A1:", ":A1", "B2:B2"}
	c18Lap(r, "pairs")
	for _, d := range dims {
		c18Dimension(r, rng, d)
	}
	c18Extra(r, rng)
	for _, s := range r.opsSample(10) {
		r.Sample(s)
	}
	r.Notes = append(r.Notes, fmt.Sprintf("pairs: %d x %d histories", len(pairs), n))
}

func c18Replay(r *Run, rng *Rng, path string) {
	for _, line := range readLines(path) {
		w := strings.Fields(line)
		if len(w) == 0 || strings.HasPrefix(line, "#") {
			continue
		}
		c18ReplayLine(r, rng, line, w)
	}
}
