//go:build verif_c18

package main

// C18 — persistence tie (model: XlModel.XmlAttr): what the saved package really contains.
//   phxml   (inside a protection history) the attributes of <sheetProtection> / <workbookProtection>
//           in the saved part, in document order; hash and salt values shown as "*"
//   dvx ... (same arguments as dvb) the attributes of the saved <dataValidation> element and the
//           decoded text of its <formula1> / <formula2> children
// The parts are read with encoding/xml's tokenizer, so attribute values are compared decoded.

import (
	"archive/zip"
	"bytes"
	"encoding/xml"
	"io"
	"strings"
)

// c18Element returns the attributes (document order) of the first element `local` in the part and
// the character data of its direct children named in `kids`.
func c18Element(pkg []byte, part, local string, kids []string) (attrs []xml.Attr, texts map[string]string, ok bool) {
	zr, err := zip.NewReader(bytes.NewReader(pkg), int64(len(pkg)))
	if err != nil {
		return nil, nil, false
	}
	for _, zf := range zr.File {
		if zf.Name != part {
			continue
		}
		rc, _ := zf.Open()
		data, _ := io.ReadAll(rc)
		rc.Close()
		d := xml.NewDecoder(bytes.NewReader(data))
		texts = map[string]string{}
		depth, in, kid := 0, false, ""
		for {
			tok, err := d.Token()
			if err != nil {
				return attrs, texts, ok
			}
			switch t := tok.(type) {
			case xml.StartElement:
				if !in && t.Name.Local == local && !ok {
					in, ok, depth = true, true, 0
					attrs = append(attrs, t.Attr...)
					continue
				}
				if in {
					depth++
					if depth == 1 {
						for _, k := range kids {
							if t.Name.Local == k {
								kid = k
								texts[k] = ""
							}
						}
					}
				}
			case xml.CharData:
				if in && kid != "" && depth == 1 {
					texts[kid] += string(t)
				}
			case xml.EndElement:
				if in {
					if depth == 0 {
						return attrs, texts, ok
					}
					depth--
					if depth == 0 {
						kid = ""
					}
				}
			}
		}
	}
	return nil, nil, false
}

func c18AttrText(attrs []xml.Attr) string {
	var p []string
	for _, a := range attrs {
		if a.Name.Space == "xmlns" || a.Name.Local == "xmlns" {
			continue
		}
		v := a.Value
		switch {
		case strings.Contains(a.Name.Local, "ashValue") || strings.Contains(a.Name.Local, "altValue"):
			v = "*"
		case v == "true" || v == "false" || v == "1" || v == "0":
			if c18BoolAttr[a.Name.Local] {
				v = map[string]string{"true": "true", "1": "true", "false": "false", "0": "false"}[v]
			} else if !c18IntAttr[a.Name.Local] {
				v = hx(v)
			}
		default:
			if !c18IntAttr[a.Name.Local] {
				v = hx(v)
			}
		}
		p = append(p, a.Name.Local+"="+v)
	}
	if len(p) == 0 {
		return "-"
	}
	return strings.Join(p, " ")
}

var c18IntAttr = map[string]bool{"spinCount": true, "workbookSpinCount": true, "revisionsSpinCount": true}
var c18BoolAttr = map[string]bool{"allowBlank": true, "showDropDown": true, "showErrorMessage": true, "showInputMessage": true,
	"lockRevision": true, "lockStructure": true, "lockWindows": true, "sheet": true, "objects": true, "scenarios": true,
	"formatCells": true, "formatColumns": true, "formatRows": true, "insertColumns": true, "insertRows": true,
	"insertHyperlinks": true, "deleteColumns": true, "deleteRows": true, "selectLockedCells": true, "sort": true,
	"autoFilter": true, "pivotTables": true, "selectUnlockedCells": true}

func (h *c18ProtHist) xmlAttrs() string {
	buf, err := h.f.WriteToBuffer()
	if err != nil {
		return "ERR"
	}
	part, local := "xl/worksheets/sheet1.xml", "sheetProtection"
	if h.workbook {
		part, local = "xl/workbook.xml", "workbookProtection"
	}
	attrs, _, ok := c18Element(buf.Bytes(), part, local, nil)
	if !ok {
		return "none"
	}
	return c18AttrText(attrs)
}
