//go:build verif_c19

package main

// C19 — date/time <-> serial number. Transcript ops (see lean/XlModel/Drv/C19.lean):
//
//   rt <sys> <y> <m> <d> <h> <mi> <s> <ns> <off> <zone> <stored>
//        SetCellValue's conversion ((*xlsxC).setCellTime) of the wall clock y..ns read in
//        a zone with offset <off>, date system sys (0 = 1900, 1 = 1904); <stored> is the
//        float64 bit pattern of the stored numeric text (or `text`); then
//        ExcelDateToTime on the stored value.
//        result:  text | num e=<within error bound> S=<day>:<sec>|- r=<Y M D h m s ns>
//   dec <sys> <bits>     ExcelDateToTime on an arbitrary float64
//   cell <wb> <pre> <y> <m> <d> <h> <mi> <s> <ns> <off> <zone>
//                        public API on a fresh workbook: wb = n (workbook properties untouched), 0, 1
//                        (SetWorkbookProps Date1904), pre = style already on the cell (0 none, 1 bold,
//                        2 custom number format + bold, 3 built-in format 14 + bold), SetCellValue(time);
//                        result: bits=<float64 bits of the raw value|text> fmt=<NumFmt> custom=<0|1> bold=<0|1>
//   rend <sys> <y> <m> <d> <h> <mi> <s> <off> <zone> <bits15>
//                        SetCellValue(time) on a fresh workbook, then GetCellValue under the default style the
//                        library chose (built-in 14 / 17 / 22) and under yyyy-mm-dd hh:mm:ss; <bits15> is the
//                        float64 the reader renders (the stored text cut to 15 significant digits);
//                        result: enc=<bits of the raw value> e15=<|x15-x| <= 5e-15 x> fmt=<id> toks=<nfp tokens of
//                        the built-in format> out=<hex rendered> iso=<hex rendered>
//                        (model: C19 encoder + glue, then C10's dateTimeHandler on C19's decoder)
//   dur <ns> <bits>      SetCellValue(time.Duration): raw value (float32-formatted) and style;
//                        result: e=<within 2^-23 relative> k=<nearest second|-> fmt=<NumFmt>
//   edt <sys> <bits>     ExcelDateToTime (exported, with the negative guard) on an arbitrary float64
//   decf <sys> <bits>    timeFromExcelTime (hook, ExcelDateToTime without the negative guard) on an arbitrary
//                        float64, compared with the model's float-level transcription run on Lean's Float
//   encf <sys> <unixsec> <ns>   timeToExcelTime (hook) on the instant: float64 bit pattern of the result,
//                        compared bit for bit with the model's float-level transcription
//   civ <z>              time.Unix(z*86400).UTC().Date() and back (ties the calendar model to package time)
//   flg <jd>             doTheFliegelAndVanFlandernAlgorithm
//
// Direct oracles (independent of the Lean model, on the real code): round trip of the
// wall clock to the second, serial = day count obtained by walking the calendar day by
// day (own month-length rule, Excel's 1900-02-29 included), stored value within the
// float error bound of the exact serial, monotonicity across adjacent seconds / days,
// zone invariance (same wall clock in another zone stores the same text), public API
// (SetCellValue/GetCellValue raw and rendered under a date format) on a sample.

import (
	"fmt"
	"math"
	"math/big"
	"sort"
	"strconv"
	"strings"
	"sync"
	"time"

	xl "github.com/xuri/excelize/v2"
	"github.com/xuri/nfp"
)

func init() { props["C19"] = runC19 }

// ---------------------------------------------------------------- own calendar

type c19date struct{ y, m, d int }

func c19leap(y int) bool { return y%4 == 0 && (y%100 != 0 || y%400 == 0) }

func c19monthLen(y, m int) int {
	switch m {
	case 2:
		if c19leap(y) {
			return 29
		}
		return 28
	case 4, 6, 9, 11:
		return 30
	}
	return 31
}

func (a c19date) next() c19date {
	a.d++
	if a.d > c19monthLen(a.y, a.m) {
		a.d = 1
		a.m++
		if a.m > 12 {
			a.m = 1
			a.y++
		}
	}
	return a
}

func (a c19date) less(b c19date) bool {
	if a.y != b.y {
		return a.y < b.y
	}
	if a.m != b.m {
		return a.m < b.m
	}
	return a.d < b.d
}

// c19unixDay is package time's day number (days since 1970-01-01) of a calendar date.
func c19unixDay(a c19date) int64 {
	return time.Date(a.y, time.Month(a.m), a.d, 0, 0, 0, 0, time.UTC).Unix() / 86400
}

var (
	c19first1900 = c19date{1900, 1, 1} // serial 1
	c19range1900 = c19date{1900, 3, 1} // property range starts here (1900 system)
	c19first1904 = c19date{1904, 1, 1} // serial 0; property range (1904 system)
	c19last      = c19date{9999, 12, 31}
	c19day1900   = c19unixDay(c19date{1899, 12, 31}) // serial = unixDay - this (+1 from 1900-03-01)
	c19day1904   = c19unixDay(c19first1904)
	c19idx1904   = c19unixDay(c19first1904) - c19unixDay(c19date{1899, 12, 30}) // day index of 1904-01-01 in the sweep
)

// c19expectDay is the day count Excel defines, from package time's day number.
// (The sweep additionally checks it against the count obtained by stepping the calendar.)
func c19expectDay(sys bool, a c19date) (int64, bool) {
	u := c19unixDay(a)
	if sys {
		if a.less(c19first1904) {
			return 0, false
		}
		return u - c19day1904, true
	}
	if a.less(c19first1900) {
		return 0, false
	}
	n := u - c19day1900
	if !a.less(c19range1900) {
		n++ // Excel's fictitious 1900-02-29
	}
	return n, true
}

func c19inRange(sys bool, a c19date) bool {
	if c19last.less(a) {
		return false
	}
	if sys {
		return !a.less(c19first1904)
	}
	return !a.less(c19range1900)
}

// ---------------------------------------------------------------- zones

type c19zone struct {
	name string
	loc  *time.Location
}

var c19zones []c19zone

func c19initZones(r *Run) {
	if c19zones != nil {
		return
	}
	fixed := []int{0, 19800, -34200, 20700, 50400, -43200, 1172, -12600, 3600, -18000, 45900}
	for _, off := range fixed {
		n := fmt.Sprintf("F%d", off)
		if off == 0 {
			c19zones = append(c19zones, c19zone{"UTC", time.UTC})
			continue
		}
		c19zones = append(c19zones, c19zone{n, time.FixedZone(n, off)})
	}
	for _, n := range []string{"America/New_York", "Asia/Kolkata", "Australia/Lord_Howe", "Asia/Kathmandu", "Europe/Amsterdam", "Pacific/Kiritimati", "America/St_Johns"} {
		if l, err := time.LoadLocation(n); err == nil {
			c19zones = append(c19zones, c19zone{n, l})
		} else {
			r.Notes = append(r.Notes, "time zone database entry unavailable: "+n)
		}
	}
}

func c19zoneByName(name string, off int) *time.Location {
	if name == "UTC" {
		return time.UTC
	}
	if strings.Contains(name, "/") {
		if l, err := time.LoadLocation(name); err == nil {
			return l
		}
	}
	return time.FixedZone(name, off)
}

// ---------------------------------------------------------------- exact arithmetic

var (
	c19nsDay  = big.NewInt(86400e9)
	c19tol40  = new(big.Rat).SetFrac(big.NewInt(1), new(big.Int).Lsh(big.NewInt(1), 40))
	c19tol30  = new(big.Rat).SetFrac(big.NewInt(1), new(big.Int).Lsh(big.NewInt(1), 30))
	c19sixty4 = new(big.Int).Mul(big.NewInt(64), big.NewInt(86400e9))
)

// c19within: |x - exactNs/86400e9| <= (exactNs < 64 days ? 2^-40 : 2^-30), exactly.
func c19within(x float64, exactNs *big.Int) bool {
	xr := new(big.Rat).SetFloat64(x)
	if xr == nil {
		return false
	}
	ex := new(big.Rat).SetFrac(exactNs, c19nsDay)
	d := new(big.Rat).Sub(xr, ex)
	d.Abs(d)
	tol := c19tol30
	if exactNs.Cmp(c19sixty4) < 0 {
		tol = c19tol40
	}
	return d.Cmp(tol) <= 0
}

// c19dayAndSecond: floor(x) and the nearest whole second of the fraction, exactly.
func c19dayAndSecond(x float64) (int64, int64) {
	fl := math.Floor(x)
	xr := new(big.Rat).SetFloat64(x - fl) // exact: x - floor(x) is representable
	xr.Mul(xr, big.NewRat(86400, 1))
	xr.Add(xr, big.NewRat(1, 2))
	q := new(big.Int).Quo(xr.Num(), xr.Denom()) // xr >= 0
	return int64(fl), q.Int64()
}

// ---------------------------------------------------------------- implementation calls

type c19enc struct {
	v     string
	isNum bool
	x     float64
	panic bool
}

func c19store(t time.Time, sys bool) (e c19enc) {
	defer func() {
		if p := recover(); p != nil {
			e.panic = true
		}
	}()
	v, _, isNum, err := xl.VerifC19SetCellTime(t, sys)
	e.v, e.isNum = v, isNum && err == nil
	if e.isNum {
		x, perr := strconv.ParseFloat(v, 64)
		if perr != nil {
			e.isNum = false
		}
		e.x = x
	}
	return
}

func c19decode(x float64, sys bool) (t time.Time, err error, panicked bool) {
	defer func() {
		if p := recover(); p != nil {
			panicked = true
		}
	}()
	t, err = xl.ExcelDateToTime(x, sys)
	return
}

func c19fields(t time.Time) string {
	y, m, d := t.Date()
	h, mi, s := t.Clock()
	return fmt.Sprintf("%d %d %d %d %d %d %d", y, int(m), d, h, mi, s, t.Nanosecond())
}

func c19sysS(sys bool) string {
	if sys {
		return "1"
	}
	return "0"
}

// c19rt executes one rt case: transcript line + direct oracles.
// api: additionally go through SetCellValue/GetCellValue on a real File.
func c19rt(r *Run, sys bool, t time.Time, zone string, api bool) {
	y, mo, d := t.Date()
	h, mi, s := t.Clock()
	ns := t.Nanosecond()
	_, off := t.Zone()
	a := c19date{y, int(mo), d}
	head := fmt.Sprintf("rt %s %d %d %d %d %d %d %d %d %s", c19sysS(sys), y, int(mo), d, h, mi, s, ns, off, zone)
	replay := head + " -"
	inRange := c19inRange(sys, a)
	oracle := inRange && ns == 0
	e := c19store(t, sys)
	key := fmt.Sprintf("rt:%s:%d-%d-%d:%d:%d:%d", c19sysS(sys), y, int(mo), d, h*3600+mi*60+s, ns, off)
	r.Case(key, e.isNum && oracle)
	r.Stat("rt:zone:" + c19zoneClass(off))
	if e.panic {
		ln := r.Op(head+" text", "PANIC")
		r.Fail("enc:panic", "setCellTime panicked for "+t.Format(time.RFC3339Nano), ln, replay)
		return
	}
	if !e.isNum {
		ln := r.Op(head+" text", "text")
		r.Stat("rt:stored-as-text")
		if inRange {
			sig := "enc:not-numeric"
			if sys && a == c19first1904 && h == 0 && mi == 0 && s == 0 && ns == 0 {
				sig = "enc:zero-serial-stored-as-text"
			}
			r.Fail(sig, fmt.Sprintf("SetCellValue(%s, date1904=%v) stores text %q, not a serial number", t.Format(time.RFC3339Nano), sys, e.v), ln, replay)
		}
		return
	}
	// exact expected serial from the independent day count
	expDay, hasDay := c19expectDay(sys, a)
	sec := int64(h*3600 + mi*60 + s)
	within := false
	if hasDay {
		exactNs := new(big.Int).Mul(big.NewInt(expDay), c19nsDay)
		exactNs.Add(exactNs, big.NewInt(sec*1e9+int64(ns)))
		within = c19within(e.x, exactNs)
	} else {
		// before the first day of the system: 1900 system counts from 1899-12-31 (serial 0 + fraction)
		u := c19unixDay(a)
		base := c19day1900
		if sys {
			base = c19day1904
		}
		exactNs := new(big.Int).Mul(big.NewInt(u-base), c19nsDay)
		exactNs.Add(exactNs, big.NewInt(sec*1e9+int64(ns)))
		within = c19within(e.x, exactNs)
	}
	S := "-"
	var gotDay, gotSec int64
	if ns == 0 && hasDay {
		gotDay, gotSec = c19dayAndSecond(e.x)
		S = fmt.Sprintf("%d:%d", gotDay, gotSec)
	}
	back, derr, dpanic := c19decode(e.x, sys)
	rs := "ERR"
	if dpanic {
		rs = "PANIC"
	} else if derr == nil {
		rs = c19fields(back)
	}
	we := "0"
	if within {
		we = "1"
	}
	ln := r.Op(fmt.Sprintf("%s %016x", head, math.Float64bits(e.x)), fmt.Sprintf("num e=%s S=%s r=%s", we, S, rs))
	if e.x < 62 {
		r.Stat("rt:decode-path:julian")
	} else {
		r.Stat("rt:decode-path:gregorian")
	}
	if ns != 0 {
		r.Stat("rt:subsecond-input(correspondence only)")
	}
	if !inRange {
		r.Stat("rt:outside-property-range(correspondence only)")
	}
	if strconv.FormatFloat(e.x, 'f', -1, 64) != e.v {
		r.Fail("enc:text-not-canonical", fmt.Sprintf("stored text %q does not re-format from its float64 value", e.v), ln, replay)
	}
	if !oracle {
		return
	}
	path := "gregorian-path"
	if e.x < 62 {
		path = "julian-path"
	}
	if !within {
		r.Fail("enc:float-error-bound", fmt.Sprintf("stored %s for %s (date1904=%v) is farther than the assumed bound from the exact serial %d+%d/86400", e.v, t.Format(time.RFC3339), sys, expDay, sec), ln, replay)
	}
	if gotDay != expDay || gotSec != sec {
		r.Fail("enc:daycount", fmt.Sprintf("%s (date1904=%v) stored as %s = day %d second %d; Excel's count is day %d second %d", t.Format(time.RFC3339), sys, e.v, gotDay, gotSec, expDay, sec), ln, replay)
	}
	if dpanic || derr != nil {
		r.Fail("rt:decode-error:"+path, fmt.Sprintf("ExcelDateToTime(%s) failed for %s", e.v, t.Format(time.RFC3339)), ln, replay)
	} else {
		by, bm, bd := back.Date()
		bh, bmi, bs := back.Clock()
		if by != y || bm != mo || bd != d || bh != h || bmi != mi || bs != s || back.Nanosecond() != 0 {
			r.Fail("rt:mismatch:"+path, fmt.Sprintf("%s (date1904=%v) -> %s -> %s", t.Format(time.RFC3339), sys, e.v, back.Format(time.RFC3339Nano)), ln, replay)
		}
	}
	// zone invariance: the same wall clock in UTC stores the same text
	twin := c19store(time.Date(y, mo, d, h, mi, s, ns, time.UTC), sys)
	if twin.v != e.v {
		r.Fail("zone:differs", fmt.Sprintf("wall clock %04d-%02d-%02d %02d:%02d:%02d stores %s in zone %s (offset %d) but %s in UTC", y, int(mo), d, h, mi, s, e.v, zone, off, twin.v), ln, replay)
	}
	// monotonicity around this instant
	for _, dt := range []time.Duration{time.Second, 24 * time.Hour} {
		t2 := time.Date(y, mo, d, h, mi, s, 0, time.UTC).Add(dt)
		if t2.Year() > 9999 {
			continue
		}
		e2 := c19store(t2, sys)
		if e2.isNum && !(e2.x > e.x) {
			r.Fail("mono:not-increasing", fmt.Sprintf("date1904=%v: %s stores %s but the later %s stores %s", sys, t.Format(time.RFC3339), e.v, t2.Format(time.RFC3339), e2.v), ln, replay)
		}
	}
	if api {
		c19api(r, sys, t, e.v, ln, replay)
	}
}

func c19zoneClass(off int) string {
	switch {
	case off == 0:
		return "utc"
	case off%3600 != 0 && off > 0:
		return "positive-fractional-hour"
	case off%3600 != 0:
		return "negative-fractional-hour"
	case off > 0:
		return "positive"
	}
	return "negative"
}

// c19api: the public path. SetCellValue on a real workbook must store exactly what the
// hooked converter stores, and the value must render as the same calendar date (and
// clock) under a date format.
func c19api(r *Run, sys bool, t time.Time, want string, ln int, replay string) {
	r.Stat("api:cases")
	f := xl.NewFile()
	defer f.Close()
	fail := func(sig, what string) { r.Fail(sig, what, ln, replay) }
	defer func() {
		if p := recover(); p != nil {
			fail("api:panic", fmt.Sprintf("public API panicked for %s: %v", t.Format(time.RFC3339), p))
		}
	}()
	if sys {
		yes := true
		if err := f.SetWorkbookProps(&xl.WorkbookPropsOptions{Date1904: &yes}); err != nil {
			fail("api:error", "SetWorkbookProps: "+err.Error())
			return
		}
	}
	if err := f.SetCellValue("Sheet1", "A1", t); err != nil {
		fail("api:error", "SetCellValue: "+err.Error())
		return
	}
	raw, err := f.GetCellValue("Sheet1", "A1", xl.Options{RawCellValue: true})
	if err != nil || raw != want {
		fail("api:raw-differs", fmt.Sprintf("SetCellValue stored %q (%v), setCellTime gives %q", raw, err, want))
		return
	}
	exp := "yyyy-mm-dd hh:mm:ss"
	st, err := f.NewStyle(&xl.Style{CustomNumFmt: &exp})
	if err != nil {
		fail("api:error", "NewStyle: "+err.Error())
		return
	}
	_ = f.SetCellStyle("Sheet1", "A1", "A1", st)
	got, err := f.GetCellValue("Sheet1", "A1")
	y, mo, d := t.Date()
	h, mi, s := t.Clock()
	wantDate := fmt.Sprintf("%04d-%02d-%02d", y, int(mo), d)
	wantClock := fmt.Sprintf("%02d:%02d:%02d", h, mi, s)
	if err != nil || !strings.HasPrefix(got, wantDate+" ") {
		fail("api:render-date", fmt.Sprintf("%s written by SetCellValue (date1904=%v, raw %s) renders as %q under yyyy-mm-dd hh:mm:ss", t.Format(time.RFC3339), sys, want, got))
		return
	}
	if got != wantDate+" "+wantClock {
		// the clock part belongs to number-format rendering (C10); counted, not failed
		r.Stat("api:render-clock-differs(C10 territory)")
		if len(r.Notes) < 6 {
			r.Notes = append(r.Notes, fmt.Sprintf("render clock differs: %s raw %s renders %q", t.Format(time.RFC3339), want, got))
		}
	}
}

func c19dec(r *Run, sys bool, x float64) {
	bits := math.Float64bits(x)
	op := fmt.Sprintf("dec %s %016x", c19sysS(sys), bits)
	t, err, p := c19decode(x, sys)
	res := "ERR"
	if p {
		res = "PANIC"
	} else if err == nil {
		res = "ok " + c19fields(t)
	}
	ln := r.Op(op, res)
	r.Case(op, err == nil)
	if p {
		r.Fail("dec:panic", fmt.Sprintf("ExcelDateToTime(%v) panicked", x), ln, op)
	}
	if x < 0 {
		r.Stat("dec:negative")
		if err == nil {
			r.Fail("dec:accepts-negative", fmt.Sprintf("ExcelDateToTime(%v) accepted", x), ln, op)
		}
	} else if x < 62 {
		r.Stat("dec:julian")
	} else {
		r.Stat("dec:gregorian")
	}
}

// c19cell: the glue around setCellTime on the public path: which date-system flag is used, which
// default style is created, what happens to a style already on the cell.
func c19cell(r *Run, wb string, pre int, t time.Time, zone string) {
	y, mo, d := t.Date()
	h, mi, s := t.Clock()
	_, off := t.Zone()
	op := fmt.Sprintf("cell %s %d %d %d %d %d %d %d %d %d %s", wb, pre, y, int(mo), d, h, mi, s, t.Nanosecond(), off, zone)
	res := "PANIC"
	func() {
		defer func() { _ = recover() }()
		f := xl.NewFile()
		defer f.Close()
		switch wb {
		case "0", "1":
			v := wb == "1"
			if err := f.SetWorkbookProps(&xl.WorkbookPropsOptions{Date1904: &v}); err != nil {
				res = "ERR"
				return
			}
		}
		var st *xl.Style
		cf := "yyyy-mm-dd"
		switch pre {
		case 1:
			st = &xl.Style{Font: &xl.Font{Bold: true}}
		case 2:
			st = &xl.Style{CustomNumFmt: &cf, Font: &xl.Font{Bold: true}}
		case 3:
			st = &xl.Style{NumFmt: 14, Font: &xl.Font{Bold: true}}
		}
		if st != nil {
			id, err := f.NewStyle(st)
			if err != nil || f.SetCellStyle("Sheet1", "B2", "B2", id) != nil {
				res = "ERR"
				return
			}
		}
		if err := f.SetCellValue("Sheet1", "B2", t); err != nil {
			res = "ERR"
			return
		}
		raw, _ := f.GetCellValue("Sheet1", "B2", xl.Options{RawCellValue: true})
		ct, _ := f.GetCellType("Sheet1", "B2")
		bits := "text"
		if x, err := strconv.ParseFloat(raw, 64); err == nil && ct != xl.CellTypeInlineString && ct != xl.CellTypeSharedString {
			bits = fmt.Sprintf("%016x", math.Float64bits(x))
		}
		si, _ := f.GetCellStyle("Sheet1", "B2")
		got, _ := f.GetStyle(si)
		nf, custom, bold := 0, 0, 0
		if got != nil {
			nf = got.NumFmt
			if got.CustomNumFmt != nil {
				custom = 1
			}
			if got.Font != nil && got.Font.Bold {
				bold = 1
			}
		}
		res = fmt.Sprintf("bits=%s fmt=%d custom=%d bold=%d", bits, nf, custom, bold)
	}()
	r.Op(op, res)
	r.Case(op, true)
	r.Stat("cell:wb=" + wb + ":pre=" + strconv.Itoa(pre))
}

var c19builtin = map[int]string{14: "mm-dd-yy", 17: "mmm-yy", 22: "m/d/yy hh:mm"}

func c19toks(code string) string {
	ps := nfp.NumberFormatParser()
	secs := ps.Parse(code)
	if len(secs) == 0 {
		return "-"
	}
	var parts []string
	for _, it := range secs[0].Items {
		parts = append(parts, it.TType+":"+hx(it.TValue))
	}
	return strings.Join(parts, ",")
}

// c19rend: from SetCellValue(time) to the rendered text, through the public API only.
func c19rend(r *Run, sys bool, t time.Time, zone string) {
	y, mo, d := t.Date()
	h, mi, s := t.Clock()
	_, off := t.Zone()
	head := fmt.Sprintf("rend %s %d %d %d %d %d %d %d %s", c19sysS(sys), y, int(mo), d, h, mi, s, off, zone)
	bits15, res := "-", "PANIC"
	var shown, iso string
	func() {
		defer func() { _ = recover() }()
		f := xl.NewFile()
		defer f.Close()
		if sys {
			yes := true
			_ = f.SetWorkbookProps(&xl.WorkbookPropsOptions{Date1904: &yes})
		}
		if err := f.SetCellValue("Sheet1", "A1", t); err != nil {
			res = "ERR"
			return
		}
		raw, _ := f.GetCellValue("Sheet1", "A1", xl.Options{RawCellValue: true})
		x, err := strconv.ParseFloat(raw, 64)
		if err != nil {
			res = "text"
			return
		}
		// the reader cuts a numeric text of more than 15 significant digits to 15 before rendering
		x15, _ := strconv.ParseFloat(strconv.FormatFloat(x, 'G', 15, 64), 64)
		bits15 = fmt.Sprintf("%016x", math.Float64bits(x15))
		df := new(big.Rat).Sub(new(big.Rat).SetFloat64(x15), new(big.Rat).SetFloat64(x))
		df.Abs(df)
		tol := new(big.Rat).Mul(new(big.Rat).SetFloat64(x), big.NewRat(5, 1000000000000000))
		e15 := 0
		if df.Cmp(tol) <= 0 {
			e15 = 1
		}
		si, _ := f.GetCellStyle("Sheet1", "A1")
		st, _ := f.GetStyle(si)
		nf := 0
		if st != nil {
			nf = st.NumFmt
		}
		shown, _ = f.GetCellValue("Sheet1", "A1")
		code := "yyyy-mm-dd hh:mm:ss"
		id, _ := f.NewStyle(&xl.Style{CustomNumFmt: &code})
		_ = f.SetCellStyle("Sheet1", "A1", "A1", id)
		iso, _ = f.GetCellValue("Sheet1", "A1")
		res = fmt.Sprintf("enc=%016x e15=%d fmt=%d toks=%s out=%s iso=%s", math.Float64bits(x), e15, nf, c19toks(c19builtin[nf]), hx(shown), hx(iso))
	}()
	ln := r.Op(head+" "+bits15, res)
	r.Case(head, true)
	r.Stat("rend")
	// direct oracle: the ISO rendering is the written wall clock
	want := fmt.Sprintf("%04d-%02d-%02d %02d:%02d:%02d", y, int(mo), d, h, mi, s)
	a := c19date{y, int(mo), d}
	if strings.HasPrefix(res, "enc=") && c19inRange(sys, a) && t.Nanosecond() == 0 && iso != want {
		r.Fail("rend:iso-differs", fmt.Sprintf("%s written with date1904=%v renders %q under yyyy-mm-dd hh:mm:ss", t.Format(time.RFC3339), sys, iso), ln, head+" -")
	}
}

// c19dur: time.Duration cells. The stored text is float32-formatted; the harness measures its distance
// to the exact seconds/86400 and reads the nearest second back.
func c19dur(r *Run, ns int64) {
	d := time.Duration(ns)
	head := fmt.Sprintf("dur %d", ns)
	bits, res := "-", "PANIC"
	var shown string
	func() {
		defer func() { _ = recover() }()
		f := xl.NewFile()
		defer f.Close()
		if err := f.SetCellValue("Sheet1", "A1", d); err != nil {
			res = "ERR"
			return
		}
		raw, _ := f.GetCellValue("Sheet1", "A1", xl.Options{RawCellValue: true})
		shown, _ = f.GetCellValue("Sheet1", "A1")
		x, err := strconv.ParseFloat(raw, 64)
		if err != nil {
			res = "text"
			return
		}
		bits = fmt.Sprintf("%016x", math.Float64bits(x))
		exact := new(big.Rat).SetFrac(big.NewInt(ns), c19nsDay)
		df := new(big.Rat).Sub(new(big.Rat).SetFloat64(x), exact)
		df.Abs(df)
		tol := new(big.Rat).Abs(exact)
		tol.Mul(tol, big.NewRat(1, 1<<23))
		e := 0
		if df.Cmp(tol) <= 0 {
			e = 1
		}
		k := "-"
		if ns >= 0 && ns%1000000000 == 0 && ns < 4194304*1000000000 {
			_, sec := c19dayAndSecond(x - math.Floor(x))
			k = strconv.FormatInt(int64(math.Floor(x))*86400+sec, 10)
		}
		si, _ := f.GetCellStyle("Sheet1", "A1")
		got, _ := f.GetStyle(si)
		nf := 0
		if got != nil {
			nf = got.NumFmt
		}
		res = fmt.Sprintf("e=%d k=%s fmt=%d", e, k, nf)
	}()
	ln := r.Op(head+" "+bits, res)
	r.Case(head, true)
	r.Stat("dur")
	// direct oracle (beyond the property text, which speaks of time.Time only): whole-second durations
	// below 2^22 s (48.5 days) read back to the second; longer ones are counted, not failed
	if ns >= 0 && ns%1000000000 == 0 && strings.HasPrefix(res, "e=") {
		want := ns / 1000000000
		if ns < 4194304*1000000000 {
			if !strings.Contains(res, fmt.Sprintf(" k=%d ", want)) || !strings.HasPrefix(res, "e=1") {
				r.Fail("dur:second-lost", fmt.Sprintf("SetCellValue(%s) stores a value that does not identify %d s: %s", d, want, res), ln, head+" -")
			}
		} else if hh := fmt.Sprintf("%d:%02d:%02d", want/3600, want/60%60, want%60); shown != hh {
			r.Stat("dur:long-duration-second-lost(float32 text; outside the property)")
			if len(r.Notes) < 8 {
				r.Notes = append(r.Notes, fmt.Sprintf("duration %s is stored with float32 precision and renders %q", d, shown))
			}
		}
	}
}

// c19edt: the exported decoder with its negative-input guard.
func c19edt(r *Run, sys bool, x float64) {
	op := fmt.Sprintf("edt %s %016x", c19sysS(sys), math.Float64bits(x))
	t, err, p := c19decode(x, sys)
	res := "ERR"
	if p {
		res = "PANIC"
	} else if err == nil {
		res = "ok " + c19fields(t)
	}
	r.Op(op, res)
	r.Case(op, err == nil)
	r.Stat("edt")
}

// c19decf ties the float-level decoder model (which float64 operations, in which order, on both
// code paths) to the code: arbitrary floats, not only whole seconds.
func c19decf(r *Run, sys bool, x float64) {
	op := fmt.Sprintf("decf %s %016x", c19sysS(sys), math.Float64bits(x))
	res := "PANIC"
	func() {
		defer func() { _ = recover() }()
		res = "ok " + c19fields(xl.VerifC19TimeFromExcelTime(x, sys))
	}()
	r.Op(op, res)
	r.Case(op, true)
	if x < 62 {
		r.Stat("decf:julian")
	} else {
		r.Stat("decf:gregorian")
	}
}

// c19encf ties the float-level model (which float64 operations, in which order) to the code.
func c19encf(r *Run, sys bool, sec int64, ns int) {
	t := time.Unix(sec, int64(ns)).UTC()
	op := fmt.Sprintf("encf %s %d %d", c19sysS(sys), sec, ns)
	res := "PANIC"
	func() {
		defer func() { _ = recover() }()
		x, err := xl.VerifC19TimeToExcelTime(t, sys)
		if err != nil {
			res = "ERR"
			return
		}
		res = fmt.Sprintf("%016x", math.Float64bits(x))
	}()
	r.Op(op, res)
	r.Case(op, true)
	r.Stat("encf")
}

func c19civ(r *Run, z int64) {
	t := time.Unix(z*86400, 0).UTC()
	y, m, d := t.Date()
	back := time.Date(y, m, d, 0, 0, 0, 0, time.UTC).Unix() / 86400
	r.Op(fmt.Sprintf("civ %d", z), fmt.Sprintf("%d %d %d %d", y, int(m), d, back))
	r.Case(fmt.Sprintf("civ:%d", z), true)
	r.Stat("civ")
}

func c19flg(r *Run, jd int) {
	d, m, y := xl.VerifC19Fliegel(jd)
	r.Op(fmt.Sprintf("flg %d", jd), fmt.Sprintf("%d %d %d", d, m, y))
	r.Case(fmt.Sprintf("flg:%d", jd), true)
	r.Stat("flg")
}

// ---------------------------------------------------------------- bulk sweep (Go-only oracles, parallel)

type c19sweepRes struct {
	fails  []Fail
	n      int
	nfails map[string]int
}

var c19boundarySecs = []int{0, 1, 59, 60, 3599, 3600, 43199, 43200, 43201, 86398, 86399}

// c19sweep walks days [from, to) of the calendar (index = days after 1899-12-30) and, for
// every day, both systems and each second in secsFor(day), checks: numeric, day count by
// stepping, error bound, round trip, previous-day-last-second < midnight.
func c19sweep(from, to int64, secsFor func(i int64) []int) c19sweepRes {
	res := c19sweepRes{nfails: map[string]int{}}
	start := time.Date(1899, 12, 30, 0, 0, 0, 0, time.UTC).AddDate(0, 0, int(from))
	cur := c19date{start.Year(), int(start.Month()), start.Day()}
	fail := func(sig, what, replay string) {
		res.nfails[sig]++
		if res.nfails[sig] <= 3 {
			res.fails = append(res.fails, Fail{sig, what, 0, replay})
		}
	}
	tol := math.Ldexp(1, -30) * 86400
	for i := from; i < to; i, cur = i+1, cur.next() {
		for _, sys := range []bool{false, true} {
			if !c19inRange(sys, cur) {
				continue
			}
			// day count by stepping: index i is days after 1899-12-30
			want := i
			if sys {
				want = i - c19idx1904
			}
			var prevX float64
			for j, sec := range secsFor(i) {
				t := time.Date(cur.y, time.Month(cur.m), cur.d, sec/3600, sec/60%60, sec%60, 0, time.UTC)
				replay := fmt.Sprintf("rt %s %d %d %d %d %d %d 0 0 UTC -", c19sysS(sys), cur.y, cur.m, cur.d, sec/3600, sec/60%60, sec%60)
				e := c19store(t, sys)
				res.n++
				if !e.isNum {
					if sys && i == c19idx1904 && sec == 0 {
						fail("enc:zero-serial-stored-as-text", "1904-01-01T00:00:00 (date1904) stored as text", replay)
					} else {
						fail("enc:not-numeric", fmt.Sprintf("%s date1904=%v stored as text %q", t.Format(time.RFC3339), sys, e.v), replay)
					}
					continue
				}
				fl := math.Floor(e.x)
				fr := (e.x - fl) * 86400
				if int64(fl) != want || math.Abs(fr-float64(sec)) > tol {
					fail("enc:daycount", fmt.Sprintf("%s date1904=%v stored as %s; stepping the calendar gives day %d second %d", t.Format(time.RFC3339), sys, e.v, want, sec), replay)
				}
				back, derr, dp := c19decode(e.x, sys)
				if dp || derr != nil || !back.Equal(t) {
					path := "gregorian-path"
					if e.x < 62 {
						path = "julian-path"
					}
					fail("rt:mismatch:"+path, fmt.Sprintf("%s date1904=%v -> %s -> %s", t.Format(time.RFC3339), sys, e.v, back.Format(time.RFC3339Nano)), replay)
				}
				if j > 0 && !(e.x > prevX) {
					fail("mono:not-increasing", fmt.Sprintf("%s date1904=%v stores %s, not above the earlier second's %v", t.Format(time.RFC3339), sys, e.v, prevX), replay)
				}
				prevX = e.x
				if j == 0 && want > 0 && sec == 0 {
					// last second of the previous day must be below this midnight
					p := c19store(t.Add(-time.Second), sys)
					if p.isNum && !(p.x < e.x) {
						fail("mono:not-increasing", fmt.Sprintf("%s date1904=%v stores %s but one second earlier stores %s", t.Format(time.RFC3339), sys, e.v, p.v), replay)
					}
				}
			}
		}
	}
	// the stepping calendar must agree with package time at the end of the chunk
	if c19unixDay(cur) != c19unixDay(c19date{1899, 12, 30})+to {
		fail("harness:calendar-step", fmt.Sprintf("harness calendar stepping disagrees with package time at index %d", to), "")
	}
	return res
}

func c19parallelSweep(r *Run, total int64, secsFor func(i int64) []int) {
	const workers = 4
	out := make([]c19sweepRes, workers)
	var wg sync.WaitGroup
	for w := 0; w < workers; w++ {
		wg.Add(1)
		go func(w int) {
			defer wg.Done()
			out[w] = c19sweep(total*int64(w)/workers, total*int64(w+1)/workers, secsFor)
		}(w)
	}
	wg.Wait()
	for _, o := range out {
		r.Stats["sweep:conversions(go-only oracle)"] += o.n
		r.Evals += o.n
		sigs := make([]string, 0, len(o.nfails))
		for s := range o.nfails {
			sigs = append(sigs, s)
		}
		sort.Strings(sigs)
		for _, s := range sigs {
			r.Stats["oracle_fail:"+s] += o.nfails[s]
		}
		for _, f := range o.fails {
			n := 0
			for _, g := range r.Fails {
				if g.Sig == f.Sig {
					n++
				}
			}
			if n < 5 {
				r.Fails = append(r.Fails, f)
			}
		}
	}
}

// ---------------------------------------------------------------- generator

// c19safeNs: on the Julian decode path (serial < 62) Go rounds to the microsecond after a
// float64 addition whose rounding (up to 157 ns) the exact-arithmetic model does not have;
// sub-second inputs there are therefore kept on whole microseconds, away from the rounding
// boundary. Sub-second inputs are correspondence-only (the property is "to the second").
func c19safeNs(sys bool, a c19date, ns int) int {
	early := c19date{1900, 3, 5}
	if sys {
		early = c19date{1904, 3, 5}
	}
	if a.less(early) {
		return ns / 1000 * 1000
	}
	return ns
}

func c19at(a c19date, sec, ns int, loc *time.Location) time.Time {
	return time.Date(a.y, time.Month(a.m), a.d, sec/3600, sec/60%60, sec%60, ns, loc)
}

func runC19(r *Run, rng *Rng, replay string) {
	r.Rule = "a case is one (date system, wall clock, zone offset) conversion; non-trivial = inside the property's range (1900-03-01.. / 1904-01-01.. to 9999-12-31), whole second, stored as a number; distinct by (system, date, second, ns, offset). Transcript: boundary days x 11 boundary seconds x all zones, strided/exhaustive day sweep with rotating boundary second + random second, random instants, arbitrary-float decode, calendar (civ) and Fliegel (flg) sweeps. Go-only oracle sweep: every day of the range x both systems x boundary seconds."
	c19initZones(r)
	if replay != "" {
		c19replay(r, replay)
		return
	}
	thorough := r.Tier == "thorough"
	total := c19unixDay(c19last) - c19unixDay(c19date{1899, 12, 30}) + 1 // day indexes 0..total-1

	// 0. deterministic witnesses of known findings / boundaries ---------------------------------
	epoch1904 := c19first1904
	c19rt(r, true, c19at(epoch1904, 0, 0, time.UTC), "UTC", true)
	boundary := []c19date{
		{1899, 12, 29}, {1899, 12, 30}, {1899, 12, 31}, {1900, 1, 1}, {1900, 1, 2}, {1900, 2, 27}, {1900, 2, 28},
		{1900, 3, 1}, {1900, 3, 2}, {1900, 3, 3}, {1903, 12, 31}, {1904, 1, 1}, {1904, 1, 2}, {1904, 2, 28}, {1904, 2, 29},
		{1904, 3, 1}, {1904, 3, 2}, {1904, 3, 3}, {1904, 3, 4}, {1969, 12, 31}, {1970, 1, 1}, {1999, 12, 31}, {2000, 1, 1},
		{2000, 2, 28}, {2000, 2, 29}, {2000, 3, 1}, {2024, 2, 29}, {2038, 1, 19}, {2100, 2, 28}, {2100, 3, 1}, {2262, 4, 11}, {2262, 4, 12},
		{2400, 2, 29}, {9999, 12, 30}, {9999, 12, 31}, {10000, 1, 1},
	}
	// chunk boundaries of the 290*364-day loop and the saturation point of time.Duration
	for _, base := range []time.Time{time.Date(1899, 12, 31, 0, 0, 0, 0, time.UTC), time.Date(1904, 1, 1, 0, 0, 0, 0, time.UTC)} {
		for k := 1; k*105560 < int(total); k++ {
			for _, dd := range []int{-1, 0, 1} {
				t := base.AddDate(0, 0, k*105560+dd)
				boundary = append(boundary, c19date{t.Year(), int(t.Month()), t.Day()})
			}
			for _, dd := range []int{106751, 106752} { // 2^63 ns = 106751 days 23:47:16.854775807
				t := base.AddDate(0, 0, (k-1)*105560+dd)
				if t.Year() <= 9999 {
					boundary = append(boundary, c19date{t.Year(), int(t.Month()), t.Day()})
				}
			}
		}
	}
	secs := append([]int{}, c19boundarySecs...)
	secs = append(secs, 85636, 85637) // 23:47:16 / 23:47:17 (Duration saturation)
	for bi, a := range boundary {
		for _, sys := range []bool{false, true} {
			for si, sec := range secs {
				for zi, z := range c19zones {
					if !(zi == (bi+si)%len(c19zones) || zi == 0 || sec == 0 || sec == 86399) {
						continue
					}
					c19rt(r, sys, c19at(a, sec, 0, z.loc), z.name, (bi+si+zi)%7 == 0)
				}
			}
			// sub-second instants (correspondence only)
			for _, ns := range []int{1, 499999999, 500000000, 500913599, 500913601, 999999999} {
				c19rt(r, sys, c19at(a, secs[(bi+ns)%len(secs)], c19safeNs(sys, a, ns), time.UTC), "UTC", false)
			}
		}
	}
	r.Stats["gen:boundary-days"] = len(boundary)

	// 1. day sweep in the transcript -------------------------------------------------------------
	stride := int64(97)
	if thorough {
		stride = 1
	}
	phase := int64(r.Seed % uint64(stride))
	{
		cur := c19date{1899, 12, 30}
		for i := int64(0); i < total; i, cur = i+1, cur.next() {
			if i%stride != phase {
				continue
			}
			for _, sys := range []bool{false, true} {
				z := c19zones[int(i/stride)%len(c19zones)]
				if thorough && i%8 != 0 {
					z = c19zones[0]
				}
				sec := c19boundarySecs[int(i/stride)%len(c19boundarySecs)]
				c19rt(r, sys, c19at(cur, sec, 0, z.loc), z.name, !thorough && (i/stride)%64 == 0)
				if !thorough || i%4 == 0 {
					z2 := c19zones[rng.Intn(len(c19zones))]
					c19rt(r, sys, c19at(cur, rng.Intn(86400), 0, z2.loc), z2.name, false)
				}
				if (i/stride)%16 == 3 {
					c19rt(r, sys, c19at(cur, rng.Intn(86400), c19safeNs(sys, cur, rng.Intn(1000000000)), time.UTC), "UTC", false)
				}
			}
		}
		r.Stats["gen:sweep-stride"] = int(stride)
	}

	// 2. random instants over the whole range, random zones -----------------------------------
	nRand := 20000
	if thorough {
		nRand = 300000
	}
	lo := time.Date(1900, 3, 1, 0, 0, 0, 0, time.UTC).Unix()
	hi := time.Date(9999, 12, 31, 23, 59, 59, 0, time.UTC).Unix()
	for i := 0; i < nRand; i++ {
		u := lo + int64(rng.U64()%uint64(hi-lo+1))
		if rng.Chance(15) { // near the start of the ranges, where the Julian path is
			u = lo + int64(rng.Intn(5*365*86400))
		}
		z := c19zones[rng.Intn(len(c19zones))]
		w := time.Unix(u, 0).UTC()
		t := time.Date(w.Year(), w.Month(), w.Day(), w.Hour(), w.Minute(), w.Second(), 0, z.loc)
		c19rt(r, rng.Bool(), t, z.name, i%200 == 0)
	}
	// out-of-range stream (correspondence only): before the epochs, after 9999, far years
	for i := 0; i < 3000; i++ {
		var yy int
		switch rng.Intn(4) {
		case 0:
			yy = rng.Range(1890, 1905)
		case 1:
			yy = rng.Range(10000, 12000)
		case 2:
			yy = rng.Range(-5000, 1899)
		default:
			yy = rng.Range(12000, 60000)
		}
		z := c19zones[rng.Intn(len(c19zones))]
		t := time.Date(yy, time.Month(rng.Range(1, 12)), rng.Range(1, 28), rng.Intn(24), rng.Intn(60), rng.Intn(60), 0, z.loc)
		c19rt(r, rng.Bool(), t, z.name, false)
	}

	// 3. arbitrary-float decode -------------------------------------------------------------------
	for _, x := range []float64{-1, -1e-9, -0.0, 0, 1e-9, 0.5, 1, 59, 60, 60.5, 61, 61.25, 61.99998842592593, 62, 62.00001157407407, 63,
		1462, 36526, 2958465, 2958465.999988426, 2958466, 1e7, -2958466} {
		c19dec(r, false, x)
		c19dec(r, true, x)
	}
	deltasUs := []int64{0, 250000, 400000, 499000, 500000, 500500, 500900, 500912, 500914, 500920, 501000, 600000, 750000, 999000}
	nDec := 15000
	if thorough {
		nDec = 200000
	}
	for i := 0; i < nDec; i++ {
		var day int64
		switch rng.Intn(4) {
		case 0:
			day = int64(rng.Intn(64))
		case 1:
			day = int64(rng.Range(60, 70))
		default:
			day = int64(rng.Intn(2958466))
		}
		us := int64(rng.Intn(86400))*1000000 + deltasUs[rng.Intn(len(deltasUs))]
		x, _ := new(big.Rat).Add(new(big.Rat).SetInt64(day), big.NewRat(us, 86400e6)).Float64()
		if day >= 62 && rng.Chance(30) {
			x = 62 + rng.F64()*2958404 // arbitrary float on the Gregorian path
		}
		if day >= 62 && rng.Chance(10) {
			x = math.Nextafter(x, x+float64(rng.Range(-1, 1)))
		}
		c19dec(r, rng.Bool(), x)
	}

	// 3b. float-level encoder: bit pattern of timeToExcelTime -------------------------------------------
	{
		nF := 30000
		if thorough {
			nF = 400000
		}
		flo := time.Date(1899, 12, 29, 0, 0, 0, 0, time.UTC).Unix()
		for i := 0; i < nF; i++ {
			u := flo + int64(rng.U64()%uint64(hi-flo+1))
			switch rng.Intn(8) {
			case 0: // first years (small serials, Julian decode path)
				u = flo + int64(rng.Intn(6*365*86400))
			case 1: // around a chunk boundary / the Duration saturation point
				k := int64(rng.Range(1, 27))
				base := time.Date(1899, 12, 31, 0, 0, 0, 0, time.UTC).Unix()
				if rng.Bool() {
					base = time.Date(1904, 1, 1, 0, 0, 0, 0, time.UTC).Unix()
				}
				u = base + k*105560*86400 + int64(rng.Range(-3, 3)) + int64(rng.Intn(2))*(106751*86400+85636-105560*86400)
			}
			ns := 0
			if rng.Chance(25) {
				ns = rng.Intn(1000000000)
			}
			c19encf(r, rng.Bool(), u, ns)
		}
		for _, u := range []int64{flo, flo + 86400, flo + 2*86400, flo + 2*86400 + 1, lo - 1, lo, lo + 1, hi, hi + 1, hi + 86400*365*300} {
			c19encf(r, false, u, 0)
			c19encf(r, true, u, 0)
			c19encf(r, false, u, 999999999)
		}
	}

	// 3c. float-level decoder on arbitrary floats -------------------------------------------------------
	{
		nD := 40000
		if thorough {
			nD = 500000
		}
		for i := 0; i < nD; i++ {
			var x float64
			switch rng.Intn(8) {
			case 0: // arbitrary float on the Julian path
				x = rng.F64() * 62
			case 1: // around the path switch and whole days
				x = float64(rng.Range(0, 64))
				for k := rng.Range(-3, 3); k != 0; {
					if k > 0 {
						x = math.Nextafter(x, 1e9)
						k--
					} else {
						x = math.Nextafter(x, -1e9)
						k++
					}
				}
			case 2: // stored value of a random instant in the first two months of a system, any nanosecond
				sysb := rng.Bool()
				base := time.Date(1900, 3, 1, 0, 0, 0, 0, time.UTC)
				if sysb {
					base = time.Date(1904, 1, 1, 0, 0, 0, 0, time.UTC)
				}
				t := base.Add(time.Duration(rng.Intn(62*86400))*time.Second + time.Duration(rng.Intn(1000000000)))
				x, _ = xl.VerifC19TimeToExcelTime(t, sysb)
				c19decf(r, sysb, x)
				continue
			case 3: // stored value of a random instant of the range, any nanosecond
				u := lo + int64(rng.U64()%uint64(hi-lo+1))
				x, _ = xl.VerifC19TimeToExcelTime(time.Unix(u, int64(rng.Intn(1000000000))).UTC(), false)
			case 4: // whole second +- a few ulps
				day := float64(rng.Intn(2958466))
				x = day + float64(rng.Intn(86400))/86400
				x = math.Nextafter(x, x+float64(rng.Range(-1, 1)))
			case 5: // near the 500 ms rounding boundary
				day := int64(rng.Range(62, 2958465))
				nsd := int64(rng.Intn(86400))*1000000000 + 500913600 + int64(rng.Range(-3000, 3000))
				x, _ = new(big.Rat).Add(new(big.Rat).SetInt64(day), big.NewRat(nsd, 86400e9)).Float64()
			default: // arbitrary float on the Gregorian path
				x = 62 + rng.F64()*2958404
			}
			c19decf(r, rng.Bool(), x)
		}
		for _, x := range []float64{0, 1e-300, 1e-9, 0.5, 61, 61.99999999999999, 62, 62.00000000000001, 63, 2958465.999988426, 2958466, 1e7,
			-1e-9, -0.25, -0.5, -0.75, -1, -1.5, -61.5, -62, -100.25} {
			c19decf(r, false, x)
			c19decf(r, true, x)
		}
	}

	// 3d. glue: workbook flag + default style on the public path; Duration cells; exported decoder ---------
	{
		nC := 1500
		if thorough {
			nC = 12000
		}
		wbs := []string{"n", "0", "1"}
		for i := 0; i < nC; i++ {
			u := lo + int64(rng.U64()%uint64(hi-lo+1))
			if rng.Chance(20) {
				u = time.Date(1899, 12, 28, 0, 0, 0, 0, time.UTC).Unix() + int64(rng.Intn(5*365*86400))
			}
			z := c19zones[rng.Intn(len(c19zones))]
			w := time.Unix(u, 0).UTC()
			day, hh, mm, ss := w.Day(), w.Hour(), w.Minute(), w.Second()
			switch rng.Intn(5) {
			case 0:
				day = 1
			case 1:
				hh, mm, ss = 0, 0, 0
			case 2:
				day, hh, mm, ss = 1, 0, 0, 0
			}
			t := time.Date(w.Year(), w.Month(), day, hh, mm, ss, 0, z.loc)
			c19cell(r, wbs[i%3], (i/3)%4, t, z.name)
		}
		for _, wb := range wbs { // the first instants of both systems, every pre-style
			for pre := 0; pre < 4; pre++ {
				c19cell(r, wb, pre, time.Date(1904, 1, 1, 0, 0, 0, 0, time.UTC), "UTC")
				c19cell(r, wb, pre, time.Date(1899, 12, 31, 0, 0, 0, 0, time.UTC), "UTC")
				c19cell(r, wb, pre, time.Date(1899, 12, 30, 23, 59, 59, 0, time.UTC), "UTC")
				c19cell(r, wb, pre, time.Date(2024, 12, 1, 13, 0, 0, 0, time.UTC), "UTC")
			}
		}
		nR := 4000
		if thorough {
			nR = 40000
		}
		for i := 0; i < nR; i++ {
			u := lo + int64(rng.U64()%uint64(hi-lo+1))
			if rng.Chance(20) {
				u = lo + int64(rng.Intn(5*365*86400))
			}
			z := c19zones[rng.Intn(len(c19zones))]
			w := time.Unix(u, 0).UTC()
			day, hh, mm, ss := w.Day(), w.Hour(), w.Minute(), w.Second()
			switch rng.Intn(5) {
			case 0:
				day = 1
			case 1:
				hh, mm, ss = 0, 0, 0
			case 2:
				hh, mm, ss = 23, 59, 59
			}
			c19rend(r, rng.Bool(), time.Date(w.Year(), w.Month(), day, hh, mm, ss, 0, z.loc), z.name)
		}
		for _, sysb := range []bool{false, true} {
			for _, a := range []c19date{{1900, 3, 1}, {1900, 3, 2}, {1904, 1, 1}, {1904, 3, 2}, {1904, 3, 3}, {2000, 2, 29}, {9999, 12, 31}, {2024, 12, 1}} {
				for _, sec := range []int{0, 1, 43200, 86399} {
					c19rend(r, sysb, c19at(a, sec, 0, time.UTC), "UTC")
				}
			}
		}
		nDu := 3000
		if thorough {
			nDu = 40000
		}
		for _, ns := range []int64{0, 1, 999999999, 1000000000, 59000000000, 60000000000, 61000000000, 3600000000000, 86399000000000,
			86400000000000, 86401000000000, 1500000000, -60000000000, -1000000000, 3600001000000000, 4194303000000000, 4194304000000000,
			17280001000000000, 8640000001000000000} {
			c19dur(r, ns)
		}
		for i := 0; i < nDu; i++ {
			var ns int64
			switch rng.Intn(5) {
			case 0:
				ns = int64(rng.Intn(86400)) * 1000000000
			case 1:
				ns = int64(rng.Intn(1440)) * 60000000000
			case 2:
				ns = int64(rng.Intn(4194304)) * 1000000000
			case 3:
				ns = int64(rng.U64() % 4194304000000000)
			default:
				ns = int64(rng.Intn(100000000)) * 1000000000
			}
			c19dur(r, ns)
		}
		nE := 5000
		if thorough {
			nE = 50000
		}
		for _, x := range []float64{0, math.Copysign(0, -1), -1e-300, -1e-9, -1, 1e-9, 61.5, 62, 45000.5} {
			c19edt(r, false, x)
			c19edt(r, true, x)
		}
		for i := 0; i < nE; i++ {
			x := rng.F64() * 2958466
			switch rng.Intn(4) {
			case 0:
				x = -x
			case 1:
				x = rng.F64() * 62
			}
			c19edt(r, rng.Bool(), x)
		}
	}

	// 4. calendar and Fliegel sweeps ---------------------------------------------------------------
	civStride := int64(97)
	if thorough {
		civStride = 1
	}
	base := c19unixDay(c19date{1899, 12, 30})
	for i := phase % civStride; i < total; i += civStride {
		c19civ(r, base+i)
	}
	for i := 0; i < 20000; i++ {
		c19civ(r, int64(rng.Range(-4000000, 4500000)))
	}
	for _, z := range []int64{-719468, -719469, -719467, 0, -1, 1, -146097, 146097, 11016, 11017} {
		c19civ(r, z)
	}
	for jd := 2415000; jd <= 2416560; jd++ {
		c19flg(r, jd)
	}
	for i := 0; i < 3000; i++ {
		c19flg(r, rng.Range(1, 5500000))
	}

	// 5. Go-only oracle sweep over every day of the range --------------------------------------------
	if thorough {
		c19parallelSweep(r, total, func(i int64) []int { return c19boundarySecs })
		r.Exhaust = true
		r.Notes = append(r.Notes, "exhaustive: every day 1899-12-30..9999-12-31 x both date systems x 11 boundary seconds on the implementation (direct oracles); every day x both systems x rotating boundary second in the model transcript")
	} else {
		c19parallelSweep(r, total, func(i int64) []int {
			a := c19boundarySecs[int(i)%len(c19boundarySecs)]
			if a == 0 {
				return []int{0, 86399}
			}
			return []int{0, a}
		})
		r.Notes = append(r.Notes, "quick: every day of the range x both systems x {00:00:00, one rotating boundary second} on the implementation (direct oracles); every 97th day in the model transcript")
	}
	for _, s := range r.opsSample(10) {
		r.Sample(s)
	}
}

func c19replay(r *Run, path string) {
	for _, line := range readLines(path) {
		w := strings.Fields(line)
		if len(w) == 0 || strings.HasPrefix(w[0], "#") {
			continue
		}
		atoi := func(s string) int { n, _ := strconv.Atoi(s); return n }
		switch w[0] {
		case "rt":
			if len(w) < 11 {
				continue
			}
			loc := c19zoneByName(w[10], atoi(w[9]))
			t := time.Date(atoi(w[2]), time.Month(atoi(w[3])), atoi(w[4]), atoi(w[5]), atoi(w[6]), atoi(w[7]), atoi(w[8]), loc)
			c19rt(r, w[1] == "1", t, w[10], true)
		case "dec":
			if len(w) < 3 {
				continue
			}
			b, err := strconv.ParseUint(w[2], 16, 64)
			if err == nil {
				c19dec(r, w[1] == "1", math.Float64frombits(b))
			}
		case "cell":
			if len(w) >= 12 {
				loc := c19zoneByName(w[11], atoi(w[10]))
				t := time.Date(atoi(w[3]), time.Month(atoi(w[4])), atoi(w[5]), atoi(w[6]), atoi(w[7]), atoi(w[8]), atoi(w[9]), loc)
				c19cell(r, w[1], atoi(w[2]), t, w[11])
			}
		case "rend":
			if len(w) >= 10 {
				loc := c19zoneByName(w[9], atoi(w[8]))
				c19rend(r, w[1] == "1", time.Date(atoi(w[2]), time.Month(atoi(w[3])), atoi(w[4]), atoi(w[5]), atoi(w[6]), atoi(w[7]), 0, loc), w[9])
			}
		case "dur":
			if len(w) >= 2 {
				n, _ := strconv.ParseInt(w[1], 10, 64)
				c19dur(r, n)
			}
		case "edt":
			if len(w) >= 3 {
				b, err := strconv.ParseUint(w[2], 16, 64)
				if err == nil {
					c19edt(r, w[1] == "1", math.Float64frombits(b))
				}
			}
		case "decf":
			if len(w) >= 3 {
				b, err := strconv.ParseUint(w[2], 16, 64)
				if err == nil {
					c19decf(r, w[1] == "1", math.Float64frombits(b))
				}
			}
		case "encf":
			if len(w) >= 4 {
				sec, _ := strconv.ParseInt(w[2], 10, 64)
				c19encf(r, w[1] == "1", sec, atoi(w[3]))
			}
		case "civ":
			if len(w) >= 2 {
				z, _ := strconv.ParseInt(w[1], 10, 64)
				c19civ(r, z)
			}
		case "flg":
			if len(w) >= 2 {
				c19flg(r, atoi(w[1]))
			}
		}
	}
}
