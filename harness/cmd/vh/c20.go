//go:build verif_c20

package main

// C20 — reference codecs. Transcript ops (see lean/XlModel/Drv/C20.lean):
//   c2n <hex>            ColumnNameToNumber
//   n2c <int>            ColumnNumberToName
//   split <hex>          SplitCellName
//   join <hex> <int>     JoinCellName
//   c2xy <hex>           CellNameToCoordinates, followed by the strict-grammar verdict S=
//   xy2c <c> <r> <abs>   CoordinatesToCellName
//   rng <hex>            rangeRefToCoordinates (hook)
//   c2rng a b c d abs    sortCoordinates + coordinatesToRangeRef (hook)
//   spell <hex>          SetCellValue(spelling) then GetCellValue(same spelling) finds it?
//   api <hex>            which of the cell-name taking APIs accept the string (strictness at API level)
//
// Direct oracles (independent of the Lean model): round trips, injectivity,
// strict A1 regexp, spelling equivalence over setter/getter pairs.

import (
	"fmt"
	"regexp"
	"strconv"
	"strings"

	xl "github.com/xuri/excelize/v2"
)

func init() { props["C20"] = runC20 }

var a1Strict = regexp.MustCompile(`^\$?([A-Za-z]+)\$?([0-9]+)$`)

// specA1 is the harness's own strict reading of "A1-style reference inside
// the grid" (big-number safe, no strconv.Atoi leniency).
func specA1(s string) (int, int, bool) {
	m := a1Strict.FindStringSubmatch(s)
	if m == nil {
		return 0, 0, false
	}
	letters, digits := strings.ToUpper(m[1]), strings.TrimLeft(m[2], "0")
	if len(letters) > 3 || len(digits) == 0 || len(digits) > 7 {
		return 0, 0, false
	}
	col := 0
	for _, ch := range letters {
		col = col*26 + int(ch-'A'+1)
	}
	row, _ := strconv.Atoi(digits)
	if col < 1 || col > 16384 || row < 1 || row > 1048576 {
		return 0, 0, false
	}
	return col, row, true
}

func c20sig(s string) string {
	switch {
	case strings.ContainsAny(s, "+-"):
		return "accept-sign-in-row"
	case strings.Count(s, "$") > 0 && !a1Strict.MatchString(s):
		return "accept-stray-dollar"
	case len(s) >= 14:
		return "colname-overflow"
	}
	return "other"
}

func c20c2xy(r *Run, s string) {
	c, ro, err := xl.CellNameToCoordinates(s)
	sc, sr, sok := specA1(s)
	spec := "S=none"
	if sok {
		spec = fmt.Sprintf("S=%d,%d", sc, sr)
	}
	var res string
	if err != nil {
		res = "ERR"
	} else {
		res = fmt.Sprintf("ok %d %d", c, ro)
	}
	ln := r.Op("c2xy "+hx(s), res+" "+spec)
	r.Case("c2xy:"+s, err == nil || sok)
	if err == nil {
		r.Stat("c2xy:accept")
	} else {
		r.Stat("c2xy:reject")
	}
	if err == nil && (!sok || c != sc || ro != sr) {
		r.Fail("c2xy:"+c20sig(s), fmt.Sprintf("CellNameToCoordinates(%q) = (%d,%d), nil but strict A1 says %s", s, c, ro, spec), ln, "c2xy "+hx(s))
	}
	if err != nil && sok {
		r.Fail("c2xy:reject-valid", fmt.Sprintf("CellNameToCoordinates(%q) rejected, strict A1 says %s", s, spec), ln, "c2xy "+hx(s))
	}
}

func c20c2n(r *Run, s string) (int, error) {
	n, err := xl.ColumnNameToNumber(s)
	res := "ERR"
	if err == nil {
		res = "ok " + strconv.Itoa(n)
	}
	ln := r.Op("c2n "+hx(s), res)
	r.Case("c2n:"+s, true)
	if err == nil && (n < 1 || n > 16384) {
		r.Fail("c2n:colname-overflow", fmt.Sprintf("ColumnNameToNumber(%q) = %d, nil: outside 1..16384", s, n), ln, "c2n "+hx(s))
	}
	return n, err
}

func c20n2c(r *Run, n int) (string, error) {
	s, err := xl.ColumnNumberToName(n)
	res := "ERR"
	if err == nil {
		res = "ok " + hx(s)
	}
	r.Op("n2c "+strconv.Itoa(n), res)
	r.Case("n2c:"+strconv.Itoa(n), true)
	return s, err
}

func c20xy2c(r *Run, c, ro int, abs bool) (string, error) {
	var s string
	var err error
	a := "0"
	if abs {
		a = "1"
		s, err = xl.CoordinatesToCellName(c, ro, true)
	} else {
		s, err = xl.CoordinatesToCellName(c, ro)
	}
	res := "ERR"
	if err == nil {
		res = "ok " + hx(s)
	}
	r.Op(fmt.Sprintf("xy2c %d %d %s", c, ro, a), res)
	r.Case(fmt.Sprintf("xy2c:%d:%d:%s", c, ro, a), true)
	return s, err
}

func c20split(r *Run, s string) {
	col, row, err := xl.SplitCellName(s)
	res := "ERR"
	if err == nil {
		res = fmt.Sprintf("ok %s %d", hx(col), row)
	}
	r.Op("split "+hx(s), res)
	r.Case("split:"+s, err == nil)
}

func c20join(r *Run, col string, row int) {
	s, err := xl.JoinCellName(col, row)
	res := "ERR"
	if err == nil {
		res = "ok " + hx(s)
	}
	ln := r.Op(fmt.Sprintf("join %s %d", hx(col), row), res)
	r.Case(fmt.Sprintf("join:%s:%d", col, row), err == nil)
	// direct oracle: "SplitCellName/JoinCellName agree with" the cell codecs over the whole grid.
	// For a column name the column codec accepts and a row inside the grid, JoinCellName must
	// succeed, give the name CoordinatesToCellName gives, and SplitCellName must give the parts back.
	replay := fmt.Sprintf("join %s %d", hx(col), row)
	cn, cerr := xl.ColumnNameToNumber(col)
	if cerr == nil && row >= 1 && row <= 1048576 {
		want, werr := xl.CoordinatesToCellName(cn, row)
		if err != nil || werr != nil || s != want {
			r.Fail("join:disagrees-with-cell-codec", fmt.Sprintf("JoinCellName(%q,%d) = %q,%v but CoordinatesToCellName(%d,%d) = %q,%v", col, row, s, err, cn, row, want, werr), ln, replay)
			return
		}
		bc, br, berr := xl.SplitCellName(s)
		if berr != nil || br != row || !strings.EqualFold(bc, col) {
			r.Fail("join:split-roundtrip", fmt.Sprintf("SplitCellName(JoinCellName(%q,%d)=%q) = %q,%d,%v", col, row, s, bc, br, berr), ln, replay)
		}
	} else if err == nil && (row < 1 || cerr != nil && !c20lettersOnly(col)) {
		r.Fail("join:accept-invalid", fmt.Sprintf("JoinCellName(%q,%d) = %q accepted", col, row, s), ln, replay)
	}
}

func c20lettersOnly(s string) bool {
	if s == "" {
		return false
	}
	for i := 0; i < len(s); i++ {
		c := s[i] | 0x20
		if c < 'a' || c > 'z' {
			return false
		}
	}
	return true
}

func c20rng(r *Run, s string) {
	q, err := xl.VerifRangeRefToCoordinates(s)
	res := "ERR"
	if err == nil {
		res = fmt.Sprintf("ok %d %d %d %d", q[0], q[1], q[2], q[3])
	}
	_, strict := c20specRange(s)
	ln := r.Op("rng "+hx(s), res+" "+c20specRangeStr(s))
	r.Case("rng:"+s, err == nil || strict)
	switch {
	case err == nil && strict:
		r.Stat("rng:accept-strict")
	case err == nil:
		// not cell:cell but decoded: the two leniencies repaired in the fix window get their old kind
		r.Stat("rng:accept-loose:" + c20looseKind(s))
		r.Fail("rng:accept-non-range:"+c20looseKind(s), fmt.Sprintf("rangeRefToCoordinates(%q) accepted although it is not cell:cell with two A1 references inside the grid", s), ln, "rng "+hx(s))
	case strict:
		r.Fail("rng:reject-valid", fmt.Sprintf("rangeRefToCoordinates(%q) rejected although it is cell:cell inside the grid", s), ln, "rng "+hx(s))
	default:
		r.Stat("rng:reject")
	}
}

func c20c2rng(r *Run, a, b, c, d int, abs bool) {
	q := []int{a, b, c, d}
	_ = xl.VerifSortCoordinates(q)
	var s string
	var err error
	ab := "0"
	if abs {
		ab = "1"
		s, err = xl.VerifCoordinatesToRangeRef(q, true)
	} else {
		s, err = xl.VerifCoordinatesToRangeRef(q)
	}
	res := "ERR"
	if err == nil {
		res = "ok " + hx(s)
		// oracle: decodes back to the sorted rectangle
		back, e2 := xl.VerifRangeRefToCoordinates(s)
		if e2 != nil || back[0] != q[0] || back[1] != q[1] || back[2] != q[2] || back[3] != q[3] {
			r.Fail("rng:roundtrip", fmt.Sprintf("range %v -> %q -> %v (%v)", q, s, back, e2), 0, fmt.Sprintf("c2rng %d %d %d %d %s", a, b, c, d, ab))
		}
	}
	r.Op(fmt.Sprintf("c2rng %d %d %d %d %s", a, b, c, d, ab), res)
	r.Case(fmt.Sprintf("c2rng:%v:%s", q, ab), err == nil)
}

// spelling equivalence on a real File, across setter/getter pairs.
func c20spell(r *Run, s string) {
	col, row, err := xl.CellNameToCoordinates(s)
	if err != nil || col < 1 || col > 16384 {
		return
	}
	canon, _ := xl.CoordinatesToCellName(col, row)
	f := xl.NewFile()
	defer f.Close()
	found := "0"
	func() {
		defer func() {
			if p := recover(); p != nil {
				found = "PANIC"
			}
		}()
		if e := f.SetCellValue("Sheet1", s, "v"); e != nil {
			found = "ERR"
			return
		}
		v, e := f.GetCellValue("Sheet1", s)
		if e == nil && v == "v" {
			found = "1"
		}
	}()
	ln := r.Op("spell "+hx(s), found)
	r.Case("spell:"+s, true)
	r.Stat("spell:found=" + found)
	replay := "spell " + hx(s)
	sig := "spell:getter-string-lookup"
	if found != "1" {
		r.Fail(sig, fmt.Sprintf("SetCellValue(%q) then GetCellValue(%q) does not return the value (canonical %s): %s", s, s, canon, found), ln, replay)
		return
	}
	// other pairs; the write must land in the canonical cell and be read back through the same spelling
	chk := func(pair string, ok bool) {
		if !ok {
			r.Fail(sig+":"+pair, fmt.Sprintf("%s via spelling %q (canonical %s) not treated as the same cell", pair, s, canon), 0, replay)
		}
	}
	v, _ := f.GetCellValue("Sheet1", canon)
	chk("SetCellValue/GetCellValue(canonical)", v == "v")
	_ = f.SetCellFormula("Sheet1", s, "1+1")
	fm, _ := f.GetCellFormula("Sheet1", s)
	fm2, _ := f.GetCellFormula("Sheet1", canon)
	chk("SetCellFormula/GetCellFormula", fm == "1+1" && fm2 == "1+1")
	st, _ := f.NewStyle(&xl.Style{Font: &xl.Font{Bold: true}})
	_ = f.SetCellStyle("Sheet1", s, s, st)
	g1, _ := f.GetCellStyle("Sheet1", s)
	g2, _ := f.GetCellStyle("Sheet1", canon)
	chk("SetCellStyle/GetCellStyle", g1 == st && g2 == st)
	_ = f.SetCellHyperLink("Sheet1", s, "https://example.com", "External")
	ok1, l1, _ := f.GetCellHyperLink("Sheet1", s)
	ok2, l2, _ := f.GetCellHyperLink("Sheet1", canon)
	chk("SetCellHyperLink/GetCellHyperLink", ok1 && ok2 && l1 == l2)
	ty1, _ := f.GetCellType("Sheet1", s)
	ty2, _ := f.GetCellType("Sheet1", canon)
	chk("GetCellType", ty1 == ty2)
}

// c20api: strictness at the API level. Every API taking a cell name must reject a string
// that is not an A1 reference inside the grid (the getters/setters normalise the name before
// decoding it, which must not widen what is accepted). Result: one letter per API, A=accepted R=rejected.
func c20api(r *Run, s string) {
	_, _, ok := specA1(s)
	if len(s) > 64 {
		return
	}
	f := xl.NewFile()
	defer f.Close()
	res := ""
	call := func(fn func() error) {
		acc := "R"
		func() {
			defer func() {
				if p := recover(); p != nil {
					acc = "P"
				}
			}()
			if fn() == nil {
				acc = "A"
			}
		}()
		res += acc
	}
	call(func() error { return f.SetCellValue("Sheet1", s, "v") })
	call(func() error { _, e := f.GetCellValue("Sheet1", s); return e })
	call(func() error { _, e := f.GetCellFormula("Sheet1", s); return e })
	call(func() error { _, e := f.GetCellType("Sheet1", s); return e })
	call(func() error { return f.SetCellHyperLink("Sheet1", s, "https://example.com", "External") })
	call(func() error { _, _, e := f.GetCellHyperLink("Sheet1", s); return e })
	call(func() error { _, e := f.GetCellStyle("Sheet1", s); return e })
	call(func() error { return f.SetCellFormula("Sheet1", s, "1+1") })
	ln := r.Op("api "+hx(s), res)
	r.Case("api:"+s, ok || strings.Contains(res, "A"))
	r.Stat("api:" + res)
	want := "RRRRRRRR"
	if ok {
		want = "AAAAAAAA"
	}
	if res != want {
		kind := "accept-non-a1"
		if ok {
			kind = "reject-valid"
		}
		if strings.Contains(res, "P") {
			kind = "panic"
		}
		r.Fail("api:"+kind, fmt.Sprintf("cell-name APIs on %q: %s (SetCellValue GetCellValue GetCellFormula GetCellType SetCellHyperLink GetCellHyperLink GetCellStyle SetCellFormula; A=accepted R=rejected), strict A1 says valid=%v", s, res, ok), ln, "api "+hx(s))
	}
}

// strings whose Unicode upper/lower case mapping or look-alike shape could be mistaken for A1
var c20lookalikes = []string{"ı1", "ſ1", "ı$1", "$ſ$1", "aı1", "İ1", "K1", "Å1", "Ａ1", "A１", "ǅ1", "ß1", "ŉ1", "A1\u0000",
	// long accepted spellings: absolute forms at the far corner, zero-padded rows
	"$XFD$1048576", "$xfd$1048576", "XFD1048576", "$AAA$1000000", "$ABC$0000012", "A0000000001", "$A$00000000000000000001", "$XFD$0001048576",
	"a1", "A1", "$a$1", "xfd1048576", "xfe1", "A1048577", " A1", "A1 ", "A 1", "A1:B2", "Sheet1!A1", "", "A", "1", "$", "A0", "$A$0"}

var c20alpha = []string{"A", "Z", "a", "z", "0", "1", "9", "$", "+", "-", " ", ":", "!", "."}

func c20enum(r *Run, maxLen int) {
	var rec func(prefix string, left int)
	rec = func(prefix string, left int) {
		if prefix != "" {
			c20c2xy(r, prefix)
		}
		if left == 0 {
			return
		}
		for _, a := range c20alpha {
			rec(prefix+a, left-1)
		}
	}
	rec("", maxLen)
}

func c20randStr(rng *Rng) string {
	n := rng.Range(1, 12)
	if rng.Chance(10) {
		n = rng.Range(13, 72)
	}
	var sb strings.Builder
	mode := rng.Intn(6)
	for i := 0; i < n; i++ {
		switch mode {
		case 0: // letters only (long column names)
			sb.WriteByte(byte('A' + rng.Intn(26) + 32*rng.Intn(2)))
		case 1: // near-valid reference
			if i < n/2 {
				sb.WriteByte(byte('A' + rng.Intn(26)))
			} else {
				sb.WriteByte(byte('0' + rng.Intn(10)))
			}
		case 2:
			sb.WriteString(rng.Pick(c20alpha))
		case 5: // letters and digits mixed with the neighbours of their ranges
			sb.WriteString(rng.Pick(c20alphaEdge))
		case 3: // arbitrary bytes incl. >= 0x80
			sb.WriteByte(byte(rng.Intn(256)))
		default:
			sb.WriteString(rng.Pick([]string{"$", "A", "b", "XFD", "1", "0", "1048576", "$", "+", "-", "_", "é"}))
		}
	}
	return sb.String()
}

func runC20(r *Run, rng *Rng, replay string) {
	r.Rule = "exhaustive: all 16384 columns both ways in three casings; boundary rows x sampled/all columns both abs modes; every string of length<=L over {A,Z,a,z,0,1,9,$,+,-,space,:,!,.}; seeded random strings (long names, raw bytes); accepted spellings through setter/getter pairs; deepening: every string of length<=L over the neighbours alphabet {A,Z,a,z,0,9,$,/,:,@,[,`,{}, lenient range spellings through rangeRefToCoordinates and MergeCell/UnmergeCell, nine writer/reader pairs x three reader spellings on real Files. non-trivial = accepted by impl or by the strict grammar (c2xy), every codec call otherwise; distinct by op text"
	if replay != "" {
		c20replay(r, replay)
		return
	}
	thorough := r.Tier == "thorough"
	// 1. all columns
	seen := map[string]int{}
	for n := 1; n <= 16384; n++ {
		name, err := c20n2c(r, n)
		if err != nil {
			r.Fail("n2c:reject-valid", fmt.Sprintf("ColumnNumberToName(%d) error", n), 0, fmt.Sprintf("n2c %d", n))
			continue
		}
		if p, dup := seen[name]; dup {
			r.Fail("n2c:not-injective", fmt.Sprintf("ColumnNumberToName(%d) = ColumnNumberToName(%d) = %q", n, p, name), 0, fmt.Sprintf("n2c %d", n))
		}
		seen[name] = n
		for _, variant := range []string{name, strings.ToLower(name), mixCase(name)} {
			back, err := c20c2n(r, variant)
			if err != nil || back != n {
				r.Fail("col:roundtrip", fmt.Sprintf("ColumnNameToNumber(%q) = %d,%v want %d", variant, back, err, n), 0, "c2n "+hx(variant))
			}
		}
	}
	for _, n := range []int{0, -1, -16384, 16385, 16386, 1 << 20, 1 << 31, -(1 << 62)} {
		if _, err := c20n2c(r, n); err == nil {
			r.Fail("n2c:accept-invalid", fmt.Sprintf("ColumnNumberToName(%d) accepted", n), 0, fmt.Sprintf("n2c %d", n))
		}
	}
	// 2. boundary rows
	rows := []int{1, 2, 9, 10, 11, 99, 100, 101, 999, 1000, 9999, 10000, 99999, 100000, 999999, 1000000, 1048575, 1048576}
	badRows := []int{0, -1, 1048577, 1048578, 1 << 31}
	colStep := 97
	if thorough {
		colStep = 1
	}
	for c := 1; c <= 16384; c += colStep {
		for _, ro := range rows {
			for _, abs := range []bool{false, true} {
				name, err := c20xy2c(r, c, ro, abs)
				if err != nil {
					r.Fail("xy2c:reject-valid", fmt.Sprintf("CoordinatesToCellName(%d,%d) error", c, ro), 0, fmt.Sprintf("xy2c %d %d 0", c, ro))
					continue
				}
				bc, br, e2 := xl.CellNameToCoordinates(name)
				if e2 != nil || bc != c || br != ro {
					r.Fail("cell:roundtrip", fmt.Sprintf("(%d,%d) -> %q -> (%d,%d,%v)", c, ro, name, bc, br, e2), 0, "c2xy "+hx(name))
				}
				if c%(colStep*8) == 1 || ro >= 1048575 {
					c20c2xy(r, name)
					c20c2xy(r, strings.ToLower(name))
					c20split(r, name)
				}
			}
		}
	}
	for _, c := range []int{1, 16384, 16385, 0, -5} {
		for _, ro := range append(badRows, 1, 1048576) {
			c20xy2c(r, c, ro, rng.Bool())
		}
	}
	c20c2xy(r, "XFD1048576")
	c20c2xy(r, "XFE1")
	c20c2xy(r, "XFD1048577")
	c20c2xy(r, "A0")
	// 3. string enumeration
	if thorough {
		c20enum(r, 5)
	} else {
		c20enum(r, 4)
	}
	// 4. random strings
	nRand := 20000
	if thorough {
		nRand = 300000
	}
	for i := 0; i < nRand; i++ {
		s := c20randStr(rng)
		switch rng.Intn(4) {
		case 0:
			c20c2n(r, s)
		case 1:
			c20split(r, s)
		default:
			c20c2xy(r, s)
		}
	}
	// 5. join / ranges
	for i := 0; i < 4000; i++ {
		col := c20randStr(rng)
		if rng.Chance(60) {
			col, _ = xl.ColumnNumberToName(rng.Range(1, 16384))
			if rng.Bool() {
				col = strings.ToLower(col)
			}
		}
		c20join(r, col, rng.Pick2([]int{-1, 0, 1, 5, 1048576, 1048577, 99}))
		a, b, c, d := rng.Range(1, 16384), rng.Range(1, 1048576), rng.Range(1, 16384), rng.Range(1, 1048576)
		if rng.Chance(10) {
			a = rng.Range(-2, 16390)
			d = rng.Range(1048570, 1048580)
		}
		c20c2rng(r, a, b, c, d, rng.Bool())
		n1, _ := xl.CoordinatesToCellName(rng.Range(1, 16384), rng.Range(1, 1048576), rng.Bool())
		n2, _ := xl.CoordinatesToCellName(rng.Range(1, 16384), rng.Range(1, 1048576), rng.Bool())
		switch rng.Intn(6) {
		case 0:
			c20rng(r, n1)
		case 1:
			c20rng(r, n1+":"+n2+":"+n1)
		case 2:
			c20rng(r, n1+":"+c20randStr(rng))
		default:
			c20rng(r, n1+":"+n2)
		}
	}
	// 5b. JoinCellName / SplitCellName on the boundary grid
	for _, cn := range []string{"A", "a", "Z", "AA", "az", "ZZ", "AAA", "XFC", "XFD", "xfd"} {
		for _, ro := range []int{1, 2, 9, 10, 99999, 100000, 1048575, 1048576, 1048577, 0, -1} {
			c20join(r, cn, ro)
		}
	}
	// 6. spellings
	for i := 0; i < 60; i++ {
		c, ro := rng.Range(1, 60), rng.Range(1, 40)
		if i%10 == 0 {
			c, ro = 16384, rng.Range(1, 3)
		}
		name, _ := xl.ColumnNumberToName(c)
		rs := strconv.Itoa(ro)
		for _, sp := range []string{name + rs, strings.ToLower(name) + rs, mixCase(name) + rs,
			"$" + name + "$" + rs, "$" + name + rs, name + "$" + rs, "$" + strings.ToLower(name) + "$" + rs,
			name + "0" + rs, name + "00" + rs, name + "+" + rs, name + "$$" + rs, "$$" + name + rs} {
			c20spell(r, sp)
		}
	}
	// 7. strictness at the API level: look-alikes, every string of length <= 3 over the alphabet, random strings
	for _, s := range c20lookalikes {
		c20api(r, s)
	}
	var rec3 func(prefix string, left int)
	rec3 = func(prefix string, left int) {
		if prefix != "" {
			c20api(r, prefix)
		}
		if left == 0 {
			return
		}
		for _, a := range c20alpha {
			rec3(prefix+a, left-1)
		}
	}
	rec3("", 3)
	nApi := 1500
	if thorough {
		nApi = 20000
	}
	for i := 0; i < nApi; i++ {
		c20api(r, c20randStr(rng))
	}
	for _, sp := range []string{"$XFD$1048576", "$xfd$1048575", "$ABC$0000012", "A0000000001", "$AAA$0000000000012"} {
		c20spell(r, sp)
	}
	// 8. deepening round: range/letter-range neighbours, range decoder, range-taking cell APIs, writer/reader pairs
	c20deepen(r, rng, thorough)
	// 9. deepening round 2: multi-range layer, merged-cell redirect
	c20deepen2(r, rng, thorough)
	// 10. column ranges, lookup paths on sheets with merged cells
	c20deepen3(r, rng, thorough)
	// 11. references inside option structs, remaining cell/range taking functions
	c20deepen4(r, rng, thorough)
	// 12. SetConditionalFormat's reference grammar, StreamWriter entry points
	c20deepen5(r, rng, thorough)
	// 13. lookup paths on Files with arbitrary injected merged-cell lists
	c20deepen6(r, rng, thorough)
	for _, s := range r.opsSample(10) {
		r.Sample(s)
	}
	if thorough {
		r.Exhaust = true
	}
	r.Notes = append(r.Notes, fmt.Sprintf("string enumeration length<=%d over %d symbols; column step %d", map[bool]int{false: 4, true: 5}[thorough], len(c20alpha), colStep))
}

func mixCase(s string) string {
	b := []byte(s)
	for i := range b {
		if i%2 == 1 {
			b[i] |= 0x20
		}
	}
	return string(b)
}

func c20replay(r *Run, path string) {
	for _, line := range readLines(path) {
		w := strings.Fields(line)
		if len(w) == 0 || c20replay2(r, w) {
			continue
		}
		switch w[0] {
		case "c2xy":
			c20c2xy(r, unhx(w[1]))
		case "c2n":
			c20c2n(r, unhx(w[1]))
		case "n2c":
			n, _ := strconv.Atoi(w[1])
			c20n2c(r, n)
		case "split":
			c20split(r, unhx(w[1]))
		case "join":
			ro, _ := strconv.Atoi(w[2])
			c20join(r, unhx(w[1]), ro)
		case "spell":
			c20spell(r, unhx(w[1]))
		case "api":
			c20api(r, unhx(w[1]))
		case "rng":
			c20rng(r, unhx(w[1]))
		case "rngapi":
			c20rngapi(r, unhx(w[1]), unhx(w[2]))
		case "paths":
			c20paths(r, unhx(w[1]))
		case "xy2c":
			c, _ := strconv.Atoi(w[1])
			ro, _ := strconv.Atoi(w[2])
			name, err := c20xy2c(r, c, ro, w[3] == "1")
			if err == nil {
				bc, br, e2 := xl.CellNameToCoordinates(name)
				if e2 != nil || bc != c || br != ro {
					r.Fail("cell:roundtrip", fmt.Sprintf("(%d,%d) -> %q -> (%d,%d,%v)", c, ro, name, bc, br, e2), 0, line)
				}
			}
		}
	}
}
