//go:build verif_c20

package main

// C20, deepening round. Additional transcript ops (see lean/XlModel/Drv/C20.lean, model in
// lean/XlModel/RefApi.lean):
//   rng <hex>               now also carries the harness's strict `cell:cell` verdict S=
//   rngapi <hexA> <hexB>    MergeCell(sheet, A, B) / UnmergeCell(sheet, A, B): cell-name taking APIs
//                           that decode through rangeRefToCoordinates
//   paths <hex>             nine writer/reader pairs on real Files, three probes each (reader called
//                           with the writer's spelling / the canonical spelling / the absolute spelling)

import (
	"bytes"
	"fmt"
	"image"
	"image/color"
	"image/png"
	"strings"

	xl "github.com/xuri/excelize/v2"
)

var c20png = func() []byte {
	img := image.NewRGBA(image.Rect(0, 0, 2, 2))
	img.Set(0, 0, color.RGBA{255, 0, 0, 255})
	var b bytes.Buffer
	_ = png.Encode(&b, img)
	return b.Bytes()
}()

// c20specRange is the harness's own strict reading of a range reference: exactly `cell:cell`.
func c20specRange(s string) ([4]int, bool) {
	parts := strings.Split(s, ":")
	if len(parts) != 2 {
		return [4]int{}, false
	}
	c1, r1, ok1 := specA1(parts[0])
	c2, r2, ok2 := specA1(parts[1])
	if !ok1 || !ok2 {
		return [4]int{}, false
	}
	return [4]int{c1, r1, c2, r2}, true
}

func c20specRangeStr(s string) string {
	if q, ok := c20specRange(s); ok {
		return fmt.Sprintf("S=%d,%d,%d,%d", q[0], q[1], q[2], q[3])
	}
	return "S=none"
}

func c20looseKind(s string) string {
	switch {
	case strings.Count(s, ":") > 1:
		return "extra-colon-part"
	case strings.Contains(s, "$"):
		return "stray-dollar"
	}
	return "other"
}

// c20rngapi: MergeCell / UnmergeCell take two cell names. Strictness at the API level: both must be
// A1 references inside the grid, otherwise an error.
func c20rngapi(r *Run, a, b string) {
	if len(a)+len(b) > 80 {
		return
	}
	// keep the rectangle small: MergeCell materialises every cell of it
	if q, err := xl.VerifRangeRefToCoordinates(a + ":" + b); err == nil {
		_ = xl.VerifSortCoordinates(q)
		if q[3] > 400 || q[2] > 400 || (q[2]-q[0]+1)*(q[3]-q[1]+1) > 600 {
			return
		}
	}
	res := "R"
	f := xl.NewFile()
	defer f.Close()
	ref := ""
	func() {
		defer func() {
			if p := recover(); p != nil {
				res = "PANIC"
			}
		}()
		if err := f.MergeCell("Sheet1", a, b); err != nil {
			return
		}
		mc, err := f.GetMergeCells("Sheet1")
		if err != nil || len(mc) != 1 {
			res = fmt.Sprintf("A ? n=%d", len(mc))
			return
		}
		ref = mc[0].GetStartAxis() + ":" + mc[0].GetEndAxis()
		left := -1
		if err := f.UnmergeCell("Sheet1", a, b); err == nil {
			m2, _ := f.GetMergeCells("Sheet1")
			left = len(m2)
		}
		res = fmt.Sprintf("A %s U%d", hx(ref), left)
	}()
	op := fmt.Sprintf("rngapi %s %s", hx(a), hx(b))
	ln := r.Op(op, res)
	c1, r1, ok1 := specA1(a)
	c2, r2, ok2 := specA1(b)
	strict := ok1 && ok2
	accepted := strings.HasPrefix(res, "A")
	r.Case("rngapi:"+a+"\x00"+b, strict || accepted)
	switch {
	case res == "PANIC":
		r.Stat("rngapi:panic")
		r.Fail("rngapi:panic", fmt.Sprintf("MergeCell(%q,%q) panics", a, b), ln, op)
	case accepted && !strict:
		r.Stat("rngapi:accept-loose")
		r.Fail("rngapi:accept-non-a1:"+c20looseKind(a+":"+b), fmt.Sprintf("MergeCell(\"Sheet1\", %q, %q) = nil and merges %s although the arguments are not both A1 cell references (strict A1: %v, %v)", a, b, ref, ok1, ok2), ln, op)
	case !accepted && strict:
		r.Stat("rngapi:reject")
		r.Fail("rngapi:reject-valid", fmt.Sprintf("MergeCell(%q,%q) rejected although both are A1 references", a, b), ln, op)
	case accepted:
		r.Stat("rngapi:accept-strict")
		if c2 < c1 {
			c1, c2 = c2, c1
		}
		if r2 < r1 {
			r1, r2 = r2, r1
		}
		n1, _ := xl.CoordinatesToCellName(c1, r1)
		n2, _ := xl.CoordinatesToCellName(c2, r2)
		if want := fmt.Sprintf("A %s U0", hx(n1+":"+n2)); res != want {
			r.Fail("rngapi:wrong-rectangle", fmt.Sprintf("MergeCell(%q,%q) then GetMergeCells/UnmergeCell: %s, want %s (%s:%s, nothing left after UnmergeCell)", a, b, res, want, n1, n2), ln, op)
		}
	default:
		r.Stat("rngapi:reject")
	}
}

type c20pair struct {
	tag   string
	sig   string
	write func(f *xl.File, s string) error
	read  func(f *xl.File, t string) (bool, error)
}

var c20pairs = []c20pair{
	{"V", "", func(f *xl.File, s string) error { return f.SetCellValue("Sheet1", s, "v") },
		func(f *xl.File, t string) (bool, error) { v, e := f.GetCellValue("Sheet1", t); return v == "v", e }},
	{"N", "", func(f *xl.File, s string) error { return f.SetCellInt("Sheet1", s, 7) },
		func(f *xl.File, t string) (bool, error) { v, e := f.GetCellValue("Sheet1", t); return v == "7", e }},
	{"F", "", func(f *xl.File, s string) error { return f.SetCellFormula("Sheet1", s, "1+1") },
		func(f *xl.File, t string) (bool, error) { v, e := f.GetCellFormula("Sheet1", t); return v == "1+1", e }},
	{"T", "", func(f *xl.File, s string) error { return f.SetCellBool("Sheet1", s, true) },
		func(f *xl.File, t string) (bool, error) {
			v, e := f.GetCellType("Sheet1", t)
			return v == xl.CellTypeBool, e
		}},
	{"S", "", func(f *xl.File, s string) error {
		st, e := f.NewStyle(&xl.Style{Font: &xl.Font{Bold: true}})
		if e != nil {
			return e
		}
		return f.SetCellStyle("Sheet1", s, s, st)
	}, func(f *xl.File, t string) (bool, error) { v, e := f.GetCellStyle("Sheet1", t); return v != 0, e }},
	{"R", "", func(f *xl.File, s string) error {
		return f.SetCellRichText("Sheet1", s, []xl.RichTextRun{{Text: "rt", Font: &xl.Font{Bold: true}}})
	}, func(f *xl.File, t string) (bool, error) {
		v, e := f.GetCellRichText("Sheet1", t)
		return len(v) == 1 && v[0].Text == "rt", e
	}},
	{"H", "", func(f *xl.File, s string) error {
		return f.SetCellHyperLink("Sheet1", s, "https://example.com", "External")
	}, func(f *xl.File, t string) (bool, error) {
		ok, l, e := f.GetCellHyperLink("Sheet1", t)
		return ok && l == "https://example.com", e
	}},
	{"P", "", func(f *xl.File, s string) error {
		return f.AddPictureFromBytes("Sheet1", s, &xl.Picture{Extension: ".png", File: c20png, Format: &xl.GraphicOptions{}})
	}, func(f *xl.File, t string) (bool, error) { v, e := f.GetPictures("Sheet1", t); return len(v) == 1, e }},
	{"C", "spell:comment-raw-ref", func(f *xl.File, s string) error {
		return f.AddComment("Sheet1", xl.Comment{Cell: s, Author: "a", Text: "t"})
	}, func(f *xl.File, t string) (bool, error) {
		if e := f.DeleteComment("Sheet1", t); e != nil {
			return false, e
		}
		cs, e := f.GetComments("Sheet1")
		return len(cs) == 0, e
	}},
}

var c20pairNames = map[string]string{"V": "SetCellValue/GetCellValue", "N": "SetCellInt/GetCellValue", "F": "SetCellFormula/GetCellFormula",
	"T": "SetCellBool/GetCellType", "S": "SetCellStyle/GetCellStyle", "R": "SetCellRichText/GetCellRichText",
	"H": "SetCellHyperLink/GetCellHyperLink", "P": "AddPictureFromBytes/GetPictures", "C": "AddComment/DeleteComment"}

func c20probe(p c20pair, s, t string) (out byte) {
	defer func() {
		if e := recover(); e != nil {
			out = 'X'
		}
	}()
	f := xl.NewFile()
	defer f.Close()
	if err := p.write(f, s); err != nil {
		return 'E'
	}
	ok, err := p.read(f, t)
	if err != nil {
		return 'E'
	}
	if ok {
		return '1'
	}
	return '0'
}

// c20paths: "every API taking a cell name treats all spellings it accepts for one cell as the same
// cell", for nine families of writer/reader pairs.
func c20paths(r *Run, s string) {
	if len(s) > 64 {
		return
	}
	col, row, err := xl.CellNameToCoordinates(s)
	op := "paths " + hx(s)
	if err != nil {
		f := xl.NewFile()
		res := "rejected"
		if f.SetCellValue("Sheet1", s, "v") == nil {
			res = "accepted-by-setter"
		}
		f.Close()
		r.Op(op, res)
		r.Case("paths:"+s, false)
		return
	}
	if row > 5000 { // a setter materialises every row up to the addressed one
		return
	}
	canon, _ := xl.CoordinatesToCellName(col, row)
	alt, _ := xl.CoordinatesToCellName(col, row, true)
	var sb strings.Builder
	type bad struct{ tag, probes string }
	var bads []bad
	for _, p := range c20pairs {
		pr := string([]byte{c20probe(p, s, s), c20probe(p, s, canon), c20probe(p, s, alt)})
		sb.WriteString(p.tag)
		sb.WriteString(pr)
		r.Stat("paths:" + p.tag + pr)
		if pr != "111" {
			bads = append(bads, bad{p.tag, pr})
		}
	}
	ln := r.Op(op, sb.String())
	r.Case("paths:"+s, true)
	for _, b := range bads {
		sig := "spell:pair:" + b.tag
		for _, p := range c20pairs {
			if p.tag == b.tag && p.sig != "" {
				sig = p.sig
			}
		}
		r.Fail(sig, fmt.Sprintf("%s: written through spelling %q (cell %s); reader called with %q / %q / %q: %s (1 = finds it, 0 = does not, E = error)", c20pairNames[b.tag], s, canon, s, canon, alt, b.probes), ln, op)
	}
}

// neighbours of the letter and digit ranges: '/' (0x2F) ':' (0x3A) '@' (0x40) '[' (0x5B) '`' (0x60) '{' (0x7B)
var c20alphaEdge = []string{"A", "Z", "a", "z", "0", "9", "$", "/", ":", "@", "[", "`", "{"}

var c20edgeNames = []string{"@1", "A@1", "@A1", "A1@", "A@", "[1", "Z[1", "A[1", "`1", "a`1", "`a1", "{1", "z{1", "A{1", "/1", "A/1", "A1/", "A/", ":1", "A:1", "A1:", "A:",
	"A0@", "A@0", "@@1", "A1@0", "A10@", "$@$1", "$A$@", "$A@1", "XFD@", "XF@1", "X@D1", "A104857@", "A10485@6", "@@@@", "AA/1", "AA:1", "A1:A", "A9:", "A:9", "A9/", "A/9"}

func c20mutateSpelling(rng *Rng, c, ro int) string {
	name, _ := xl.ColumnNumberToName(c)
	if rng.Bool() {
		name = strings.ToLower(name)
	}
	rs := fmt.Sprint(ro)
	for i := rng.Intn(3); i > 0; i-- {
		if rng.Chance(40) {
			rs = "0" + rs
		}
	}
	d1, d2 := "", ""
	if rng.Bool() {
		d1 = "$"
	}
	if rng.Bool() {
		d2 = "$"
	}
	s := d1 + name + d2 + rs
	switch rng.Intn(10) {
	case 0: // stray '$' anywhere
		i := rng.Intn(len(s) + 1)
		s = s[:i] + "$" + s[i:]
	case 1:
		s += ":" + rng.Pick([]string{"junk", "", "A1", "$", "B2:C3"})
	case 2:
		i := rng.Intn(len(s) + 1)
		s = s[:i] + rng.Pick(c20alphaEdge) + s[i:]
	case 3:
		i := rng.Intn(len(s) + 1)
		s = s[:i] + rng.Pick([]string{" ", "+", "-", ".", "!", "\x00", "é"}) + s[i:]
	}
	return s
}

func c20deepen(r *Run, rng *Rng, thorough bool) {
	// A. neighbours of the letter/digit ranges, every codec entry point
	for _, s := range c20edgeNames {
		c20c2xy(r, s)
		c20split(r, s)
		c20c2n(r, s)
		c20api(r, s)
		c20join(r, s, 1)
		c20rng(r, s+":A1")
		c20rng(r, "A1:"+s)
	}
	for _, cn := range []string{"@", "A@", "@A", "[", "A[", "`", "a`", "`a", "{", "z{", "/", "A/", ":", "A:", "A0", "0", "A$", "$A"} {
		c20c2n(r, cn)
		for _, ro := range []int{1, 1048576} {
			c20join(r, cn, ro)
		}
	}
	maxLen := 4
	if thorough {
		maxLen = 5
	}
	var rec func(prefix string, left int)
	rec = func(prefix string, left int) {
		if prefix != "" {
			c20c2xy(r, prefix)
			if len(prefix) <= 3 {
				c20c2n(r, prefix)
				c20split(r, prefix)
			}
			if len(prefix) <= 2 {
				c20api(r, prefix)
				c20join(r, prefix, 7)
			}
		}
		if left == 0 {
			return
		}
		for _, a := range c20alphaEdge {
			rec(prefix+a, left-1)
		}
	}
	rec("", maxLen)
	// B. range decoder: strict and lenient spellings, exact acceptance
	for _, s := range []string{"A1:B2", "$A$1:$B$2", "a1:b2", "A$$1:B2", "A1$:B2", "$$A1:B2", "A1:B2:junk", "A1:B2:", "A1::B2", ":A1:B2", "A1", "A1:", ":A1", ":", "",
		"A1:B2:C3:D4", "$:$", "A$1$:B2", "XFD1048576:A1", "XFE1:A1", "A1:A1048577", "A1 :B2", "A1:B2 ", "A+1:B2", "$A$1:$B$2:$C$3", "A01:B002", "A1:B", "A:B", "1:2", "A1;B2"} {
		c20rng(r, s)
	}
	// C. cell-name APIs decoding through the range decoder
	for _, p := range [][2]string{{"A$$1", "B2"}, {"D1:E2", "F9"}, {"H1", "I2:junk"}, {"$$$K$1$", "$L2$$"}, {"B2", "A1"}, {"$a$1", "b$2"}, {"A1", "A1"}, {"C3", "A1"},
		{"A1", ""}, {"", "A1"}, {"A1:", "B2"}, {"A1", ":B2"}, {"A+1", "B2"}, {"A1", "B@"}, {"XFE1", "A1"}, {"A0", "A1"}, {"a01", "B2"}, {"ı1", "B2"}} {
		c20rngapi(r, p[0], p[1])
	}
	nApi := 400
	if thorough {
		nApi = 6000
	}
	for i := 0; i < nApi; i++ {
		a := c20mutateSpelling(rng, rng.Range(1, 9), rng.Range(1, 14))
		b := c20mutateSpelling(rng, rng.Range(1, 9), rng.Range(1, 14))
		c20rngapi(r, a, b)
		if rng.Chance(50) {
			c20rng(r, a+":"+b)
		} else {
			c20rng(r, a+rng.Pick([]string{":", "::", ";", ":$", "$:"})+b)
		}
	}
	// D. writer/reader pairs
	for _, s := range []string{"b2", "B2", "$B$2", "$b$2", "B02", "b$2", "$B2", "$c$0003", "XFD1", "$xfd$2", "aa10", "A1", "$A$1", "B+2", "B2:", "@2", "ı1"} {
		c20paths(r, s)
	}
	nPaths := 120
	if thorough {
		nPaths = 2500
	}
	for i := 0; i < nPaths; i++ {
		c20paths(r, c20mutateSpelling(rng, rng.Range(1, 40), rng.Range(1, 30)))
	}
}
