//go:build verif_c20

package main

// C20, deepening round 2: the multi-range layer. Transcript ops (model: lean/XlModel/RefMulti.lean):
//   inrng <hexcell> <hexrange>   checkCellInRangeRef
//   flat <hex>                   flatSqref: cells grouped by column (columns ascending, rows in insertion order)
//   squash c,r;c,r;...           squashSqref
//   anchor <hexref,...|none> <hexcell>   mergeCellsParser on a worksheet with the given <mergeCell> references
//   overlap a b c d e f g h      isOverlap
// Direct oracles (independent of the model): a sqref denotes a set of cells (union of cells and of
// rectangles spanned by two corners, computed by the harness's own strict parser); flatSqref must
// enumerate exactly that set; squashSqref of one ascending duplicate-free column must denote the
// same set again; the anchor must not depend on the spelling of the cell.

import (
	"fmt"
	"sort"
	"strconv"
	"strings"

	xl "github.com/xuri/excelize/v2"
)

func c20cells(cells [][2]int) string {
	if len(cells) == 0 {
		return "-"
	}
	var p []string
	for _, c := range cells {
		p = append(p, fmt.Sprintf("%d,%d", c[0], c[1]))
	}
	return strings.Join(p, ";")
}

// c20specSqref: the harness's own denotation of a reference sequence, nil,false when some
// reference is neither a strict A1 cell nor a strict cell:cell range.
func c20specSqref(s string) (map[[2]int]bool, bool) {
	set := map[[2]int]bool{}
	for _, ref := range strings.Fields(s) {
		if c, r, ok := specA1(ref); ok {
			set[[2]int{c, r}] = true
			continue
		}
		q, ok := c20specRange(ref)
		if !ok {
			return nil, false
		}
		c1, r1, c2, r2 := q[0], q[1], q[2], q[3]
		if c2 < c1 {
			c1, c2 = c2, c1
		}
		if r2 < r1 {
			r1, r2 = r2, r1
		}
		if (c2-c1+1)*(r2-r1+1) > 5000 {
			return nil, false
		}
		for c := c1; c <= c2; c++ {
			for r := r1; r <= r2; r++ {
				set[[2]int{c, r}] = true
			}
		}
	}
	return set, true
}

func c20flatTooBig(s string) bool {
	for _, ref := range strings.Fields(s) {
		if q, err := xl.VerifRangeRefToCoordinates(ref); err == nil {
			_ = xl.VerifSortCoordinates(q)
			if (q[2]-q[0]+1)*(q[3]-q[1]+1) > 5000 {
				return true
			}
		}
	}
	return false
}

func c20flat(r *Run, s string) {
	if len(s) > 200 || c20flatTooBig(s) {
		return
	}
	cells, err := xl.VerifC20FlatSqref(s)
	res := "ERR"
	if err == nil {
		var cols []int
		for c := range cells {
			cols = append(cols, c)
		}
		sort.Ints(cols)
		var parts []string
		for _, c := range cols {
			var rows []string
			for _, p := range cells[c] {
				rows = append(rows, strconv.Itoa(p[1]))
			}
			parts = append(parts, strconv.Itoa(c)+":"+strings.Join(rows, ","))
		}
		res = "ok " + strings.Join(parts, ";")
		if len(parts) == 0 {
			res = "ok -"
		}
	}
	op := "flat " + hx(s)
	ln := r.Op(op, res)
	spec, strict := c20specSqref(s)
	r.Case("flat:"+s, err == nil || strict)
	switch {
	case err == nil && !strict:
		kind := "other"
		for _, ref := range strings.Fields(s) {
			if strings.Count(ref, ":") > 1 {
				kind = "skipped-multi-colon"
			}
		}
		r.Stat("flat:accept-loose:" + kind)
		r.Fail("sqref:accept-non-ref:"+kind, fmt.Sprintf("flatSqref(%q) = nil error although a reference of the sequence is neither a cell nor cell:cell (result %s)", s, res), ln, op)
	case err != nil && strict:
		r.Fail("sqref:reject-valid", fmt.Sprintf("flatSqref(%q) rejected although every reference is a cell or cell:cell inside the grid", s), ln, op)
	case err == nil:
		r.Stat("flat:accept-strict")
		got := map[[2]int]bool{}
		for c, l := range cells {
			for _, p := range l {
				if p[0] != c {
					r.Fail("sqref:wrong-column-bucket", fmt.Sprintf("flatSqref(%q): cell %v filed under column %d", s, p, c), ln, op)
				}
				got[[2]int{p[0], p[1]}] = true
			}
		}
		same := len(got) == len(spec)
		for k := range spec {
			if !got[k] {
				same = false
			}
		}
		if !same {
			r.Fail("sqref:denotation", fmt.Sprintf("flatSqref(%q) enumerates %d distinct cells, the sequence denotes %d", s, len(got), len(spec)), ln, op)
		}
	default:
		r.Stat("flat:reject")
	}
}

func c20squash(r *Run, cells [][2]int) {
	var out []string
	res := ""
	func() {
		defer func() {
			if p := recover(); p != nil {
				res = "PANIC"
			}
		}()
		out = xl.VerifC20SquashSqref(cells)
	}()
	if res == "" {
		var h []string
		for _, s := range out {
			h = append(h, hx(s))
		}
		res = strings.Join(h, ",")
		if len(h) == 0 {
			res = "-"
		}
	}
	op := "squash " + c20cells(cells)
	ln := r.Op(op, res)
	// precondition of the denotation oracle: one column, rows strictly ascending, inside the grid
	good := len(cells) > 0
	for i, c := range cells {
		if c[0] < 1 || c[0] > 16384 || c[1] < 1 || c[1] > 1048576 || c[0] != cells[0][0] || (i > 0 && c[1] <= cells[i-1][1]) {
			good = false
		}
	}
	r.Case("squash:"+op, good)
	if res == "PANIC" {
		r.Fail("squash:panic", "squashSqref panics on "+c20cells(cells), ln, op)
		return
	}
	if !good {
		r.Stat("squash:unsorted-or-mixed")
		return
	}
	r.Stat("squash:ascending-column")
	spec, ok := c20specSqref(strings.Join(out, " "))
	want := map[[2]int]bool{}
	for _, c := range cells {
		want[c] = true
	}
	same := ok && len(spec) == len(want)
	for k := range want {
		if !spec[k] {
			same = false
		}
	}
	if !same {
		r.Fail("squash:denotation", fmt.Sprintf("squashSqref(%s) = %q does not denote the same cells", c20cells(cells), out), ln, op)
	}
}

func c20inrng(r *Run, cell, rng string) {
	in, err := xl.VerifC20CheckCellInRangeRef(cell, rng)
	res := "ERR"
	if err == nil {
		res = "ok 0"
		if in {
			res = "ok 1"
		}
	}
	op := fmt.Sprintf("inrng %s %s", hx(cell), hx(rng))
	ln := r.Op(op, res)
	c, ro, okc := specA1(cell)
	q, okr := c20specRange(rng)
	r.Case("inrng:"+cell+"\x00"+rng, okc)
	if okc && okr && err == nil {
		// the rectangle is NOT sorted by checkCellInRangeRef: membership in the rectangle as written
		want := c >= q[0] && c <= q[2] && ro >= q[1] && ro <= q[3]
		if in != want {
			r.Fail("inrng:wrong", fmt.Sprintf("checkCellInRangeRef(%q,%q) = %v", cell, rng, in), ln, op)
		}
	}
	if err == nil && !okc {
		r.Fail("inrng:accept-non-a1", fmt.Sprintf("checkCellInRangeRef(%q,%q) = %v, nil: the cell is not an A1 reference", cell, rng, in), ln, op)
	}
}

func c20anchor(r *Run, refs []string, cell string) (string, string) {
	out, err := "", error(nil)
	res := ""
	func() {
		defer func() {
			if p := recover(); p != nil {
				res = "PANIC"
			}
		}()
		out, err = xl.VerifC20MergeCellsParser(refs, cell)
	}()
	if res == "" {
		res = "ERR"
		if err == nil {
			res = "ok " + hx(out)
		}
	}
	hs := "none"
	if len(refs) > 0 {
		var h []string
		for _, s := range refs {
			h = append(h, hx(s))
		}
		hs = strings.Join(h, ",")
	}
	op := fmt.Sprintf("anchor %s %s", hs, hx(cell))
	ln := r.Op(op, res)
	_, _, okc := specA1(cell)
	r.Case("anchor:"+op, okc)
	if res == "PANIC" {
		r.Fail("anchor:panic", fmt.Sprintf("mergeCellsParser(%q) with merged cells %q panics", cell, refs), ln, op)
	}
	if err == nil && !okc {
		r.Fail("anchor:accept-non-a1", fmt.Sprintf("mergeCellsParser(%q) = %q, nil", cell, out), ln, op)
	}
	return res, op
}

// every accepted spelling of one cell must be redirected to the same anchor
func c20anchorSpellings(r *Run, refs []string, c, ro int) {
	name, _ := xl.ColumnNumberToName(c)
	rs := strconv.Itoa(ro)
	first := ""
	for i, sp := range []string{name + rs, strings.ToLower(name) + rs, "$" + name + "$" + rs, "$" + strings.ToLower(name) + rs, name + "$0" + rs} {
		res, op := c20anchor(r, refs, sp)
		if i == 0 {
			first = res
		} else if res != first {
			r.Fail("anchor:spelling-dependent", fmt.Sprintf("mergeCellsParser with merged cells %q: %q -> %s but %q -> %s", refs, name+rs, first, sp, res), 0, op)
		}
	}
}

func c20randRef(rng *Rng) string {
	a := c20mutateSpelling(rng, rng.Range(1, 7), rng.Range(1, 12))
	switch rng.Intn(6) {
	case 0:
		return a
	case 1:
		return a + ":" + c20mutateSpelling(rng, rng.Range(1, 7), rng.Range(1, 12)) + ":" + a
	default:
		return a + ":" + c20mutateSpelling(rng, rng.Range(1, 7), rng.Range(1, 12))
	}
}

var c20spaces = []string{" ", " ", " ", "  ", "\t", "\n", "\v", "\f", "\r", "\u0085", "\u00a0", "\u1680", "\u2000", "\u2005", "\u200a", "\u2028", "\u2029", "\u202f", "\u205f", "\u3000",
	"\u200b", "\u00a1", "\u180e", "\xc2", "\xe2\x80", "\xa0", "\xe2\x80\x8b", ","}

func c20deepen2(r *Run, rng *Rng, thorough bool) {
	// A. flatSqref: deterministic cases, then random sequences
	for _, s := range []string{"", " ", "A1", "A1 B2", "A1:B2", "B2:A1", "A1:A3 A2:A5", "A1:B2 C3", "$A$1:$B$2 c3", "A1:B2:C3", "A1 A1:B2:C3 D4", "A1:", ":A1", "A1::B2",
		"A1\u00a0B2", "A1\u3000B2:B3", "A1\u200bB2", "A1\u2028B2\u205fC3", "A1\u1680B2", "A1\u0085B2", "A1,B2", "A1;B2", "A0", "XFE1", "A1 XFD1048576", "A1:A1", "a1:a1 A1", "A1\tB1\nC1",
		"A1 \xc2 B1", "\xe2\x80\x80A1", "A1\xe2\x80", "A1\xc2\xa0", "\xc2\xe2\x80\x80A1", "B3:A1 A1:B3"} {
		c20flat(r, s)
	}
	n := 600
	if thorough {
		n = 12000
	}
	for i := 0; i < n; i++ {
		k := rng.Range(1, 4)
		var sb strings.Builder
		for j := 0; j < k; j++ {
			if j > 0 || rng.Chance(10) {
				sb.WriteString(rng.Pick(c20spaces))
			}
			if rng.Chance(70) {
				// mostly valid
				a, _ := xl.CoordinatesToCellName(rng.Range(1, 7), rng.Range(1, 12), rng.Bool())
				b, _ := xl.CoordinatesToCellName(rng.Range(1, 7), rng.Range(1, 12), rng.Bool())
				if rng.Bool() {
					sb.WriteString(a)
				} else {
					sb.WriteString(a + ":" + b)
				}
			} else {
				sb.WriteString(c20randRef(rng))
			}
		}
		c20flat(r, sb.String())
	}
	// B. squashSqref: every ascending subset of rows 1..7 of one column (exhaustive), then boundary and unsorted inputs
	for mask := 0; mask < 128; mask++ {
		var cells [][2]int
		for b := 0; b < 7; b++ {
			if mask&(1<<b) != 0 {
				cells = append(cells, [2]int{3, b + 1})
			}
		}
		c20squash(r, cells)
	}
	for _, cells := range [][][2]int{{{1, 1048575}, {1, 1048576}}, {{16384, 1}, {16384, 3}}, {{1, 1}, {1, 1}}, {{1, 2}, {1, 1}}, {{1, 3}, {1, 1}, {1, 2}}, {{1, 1}, {2, 2}}, {{1, 1}, {2, 5}},
		{{1, 1}, {1, 2}, {1, 2}, {1, 3}}, {{0, 1}}, {{1, 0}, {1, 5}}, {{1, 1048576}, {1, 1048577}}, {{16385, 1}, {16385, 2}}, {{1, 5}, {1, 3}, {1, 1}}} {
		c20squash(r, cells)
	}
	n = 300
	if thorough {
		n = 6000
	}
	for i := 0; i < n; i++ {
		k := rng.Range(1, 9)
		var cells [][2]int
		row := rng.Range(1, 5)
		col := rng.Range(1, 4)
		for j := 0; j < k; j++ {
			cells = append(cells, [2]int{col, row})
			switch {
			case rng.Chance(80):
				row += rng.Range(1, 3)
			case rng.Chance(50):
				row -= rng.Range(0, 3)
				if row < 1 {
					row = 1
				}
			default:
				col += rng.Range(0, 1)
			}
		}
		c20squash(r, cells)
	}
	// flat -> per column squash -> flat again denotes the same cells (ascending areas)
	for i := 0; i < n; i++ {
		a, _ := xl.CoordinatesToCellName(rng.Range(1, 5), rng.Range(1, 9))
		b, _ := xl.CoordinatesToCellName(rng.Range(1, 5), rng.Range(1, 9))
		cells, err := xl.VerifC20FlatSqref(a + ":" + b)
		if err != nil {
			continue
		}
		for _, l := range cells {
			var in [][2]int
			for _, p := range l {
				in = append(in, [2]int{p[0], p[1]})
			}
			c20squash(r, in)
		}
	}
	// C. checkCellInRangeRef / isOverlap
	for _, p := range [][2]string{{"B2", "A1:C3"}, {"b2", "$a$1:$c$3"}, {"B2", "C3:A1"}, {"A1", "A1:A1"}, {"D4", "A1:C3"}, {"B2", "A1"}, {"B2", "A1:C3:D4"}, {"B2", ""}, {"B2", "A1:"},
		{"B2", "A$$1:C3"}, {"B+2", "A1:C3"}, {"", "A1:C3"}, {"XFD1048576", "A1:XFD1048576"}, {"XFE1", "A1:C3"}, {"B2", "A1:XFE3"}} {
		c20inrng(r, p[0], p[1])
	}
	n = 400
	if thorough {
		n = 8000
	}
	for i := 0; i < n; i++ {
		c20inrng(r, c20mutateSpelling(rng, rng.Range(1, 7), rng.Range(1, 12)), c20randRef(rng))
		q := [8]int{}
		for j := range q {
			q[j] = rng.Range(1, 6)
		}
		a, b := []int{q[0], q[1], q[2], q[3]}, []int{q[4], q[5], q[6], q[7]}
		_ = xl.VerifSortCoordinates(a)
		_ = xl.VerifSortCoordinates(b)
		got := xl.VerifC20IsOverlap(a, b)
		res := "0"
		if got {
			res = "1"
		}
		op := fmt.Sprintf("overlap %d %d %d %d %d %d %d %d", a[0], a[1], a[2], a[3], b[0], b[1], b[2], b[3])
		ln := r.Op(op, res)
		r.Case(op, true)
		// oracle: sorted rectangles overlap iff they share a cell
		share := false
		for c := a[0]; c <= a[2]; c++ {
			for ro := a[1]; ro <= a[3]; ro++ {
				if c >= b[0] && c <= b[2] && ro >= b[1] && ro <= b[3] {
					share = true
				}
			}
		}
		if share != got {
			r.Fail("overlap:wrong", fmt.Sprintf("isOverlap(%v,%v) = %v but the rectangles share a cell: %v", a, b, got, share), ln, op)
		}
	}
	// D. mergeCellsParser with merged cells: redirect, spelling independence, malformed merge references
	mergeSets := [][]string{nil, {"B2:C3"}, {"B2:C3", "E1:E9"}, {"C3:B2"}, {"$B$2:$C$3"}, {"b2:c3"}, {"B2"}, {""}, {"", "B2:C3"}, {"B2:C3:D4"}, {"B2:C3", "B2:D5"}, {"A1:XFD1048576"},
		{"B2:C"}, {"D4:E5", "junk"}, {"B02:C3"}, {"B2:C3 "}, {":"}, {"B2:"}}
	for _, ms := range mergeSets {
		for _, cell := range [][2]int{{2, 2}, {3, 3}, {2, 3}, {1, 1}, {4, 4}, {5, 5}} {
			c20anchorSpellings(r, ms, cell[0], cell[1])
		}
		for _, bad := range []string{"", "B", "2", "B2:C3", "B+2", "$$B2", "ı2", "XFE1", "B0"} {
			c20anchor(r, ms, bad)
		}
	}
	n = 150
	if thorough {
		n = 3000
	}
	for i := 0; i < n; i++ {
		var ms []string
		for j := rng.Range(0, 3); j > 0; j-- {
			if rng.Chance(75) {
				a, _ := xl.CoordinatesToCellName(rng.Range(1, 6), rng.Range(1, 8), rng.Chance(20))
				b, _ := xl.CoordinatesToCellName(rng.Range(1, 6), rng.Range(1, 8), rng.Chance(20))
				ms = append(ms, a+":"+b)
			} else {
				ms = append(ms, c20randRef(rng))
			}
		}
		c20anchorSpellings(r, ms, rng.Range(1, 6), rng.Range(1, 8))
	}
}

func c20replay2(r *Run, w []string) bool {
	switch w[0] {
	case "flat":
		c20flat(r, unhx(w[1]))
	case "inrng":
		c20inrng(r, unhx(w[1]), unhx(w[2]))
	case "squash":
		var cells [][2]int
		if w[1] != "-" {
			for _, t := range strings.Split(w[1], ";") {
				p := strings.Split(t, ",")
				a, _ := strconv.Atoi(p[0])
				b, _ := strconv.Atoi(p[1])
				cells = append(cells, [2]int{a, b})
			}
		}
		c20squash(r, cells)
	case "anchor":
		var refs []string
		if w[1] != "none" {
			for _, h := range strings.Split(w[1], ",") {
				refs = append(refs, unhx(h))
			}
		}
		c20anchor(r, refs, unhx(w[2]))
	case "opt":
		for _, k := range c20optKinds {
			if k.name == w[1] {
				c20opt(r, k, unhx(w[2]))
			}
		}
	case "pathsx":
		var ms []string
		if w[1] != "none" {
			for _, h := range strings.Split(w[1], ",") {
				ms = append(ms, unhx(h))
			}
		}
		c20pathsx(r, ms, unhx(w[2]))
	case "cfref":
		c20cfref(r, unhx(w[1]))
	case "swmerge":
		c20swmerge(r, unhx(w[1]), unhx(w[2]))
	case "cfpair":
		c20cfpair(r, unhx(w[1]), unhx(w[2]))
	case "colrng":
		c20colrng(r, unhx(w[1]))
	case "colw":
		c20colw(r, unhx(w[1]), unhx(w[2]))
	case "pathsm":
		var ms [][4]int
		if w[1] != "none" {
			for _, h := range strings.Split(w[1], ",") {
				q, err := xl.VerifRangeRefToCoordinates(unhx(h))
				if err == nil {
					ms = append(ms, [4]int{q[0], q[1], q[2], q[3]})
				}
			}
		}
		c20pathsm(r, ms, unhx(w[2]))
	default:
		return false
	}
	return true
}
