//go:build verif_c20

package main

// C20, second fix window / round 2 continued. Transcript ops (model: lean/XlModel/RefMulti.lean):
//   colrng <hex>          parseColRange through SetColVisible (and SetColStyle): "ok lo hi" = the hidden columns
//   colw <hexa> <hexb>    SetColWidth(sheet, a, b, w): the columns whose width changed
//   pathsm <refs> <hex>   lookup paths on a sheet WITH (well-formed, pairwise disjoint) merged cells:
//                         P = physical cell SetCellValue(s) writes, G = cell GetCellValue(s) reads,
//                         H = key SetCellHyperLink(s) stores the link under

import (
	"fmt"
	"regexp"
	"strings"

	xl "github.com/xuri/excelize/v2"
)

var c20colRe = regexp.MustCompile(`^([A-Za-z]{1,3})(?::([A-Za-z]{1,3}))?$`)

func c20colNum(s string) (int, bool) {
	n := 0
	for _, ch := range strings.ToUpper(s) {
		n = n*26 + int(ch-'A'+1)
	}
	return n, n >= 1 && n <= 16384
}

// c20specColRange: the harness's own strict reading of a column range
func c20specColRange(s string) (int, int, bool) {
	m := c20colRe.FindStringSubmatch(s)
	if m == nil {
		return 0, 0, false
	}
	lo, ok := c20colNum(m[1])
	if !ok {
		return 0, 0, false
	}
	hi := lo
	if m[2] != "" {
		if hi, ok = c20colNum(m[2]); !ok {
			return 0, 0, false
		}
	}
	if hi < lo {
		lo, hi = hi, lo
	}
	return lo, hi, true
}

// c20colSpan finds the columns for which changed() holds, probing the expected span and its
// neighbours; when the API accepted something the strict reading rejects it scans every column.
func c20colSpan(lo, hi int, strict bool, changed func(col int) bool) (int, int, bool) {
	var cand []int
	if strict {
		cand = []int{1, lo - 1, lo, lo + 1, (lo + hi) / 2, hi - 1, hi, hi + 1, 16384}
	} else {
		for c := 1; c <= 16384; c++ {
			cand = append(cand, c)
		}
	}
	a, b, any := 0, 0, false
	for _, c := range cand {
		if c < 1 || c > 16384 || !changed(c) {
			continue
		}
		if !any || c < a {
			a = c
		}
		if !any || c > b {
			b = c
		}
		any = true
	}
	return a, b, any
}

func c20colrng(r *Run, s string) {
	if len(s) > 40 {
		return
	}
	lo, hi, strict := c20specColRange(s)
	f := xl.NewFile()
	defer f.Close()
	res := "ERR"
	op := "colrng " + hx(s)
	if err := f.SetColVisible("Sheet1", s, false); err == nil {
		a, b, any := c20colSpan(lo, hi, strict, func(c int) bool {
			n, _ := xl.ColumnNumberToName(c)
			v, _ := f.GetColVisible("Sheet1", n)
			return !v
		})
		res = fmt.Sprintf("ok %d %d", a, b)
		if !any {
			res = "ok none"
		}
		// SetColStyle goes through the same parser: same acceptance
		g := xl.NewFile()
		st, _ := g.NewStyle(&xl.Style{Font: &xl.Font{Bold: true}})
		if e2 := g.SetColStyle("Sheet1", s, st); e2 != nil {
			r.Fail("colrange:setcolstyle-differs", fmt.Sprintf("SetColVisible(%q) accepted, SetColStyle(%q) = %v", s, s, e2), 0, op)
		}
		g.Close()
	}
	ln := r.Op(op, res)
	r.Case("colrng:"+s, strict || res != "ERR")
	switch {
	case res != "ERR" && !strict:
		kind := "other"
		if strings.Count(s, ":") > 1 {
			kind = "extra-part"
		}
		r.Stat("colrng:accept-loose:" + kind)
		r.Fail("colrange:accept-"+kind, fmt.Sprintf("SetColVisible(\"Sheet1\", %q, false) = nil (hidden columns: %s) although %q is not COLUMN or COLUMN:COLUMN", s, res, s), ln, op)
	case res == "ERR" && strict:
		r.Fail("colrange:reject-valid", fmt.Sprintf("SetColVisible(%q) rejected", s), ln, op)
	case strict:
		r.Stat("colrng:accept")
		if want := fmt.Sprintf("ok %d %d", lo, hi); res != want {
			r.Fail("colrange:wrong-span", fmt.Sprintf("SetColVisible(%q) hides %s, want %s", s, res, want), ln, op)
		}
	default:
		r.Stat("colrng:reject")
	}
}

func c20colw(r *Run, a, b string) {
	if len(a)+len(b) > 40 {
		return
	}
	lo, hi, strict := c20specColRange(a + ":" + b)
	if strings.Contains(a, ":") || strings.Contains(b, ":") {
		strict = false
	}
	f := xl.NewFile()
	defer f.Close()
	res := "ERR"
	op := fmt.Sprintf("colw %s %s", hx(a), hx(b))
	if err := f.SetColWidth("Sheet1", a, b, 33); err == nil {
		x, y, any := c20colSpan(lo, hi, strict, func(c int) bool {
			n, _ := xl.ColumnNumberToName(c)
			w, _ := f.GetColWidth("Sheet1", n)
			return w == 33
		})
		res = fmt.Sprintf("ok %d %d", x, y)
		if !any {
			res = "ok none"
		}
	}
	ln := r.Op(op, res)
	r.Case("colw:"+a+"\x00"+b, strict || res != "ERR")
	switch {
	case res != "ERR" && !strict:
		kind := "other"
		if strings.Count(a+":"+b, ":") > 1 {
			kind = "extra-part"
		}
		r.Fail("colrange:accept-"+kind, fmt.Sprintf("SetColWidth(\"Sheet1\", %q, %q, 33) = nil (columns changed: %s) although the arguments are not two column names", a, b, res), ln, op)
	case res == "ERR" && strict:
		r.Fail("colrange:reject-valid", fmt.Sprintf("SetColWidth(%q,%q) rejected", a, b), ln, op)
	case strict:
		if want := fmt.Sprintf("ok %d %d", lo, hi); res != want {
			r.Fail("colrange:wrong-span", fmt.Sprintf("SetColWidth(%q,%q) changes %s, want %s", a, b, res, want), ln, op)
		}
	}
}

const c20gridC, c20gridR = 6, 8

func c20mergedFile(merges [][4]int) (*xl.File, []string) {
	f := xl.NewFile()
	var refs []string
	for _, m := range merges {
		a, _ := xl.CoordinatesToCellName(m[0], m[1])
		b, _ := xl.CoordinatesToCellName(m[2], m[3])
		_ = f.MergeCell("Sheet1", a, b)
		refs = append(refs, a+":"+b)
	}
	return f, refs
}

// c20pathsm: where do the paths land on a sheet with merged cells? merges are sorted, inside the
// 6x8 grid and pairwise disjoint (what MergeCell + Excel produce).
func c20pathsm(r *Run, merges [][4]int, s string) {
	col, row, err := xl.CellNameToCoordinates(s)
	if err == nil && (col > c20gridC || row > c20gridR) {
		return
	}
	key := func(v string) string {
		if v == "" {
			return "-"
		}
		return hx(v)
	}
	// P: the physical cell SetCellValue writes
	f, refs := c20mergedFile(merges)
	P := "ERR"
	if e := f.SetCellValue("Sheet1", s, "v"); e == nil {
		P = "?"
		rows, _ := f.GetRows("Sheet1")
		for ri, rw := range rows {
			for ci, v := range rw {
				if v == "v" {
					n, _ := xl.CoordinatesToCellName(ci+1, ri+1)
					P = key(n)
				}
			}
		}
	}
	f.Close()
	// G: every unmerged cell and every anchor holds its own name; GetCellValue(s) names the cell it read
	g, _ := c20mergedFile(merges)
	anchor := map[string]bool{}
	for _, m := range merges {
		n, _ := xl.CoordinatesToCellName(m[0], m[1])
		anchor[n] = true
	}
	for pass := 0; pass < 2; pass++ {
		for c := 1; c <= c20gridC; c++ {
			for ro := 1; ro <= c20gridR; ro++ {
				n, _ := xl.CoordinatesToCellName(c, ro)
				if pass == 0 || anchor[n] {
					_ = g.SetCellValue("Sheet1", n, n)
				}
			}
		}
	}
	G := "ERR"
	if v, e := g.GetCellValue("Sheet1", s); e == nil {
		G = key(v)
	}
	g.Close()
	// H: the first cell (row-major) through which the link set via s is found = the stored key
	h, _ := c20mergedFile(merges)
	H := "ERR"
	if e := h.SetCellHyperLink("Sheet1", s, "https://example.com", "External"); e == nil {
		H = "?"
	outer:
		for ro := 1; ro <= c20gridR; ro++ {
			for c := 1; c <= c20gridC; c++ {
				n, _ := xl.CoordinatesToCellName(c, ro)
				if ok, _, _ := h.GetCellHyperLink("Sheet1", n); ok {
					H = key(n)
					break outer
				}
			}
		}
	}
	h.Close()
	hs := "none"
	if len(refs) > 0 {
		var q []string
		for _, x := range refs {
			q = append(q, hx(x))
		}
		hs = strings.Join(q, ",")
	}
	op := fmt.Sprintf("pathsm %s %s", hs, hx(s))
	res := "P=" + P + " G=" + G + " H=" + H
	ln := r.Op(op, res)
	r.Case(op, err == nil)
	// direct oracle: the top-left cell of the merged range containing the cell, else the cell itself
	if err == nil {
		want, _ := xl.CoordinatesToCellName(col, row)
		for _, m := range merges {
			if col >= m[0] && col <= m[2] && row >= m[1] && row <= m[3] {
				want, _ = xl.CoordinatesToCellName(m[0], m[1])
				break
			}
		}
		if w := "P=" + hx(want) + " G=" + hx(want) + " H=" + hx(want); res != w {
			r.Fail("pathsm:not-top-left", fmt.Sprintf("merged cells %v, spelling %q: paths land on %s, want %s everywhere", refs, s, res, want), ln, op)
		}
	} else if res != "P=ERR G=ERR H=ERR" {
		r.Fail("pathsm:accept-non-a1", fmt.Sprintf("merged cells %v, %q: %s", refs, s, res), ln, op)
	}
}

func c20disjointMerges(rng *Rng) [][4]int {
	var out [][4]int
	for tries := rng.Range(0, 4); tries > 0; tries-- {
		c1, r1 := rng.Range(1, c20gridC), rng.Range(1, c20gridR)
		c2, r2 := c1+rng.Range(0, 2), r1+rng.Range(0, 3)
		if c2 > c20gridC {
			c2 = c20gridC
		}
		if r2 > c20gridR {
			r2 = c20gridR
		}
		if c1 == c2 && r1 == r2 {
			continue
		}
		ok := true
		for _, m := range out {
			if c1 <= m[2] && m[0] <= c2 && r1 <= m[3] && m[1] <= r2 {
				ok = false
			}
		}
		if ok {
			out = append(out, [4]int{c1, r1, c2, r2})
		}
	}
	return out
}

func c20deepen3(r *Run, rng *Rng, thorough bool) {
	for _, s := range []string{"A", "a", "XFD", "xfd", "XFE", "A:C", "C:A", "c:a", "A:A", "A:XFD", "XFC:XFD", "A:XFE", "A:C:junk", "B:D:F", "A:B:", "A::B", ":A", "A:", ":", "", "$A:$B", "A1:B1", "A:1", "A B", "A:B ", "AAAA", "A:AAAA", "@:A", "A:[", "ZZ:AAA"} {
		c20colrng(r, s)
	}
	for _, p := range [][2]string{{"A", "C"}, {"C", "A"}, {"a", "xfd"}, {"A:B", "C"}, {"A", "B:C"}, {"A", ""}, {"", "A"}, {"A", "XFE"}, {"$A", "B"}, {"A1", "B1"}, {"XFD", "XFD"}} {
		c20colw(r, p[0], p[1])
	}
	n := 250
	if thorough {
		n = 5000
	}
	for i := 0; i < n; i++ {
		mk := func() string {
			c := rng.Pick2([]int{1, 2, 26, 27, 702, 703, 16383, 16384, 16385, rng.Range(1, 16384)})
			s, err := xl.ColumnNumberToName(c)
			if err != nil {
				s = "XFE"
			}
			if rng.Bool() {
				s = strings.ToLower(s)
			}
			if rng.Chance(12) {
				i := rng.Intn(len(s) + 1)
				s = s[:i] + rng.Pick([]string{"$", "1", " ", ":", "@", "[", "é"}) + s[i:]
			}
			return s
		}
		a, b := mk(), mk()
		switch rng.Intn(4) {
		case 0:
			c20colrng(r, a)
		case 1:
			c20colrng(r, a+":"+b+rng.Pick([]string{"", "", "", ":", ":" + mk()}))
		default:
			c20colw(r, a, b)
		}
	}
	// lookup paths on sheets with merged cells
	fixed := [][][4]int{nil, {{2, 2, 3, 3}}, {{2, 2, 3, 3}, {5, 1, 5, 8}}, {{1, 1, 6, 8}}, {{1, 1, 1, 2}, {2, 1, 2, 2}, {3, 3, 4, 3}}}
	for _, ms := range fixed {
		for _, cell := range [][2]int{{2, 2}, {3, 3}, {2, 3}, {1, 1}, {4, 4}, {5, 5}, {6, 8}} {
			name, _ := xl.ColumnNumberToName(cell[0])
			rs := fmt.Sprint(cell[1])
			for _, sp := range []string{name + rs, strings.ToLower(name) + rs, "$" + name + "$" + rs, name + "0" + rs} {
				c20pathsm(r, ms, sp)
			}
		}
		for _, bad := range []string{"", "B+2", "B2:C3", "$$B2"} {
			c20pathsm(r, ms, bad)
		}
	}
	n = 60
	if thorough {
		n = 1500
	}
	for i := 0; i < n; i++ {
		c20pathsm(r, c20disjointMerges(rng), c20mutateSpelling(rng, rng.Range(1, c20gridC), rng.Range(1, c20gridR)))
	}
}
