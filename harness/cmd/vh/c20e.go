//go:build verif_c20

package main

// C20, deepening round 3: references inside option structs and the remaining cell/range taking
// functions. Transcript ops (model: lean/XlModel/RefOpts.lean):
//   opt <kind> <hex>        does the API accept the string for that field / argument? A / R
//   cfpair <hexa> <hexb>    SetConditionalFormat(a) then UnsetConditionalFormat(b): removed? 1 / 0
// Direct oracle: an accepted string must be a reference of the kind the field holds (harness-side
// strict grammars); a strict reference must be accepted.

import (
	"fmt"
	"strings"

	xl "github.com/xuri/excelize/v2"
)

type c20optKind struct {
	name  string
	call  func(f *xl.File, s string) error
	valid func(s string) bool
}

func c20isCell(s string) bool { _, _, ok := specA1(s); return ok }

func c20isSqref(s string) bool {
	if len(strings.Fields(s)) == 0 {
		return false
	}
	for _, ref := range strings.Fields(s) {
		if !c20isCell(ref) {
			if _, ok := c20specRange(ref); !ok {
				return false
			}
		}
	}
	return true
}

func c20isPivotRange(s string) bool {
	p := strings.Split(s, "!")
	if len(p) != 2 {
		return false
	}
	q, ok := c20specRange(p[1])
	return ok && !(q[0] == q[2] && q[1] == q[3])
}

// every cell of A1:L16 holds text, so that any small data range has a complete header row and the
// only 'DataRange' parsing errors left are those of the reference itself
func c20pivotFile() *xl.File {
	f := xl.NewFile()
	for r := 1; r <= 16; r++ {
		row := []interface{}{}
		for c := 1; c <= 12; c++ {
			row = append(row, fmt.Sprintf("h%d_%d", c, r))
		}
		_ = f.SetSheetRow("Sheet1", fmt.Sprintf("A%d", r), &row)
	}
	return f
}

func c20pivotErr(err error, field string) error {
	if err != nil && strings.Contains(err.Error(), "'"+field+"' parsing error") {
		return err
	}
	return nil
}

var c20optKinds = []c20optKind{
	{"shape", func(f *xl.File, s string) error { return f.AddShape("Sheet1", &xl.Shape{Cell: s, Type: "rect"}) }, c20isCell},
	{"slicer", func(f *xl.File, s string) error {
		_ = f.SetSheetRow("Sheet1", "A1", &[]string{"Col1", "Col2"})
		if err := f.AddTable("Sheet1", &xl.Table{Range: "A1:B3", Name: "T1"}); err != nil {
			panic(err)
		}
		return f.AddSlicer("Sheet1", &xl.SlicerOptions{Name: "Col1", Cell: s, TableSheet: "Sheet1", TableName: "T1"})
	}, c20isCell},
	{"formctl", func(f *xl.File, s string) error {
		return f.AddFormControl("Sheet1", xl.FormControl{Cell: s, Type: xl.FormControlButton})
	}, c20isCell},
	{"formlinkspin", func(f *xl.File, s string) error {
		return f.AddFormControl("Sheet1", xl.FormControl{Cell: "A1", Type: xl.FormControlSpinButton, CellLink: s})
	}, func(s string) bool { return s == "" || c20isCell(s) }},
	{"formlinkcheck", func(f *xl.File, s string) error {
		return f.AddFormControl("Sheet1", xl.FormControl{Cell: "A1", Type: xl.FormControlCheckBox, CellLink: s})
	}, func(s string) bool { return s == "" || c20isCell(s) }},
	{"pagebreak", func(f *xl.File, s string) error { return f.InsertPageBreak("Sheet1", s) }, c20isCell},
	{"sheetrow2", func(f *xl.File, s string) error { return f.SetSheetRow("Sheet1", s, &[]int{1, 2}) },
		func(s string) bool { c, _, ok := specA1(s); return ok && c+1 <= 16384 }},
	{"table", func(f *xl.File, s string) error { return f.AddTable("Sheet1", &xl.Table{Range: s}) },
		func(s string) bool { _, ok := c20specRange(s); return ok }},
	{"pivotdata", func(f *xl.File, s string) error {
		return c20pivotErr(f.AddPivotTable(&xl.PivotTableOptions{DataRange: s, PivotTableRange: "Sheet1!N2:T34"}), "DataRange")
	}, c20isPivotRange},
	{"pivotloc", func(f *xl.File, s string) error {
		return c20pivotErr(f.AddPivotTable(&xl.PivotTableOptions{DataRange: "Sheet1!A1:C4", PivotTableRange: s}), "PivotTableRange")
	}, c20isPivotRange},
	{"dvsqref", func(f *xl.File, s string) error {
		dv := xl.NewDataValidation(true)
		dv.Sqref = s
		return f.AddDataValidation("Sheet1", dv)
	}, c20isSqref},
	{"sparkloc", func(f *xl.File, s string) error {
		return f.AddSparkline("Sheet1", &xl.SparklineOptions{Location: []string{s}, Range: []string{"Sheet1!A1:B1"}})
	}, c20isCell},
	{"sparkrng", func(f *xl.File, s string) error {
		return f.AddSparkline("Sheet1", &xl.SparklineOptions{Location: []string{"C1"}, Range: []string{s}})
	}, func(s string) bool {
		if i := strings.LastIndex(s, "!"); i > 0 {
			s = s[i+1:]
		}
		_, ok := c20specRange(s)
		return ok || c20isCell(s)
	}},
	{"panestl", func(f *xl.File, s string) error {
		return f.SetPanes("Sheet1", &xl.Panes{Freeze: true, XSplit: 1, YSplit: 1, TopLeftCell: s, ActivePane: "bottomRight"})
	}, func(s string) bool { return s == "" || c20isCell(s) }},
	{"panesactive", func(f *xl.File, s string) error {
		return f.SetPanes("Sheet1", &xl.Panes{Freeze: true, XSplit: 1, YSplit: 1, TopLeftCell: "B2", ActivePane: "bottomRight",
			Selection: []xl.Selection{{SQRef: "B2", ActiveCell: s, Pane: "bottomRight"}}})
	}, func(s string) bool { return s == "" || c20isCell(s) }},
	{"panessqref", func(f *xl.File, s string) error {
		return f.SetPanes("Sheet1", &xl.Panes{Freeze: true, XSplit: 1, YSplit: 1, TopLeftCell: "B2", ActivePane: "bottomRight",
			Selection: []xl.Selection{{SQRef: s, ActiveCell: "B2", Pane: "bottomRight"}}})
	}, func(s string) bool { return s == "" || c20isSqref(s) }},
	{"ignored", func(f *xl.File, s string) error { return f.AddIgnoredErrors("Sheet1", s, xl.IgnoredErrorsEvalError) }, c20isSqref},
}

// keep the sheet small: the drawing / table / setter paths materialise rows and columns
func c20optTooBig(s string) bool {
	for _, part := range strings.FieldsFunc(s, func(r rune) bool { return r == ':' || r == ' ' || r == '!' }) {
		if c, r, err := xl.CellNameToCoordinates(strings.ReplaceAll(part, "$", "")); err == nil && (c > 60 || r > 400) {
			return true
		}
	}
	return false
}

func c20opt(r *Run, k c20optKind, s string) {
	if len(s) > 60 || c20optTooBig(s) {
		return
	}
	if k.name == "pivotdata" { // the data range must lie inside the populated block
		for _, part := range strings.FieldsFunc(s, func(r rune) bool { return r == ':' || r == '!' }) {
			if c, ro, err := xl.CellNameToCoordinates(strings.ReplaceAll(part, "$", "")); err == nil && (c > 12 || ro > 16) {
				return
			}
		}
	}
	res := "R"
	func() {
		defer func() {
			if p := recover(); p != nil {
				res = "PANIC"
			}
		}()
		var f *xl.File
		if strings.HasPrefix(k.name, "pivot") {
			f = c20pivotFile()
		} else {
			f = xl.NewFile()
		}
		defer f.Close()
		if k.call(f, s) == nil {
			res = "A"
		}
	}()
	op := fmt.Sprintf("opt %s %s", k.name, hx(s))
	ln := r.Op(op, res)
	valid := k.valid(s)
	r.Case(op, valid || res == "A")
	r.Stat("opt:" + k.name + ":" + res)
	switch {
	case res == "PANIC":
		r.Fail("optref:panic:"+k.name, fmt.Sprintf("%s with %q panics", k.name, s), ln, op)
	case res == "A" && !valid:
		r.Fail("optref:accept-non-ref:"+k.name, fmt.Sprintf("%s: %q is accepted (nil error) although it is not a reference of the kind this field holds", k.name, s), ln, op)
	case res == "R" && valid:
		r.Fail("optref:reject-valid:"+k.name, fmt.Sprintf("%s: the valid reference %q is rejected", k.name, s), ln, op)
	}
}

func c20cfpair(r *Run, a, b string) {
	f := xl.NewFile()
	defer f.Close()
	st, _ := f.NewStyle(&xl.Style{Font: &xl.Font{Bold: true}})
	res := "none"
	if err := f.SetConditionalFormat("Sheet1", a, []xl.ConditionalFormatOptions{{Type: "cell", Criteria: ">", Value: "1", Format: &st}}); err == nil {
		_ = f.UnsetConditionalFormat("Sheet1", b)
		cf, _ := f.GetConditionalFormats("Sheet1")
		res = "0"
		if len(cf) == 0 {
			res = "1"
		}
	}
	op := fmt.Sprintf("cfpair %s %s", hx(a), hx(b))
	ln := r.Op(op, res)
	qa, oka := c20specRange(a)
	qb, okb := c20specRange(b)
	r.Case(op, oka)
	if oka && okb && qa == qb && res != "1" {
		r.Fail("optref:spelling:unset-conditional-format", fmt.Sprintf("SetConditionalFormat(\"Sheet1\", %q, …) then UnsetConditionalFormat(\"Sheet1\", %q) = nil but the format stays: the same range in another accepted spelling is not found", a, b), ln, op)
	}
}

func c20deepen4(r *Run, rng *Rng, thorough bool) {
	fixed := []string{"", "A1", "a1", "$B$2", "B02", "A1:B2", "b2:a1", "$A$1:$B$2", "A1 C3", "A1:A3 C1:C2", "junk", "A$$1", "A1:B2:C3", "XFE1", "A0", "A+1", "XFD1", "A1:A1", " ", "A1 ",
		"Sheet1!A1:C4", "Sheet1!A$$1:C4", "Sheet1!$$A1:$C4$", "Sheet1!$A$1:$C$4", "Sheet1!a1:c4", "Sheet1!A1:C4:D5", "Sheet1!A1", "Sheet1!A1:A1", "Sheet1!C4:A1", "A1:C4", "!A1:C4", "Sheet1!!A1:C4", "Sheet1!", "Sheet1!junk"}
	for _, k := range c20optKinds {
		for _, s := range fixed {
			c20opt(r, k, s)
		}
	}
	n := 25
	if thorough {
		n = 400
	}
	for _, k := range c20optKinds {
		for i := 0; i < n; i++ {
			var s string
			switch {
			case strings.HasPrefix(k.name, "pivot"):
				s = rng.Pick([]string{"Sheet1!", "Sheet1!", "Sheet1!", "", "S!h!", "'Sheet1'!"}) + c20randRef(rng)
			case rng.Chance(50):
				s = c20mutateSpelling(rng, rng.Range(1, 9), rng.Range(1, 14))
			default:
				s = c20randRef(rng)
				if rng.Chance(30) {
					s += " " + c20randRef(rng)
				}
			}
			c20opt(r, k, s)
		}
	}
	// SetConditionalFormat / UnsetConditionalFormat on spellings of one range
	sp := func(c, ro int, v int) string {
		name, _ := xl.ColumnNumberToName(c)
		switch v {
		case 1:
			return strings.ToLower(name) + fmt.Sprint(ro)
		case 2:
			return "$" + name + "$" + fmt.Sprint(ro)
		case 3:
			return name + "0" + fmt.Sprint(ro)
		}
		return name + fmt.Sprint(ro)
	}
	n = 40
	if thorough {
		n = 800
	}
	for i := 0; i < n; i++ {
		c1, r1, c2, r2 := rng.Range(1, 6), rng.Range(1, 9), rng.Range(1, 6), rng.Range(1, 9)
		a := sp(c1, r1, rng.Intn(4)) + ":" + sp(c2, r2, rng.Intn(4))
		b := sp(c1, r1, rng.Intn(4)) + ":" + sp(c2, r2, rng.Intn(4))
		if rng.Chance(15) {
			b = sp(c2, r2, 0) + ":" + sp(c1, r1, 0)
		}
		c20cfpair(r, a, b)
	}
	for _, p := range [][2]string{{"A1:B2", "A1:B2"}, {"a1:b2", "a1:b2"}, {"a1:b2", "A1:B2"}, {"$A$1:$B$2", "$A$1:$B$2"}, {"A1:B2", "$A$1:$B$2"}, {"B2:A1", "A1:B2"}, {"B2:A1", "B2:A1"}} {
		c20cfpair(r, p[0], p[1])
	}
}
