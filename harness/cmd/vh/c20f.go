//go:build verif_c20

package main

// C20, deepening round 4. Transcript ops (model: lean/XlModel/RefCF.lean, RefOpts.lean):
//   cfref <hex>           SetConditionalFormat(sheet, ref, …): the sqref it stores (prepareConditionalFormatRange / parseRef)
//   swmerge <hexa> <hexb> StreamWriter.MergeCell(a, b): A / R
//   opt sheetcol2 | streamsetrow | streampagebreak | calccell <hex>

import (
	"fmt"
	"regexp"
	"strings"

	xl "github.com/xuri/excelize/v2"
)

func init() {
	c20optKinds = append(c20optKinds,
		c20optKind{"sheetcol2", func(f *xl.File, s string) error { return f.SetSheetCol("Sheet1", s, &[]int{1, 2}) },
			func(s string) bool { _, r, ok := specA1(s); return ok && r+1 <= 1048576 }},
		c20optKind{"streamsetrow", func(f *xl.File, s string) error {
			sw, err := f.NewStreamWriter("Sheet1")
			if err != nil {
				panic(err)
			}
			return sw.SetRow(s, []interface{}{1, 2})
		}, func(s string) bool { c, _, ok := specA1(s); return ok && c+1 <= 16384 }},
		c20optKind{"streampagebreak", func(f *xl.File, s string) error {
			sw, err := f.NewStreamWriter("Sheet1")
			if err != nil {
				panic(err)
			}
			return sw.InsertPageBreak(s)
		}, c20isCell},
		c20optKind{"calccell", func(f *xl.File, s string) error {
			_, err := f.CalcCellValue("Sheet1", s)
			return err
		}, c20isCell},
	)
}

var (
	c20cfCell = `\$?[A-Za-z]{1,3}\$?[0-9]+`
	c20cfArea = regexp.MustCompile(`^(?:(` + c20cfCell + `)(?::(` + c20cfCell + `))?|([A-Za-z]{1,3}):([A-Za-z]{1,3})|([0-9]+):([0-9]+))$`)
)

// c20cfValid: the harness's own reading of a conditional-format reference: areas separated by one
// space or comma; an area is CELL, CELL:CELL, COLUMN:COLUMN or ROW:ROW inside the grid.
func c20cfValid(s string) bool {
	if s == "" {
		return false
	}
	for _, area := range strings.Split(strings.ReplaceAll(s, ",", " "), " ") {
		m := c20cfArea.FindStringSubmatch(area)
		if m == nil {
			return false
		}
		switch {
		case m[1] != "":
			if !c20isCell(m[1]) || (m[2] != "" && !c20isCell(m[2])) {
				return false
			}
		case m[3] != "":
			if _, ok := c20colNum(m[3]); !ok {
				return false
			}
			if _, ok := c20colNum(m[4]); !ok {
				return false
			}
		default:
			for _, d := range []string{m[5], m[6]} {
				d = strings.TrimLeft(d, "0")
				if d == "" || len(d) > 7 || (len(d) == 7 && d > "1048576") {
					return false
				}
			}
		}
	}
	return true
}

func c20cfKind(s string) string {
	switch {
	case strings.Contains(s, "!"):
		return "sheet-prefix"
	case strings.ContainsAny(s, "+-"):
		return "signed-row"
	}
	single := regexp.MustCompile(`^([A-Za-z]{1,3}|[0-9]+)$`)
	mixed := false
	for _, area := range strings.Split(strings.ReplaceAll(s, ",", " "), " ") {
		if single.MatchString(area) {
			return "lone-column-or-row"
		}
		if c20cfArea.FindStringSubmatch(area) == nil {
			mixed = true
		}
	}
	if mixed {
		return "mixed-parts"
	}
	return "other"
}

func c20cfref(r *Run, s string) {
	if len(s) > 60 {
		return
	}
	f := xl.NewFile()
	defer f.Close()
	st, _ := f.NewStyle(&xl.Style{Font: &xl.Font{Bold: true}})
	res := "ERR"
	stored := ""
	if err := f.SetConditionalFormat("Sheet1", s, []xl.ConditionalFormatOptions{{Type: "cell", Criteria: ">", Value: "1", Format: &st}}); err == nil {
		cf, _ := f.GetConditionalFormats("Sheet1")
		res = fmt.Sprintf("ok ?%d", len(cf))
		for k := range cf {
			stored = k
			res = "ok " + hx(k)
		}
	}
	op := "cfref " + hx(s)
	ln := r.Op(op, res)
	valid := c20cfValid(s)
	r.Case(op, valid || res != "ERR")
	switch {
	case res != "ERR" && !valid:
		r.Stat("cfref:accept-loose:" + c20cfKind(s))
		r.Fail("cfref:accept-non-ref:"+c20cfKind(s), fmt.Sprintf("SetConditionalFormat(\"Sheet1\", %q, …) = nil and stores sqref %q although %q is not a list of CELL, CELL:CELL, COLUMN:COLUMN or ROW:ROW areas", s, stored, s), ln, op)
	case res == "ERR" && valid:
		r.Fail("cfref:reject-valid", fmt.Sprintf("SetConditionalFormat(%q) rejected", s), ln, op)
	case valid:
		r.Stat("cfref:accept")
		// whatever is stored must itself be a strict reference sequence (cells and cell:cell ranges)
		if !c20isSqref(stored) {
			r.Fail("cfref:stored-not-sqref", fmt.Sprintf("SetConditionalFormat(%q) stores %q", s, stored), ln, op)
		}
	default:
		r.Stat("cfref:reject")
	}
}

func c20swmerge(r *Run, a, b string) {
	f := xl.NewFile()
	defer f.Close()
	sw, err := f.NewStreamWriter("Sheet1")
	if err != nil {
		panic(err)
	}
	res := "R"
	if sw.MergeCell(a, b) == nil {
		res = "A"
	}
	op := fmt.Sprintf("swmerge %s %s", hx(a), hx(b))
	ln := r.Op(op, res)
	ok := c20isCell(a) && c20isCell(b)
	r.Case(op, ok || res == "A")
	if res == "A" && !ok {
		r.Fail("optref:accept-non-ref:streammerge", fmt.Sprintf("StreamWriter.MergeCell(%q,%q) = nil", a, b), ln, op)
	}
	if res == "R" && ok {
		r.Fail("optref:reject-valid:streammerge", fmt.Sprintf("StreamWriter.MergeCell(%q,%q) rejected", a, b), ln, op)
	}
}

func c20deepen5(r *Run, rng *Rng, thorough bool) {
	for _, s := range []string{"A1:B2", "A:C", "C:A", "A", "5", "2:5", "5:2", "+5", "-5", "+1:+3", "A:5", "5:A", "A1:C", "C:A1", "A1:5", "Other!A1:B2", "Sheet1!A1", "a!b!A1", "!A1", "A1!", "A1,C3", "A1 C3", "A1  C3", "A1, C3",
		"A1:B2:C3", "", " ", ",", "A1:", ":A1", "$A:$C", "$A$1:$B$2", "0", "1048576", "1048577", "01", "XFD", "XFE", "a1:b02", "A1;B2", "xfd1048576", "A1:XFD1048576", "A:XFD", "1:1048576", "A1 B:C 3:4", "a:c,2:5", "A0", "A1:B0", "9223372036854775807", "1e3", "0x5"} {
		c20cfref(r, s)
	}
	n := 300
	if thorough {
		n = 6000
	}
	part := func() string {
		switch rng.Intn(6) {
		case 0:
			s, _ := xl.ColumnNumberToName(rng.Pick2([]int{1, 3, 26, 27, 16384, 16385}))
			if rng.Bool() {
				s = strings.ToLower(s)
			}
			return s
		case 1:
			return rng.Pick([]string{"", "+", "-", "0", "00"}) + fmt.Sprint(rng.Pick2([]int{0, 1, 5, 1048576, 1048577}))
		default:
			return c20mutateSpelling(rng, rng.Range(1, 9), rng.Range(1, 14))
		}
	}
	for i := 0; i < n; i++ {
		var sb strings.Builder
		for k := rng.Range(1, 3); k > 0; k-- {
			if sb.Len() > 0 {
				sb.WriteString(rng.Pick([]string{" ", " ", ",", "  ", ", "}))
			}
			if rng.Chance(8) {
				sb.WriteString(rng.Pick([]string{"Sheet1!", "X!", "a!b!"}))
			}
			sb.WriteString(part())
			if rng.Chance(60) {
				sb.WriteString(":" + part())
			}
		}
		c20cfref(r, sb.String())
	}
	for _, p := range [][2]string{{"A1", "B2"}, {"$a$9", "b10"}, {"B2", "A1"}, {"A$$1", "B2"}, {"D1:E2", "F9"}, {"A1", ""}, {"A1", "XFE1"}, {"a01", "B2"}} {
		c20swmerge(r, p[0], p[1])
	}
	m := 60
	if thorough {
		m = 1500
	}
	for i := 0; i < m; i++ {
		c20swmerge(r, c20mutateSpelling(rng, rng.Range(1, 9), rng.Range(1, 14)), c20mutateSpelling(rng, rng.Range(1, 9), rng.Range(1, 14)))
	}
}
