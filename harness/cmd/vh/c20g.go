//go:build verif_c20

package main

// C20 round 4: lookup paths on real Files whose <mergeCells> list is arbitrary (overlapping,
// reversed, absolute, single-cell, empty, malformed references): the list is injected into the
// worksheet XML of a saved workbook, which is then re-opened.
//   pathsx <hexref,...|none> <hexcell>   P = physical cell SetCellValue(s) writes, G = cell GetCellValue(s) reads

import (
	"archive/zip"
	"bytes"
	"encoding/xml"
	"fmt"
	"io"
	"strings"

	xl "github.com/xuri/excelize/v2"
)

// c20injectedFile: every cell of the 6x8 grid holds its own name; then the merged-cell list is
// written into xl/worksheets/sheet1.xml verbatim (attribute-escaped).
func c20injectedFile(refs []string) (*xl.File, error) {
	f := xl.NewFile()
	for c := 1; c <= c20gridC; c++ {
		for ro := 1; ro <= c20gridR; ro++ {
			n, _ := xl.CoordinatesToCellName(c, ro)
			_ = f.SetCellValue("Sheet1", n, n)
		}
	}
	buf, err := f.WriteToBuffer()
	f.Close()
	if err != nil {
		return nil, err
	}
	zr, err := zip.NewReader(bytes.NewReader(buf.Bytes()), int64(buf.Len()))
	if err != nil {
		return nil, err
	}
	var out bytes.Buffer
	zw := zip.NewWriter(&out)
	for _, zf := range zr.File {
		rc, _ := zf.Open()
		data, _ := io.ReadAll(rc)
		rc.Close()
		if zf.Name == "xl/worksheets/sheet1.xml" && len(refs) > 0 {
			var mc strings.Builder
			fmt.Fprintf(&mc, `<mergeCells count="%d">`, len(refs))
			for _, r := range refs {
				var e bytes.Buffer
				_ = xml.EscapeText(&e, []byte(r))
				fmt.Fprintf(&mc, `<mergeCell ref="%s"/>`, strings.ReplaceAll(e.String(), `"`, "&quot;"))
			}
			mc.WriteString(`</mergeCells>`)
			s := string(data)
			i := strings.Index(s, "</sheetData>")
			if i < 0 {
				return nil, fmt.Errorf("no </sheetData>")
			}
			i += len("</sheetData>")
			data = []byte(s[:i] + mc.String() + s[i:])
		}
		w, _ := zw.Create(zf.Name)
		_, _ = w.Write(data)
	}
	zw.Close()
	return xl.OpenReader(bytes.NewReader(out.Bytes()))
}

func c20pathsx(r *Run, refs []string, s string) {
	for _, ref := range refs { // only byte strings that survive an XML attribute round trip
		for i := 0; i < len(ref); i++ {
			if ref[i] < 0x20 || ref[i] >= 0x7f {
				return
			}
		}
	}
	col, row, err := xl.CellNameToCoordinates(s)
	if err == nil && (col > c20gridC || row > c20gridR) {
		return
	}
	// the getter is observed through the cell contents: every corner must lie in the populated grid
	for _, ref := range refs {
		for _, part := range strings.Split(ref, ":") {
			if c, ro, e := xl.CellNameToCoordinates(part); e == nil && (c > c20gridC || ro > c20gridR) {
				return
			}
		}
	}
	key := func(v string) string {
		if v == "" {
			return "-"
		}
		return hx(v)
	}
	P, G := "ERR", "ERR"
	func() {
		defer func() {
			if p := recover(); p != nil {
				P = "PANIC"
			}
		}()
		f, e := c20injectedFile(refs)
		if e != nil {
			P = "OPEN-ERR"
			return
		}
		defer f.Close()
		if v, e := f.GetCellValue("Sheet1", s); e == nil {
			G = key(v)
		}
		if e := f.SetCellValue("Sheet1", s, "v"); e == nil {
			P = "?"
			rows, _ := f.GetRows("Sheet1")
			for ri, rw := range rows {
				for ci, v := range rw {
					if v == "v" {
						n, _ := xl.CoordinatesToCellName(ci+1, ri+1)
						P = key(n)
					}
				}
			}
		}
	}()
	hs := "none"
	if len(refs) > 0 {
		var q []string
		for _, x := range refs {
			q = append(q, hx(x))
		}
		hs = strings.Join(q, ",")
	}
	op := fmt.Sprintf("pathsx %s %s", hs, hx(s))
	ln := r.Op(op, "P="+P+" G="+G)
	r.Case(op, err == nil)
	if P == "PANIC" {
		r.Fail("pathsx:panic", fmt.Sprintf("merged cells %q, cell %q: panic", refs, s), ln, op)
	}
	// setter and getter must agree on the cell they address, whatever the list looks like
	if P != G && P != "PANIC" {
		r.Fail("pathsx:setter-getter-differ", fmt.Sprintf("merged cells %q, spelling %q: SetCellValue lands on %s, GetCellValue reads %s", refs, s, P, G), ln, op)
	}
}

func c20deepen6(r *Run, rng *Rng, thorough bool) {
	lists := [][]string{nil, {"B2:C3"}, {"B2:C3", "C3:D4"}, {"C3:D4", "B2:C3"}, {"C3:B2"}, {"$B$2:$C$3"}, {"b2:c3"}, {"B2"}, {"$b$2"}, {""}, {"", "B2:C3"}, {"B2:C3:D4"}, {"E5:F6", "junk"},
		{"junk", "E5:F6"}, {"B02:C3"}, {"B2:C3 "}, {":"}, {"B2:"}, {"A1:F8"}, {"A1:F8", "B2:C3"}, {"B2:C3", "A1:F8"}, {"B2:C3", "B2:C3"}, {"A$$1:B2"}, {"XFE1:A1"}, {"D4", "D4:E5"}}
	for _, ms := range lists {
		for _, cell := range [][2]int{{2, 2}, {3, 3}, {2, 3}, {4, 4}, {1, 1}, {5, 5}, {6, 8}} {
			name, _ := xl.ColumnNumberToName(cell[0])
			rs := fmt.Sprint(cell[1])
			for _, sp := range []string{name + rs, "$" + strings.ToLower(name) + "$0" + rs} {
				c20pathsx(r, ms, sp)
			}
		}
		c20pathsx(r, ms, "B+2")
	}
	n := 60
	if thorough {
		n = 1500
	}
	for i := 0; i < n; i++ {
		var ms []string
		for j := rng.Range(1, 3); j > 0; j-- {
			if rng.Chance(70) {
				a, _ := xl.CoordinatesToCellName(rng.Range(1, 6), rng.Range(1, 8), rng.Chance(20))
				b, _ := xl.CoordinatesToCellName(rng.Range(1, 6), rng.Range(1, 8), rng.Chance(20))
				if rng.Chance(15) {
					ms = append(ms, a)
				} else {
					ms = append(ms, a+":"+b)
				}
			} else {
				ms = append(ms, c20randRef(rng))
			}
		}
		c20pathsx(r, ms, c20mutateSpelling(rng, rng.Range(1, c20gridC), rng.Range(1, c20gridR)))
	}
}
