package main

// Shared runtime of the correspondence harness: seeded PRNG, transcript
// writer (ops for the Lean driver + the implementation's canonical result per
// op), direct-oracle failure records, and coverage statistics.

import (
	"bufio"
	"crypto/sha1"
	"encoding/hex"
	"encoding/json"
	"fmt"
	"os"
	"path/filepath"
	"sort"
	"strings"
)

// splitmix64
type Rng struct{ s uint64 }

// NewRng mixes the seed through the splitmix64 finaliser first: without that the stream of
// seed k+1 is the stream of seed k shifted by one draw.
func NewRng(seed uint64) *Rng {
	z := seed + 0x9E3779B97F4A7C15
	z = (z ^ (z >> 30)) * 0xBF58476D1CE4E5B9
	z = (z ^ (z >> 27)) * 0x94D049BB133111EB
	z ^= z >> 31
	return &Rng{s: z ^ 0x1234567}
}
func (r *Rng) U64() uint64 {
	r.s += 0x9E3779B97F4A7C15
	z := r.s
	z = (z ^ (z >> 30)) * 0xBF58476D1CE4E5B9
	z = (z ^ (z >> 27)) * 0x94D049BB133111EB
	return z ^ (z >> 31)
}
func (r *Rng) Intn(n int) int {
	if n <= 0 {
		return 0
	}
	return int(r.U64() % uint64(n))
}
func (r *Rng) Range(lo, hi int) int { return lo + r.Intn(hi-lo+1) }
func (r *Rng) Bool() bool           { return r.U64()&1 == 1 }
func (r *Rng) Chance(p int) bool    { return r.Intn(100) < p }
func (r *Rng) Pick(xs []string) string {
	return xs[r.Intn(len(xs))]
}
func (r *Rng) F64() float64 { return float64(r.U64()>>11) / float64(1<<53) }

type Fail struct {
	Sig    string `json:"sig"`    // signature used for known-finding attribution
	What   string `json:"what"`   // human description
	Line   int    `json:"line"`   // op line (1-based) carrying the model prediction, 0 = none
	Replay string `json:"replay"` // self-contained replay text
}

type Run struct {
	Prop     string
	Tier     string
	Seed     uint64
	Dir      string
	ops      *bufio.Writer
	out      *bufio.Writer
	opsF     *os.File
	outF     *os.File
	N        int
	Fails    []Fail
	Stats    map[string]int
	Samples  []string
	distinct map[string]struct{}
	Evals    int
	Exhaust  bool
	Rule     string
	Notes    []string
}

func NewRun(prop, tier string, seed uint64, dir string) *Run {
	must(os.MkdirAll(dir, 0o755))
	of, err := os.Create(filepath.Join(dir, "ops.txt"))
	must(err)
	gf, err := os.Create(filepath.Join(dir, "go.out"))
	must(err)
	return &Run{Prop: prop, Tier: tier, Seed: seed, Dir: dir, opsF: of, outF: gf,
		ops: bufio.NewWriterSize(of, 1<<20), out: bufio.NewWriterSize(gf, 1<<20),
		Stats: map[string]int{}, distinct: map[string]struct{}{}}
}

// Op records one transcript line and the implementation's canonical answer.
// Returns the 1-based line number.
func (r *Run) Op(op, result string) int {
	r.N++
	r.ops.WriteString(op)
	r.ops.WriteByte('\n')
	r.out.WriteString(result)
	r.out.WriteByte('\n')
	return r.N
}

// Case counts one explored case; key identifies it for distinctness, nontrivial
// says whether it counts as non-trivial under the property's stated rule.
func (r *Run) Case(key string, nontrivial bool) {
	r.Evals++
	if nontrivial {
		h := sha1.Sum([]byte(key))
		r.distinct[string(h[:8])] = struct{}{}
	}
}

func (r *Run) Sample(s string) {
	if len(r.Samples) < 12 {
		r.Samples = append(r.Samples, s)
	}
}

func (r *Run) Stat(k string) { r.Stats[k]++ }

func (r *Run) Fail(sig, what string, line int, replay string) {
	r.Stat("oracle_fail:" + sig)
	// keep at most 5 per signature, 200 overall
	n := 0
	for _, f := range r.Fails {
		if f.Sig == sig {
			n++
		}
	}
	if n >= 5 || len(r.Fails) >= 200 {
		return
	}
	r.Fails = append(r.Fails, Fail{sig, what, line, replay})
}

func (r *Run) Close() {
	r.ops.Flush()
	r.out.Flush()
	r.opsF.Close()
	r.outF.Close()
	keys := make([]string, 0, len(r.Stats))
	for k := range r.Stats {
		keys = append(keys, k)
	}
	sort.Strings(keys)
	res := map[string]interface{}{
		"property": r.Prop, "tier": r.Tier, "seed": r.Seed, "lines": r.N,
		"evaluations": r.Evals, "distinct_nontrivial": len(r.distinct),
		"fails": r.Fails, "stats": r.Stats, "samples": r.Samples,
		"exhaustive": r.Exhaust, "rule": r.Rule, "notes": r.Notes,
	}
	if r.Fails == nil {
		res["fails"] = []Fail{}
	}
	b, _ := json.MarshalIndent(res, "", " ")
	must(os.WriteFile(filepath.Join(r.Dir, "oracle.json"), b, 0o644))
}

func must(err error) {
	if err != nil {
		fmt.Fprintln(os.Stderr, "vh: fatal:", err)
		os.Exit(3)
	}
}

// hx encodes a Go string as hex for the line protocol ("-" = empty).
func hx(s string) string {
	if s == "" {
		return "-"
	}
	return hex.EncodeToString([]byte(s))
}

func unhx(s string) string {
	if s == "-" {
		return ""
	}
	b, err := hex.DecodeString(s)
	must(err)
	return string(b)
}

func errTag(err error) string {
	if err == nil {
		return ""
	}
	return "ERR"
}

func join(xs ...string) string { return strings.Join(xs, " ") }

func (r *Rng) Pick2(xs []int) int { return xs[r.Intn(len(xs))] }

func readLines(path string) []string {
	b, err := os.ReadFile(path)
	must(err)
	return strings.Split(strings.ReplaceAll(string(b), "\r", ""), "\n")
}

// opsSample returns up to n evenly spaced transcript lines paired with results (read back from disk).
func (r *Run) opsSample(n int) []string {
	r.ops.Flush()
	r.out.Flush()
	ops := readLines(filepath.Join(r.Dir, "ops.txt"))
	outs := readLines(filepath.Join(r.Dir, "go.out"))
	var res []string
	if len(ops) < 2 {
		return res
	}
	step := (len(ops) - 1) / n
	if step < 1 {
		step = 1
	}
	for i := 0; i < len(ops)-1 && len(res) < n; i += step {
		res = append(res, ops[i]+" => "+outs[i])
	}
	return res
}
