package main

import (
	"flag"
	"fmt"
	"os"
	"strconv"
)

type propFn func(r *Run, rng *Rng, replay string)

var props = map[string]propFn{}

func main() {
	if len(os.Args) < 2 {
		fmt.Fprintln(os.Stderr, "usage: vh <Cxx> [-tier quick|thorough] [-seed n] [-out dir] [-replay file]")
		os.Exit(2)
	}
	prop := os.Args[1]
	fs := flag.NewFlagSet("vh", flag.ExitOnError)
	tier := fs.String("tier", "quick", "")
	seedS := fs.String("seed", "1", "")
	out := fs.String("out", "", "")
	replay := fs.String("replay", "", "")
	fs.Parse(os.Args[2:])
	seed, _ := strconv.ParseUint(*seedS, 10, 64)
	fn, ok := props[prop]
	if !ok {
		fmt.Fprintln(os.Stderr, "vh: unknown property", prop)
		os.Exit(2)
	}
	if *out == "" {
		fmt.Fprintln(os.Stderr, "vh: -out required")
		os.Exit(2)
	}
	r := NewRun(prop, *tier, seed, *out)
	fn(r, NewRng(seed), *replay)
	r.Close()
}
