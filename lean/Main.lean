import XlModel.Drv.C20
open XlModel.Drv

def main (args : List String) : IO UInt32 := do
  match args with
  | ["C20"] => runStateless C20.step; return 0
  | _ => IO.eprintln "usage: drv <property-id> < ops"; return 2
