import XlModel.Basic
import XlModel.Generated.Facts
import XlModel.Ref
