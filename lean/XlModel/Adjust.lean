/-
Model of the structural edits of excelize (C06): adjust.go (adjustHelper,
adjustRowDimensions, adjustColDimensions, adjustCols, adjustHyperlinks,
adjustCellRef, adjustConditionalFormats, adjustDataValidations (sqref part),
adjustMergeCells + adjustMergeCellsHelper, adjustAutoFilter +
adjustAutoFilterHelper, adjustTable (coordinates only)), rows.go (InsertRows,
RemoveRow, checkRow), col.go (InsertCols, RemoveCol), excelize.go (checkSheet,
the path without `r="0"` rows).

`Impl` (this namespace) is a transcription: same guards, same order, errors as
explicit outcomes *together with the state reached when the error is returned*
(the Go functions mutate the worksheet in place, so an edit that fails half way
leaves the prefix of its work behind).  Cell references are kept as decoded
coordinates `(c, r)` (the harness only produces canonical references; the
correspondence compares the stored names).  Cell payload (type, value,
formula) is an opaque token, the style id is kept separately.  Formula
rewriting (adjustFormulaRef on cell formulas, data-validation formulas and
defined names) belongs to C07 and is *not* modelled: payloads are carried
unchanged.  Drawings, calc chain and volatile dependencies are not modelled.

`Spec` is the shift rule on total maps `position → content` and on intervals.

Core Lean only (linked into the driver).
-/
import XlModel.Basic
import XlModel.Ref
import XlModel.Generated.Facts
import XlModel.Generated.FactsC06

namespace XlModel.Adjust
open XlModel

/-! ## State -/

structure Cell where
  c : Int
  r : Int
  s : Nat
  v : String
  deriving DecidableEq, Repr, Inhabited

/-- token of a cell without type, value and formula -/
def blankTok : String := "-"

def Cell.hasValue (x : Cell) : Bool := x.s != 0 || x.v != blankTok

structure Row where
  r : Int
  hidden : Bool
  attr : String
  cells : List Cell
  deriving DecidableEq, Repr, Inhabited

structure Rect where
  x1 : Int
  y1 : Int
  x2 : Int
  y2 : Int
  deriving DecidableEq, Repr, Inhabited

structure Col where
  min : Int
  max : Int
  tok : String
  deriving DecidableEq, Repr, Inhabited

/-- a hyperlink: `pos = none` is the empty `ref` left behind by a failed rewrite -/
structure Link where
  pos : Option (Int × Int)
  tok : String
  deriving DecidableEq, Repr, Inhabited

/-- a data validation / conditional format: its sqref as a list of rectangles -/
structure SqItem where
  rects : List Rect
  tok : String
  deriving DecidableEq, Repr, Inhabited

/-- a table: `rect = none` is the empty `ref` written when `coordinatesToRangeRef` fails -/
structure Tbl where
  rect : Option Rect
  name : String
  deriving DecidableEq, Repr, Inhabited

structure Sheet where
  rows : List Row
  cols : List Col
  /-- `none` = a merge whose `Ref` was overwritten with "" by a failed adjust -/
  merges : List (Option Rect)
  links : List Link
  dvs : List SqItem
  cfs : List SqItem
  /-- `none` = no auto filter; `some none` = filter whose ref became "" -/
  filter : Option (Option Rect)
  tables : List Tbl
  deriving DecidableEq, Repr, Inhabited

def Sheet.empty : Sheet := ⟨[], [], [], [], [], [], none, []⟩

inductive Status
  | ok | err | panic | unmodelled
  deriving DecidableEq, Repr, Inhabited

def Status.tag : Status → String
  | .ok => "ok" | .err => "E_ANY" | .panic => "PANIC" | .unmodelled => "UNMODELLED"

inductive Dir | rows | cols
  deriving DecidableEq, Repr, Inhabited

def maxRows : Int := (Facts.TotalRows : Int)
def maxCols : Int := (Facts.MaxColumns : Int)

/-- the guards of `CoordinatesToCellName` (col ≥ 1, row ≥ 1, row ≤ TotalRows,
`ColumnNumberToName`: col ≤ MaxColumns) -/
def cellOk (c r : Int) : Bool := decide (1 ≤ c ∧ c ≤ maxCols ∧ 1 ≤ r ∧ r ≤ maxRows)

/-- `coordinatesToRangeRef` succeeds -/
def rectOk (q : Rect) : Bool := cellOk q.x1 q.y1 && cellOk q.x2 q.y2

/-! ## Dense placement (shared by checkSheet and checkRow)

`make([]T, n)` followed by `target[key(x)] = x` for every source element in
order: later writes win. -/

def place {α : Type} (key : α → Nat) (init : Array α) (xs : List α) : Array α :=
  xs.foldl (fun a x => a.setIfInBounds (key x) x) init

/-! ## Row dimension -/

/-- `(*xlsxRow).adjustSingleRowDimensions`: the row number moves and every cell
is renamed to `(its column, the row's new number)` -/
def bumpRow (off : Int) (r : Row) : Row :=
  { r with r := r.r + off, cells := r.cells.map fun c => { c with r := r.r + off } }

def shiftRow (row off : Int) (r : Row) : Row :=
  if r.r ≥ row ∧ r.r + off > 0 then bumpRow off r else r

/-- `adjustRowDimensions` on the edited sheet (the formula passes are C07's).
`none` = `ErrMaxRows`. The limit check looks at the last row slot only. -/
def adjustRowDimensions (rows : List Row) (row off : Int) : Option (List Row) :=
  match rows.getLast? with
  | none => some rows
  | some last =>
    if last.r ≥ row ∧ last.r + off > 0 ∧ last.r + off > maxRows then none
    else some (rows.map (shiftRow row off))

/-- strictly increasing row numbers starting above `p` -/
def incFrom : Int → List Row → Bool
  | _, [] => true
  | p, r :: rs => decide (p < r.r) && incFrom r.r rs

def zeroRow : Row := ⟨0, false, "-", []⟩

/-- `checkSheet` on a row list without `r="0"` rows and without a row number
equal to the running maximum (the `r0Rows` path), i.e. on strictly increasing
positive row numbers; `none` = that path would be taken (not modelled; proved
unreachable from dense sheets in `Props/C06`). `make([]xlsxRow, max)`, each
row stored at `R-1`, then every slot gets `R = index+1`. -/
def checkSheet (rows : List Row) : Option (List Row) :=
  if incFrom 0 rows then
    let m : Nat := ((rows.getLast?.map (fun r : Row => r.r)).getD 0).toNat
    let arr := place (fun r : Row => (r.r - 1).toNat) (Array.replicate m zeroRow) rows
    some (arr.toList.zipIdx.map fun (r, i) => { r with r := (i : Int) + 1 })
  else none

def blankCell (j i : Nat) : Cell := ⟨(j : Int) + 1, (i : Int) + 1, 0, blankTok⟩

/-- the per-row body of `checkRow` (all cells carry a reference): when the last
cell's column exceeds the number of cell slots the row is rebuilt densely.
`.panic` = index out of range in `Row[rowIdx].C[colNum-1] = *colData`;
`.unmodelled` = a reference that `CellNameToCoordinates` rejects. -/
def checkRowCells (rowIdx : Nat) (cells : List Cell) : Except Status (List Cell) :=
  match cells.getLast? with
  | none => .ok cells
  | some last =>
    if cells.any (fun x => !cellOk x.c x.r) then .error .unmodelled
    else if (cells.length : Int) < last.c then
      if cells.any (fun x => x.c > last.c) then .error .panic
      else
        let n := last.c.toNat
        .ok (place (fun x : Cell => (x.c - 1).toNat)
              (Array.ofFn (n := n) fun j => blankCell j.val rowIdx) cells).toList
    else .ok cells

def checkRowAux : Nat → List Row → Except Status (List Row)
  | _, [] => .ok []
  | i, r :: rs =>
    match checkRowCells i r.cells with
    | .error e => .error e
    | .ok cs =>
      match checkRowAux (i + 1) rs with
      | .error e => .error e
      | .ok rest => .ok ({ r with cells := cs } :: rest)

/-- tail-recursive form used at run time (a far row materialises a million slots) -/
def checkRowTR (rows : List Row) : Except Status (List Row) :=
  let res := rows.zipIdx.foldl (init := (Except.ok #[] : Except Status (Array Row)))
    fun acc (r, i) =>
      match acc with
      | .error e => .error e
      | .ok a =>
        match checkRowCells i r.cells with
        | .error e => .error e
        | .ok cs => .ok (a.push { r with cells := cs })
  match res with
  | .error e => .error e
  | .ok a => .ok a.toList

def checkRow (rows : List Row) : Except Status (List Row) := checkRowAux 0 rows

/-! ## Column dimension -/

def shiftCell (col off : Int) (x : Cell) : Cell :=
  if col ≤ x.c ∧ x.c + off > 0 then { x with c := x.c + off } else x

/-- first loop of `adjustColDimensions`: any cell at or right of the edit point
that would land beyond `MaxColumns` rejects the edit before anything moves -/
def colLimitHit (rows : List Row) (col off : Int) : Bool :=
  rows.any fun r => r.cells.any fun x => decide (col ≤ x.c ∧ x.c + off > 0 ∧ x.c + off > maxCols)

/-- `adjustCols`, insertion branch (`offset > 0`) -/
def adjustColsIns (col off : Int) : List Col → List Col
  | [] => []
  | c :: cs =>
    let mn := if c.min ≥ col then c.min + off else c.min
    if c.min ≥ col ∧ mn > maxCols then adjustColsIns col off cs
    else
      let mx := if c.max ≥ col ∨ c.max + 1 = col then
                  (if c.max + off > maxCols then maxCols else c.max + off) else c.max
      { c with min := mn, max := mx } :: adjustColsIns col off cs

/-- `adjustCols`, deletion branch -/
def adjustColsDel (col off : Int) : List Col → List Col
  | [] => []
  | c :: cs =>
    if c.min = col ∧ c.max = col then adjustColsDel col off cs
    else
      { c with min := if c.min > col then c.min + off else c.min,
               max := if c.max ≥ col then c.max + off else c.max } :: adjustColsDel col off cs

def adjustCols (cols : List Col) (col off : Int) : List Col :=
  if off > 0 then adjustColsIns col off cols else adjustColsDel col off cols

/-! ## Hyperlinks -/

/-- `adjustFormulaRef` on a plain cell name: the coordinate on the edited axis
moves when `≥ num`, is clamped below at 1, and overflow makes the rewrite fail,
which leaves `""` in `link.Ref` (the error is discarded) -/
def adjustLinkPos (dir : Dir) (num off : Int) (p : Int × Int) : Option (Int × Int) :=
  match dir with
  | .rows =>
    if p.2 ≥ num then
      let r := if p.2 + off < 1 then 1 else p.2 + off
      if r > maxRows then none else some (p.1, r)
    else some p
  | .cols =>
    if p.1 ≥ num then
      let c := if p.1 + off < 1 then 1 else p.1 + off
      if c > maxCols then none else some (c, p.2)
    else some p

def linkHit (dir : Dir) (num : Int) (l : Link) : Bool :=
  match l.pos with
  | none => false
  | some p => match dir with
    | .rows => p.2 == num
    | .cols => p.1 == num

def adjustHyperlinks (ls : List Link) (dir : Dir) (num off : Int) : List Link :=
  let ls := if off < 0 then ls.filter (fun l => !linkHit dir num l) else ls
  ls.map fun l => { l with pos := l.pos.bind (adjustLinkPos dir num off) }

/-! ## sqref lists (conditional formats, data validations) -/

/-- does the *first* coordinate of a range move? (`applyOffset` of `adjustCellRef`,
`moves` of `adjustAutoFilterHelper`): when the first row/column itself is
removed the range keeps its start and shrinks from the end -/
def startMoves (p num off : Int) : Bool := decide (p > num ∨ (off > 0 ∧ p = num))

/-- `applyOffset` of `adjustCellRef` on one axis -/
def sqAxis (a b num off lim : Int) : Int × Int :=
  let a' := if startMoves a num off then a + off else a
  let b' := if b ≥ num then (if b + off > lim then lim else b + off) else b
  (a', b')

/-- `adjustCellRef`: `none` = error from `coordinatesToRangeRef` -/
def adjustSq (dir : Dir) (num off : Int) : List Rect → Option (List Rect)
  | [] => some []
  | q :: qs =>
    match dir with
    | .cols =>
      if off < 0 ∧ q.x1 = q.x2 ∧ num = q.x1 then adjustSq dir num off qs
      else
        let p := sqAxis q.x1 q.x2 num off maxCols
        let q' : Rect := { q with x1 := p.1, x2 := p.2 }
        if rectOk q' then (adjustSq dir num off qs).map (q' :: ·) else none
    | .rows =>
      if off < 0 ∧ q.y1 = q.y2 ∧ num = q.y1 then adjustSq dir num off qs
      else
        let p := sqAxis q.y1 q.y2 num off maxRows
        let q' : Rect := { q with y1 := p.1, y2 := p.2 }
        if rectOk q' then (adjustSq dir num off qs).map (q' :: ·) else none

/-- `adjustConditionalFormats` / the sqref part of `adjustDataValidations`:
items are rewritten in order; an item whose sqref becomes empty is removed; on
an error the items already rewritten stay rewritten -/
def adjustSqItems (dir : Dir) (num off : Int) : List SqItem → Status × List SqItem
  | [] => (.ok, [])
  | it :: its =>
    match adjustSq dir num off it.rects with
    | none => (.err, it :: its)
    | some [] => adjustSqItems dir num off its
    | some rs =>
      let (st, rest) := adjustSqItems dir num off its
      (st, { it with rects := rs } :: rest)

/-! ## Merged cells -/

/-- `adjustMergeCellsHelper` -/
def mergeHelper (p1 p2 num off : Int) : Int × Int :=
  let (p1, p2) := if p2 < p1 then (p2, p1) else (p1, p2)
  if off ≥ 0 then
    if num ≤ p1 then (p1 + off, p2 + off)
    else if num ≤ p2 then (p1, p2 + off)
    else (p1, p2)
  else
    if num < p1 ∨ (num = p1 ∧ num = p2) then (p1 + off, p2 + off)
    else if num ≤ p2 then (p1, p2 + off)
    else (p1, p2)

/-- `adjustMergeCells` -/
def adjustMerges (dir : Dir) (num off : Int) : List (Option Rect) → Status × List (Option Rect)
  | [] => (.ok, [])
  | none :: ms => (.err, none :: ms)
  | some q :: ms =>
    let hit := match dir with
      | .rows => decide (q.y1 = num ∧ q.y2 = num ∧ off < 0)
      | .cols => decide (q.x1 = num ∧ q.x2 = num ∧ off < 0)
    if hit then adjustMerges dir num off ms
    else
      let q' : Rect := match dir with
        | .rows => let p := mergeHelper q.y1 q.y2 num off; { q with y1 := p.1, y2 := p.2 }
        | .cols => let p := mergeHelper q.x1 q.x2 num off; { q with x1 := p.1, x2 := p.2 }
      if q'.x1 = q'.x2 ∧ q'.y1 = q'.y2 then adjustMerges dir num off ms
      else if rectOk q' then
        let (st, rest) := adjustMerges dir num off ms
        (st, some q' :: rest)
      else (.err, none :: ms)

/-! ## Auto filter and tables -/

/-- `adjustAutoFilterHelper` -/
def filterHelper (dir : Dir) (q : Rect) (num off : Int) : Rect :=
  match dir with
  | .rows => { q with y1 := if startMoves q.y1 num off then q.y1 + off else q.y1,
                      y2 := if q.y2 ≥ num then q.y2 + off else q.y2 }
  | .cols => { q with x1 := if startMoves q.x1 num off then q.x1 + off else q.x1,
                      x2 := if q.x2 ≥ num then q.x2 + off else q.x2 }

/-- `adjustAutoFilter`: returns the status, the new filter and the rows (the
`hidden` flag of the rows below the header is cleared when the filter goes) -/
def adjustFilter (flt : Option (Option Rect)) (rows : List Row) (dir : Dir) (num off : Int) :
    Status × Option (Option Rect) × List Row :=
  match flt with
  | none => (.ok, none, rows)
  | some none => (.err, some none, rows)
  | some (some q) =>
    let gone := match dir with
      | .rows => decide (off < 0 ∧ q.y1 = num)
      | .cols => decide (off < 0 ∧ q.x1 = num ∧ q.x2 = num)
    if gone then
      (.ok, none, rows.map fun r => if r.r > q.y1 ∧ r.r ≤ q.y2 then { r with hidden := false } else r)
    else
      let q' := filterHelper dir q num off
      if rectOk q' then (.ok, some (some q'), rows) else (.err, some none, rows)

/-- `adjustTable`, coordinates only: a table goes when its header row is removed
or when fewer than two rows / no column remain. -/
def adjustTables (dir : Dir) (num off : Int) : List Tbl → Status × List Tbl
  | [] => (.ok, [])
  | t :: ts =>
    match t.rect with
    | none => (.err, t :: ts)
    | some q =>
      if dir = .rows ∧ num = (if Facts.C06.tableHeaderCoord = 1 then q.y1 else q.x1) ∧ off = -1 then
        adjustTables dir num off ts
      else
        let q' := filterHelper dir q num off
        if q'.y2 - q'.y1 < 1 ∨ q'.x2 - q'.x1 < 0 then adjustTables dir num off ts
        else
          let (st, rest) := adjustTables dir num off ts
          (st, { t with rect := if rectOk q' then some q' else none } :: rest)

/-! ## adjustHelper -/

/-- one entry of `adjustHelperFunc`, by the name of the method it calls;
adjusters outside the model (defined names, drawings, calc chain, volatile
dependencies) leave the modelled state alone -/
def runAdjuster (name : String) (dir : Dir) (num off : Int) (s : Sheet) : Status × Sheet :=
  if name = "adjustConditionalFormats" then
    let (st, x) := adjustSqItems dir num off s.cfs; (st, { s with cfs := x })
  else if name = "adjustDataValidations" then
    let (st, x) := adjustSqItems dir num off s.dvs; (st, { s with dvs := x })
  else if name = "adjustMergeCells" then
    let (st, x) := adjustMerges dir num off s.merges; (st, { s with merges := x })
  else if name = "adjustAutoFilter" then
    let (st, f, rows) := adjustFilter s.filter s.rows dir num off
    (st, { s with filter := f, rows := rows })
  else if name = "adjustTable" then
    let (st, x) := adjustTables dir num off s.tables; (st, { s with tables := x })
  else (.ok, s)

/-- the `for _, fn := range adjustHelperFunc` loop: stops at the first error -/
def runAdjusters : List String → Dir → Int → Int → Sheet → Status × Sheet
  | [], _, _, _, s => (.ok, s)
  | a :: as, dir, num, off, s =>
    match runAdjuster a dir num off s with
    | (.ok, s') => runAdjusters as dir num off s'
    | (st, s') => (st, s')

/-- the dimension step of `adjustHelper`; `none` = rejected by the limit check -/
def adjustDims (s : Sheet) (dir : Dir) (num off : Int) : Option Sheet :=
  match dir with
  | .rows => (adjustRowDimensions s.rows num off).map fun rows => { s with rows := rows }
  | .cols =>
    if colLimitHit s.rows num off then none
    else some { s with rows := s.rows.map fun r => { r with cells := r.cells.map (shiftCell num off) },
                       cols := adjustCols s.cols num off }

/-- `checkSheet(); _ = checkRow()` — an error of `checkRow` is discarded by the
caller; the model reports the unmodelled/panic outcomes instead -/
def recheck (useTR : Bool) (s : Sheet) : Status × Sheet :=
  match checkSheet s.rows with
  | none => (.unmodelled, s)
  | some rows =>
    match (if useTR then checkRowTR rows else checkRow rows) with
    | .error e => (e, { s with rows := rows })
    | .ok rows' => (.ok, { s with rows := rows' })

/-- the coordinate moves and leaves the worksheet (`exceeds` of `checkAdjustRangeLimit`) -/
def exceeds (dir : Dir) (num off p : Int) : Bool :=
  decide (p ≥ num ∧ p + off > (match dir with | .rows => maxRows | .cols => maxCols))

def axisStart (dir : Dir) (q : Rect) : Int := match dir with | .rows => q.y1 | .cols => q.x1
def axisEnd (dir : Dir) (q : Rect) : Int := match dir with | .rows => q.y2 | .cols => q.x2

/-- `checkAdjustRangeLimit`: read-only check, made before anything moves, that an insertion pushes no
range-anchored object beyond the last row/column: the *start* of every sqref range (its end is cut at the
limit), both ends of merged cells, auto filter and tables, the cell of every hyperlink. References that
do not parse are left to the adjusters. -/
def rangeLimitHit (s : Sheet) (dir : Dir) (num off : Int) : Bool :=
  decide (off > 0) &&
  ((s.cfs ++ s.dvs).any (fun it => it.rects.any fun q => exceeds dir num off (axisStart dir q)) ||
   (s.merges.filterMap id ++ (match s.filter with | some (some q) => [q] | _ => []) ++
      s.tables.filterMap (·.rect)).any
        (fun q => exceeds dir num off (axisStart dir q) || exceeds dir num off (axisEnd dir q)) ||
   s.links.any (fun l => match l.pos with
      | some p => exceeds dir num off (match dir with | .rows => p.2 | .cols => p.1)
      | none => false))

/-- `adjustHelper` -/
def adjustHelperG (useTR : Bool) (s : Sheet) (dir : Dir) (num off : Int) : Status × Sheet :=
  if Facts.C06.rangeCheckFirst && rangeLimitHit s dir num off then (.err, s) else
  match adjustDims s dir num off with
  | none => (.err, s)
  | some s1 =>
    let s2 := { s1 with links := adjustHyperlinks s1.links dir num off }
    match recheck useTR s2 with
    | (.ok, s3) => runAdjusters Facts.C06.adjusters dir num off s3
    | (st, s3) => (st, s3)

def adjustHelper (s : Sheet) (dir : Dir) (num off : Int) : Status × Sheet :=
  adjustHelperG false s dir num off

/-! ## The four exported edits (on one worksheet) -/

/-- `InsertRows` -/
def insertRowsG (tr : Bool) (s : Sheet) (row n : Int) : Status × Sheet :=
  if row < 1 then (.err, s)
  else if row ≥ maxRows ∨ n ≥ maxRows then (.err, s)
  else if n < 1 then (.err, s)
  else adjustHelperG tr s .rows row n

/-- `RemoveRow`: the row slot is dropped, then everything below moves up -/
def removeRowG (tr : Bool) (s : Sheet) (row : Int) : Status × Sheet :=
  if row < 1 then (.err, s)
  else if row > (s.rows.length : Int) then adjustHelperG tr s .rows row (-1)
  else adjustHelperG tr { s with rows := s.rows.filter fun r => r.r != row } .rows row (-1)

/-- `InsertCols` -/
def insertColsG (tr : Bool) (s : Sheet) (col : List Char) (n : Int) : Status × Sheet :=
  match Ref.columnNameToNumber col with
  | .error _ => (.err, s)
  | .ok num =>
    if n < 1 ∨ n > maxCols then (.err, s)
    else adjustHelperG tr s .cols num n

/-- remove the first element satisfying `p` (the `break` after the deletion) -/
def eraseFirst {α : Type} (p : α → Bool) : List α → List α
  | [] => []
  | x :: xs => if p x then xs else x :: eraseFirst p xs

/-- `RemoveCol`: in every row the first cell in that column is dropped, then
everything to the right moves left -/
def removeColG (tr : Bool) (s : Sheet) (col : List Char) : Status × Sheet :=
  match Ref.columnNameToNumber col with
  | .error _ => (.err, s)
  | .ok num =>
    let rows := s.rows.map fun r => { r with cells := eraseFirst (fun x => Facts.C06.removeColMatch (Ref.numToName x.c.toNat) x.c col num) r.cells }
    adjustHelperG tr { s with rows := rows } .cols num (-1)

/-! ## DuplicateRowTo (rows.go) -/

/-- `duplicateSQRefHelper` over one sqref: the single-row references on `row`, moved to `row2`;
`none` = `coordinatesToRangeRef` fails -/
def dupSq (row row2 : Int) : List Rect → Option (List Rect)
  | [] => some []
  | q :: qs =>
    if q.y1 = q.y2 ∧ q.y1 = row then
      let q' : Rect := { q with y1 := row2, y2 := row2 }
      if rectOk q' then (dupSq row row2 qs).map (q' :: ·) else none
    else dupSq row row2 qs

/-- `duplicateConditionalFormat` / `duplicateDataValidations`: the copies to append (in order);
`none` = error (nothing has been appended yet) -/
def dupSqItems (row row2 : Int) : List SqItem → Option (List SqItem)
  | [] => some []
  | it :: its =>
    match dupSq row row2 it.rects with
    | none => none
    | some [] => dupSqItems row row2 its
    | some rs => (dupSqItems row row2 its).map ({ it with rects := rs } :: ·)

/-- both helpers look at the position of the source row after the insertion -/
def srcAfter (row row2 : Int) : Int := if row > row2 then row + 1 else row

def dupSqStep (row row2 : Int) (its : List SqItem) : Status × List SqItem :=
  match dupSqItems (srcAfter row row2) row2 its with
  | none => (.err, its)
  | some extra => (.ok, its ++ extra)

/-- first loop of `duplicateMergeCells`: `some true` = the target row lies strictly inside a merged range
(nothing is duplicated), `none` = a reference that does not parse -/
def dupMergeScan (row2 : Int) : List (Option Rect) → Option Bool
  | [] => some false
  | none :: _ => none
  | some q :: ms => if q.y1 < row2 ∧ row2 < q.y2 then some true else dupMergeScan row2 ms

/-- `MergeCell(x1 row2, x2 row2)` on the grid: the row's cell slots are filled up to the last merged column
(`prepareSheetXML`), every merged cell but the first loses type, value and formula (`setCellDefault("")`,
`removeFormula`), the style stays -/
def mergeRowCells (x1 x2 : Int) (r : Row) : Row :=
  let lo := if x2 < x1 then x2 else x1
  let hi := if x2 < x1 then x1 else x2
  let filled := r.cells ++ ((List.range (hi.toNat - r.cells.length)).map fun k =>
    (⟨((r.cells.length + k : Nat) : Int) + 1, r.r, 0, blankTok⟩ : Cell))
  { r with cells := if lo = hi then r.cells else
      filled.zipIdx.map fun (x, j) => if lo < (j : Int) + 1 ∧ (j : Int) + 1 ≤ hi then { x with v := blankTok } else x }

/-- second loop of `duplicateMergeCells` over the merges present before it started -/
def dupMergeApply (src row2 : Int) : List (Option Rect) → Sheet → Status × Sheet
  | [], s => (.ok, s)
  | none :: ms, s => dupMergeApply src row2 ms s
  | some q :: ms, s =>
    if q.y1 = q.y2 ∧ q.y1 = src then
      let m : Rect := ⟨if q.x2 < q.x1 then q.x2 else q.x1, row2, if q.x2 < q.x1 then q.x1 else q.x2, row2⟩
      if rectOk m then
        dupMergeApply src row2 ms
          { s with merges := s.merges ++ [some m],
                   rows := s.rows.zipIdx.map fun (r, k) => if (k : Int) + 1 = row2 then mergeRowCells q.x1 q.x2 r else r }
      else (.err, s)
    else dupMergeApply src row2 ms s

def dupMerges (row row2 : Int) (s : Sheet) : Status × Sheet :=
  match dupMergeScan row2 s.merges with
  | none => (.err, s)
  | some true => (.ok, s)
  | some false => dupMergeApply (srcAfter row row2) row2 s.merges s

/-- the three entries of `duplicateHelperFunc`, by method name -/
def runDupHelper (name : String) (row row2 : Int) (s : Sheet) : Status × Sheet :=
  if name = "duplicateConditionalFormat" then
    let (st, x) := dupSqStep row row2 s.cfs; (st, { s with cfs := x })
  else if name = "duplicateDataValidations" then
    let (st, x) := dupSqStep row row2 s.dvs; (st, { s with dvs := x })
  else if name = "duplicateMergeCells" then dupMerges row row2 s
  else (.ok, s)

def runDupHelpers : List String → Int → Int → Sheet → Status × Sheet
  | [], _, _, s => (.ok, s)
  | a :: as, row, row2, s =>
    match runDupHelper a row row2 s with
    | (.ok, s') => runDupHelpers as row row2 s'
    | (st, s') => (st, s')

/-- the copy lands in the slot of `row2`; beyond the last slot the row list is padded with empty rows -/
def placeCopy (rows : List Row) (row2 : Int) (copy : Row) : List Row :=
  match rows.findIdx? (fun r => r.r == row2) with
  | some i => rows.set i copy
  | none =>
    rows ++ ((List.range ((row2 - 1).toNat - rows.length)).map fun k =>
      (⟨((rows.length + k : Nat) : Int) + 1, false, "-", []⟩ : Row)) ++ [copy]

/-- `DuplicateRowTo` (formula payloads are carried unchanged: C07) -/
def duplicateRowToG (tr : Bool) (s : Sheet) (row row2 : Int) : Status × Sheet :=
  if row < 1 then (.err, s)
  else if row2 < 1 ∨ row = row2 then (.ok, s)
  else
    match adjustHelperG tr s .rows row2 1 with
    | (.ok, s1) =>
      match s.rows.find? (fun r => r.r == row) with
      | none => (.ok, s1)
      | some rc =>
        runDupHelpers Facts.C06.dupHelpers row row2
          { s1 with rows := placeCopy s1.rows row2 (bumpRow (row2 - row) rc) }
    | (st, s1) => (st, s1)

def duplicateRowTo (s : Sheet) (row row2 : Int) := duplicateRowToG false s row row2

def insertRows (s : Sheet) (row n : Int) := insertRowsG false s row n
def removeRow (s : Sheet) (row : Int) := removeRowG false s row
def insertCols (s : Sheet) (col : List Char) (n : Int) := insertColsG false s col n
def removeCol (s : Sheet) (col : List Char) := removeColG false s col

/-! ## Spec: the shift rule -/

namespace Spec

/-- insert `k` fresh positions before `num` -/
def insAt {α : Type} (num k : Int) (d : α) (f : Int → α) : Int → α :=
  fun i => if i < num then f i else if i < num + k then d else f (i - k)

/-- delete position `num` -/
def delAt {α : Type} (num : Int) (f : Int → α) : Int → α :=
  fun i => if i < num then f i else f (i + 1)

/-- where position `p` goes when `k` positions are inserted before `num` -/
def posIns (num k p : Int) : Int := if p < num then p else p + k

/-- where position `p ≠ num` goes when `num` is deleted -/
def posDel (num p : Int) : Int := if p < num then p else p - 1

/-- interval `[a,b]` under insertion: after → moves, spanning → grows, before → stays.
It is the hull of the images of its points. -/
def ivIns (num k a b : Int) : Int × Int := (posIns num k a, posIns num k b)

/-- interval `[a,b]` under deletion of `num`: `none` when it was exactly `[num,num]` -/
def ivDel (num a b : Int) : Option (Int × Int) :=
  if a = num ∧ b = num then none
  else some (if a ≤ num then a else a - 1, if b < num then b else b - 1)

end Spec

end XlModel.Adjust
