/-
Shared helpers for all models: outcomes, 64-bit wrap, hex codec for the line
protocol.  Core Lean only (the driver is linked as an executable).
-/
namespace XlModel

/-- Go's `int` is 64-bit two's complement: wrap an exact integer into range. -/
def wrap64 (x : Int) : Int :=
  let m : Int := 18446744073709551616
  let r := x % m
  if r ≥ 9223372036854775808 then r - m else r

def hexDigit (n : Nat) : Char :=
  if n < 10 then Char.ofNat (48 + n) else Char.ofNat (87 + n)

def hexVal (c : Char) : Option Nat :=
  let n := c.toNat
  if 48 ≤ n ∧ n ≤ 57 then some (n - 48)
  else if 97 ≤ n ∧ n ≤ 102 then some (n - 87)
  else if 65 ≤ n ∧ n ≤ 70 then some (n - 55)
  else none

/-- decode a hex string into a list of byte-valued characters (Go strings are
byte sequences; every model that cares works on bytes-as-`Char`). -/
def unhex : List Char → Option (List Char)
  | [] => some []
  | [_] => none
  | a :: b :: rest =>
    match hexVal a, hexVal b, unhex rest with
    | some x, some y, some r => some (Char.ofNat (x * 16 + y) :: r)
    | _, _, _ => none

def hex (s : List Char) : String :=
  String.ofList (s.flatMap fun c => [hexDigit (c.toNat / 16 % 16), hexDigit (c.toNat % 16)])

/-- UTF-8 bytes of a Lean string as byte-valued chars. -/
def bytesOf (s : String) : List Char :=
  s.toUTF8.toList.map fun b => Char.ofNat b.toNat

end XlModel
