/-
Model of the string payload path of a cell (C01):

  cell.go  trimCellValue, setCellString, setSharedString, xlsxSI.String
  lib.go   bstrMarshal, bstrEscapeAhead, bstrIllegalChar, bstrUnmarshal

Strings are sequences of Unicode scalar values (`List Char`): the property
quantifies over valid UTF-8 strings, and every Go function modelled here works
rune-wise on them (`utf8.RuneCountInString`, `[]rune(value)[:n]`,
`utf8.DecodeRuneInString`), or byte-wise on ASCII bytes only (the regular
expressions, `value[0]`, `value[len-1]` compared with 9,10,13,32 — a byte
below 0x80 is a whole rune in valid UTF-8).  UTF-8 decoding itself and
`encoding/xml` are parameters (see `Props/C01.lean`); the driver refuses
invalid UTF-8 on both sides.

`Impl` = the functions below (defined over the regenerated facts
`XlModel.Facts.C01`), `Spec` = `truncate` (what the property demands a written
string reads back as, in memory and after save + open).
-/
import XlModel.Basic
import XlModel.Generated.Facts
import XlModel.Generated.FactsC01

namespace XlModel.Bstr
open XlModel

/-- `[a-fA-F\d]` (RE2: `\d` is ASCII only) -/
def isHex (c : Char) : Bool :=
  (48 ≤ c.toNat && c.toNat ≤ 57) || (65 ≤ c.toNat && c.toNat ≤ 70) || (97 ≤ c.toNat && c.toNat ≤ 102)

def hexv (c : Char) : Nat :=
  if c.toNat ≤ 57 then c.toNat - 48 else if c.toNat ≤ 70 then c.toNat - 55 else c.toNat - 87

/-- `bstrIllegalChar` on a decoded, valid rune: outside the XML 1.0 `Char` range
(below 0x20 except TAB, LF, CR; U+FFFE; U+FFFF). -/
def illegal (c : Char) : Bool :=
  (c.toNat < Facts.C01.illegalBelow && !(Facts.C01.illegalExcept.contains c.toNat)) ||
    Facts.C01.illegalExtra.contains c.toNat

/-- `bstrEscapeExp` (`x[a-fA-F\d]{4}_`) matched against the next six bytes -/
def tailEsc : List Char → Bool
  | x :: a :: b :: c :: d :: u :: _ =>
    x == 'x' && isHex a && isHex b && isHex c && isHex d && u == '_'
  | _ => false

/-- `bstrEscapeAhead`: `xHHHH` followed by `_` or by a character that is stored escaped -/
def escapeAhead : List Char → Bool
  | x :: a :: b :: c :: d :: e :: _ =>
    x == 'x' && isHex a && isHex b && isHex c && isHex d && (e == '_' || illegal e)
  | _ => false

def hexUp (n : Nat) : Char := if n < 10 then Char.ofNat (48 + n) else Char.ofNat (55 + n)

/-- `fmt.Sprintf("%04X", n)` for `n < 65536` -/
def hex4 (n : Nat) : List Char :=
  [hexUp (n / 4096 % 16), hexUp (n / 256 % 16), hexUp (n / 16 % 16), hexUp (n % 16)]

/-- the replacement for an underscore: the first of `marshalLiterals` ("_x005F_") -/
def escUnderscore : List Char := ['_', 'x', '0', '0', '5', 'F', '_']

/-- `bstrMarshal` -/
def marshal : List Char → List Char
  | [] => []
  | c :: rest =>
    if c == '_' && escapeAhead rest then escUnderscore ++ marshal rest
    else if illegal c then ['_', 'x'] ++ hex4 c.toNat ++ ['_'] ++ marshal rest
    else c :: marshal rest

/-- `strconv.Unquote("\"\\uHHHH\"")`: the rune, or nothing for a surrogate code
(the error is ignored and the empty string appended). -/
def decode4 (a b c d : Char) : List Char :=
  let n := hexv a * 4096 + hexv b * 256 + hexv c * 16 + hexv d
  if 0xD800 ≤ n ∧ n ≤ 0xDFFF then [] else [Char.ofNat n]

def decodeEsc : List Char → List Char
  | _ :: a :: b :: c :: d :: _ => decode4 a b c d
  | _ => []

/-- `bstrUnmarshal`: leftmost non-overlapping matches of `bstrExp`; `skip` counts
the bytes of the current match still to be consumed.  (`_x005F_` is special-cased
in Go and yields "_", which is also what `\u005F` decodes to.) -/
def unmarshalAux : Nat → List Char → List Char
  | _, [] => []
  | k + 1, _ :: rest => unmarshalAux k rest
  | 0, c :: rest =>
    if c == '_' && tailEsc rest then decodeEsc rest ++ unmarshalAux 6 rest
    else c :: unmarshalAux 0 rest

def unmarshal (s : List Char) : List Char := unmarshalAux 0 s

/-- the rune-count truncation of `setCellString` / `trimCellValue` -/
def truncate (s : List Char) : List Char :=
  if s.length > Facts.TotalCellChars then s.take Facts.TotalCellChars else s

def isPreserve (c : Char) : Bool := Facts.C01.preserveBytes.contains c.toNat

/-- the `xml:space="preserve"` decision of `trimCellValue` (first or last byte in 9,10,13,32) -/
def needsPreserve : List Char → Bool
  | [] => false
  | c :: rest => isPreserve c || isPreserve ((c :: rest).getLast (List.cons_ne_nil _ _))

/-- `trimCellValue(value, false)`: the text handed to the XML encoder and the space flag -/
def trimCellValue (s : List Char) : List Char × Bool :=
  let v := truncate s
  (if Facts.C01.trimCellValueMarshals then marshal v else v, needsPreserve v)

/-- what `SetCellStr` puts into the shared string item: `setCellString` truncates,
`setSharedString` stores `trimCellValue`'s text (fact `sharedStringStoresEscaped`). -/
def storedText (s : List Char) : List Char :=
  let v := truncate s
  if Facts.C01.sharedStringStoresEscaped then (trimCellValue v).1 else v

/-- `xlsxSI.String()` for a plain item -/
def siString (t : List Char) : List Char := if t.isEmpty then [] else unmarshal t

/-- `GetCellValue` after `SetCellStr s` (in memory) -/
def readBack (s : List Char) : List Char := siString (storedText s)

/-- the same after save and open, for a given behaviour of the XML layer on character data -/
def readBackReopened (xml : List Char → List Char) (s : List Char) : List Char :=
  siString (xml (storedText s))

/-- the XML layer as observed on Go's `encoding/xml`: characters outside the XML 1.0
range are written as U+FFFD, everything else survives a write/read cycle (validated by
the correspondence, not proved). -/
def xmlGo (t : List Char) : List Char := t.map fun c => if illegal c then Char.ofNat 0xFFFD else c

/-- Spec: a written string reads back as itself, truncated to the cell limit -/
def spec (s : List Char) : List Char := truncate s

end XlModel.Bstr
