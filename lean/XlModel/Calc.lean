/-
C08 — formula evaluator core.

`Impl`: bug-compatible transcription of calc.go's shunting-yard machine
(`evalInfixExp` outside function calls, `parseToken`, `parseOperatorPrefixToken`,
`getPriority`, `calculate`, `calcAdd … calcSplice`, `calcEq … calcGe`,
`formulaArg.Value/ToNumber`, `tokenToFormulaArg`, `formulaArgToToken`,
`newNumberFormulaArg`) over an abstract numeric carrier `N` (`NumOps`).
It is *defined over* the facts regenerated from calc.go (`Facts.C08`): the
`tokenPriority` table, the prefix-minus priority, the two comparison operators
of `parseOperatorPrefixToken`, the `tokenCalcFunc` dispatch map, the error
codes and the percent divisor.

`Spec`: an expression AST (`Expr`) whose rendering puts parentheses according
to Excel's precedence levels, and Excel's coercion / comparison / error
propagation rules (`Spec.eval`).

Strings are byte lists (`Str = List Nat`): Go strings are byte sequences and
this keeps everything kernel-evaluable. Core Lean only.
-/
import XlModel.Generated.FactsC08

namespace XlModel.Calc
open XlModel.Facts.C08

abbrev Str := List Nat

/-- numeric carrier and the external functions the Go code calls on it
(`strconv.ParseFloat`, `fmt.Sprintf("%g")`, `math.Pow`, `math.IsNaN`); the Spec
additionally uses Excel's General number→text conversion and `isInf`. -/
class NumOps (N : Type) where
  zero : N
  one : N
  ofNat : Nat → N
  add : N → N → N
  sub : N → N → N
  mul : N → N → N
  div : N → N → N
  pow : N → N → N
  isZero : N → Bool
  isNaN : N → Bool
  isInf : N → Bool
  lt : N → N → Bool
  le : N → N → Bool
  eq : N → N → Bool
  /-- `fmt.Sprintf("%g", x)` -/
  fmtG : N → Str
  /-- `strconv.ParseFloat(s, 64)`; `none` = error -/
  parse : Str → Option N
  /-- Excel's General number → text conversion (Spec only) -/
  fmtGeneral : N → Str
  /-- `math.MaxFloat64` (sentinel of MIN / MAX) -/
  maxFloat : N

open NumOps

/-! ## strings -/

def sTRUE : Str := [84, 82, 85, 69]
def sFALSE : Str := [70, 65, 76, 83, 69]
def sMinus : Str := [45]
def sAmp : Str := [38]

def upByte (b : Nat) : Nat := if 97 ≤ b ∧ b ≤ 122 then b - 32 else b
def upper (s : Str) : Str := s.map upByte

/-- `strings.Compare` on byte strings: -1 / 0 / 1 as `Ordering` -/
def cmpStr : Str → Str → Ordering
  | [], [] => .eq
  | [], _ :: _ => .lt
  | _ :: _, [] => .gt
  | a :: as, b :: bs => if a < b then .lt else if b < a then .gt else cmpStr as bs

def lookup {β : Type} (k : Str) : List (Str × β) → Option β
  | [] => none
  | (k', v) :: rest => if k = k' then some v else lookup k rest

/-! ## tokens (efp.Token as far as the evaluator looks at it) -/

inductive Tok where
  | num (raw : Str)        -- Operand / Number
  | text (s : Str)         -- Operand / Text
  | logical (raw : Str)    -- Operand / Logical
  | ref (key : Str)        -- Operand / Range (a single cell; the key names the cell)
  | infixOp (sym : Str)    -- OperatorInfix
  | prefixOp (sym : Str)   -- OperatorPrefix
  | postfixOp (sym : Str)  -- OperatorPostfix
  | lpar                   -- Subexpression Start
  | rpar                   -- Subexpression Stop
  | other                  -- anything else the core ignores (operand subtype Error, …)
  | fstart (name : Str)    -- Function / Start
  | fstop                  -- Function / Stop
  | argsep                 -- Argument
  /-- Operand / Range inside a function call: the cells of the range (row-major; `[]` = the
  reference does not resolve) and the lookahead `evalInfixExp` performs on the next token
  (`nextToken.TType == Argument || Function`) -/
  | rangeArg (cells : List Str) (nextArgOrFn : Bool)
  /-- macro token (never produced by efp): a whole call `NAME(range, …, range)`; its step is the
  composition of the micro steps of `fstart`, the `rangeArg`/`argsep` tokens and `fstop` -/
  | call (name : Str) (args : List (List Str))
  deriving DecidableEq, Repr

/-- `token.TValue` -/
def Tok.tvalue : Tok → Str
  | .num r => r | .text s => s | .logical r => r | .ref k => k
  | .infixOp s => s | .prefixOp s => s | .postfixOp s => s
  | .lpar => [] | .rpar => [] | .other => []
  | .fstart n => n | .fstop => [] | .argsep => [44] | .rangeArg _ _ => [] | .call n _ => n

def Tok.isPrefixMinus (t : Tok) : Bool := t == .prefixOp sMinus
def Tok.isInfixMinus (t : Tok) : Bool := t == .infixOp sMinus

/-! ## Impl -/
namespace Impl

/-- `formulaArg` as it occurs on the operand stack of the core:
ArgNumber (with the Boolean flag), ArgString, ArgError (only `#NUM!` from a NaN). -/
inductive Arg (N : Type) where
  | num (x : N) (isBool : Bool)
  | str (s : Str)
  | err (msg : Str)
  deriving Repr, DecidableEq

/-- result kinds of `cellResolver` for a single cell -/
inductive CellArg (N : Type) where
  | num (x : N) (isBool : Bool)
  | str (s : Str)
  | err (msg : Str)
  | empty
  deriving Repr, DecidableEq

/-- text of a Go `error` / of `Value()` of a transient error argument -/
inductive EMsg where
  | lit (s : Str)          -- errors.New(s): "#DIV/0!", "#NUM!", "#NAME?", …
  | parseFloat (s : Str)   -- strconv.ParseFloat's message for input s
  deriving DecidableEq, Repr

inductive MErr where
  | msg (e : EMsg)
  | invalidFormula         -- ErrInvalidFormula
  | panic                  -- nil interface type assertion on an empty stack
  | unmodelled             -- a token sequence outside the modelled part of evalInfixExp
  deriving DecidableEq, Repr

variable {N : Type} [NumOps N]

/-- `newNumberFormulaArg` -/
def mkNum (x : N) : Arg N := if isNaN x || isInf x then .err formulaErrorNUM else .num x false

/-- `newBoolFormulaArg` -/
def mkBool (b : Bool) : Arg N := .num (if b then one else zero) true

/-- `formulaArg.Value()` -/
def value : Arg N → Str
  | .num x true => if isZero x then sFALSE else sTRUE
  | .num x false => fmtG x
  | .str s => s
  | .err m => m

/-- the struct field `.Number` -/
def numberField : Arg N → N
  | .num x _ => x
  | _ => zero

/-- `formulaArg.ToNumber()`: `.ok x` = ArgNumber x, `.error m` = ArgError whose Value() is m -/
def toNumber : Arg N → Except EMsg N
  | .str s => match parse s with
    | none => .error (.parseFloat s)
    | some x => if isNaN x || isInf x then .error (.lit formulaErrorNUM) else .ok x
  | .num x _ => if isNaN x || isInf x then .error (.lit formulaErrorNUM) else .ok x
  | .err _ => .ok zero

/-- `x.ToNumber().Number` -/
def toNumberField (a : Arg N) : N :=
  match toNumber a with
  | .ok x => x
  | .error _ => zero

def liftE {α : Type} : Except EMsg α → Except MErr α
  | .ok a => .ok a
  | .error e => .error (.msg e)

/-- `if opd.Value() == "" { opd = newNumberFormulaArg(0) }` -/
def blank0 (a : Arg N) : Arg N := if value a = [] then mkNum zero else a

/-- prefix minus and postfix %: a blank operand counts as 0, an error operand propagates, then
`ToNumber` (failing on text that is not numeric) and the arithmetic -/
def unaryNum (f : N → N) (a : Arg N) : Except MErr (Arg N) :=
  match blank0 a with
  | .err m => .error (.msg (.lit m))
  | a' => do
    let x ← liftE (toNumber a')
    pure (mkNum (f x))

/-- calcAdd / calcMultiply / calcPow (and the tail of calcSubtract): push one number -/
def arith (f : N → N → N) (r l : Arg N) : Except MErr (List (Arg N)) := do
  let a ← liftE (toNumber l)
  let b ← liftE (toNumber r)
  pure [mkNum (f a b)]

def calcDiv (r l : Arg N) : Except MErr (List (Arg N)) := do
  let a ← liftE (toNumber l)
  let b ← liftE (toNumber r)
  if isZero b then throw (.msg (.lit formulaErrorDIV))
  pure [mkNum (div a b)]

def calcSubtract (r l : Arg N) : Except MErr (List (Arg N)) :=
  match blank0 r, blank0 l with
  | .err m, _ => .error (.msg (.lit m))
  | _, .err m => .error (.msg (.lit m))
  | r', l' => arith sub r' l'

/-- `calcCompare`: numbers sort before text and text before logical values; numbers are compared
numerically (`<`, `>`), text by `strings.Compare` of the upper-cased strings (ASCII letters in
the model), FALSE before TRUE; `none` when an operand is neither (ArgError) -/
def calcCompare (l r : Arg N) : Option Ordering :=
  match l, r with
  | .err _, _ => none
  | _, .err _ => none
  | .str s, .str t => some (cmpStr (upper s) (upper t))
  | .num x bl, .num y br =>
    some (if bl = br then (if lt x y then .lt else if lt y x then .gt else .eq)
      else (if br then .lt else .gt))
  | .num _ bl, .str _ => some (if bl then .gt else .lt)
  | .str _, .num _ br => some (if br then .lt else .gt)

/-- calcL/calcLe/calcG/calcGe: push `f (calcCompare l r)` when the operands are comparable -/
def calcOrd (f : Ordering → Bool) (r l : Arg N) : List (Arg N) :=
  match calcCompare l r with
  | some o => [mkBool (f o)]
  | none => []

/-- `calcEqual`: scalar operands (ArgNumber / ArgString) are compared by type — different types
are never equal, numbers by `==` (and the Boolean flags must agree), text with
`strings.EqualFold` (modelled on ASCII letters); anything else by its `Value()` string -/
def calcEqual (r l : Arg N) : Bool :=
  match r, l with
  | .num y br, .num x bl => (bl == br) && eq x y
  | .str t, .str s => decide (upper s = upper t)
  | .num _ _, .str _ => false
  | .str _, .num _ _ => false
  | r, l => decide (value r = value l)

/-- body of each function named in the `tokenCalcFunc` map: the values it pushes (top first) -/
def runCalcFn (fn : CalcFn) (r l : Arg N) : Except MErr (List (Arg N)) :=
  match fn with
  | .calcPow => do
    let a ← liftE (toNumber l)
    let b ← liftE (toNumber r)
    if isZero a && isZero b then throw (.msg (.lit formulaErrorNUM))
    if isZero a && lt b zero then throw (.msg (.lit formulaErrorDIV))
    pure [mkNum (pow a b)]
  | .calcMultiply => arith mul r l
  | .calcAdd => arith add r l
  | .calcDiv => calcDiv r l
  | .calcEq => pure [mkBool (calcEqual r l)]
  | .calcNEq => pure [mkBool (!calcEqual r l)]
  | .calcL => pure (calcOrd (· == .lt) r l)
  | .calcLe => pure (calcOrd (· != .gt) r l)
  | .calcG => pure (calcOrd (· == .gt) r l)
  | .calcGe => pure (calcOrd (· != .lt) r l)
  | .calcSplice => pure [.str (value l ++ value r)]

/-- `calculate(opdStack, opt)`: three sequential `if`s -/
def calculate (opd : List (Arg N)) (opt : Tok) : Except MErr (List (Arg N)) := do
  let opd1 ← (if opt.isPrefixMinus then
      match opd with
      | [] => .error .invalidFormula
      | x :: rest => do let v ← unaryNum (fun y => sub zero y) x; pure (v :: rest)
    else pure opd : Except MErr (List (Arg N)))
  let opd2 ← (if opt.isInfixMinus then
      match opd1 with
      | r :: l :: rest => do let p ← calcSubtract r l; pure (p ++ rest)
      | _ => .error .invalidFormula
    else pure opd1 : Except MErr (List (Arg N)))
  match lookup opt.tvalue tokenCalcFunc with
  | none => pure opd2
  | some fn =>
    match opd2 with
    | r :: l :: rest =>
      let r' := if opt.tvalue ≠ sAmp then blank0 r else r
      let l' := if opt.tvalue ≠ sAmp then blank0 l else l
      match r', l' with
      | .err m, _ => .error (.msg (.lit m))
      | _, .err m => .error (.msg (.lit m))
      | _, _ => do let p ← runCalcFn fn r' l'; pure (p ++ rest)
    | _ => .error .invalidFormula

/-- `getPriority` -/
def getPriority (t : Tok) : Nat :=
  match t with
  | .fstart _ => 0   -- `if token.TType == efp.TokenTypeFunction { return }`
  | .fstop => 0
  | _ =>
  let pri := (lookup t.tvalue tokenPriority).getD 0
  let pri := if t.isPrefixMinus then prefixMinusPriority else pri
  if t = .lpar then beginParenPriority else pri

/-- `isOperatorPrefixToken` -/
def isOperatorPrefixToken (t : Tok) : Bool :=
  t.isPrefixMinus || (match t with
    | .infixOp s => (lookup s tokenPriority).isSome
    | _ => false)

/-- `isOperand` -/
def isOperand : Tok → Bool
  | .num _ => true | .text _ => true | .logical _ => true
  | _ => false

/-- `tokenToFormulaArg` -/
def tokenToArg : Tok → Arg N
  | .logical raw => mkBool (upper raw = sTRUE)
  | .num raw => mkNum ((parse raw).getD zero)
  | t => .str t.tvalue

/-- `formulaArgToToken` -/
def argToTok : CellArg N → Tok
  | .num x true => .logical (if isZero x then sFALSE else sTRUE)
  | .num x false => .num (fmtG x)
  | .str s => .text s
  | .err m => .text m
  | .empty => .text []


/-! ### the seven aggregates over the elements of range arguments

`cells` are the elements of the matrices `rangeResolver` builds for the range arguments, in
argument order, row-major: `cellResolver`'s result per cell (a formula cell whose evaluation
fails is `empty`).  Transcription of the `ArgMatrix` branches of SUM, AVERAGE (`countSum`),
COUNT, COUNTA, MAX/MIN (`calcListMatrixMax/Min`, sentinel ∓MaxFloat64) and PRODUCT. -/

inductive AggFn where
  | sum | average | count | counta | min | max | product
  deriving DecidableEq, Repr

def sumStep (s : N) : CellArg N → N
  | .num x _ => if isNaN x || isInf x then s else add s x   -- value.ToNumber() is ArgError for NaN / ±Inf
  | .str t => match parse t with
    | some y => if isNaN y || isInf y then s else add s y     -- e.g. the text "inf", "NaN"
    | none => s
  | .err _ => add s zero
  | .empty => add s zero

/-- `countSum(false, …)` on one element: (count, sum) -/
def avgStep (cs : N × N) : CellArg N → N × N
  | .num x false => (add cs.1 one, add cs.2 x)
  | .num _ true => cs
  | .str t =>
    if t = sTRUE ∨ t = sFALSE then cs
    else match parse t with
      | some y => if isNaN y || isInf y then cs else (add cs.1 one, add cs.2 y)
      | none => cs
  | _ => cs

def countStep (n : Nat) : CellArg N → Nat
  | .num _ _ => n + 1
  | _ => n

def countaStep (n : Nat) : CellArg N → Nat
  | .num _ _ => n + 1
  | .str t => if t = [] then n else n + 1
  | _ => n

def maxStep (m : N) : CellArg N → N
  | .num x b => if lt m x then (if b then m else x) else m
  | _ => m

def minStep (m : N) : CellArg N → N
  | .num x b => if lt x m then (if b then m else x) else m
  | _ => m

def productStep (p : N) : CellArg N → N
  | .num x _ => mul p x
  | _ => p

def aggregate (fn : AggFn) (cells : List (CellArg N)) : Except MErr (Arg N) :=
  match fn with
  | .sum => pure (mkNum (cells.foldl sumStep zero))
  | .average =>
    let cs := cells.foldl avgStep (zero, zero)
    if isZero cs.1 then .error (.msg (.lit formulaErrorDIV)) else pure (mkNum (div cs.2 cs.1))
  | .count => pure (mkNum (ofNat (cells.foldl countStep 0)))
  | .counta => pure (mkNum (ofNat (cells.foldl countaStep 0)))
  | .max =>
    let m0 : N := sub zero maxFloat
    let m := cells.foldl maxStep m0
    pure (mkNum (if eq m m0 then zero else m))
  | .min =>
    let m := cells.foldl minStep maxFloat
    pure (mkNum (if eq m maxFloat then zero else m))
  | .product => pure (mkNum (cells.foldl productStep one))

abbrev State (N : Type) := List (Arg N) × List Tok   -- (opdStack, optStack), tops first

/-- the `for tokenPriority <= topOptPriority` loop of parseOperatorPrefixToken -/
def popLoop (p : Nat) : List Tok → List (Arg N) → Except MErr (State N)
  | [], opd => pure (opd, [])
  | t :: rest, opd =>
    if loopCmp p (getPriority t) then do
      let opd' ← calculate opd t
      popLoop p rest opd'
    else pure (opd, t :: rest)

/-- `parseOperatorPrefixToken` -/
def parseOperatorPrefixToken (tok : Tok) (opd : List (Arg N)) (opt : List Tok) : Except MErr (State N) :=
  match opt with
  | [] => pure (opd, [tok])
  | top :: rest =>
    if top.isPrefixMinus && tok.isPrefixMinus then pure (opd, rest)
    else if pushCmp (getPriority tok) (getPriority top) then pure (opd, tok :: top :: rest)
    else do
      let (opd', opt') ← popLoop (getPriority tok) (top :: rest) opd
      pure (opd', tok :: opt')

/-- the `)` loop of parseToken -/
def closeParen : List Tok → List (Arg N) → Except MErr (State N)
  | [], _ => .error .panic
  | t :: rest, opd =>
    if t = .lpar then pure (opd, rest)
    else do
      let opd' ← calculate opd t
      closeParen rest opd'

/-- `parseToken` (on one token, given operand and operator stacks) -/
def parseTokenCore (env : Str → Option (CellArg N)) (tok : Tok) (st : State N) : Except MErr (State N) := do
  let (opd, opt) := st
  let tok ← (match tok with
    | .ref k => match env k with
      | none => .error (.msg (.lit formulaErrorNAME))
      | some c => pure (argToTok c)
    | t => pure t : Except MErr Tok)
  let (opd, opt) ← (if isOperatorPrefixToken tok then parseOperatorPrefixToken tok opd opt
    else pure (opd, opt) : Except MErr (State N))
  let opt := if tok = .lpar then tok :: opt else opt
  let (opd, opt) ← (if tok = .rpar then closeParen opt opd else pure (opd, opt) : Except MErr (State N))
  let opd ← (match tok, opd with
    | .postfixOp _, x :: rest => do
      let v ← unaryNum (fun y => div y (ofNat percentDivisor)) x
      pure (v :: rest)
    | _, o => pure o : Except MErr (List (Arg N)))
  let opd := if isOperand tok then tokenToArg tok :: opd else opd
  pure (opd, opt)

/-! ### function calls: the in-function branch of `evalInfixExp` for calls that are not nested in
another call and whose arguments are range references

State of the function stacks while such a call is open: the function's name (opfStack /
opftStack hold its start token, opfdStack is empty) and the argument list (argsStack top). -/

def sInvalidRef : Str := [105, 110, 118, 97, 108, 105, 100, 32, 114, 101, 102, 101, 114, 101, 110, 99, 101]

def aggOfName (n : Str) : Option AggFn :=
  if n = [83, 85, 77] then some .sum
  else if n = [65, 86, 69, 82, 65, 71, 69] then some .average
  else if n = [67, 79, 85, 78, 84] then some .count
  else if n = [67, 79, 85, 78, 84, 65] then some .counta
  else if n = [77, 73, 78] then some .min
  else if n = [77, 65, 88] then some .max
  else if n = [80, 82, 79, 68, 85, 67, 84] then some .product
  else none

abbrev FState (N : Type) := State N × Option (Str × List (CellArg N))

/-- the element `cellResolver` delivers for a cell of a range (`none` in env = never written) -/
def cellOf (env : Str → Option (CellArg N)) (k : Str) : CellArg N := (env k).getD .empty

/-- one iteration of the loop of `evalInfixExp` -/
def stepF (env : Str → Option (CellArg N)) (t : Tok) (s : FState N) : Except MErr (FState N) :=
  match s.2 with
  | none =>
    match t with
    | .fstart name =>
      -- parseToken on the outer stacks does nothing for a function token; then
      -- opfStack.Push, argsStack.Push(list.New()), opftStack.Push
      if name = [65, 82, 82, 65, 89] ∨ name = [65, 82, 82, 65, 89, 82, 79, 87] then .error .unmodelled
      else pure (s.1, some (name, []))
    | .fstop => pure s           -- "array constant out of function stack" branch: flags only
    | .argsep => pure s
    | .rangeArg _ _ => .error .unmodelled
    | .call _ _ => .error .unmodelled
    | t => do let st' ← parseTokenCore env t s.1; pure (st', none)
  | some (name, args) =>
    match t with
    | .rangeArg cells true =>
      -- opftStack.Peek() == opfStack.Peek(), next token is an argument separator or the stop:
      -- parseReference, argsStack.Peek().PushBack(result)
      if cells = [] then .error (.msg (.lit sInvalidRef))
      else pure (s.1, some (name, args ++ cells.map (cellOf env)))
    | .argsep => pure s          -- nothing pending on opftStack / opfdStack
    | .fstop =>
      -- evalInfixExpFunc: call the function; an error result aborts, otherwise pop the function
      -- stacks and push the result on opdStack
      match aggOfName name with
      | none => .error .unmodelled
      | some fn =>
        match aggregate fn args with
        | .ok v => pure ((v :: s.1.1, s.1.2), none)
        | .error e => .error e
    | _ => .error .unmodelled

def runF (env : Str → Option (CellArg N)) : List Tok → FState N → Except MErr (FState N)
  | [], s => pure s
  | t :: ts, s => do
    let s' ← stepF env t s
    runF env ts s'

/-- the micro tokens of a call -/
def expandArgs : List (List Str) → List Tok
  | [] => []
  | [a] => [.rangeArg a true]
  | a :: b :: rest => .rangeArg a true :: .argsep :: expandArgs (b :: rest)

def expandCall (name : Str) (args : List (List Str)) : List Tok :=
  .fstart name :: (expandArgs args ++ [.fstop])

/-- `parseToken` extended by the macro token `call`: run its micro tokens -/
def parseToken (env : Str → Option (CellArg N)) (tok : Tok) (st : State N) : Except MErr (State N) :=
  match tok with
  | .call name args =>
    match runF env (expandCall name args) (st, none) with
    | .ok (st', none) => .ok st'
    | .ok (_, some _) => .error .unmodelled
    | .error e => .error e
  | t => parseTokenCore env t st

def run (env : Str → Option (CellArg N)) : List Tok → State N → Except MErr (State N)
  | [], st => pure st
  | t :: ts, st => do
    let st' ← parseToken env t st
    run env ts st'

/-- the final `for optStack.Len() != 0` loop -/
def flush : List Tok → List (Arg N) → Except MErr (List (Arg N))
  | [], opd => pure opd
  | t :: rest, opd => do
    let opd' ← calculate opd t
    flush rest opd'

/-- `evalInfixExp` on a token stream without function calls -/
def evalTokens (env : Str → Option (CellArg N)) (ts : List Tok) : Except MErr (Arg N) := do
  let (opd, opt) ← run env ts ([], [])
  let opd ← flush opt opd
  match opd with
  | [] => .error .invalidFormula
  | v :: _ => pure v

/-- replace every macro token by its micro tokens: the stream efp produces -/
def flatten : List Tok → List Tok
  | [] => []
  | .call n a :: rest => expandCall n a ++ flatten rest
  | t :: rest => t :: flatten rest

/-- `evalInfixExp` on the real (flat) token stream -/
def evalTokensF (env : Str → Option (CellArg N)) (ts : List Tok) : Except MErr (Arg N) := do
  let s ← runF env ts (([], []), none)
  let opd ← flush s.1.2 s.1.1
  match opd with
  | [] => .error .invalidFormula
  | v :: _ => pure v

end Impl

/-! ## expression trees and their rendering (Excel's precedence by construction) -/

inductive Op where
  | pow | mul | div | add | sub | concat | eq | ne | lt | le | gt | ge
  deriving DecidableEq, Repr

/-- the operator's spelling -/
def Op.sym : Op → Str
  | .pow => [94] | .mul => [42] | .div => [47] | .add => [43] | .sub => [45] | .concat => [38]
  | .eq => [61] | .ne => [60, 62] | .lt => [60] | .le => [60, 61] | .gt => [62] | .ge => [62, 61]

/-- Excel's precedence: comparisons < & < + - < * / < ^ < unary minus < % -/
def Op.level : Op → Nat
  | .pow => 5 | .mul => 4 | .div => 4 | .add => 3 | .sub => 3 | .concat => 2
  | _ => 1

inductive Expr where
  | num (raw : Str)
  | text (s : Str)
  | logical (raw : Str)
  | ref (key : Str)
  | neg (e : Expr)
  | pct (e : Expr)
  | bin (op : Op) (l r : Expr)
  | paren (e : Expr)
  /-- `NAME(range, …, range)`: each argument is the list of cells of the range -/
  | call (name : Str) (args : List (List Str))
  deriving Repr

def Expr.level : Expr → Nat
  | .neg _ => 6
  | .pct _ => 7
  | .bin op _ _ => op.level
  | _ => 8

def wrap (b : Bool) (ts : List Tok) : List Tok := if b then .lpar :: (ts ++ [.rpar]) else ts

/-- token stream of `e` in a context that needs precedence level ≥ `p`
(left-associative binary operators: left child at the operator's level, right child one above) -/
def render (p : Nat) : Expr → List Tok
  | .num raw => [.num raw]
  | .text s => [.text s]
  | .logical raw => [.logical raw]
  | .ref k => [.ref k]
  | .neg e => wrap (decide (6 < p)) (.prefixOp sMinus :: render 6 e)
  | .pct e => wrap (decide (7 < p)) (render 7 e ++ [.postfixOp [37]])
  | .bin op l r => wrap (decide (op.level < p)) (render op.level l ++ .infixOp op.sym :: render (op.level + 1) r)
  | .paren e => .lpar :: (render 1 e ++ [.rpar])
  | .call n a => [.call n a]

namespace Impl
variable {N : Type} [NumOps N]

/-- what `calculate` does for one binary operator on (left, right), single-valued -/
def applyBin (op : Op) (l r : Arg N) : Except MErr (Arg N) :=
  match op with
  | .sub =>
    match blank0 r, blank0 l with
    | .err m, _ => .error (.msg (.lit m))
    | _, .err m => .error (.msg (.lit m))
    | r', l' => do
      let a ← liftE (toNumber l')
      let b ← liftE (toNumber r')
      pure (mkNum (sub a b))
  | .concat =>
    match r, l with
    | .err m, _ => .error (.msg (.lit m))
    | _, .err m => .error (.msg (.lit m))
    | _, _ => pure (.str (value l ++ value r))
  | op =>
    match blank0 r, blank0 l with
    | .err m, _ => .error (.msg (.lit m))
    | _, .err m => .error (.msg (.lit m))
    | r', l' =>
      let ar (f : N → N → N) : Except MErr (Arg N) := do
        let a ← liftE (toNumber l')
        let b ← liftE (toNumber r')
        pure (mkNum (f a b))
      let ord (f : Ordering → Bool) : Except MErr (Arg N) :=
        match calcCompare l' r' with
        | some o => pure (mkBool (f o))
        | none => .error .panic
      match op with
      | .pow => do
        let a ← liftE (toNumber l')
        let b ← liftE (toNumber r')
        if isZero a && isZero b then throw (.msg (.lit formulaErrorNUM))
        if isZero a && lt b zero then throw (.msg (.lit formulaErrorDIV))
        pure (mkNum (pow a b))
      | .mul => ar mul
      | .add => ar add
      | .div => do
        let a ← liftE (toNumber l')
        let b ← liftE (toNumber r')
        if isZero b then throw (.msg (.lit formulaErrorDIV))
        pure (mkNum (div a b))
      | .eq => pure (mkBool (calcEqual r' l'))
      | .ne => pure (mkBool (!calcEqual r' l'))
      | .lt => ord (· == .lt)
      | .le => ord (· != .gt)
      | .gt => ord (· == .gt)
      | .ge => ord (· != .lt)
      | _ => .error .panic

/-- value of a call `NAME(range, …)` whose arguments are ranges: the first argument that does not
resolve aborts with "invalid reference"; otherwise the aggregate over all cells -/
def callArgs (env : Str → Option (CellArg N)) : List (List Str) → List (CellArg N) → Except MErr (List (CellArg N))
  | [], acc => pure acc
  | a :: rest, acc => if a = [] then .error (.msg (.lit sInvalidRef)) else callArgs env rest (acc ++ a.map (cellOf env))

def callValue (env : Str → Option (CellArg N)) (name : Str) (args : List (List Str)) : Except MErr (Arg N) :=
  if name = [65, 82, 82, 65, 89] ∨ name = [65, 82, 82, 65, 89, 82, 79, 87] then .error .unmodelled
  else
    match callArgs env args [] with
    | .error e => .error e
    | .ok cells =>
      match aggOfName name with
      | none => .error .unmodelled
      | some fn => aggregate fn cells

def negate (a : Arg N) : Except MErr (Arg N) := unaryNum (fun y => sub zero y) a
def percent (a : Arg N) : Except MErr (Arg N) := unaryNum (fun y => div y (ofNat percentDivisor)) a

/-- structural evaluator with excelize's own operand semantics (including the
`--x` cancellation of parseOperatorPrefixToken) -/
def evalTree (env : Str → Option (CellArg N)) : Expr → Except MErr (Arg N)
  | .num raw => pure (tokenToArg (.num raw))
  | .text s => pure (tokenToArg (.text s))
  | .logical raw => pure (tokenToArg (.logical raw))
  | .ref k => match env k with
    | none => .error (.msg (.lit formulaErrorNAME))
    | some c => pure (tokenToArg (argToTok c))
  | .neg (.neg e) => evalTree env e
  | .neg e => do let v ← evalTree env e; negate v
  | .pct e => do let v ← evalTree env e; percent v
  | .bin op l r => do
    let a ← evalTree env l
    let b ← evalTree env r
    applyBin op a b
  | .paren e => evalTree env e
  | .call n a => callValue env n a

end Impl

/-! ## Spec: Excel's operator semantics on the tree -/
namespace Spec

inductive ErrCode where
  | div0 | value | name | num | ref | na
  deriving DecidableEq, Repr

inductive Val (N : Type) where
  | num (x : N)
  | text (s : Str)
  | bool (b : Bool)
  | blank
  | err (c : ErrCode)
  deriving Repr, DecidableEq

variable {N : Type} [NumOps N]

def mkNum (x : N) : Val N := if isNaN x || isInf x then .err .num else .num x

/-- coercion to number in arithmetic context -/
def toNum : Val N → Except ErrCode N
  | .num x => .ok x
  | .bool b => .ok (if b then one else zero)
  | .blank => .ok zero
  | .text s => match parse s with
    | some x => .ok x
    | none => .error .value
  | .err c => .error c

/-- coercion to text for `&` -/
def toText : Val N → Except ErrCode Str
  | .num x => .ok (fmtGeneral x)
  | .bool b => .ok (if b then sTRUE else sFALSE)
  | .blank => .ok []
  | .text s => .ok s
  | .err c => .error c

def ofExcept : Except ErrCode (Val N) → Val N
  | .ok v => v
  | .error c => .err c

/-- error values among the operands propagate (left first) before any coercion is attempted -/
def operandErr (a b : Val N) : Option ErrCode :=
  match a, b with
  | .err c, _ => some c
  | _, .err c => some c
  | _, _ => none

def arith (f : N → N → Val N) (a b : Val N) : Val N :=
  match operandErr a b with
  | some c => .err c
  | none => ofExcept (do let x ← toNum a; let y ← toNum b; pure (f x y))

def powSpec (x y : N) : Val N :=
  if isZero x && isZero y then .err .num
  else if isZero x && lt y zero then .err .div0
  else mkNum (pow x y)

/-- Excel's ordering of two non-error values: numbers < text < booleans, blank takes the
type of the other side, text compared case-insensitively -/
def cmp (a b : Val N) : Ordering :=
  let ordNum (x y : N) : Ordering := if lt x y then .lt else if eq x y then .eq else .gt
  let ordBool (x y : Bool) : Ordering := if x = y then .eq else if y then .lt else .gt
  let ordText (s t : Str) : Ordering := cmpStr (upper s) (upper t)
  match a, b with
  | .num x, .num y => ordNum x y
  | .num x, .blank => ordNum x zero
  | .blank, .num y => ordNum zero y
  | .text s, .text t => ordText s t
  | .text s, .blank => ordText s []
  | .blank, .text t => ordText [] t
  | .bool x, .bool y => ordBool x y
  | .bool x, .blank => ordBool x false
  | .blank, .bool y => ordBool false y
  | .blank, .blank => .eq
  | .num _, .text _ => .lt
  | .num _, .bool _ => .lt
  | .text _, .bool _ => .lt
  | .text _, .num _ => .gt
  | .bool _, .num _ => .gt
  | .bool _, .text _ => .gt
  | _, _ => .eq

def compare (f : Ordering → Bool) (a b : Val N) : Val N :=
  match a, b with
  | .err c, _ => .err c
  | _, .err c => .err c
  | _, _ => .bool (f (cmp a b))

def binop (op : Op) (a b : Val N) : Val N :=
  match op with
  | .add => arith (fun x y => mkNum (add x y)) a b
  | .sub => arith (fun x y => mkNum (sub x y)) a b
  | .mul => arith (fun x y => mkNum (mul x y)) a b
  | .div => arith (fun x y => if isZero y then .err .div0 else mkNum (div x y)) a b
  | .pow => arith powSpec a b
  | .concat => ofExcept (do let s ← toText a; let t ← toText b; pure (.text (s ++ t)))
  | .eq => compare (· == .eq) a b
  | .ne => compare (· != .eq) a b
  | .lt => compare (· == .lt) a b
  | .le => compare (· != .gt) a b
  | .gt => compare (· == .gt) a b
  | .ge => compare (· != .lt) a b

def neg (a : Val N) : Val N := ofExcept (do let x ← toNum a; pure (mkNum (sub zero x)))
def pct (a : Val N) : Val N := ofExcept (do let x ← toNum a; pure (mkNum (div x (ofNat 100))))

/-! ### aggregates: Excel's folds over the cells of range arguments -/

/-- the numbers among the referenced cells (text, booleans and blanks inside a range are ignored) -/
def numbers : List (Val N) → List N
  | [] => []
  | .num x :: rest => x :: numbers rest
  | _ :: rest => numbers rest

def firstErr : List (Val N) → Option ErrCode
  | [] => none
  | .err c :: _ => some c
  | _ :: rest => firstErr rest

def nonBlank : List (Val N) → Nat
  | [] => 0
  | .blank :: rest => nonBlank rest
  | _ :: rest => nonBlank rest + 1

def maxOf (x : N) (xs : List N) : N := xs.foldl (fun m y => if lt m y then y else m) x
def minOf (x : N) (xs : List N) : N := xs.foldl (fun m y => if lt y m then y else m) x

def aggregate (fn : Impl.AggFn) (cells : List (Val N)) : Val N :=
  let ns := numbers cells
  match fn with
  | .count => .num (ofNat ns.length)
  | .counta => .num (ofNat (nonBlank cells))
  | fn =>
    match firstErr cells with
    | some c => .err c
    | none =>
      match fn with
      | .sum => mkNum (ns.foldl add zero)
      | .average =>
        match ns with
        | [] => .err .div0
        | _ => mkNum (div (ns.foldl add zero) (ns.foldl (fun c _ => add c one) zero))
      | .max => match ns with
        | [] => .num zero
        | x :: xs => .num (maxOf x xs)
      | .min => match ns with
        | [] => .num zero
        | x :: xs => .num (minOf x xs)
      | .product => match ns with
        | [] => .num zero
        | _ => mkNum (ns.foldl mul one)
      | _ => .num zero

/-- reference evaluator on the tree; `env` gives the current content of the referenced cells -/
def eval (env : Str → Option (Val N)) : Expr → Val N
  | .num raw => match parse raw with
    | some x => .num x
    | none => .err .value
  | .text s => .text s
  | .logical raw => .bool (upper raw = sTRUE)
  | .ref k => match env k with
    | some v => v
    | none => .err .name
  | .neg e => neg (eval env e)
  | .pct e => pct (eval env e)
  | .bin op l r => binop op (eval env l) (eval env r)
  | .paren e => eval env e
  | .call n a =>
    if a.any (· == []) then .err .name
    else match Impl.aggOfName n with
      | none => .err .name
      | some fn => aggregate fn (a.flatten.map fun k => (env k).getD .blank)


/-- a formula whose value is a blank reference shows 0 -/
def top : Val N → Val N
  | .blank => .num zero
  | v => v

end Spec

/-! ## defined names (lib.go `getDefinedNameRefTo`) -/

/-- one entry of `GetDefinedName()`: scope is `"Workbook"` or a sheet name -/
structure DefName where
  name : Str
  scope : Str
  refersTo : Str
  deriving DecidableEq, Repr

def sWorkbook : Str := [87, 111, 114, 107, 98, 111, 111, 107]

namespace Impl

/-- the loop of `getDefinedNameRefTo`: (workbookRefTo, worksheetRefTo), later entries overwrite -/
def scanNames (n cur : Str) : List DefName → Str × Str → Str × Str
  | [], acc => acc
  | d :: rest, (wb, ws) =>
    if d.name = n then
      let wb' := if d.scope = sWorkbook then d.refersTo else wb
      let ws' := if d.scope = cur then d.refersTo else ws
      scanNames n cur rest (wb', ws')
    else scanNames n cur rest (wb, ws)

/-- `getDefinedNameRefTo(name, currentSheet)`: worksheet scope wins when it is non-empty;
`[]` = no visible definition (the token keeps its text) -/
def definedNameRefTo (defs : List DefName) (n cur : Str) : Str :=
  let r := scanNames n cur defs ([], [])
  if r.2 ≠ [] then r.2 else r.1

end Impl

namespace Spec

/-- Excel's rule: a name scoped to the formula's sheet shadows the workbook-scoped one; a name
scoped to another sheet is not visible -/
def resolveName (defs : List DefName) (n cur : Str) : Option Str :=
  match defs.find? (fun d => d.name = n ∧ d.scope = cur) with
  | some d => some d.refersTo
  | none => (defs.find? (fun d => d.name = n ∧ d.scope = sWorkbook)).map (·.refersTo)

end Spec

end XlModel.Calc
