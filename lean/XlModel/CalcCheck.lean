/-
C08 — executable mirror of the hypotheses of `calc_correct_partial` (`NoDeviant`, `Compatible`,
`CompatOrd`, `CompatEq`, `NegOK`, `PctOK`, `EnvRel` at the referenced cells) used by the driver
only: on every transcript line whose tree satisfies the mirror, the driver checks the
theorem's conclusion (Impl outcome related to the Spec value by `R`) on the `Float`
instance and marks the line `THM-FAIL` otherwise, so a hypothesis set that does not match the
real arithmetic shows up as a correspondence difference.  Core Lean only.
-/
import XlModel.Calc

namespace XlModel.Calc.Check
open XlModel.Calc NumOps

variable {N : Type} [NumOps N]

def isErr : Spec.Val N → Bool
  | .err _ => true
  | _ => false

def finite (x : N) : Bool := !isNaN x && !isInf x

def cleanB : Spec.Val N → Bool
  | .num x => !isNaN x && !isInf x
  | .text s => match (parse s : Option N) with
    | some x => !isNaN x && !isInf x
    | none => true
  | _ => true

def emptyText : Spec.Val N → Bool
  | .text [] => true
  | _ => false

def arithOperands (a b : Spec.Val N) : Bool :=
  !isErr a && !isErr b && !emptyText a && !emptyText b && cleanB a && cleanB b

def both (a b : Spec.Val N) (f : N → N → Bool) : Bool :=
  match Spec.toNum a, Spec.toNum b with
  | .ok x, .ok y => f x y
  | _, _ => true

def plainNum : Spec.Val N → Bool
  | .num x => fmtG x == fmtGeneral x
  | _ => true

def compatOrd : Spec.Val N → Spec.Val N → Bool
  | .num x, .num y => !isNaN x && !isNaN y
  | .num x, .blank => !isNaN x
  | .blank, .num y => !isNaN y
  | .blank, .blank => true
  | .text s, .text t => s != [] && t != []
  | .num _, .text t => t != []
  | .text s, .num _ => s != []
  | .blank, .text t => t != []
  | .text s, .blank => s != []
  | .bool _, .bool _ => true
  | .bool _, .num _ => true
  | .num _, .bool _ => true
  | .bool _, .text t => t != []
  | .text s, .bool _ => s != []
  | .bool p, .blank => p
  | .blank, .bool q => q
  | _, _ => false

def compatEq : Spec.Val N → Spec.Val N → Bool
  | .num _, .num _ => true
  | .num _, .blank => true
  | .blank, .num _ => true
  | .blank, .blank => true
  | .text s, .text t => s != [] && t != []
  | .num _, .text t => t != []
  | .text s, .num _ => s != []
  | .blank, .text t => t != []
  | .text s, .blank => s != []
  | .bool _, .bool _ => true
  | .bool _, .num _ => true
  | .num _, .bool _ => true
  | .bool _, .text t => t != []
  | .text s, .bool _ => s != []
  | .bool p, .blank => p
  | .blank, .bool q => q
  | _, _ => false

def compatible (op : Op) (a b : Spec.Val N) : Bool :=
  match op with
  | .add => arithOperands a b && both a b fun x y => finite (add x y)
  | .sub => arithOperands a b && both a b fun x y => finite (sub x y)
  | .mul => arithOperands a b && both a b fun x y => finite (mul x y)
  | .div => arithOperands a b && both a b fun x y => isZero y || finite (div x y)
  | .pow => arithOperands a b && both a b fun x y =>
      !(!isZero x || (!isZero y && !lt y zero)) || finite (pow x y)
  | .concat => !isErr a && !isErr b && plainNum a && plainNum b
  | .lt => compatOrd a b
  | .le => compatOrd a b
  | .gt => compatOrd a b
  | .ge => compatOrd a b
  | .eq => compatEq a b
  | .ne => compatEq a b

def b2n (b : Bool) : N := if b then one else zero

def unaryOK (f : N → N) : Spec.Val N → Bool
  | .err _ => true
  | a => !emptyText a && cleanB a && (match Spec.toNum a with
    | .ok x => finite (f x)
    | .error _ => true)

def negOK (a : Spec.Val N) : Bool := unaryOK (fun x : N => sub zero x) a
def pctOK (a : Spec.Val N) : Bool := unaryOK (fun x : N => div x (ofNat 100)) a

def isNeg : Expr → Bool
  | .neg _ => true
  | _ => false

/-- mirror of `NoDeviant`; `refOK k` = the EnvRel condition at cell k -/
def noDeviant (envS : Str → Option (Spec.Val N)) (refOK : Str → Bool) : Expr → Bool
  | .num raw => match (parse raw : Option N) with
    | some x => !isNaN x && !isInf x
    | none => false
  | .text _ => true
  | .logical _ => true
  | .ref k => refOK k
  | .paren e => noDeviant envS refOK e
  | .call _ _ => false   -- aggregates are outside calc_correct_partial (their deviations: agg:* findings)
  | .neg e => noDeviant envS refOK e && !isNeg e && negOK (Spec.eval envS e)
  | .pct e => noDeviant envS refOK e && pctOK (Spec.eval envS e)
  | .bin op l r => noDeviant envS refOK l && noDeviant envS refOK r &&
      (isErr (Spec.eval envS l) || isErr (Spec.eval envS r) ||
        compatible op (Spec.eval envS l) (Spec.eval envS r))

end XlModel.Calc.Check
