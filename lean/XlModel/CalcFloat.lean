/-
C08 — the executable `Float` instance of `Calc.NumOps` used by the driver only
(no theorem mentions it).  Exact `Nat` arithmetic implementations of
`strconv.ParseFloat` (decimal grammar + inf/nan), the shortest round-trip digits
and `%g` layout of `fmt.Sprintf("%g")`, a 15-significant-digit General
rendering for the Spec, and a transcription of Go's `math.Pow` (bit-exact for
integer and ±0.5 exponents; other exponents go through `exp (yf * log x)` and
are compared with a tolerance by the driver).  Every conversion that occurs in a
transcript is compared with Go's result, so a mistake here shows up as a
correspondence difference, not as a wrong verdict.
-/
import XlModel.Calc

namespace XlModel.CalcFloat
open XlModel.Calc

def two52 : Nat := 4503599627370496

/-- positive rational num/den → IEEE-754 binary64 bits (round to nearest even); none = overflow -/
def ratToBits (num den : Nat) : Option UInt64 :=
  if num = 0 then some 0 else
  let a : Int := num.log2
  let b : Int := den.log2
  let qr (e : Int) : Nat × Nat × Nat :=
    if e ≥ 0 then let d := den <<< e.toNat; (num / d, num % d, d)
    else let n := num <<< (-e).toNat; (n / den, n % den, den)
  let e1 : Int := a - b - 52
  let e1 := if e1 < -1074 then -1074 else e1
  let (q1, _, _) := qr e1
  let e := if q1 < two52 ∧ e1 > -1074 then e1 - 1 else e1
  let (q, r, d) := qr e
  let q := if 2 * r > d ∨ (2 * r = d ∧ q % 2 = 1) then q + 1 else q
  let (q, e) := if q = 2 * two52 then (two52, e + 1) else (q, e)
  if q < two52 then some (UInt64.ofNat q)
  else
    let biased := e + 1075
    if biased ≥ 2047 then none
    else some (UInt64.ofNat (biased.toNat * two52 + (q - two52)))

structure Dec where
  neg : Bool
  kind : Nat            -- 0 finite, 1 inf, 2 nan
  m : Nat               -- |x| = m * 2^e
  e : Int

def decode (x : Float) : Dec :=
  let bits := x.toBits.toNat
  let neg := bits / (2 ^ 63) = 1
  let ex := (bits / two52) % 2048
  let fr := bits % two52
  if ex = 2047 then { neg := neg, kind := if fr = 0 then 1 else 2, m := 0, e := 0 }
  else if ex = 0 then { neg := neg, kind := 0, m := fr, e := -1074 }
  else { neg := neg, kind := 0, m := fr + two52, e := (ex : Int) - 1075 }

def ofBitsNat (n : Nat) : Float := Float.ofBits (UInt64.ofNat n)
def posInf : Float := ofBitsNat (2047 * two52)
def nan : Float := ofBitsNat (2047 * two52 + two52 / 2)
def negF (x : Float) : Float := Float.ofBits (x.toBits ^^^ (UInt64.ofNat (2 ^ 63)))

/-! ### strconv.ParseFloat (decimal grammar, inf/infinity/nan; no hex floats, no underscores) -/

def isDigit (b : Nat) : Bool := 48 ≤ b && b ≤ 57

def takeDigits : List Nat → Nat → Nat → Nat × Nat × List Nat   -- (value, count, rest)
  | b :: rest, acc, n => if isDigit b then takeDigits rest (acc * 10 + (b - 48)) (n + 1) else (acc, n, b :: rest)
  | [], acc, n => (acc, n, [])

def lower (s : List Nat) : List Nat := s.map fun b => if 65 ≤ b ∧ b ≤ 90 then b + 32 else b

def parseFloat (s : List Nat) : Option Float :=
  let (neg, s) := match s with
    | 43 :: r => (false, r)
    | 45 :: r => (true, r)
    | _ => (false, s)
  let sg (x : Float) : Float := if neg then negF x else x
  let ls := lower s
  if ls = [105, 110, 102] ∨ ls = [105, 110, 102, 105, 110, 105, 116, 121] then some (sg posInf)
  else if ls = [110, 97, 110] then some nan
  else
    let (ip, ni, s) := takeDigits s 0 0
    let (m, nf, s) := match s with
      | 46 :: r => let (v, n, r') := takeDigits r ip 0; (v, n, r')
      | _ => (ip, 0, s)
    if ni + nf = 0 then none else
    let ex : Option (Int × List Nat) := match s with
      | c :: r =>
        if c = 101 ∨ c = 69 then
          let (eneg, r) := match r with
            | 43 :: r' => (false, r')
            | 45 :: r' => (true, r')
            | _ => (false, r)
          let (ev, ne, r) := takeDigits r 0 0
          if ne = 0 then none else some (if eneg then -(ev : Int) else ev, r)
        else some (0, c :: r)
      | [] => some (0, [])
    match ex with
    | none => none
    | some (ev, rest) =>
      if rest ≠ [] then none else
      let e10 : Int := ev - nf
      -- guard against absurd exponents (value is 0 or overflow anyway)
      if m = 0 then some (sg (ofBitsNat 0))
      else if e10 > 400 then none
      else if e10 < -800 then some (sg (ofBitsNat 0))
      else
        let bits := if e10 ≥ 0 then ratToBits (m * 10 ^ e10.toNat) 1 else ratToBits m (10 ^ (-e10).toNat)
        bits.map fun b => sg (Float.ofBits b)

/-! ### digits -/

def toDigitsAux : Nat → Nat → List Nat → List Nat
  | 0, _, acc => acc
  | fuel + 1, n, acc => if n < 10 then n :: acc else toDigitsAux fuel (n / 10) (n % 10 :: acc)

def natDigits (n : Nat) : List Nat := toDigitsAux 400 n []

def stripZeros (ds : List Nat) : List Nat := (ds.reverse.dropWhile (· = 0)).reverse

/-- floor(log10(num/den)) for a positive rational -/
def log10Floor (num den : Nat) : Int :=
  let ge (k : Int) : Bool := if k ≥ 0 then 10 ^ k.toNat * den ≤ num else den ≤ num * 10 ^ (-k).toNat
  let k0 : Int := (((num.log2 : Int) - (den.log2 : Int)) * 30103) / 100000
  let rec up : Nat → Int → Int
    | 0, k => k
    | f + 1, k => if ge (k + 1) then up f (k + 1) else k
  let rec down : Nat → Int → Int
    | 0, k => k
    | f + 1, k => if ge k then k else down f (k - 1)
  up 8 (down 8 k0)

/-- the two `p`-digit neighbours of num/den at scale 10^s: (floor, exact?, 2r vs d) -/
def scaled (num den : Nat) (s : Int) : Nat × Nat × Nat :=
  if s ≥ 0 then let d := den * 10 ^ s.toNat; (num / d, num % d, d)
  else let n := num * 10 ^ (-s).toNat; (n / den, n % den, den)

def valBits (q : Nat) (s : Int) : Option UInt64 :=
  if s ≥ 0 then ratToBits (q * 10 ^ s.toNat) 1 else ratToBits q (10 ^ (-s).toNat)

/-- shortest decimal that parses back to x (positive finite, nonzero): digits and the
decimal point position dp (value = 0.d1d2… × 10^dp) -/
def shortest (m : Nat) (e : Int) : List Nat × Int :=
  let num := if e ≥ 0 then m <<< e.toNat else m
  let den := if e ≥ 0 then 1 else 1 <<< (-e).toNat
  let self := ratToBits num den
  let k := log10Floor num den
  let rec go : Nat → Nat → List Nat × Int
    | 0, _ => (natDigits m, 0)
    | fuel + 1, p =>
      let s : Int := k - ((p : Int) - 1)
      let (q, r, d) := scaled num den s
      let okLo := valBits q s == self
      let okHi := r ≠ 0 && valBits (q + 1) s == self
      let pick : Option Nat :=
        if okLo && okHi then
          (if 2 * r < d then some q else if 2 * r > d then some (q + 1) else some (if q % 2 = 0 then q else q + 1))
        else if okLo then some q
        else if okHi then some (q + 1)
        else none
      match pick with
      | some v => let ds := natDigits v; (stripZeros ds, (ds.length : Int) + s)
      | none => go fuel (p + 1)
  go 17 1

/-- n/d rounded to the nearest integer, ties to even (the rounding step of `'G', 15`) -/
def roundAt (n d : Nat) : Nat :=
  let q := n / d
  let r := n % d
  if 2 * r > d ∨ (2 * r = d ∧ q % 2 = 1) then q + 1 else q

/-- numerator and denominator of |x|·10^(−s) for |x| = num/den -/
def scaleFrac (num den : Nat) (s : Int) : Nat × Nat :=
  if s ≥ 0 then (num, den * 10 ^ s.toNat) else (num * 10 ^ (-s).toNat, den)

/-- x rounded to p significant digits (nearest, ties to even) -/
def roundSig (m : Nat) (e : Int) (p : Nat) : List Nat × Int :=
  let num := if e ≥ 0 then m <<< e.toNat else m
  let den := if e ≥ 0 then 1 else 1 <<< (-e).toNat
  let k := log10Floor num den
  let s : Int := k - ((p : Int) - 1)
  let (n', d') := scaleFrac num den s
  let v := roundAt n' d'
  let ds := natDigits v
  (stripZeros ds, (ds.length : Int) + s)

def dch (d : Nat) : Nat := 48 + d

/-- `%e` layout: d.ddde±XX -/
def fmtE (ds : List Nat) (dp : Int) (eChar : Nat) (minExpDigits : Nat) : List Nat :=
  let ex := dp - 1
  let head := match ds with
    | [] => [48]
    | [d] => [dch d]
    | d :: rest => dch d :: 46 :: rest.map dch
  let ed := natDigits ex.natAbs
  let ed := if ed.length < minExpDigits then List.replicate (minExpDigits - ed.length) 0 ++ ed else ed
  head ++ [eChar, if ex < 0 then 45 else 43] ++ ed.map dch

/-- `%f` layout with exactly the digits needed -/
def fmtF (ds : List Nat) (dp : Int) : List Nat :=
  let nd := ds.length
  let ip : List Nat :=
    if dp > 0 then (List.range dp.toNat).map fun i => dch (ds.getD i 0)
    else [48]
  let nfrac : Int := (nd : Int) - dp
  if nfrac ≤ 0 then ip
  else ip ++ 46 :: (List.range nfrac.toNat).map fun (i : Nat) =>
    let j : Int := dp + (i : Int)
    if j < 0 then 48 else dch (ds.getD j.toNat 0)

/-- `fmt.Sprintf("%g", x)` -/
def fmtG (x : Float) : List Nat :=
  let d := decode x
  if d.kind = 2 then [78, 97, 78]
  else if d.kind = 1 then (if d.neg then [45, 73, 110, 102] else [43, 73, 110, 102])
  else
    let sign := if d.neg then [45] else []
    if d.m = 0 then sign ++ [48]
    else
      let (ds, dp) := shortest d.m d.e
      let ex := dp - 1
      sign ++ (if ex < -4 ∨ ex ≥ 6 then fmtE ds dp 101 2 else fmtF ds dp)

/-- Spec: Excel's General number → text (15 significant digits; positional for
1e-9 ≤ |x| < 1e15 by decimal exponent, otherwise d.dddE±XX) -/
def fmtGeneral (x : Float) : List Nat :=
  let d := decode x
  if d.kind ≠ 0 then fmtG x
  else if d.m = 0 then [48]
  else
    let sign := if d.neg then [45] else []
    let (ds, dp) := roundSig d.m d.e 15
    let ex := dp - 1
    sign ++ (if ex < -9 ∨ ex ≥ 15 then fmtE ds dp 69 2 else fmtF ds dp)

/-! ### the final rendering of a numeric result by `CalcCellValue` (RawCellValue)

`isNumeric(token.Value())` yields the float and a "precision" = the length of its shortest
positional spelling (`FormatFloat(x,'f',-1)`) without the decimal point — sign and leading zeros
included; above 15 the value is rendered with `FormatFloat(x,'G',15)` (15 significant digits of
the exact binary value, ties to even, trailing zeros dropped, `E±XX` form when the decimal
exponent is < −4 or ≥ 15), otherwise with the shortest positional spelling. -/

def renderNumber (x : Float) : List Nat :=
  let d := decode x
  if d.kind ≠ 0 then fmtG x
  else
    let sign := if d.neg then [45] else []
    if d.m = 0 then sign ++ [48]
    else
      let (ds, dp) := shortest d.m d.e
      let sf := sign ++ fmtF ds dp
      if (sf.filter (· ≠ 46)).length > 15 then
        let (ds15, dp15) := roundSig d.m d.e 15
        let ex := dp15 - 1
        sign ++ (if ex < -4 ∨ ex ≥ 15 then fmtE ds15 dp15 69 2 else fmtF ds15 dp15)
      else sf

/-! ### Go's math.Pow -/

def isOddInt (y : Float) : Bool :=
  if y.abs ≥ 9007199254740992.0 then false
  else y.floor == y && (y.abs.toUInt64.toNat % 2 = 1)

def signbit (x : Float) : Bool := x.toBits.toNat / (2 ^ 63) = 1

partial def powLoop (i : Nat) (x1 : Float) (xe : Int) (a1 : Float) (ae : Int) : Float × Int :=
  if i = 0 then (a1, ae)
  else if xe < -4096 ∨ 4096 < xe then (a1, ae + xe)
  else
    let (a1, ae) := if i % 2 = 1 then (a1 * x1, ae + xe) else (a1, ae)
    let x1 := x1 * x1
    let xe := xe * 2
    let (x1, xe) := if x1 < 0.5 then (x1 + x1, xe - 1) else (x1, xe)
    powLoop (i / 2) x1 xe a1 ae

partial def goPow (x y : Float) : Float :=
  if y == 0 || x == 1 then 1
  else if y == 1 then x
  else if x.isNaN || y.isNaN then nan
  else if x == 0 then
    (if y < 0 then (if signbit x && isOddInt y then negF posInf else posInf)
     else (if signbit x && isOddInt y then x else 0))
  else if y.isInf then
    (if x == -1 then 1
     else if (x.abs < 1) == (y > 0) then 0
     else posInf)
  else if x.isInf then
    (if x < 0 then goPow (1 / x) (negF y)
     else if y < 0 then 0 else posInf)
  else if y == 0.5 then x.sqrt
  else if y == -0.5 then 1 / x.sqrt
  else
    let ay := y.abs
    let yi := ay.floor
    let yf := ay - yi
    if yf != 0 && x < 0 then nan
    else if yi ≥ 9223372036854775808.0 then
      (if x == -1 then 1
       else if (x.abs < 1) == (y > 0) then 0
       else posInf)
    else
      let (yf, yi) := if yf > 0.5 then (yf - 1, yi + 1) else (yf, yi)
      let a1 : Float := if yf != 0 then Float.exp (yf * Float.log x) else 1
      let (x1, xe) := x.frExp
      let (a1, ae) := powLoop yi.toUInt64.toNat x1 xe a1 0
      let (a1, ae) := if y < 0 then (1 / a1, -ae) else (a1, ae)
      a1.scaleB ae

instance : NumOps Float where
  zero := 0
  one := 1
  ofNat n := Float.ofNat n
  add := (· + ·)
  sub := (· - ·)
  mul := (· * ·)
  div := (· / ·)
  pow := goPow
  isZero x := x == 0
  isNaN x := x.isNaN
  isInf x := x.isInf
  lt x y := x < y
  le x y := x ≤ y
  eq x y := x == y
  fmtG := fmtG
  parse := parseFloat
  fmtGeneral := fmtGeneral
  maxFloat := ofBitsNat (2046 * two52 + (two52 - 1))

end XlModel.CalcFloat
