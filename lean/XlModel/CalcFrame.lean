/-
C09, part 4 of the model: the PURITY FRAME of the evaluator.

What `CalcCellValue` may write is read off the source (regenerated facts
`Facts.C09.evalWrites` = every assignment to a field or element inside the evaluator's own
functions, `Facts.C09.evalCalls` = every method they call on the workbook objects) and
classified here.  The workbook state is split into `obs` — everything a public getter reads
(cell values, formulas, styles, merged ranges, defined names) — and the internal components
the classified writes can reach.  An evaluation is an arbitrary sequence of classified
writes; `Props.C09.eval_pure` shows `obs` is never among their targets, and
`Props.C09.eval_frame_modelled` shows every write / callee in the source is classified, so
a new assignment (say to `c.V`) or a new callee (say `f.SetCellStr`) in calc.go breaks a proof.

Core Lean only.
-/
import XlModel.CalcTotal

namespace XlModel.CalcTotal

/-- the targets a write of the evaluator can have -/
inductive Write
  | checked            -- f.formulaChecked = true
  | lazyF (c : Nat)    -- cell.f = transformed array formula (setArrayFormula)
  | slot (c : Nat)     -- ws.prepareSheetXML(col,row): row / cell slots materialised, all empty
  | part (p : Nat)     -- lazily decoded part: workSheetReader, mergeCellsParser, shared strings / styles behind the getters
  | ctx                -- calcContext.iterations / iterationsCache: created per call, dropped on return
  | localVar           -- fields of local values (formulaArg, cellRef, cellRange, efp.Token copies)
  deriving Repr

structure WbState (O : Type) where
  /-- what the public getters read: cell values, formulas, styles, merged ranges, defined names -/
  obs : O
  checked : Bool := false
  lazyF : List Nat := []
  slots : List Nat := []
  parts : List Nat := []

def applyWrite {O} (wb : WbState O) : Write → WbState O
  | .checked => { wb with checked := true }
  | .lazyF c => { wb with lazyF := c :: wb.lazyF }
  | .slot c => { wb with slots := c :: wb.slots }
  | .part p => { wb with parts := p :: wb.parts }
  | .ctx => wb
  | .localVar => wb

/-- the workbook after an evaluation that performed the writes `trace` -/
def evalState {O} (trace : List Write) (wb : WbState O) : WbState O := trace.foldl applyWrite wb

def hasPrefix (p s : String) : Bool := p.toList.isPrefixOf s.toList

/-- classification of an assignment target found in the evaluator's source -/
def classifyWrite (s : String) : Option Write :=
  if s == "f.formulaChecked" then some .checked
  else if s == "cell.f" then some (.lazyF 0)
  else if hasPrefix "ctx." s then some .ctx
  else if hasPrefix "arg." s || hasPrefix "cellRef." s || hasPrefix "cr." s || hasPrefix "token." s
      || hasPrefix "arrayFormulaOperandTokens[" s
      -- fields of a `formulaArrayConst` (array constant under evaluation, allocated per call)
      || hasPrefix "a." s then some .localVar
  else none

/-- the evaluator's own functions (calls between them add no write) -/
def evalInternal : List String :=
  ["f.calcCellValue", "f.cellResolver", "f.evalInfixExp", "f.evalInfixExpFunc", "f.getCellFormula",
   "f.getCellStringFunc", "f.parseOperatorPrefixToken", "f.parseReference", "f.parseToken", "f.rangeResolver",
   "f.setArrayFormulaCells", "ws.setArrayFormula"]

/-- public / internal readers: their purity is property C04 ("reading never changes the workbook");
here they count as lazy decoding of parts at most -/
def evalReaders : List String :=
  ["f.GetCellStyle", "f.GetCellType", "f.GetCellValue", "f.GetDefinedName", "f.GetSheetList", "f.formattedValue",
   "f.getDefinedNameRefTo", "f.getOptions", "f.workSheetReader", "ws.mergeCellsParser"]

def evalLocks : List String := ["f.mu.Lock", "f.mu.Unlock", "ws.mu.Lock", "ws.mu.Unlock"]

/-- classification of a callee found in the evaluator's source -/
def classifyCall (s : String) : Option Write :=
  if evalInternal.contains s then some .localVar
  else if evalLocks.contains s then some .localVar
  else if evalReaders.contains s then some (.part 0)
  else if s == "ws.prepareSheetXML" then some (.slot 0)
  else none

/-! the function library (`formulaFuncs` methods) reaches the workbook only through these -/

def libReaders : List String :=
  ["f.GetCellFormula", "f.GetCellValue", "f.GetSheetIndex", "f.GetSheetList", "f.workSheetReader"]

/-- classification of a use `fn.f.X` found in the methods of `formulaFuncs` -/
def classifyLibUse (s : String) : Option Write :=
  if s == "f.CalcCellValue" then some .ctx          -- re-entry with its own fresh context: the same frame again
  else if s == "f.parseReference" || s == "f.cellResolver" then some .localVar -- the evaluator's own functions (`evalInternal`); ANCHORARRAY resolves its cells through `cellResolver` in the running context
  else if s == "f.options" then some .localVar        -- field read
  else if libReaders.contains s then some (.part 0)
  else none

end XlModel.CalcTotal
