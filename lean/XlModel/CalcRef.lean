/-
C08 — reference resolution of the evaluator: calc.go `parseReference` / `parseRef` /
`prepareCellRange` and the sheet lookup (`getSheetXMLPath`: `strings.EqualFold`), for
references that denote a cell or a rectangle of cells.  Input is the TValue of efp's range
token (efp has already removed the quotes of a quoted sheet name) and the sheet of the formula;
output is the list of cells (canonical keys `Sheet!A1`, row-major) the evaluator reads.
Whole-column / whole-row references are outside the model (`unmodelled`).
Cell names go through C20's model of lib.go (`Ref.cellNameToCoordinates`). Core Lean only.
-/
import XlModel.Calc
import XlModel.Ref

namespace XlModel.Calc.Impl
open XlModel.Calc XlModel.Facts.C08

def splitOn (sep : Nat) (s : Str) : List Str :=
  let rec go : List Nat → List Nat → List Str → List Str
    | [], cur, acc => (cur.reverse :: acc).reverse
    | b :: rest, cur, acc => if b = sep then go rest [] (cur.reverse :: acc) else go rest (b :: cur) acc
  go s [] []

def toChars (s : Str) : List Char := s.map Char.ofNat
def ofChars (s : List Char) : Str := s.map Char.toNat

/-- `cellRef` -/
structure CRef where
  sheet : Str
  col : Int
  row : Int
  deriving DecidableEq, Repr

def isLetterB (b : Nat) : Bool := (65 ≤ b && b ≤ 90) || (97 ≤ b && b ≤ 122)
def isDigitB (b : Nat) : Bool := 48 ≤ b && b ≤ 57

/-- `parseRef`: `.ok` = a cell; whole column / whole row casts are not modelled -/
def parseRef (ref : Str) : Except MErr CRef :=
  let tokens := splitOn 33 ref
  let (sheet, cell) := match tokens with
    | [s, c] => (s, c)
    | _ => ([], ref)
  match Ref.cellNameToCoordinates (toChars cell) with
  | .ok (c, r) => .ok { sheet := sheet, col := c, row := r }
  | .error _ =>
    if cell ≠ [] ∧ (cell.all isLetterB ∨ cell.all isDigitB) then .error .unmodelled
    else .error (.msg (.lit sInvalidRef))

/-- the sheet of the workbook a name denotes (`getSheetXMLPath`: case-insensitive) -/
def findSheet (sheets : List Str) (name : Str) : Option Str :=
  sheets.find? (fun s => upper s == upper name)

def sheetMissing (name : Str) : Str :=
  [115, 104, 101, 101, 116, 32] ++ name ++ [32, 100, 111, 101, 115, 32, 110, 111, 116, 32, 101, 120, 105, 115, 116]

def keyOf (sheet : Str) (col row : Int) : Except MErr Str :=
  match Ref.columnNumberToName col with
  | .ok name => .ok (sheet ++ [33] ++ ofChars name ++ ofChars (Ref.itoaInt row))
  | .error _ => .error (.msg (.lit sInvalidRef))

/-- `prepareCellRange` (for a cell, not a column / row cast): extend the range, same sheet only
(the sheet texts are compared as they are spelled) -/
def extend (from_ to : CRef) (c : CRef) : Except MErr (CRef × CRef) :=
  let c := if c.sheet = [] then { c with sheet := from_.sheet } else c
  if from_.sheet ≠ c.sheet ∨ to.sheet ≠ c.sheet then .error (.msg (.lit sInvalidRef))
  else
    let f := { from_ with col := if from_.col > c.col then c.col else from_.col,
                          row := if from_.row > c.row then c.row else from_.row }
    let t := { to with col := if to.col < c.col then c.col else to.col,
                       row := if to.row < c.row then c.row else to.row }
    .ok (f, t)

def extendAll : List Str → CRef × CRef → Except MErr (CRef × CRef)
  | [], ft => .ok ft
  | r :: rest, (f, t) =>
    match parseRef r with
    | .error e => .error (match e with | .unmodelled => .unmodelled | _ => .msg (.lit sInvalidRef))
    | .ok c =>
      match extend f t c with
      | .error e => .error e
      | .ok ft => extendAll rest ft

def rectKeys (sheet : Str) (c1 r1 c2 r2 : Int) : Except MErr (List Str) :=
  let rows := (List.range (r2 - r1 + 1).toNat).map fun (i : Nat) => r1 + (i : Int)
  let cols := (List.range (c2 - c1 + 1).toNat).map fun (i : Nat) => c1 + (i : Int)
  (rows.flatMap fun r => cols.map fun c => (c, r)).mapM fun (c, r) => keyOf sheet c r

/-- `parseReference`: the cells a reference denotes. `isRange` tells the caller whether the
argument is a matrix (`a:b`) or a single cell. -/
def resolveRef (sheets : List Str) (cur : Str) (reference : Str) : Except MErr (Bool × List Str) :=
  let reference := reference.filter (· ≠ 36)
  match splitOn 58 reference with
  | [single] =>
    match parseRef single with
    | .error e => .error e
    | .ok c =>
      let sh := if c.sheet = [] then cur else c.sheet
      match findSheet sheets sh with
      | none => .error (.msg (.lit formulaErrorNAME))   -- cellResolver fails: parseToken reports #NAME?
      | some s => (keyOf s c.col c.row).map fun k => (false, [k])
  | first :: rest =>
    match parseRef first with
    | .error e => .error (match e with | .unmodelled => .unmodelled | _ => .msg (.lit sInvalidRef))
    | .ok c0 =>
      let c0 := if c0.sheet = [] then { c0 with sheet := cur } else c0
      match extendAll rest (c0, c0) with
      | .error e => .error e
      | .ok (f, t) =>
        match findSheet sheets f.sheet with
        | none => .error (.msg (.lit (sheetMissing f.sheet)))
        | some s => (rectKeys s f.col f.row t.col t.row).map fun ks => (true, ks)
  | [] => .error (.msg (.lit sInvalidRef))

end XlModel.Calc.Impl
