/-
Model of the control skeleton of the formula evaluator of calc.go (C09).

Part 1 — the stack machine.  `Impl` is a transcription of `evalInfixExp`,
`evalInfixExpFunc`, `prepareEvalInfixExp`, `parseToken`,
`parseOperatorPrefixToken`, `calculate`, `getPriority` and the `is…Token`
predicates over ARBITRARY token lists (an over-approximation of what the efp
tokenizer emits).  Every `Peek().(efp.Token)`, `Pop().(formulaArg)` and
`Peek().(*list.List)` the Go code performs on a possibly empty stack is an
explicit `panic` outcome.  What the machine does *with values* (operand
arithmetic, reference resolution, the ≈450 formula functions) is a parameter
`Sem`: the theorems hold for every `Sem`; the driver instantiates it.

Part 2 — the circular-reference cut-off of `cellResolver` / `calcCellValue`
(`calcContext.iterations`, `iterationsCache`, `Options.MaxCalcIterations`)
over an arbitrary reference graph, evaluated with fuel.

Core Lean only (the driver links this module).
-/
import XlModel.Basic
import XlModel.Generated.FactsC09

namespace XlModel.CalcTotal
open XlModel

/-! ## tokens -/

/-- efp.Token.TType; `none` is the empty string of the zero Token -/
inductive TType
  | none | noop | operand | function | subexpr | argument | opPrefix | opInfix | opPostfix
  | whitespace | unknown
  deriving DecidableEq, Repr

/-- efp.Token.TSubType; `nothing` is the empty string -/
inductive TSub
  | nothing | start | stop | text | number | logical | error | range | math | concat
  | inter | union
  deriving DecidableEq, Repr

structure Tok where
  val : String
  ty : TType
  sub : TSub
  deriving DecidableEq, Repr

/-- the zero `efp.Token` (`var nextToken efp.Token`) -/
def zeroTok : Tok := ⟨"", .none, .nothing⟩

inductive Outcome (α : Type)
  | ok (a : α)
  | err
  | panic
  deriving Repr, DecidableEq

def Outcome.isPanic {α} : Outcome α → Bool
  | .panic => true
  | _ => false

/-! ## token predicates (calc.go: is…Token, getPriority) -/

def isFuncStart (t : Tok) : Bool := t.ty == .function && t.sub == .start
def isFuncStop (t : Tok) : Bool := t.ty == .function && t.sub == .stop
def isBeginParen (t : Tok) : Bool := t.ty == .subexpr && t.sub == .start
def isEndParen (t : Tok) : Bool := t.ty == .subexpr && t.sub == .stop
def isPrefixMinus (t : Tok) : Bool := t.val == "-" && t.ty == .opPrefix

/-- `tokenPriority[s]` with Go's "comma ok" -/
def tablePrio (s : String) : Option Nat :=
  (Facts.C09.tokenPriority.find? (fun p => p.1 == s)).map (·.2)

/-- `getPriority` — a missing key reads 0 (Go map semantics).  A function token
(the separator on the operator stack) has priority 0 whatever its name (repository
fix cc2477f; before it the name was looked up like any other TValue, see
`getPriorityOld` and `Props.C09.old_operator_named_function_panics`). -/
def getPriority (t : Tok) : Nat :=
  if t.ty == .function then 0
  else if isBeginParen t then 0
  else if isPrefixMinus t then Facts.C09.prefixMinusPriority
  else match tablePrio t.val with
    | some p => p
    | none => 0

def isOperatorPrefixToken (t : Tok) : Bool :=
  isPrefixMinus t || ((tablePrio t.val).isSome && t.ty == .opInfix)

def isOperand (t : Tok) : Bool :=
  t.ty == .operand && (t.sub == .number || t.sub == .text || t.sub == .logical)

/-! ## value semantics as a parameter -/

inductive BinRes (V : Type)
  | err            -- the calcXxx function returned an error
  | push (v : V)   -- pushed one result
  | nopush         -- returned nil without pushing (calcL/Le/G/Ge on other operand types)

inductive RefKind | logical | number | text
  deriving DecidableEq, Repr

def RefKind.sub : RefKind → TSub
  | .logical => .logical | .number => .number | .text => .text

structure Sem (V : Type) where
  /-- tokenToFormulaArg -/
  ofTok : Tok → V
  /-- prefix minus in `calculate` (repository fix e2ee6cd): blank → 0, an error operand or a failed
  `ToNumber` returns an error (`none`), otherwise `newNumberFormulaArg(0 - num.Number)` -/
  neg : V → Option V
  /-- postfix `%` in `parseToken` (repository fix 85214fa): same coercion, then
  `newNumberFormulaArg(num.Number / 100)`; `none` = `parseToken` returns an error -/
  pct : V → Option V
  /-- infix minus: `calcSubtract(rOpd, lOpd, …)` -/
  sub2 : V → V → BinRes V
  /-- `tokenCalcFunc[op]` including the blank→0 and error pre-checks of `calculate`; arguments (op, rOpd, lOpd) -/
  bin : String → V → V → BinRes V
  /-- defined-name substitution + `parseReference` (which may recursively evaluate other cells); `none` = error -/
  resolve : String → Option V
  /-- `formulaArgToToken`: always an Operand token of sub-type Logical / Number / Text -/
  refKind : V → RefKind
  refVal : V → String
  /-- `callFuncByName` on the raw TValue of the function token -/
  callFn : String → List V → V
  /-- `arg.Type == ArgError` -/
  isErr : V → Bool
  /-- `arg.Type == ArgMatrix && len(arg.Matrix) > 0 && len(arg.Matrix[0]) > 0` ↦ `arg.Matrix[0][0]` -/
  matHead : V → Option V
  /-- `newArrayConstFormulaArg`: the argument an array constant denotes (a matrix; #VALUE! when its rows differ in length) -/
  mkMatrix : List (List V) → V
  /-- the error argument built from a failed `calculate` inside a function -/
  errArg : V

def Sem.refTok {V} (S : Sem V) (v : V) : Tok := ⟨S.refVal v, .operand, (S.refKind v).sub⟩

/-! ## calculate, parseOperatorPrefixToken, parseToken -/

/-- result of `calculate`: the operand stack afterwards and whether an error was returned
(operands popped before a failing `calcXxx` stay popped) -/
structure CalcRes (V : Type) where
  opd : List V
  failed : Bool

def applyBin {V} (r : BinRes V) (rest : List V) : CalcRes V :=
  match r with
  | .err => ⟨rest, true⟩
  | .push v => ⟨v :: rest, false⟩
  | .nopush => ⟨rest, false⟩

/-- `calculate(opdStack, opt)`: three sequential `if`s, each guarded by a length check,
so no panic outcome exists here. -/
def calcNeg {V} (S : Sem V) (opd : List V) (t : Tok) : CalcRes V :=
  if t.val == "-" && t.ty == .opPrefix then
    match opd with
    | [] => ⟨opd, true⟩
    | x :: r =>
      match S.neg x with
      | some v => ⟨v :: r, false⟩
      | none => ⟨r, true⟩
  else ⟨opd, false⟩

def calcSub {V} (S : Sem V) (opd : List V) (t : Tok) : CalcRes V :=
  if t.val == "-" && t.ty == .opInfix then
    match opd with
    | r :: l :: rest => applyBin (S.sub2 r l) rest
    | _ => ⟨opd, true⟩
  else ⟨opd, false⟩

def calcBin {V} (S : Sem V) (opd : List V) (t : Tok) : CalcRes V :=
  if Facts.C09.calcOps.contains t.val then
    match opd with
    | r :: l :: rest => applyBin (S.bin t.val r l) rest
    | _ => ⟨opd, true⟩
  else ⟨opd, false⟩

def calculate {V} (S : Sem V) (opd : List V) (t : Tok) : CalcRes V :=
  let s1 := calcNeg S opd t
  if s1.failed then s1 else
  let s2 := calcSub S s1.opd t
  if s2.failed then s2 else
  calcBin S s2.opd t

/-- the `for tokenPriority <= topOptPriority` loop of `parseOperatorPrefixToken`;
`none` = `calculate` returned an error -/
def popLoop {V} (S : Sem V) (p : Nat) : List Tok → List V → Option (List Tok × List V)
  | [], opd => some ([], opd)
  | top :: rest, opd =>
    if p ≤ getPriority top then
      let c := calculate S opd top
      if c.failed then none else popLoop S p rest c.opd
    else some (top :: rest, opd)

/-- `parseOperatorPrefixToken(optStack, opdStack, token)`; `none` = error.  The only
`Peek().(efp.Token)` is behind `optStack.Len() == 0` / `Len() > 0` tests. -/
def parseOperatorPrefixToken {V} (S : Sem V) (opt : List Tok) (opd : List V) (t : Tok) :
    Option (List Tok × List V) :=
  match opt with
  | [] => some ([t], opd)
  | top :: rest =>
    if isPrefixMinus top && isPrefixMinus t then some (rest, opd)
    else if getPriority t > getPriority top then some (t :: opt, opd)
    else match popLoop S (getPriority t) opt opd with
      | none => none
      | some (opt', opd') => some (t :: opt', opd')

/-- the `for !isBeginParenthesesToken(optStack.Peek().(efp.Token))` loop of `parseToken`:
`Peek()` on an empty stack is nil and the type assertion panics. -/
def closeParen {V} (S : Sem V) : List Tok → List V → Outcome (List Tok × List V)
  | [], _ => .panic
  | top :: rest, opd =>
    if isBeginParen top then .ok (rest, opd)
    else
      let c := calculate S opd top
      if c.failed then .err else closeParen S rest c.opd

/-- `if token.TType == efp.TokenTypeOperatorPostfix && !opdStack.Empty() { pop; coerce; push(num / 100) }`;
`none` = the coercion failed and `parseToken` returns the error -/
def applyPostfix {V} (S : Sem V) (t : Tok) (opd : List V) : Option (List V) :=
  if t.ty == .opPostfix then
    match opd with
    | [] => some opd
    | x :: r => (S.pct x).map (· :: r)
  else some opd

/-- `parseToken(ctx, sheet, token, opdStack, optStack)` -/
def parseToken {V} (S : Sem V) (t0 : Tok) (opd : List V) (opt : List Tok) :
    Outcome (List V × List Tok) :=
  -- reference operands are resolved and replaced by an operand token
  let rt : Option Tok :=
    if t0.sub == .range then (S.resolve t0.val).map S.refTok else some t0
  match rt with
  | none => .err
  | some t =>
  -- operators
  let r1 : Option (List Tok × List V) :=
    if isOperatorPrefixToken t then parseOperatorPrefixToken S opt opd t else some (opt, opd)
  match r1 with
  | none => .err
  | some (opt, opd) =>
  -- (
  let opt := if isBeginParen t then t :: opt else opt
  -- )
  let r2 : Outcome (List Tok × List V) :=
    if isEndParen t then closeParen S opt opd else .ok (opt, opd)
  match r2 with
  | .err => .err
  | .panic => .panic
  | .ok (opt, opd) =>
  -- postfix %
  match applyPostfix S t opd with
  | none => .err
  | some opd =>
  -- operand
  let opd := if isOperand t then S.ofTok t :: opd else opd
  .ok (opd, opt)

/-! ## evalInfixExp -/

/-- `formulaArrayConst`: an array constant under evaluation (repository fix 9c11688: the open
constants are a stack; before it two booleans and one depth) -/
structure ArrC (V : Type) where
  /-- `opfStack.Len()` where the constant was opened -/
  depth : Nat
  inRow : Bool := false
  rows : List (List V) := []
  row : List V := []

structure St (V : Type) where
  opd : List V := []
  opt : List Tok := []
  opf : List Tok := []
  opfd : List V := []
  opft : List Tok := []
  args : List (List V) := []
  /-- open array constants, innermost first -/
  arrs : List (ArrC V) := []

/-- `array()`: the innermost open array constant, if it was opened at the current depth of the
function stack -/
def curArr {V} (st : St V) : Option (ArrC V) :=
  match st.arrs with
  | a :: _ => if a.depth == st.opf.length then some a else none
  | [] => none

@[reducible] def setCur {V} (st : St V) (a : ArrC V) : St V := { st with arrs := a :: st.arrs.tail }

@[reducible] def popArr {V} (st : St V) : St V := { st with arrs := st.arrs.tail }

/-- `for opftStack.Peek().(efp.Token) != opfStack.Peek().(efp.Token) { calculate…; opftStack.Pop() }`
with the function separator `sep = opfStack.Peek()`.  A failing `calculate` puts an
error argument on `argsStack.Peek().(*list.List)` (front in `evalInfixExp`, back in
`prepareEvalInfixExp`). -/
def flushToSep {V} (S : Sem V) (front : Bool) (sep : Tok) :
    List Tok → List V → List (List V) → Outcome (List Tok × List V × List (List V))
  | [], _, _ => .panic
  | top :: rest, opfd, args =>
    if top = sep then .ok (top :: rest, opfd, args)
    else
      let c := calculate S opfd top
      if c.failed then
        match args with
        | [] => .panic
        | a :: as => flushToSep S front sep rest c.opd ((if front then S.errArg :: a else a ++ [S.errArg]) :: as)
      else flushToSep S front sep rest c.opd args

/-- push a value at the back of `argsStack.Peek().(*list.List)` -/
def pushArg {V} (v : V) : List (List V) → Outcome (List (List V))
  | [] => .panic
  | a :: as => .ok ((a ++ [v]) :: as)

/-- the `argument` flag of `prepareEvalInfixExp`: with more than two tokens on `opft` and exactly one
pending operand, look at the token below the top (`Pop`, `Peek().(efp.Token)`, `Push`) -/
def argumentFlag (opft : List Tok) (opfdLen : Nat) : Outcome Bool :=
  if opft.length > 2 && opfdLen == 1 then
    match opft with
    | _ :: second :: _ => .ok (!(second.ty == .opInfix))
    | _ => .panic
  else .ok true

/-- `if argument && opfdStack.Len() > 0 { argsStack.Peek().(*list.List).PushBack(opfdStack.Pop()) }` -/
def pushPending {V} (argument : Bool) (opfd : List V) (args : List (List V)) :
    Outcome (List V × List (List V)) :=
  if argument then
    match opfd with
    | [] => .ok (opfd, args)
    | v :: rest => match pushArg v args with
      | .ok args' => .ok (rest, args')
      | .err => .err
      | .panic => .panic
  else .ok (opfd, args)

/-- `evalInfixExpFunc` (with `prepareEvalInfixExp` inlined) -/
def evalFunc {V} (S : Sem V) (st : St V) (t n : Tok) : Outcome (St V) :=
  if !isFuncStop t then .ok st else
  match st.opf with
  | [] => .panic
  | f :: opfRest =>
  match flushToSep S false f st.opft st.opfd st.args with
  | .err => .err
  | .panic => .panic
  | .ok (opft, opfd, args) =>
  match argumentFlag opft opfd.length with
  | .err => .err
  | .panic => .panic
  | .ok argument =>
  match pushPending argument opfd args with
  | .err => .err
  | .panic => .panic
  | .ok (opfd, args) =>
  match args with
  | [] => .panic
  | a :: argsRest =>
  let arg := S.callFn f.val a
  if S.isErr arg && opfRest.isEmpty then .err else
  -- argsStack.Pop(); opftStack.Pop(); opfStack.Pop()   (no type assertion: nil is fine)
  let opft := opft.tail
  if !opfRest.isEmpty then
    if n.ty == .opInfix || opft.length > 1 then
      .ok { st with opf := opfRest, opft := opft, args := argsRest, opfd := arg :: opfd }
    else match pushArg arg argsRest with
      | .ok args' => .ok { st with opf := opfRest, opft := opft, args := args', opfd := opfd }
      | .err => .err
      | .panic => .panic
  else
    let top := match S.matHead arg with
      | some h => h
      | none => arg
    .ok { st with opf := opfRest, opft := opft, args := argsRest, opfd := opfd, opd := top :: st.opd }

/-- `argumentInParentheses(opftStack, opfStack)`: is the innermost open bracket on `opft` a
parenthesis rather than the function separator `sep = opfStack.Peek()`? -/
def argInParen (sep : Tok) : List Tok → Bool
  | [] => false
  | t :: r => if isBeginParen t then true else if t = sep then false else argInParen sep r

/-- the `if token.TSubType == efp.TokenSubTypeRange { … }` part of the in-function block: a
reference that is an argument by itself is resolved here; `some r` = the loop `continue`s (or
returns) with `r`, `none` = fall through -/
def inFuncRef {V} (S : Sem V) (st : St V) (f t n : Tok) : Option (Outcome (St V)) :=
  if t.sub == .range then
    match st.opft with
    | [] => some .panic
    | top :: _ =>
      if top ≠ f then
        match S.resolve t.val with
        | none => some .err
        | some v => some (.ok { st with opfd := v :: st.opfd })
      else if n.ty == .argument || n.ty == .function then
        match S.resolve t.val with
        | none => some .err
        | some v =>
          if n.ty == .argument && !st.opfd.isEmpty then some (.ok { st with opfd := v :: st.opfd })
          else match pushArg v st.args with
            | .ok args' => some (.ok { st with args := args' })
            | .err => some .err
            | .panic => some .panic
      else none
  else none

/-- the rest of the in-function block: `parseToken` on the function stacks, argument
separator, array constant, function stop -/
def inFuncRest {V} (S : Sem V) (st : St V) (f t n : Tok) : Outcome (St V) :=
  match parseToken S t st.opfd st.opft with
  | .err => .err
  | .panic => .panic
  | .ok (opfd, opft) =>
  let st := { st with opfd := opfd, opft := opft }
  if t.ty == .argument then
    -- column / row separators of an open array constant are not function arguments
    -- (repository fix 6963681; before it they flushed the operator stack like any argument)
    if (curArr st).isSome then .ok st else
    -- an argument separator directly inside a parenthesis separates nothing (repository fix cdb1ef6)
    if argInParen f st.opft then .ok st else
    match flushToSep S true f st.opft st.opfd st.args with
    | .err => .err
    | .panic => .panic
    | .ok (opft, opfd, args) =>
      match opfd with
      | [] => .ok { st with opft := opft, opfd := opfd, args := args }
      | v :: rest => match pushArg v args with
        | .ok args' => .ok { st with opft := opft, opfd := rest, args := args' }
        | .err => .err
        | .panic => .panic
  else
  -- the array constant's own operands and stop tokens: not those of a function called inside it
  match curArr st with
  | some a =>
    if a.inRow && isOperand t then
      match st.opfd with
      | [] => .panic
      | v :: rest => .ok (setCur { st with opfd := rest } { a with row := a.row ++ [v] })
    else if a.inRow && isFuncStop t then
      .ok (setCur st { a with rows := a.rows ++ [a.row], inRow := false })
    else if isFuncStop t then
      match pushArg (S.mkMatrix a.rows) st.args with
      | .ok args' => .ok (popArr { st with args := args' })
      | .err => .err
      | .panic => .panic
    else evalFunc S st t n
  | none => evalFunc S st t n

/-- the `if opfStack.Len() > 0 { … }` block of the loop body, `f = opfStack.Peek()` -/
def inFunc {V} (S : Sem V) (st : St V) (f t n : Tok) : Outcome (St V) :=
  match inFuncRef S st f t n with
  | some r => r
  | none => inFuncRest S st f t n

/-- `a := array(); a != nil && !a.inRow` -/
def rowStarts {V} (st : St V) : Bool :=
  match curArr st with
  | some a => !a.inRow
  | none => false

/-- the loop body after the optional `parseToken` on the outer stacks: function start, array
constant out of the function stack, in-function block -/
def stepTail {V} (S : Sem V) (st : St V) (t n : Tok) : Outcome (St V) :=
  if isFuncStart t then
    if t.val == "ARRAY" then .ok { st with arrs := { depth := st.opf.length } :: st.arrs }
    else if t.val == "ARRAYROW" && rowStarts st then
      -- a row of the open array constant; anywhere else (repository fix d5de215) the token is an
      -- ordinary function start
      match curArr st with
      | some a => .ok (setCur st { a with inRow := true, row := [] })
      | none => .ok st
    else .ok { st with opf := t :: st.opf, args := [] :: st.args, opft := t :: st.opft }
  else match st.opf with
    | [] =>
      -- array constant out of function stack: its stop tokens close the row and the array
      -- (repository fix 07e33d8; before it the flags stayed set)
      if isFuncStop t then
        match curArr st with
        | some a => if a.inRow then .ok (setCur st { a with inRow := false }) else .ok (popArr st)
        | none => .ok st
      else .ok st
    | f :: _ => inFunc S st f t n

/-- one iteration of the token loop of `evalInfixExp`; `n` is `tokens[i+1]` or the zero token -/
def step {V} (S : Sem V) (st : St V) (t n : Tok) : Outcome (St V) :=
  let r1 : Outcome (St V) :=
    if st.opf.isEmpty then
      match parseToken S t st.opd st.opt with
      | .ok (opd, opt) => .ok { st with opd := opd, opt := opt }
      | .err => .err
      | .panic => .panic
    else .ok st
  match r1 with
  | .err => .err
  | .panic => .panic
  | .ok st => stepTail S st t n

/-- the final `for optStack.Len() != 0` loop; `none` = error -/
def drain {V} (S : Sem V) : List Tok → List V → Option (List V)
  | [], opd => some opd
  | top :: rest, opd =>
    let c := calculate S opd top
    if c.failed then none else drain S rest c.opd

def finish {V} (S : Sem V) (st : St V) : Outcome V :=
  match drain S st.opt st.opd with
  | none => .err
  | some [] => .err           -- ErrInvalidFormula
  | some (v :: _) => .ok v

def run {V} (S : Sem V) : St V → List Tok → Outcome V
  | st, [] => finish S st
  | st, t :: rest =>
    match step S st t (rest.headD zeroTok) with
    | .ok st' => run S st' rest
    | .err => .err
    | .panic => .panic

/-- `evalInfixExp(ctx, sheet, cell, tokens)` -/
def evalTokens {V} (S : Sem V) (tokens : List Tok) : Outcome V := run S {} tokens

/-! ## Part 2 — circular references: cellResolver / calcCellValue with the cut-off -/

/-- A workbook as the evaluator sees it: which cells carry a formula, the ordered
list of cells each formula resolves (range operands expanded, in evaluation
order), how many of them are actually resolved given the values so far (the
evaluation may stop early on an error), and how the formula combines the
resolved values.  Non-formula cells are leaves. -/
structure Graph (V : Type) where
  isFormula : Nat → Bool
  refs : Nat → List Nat
  /-- continue resolving after having seen these values? -/
  cont : Nat → List V → Bool
  combine : Nat → List V → V
  leaf : Nat → V
  /-- zero `formulaArg` read from `iterationsCache` before the first evaluation finished -/
  blank : V

/-- `calcContext` plus two ghost counters -/
structure Ctx (V : Type) where
  iterations : Nat → Nat
  cache : Nat → Option V
  calls : Nat      -- ghost: invocations of calcCellValue
  resolves : Nat   -- ghost: invocations of cellResolver

def Ctx.init {V} : Ctx V := ⟨fun _ => 0, fun _ => none, 0, 0⟩

/-- `ctx.iterations[ref] <op> MaxCalcIterations` with the comparison found in the source;
any other comparison is modelled as "always allowed" (then the termination proof fails). -/
def cutoffAllows (it M : Nat) : Bool :=
  if Facts.C09.cutoffOp == "<=" then it ≤ M
  else if Facts.C09.cutoffOp == "<" then it < M
  else true

def bump {V} (c : Ctx V) (r : Nat) : Ctx V :=
  if Facts.C09.cutoffIncrements then
    { c with iterations := fun x => if x = r then c.iterations r + 1 else c.iterations x }
  else c

def setCache {V} (c : Ctx V) (r : Nat) (v : V) : Ctx V :=
  { c with cache := fun x => if x = r then some v else c.cache x }

/-- resolve the operands of one formula in order; `rec` is `calcCellValue` with less fuel.
`none` = out of fuel. -/
def resolveAll {V} (G : Graph V) (M entry : Nat) (rec : Ctx V → Nat → Option (V × Ctx V))
    (self : Nat) : List Nat → Ctx V → List V → Option (List V × Ctx V)
  | [], c, acc => some (acc, c)
  | r :: rs, c, acc =>
    if !G.cont self acc then some (acc, c) else
    let c := { c with resolves := c.resolves + 1 }
    -- cellResolver
    if G.isFormula r && r ≠ entry then
      if cutoffAllows (c.iterations r) M then
        match rec (bump c r) r with
        | none => none
        | some (v, c') => resolveAll G M entry rec self rs (setCache c' r v) (acc ++ [v])
      else
        let v := match c.cache r with
          | some v => v
          | none => G.blank
        resolveAll G M entry rec self rs c (acc ++ [v])
    else resolveAll G M entry rec self rs c (acc ++ [G.leaf r])

/-- `calcCellValue(ctx, sheet, cell)` with fuel -/
def calcCell {V} (G : Graph V) (M entry : Nat) : Nat → Ctx V → Nat → Option (V × Ctx V)
  | 0, _, _ => none
  | fuel + 1, c, cell =>
    let c := { c with calls := c.calls + 1 }
    match resolveAll G M entry (calcCell G M entry fuel) cell (G.refs cell) c [] with
    | none => none
    | some (vs, c') => some (G.combine cell vs, c')

/-- `CalcCellValue(sheet, cell)`: a fresh context per call -/
def calcEntry {V} (G : Graph V) (M : Nat) (fuel : Nat) (entry : Nat) : Option (V × Ctx V) :=
  calcCell G M entry fuel Ctx.init entry

/-! ## Part 3 — the state the evaluator touches outside its context:
`File.formulaChecked` and the lazily written `xlsxC.f` (cell.go: getCellFormula,
setArrayFormulaCells) -/

/-- class of a `CalcCellValue` answer -/
inductive Ans
  | value
  | error
  deriving DecidableEq, Repr

/-- `File.formulaChecked` -/
structure LazySt where
  checked : Bool
  deriving DecidableEq, Repr

/-- One evaluation on a workbook whose content makes `setArrayFormulaCells` fail
(`expandFails`) or not — a function of the content: it re-reads the same parts and
writes `c.f` only where it is empty, so a retry fails at the same place — and whose cell
evaluates to class `cellAns` once the expansion is in place.  Transcription of the
prologue of `getCellFormula(…, transformed = true)`; the position of
`f.formulaChecked = true` relative to the call is the regenerated fact. -/
def evalLazy (expandFails : Bool) (cellAns : Ans) (st : LazySt) : Ans × LazySt :=
  if !st.checked then
    if Facts.C09.flagSetBeforeExpansion then
      if expandFails then (.error, ⟨true⟩) else (cellAns, ⟨true⟩)
    else
      if expandFails then (.error, st) else (cellAns, ⟨true⟩)
  else (cellAns, st)

/-- the state of a `*File` after `k` evaluations since it was opened -/
def stateAfter (expandFails : Bool) (cellAns : Ans) : Nat → LazySt
  | 0 => ⟨false⟩
  | k + 1 => (evalLazy expandFails cellAns (stateAfter expandFails cellAns k)).2

/-- the answers (and flag values) of `n` consecutive evaluations on the same `*File` -/
def runLazy (expandFails : Bool) (cellAns : Ans) : Nat → LazySt → List (Ans × Bool)
  | 0, _ => []
  | n + 1, st =>
    let r := evalLazy expandFails cellAns st
    (r.1, r.2.checked) :: runLazy expandFails cellAns n r.2

end XlModel.CalcTotal
